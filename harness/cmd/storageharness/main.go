// storageharness runs the real openziti/storage code on generated cases and prints the
// observations the Coq models are compared with.  One sub-command per property family.
package main

import (
	"bufio"
	"encoding/hex"
	"encoding/json"
	"fmt"
	"os"
	"path/filepath"
	"sort"
	"strconv"
	"strings"
	"sync/atomic"
	"time"
)

type command func(o *opts) error

var commands = map[string]command{}

type opts struct {
	seed  int64
	tier  string
	out   string
	n     int
	args  []string
	extra map[string]string
}

func (o *opts) thorough() bool { return o.tier == "thorough" }

func (o *opts) get(key, def string) string {
	if v, ok := o.extra[key]; ok {
		return v
	}
	return def
}

func (o *opts) getInt(key string, def int) int {
	if v, ok := o.extra[key]; ok {
		if i, err := strconv.Atoi(v); err == nil {
			return i
		}
	}
	return def
}

func main() {
	if len(os.Args) < 2 {
		var names []string
		for k := range commands {
			names = append(names, k)
		}
		sort.Strings(names)
		fmt.Fprintf(os.Stderr, "usage: storageharness <%s> [--seed n] [--tier quick|thorough] [--out dir] [--key value ...]\n", strings.Join(names, "|"))
		os.Exit(2)
	}
	cmd, ok := commands[os.Args[1]]
	if !ok {
		fmt.Fprintf(os.Stderr, "unknown sub-command %q\n", os.Args[1])
		os.Exit(2)
	}
	o := &opts{seed: 1, tier: "quick", out: ".", extra: map[string]string{}}
	args := os.Args[2:]
	for i := 0; i < len(args); i++ {
		a := args[i]
		if strings.HasPrefix(a, "--") && i+1 < len(args) {
			key := a[2:]
			val := args[i+1]
			i++
			switch key {
			case "seed":
				o.seed, _ = strconv.ParseInt(val, 10, 64)
			case "tier":
				o.tier = val
			case "out":
				o.out = val
			case "n":
				o.n, _ = strconv.Atoi(val)
			default:
				o.extra[key] = val
			}
		} else {
			o.args = append(o.args, a)
		}
	}
	if err := os.MkdirAll(o.out, 0o755); err != nil {
		fmt.Fprintln(os.Stderr, err)
		os.Exit(2)
	}
	if err := cmd(o); err != nil {
		fmt.Fprintln(os.Stderr, "harness error:", err)
		os.Exit(3)
	}
}

// ---- output helpers --------------------------------------------------------------------

type lineWriter struct {
	f *os.File
	w *bufio.Writer
	n int
}

func newLineWriter(dir, name string) *lineWriter {
	f, err := os.Create(filepath.Join(dir, name))
	if err != nil {
		panic(err)
	}
	return &lineWriter{f: f, w: bufio.NewWriterSize(f, 1<<20)}
}

func (lw *lineWriter) line(format string, a ...interface{}) {
	fmt.Fprintf(lw.w, format, a...)
	lw.w.WriteByte('\n')
	lw.n++
}

func (lw *lineWriter) close() {
	lw.w.Flush()
	lw.f.Close()
}

// hx encodes a byte string for the case files; the empty string is "-"
func hx(b []byte) string {
	if len(b) == 0 {
		return "-"
	}
	return hex.EncodeToString(b)
}

func hxs(s string) string { return hx([]byte(s)) }

func unhx(s string) []byte {
	if s == "-" {
		return nil
	}
	b, err := hex.DecodeString(s)
	if err != nil {
		panic(err)
	}
	return b
}

func writeJSON(dir, name string, v interface{}) {
	b, err := json.MarshalIndent(v, "", " ")
	if err != nil {
		panic(err)
	}
	if err := os.WriteFile(filepath.Join(dir, name), b, 0o644); err != nil {
		panic(err)
	}
}

// ---- PRNG: splitmix64, every random choice of a run derives from the one seed ------------

type rng struct{ s uint64 }

// newRng scrambles the seed first: consecutive seeds must not give shifted copies of one stream
func newRng(seed int64) *rng {
	z := uint64(seed) + 0x632BE59BD9B4E019
	z = (z ^ (z >> 30)) * 0xBF58476D1CE4E5B9
	z = (z ^ (z >> 27)) * 0x94D049BB133111EB
	z ^= z >> 31
	return &rng{s: z}
}

func (r *rng) next() uint64 {
	r.s += 0x9E3779B97F4A7C15
	z := r.s
	z = (z ^ (z >> 30)) * 0xBF58476D1CE4E5B9
	z = (z ^ (z >> 27)) * 0x94D049BB133111EB
	return z ^ (z >> 31)
}

func (r *rng) intn(n int) int {
	if n <= 0 {
		return 0
	}
	return int(r.next() % uint64(n))
}

func (r *rng) chance(pct int) bool { return r.intn(100) < pct }

func (r *rng) pick(xs []string) string { return xs[r.intn(len(xs))] }

// ---- watchdog: library code that never returns cannot be recovered in-process ------------------
// A harness calls watchdogBeat(description of the case it is about to run); when no beat arrives for
// `limit`, the watchdog writes <out>/HANG.txt (the last description) and exits with status 7.

var wdCase atomic.Value
var wdBeat atomic.Int64

func watchdogBeat(desc string) {
	wdCase.Store(desc)
	wdBeat.Add(1)
}

func startWatchdog(out string, limit time.Duration) {
	go func() {
		last := int64(-1)
		lastChange := time.Now()
		for {
			time.Sleep(250 * time.Millisecond)
			b := wdBeat.Load()
			if b != last {
				last, lastChange = b, time.Now()
				continue
			}
			if b > 0 && time.Since(lastChange) > limit {
				desc, _ := wdCase.Load().(string)
				_ = os.WriteFile(filepath.Join(out, "HANG.txt"), []byte(desc+"\n"), 0o644)
				fmt.Fprintln(os.Stderr, "watchdog: no progress for", limit, "in case:", desc)
				os.Exit(7)
			}
		}
	}()
}
