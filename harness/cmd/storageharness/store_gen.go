package main

import (
	"fmt"
	"os"
	"strings"
)

// ---- wirings ---------------------------------------------------------------------------------

func sp(s string) *string { return &s }

// wiringByName returns a fresh copy of a named schema wiring.
//
//	idx    : unique (nullable and not), set index, nullable self fk index, non-null fk index, system constraint,
//	         plain child store with its own nullable unique index, link collection
//	fkc    : fk constraints, restrict (CascadeNone) and cascade delete
//	casc   : cascade-delete fk index chain a -> b -> c (acyclic), extended child store
func wiringByName(name string) *wiring {
	switch name {
	case "idx":
		return &wiring{Name: "idx", Stores: []*sStore{
			{Name: "emp", Fields: []sField{{"name", false}, {"nick", true}, {"boss", true}, {"dept", false}}, Sets: []string{"roles"}},
			{Name: "dept", Fields: []sField{{"title", false}}, Sets: []string{"tagsx"}},
			{Name: "mgr", Parent: "emp", Fields: []sField{{"level", true}}},
		}, Script: []wiringDecl{
			{Kind: "unique", Store: "emp", Field: "name"},
			{Kind: "unique", Store: "emp", Field: "nick", Nullable: true},
			{Kind: "setidx", Store: "emp", Field: "roles"},
			{Kind: "fkindex", Store: "emp", Field: "boss", Target: "emp", Back: "reports", Nullable: true},
			{Kind: "fkindex", Store: "emp", Field: "dept", Target: "dept", Back: "members"},
			{Kind: "system", Store: "emp"},
			{Kind: "unique", Store: "dept", Field: "title"},
			{Kind: "setidx", Store: "dept", Field: "tagsx"},
			{Kind: "unique", Store: "mgr", Field: "level", Nullable: true},
			{Kind: "link", Store: "emp", Field: "sites", Target: "dept", Back: "staff"},
		}}
	case "fkc":
		return &wiring{Name: "fkc", Stores: []*sStore{
			{Name: "emp", Fields: []sField{{"name", false}, {"boss", true}, {"dept", false}, {"room", true}}},
			{Name: "dept", Fields: []sField{{"title", false}}},
			{Name: "room", Fields: []sField{{"label", true}}},
		}, Script: []wiringDecl{
			{Kind: "unique", Store: "emp", Field: "name"},
			{Kind: "fkcons", Store: "emp", Field: "boss", Target: "emp", Nullable: true, Casc: "N"},
			{Kind: "fkcons", Store: "emp", Field: "dept", Target: "dept", Nullable: false, Casc: "D"},
			{Kind: "fkcons", Store: "emp", Field: "room", Target: "room", Nullable: true, Casc: "N"},
			{Kind: "unique", Store: "room", Field: "label", Nullable: true},
		}}
	case "casc":
		return &wiring{Name: "casc", Stores: []*sStore{
			{Name: "a", Fields: []sField{{"name", false}}, Sets: []string{"roles"}},
			{Name: "b", Fields: []sField{{"name", false}, {"a", false}}},
			{Name: "c", Fields: []sField{{"name", true}, {"b", false}, {"a", true}}},
			{Name: "bx", Parent: "b", Ext: true, Fields: []sField{{"code", true}}},
		}, Script: []wiringDecl{
			{Kind: "unique", Store: "a", Field: "name"},
			{Kind: "setidx", Store: "a", Field: "roles"},
			{Kind: "fkindexcascade", Store: "b", Field: "a", Target: "a", Back: "bs"},
			{Kind: "fkindexcascade", Store: "c", Field: "b", Target: "b", Back: "cs"},
			{Kind: "fkindex", Store: "c", Field: "a", Target: "a", Back: "cas", Nullable: true},
			{Kind: "unique", Store: "c", Field: "name", Nullable: true},
			{Kind: "unique", Store: "bx", Field: "code", Nullable: true},
			{Kind: "system", Store: "b"},
		}}
	}
	// wirings registered by property-specific files (not part of allWirings)
	if f, ok := extraWirings[name]; ok {
		return f()
	}
	return nil
}

var extraWirings = map[string]func() *wiring{}

var allWirings = []string{"idx", "fkc", "casc"}

// ---- generator -----------------------------------------------------------------------------

type genProfile struct {
	name        string
	wirings     []string
	ids         []string // id universe (shared by all stores of a history)
	vals        []string // value universe for plain fields
	maxTx       int
	maxOps      int
	pFail       int // percent of transactions that contain a caller failure
	pPreCommit  int
	pVeto       int
	pSys        int
	pSysEntity  int
	endInDelete bool
}

var plainIds = []string{"a", "b", "c", "d", "e", "f"}

// ids that are hostile to naive filter construction
var hostileIds = []string{`x" or id != "`, `a\`, `or`, `b c`, `"`, `not`, `a=b`, `(`, `x\"y`, `é`, "t\tb", `and true`, `a" or true or id = "`}

func profileFor(name string) *genProfile {
	p := &genProfile{name: name, wirings: allWirings, ids: plainIds, vals: []string{"v1", "v2", "v3", "", "v4"},
		maxTx: 7, maxOps: 3, pFail: 6, pPreCommit: 4, pVeto: 6, pSys: 25, pSysEntity: 20}
	switch name {
	case "c03":
		p.wirings = []string{"idx", "casc"}
	case "c04":
		p.wirings = []string{"idx", "fkc", "casc"}
	case "c06":
		p.endInDelete = true
	case "c07":
		p.pFail, p.pPreCommit, p.pVeto = 20, 15, 20
		p.maxOps = 4
	case "c15":
		p.wirings = []string{"idx", "casc"}
	case "c16":
		p.wirings = []string{"idx", "casc"}
		p.pSys, p.pSysEntity = 45, 45
	}
	return p
}

type histGen struct {
	r *rng
	w *wiring
	p *genProfile
	// what the generator believes exists (only to bias choices; never used as an oracle)
	alive map[string]map[string]bool
	ids   []string
}

func (g *histGen) pickId() string { return g.ids[g.r.intn(len(g.ids))] }

func (g *histGen) pickAlive(store string) string {
	root := store
	if p := g.w.store(store).Parent; p != "" {
		root = p
	}
	var xs []string
	for _, id := range g.ids {
		if g.alive[root][id] {
			xs = append(xs, id)
		}
	}
	if len(xs) == 0 || g.r.chance(15) {
		return g.pickId()
	}
	return xs[g.r.intn(len(xs))]
}

func (g *histGen) fkTargetOf(store, field string) string {
	for _, d := range g.w.Script {
		if d.Store == store && d.Field == field && (d.Kind == "fkindex" || d.Kind == "fkindexcascade" || d.Kind == "fkcons") {
			return d.Target
		}
	}
	return ""
}

func (g *histGen) fieldsValue(op *hOp) {
	op.F = map[string]*string{}
	op.S = map[string][]string{}
	fields, sets := g.w.allFields(op.Store)
	s := g.w.store(op.Store)
	if s.Parent == "" {
		for _, c := range g.w.Stores {
			if c.Parent == s.Name {
				fields = append(fields, c.Fields...)
			}
		}
	}
	root := op.Store
	if s.Parent != "" {
		root = s.Parent
	}
	for _, f := range fields {
		owner := op.Store
		if g.fkTargetOf(owner, f.Name) == "" && s.Parent != "" {
			owner = s.Parent
		}
		if t := g.fkTargetOf(owner, f.Name); t != "" {
			switch {
			case f.Ptr && g.r.chance(35):
				// nil
			case g.r.chance(8):
				op.F[f.Name] = sp("")
			case g.r.chance(6) && t == root:
				op.F[f.Name] = sp(op.Id) // self reference
			default:
				op.F[f.Name] = sp(g.pickAlive(t))
			}
			continue
		}
		switch {
		case f.Ptr && g.r.chance(25):
			// nil
		default:
			op.F[f.Name] = sp(g.p.vals[g.r.intn(len(g.p.vals))])
		}
	}
	for _, sn := range sets {
		n := g.r.intn(4)
		var l []string
		for i := 0; i < n; i++ {
			v := g.p.vals[g.r.intn(len(g.p.vals))]
			if v == "" && !g.r.chance(10) {
				v = "r"
			}
			l = append(l, v)
		}
		op.S[sn] = l
	}
}

func (g *histGen) genOp() hOp {
	stores := g.w.Stores
	st := stores[g.r.intn(len(stores))]
	root := st.Name
	if st.Parent != "" {
		root = st.Parent
	}
	k := g.r.intn(100)
	switch {
	case k < 38:
		op := hOp{Kind: "C", Store: st.Name, Id: g.pickId(), Sys: g.r.chance(g.p.pSysEntity)}
		if g.r.chance(70) { // prefer an id that does not exist yet
			for try := 0; try < 4 && g.alive[root][op.Id]; try++ {
				op.Id = g.pickId()
			}
		}
		if g.r.chance(2) {
			op.Id = ""
		}
		g.fieldsValue(&op)
		g.alive[root][op.Id] = true
		return op
	case k < 66:
		op := hOp{Kind: "UP", Store: st.Name, Id: g.pickAlive(st.Name), Sys: g.r.chance(g.p.pSysEntity)}
		g.fieldsValue(&op)
		if g.r.chance(45) {
			op.HasChk = true
			fields, sets := g.w.allFields(st.Name)
			for _, f := range fields {
				if g.r.chance(45) {
					op.Checker = append(op.Checker, f.Name)
				}
			}
			for _, sn := range sets {
				if g.r.chance(45) {
					op.Checker = append(op.Checker, sn)
				}
			}
		}
		return op
	case k < 88:
		op := hOp{Kind: "D", Store: st.Name, Id: g.pickAlive(st.Name)}
		delete(g.alive[root], op.Id)
		return op
	default:
		// link ops where the wiring has a link collection, else an update
		for _, s2 := range g.w.Stores {
			s2 := s2
			if len(g.w.store(s2.Name).Links) > 0 && g.r.chance(60) {
				l := s2.Links[g.r.intn(len(s2.Links))]
				op := hOp{Kind: "AL", Store: s2.Name, Id: g.pickAlive(s2.Name), LinkF: l.Local}
				if g.r.chance(30) {
					op.Kind = "RL"
				}
				n := 1 + g.r.intn(3)
				for i := 0; i < n; i++ {
					op.Targets = append(op.Targets, g.pickAlive(l.Other))
				}
				return op
			}
		}
		op := hOp{Kind: "D", Store: st.Name, Id: g.pickAlive(st.Name)}
		delete(g.alive[root], op.Id)
		return op
	}
}

func (g *histGen) genTx() hTx {
	t := hTx{Sys: g.r.chance(g.p.pSys), PreCommitErr: g.r.chance(g.p.pPreCommit)}
	n := 1 + g.r.intn(g.p.maxOps)
	for i := 0; i < n; i++ {
		t.Ops = append(t.Ops, g.genOp())
	}
	if g.r.chance(g.p.pFail) {
		pos := g.r.intn(len(t.Ops) + 1)
		ops := append([]hOp{}, t.Ops[:pos]...)
		ops = append(ops, hOp{Kind: "FAIL"})
		ops = append(ops, t.Ops[pos:]...)
		t.Ops = ops
	}
	if g.r.chance(g.p.pVeto) {
		// veto one of the changes this transaction attempts (or a parent event of it)
		op := t.Ops[g.r.intn(len(t.Ops))]
		if op.Kind == "C" || op.Kind == "UP" || op.Kind == "D" {
			ch := map[string]string{"C": "C", "UP": "U", "D": "D"}[op.Kind]
			store := op.Store
			if g.r.chance(40) {
				if p := g.w.store(store).Parent; p != "" {
					store = p
				} else {
					for _, c := range g.w.Stores {
						if c.Parent == store && g.r.chance(60) {
							store = c.Name
						}
					}
				}
			}
			t.Vetoes = append(t.Vetoes, hVeto{Store: store, Change: ch, Id: op.Id})
		}
	}
	return t
}

func (g *histGen) genHistory() []hTx {
	g.alive = map[string]map[string]bool{}
	for _, s := range g.w.Stores {
		if s.Parent == "" {
			g.alive[s.Name] = map[string]bool{}
		}
	}
	n := 1 + g.r.intn(g.p.maxTx)
	var txs []hTx
	for i := 0; i < n; i++ {
		txs = append(txs, g.genTx())
	}
	if g.p.endInDelete {
		st := g.w.Stores[g.r.intn(len(g.w.Stores))]
		id := g.pickAlive(st.Name)
		txs = append(txs, hTx{Sys: true, Ops: []hOp{{Kind: "D", Store: st.Name, Id: id}}})
		// and re-create it afterwards: must behave like a fresh id
		op := hOp{Kind: "C", Store: st.Name, Id: id}
		g.fieldsValue(&op)
		txs = append(txs, hTx{Sys: true, Ops: []hOp{op}})
	}
	return txs
}

// ---- sub-command -------------------------------------------------------------------------------

func init() { commands["store"] = runStore }

// runHistory executes a history on a fresh database and returns the case line and the observation line
func runHistory(w *wiring, txs []hTx, dir string) (string, string, error) {
	h, err := openHarnessDb(w, dir)
	if err != nil {
		return "", "", err
	}
	defer h.close()
	var c, o strings.Builder
	c.WriteString(w.text())
	for i := range txs {
		c.WriteString(" ")
		c.WriteString(w.txText(&txs[i]))
		o.WriteString(h.runTx(&txs[i]))
	}
	return c.String(), o.String(), nil
}

func runStore(o *opts) error {
	prof := profileFor(o.get("profile", "c03"))
	cases := newLineWriter(o.out, "cases.txt")
	impl := newLineWriter(o.out, "impl.txt")
	defer cases.close()
	defer impl.close()
	tmp := o.get("tmp", os.TempDir())
	stats := map[string]int{}
	n := 400
	if o.thorough() {
		n = 6000
	}
	if o.n > 0 {
		n = o.n
	}
	// corpus: hand-written / previously failing cases in the case-line format, executed first
	if cp := o.get("corpus", ""); cp != "" {
		data, err := os.ReadFile(cp)
		if err != nil {
			return err
		}
		for _, line := range strings.Split(string(data), "\n") {
			line = strings.TrimSpace(line)
			if line == "" || strings.HasPrefix(line, "#") {
				continue
			}
			w, txs, err := parseCase(line)
			if err != nil {
				return fmt.Errorf("corpus %s: %v", cp, err)
			}
			c, obs, err := runHistory(w, txs, tmp)
			if err != nil {
				return err
			}
			cases.line("%s", c)
			impl.line("%s", obs)
			stats["corpus"]++
		}
	}
	if o.n == 0 && o.get("corpus", "") != "" && o.get("profile", "") == "" {
		writeJSON(o.out, "stats.json", stats)
		return nil
	}
	r := newRng(o.seed)
	only := o.getInt("only", -1)
	for i := 0; i < n; i++ {
		w := wiringByName(prof.wirings[i%len(prof.wirings)])
		w.derive()
		g := &histGen{r: r, w: w, p: prof, ids: prof.ids}
		if prof.name == "c04" && i%3 == 0 {
			// adversarial id alphabet
			g.ids = nil
			for k := 0; k < 5; k++ {
				g.ids = append(g.ids, hostileIds[r.intn(len(hostileIds))])
			}
			g.ids = append(g.ids, "a")
		}
		txs := g.genHistory()
		if only >= 0 && i != only {
			continue
		}
		c, obs, err := runHistory(w, txs, tmp)
		if err != nil {
			return err
		}
		cases.line("%s", c)
		impl.line("%s", obs)
		stats["histories"]++
		stats["wiring_"+w.Name]++
		stats["tx"] += len(txs)
		for _, t := range txs {
			stats["ops"] += len(t.Ops)
			for _, op := range t.Ops {
				stats["op_"+op.Kind]++
			}
			if t.Sys {
				stats["tx_sys"]++
			}
			if t.PreCommitErr {
				stats["tx_precommit_err"]++
			}
			if len(t.Vetoes) > 0 {
				stats["tx_veto"]++
			}
		}
		stats["obs_commit"] += strings.Count(obs, " COMMIT")
		stats["obs_rollback"] += strings.Count(obs, " ROLLBACK")
		for _, k := range []string{" dup", " notfound", " refexists", " err"} {
			stats["res_"+strings.TrimSpace(k)] += strings.Count(obs, k+" ") // approximate
		}
	}
	writeJSON(o.out, "stats.json", stats)
	fmt.Fprintf(os.Stderr, "store: %d histories\n", n)
	return nil
}

// parseCase reads a case line (WIRING <name> SCH ... TX ...) back into a wiring and a history
func parseCase(line string) (*wiring, []hTx, error) {
	toks := strings.Fields(line)
	if len(toks) < 3 || toks[0] != "WIRING" {
		return nil, nil, fmt.Errorf("case must start with WIRING <name>")
	}
	w := wiringByName(toks[1])
	if w == nil {
		return nil, nil, fmt.Errorf("unknown wiring %q", toks[1])
	}
	w.derive()
	pos := 0
	for pos < len(toks) && toks[pos] != "TX" {
		pos++
	}
	next := func() string { t := toks[pos]; pos++; return t }
	nextInt := func() int { var n int; fmt.Sscanf(next(), "%d", &n); return n }
	var txs []hTx
	for pos < len(toks) {
		if next() != "TX" {
			return nil, nil, fmt.Errorf("expected TX at token %d", pos)
		}
		t := hTx{Sys: next() == "1", PreCommitErr: next() == "1"}
		for nv := nextInt(); nv > 0; nv-- {
			t.Vetoes = append(t.Vetoes, hVeto{Store: next(), Change: next(), Id: string(unhx(next()))})
		}
		for no := nextInt(); no > 0; no-- {
			op := hOp{Kind: next()}
			fvsv := func() {
				op.F = map[string]*string{}
				op.S = map[string][]string{}
				for nf := nextInt(); nf > 0; nf-- {
					f := next()
					v := next()
					if v != "N" {
						op.F[f] = sp(string(unhx(v)))
					}
				}
				for ns := nextInt(); ns > 0; ns-- {
					f := next()
					var l []string
					for k := nextInt(); k > 0; k-- {
						l = append(l, string(unhx(next())))
					}
					op.S[f] = l
				}
			}
			switch op.Kind {
			case "C":
				op.Store, op.Id, op.Sys = next(), string(unhx(next())), next() == "1"
				fvsv()
			case "UP":
				op.Store, op.Id = next(), string(unhx(next()))
				fvsv()
				if c := next(); c != "-" {
					op.HasChk = true
					var n int
					fmt.Sscanf(c, "%d", &n)
					for ; n > 0; n-- {
						op.Checker = append(op.Checker, next())
					}
				}
			case "D":
				op.Store, op.Id = next(), string(unhx(next()))
			case "AL", "RL":
				op.Store, op.Id, op.LinkF = next(), string(unhx(next())), next()
				for k := nextInt(); k > 0; k-- {
					op.Targets = append(op.Targets, string(unhx(next())))
				}
			case "FAIL":
			default:
				return nil, nil, fmt.Errorf("bad op %q", op.Kind)
			}
			t.Ops = append(t.Ops, op)
		}
		txs = append(txs, t)
	}
	return w, txs, nil
}
