package main

import (
	"fmt"
	"os"
	"strings"

	"github.com/openziti/storage/ast"
	"go.etcd.io/bbolt"
)

// ---- wirings ---------------------------------------------------------------------------------

func sp(s string) *string { return &s }

// wiringByName returns a fresh copy of a named schema wiring.
//
//	idx    : unique (nullable and not), set index, nullable self fk index, non-null fk index, system constraint,
//	         plain child store with its own nullable unique index, link collection
//	fkc    : fk constraints, restrict (CascadeNone) and cascade delete
//	casc   : cascade-delete fk index chain a -> b -> c (acyclic), extended child store
func wiringByName(name string) *wiring {
	switch name {
	case "idx":
		return &wiring{Name: "idx", Stores: []*sStore{
			{Name: "emp", Fields: []sField{{Name: "name"}, {Name: "nick", Ptr: true, Sym: "nickSym"}, {Name: "boss", Ptr: true}, {Name: "dept"}}, Sets: []string{"roles"}},
			{Name: "dept", Fields: []sField{{Name: "title", Sym: "titleSym"}}, Sets: []string{"tagsx"}},
			{Name: "mgr", Parent: "emp", Fields: []sField{{Name: "level", Ptr: true}}},
		}, Script: []wiringDecl{
			{Kind: "unique", Store: "emp", Field: "name"},
			{Kind: "unique", Store: "emp", Field: "nick", Nullable: true},
			{Kind: "setidx", Store: "emp", Field: "roles"},
			{Kind: "fkindex", Store: "emp", Field: "boss", Target: "emp", Back: "reports", Nullable: true},
			{Kind: "fkindex", Store: "emp", Field: "dept", Target: "dept", Back: "members"},
			{Kind: "system", Store: "emp"},
			{Kind: "unique", Store: "dept", Field: "title"},
			{Kind: "setidx", Store: "dept", Field: "tagsx"},
			{Kind: "unique", Store: "mgr", Field: "level", Nullable: true},
			{Kind: "link", Store: "emp", Field: "sites", Target: "dept", Back: "staff"},
		}}
	case "fkc":
		return &wiring{Name: "fkc", Stores: []*sStore{
			{Name: "emp", Fields: []sField{{Name: "name"}, {Name: "boss", Ptr: true, Sym: "bossSym"}, {Name: "dept"}, {Name: "room", Ptr: true}}},
			{Name: "dept", Fields: []sField{{Name: "title"}}},
			{Name: "room", Fields: []sField{{Name: "label", Ptr: true}}},
		}, Script: []wiringDecl{
			{Kind: "unique", Store: "emp", Field: "name"},
			{Kind: "fkcons", Store: "emp", Field: "boss", Target: "emp", Nullable: true, Casc: "N"},
			{Kind: "fkcons", Store: "emp", Field: "dept", Target: "dept", Nullable: false, Casc: "D"},
			{Kind: "fkcons", Store: "emp", Field: "room", Target: "room", Nullable: true, Casc: "N"},
			{Kind: "unique", Store: "room", Field: "label", Nullable: true},
		}}
	case "casc":
		return &wiring{Name: "casc", Stores: []*sStore{
			{Name: "a", Fields: []sField{{Name: "name"}}, Sets: []string{"roles"}},
			{Name: "b", Fields: []sField{{Name: "name"}, {Name: "a"}}},
			{Name: "c", Fields: []sField{{Name: "name", Ptr: true, Sym: "cname"}, {Name: "b"}, {Name: "a", Ptr: true}}},
			{Name: "bx", Parent: "b", Ext: true, Fields: []sField{{Name: "code", Ptr: true}}},
		}, Script: []wiringDecl{
			{Kind: "unique", Store: "a", Field: "name"},
			{Kind: "setidx", Store: "a", Field: "roles"},
			{Kind: "fkindexcascade", Store: "b", Field: "a", Target: "a", Back: "bs"},
			{Kind: "fkindexcascade", Store: "c", Field: "b", Target: "b", Back: "cs"},
			{Kind: "fkindex", Store: "c", Field: "a", Target: "a", Back: "cas", Nullable: true},
			{Kind: "unique", Store: "c", Field: "name", Nullable: true},
			{Kind: "unique", Store: "bx", Field: "code", Nullable: true},
			{Kind: "system", Store: "b"},
		}}
	case "ufk":
		// C09 only (not in allWirings): a unique index on a field that also carries a nullable fk constraint -
		// the schema shape wf_c09 refuses (design/C09.md, "order dependence")
		return &wiring{Name: "ufk", Stores: []*sStore{
			{Name: "emp", Fields: []sField{{Name: "name"}, {Name: "boss", Ptr: true}}},
		}, Script: []wiringDecl{
			{Kind: "unique", Store: "emp", Field: "name"},
			{Kind: "unique", Store: "emp", Field: "boss", Nullable: true},
			{Kind: "fkcons", Store: "emp", Field: "boss", Target: "emp", Nullable: true, Casc: "N"},
		}}
	}
	// wirings registered by property-specific files (not part of allWirings)
	if f, ok := extraWirings[name]; ok {
		return f()
	}
	return nil
}

var extraWirings = map[string]func() *wiring{}

var allWirings = []string{"idx", "fkc", "casc"}

// ---- generator -----------------------------------------------------------------------------

type genProfile struct {
	name        string
	wirings     []string
	ids         []string // id universe (shared by all stores of a history)
	vals        []string // value universe for plain fields
	maxTx       int
	maxOps      int
	pFail       int // percent of transactions that contain a caller failure
	pPreCommit  int
	pVeto       int
	pSys        int
	pSysEntity  int
	pBatch      int // percent of transactions run through Db.Batch
	pLongKey    int // percent of plain field values replaced by a 33000-byte string (bbolt: key too large)
	pSharedCtx  int // percent of histories whose transactions all run with one shared mutate context ("@ctx")
	pRecreate   int // percent of transactions that delete an entity, re-create its id and (mostly) delete it again
	endInDelete bool
}

var plainIds = []string{"a", "b", "c", "d", "e", "f"}

// ids that are hostile to naive filter construction
var hostileIds = []string{`x" or id != "`, `a\`, `or`, `b c`, `"`, `not`, `a=b`, `(`, `x\"y`, `é`, "t\tb", `and true`, `a" or true or id = "`}

func profileFor(name string) *genProfile {
	p := &genProfile{name: name, wirings: allWirings, ids: plainIds, vals: []string{"v1", "v2", "v3", "", "v4", "v5", "v6", "v7", "v8"},
		maxTx: 7, maxOps: 3, pFail: 6, pPreCommit: 4, pVeto: 6, pSys: 25, pSysEntity: 20, pSharedCtx: 20, pRecreate: 8}
	switch name {
	case "c03":
		p.wirings = []string{"idx", "casc"}
	case "c04":
		p.wirings = []string{"idx", "fkc", "casc"}
	case "c06":
		p.endInDelete = true
	case "c07":
		p.pFail, p.pPreCommit, p.pVeto = 12, 8, 14
		p.maxOps = 4
		p.pBatch, p.pLongKey = 12, 2
	case "c15":
		p.wirings = []string{"idx", "casc"}
	case "c16":
		p.wirings = []string{"idx", "casc"}
		p.pSys, p.pSysEntity = 45, 45
	}
	return p
}

type histGen struct {
	r *rng
	w *wiring
	p *genProfile
	// what the generator believes exists (only to bias choices; never used as an oracle)
	alive  map[string]map[string]bool
	ids    []string
	curSys bool // the transaction being generated runs in a system context
	ctxMode int // 0 = not drawn yet, 1 = every transaction of the history shares one mutate context, 2 = fresh contexts
}

func (g *histGen) pickId() string { return g.ids[g.r.intn(len(g.ids))] }

func (g *histGen) aliveIds(store string) []string {
	var xs []string
	for _, id := range g.ids {
		if g.alive[store][id] {
			xs = append(xs, id)
		}
	}
	return xs
}

func (g *histGen) rootOf(store string) string {
	if p := g.w.store(store).Parent; p != "" {
		return p
	}
	return store
}

func (g *histGen) pickAlive(store string) string {
	xs := g.aliveIds(store)
	if len(xs) == 0 || g.r.chance(8) {
		return g.pickId()
	}
	return xs[g.r.intn(len(xs))]
}

func (g *histGen) fkTargetOf(store, field string) string {
	for _, d := range g.w.Script {
		if d.Store == store && d.Field == field && (d.Kind == "fkindex" || d.Kind == "fkindexcascade" || d.Kind == "fkcons") {
			return d.Target
		}
	}
	return ""
}

func (g *histGen) fieldsValue(op *hOp) {
	op.F = map[string]*string{}
	op.S = map[string][]string{}
	fields, sets := g.w.allFields(op.Store)
	s := g.w.store(op.Store)
	if s.Parent == "" {
		for _, c := range g.w.Stores {
			if c.Parent == s.Name {
				fields = append(fields, c.Fields...)
			}
		}
	}
	root := op.Store
	if s.Parent != "" {
		root = s.Parent
	}
	for _, f := range fields {
		if f.Typ != "" { // typed field (store_c03t.go): a value of the type's own universe in its storage encoding
			c03tGenFieldValue(g, op, f)
			continue
		}
		owner := op.Store
		if g.fkTargetOf(owner, f.Name) == "" && s.Parent != "" {
			owner = s.Parent
		}
		if t := g.fkTargetOf(owner, f.Name); t != "" {
			switch {
			case f.Ptr && g.r.chance(35):
				// nil
			case g.r.chance(8):
				op.F[f.Name] = sp("")
			case g.r.chance(6) && t == root:
				op.F[f.Name] = sp(op.Id) // self reference
			default:
				op.F[f.Name] = sp(g.pickAlive(t))
			}
			continue
		}
		switch {
		case f.Ptr && g.r.chance(25):
			// nil
		case g.p.pLongKey > 0 && g.r.chance(g.p.pLongKey):
			op.F[f.Name] = sp(strings.Repeat("k", 33000))
		default:
			op.F[f.Name] = sp(g.p.vals[g.r.intn(len(g.p.vals))])
		}
	}
	for _, sn := range sets {
		n := g.r.intn(4)
		var l []string
		for i := 0; i < n; i++ {
			v := g.p.vals[g.r.intn(len(g.p.vals))]
			if v == "" && !g.r.chance(10) {
				v = "r"
			}
			l = append(l, v)
		}
		op.S[sn] = l
	}
}

// missingTarget returns a store that must get an entity before store st can be created
// (a non-nullable fk field whose target store is empty), or ""
func (g *histGen) missingTarget(st *sStore) string {
	fields, _ := g.w.allFields(st.Name)
	for _, f := range fields {
		if f.Ptr {
			continue
		}
		owner := st.Name
		if g.fkTargetOf(owner, f.Name) == "" && st.Parent != "" {
			owner = st.Parent
		}
		if t := g.fkTargetOf(owner, f.Name); t != "" && t != g.rootOf(st.Name) && len(g.aliveIds(t)) == 0 {
			return t
		}
	}
	return ""
}

func (g *histGen) markCreated(store, id string) {
	for _, n := range []string{store, g.rootOf(store)} {
		if g.alive[n] == nil {
			g.alive[n] = map[string]bool{}
		}
		g.alive[n][id] = true
	}
}

func (g *histGen) markDeleted(store, id string) {
	root := g.rootOf(store)
	delete(g.alive[root], id)
	for _, s := range g.w.Stores {
		if s.Parent == root {
			delete(g.alive[s.Name], id)
		}
	}
}

func (g *histGen) genCreate(st *sStore) hOp {
	if g.r.chance(90) {
		for depth := 0; depth < 3; depth++ {
			t := g.missingTarget(st)
			if t == "" {
				break
			}
			st = g.w.store(t)
		}
	}
	root := g.rootOf(st.Name)
	op := hOp{Kind: "C", Store: st.Name, Id: g.pickId(), Sys: g.r.chance(g.p.pSysEntity) && (g.curSys || g.r.chance(6))}
	if g.r.chance(90) { // prefer an id that does not exist yet
		for try := 0; try < 8 && g.alive[root][op.Id]; try++ {
			op.Id = g.pickId()
		}
	}
	if g.r.chance(2) {
		op.Id = ""
	}
	g.fieldsValue(&op)
	g.markCreated(st.Name, op.Id)
	return op
}

func (g *histGen) genOp() hOp {
	stores := g.w.Stores
	st := stores[g.r.intn(len(stores))]
	k := g.r.intn(100)
	if len(g.aliveIds(st.Name)) == 0 && g.r.chance(92) {
		k = 0 // nothing to update or delete yet
	}
	switch {
	case k < 36:
		return g.genCreate(st)
	case k < 66:
		op := hOp{Kind: "UP", Store: st.Name, Id: g.pickAlive(st.Name), Sys: g.r.chance(g.p.pSysEntity)}
		g.fieldsValue(&op)
		if g.r.chance(45) {
			op.HasChk = true
			fields, sets := g.w.allFields(st.Name)
			for _, f := range fields {
				if g.r.chance(45) {
					op.Checker = append(op.Checker, f.Name)
				}
			}
			for _, sn := range sets {
				if g.r.chance(45) {
					op.Checker = append(op.Checker, sn)
				}
			}
		}
		return op
	case k < 86:
		op := hOp{Kind: "D", Store: st.Name, Id: g.pickAlive(st.Name)}
		g.markDeleted(st.Name, op.Id)
		return op
	default:
		// link ops where the wiring has a link collection, else an update of a single field
		for _, s2 := range g.w.Stores {
			if len(s2.Links) > 0 && len(g.aliveIds(s2.Name)) > 0 {
				l := s2.Links[g.r.intn(len(s2.Links))]
				op := hOp{Kind: "AL", Store: s2.Name, Id: g.pickAlive(s2.Name), LinkF: l.Local}
				if g.r.chance(30) {
					op.Kind = "RL"
				}
				n := 1 + g.r.intn(3)
				for i := 0; i < n; i++ {
					op.Targets = append(op.Targets, g.pickAlive(l.Other))
				}
				return op
			}
		}
		return g.genCreate(st)
	}
}

func (g *histGen) genTx() hTx {
	t := hTx{Sys: g.r.chance(g.p.pSys), PreCommitErr: g.r.chance(g.p.pPreCommit)}
	g.curSys = t.Sys
	if g.ctxMode == 0 {
		g.ctxMode = 2
		if g.p.pSharedCtx > 0 && g.r.chance(g.p.pSharedCtx) {
			g.ctxMode = 1
		}
	}
	if g.ctxMode == 1 {
		// pre-commit actions stay registered on a context for good: not combined with a shared one
		t.PreCommitErr = false
		t.Vetoes = append(t.Vetoes, hVeto{Store: "@ctx", Change: "C", Id: ""})
	}
	n := 1 + g.r.intn(g.p.maxOps)
	for i := 0; i < n; i++ {
		t.Ops = append(t.Ops, g.genOp())
	}
	if g.p.pRecreate > 0 && g.r.chance(g.p.pRecreate) {
		// delete - re-create - delete of one id inside the transaction (the second delete must do all the work again)
		st := g.w.Stores[g.r.intn(len(g.w.Stores))]
		if alive := g.aliveIds(st.Name); len(alive) > 0 {
			id := alive[g.r.intn(len(alive))]
			g.markDeleted(st.Name, id)
			t.Ops = append(t.Ops, hOp{Kind: "D", Store: st.Name, Id: id})
			saved := g.ids
			g.ids = []string{id}
			t.Ops = append(t.Ops, g.genCreate(st))
			g.ids = saved
			if g.r.chance(70) {
				g.markDeleted(st.Name, id)
				t.Ops = append(t.Ops, hOp{Kind: "D", Store: st.Name, Id: id})
			}
		}
	}
	if g.r.chance(g.p.pFail) {
		pos := g.r.intn(len(t.Ops) + 1)
		ops := append([]hOp{}, t.Ops[:pos]...)
		fail := hOp{Kind: "FAIL"}
		if g.r.chance(35) { // a create the storage layer must reject (unsupported tag value)
			roots := []string{}
			for _, s := range g.w.Stores {
				if s.Parent == "" {
					roots = append(roots, s.Name)
				}
			}
			fail = hOp{Kind: "CT", Store: roots[g.r.intn(len(roots))], Id: "ct" + g.pickId()}
			g.fieldsValue(&fail)
			for k, v := range fail.F { // keep the create valid apart from its tags
				if v != nil && *v == "" {
					fail.F[k] = sp("ctv")
				}
			}
		}
		ops = append(ops, fail)
		ops = append(ops, t.Ops[pos:]...)
		t.Ops = ops
	}
	if g.p.pBatch > 0 && g.r.chance(g.p.pBatch) {
		t.Vetoes = append(t.Vetoes, hVeto{Store: "@batch", Change: "C", Id: ""})
	}
	if g.r.chance(g.p.pVeto) {
		// veto one of the changes this transaction attempts (or a parent event of it)
		op := t.Ops[g.r.intn(len(t.Ops))]
		if op.Kind == "C" || op.Kind == "UP" || op.Kind == "D" {
			ch := map[string]string{"C": "C", "UP": "U", "D": "D"}[op.Kind]
			store := op.Store
			if g.r.chance(40) {
				if p := g.w.store(store).Parent; p != "" {
					store = p
				} else {
					for _, c := range g.w.Stores {
						if c.Parent == store && g.r.chance(60) {
							store = c.Name
						}
					}
				}
			}
			t.Vetoes = append(t.Vetoes, hVeto{Store: store, Change: ch, Id: op.Id})
		}
	}
	return t
}

// refresh makes the generator's view of which ids exist follow the real database (only to bias the
// choices towards mostly-valid operations; never used as an oracle)
func (g *histGen) refresh(h *harnessDb) {
	g.alive = map[string]map[string]bool{}
	for _, s := range g.w.Stores {
		g.alive[s.Name] = map[string]bool{}
	}
	if h == nil {
		return
	}
	_ = h.db.View(func(tx *bbolt.Tx) error {
		for _, s := range g.w.Stores {
			root := s.Name
			if s.Parent != "" {
				root = s.Parent
			}
			for c := h.stores[root].IterateIds(tx, ast.BoolNodeTrue); c.IsValid(); c.Next() {
				id := string(c.Current())
				if s.Parent == "" || h.stores[s.Name].IsEntityPresent(tx, id) {
					g.alive[s.Name][id] = true
				}
			}
		}
		return nil
	})
}

// genAndRun generates a history transaction by transaction against the live database and executes it
func (g *histGen) genAndRun(h *harnessDb) ([]hTx, string) {
	var obs strings.Builder
	n := 1 + g.r.intn(g.p.maxTx)
	var txs []hTx
	step := func(t hTx) {
		txs = append(txs, t)
		obs.WriteString(h.runTx(&txs[len(txs)-1]))
	}
	for i := 0; i < n; i++ {
		g.refresh(h)
		step(g.genTx())
	}
	if g.p.endInDelete {
		g.refresh(h)
		st := g.w.Stores[g.r.intn(len(g.w.Stores))]
		id := g.pickAlive(st.Name)
		step(hTx{Sys: true, Ops: []hOp{{Kind: "D", Store: st.Name, Id: id}}})
		// and re-create it afterwards: must behave like a fresh id
		g.refresh(h)
		op := hOp{Kind: "C", Store: st.Name, Id: id}
		g.fieldsValue(&op)
		step(hTx{Sys: true, Ops: []hOp{op}})
		for k := g.r.intn(3); k > 0; k-- {
			g.refresh(h)
			step(g.genTx())
		}
	}
	return txs, obs.String()
}

// ---- sub-command -------------------------------------------------------------------------------

func init() { commands["store"] = runStore }

// runHistory executes a history on a fresh database and returns the case line and the observation line
func runHistory(w *wiring, txs []hTx, dir string) (string, string, error) {
	h, err := openHarnessDb(w, dir)
	if err != nil {
		return "", "", err
	}
	defer h.close()
	var c, o strings.Builder
	c.WriteString(w.text())
	for i := range txs {
		c.WriteString(" ")
		c.WriteString(w.txText(&txs[i]))
		o.WriteString(h.runTx(&txs[i]))
	}
	return c.String(), o.String(), nil
}

func runStore(o *opts) error {
	prof := profileFor(o.get("profile", "c03"))
	cases := newLineWriter(o.out, "cases.txt")
	impl := newLineWriter(o.out, "impl.txt")
	defer cases.close()
	defer impl.close()
	tmp := o.get("tmp", os.TempDir())
	stats := map[string]int{}
	n := 400
	if o.thorough() {
		n = 6000
	}
	if o.n > 0 {
		n = o.n
	}
	// corpus: hand-written / previously failing cases in the case-line format, executed first
	if cp := o.get("corpus", ""); cp != "" {
		data, err := os.ReadFile(cp)
		if err != nil {
			return err
		}
		for _, line := range strings.Split(string(data), "\n") {
			line = strings.TrimSpace(line)
			if line == "" || strings.HasPrefix(line, "#") {
				continue
			}
			w, txs, err := parseCase(line)
			if err != nil {
				return fmt.Errorf("corpus %s: %v", cp, err)
			}
			c, obs, err := runHistory(w, txs, tmp)
			if err != nil {
				return err
			}
			cases.line("%s", c)
			impl.line("%s", obs)
			stats["corpus"]++
		}
	}
	if o.n == 0 && o.get("corpus", "") != "" && o.get("profile", "") == "" {
		writeJSON(o.out, "stats.json", stats)
		return nil
	}
	r := newRng(o.seed)
	for i := 0; i < n; i++ {
		w := wiringByName(prof.wirings[i%len(prof.wirings)])
		w.derive()
		g := &histGen{r: r, w: w, p: prof, ids: prof.ids}
		if prof.name == "c04" && i%3 == 0 {
			// adversarial id alphabet
			g.ids = nil
			for k := 0; k < 5; k++ {
				g.ids = append(g.ids, hostileIds[r.intn(len(hostileIds))])
			}
			g.ids = append(g.ids, "a")
		}
		h, err := openHarnessDb(w, tmp)
		if err != nil {
			return err
		}
		txs, obs := g.genAndRun(h)
		h.close()
		var cb strings.Builder
		cb.WriteString(w.text())
		for k := range txs {
			cb.WriteString(" ")
			cb.WriteString(w.txText(&txs[k]))
		}
		c := cb.String()
		cases.line("%s", c)
		impl.line("%s", obs)
		stats["histories"]++
		stats["wiring_"+w.Name]++
		stats["tx"] += len(txs)
		for _, t := range txs {
			stats["ops"] += len(t.Ops)
			for _, op := range t.Ops {
				stats["op_"+op.Kind]++
			}
			if t.Sys {
				stats["tx_sys"]++
			}
			if t.PreCommitErr {
				stats["tx_precommit_err"]++
			}
			if len(t.Vetoes) > 0 {
				stats["tx_veto"]++
			}
		}
		stats["obs_commit"] += strings.Count(obs, " COMMIT")
		stats["obs_rollback"] += strings.Count(obs, " ROLLBACK")
		for _, k := range []string{" dup", " notfound", " refexists", " err"} {
			stats["res_"+strings.TrimSpace(k)] += strings.Count(obs, k+" ") // approximate
		}
	}
	writeJSON(o.out, "stats.json", stats)
	fmt.Fprintf(os.Stderr, "store: %d histories\n", n)
	return nil
}

// parseCase reads a case line (WIRING <name> SCH ... TX ...) back into a wiring and a history
func parseCase(line string) (*wiring, []hTx, error) {
	toks := strings.Fields(line)
	if len(toks) < 3 || toks[0] != "WIRING" {
		return nil, nil, fmt.Errorf("case must start with WIRING <name>")
	}
	w := wiringByName(toks[1])
	if w == nil {
		return nil, nil, fmt.Errorf("unknown wiring %q", toks[1])
	}
	w.derive()
	pos := 0
	for pos < len(toks) && toks[pos] != "TX" {
		pos++
	}
	next := func() string { t := toks[pos]; pos++; return t }
	nextInt := func() int { var n int; fmt.Sscanf(next(), "%d", &n); return n }
	var txs []hTx
	for pos < len(toks) {
		if next() != "TX" {
			return nil, nil, fmt.Errorf("expected TX at token %d", pos)
		}
		t := hTx{Sys: next() == "1", PreCommitErr: next() == "1"}
		for nv := nextInt(); nv > 0; nv-- {
			t.Vetoes = append(t.Vetoes, hVeto{Store: next(), Change: next(), Id: string(unhx(next()))})
		}
		for no := nextInt(); no > 0; no-- {
			op := hOp{Kind: next()}
			if op.Kind == "G" { // guarded create / update: G <badtags> <k> (<store> <field>)*k <C|UP ...>
				op.Guard = true
				op.BadTags = next() == "1"
				for k := nextInt(); k > 0; k-- {
					next()
					next()
				}
				op.Kind = next()
			}
			fvsv := func() {
				op.F = map[string]*string{}
				op.S = map[string][]string{}
				for nf := nextInt(); nf > 0; nf-- {
					f := next()
					v := next()
					if v != "N" {
						op.F[f] = sp(string(unhx(v)))
					}
				}
				for ns := nextInt(); ns > 0; ns-- {
					f := next()
					var l []string
					for k := nextInt(); k > 0; k-- {
						l = append(l, string(unhx(next())))
					}
					op.S[f] = l
				}
			}
			switch op.Kind {
			case "C":
				op.Store, op.Id, op.Sys = next(), string(unhx(next())), next() == "1"
				fvsv()
			case "UP":
				op.Store, op.Id = next(), string(unhx(next()))
				fvsv()
				if c := next(); c != "-" {
					op.HasChk = true
					var n int
					fmt.Sscanf(c, "%d", &n)
					for ; n > 0; n-- {
						op.Checker = append(op.Checker, next())
					}
				}
			case "D":
				op.Store, op.Id = next(), string(unhx(next()))
			case "DW":
				op.Store = next()
				if next() == "EQ" {
					op.DwField, op.DwVal = next(), string(unhx(next()))
				}
			case "AL", "RL", "AL1", "RL1", "LQ":
				op.Store, op.Id, op.LinkF = next(), string(unhx(next())), next()
				for k := nextInt(); k > 0; k-- {
					op.Targets = append(op.Targets, string(unhx(next())))
				}
			case "FAIL":
			case "FAILT":
				op.Kind = "CT"
				op.Store, op.Id = next(), string(unhx(next()))
				op.F = map[string]*string{}
				op.S = map[string][]string{}
			default:
				return nil, nil, fmt.Errorf("bad op %q", op.Kind)
			}
			t.Ops = append(t.Ops, op)
		}
		txs = append(txs, t)
	}
	return w, txs, nil
}
