package main

import (
	"sort"
	"strings"
)

// C01 - long sort specifications over datasets with ties, and queries without a predicate (sixth wave, s6-c01).
//
// The sorting scanner keeps the matching rows in a tree ordered by the comparator of the sort clause; an inserted
// row that compares EQUAL to a row of the tree replaces it.  Which rows compare equal is therefore part of "the
// selected set is the matching set": every row comparator - however many sort fields the clause has (1 .. beyond
// boltz.SortMax), whatever their directions, with id anywhere in the list, with repeated fields - has to keep two
// different entities apart, also when they agree on EVERY sort field (equal values, nil markers, nothing stored).
// The strategy sweep of c01_strategy.go stops at three sort fields.
//
// c01TieDataset is built from the declarations of the current schema variant so that ties hold by construction:
// groups of entities with identical values in every sortable field of the root store and its child stores (twins
// with values, with nil markers only, with nothing stored), and for each of the first fields an entity that differs
// from the twins in exactly that field (ties on every sort prefix that does not reach it).
//
// The queries without a predicate - the empty filter "", `sort by ..`, `skip ..`, `limit ..` (grammar rule query,
// alternatives 2-4; ast.Parse answers "" without the parser) - select every entity; term `nopred`.

type c01TieField struct {
	path []string
	gen  string
}

// the stored single-valued fields the stores over root st can sort by (root + child stores), by bucket path
func c01TieFields(st int) []c01TieField {
	var out []c01TieField
	seen := map[string]bool{}
	for s := range c01Cur.raw {
		if c01RootOf(s) != st {
			continue
		}
		for _, sym := range c01Schema[s].syms {
			if sym.kind != "fld" {
				continue
			}
			path := append(append([]string{}, sym.prefix...), sym.key)
			k := strings.Join(path, "\x00")
			if !seen[k] {
				seen[k] = true
				out = append(out, c01TieField{path: path, gen: sym.gen})
			}
		}
	}
	return out
}

func c01TieDataset() *c01Dataset {
	d := &c01Dataset{stores: make([][]c01Entity, c01Roots)}
	for st := 0; st < c01Roots; st++ {
		flds := c01TieFields(st)
		mk := func(id string, variant func(k int) int) c01Entity {
			e := c01Entity{id: id}
			for k, f := range flds {
				v := variant(k)
				switch {
				case v < 0:
					continue // nothing stored
				case v == 9:
					e.fields = append(e.fields, c01Field{path: f.path, v: c01Val{k: 'n'}})
				default:
					e.fields = append(e.fields, c01Field{path: f.path, v: c01FixedValue(f.gen, v)})
				}
			}
			return e
		}
		all := func(v int) func(int) int { return func(int) int { return v } }
		var ents []c01Entity
		// twins: the same values everywhere (three of them), the other value everywhere (two), nil markers only (two),
		// nothing stored (two)
		for _, id := range []string{"t02", "t11", "t20"} {
			ents = append(ents, mk(id, all(0)))
		}
		for _, id := range []string{"t05", "t17"} {
			ents = append(ents, mk(id, all(1)))
		}
		for _, id := range []string{"t03", "t19"} {
			ents = append(ents, mk(id, all(9)))
		}
		for _, id := range []string{"t01", "t21"} {
			ents = append(ents, mk(id, all(-1)))
		}
		// one entity per field (the first ten) that differs from the first twins in that field only: by value, by a nil
		// marker, by absence in turn
		for k := 0; k < len(flds) && k < 10; k++ {
			kk := k
			other := []int{1, 9, -1}[k%3]
			ents = append(ents, mk("t"+c01Itoa(30+k), func(j int) int {
				if j == kk {
					return other
				}
				return 0
			}))
		}
		sort.Slice(ents, func(i, j int) bool { return ents[i].id < ents[j].id })
		d.stores[st] = ents
	}
	return d
}

// sort clauses of 4 .. 9 fields over the sortable symbols of a store: rotations of the symbol list with mixed
// directions and spellings, id in the middle / at the end, one symbol repeated
func c01LongSorts(store int) []string {
	flds := c01SortFields(store)
	n := len(flds)
	if n == 0 {
		return nil
	}
	dirs := []string{"", " desc", " ASC", " DESC", " asc"}
	seen := map[string]bool{}
	var out []string
	add := func(parts []string) {
		s := strings.Join(parts, ", ")
		if !seen[s] {
			seen[s] = true
			out = append(out, s)
		}
	}
	for _, l := range []int{4, 5, 6, 7, 9} {
		for _, off := range []int{0, n / 3, (2 * n) / 3} {
			var parts []string
			for j := 0; j < l; j++ {
				parts = append(parts, flds[(off+j)%n]+dirs[(off+2*j+l)%len(dirs)])
			}
			add(parts)
		}
	}
	f := func(k int) string { return flds[k%n] }
	add([]string{f(0), f(1) + " desc", f(2), f(3), "id"})
	add([]string{f(1), "id desc", f(2), f(0) + " desc", f(3), f(4)})
	add([]string{f(0), f(1), f(2), f(3) + " desc", f(4), "id desc", f(5)})
	add([]string{f(0), f(0), f(0) + " desc", f(0), f(0)})
	return out
}

// c01SweepLongSorts: on the tie dataset, every store (incl. child stores) x {true, no predicate, null tests} x long sort
// clauses x paging x api; and the predicate-less query forms as plain Q lines (QueryIds + IterateIds, exact)
func c01SweepLongSorts(r *c01Runner) int {
	n := 0
	one, two, three, zero, none := int64(1), int64(2), int64(3), int64(0), int64(-1)
	for store := range c01Cur.raw {
		flds := c01SortFields(store)
		if len(flds) == 0 {
			continue
		}
		var allIds []string
		for _, e := range c01TieDataset().stores[c01RootOf(store)] {
			allIds = append(allIds, e.id)
		}
		filters := []*c01Filter{
			{k: "bc", b: true},
			{k: "bc", b: true, absent: true},
			{k: "bin", lhs: &c01Lhs{k: "sym", name: flds[0]}, op: "neq", lit: &c01Lit{k: 'N'}},
			{k: "bin", lhs: &c01Lhs{k: "sym", name: flds[len(flds)/2]}, op: "eq", lit: &c01Lit{k: 'N'}},
		}
		pagings := [][2]*int64{{nil, nil}, {&one, &three}, {nil, &two}}
		for fi, f := range filters {
			for si, sc := range c01LongSorts(store) {
				for pi, pg := range pagings {
					if pi > 0 && (fi+si+pi)%2 != 0 {
						continue
					}
					top := &c01Filter{k: "q", a: f, skip: pg[0], limit: pg[1]}
					r.runStrategy(store, top, c01Strat{api: 'Q', sort: sc})
					n++
					switch (fi + si + pi) % 3 {
					case 0:
						r.runStrategy(store, top, c01Strat{api: 'C', sort: sc})
						n++
					case 1:
						st := c01Strat{api: 'C', sort: sc, univ: []string{}}
						for k, id := range allIds {
							if (k+si)%3 != 0 {
								st.univ = append(st.univ, id)
							}
						}
						r.runStrategy(store, top, st)
						n++
					}
				}
			}
		}
		// the query forms without a predicate: id scan, exact
		for _, pg := range [][2]*int64{{nil, nil}, {&one, nil}, {nil, &two}, {&one, &one}, {nil, &none}, {nil, &zero}, {&three, &none}} {
			r.runFilter(store, &c01Filter{k: "q", a: &c01Filter{k: "bc", b: true, absent: true}, skip: pg[0], limit: pg[1]})
			n++
		}
	}
	return n
}

// c01TieSweeps: the long-sort sweep under the base schema and both hierarchy variants
func c01TieSweeps(r *c01Runner) {
	for _, name := range []string{"base", "hier", "hier-alias"} {
		r.useVariant(name)
		if err := r.loadDataset(c01TieDataset()); err != nil {
			panic(err)
		}
		r.stats["long-sort-sweep:"+name] += c01SweepLongSorts(r)
	}
}

// ---- random: datasets with twins x random filters x long random sort clauses ------------------------------------

func (g *c01Gen) longSortClause(store int) string {
	flds := c01SortFields(store)
	n := 4 + g.r.intn(5)
	var parts []string
	for i := 0; i < n; i++ {
		f := g.pickS(flds)
		if i > 0 && g.r.chance(10) {
			f = "id"
		}
		parts = append(parts, f+g.pickS([]string{"", " asc", " desc", " ASC", " DESC"}))
	}
	return strings.Join(parts, ", ")
}

// twins: copies of stored entities under new ids (equal in every field), so that rows tie on every sort clause
func (g *c01Gen) addTwins(d *c01Dataset) {
	for st := range d.stores {
		n := len(d.stores[st])
		if n == 0 {
			continue
		}
		used := map[string]bool{}
		for _, e := range d.stores[st] {
			used[e.id] = true
		}
		for k := 0; k < 3; k++ {
			src := d.stores[st][g.r.intn(n)]
			id := g.pickS(c01IdPool(st))
			if used[id] {
				id = src.id + "~" + c01Itoa(k)
			}
			if used[id] {
				continue
			}
			used[id] = true
			twin := c01Entity{id: id, fields: append([]c01Field{}, src.fields...)}
			for _, s := range src.sets {
				twin.sets = append(twin.sets, c01Set{key: s.key, elems: append([]string{}, s.elems...)})
			}
			d.stores[st] = append(d.stores[st], twin)
			g.count("twin-entities")
		}
		ents := d.stores[st]
		sort.Slice(ents, func(i, j int) bool { return ents[i].id < ents[j].id })
	}
}

// c01RandomTies: seeded random datasets with twins; every random filter is preceded by an earlier caller that parses
// the SAME text and refines its query object (M line, c01_history.go), then asked plainly (Q line) and through long
// sort clauses (T lines)
func c01RandomTies(r *c01Runner, g *c01Gen, ndatasets, perDataset int, dotted bool) {
	for k := 0; k < ndatasets; k++ {
		if variant := []string{"base", "hier", "alias", "hier-alias"}[k%4]; variant != c01Cur.name {
			r.useVariant(variant)
		}
		d := g.dataset(8)
		g.addTwins(d)
		if err := r.loadDataset(d); err != nil {
			panic(err)
		}
		for j := 0; j < perDataset; j++ {
			store := g.r.intn(2)
			if len(c01Cur.raw) > c01Roots && g.r.chance(50) {
				store = c01Roots + g.r.intn(len(c01Cur.raw)-c01Roots)
			}
			f := g.filter(store, g.weighted([]int{40, 35, 20, 5}), dotted)
			if g.r.chance(12) {
				f = &c01Filter{k: "bc", b: true, absent: true}
			}
			top := &c01Filter{k: "q", a: f}
			if g.r.chance(60) {
				g.randomPrior(r, store, d, top, dotted)
			}
			r.runFilter(store, top)
			for i := 0; i < 2; i++ {
				tp := &c01Filter{k: "q", a: f}
				g.paging(tp)
				st := c01Strat{api: 'Q', sort: g.longSortClause(store)}
				if g.r.chance(30) {
					st.api = 'C'
					if g.r.chance(60) {
						st.univ = g.universe(store, d)
					}
				}
				r.runStrategy(store, tp, st)
			}
		}
	}
}
