package main

import (
	"errors"
	"fmt"
	"io"
	"os"
	"reflect"
	"sort"
	"strings"
	"time"
	"unsafe"

	"github.com/openziti/storage/ast"
	"github.com/openziti/storage/boltz"
	"github.com/openziti/storage/zitiql"
	"github.com/sirupsen/logrus"
)

// C20 - public-symbol validation sees every symbol a query references.
//
// For every generated (query text, public set) the harness
//   - parses the text with ast.Parse against a real boltz store,
//   - dumps the real typed tree by reflection (kind, string fields, child fields) -> cases.txt,
//   - runs a recording visitor (sequence of VisitSymbol arguments) and the real
//     boltz.ValidateSymbolsArePublic against a real store with that public set -> impl.txt,
//   - evaluates every node of the tree against a recording ast.Symbols (every name the EVALUATOR
//     asks for) and remembers the identifiers the generator wrote into the text -> oracle.txt.
//
// The untyped tree (as built by the listener, before typing) goes through the same visitor
// comparison, which exercises the transient node kinds as well.
//
//	cases.txt :  <Y|U> <npub> {hex} <nmaps> {hex} <tree>
//	             tree := T <kind> <nstrs> {<field> <hex>} <nkids> {<field> <n> {tree}}
//	impl.txt  :  <nvis> {hex} <A | R <hex> | E>
//	oracle.txt:  <qid> <hex text> <ntext> {hex} <neval> {hex}
func init() { commands["c20"] = runC20 }

// ---------------------------------------------------------------------------------- schema

type c20sym struct {
	name  string
	typ   ast.NodeType
	class string // scalar | id | set | fkset | fk | map
	key   string // bucket key the symbol reads from; "" = the name
}

func (d c20sym) bucketKey() string {
	if d.key == "" {
		return d.name
	}
	return d.key
}

// Public-ness is a matter of symbol NAMES.  Besides the usual name = key symbols the store has
// symbols whose bucket key differs from their name, with every kind of coincidence between a key
// and the name of another symbol (a public / non-public scalar, an always-public id, a set,
// another map, a name that is nothing at all).
var c20People = []c20sym{
	{"id", ast.NodeTypeString, "id", ""},
	{"name", ast.NodeTypeString, "scalar", ""},
	{"nick", ast.NodeTypeString, "scalar", ""},
	{"age", ast.NodeTypeInt64, "scalar", ""},
	{"rank", ast.NodeTypeInt64, "scalar", ""},
	{"score", ast.NodeTypeFloat64, "scalar", ""},
	{"born", ast.NodeTypeDatetime, "scalar", ""},
	{"seen", ast.NodeTypeDatetime, "scalar", ""},
	{"active", ast.NodeTypeBool, "scalar", ""},
	{"flag", ast.NodeTypeBool, "scalar", ""},
	{"extra", ast.NodeTypeAnyType, "scalar", ""},
	{"alias", ast.NodeTypeString, "scalar", "meta"}, // AddSymbolWithKey: key = the name of a map symbol
	{"level", ast.NodeTypeInt64, "scalar", "lvl"},   // key names nothing
	{"nums", ast.NodeTypeString, "set", ""},
	{"ints", ast.NodeTypeInt64, "set", ""},
	{"flts", ast.NodeTypeFloat64, "set", ""},
	{"days", ast.NodeTypeDatetime, "set", ""},
	{"places", ast.NodeTypeString, "fkset", ""},
	{"home", ast.NodeTypeString, "fk", ""},
	{"work", ast.NodeTypeString, "fk", "nick"}, // AddFkSymbolWithKey: key = the name of a scalar
	{"tags", ast.NodeTypeAnyType, "map", ""},
	{"meta", ast.NodeTypeAnyType, "map", ""},
	{"labels", ast.NodeTypeAnyType, "map", "lbl"}, // key names nothing
	{"attrs", ast.NodeTypeAnyType, "map", "name"}, // key = the name of a scalar whose public flag varies
	{"props", ast.NodeTypeAnyType, "map", "tags"}, // key = the name of another map
	{"opts", ast.NodeTypeAnyType, "map", "id"},    // key = the name of an always-public symbol
	{"dims", ast.NodeTypeAnyType, "map", "nums"},  // key = the name of a set symbol
}

var c20Places = []c20sym{
	{"id", ast.NodeTypeString, "id", ""},
	{"name", ast.NodeTypeString, "scalar", ""},
	{"zip", ast.NodeTypeInt64, "scalar", ""},
	{"open", ast.NodeTypeBool, "scalar", ""},
	{"shops", ast.NodeTypeString, "set", ""},
	{"residents", ast.NodeTypeString, "fkset", ""},
	{"info", ast.NodeTypeAnyType, "map", ""},
}

func c20MapNames() []string {
	var out []string
	for _, d := range c20People {
		if d.class == "map" {
			out = append(out, d.name)
		}
	}
	return out
}

// name -> bucket key of every map symbol of the people store
func c20MapKeys() map[string]string {
	out := map[string]string{}
	for _, d := range c20People {
		if d.class == "map" {
			out[d.name] = d.bucketKey()
		}
	}
	return out
}

// name -> bucket key of every symbol of the people store whose key is not its name
func c20SymKeys() map[string]string {
	out := map[string]string{}
	for _, d := range c20People {
		if d.bucketKey() != d.name {
			out[d.name] = d.bucketKey()
		}
	}
	return out
}

// elements of the map symbols the generators use
var c20MapElems = []string{"tags.foo", "tags.bar-baz", "meta.x", "tags.a.b",
	"labels.env", "labels.a.b", "attrs.secret", "attrs.a.b", "props.p", "opts.o", "dims.d"}

// composite / element names the generator uses (and may publish explicitly)
var c20Composite = append([]string{"places.name", "places.zip", "places.id", "places.shops", "home.name", "home.zip",
	"work.name", "work.zip"}, c20MapElems...)

// ---------------------------------------------------------------------------------- store configuration
//
// A store is configured by a PROGRAM: a list of calls of the configuration API.  Programs are
// data so that (1) the same program can be handed to the Coq model Ast/PublicCfg.v (cfg_cases.txt)
// and (2) a failing one can be replayed.
//
//	I name -    type   AddIdSymbol(name, type)                      registered + public
//	A name key  type   AddSymbol / AddSymbolWithKey(name, type, key) registered + public
//	F name key  -      AddFkSymbol / AddFkSymbolWithKey(name, key, places)   registered + public
//	Q name -    type   AddPublicSetSymbol(name, type)                registered + public
//	E name -    type   AddEntitySymbol(NewEntitySymbol(name, type))  registered
//	S name -    type   AddSetSymbol(name, type)                      registered
//	L name -    -      AddFkSetSymbol(name, places)                  registered
//	M name key  type   AddMapSymbol(name, type, key)
//	K name -    0|1    MakeSymbolPublic(name); aux: the harness' own schema says the name resolves through a linked store
//	G -    -    -      store0.GrantSymbols(store1)
type c20op struct {
	op    byte
	store int
	name  string
	key   string
	aux   string
}

func (o c20op) String() string {
	aux := o.aux
	if aux == "" {
		aux = "-"
	}
	return fmt.Sprintf("%c %d %s %s %s", o.op, o.store, hxs(o.name), hxs(o.key), aux)
}

func c20typ(t ast.NodeType) string { return fmt.Sprintf("%d", int(t)) }

// does `name` resolve against schema defs (linked symbols lead to schema other)?  The harness'
// own statement, independent of BaseStore.GetSymbol.
func c20schemaResolves(defs, other []c20sym, name string, depth int) bool {
	for _, d := range defs {
		if d.name == name && d.class != "map" {
			return true
		}
	}
	i := strings.IndexByte(name, '.')
	if i <= 0 || depth > 6 {
		return false
	}
	base, rest := name[:i], name[i+1:]
	for _, d := range defs {
		if d.name == base {
			switch d.class {
			case "map":
				return true
			case "fk", "fkset":
				return c20schemaResolves(other, defs, rest, depth+1)
			}
			return false
		}
	}
	return false
}

// the program that configures the people store (store 0) so that its public symbols are exactly
// pub (plus those the API always publishes: id and fk symbols)
func c20program(pub map[string]bool) []c20op {
	var ops []c20op
	for _, d := range c20People {
		switch d.class {
		case "id":
			ops = append(ops, c20op{'I', 0, d.name, "", c20typ(d.typ)})
		case "scalar":
			if pub[d.name] {
				ops = append(ops, c20op{'A', 0, d.name, d.bucketKey(), c20typ(d.typ)})
			} else {
				// no API registers a non-public symbol under a key of its own
				ops = append(ops, c20op{'E', 0, d.name, "", c20typ(d.typ)})
			}
		case "set":
			ops = append(ops, c20op{'S', 0, d.name, "", c20typ(d.typ)})
		case "fkset":
			ops = append(ops, c20op{'L', 0, d.name, "", ""})
		case "fk":
			ops = append(ops, c20op{'F', 0, d.name, d.bucketKey(), ""})
		case "map":
			ops = append(ops, c20op{'M', 0, d.name, d.bucketKey(), c20typ(d.typ)})
		}
	}
	for _, d := range c20People {
		if pub[d.name] && (d.class == "set" || d.class == "fkset" || d.class == "map") {
			ops = append(ops, c20op{'K', 0, d.name, "", "0"})
		}
	}
	var extra []string
	for n := range pub {
		if strings.Contains(n, ".") {
			extra = append(extra, n)
		}
	}
	sort.Strings(extra)
	for _, n := range extra {
		aux := "0"
		if c20schemaResolves(c20People, c20Places, n, 0) {
			aux = "1"
		}
		ops = append(ops, c20op{'K', 0, n, "", aux})
	}
	return ops
}

type c20stores struct {
	people boltz.ConfigurableStore // store 0
	child  boltz.ConfigurableStore // store 1: a child store of people
	places boltz.ConfigurableStore // the linked store
}

func c20atoi(s string) int {
	n := 0
	fmt.Sscanf(s, "%d", &n)
	return n
}

// c20build runs a configuration program against real boltz stores
func c20build(ops []c20op) *c20stores {
	peopleDef := (&boltz.StoreDefinition[boltz.Entity]{EntityType: "people"}).WithBasePath("app")
	placesDef := (&boltz.StoreDefinition[boltz.Entity]{EntityType: "places"}).WithBasePath("app")
	s := &c20stores{people: boltz.NewBaseStore(*peopleDef), places: boltz.NewBaseStore(*placesDef)}
	childDef := &boltz.StoreDefinition[boltz.Entity]{EntityType: "kids", Parent: s.people,
		ParentMapper: func(e boltz.Entity) boltz.Entity { return e }}
	s.child = boltz.NewBaseStore(*childDef)
	for _, d := range c20Places {
		switch d.class {
		case "id":
			s.places.AddIdSymbol(d.name, d.typ)
		case "scalar":
			s.places.AddSymbol(d.name, d.typ)
		case "set":
			s.places.AddSetSymbol(d.name, d.typ)
		case "fkset":
			s.places.AddFkSetSymbol(d.name, s.people)
		case "map":
			s.places.AddMapSymbol(d.name, d.typ, d.name)
		}
	}
	for _, o := range ops {
		st := s.people
		if o.store == 1 {
			st = s.child
		}
		typ := ast.NodeType(c20atoi(o.aux))
		switch o.op {
		case 'I':
			st.AddIdSymbol(o.name, typ)
		case 'A':
			if o.key == o.name {
				st.AddSymbol(o.name, typ)
			} else {
				st.AddSymbolWithKey(o.name, typ, o.key)
			}
		case 'F':
			if o.key == o.name {
				st.AddFkSymbol(o.name, s.places)
			} else {
				st.AddFkSymbolWithKey(o.name, o.key, s.places)
			}
		case 'Q':
			st.AddPublicSetSymbol(o.name, typ)
		case 'E':
			st.AddEntitySymbol(st.NewEntitySymbol(o.name, typ))
		case 'S':
			st.AddSetSymbol(o.name, typ)
		case 'L':
			st.AddFkSetSymbol(o.name, s.places)
		case 'M':
			st.AddMapSymbol(o.name, typ, o.key)
		case 'K':
			st.MakeSymbolPublic(o.name)
		case 'G':
			s.people.GrantSymbols(s.child)
		}
	}
	return s
}

func (s *c20stores) store(i int) boltz.ConfigurableStore {
	if i == 1 {
		return s.child
	}
	return s.people
}

// buildStores creates real boltz stores whose public symbols are exactly pub (plus those the
// API always publishes: id and fk symbols added with AddIdSymbol / AddFkSymbol).
func buildStores(pub map[string]bool) *c20stores { return c20build(c20program(pub)) }

// ---------------------------------------------------------------------------------- generator

type c20gen struct {
	r    *rng
	syms []string // identifiers written into the text, in order
}

func (g *c20gen) id(name string) string {
	g.syms = append(g.syms, name)
	if g.r != nil && g.r.chance(5) {
		return "'" + name + "'" // the quoted identifier form of the grammar
	}
	return name
}

type c20lhs struct {
	text func(g *c20gen) string
	desc string
}

func symLhs(name string) c20lhs {
	return c20lhs{func(g *c20gen) string { return g.id(name) }, "sym:" + name}
}
func fnLhs(fn, name string) c20lhs {
	return c20lhs{func(g *c20gen) string { return fn + "(" + g.id(name) + ")" }, fn + ":" + name}
}

var c20Strings = []string{`"a"`, `"B c"`, `""`, `"x.y"`}
var c20Ints = []string{"0", "-5", "42"}
var c20Floats = []string{"1.5", "-0.25", "2e3"}
var c20Dates = []string{"datetime(2020-01-02T03:04:05Z)", "datetime(1999-12-31T23:59:59+01:00)"}

// every operator / literal-kind template of the `operation` grammar rule
func c20OpTemplates() []string {
	var out []string
	cmp := []string{"=", "!=", "<", "<=", ">", ">="}
	for _, op := range cmp {
		out = append(out, " "+op+" "+c20Strings[0], op+c20Ints[2], " "+op+" "+c20Floats[0], " "+op+" "+c20Dates[0])
	}
	for _, op := range []string{"=", "!="} {
		out = append(out, " "+op+" true", " "+op+" false", " "+op+" null")
	}
	for _, op := range []string{"contains", "not contains", "icontains", "not icontains"} {
		out = append(out, " "+op+" "+c20Strings[1])
	}
	out = append(out, " contains 4", " not contains 4")
	for _, op := range []string{"in", "not in"} {
		out = append(out,
			" "+op+` ["a", "b"]`, " "+op+` ["a"]`,
			" "+op+" [1, 2, 3]", " "+op+" [1.5, 2]", " "+op+" [2.5]",
			" "+op+" ["+c20Dates[0]+", "+c20Dates[1]+"]")
	}
	for _, op := range []string{"between", "not between"} {
		out = append(out, " "+op+" 1 and 10", " "+op+" 1.5 and 10", " "+op+" 0.5 and 2.5",
			" "+op+" "+c20Dates[1]+" and "+c20Dates[0])
	}
	return out
}

func c20Lhs(inner bool) []c20lhs {
	var out []c20lhs
	if inner {
		for _, n := range []string{"id", "name", "zip", "open", "info.k", "residents.name"} {
			out = append(out, symLhs(n))
		}
		for _, fn := range []string{"anyOf", "allOf", "count"} {
			for _, n := range []string{"shops", "residents", "residents.age"} {
				out = append(out, fnLhs(fn, n))
			}
		}
		return out
	}
	for _, d := range c20People {
		if d.class == "scalar" || d.class == "id" || d.class == "fk" {
			out = append(out, symLhs(d.name))
		}
	}
	for _, n := range append([]string{"home.name", "home.zip", "work.name"}, c20MapElems...) {
		out = append(out, symLhs(n))
	}
	for _, fn := range []string{"anyOf", "allOf", "count"} {
		for _, n := range []string{"nums", "ints", "flts", "days", "places", "places.name", "places.zip", "places.id", "places.shops"} {
			out = append(out, fnLhs(fn, n))
		}
	}
	return out
}

func (g *c20gen) pickS(xs []string) string { return xs[g.r.intn(len(xs))] }

// a random operation that usually types
func (g *c20gen) atom(inner bool, depth int) string {
	type tl struct {
		lhs []string
		fn  []string
	}
	var strSyms, intSyms, fltSyms, dateSyms, boolSyms, anySyms, sSets, iSets, fSets, dSets, fkSets []string
	if inner {
		strSyms, intSyms, boolSyms, anySyms = []string{"name", "id", "residents.name"}, []string{"zip"}, []string{"open"}, []string{"info.k"}
		sSets, iSets, fkSets = []string{"shops", "residents", "residents.name"}, []string{"residents.age"}, []string{"residents"}
	} else {
		strSyms = []string{"name", "nick", "id", "home", "home.name", "alias", "work", "work.name"}
		intSyms, fltSyms, dateSyms = []string{"age", "rank", "home.zip", "level"}, []string{"score"}, []string{"born", "seen"}
		boolSyms, anySyms = []string{"active", "flag"}, append([]string{"extra"}, c20MapElems...)
		sSets, iSets, fSets, dSets = []string{"nums", "places", "places.name", "places.id", "places.shops"}, []string{"ints", "places.zip"}, []string{"flts"}, []string{"days"}
		fkSets = []string{"places"}
	}
	cmp := []string{"=", "!=", "<", "<=", ">", ">="}
	lhsOf := func(scalars, sets []string) string {
		if len(sets) > 0 && (len(scalars) == 0 || g.r.chance(40)) {
			return g.pickS([]string{"anyOf", "allOf"}) + "(" + g.id(g.pickS(sets)) + ")"
		}
		return g.id(g.pickS(scalars))
	}
	neg := func() string {
		if g.r.chance(30) {
			return "not "
		}
		return ""
	}
	strLit := func() string { return g.pickS(c20Strings) }
	intLit := func() string { return g.pickS(c20Ints) }
	numLit := func() string {
		if g.r.chance(50) {
			return g.pickS(c20Floats)
		}
		return g.pickS(c20Ints)
	}
	dateLit := func() string { return g.pickS(c20Dates) }
	list := func(f func() string) string {
		n := 1 + g.r.intn(3)
		var xs []string
		for i := 0; i < n; i++ {
			xs = append(xs, f())
		}
		return "[" + strings.Join(xs, ", ") + "]"
	}
	for tries := 0; tries < 20; tries++ {
		switch g.r.intn(16) {
		case 0:
			return lhsOf(strSyms, sSets) + " " + g.pickS(cmp) + " " + strLit()
		case 1:
			return lhsOf(strSyms, sSets) + " " + neg() + g.pickS([]string{"contains", "icontains"}) + " " + strLit()
		case 2:
			return lhsOf(strSyms, sSets) + " " + neg() + "in " + list(strLit)
		case 3:
			return lhsOf(intSyms, iSets) + " " + g.pickS(cmp) + " " + numLit()
		case 4:
			return lhsOf(intSyms, iSets) + " " + neg() + "in " + list(numLit)
		case 5:
			return lhsOf(intSyms, iSets) + " " + neg() + "between " + numLit() + " and " + numLit()
		case 6:
			if len(fltSyms) == 0 {
				continue
			}
			return lhsOf(fltSyms, fSets) + " " + g.pickS(cmp) + " " + numLit()
		case 7:
			if len(fltSyms) == 0 {
				continue
			}
			if g.r.chance(50) {
				return lhsOf(fltSyms, fSets) + " " + neg() + "in " + list(numLit)
			}
			return lhsOf(fltSyms, fSets) + " " + neg() + "between " + numLit() + " and " + numLit()
		case 8:
			if len(dateSyms) == 0 {
				continue
			}
			switch g.r.intn(3) {
			case 0:
				return lhsOf(dateSyms, dSets) + " " + g.pickS(cmp) + " " + dateLit()
			case 1:
				return lhsOf(dateSyms, dSets) + " " + neg() + "in " + list(dateLit)
			}
			return lhsOf(dateSyms, dSets) + " " + neg() + "between " + dateLit() + " and " + dateLit()
		case 9:
			return g.id(g.pickS(boolSyms)) + " " + g.pickS([]string{"=", "!="}) + " " + g.pickS([]string{"true", "false"})
		case 10:
			all := append(append(append([]string{}, strSyms...), intSyms...), anySyms...)
			return g.id(g.pickS(all)) + " " + g.pickS([]string{"=", "!="}) + " null"
		case 11:
			// any-typed symbol: the literal decides the operation type
			s := g.id(g.pickS(anySyms))
			switch g.r.intn(5) {
			case 0:
				return s + " " + g.pickS(cmp) + " " + strLit()
			case 1:
				return s + " " + g.pickS(cmp) + " " + numLit()
			case 2:
				return s + " = " + g.pickS([]string{"true", "false"})
			case 3:
				return s + " " + g.pickS(cmp) + " " + dateLit()
			}
			return s + " " + neg() + "in " + list(strLit)
		case 12:
			all := append(append(append([]string{}, sSets...), iSets...), fSets...)
			return "count(" + g.id(g.pickS(all)) + ") " + g.pickS(cmp) + " " + intLit()
		case 13:
			if depth <= 0 || len(fkSets) == 0 {
				continue
			}
			return "count(" + g.subQuery(inner, depth-1) + ") " + g.pickS(cmp) + " " + intLit()
		case 14:
			all := append(append([]string{}, sSets...), iSets...)
			return "isEmpty(" + g.id(g.pickS(all)) + ")"
		case 15:
			if depth <= 0 || len(fkSets) == 0 {
				continue
			}
			return "isEmpty(" + g.subQuery(inner, depth-1) + ")"
		}
	}
	return g.id(g.pickS(boolSyms))
}

// from <fkset> where <query over the linked store>
func (g *c20gen) subQuery(inner bool, depth int) string {
	set := "places"
	if inner {
		set = "residents"
	}
	return "from " + g.id(set) + " where " + g.query(!inner, depth, false)
}

func (g *c20gen) boolExpr(inner bool, depth int) string {
	if depth <= 0 {
		return g.atom(inner, 0)
	}
	switch g.r.intn(10) {
	case 0, 1:
		return g.boolExpr(inner, depth-1) + " and " + g.boolExpr(inner, depth-1)
	case 2, 3:
		return g.boolExpr(inner, depth-1) + " or " + g.boolExpr(inner, depth-1)
	case 4:
		return "not " + g.boolExpr(inner, depth-1)
	case 5:
		return "(" + g.boolExpr(inner, depth-1) + ")"
	case 6:
		if g.r.chance(50) {
			return g.pickS([]string{"true", "false"})
		}
		if inner {
			return g.id("open")
		}
		return g.id(g.pickS([]string{"active", "flag"}))
	}
	return g.atom(inner, depth)
}

func (g *c20gen) sortBy(inner bool) string {
	fields := []string{"name", "nick", "age", "score", "born", "active", "id", "home", "home.name", "tags.foo", "extra",
		"alias", "level", "work", "labels.env", "attrs.secret", "props.p"}
	if inner {
		fields = []string{"name", "zip", "open", "id"}
	}
	n := 1 + g.r.intn(3)
	var xs []string
	for i := 0; i < n; i++ {
		f := g.id(g.pickS(fields))
		switch g.r.intn(3) {
		case 0:
			f += " asc"
		case 1:
			f += " DESC"
		}
		xs = append(xs, f)
	}
	return "sort by " + strings.Join(xs, ", ")
}

func (g *c20gen) query(inner bool, depth int, allowEmptyPredicate bool) string {
	var parts []string
	if !(allowEmptyPredicate && g.r.chance(10)) {
		parts = append(parts, g.boolExpr(inner, depth))
	}
	if g.r.chance(45) {
		parts = append(parts, g.sortBy(inner))
	}
	if g.r.chance(25) {
		parts = append(parts, "skip "+g.pickS(c20Ints[:1])+g.pickS([]string{"", "1", "7"}))
	}
	if g.r.chance(25) {
		parts = append(parts, "limit "+g.pickS([]string{"none", "3", "100"}))
	}
	if len(parts) == 0 {
		parts = append(parts, g.sortBy(inner))
	}
	return strings.Join(parts, " ")
}

// ---------------------------------------------------------------------------------- reflection

var c20NodeType = reflect.TypeOf((*ast.Node)(nil)).Elem()

type c20node struct {
	kind  string
	strs  [][2]string
	kids  []c20kid
	value ast.Node
}

type c20kid struct {
	name  string
	trees []*c20node
}

func c20access(v reflect.Value) reflect.Value {
	if v.CanInterface() {
		return v
	}
	if !v.CanAddr() {
		return reflect.Value{}
	}
	return reflect.NewAt(v.Type(), unsafe.Pointer(v.UnsafeAddr())).Elem()
}

func c20isNodeType(t reflect.Type) bool {
	return t.Implements(c20NodeType)
}

// reflectNode dumps a real node; nil pointers / nil interfaces give nil
func reflectNode(n ast.Node) *c20node {
	if n == nil {
		return nil
	}
	rv := reflect.ValueOf(n)
	out := &c20node{value: n}
	var sv reflect.Value
	if rv.Kind() == reflect.Ptr {
		if rv.IsNil() {
			return nil
		}
		out.kind = rv.Type().Elem().Name()
		sv = rv.Elem()
	} else {
		out.kind = rv.Type().Name()
		p := reflect.New(rv.Type())
		p.Elem().Set(rv)
		sv = p.Elem()
	}
	if sv.Kind() == reflect.Struct {
		out.walk(sv, "")
	}
	return out
}

func asNode(v reflect.Value) ast.Node {
	if !v.IsValid() {
		return nil
	}
	if (v.Kind() == reflect.Interface || v.Kind() == reflect.Ptr) && v.IsNil() {
		return nil
	}
	if n, ok := v.Interface().(ast.Node); ok {
		return n
	}
	return nil
}

func (out *c20node) walk(sv reflect.Value, prefix string) {
	for i := 0; i < sv.NumField(); i++ {
		f := sv.Type().Field(i)
		fv := c20access(sv.Field(i))
		if !fv.IsValid() {
			continue
		}
		name := prefix + f.Name
		ft := f.Type
		switch {
		case ft.Kind() == reflect.String:
			out.strs = append(out.strs, [2]string{name, fv.String()})
		case c20isNodeType(ft):
			kid := c20kid{name: name}
			if t := reflectNode(asNode(fv)); t != nil {
				kid.trees = append(kid.trees, t)
			}
			out.kids = append(out.kids, kid)
		case ft.Kind() == reflect.Interface:
			// a type that does not announce Node: a child only when it holds one
			if n := asNode(fv); n != nil {
				if t := reflectNode(n); t != nil {
					out.kids = append(out.kids, c20kid{name: name, trees: []*c20node{t}})
				}
			}
		case ft.Kind() == reflect.Slice || ft.Kind() == reflect.Array:
			et := ft.Elem()
			if c20isNodeType(et) || et.Kind() == reflect.Interface {
				kid := c20kid{name: name}
				for j := 0; j < fv.Len(); j++ {
					if t := reflectNode(asNode(c20access(fv.Index(j)))); t != nil {
						kid.trees = append(kid.trees, t)
					}
				}
				if c20isNodeType(et) || len(kid.trees) > 0 {
					out.kids = append(out.kids, kid)
				}
			}
		case ft.Kind() == reflect.Struct:
			out.walk(fv, name+".")
		}
	}
}

func (n *c20node) write(b *strings.Builder) {
	fmt.Fprintf(b, "T %s %d", n.kind, len(n.strs))
	for _, s := range n.strs {
		fmt.Fprintf(b, " %s %s", s[0], hxs(s[1]))
	}
	fmt.Fprintf(b, " %d", len(n.kids))
	for _, k := range n.kids {
		fmt.Fprintf(b, " %s %d", k.name, len(k.trees))
		for _, t := range k.trees {
			b.WriteByte(' ')
			t.write(b)
		}
	}
}

func (n *c20node) each(f func(*c20node)) {
	f(n)
	for _, k := range n.kids {
		for _, t := range k.trees {
			t.each(f)
		}
	}
}

// untypedTree: the tree the listener builds before typing (private to package ast; read off the
// listener's parse stack).  nil when the layout is not the expected one.
func untypedTree(text string) (n ast.Node) {
	defer func() {
		if recover() != nil {
			n = nil
		}
	}()
	listener := ast.NewListener()
	if errs := zitiql.Parse(text, listener); len(errs) != 0 || listener.HasError() {
		return nil
	}
	lv := reflect.ValueOf(listener).Elem()
	cs := lv.FieldByName("currentStack")
	if !cs.IsValid() {
		return nil
	}
	cs = c20access(cs)
	if cs.Kind() != reflect.Ptr || cs.IsNil() {
		return nil
	}
	vals := cs.Elem().FieldByName("values")
	if !vals.IsValid() {
		return nil
	}
	vals = c20access(vals)
	if vals.Kind() != reflect.Slice || vals.Len() != 1 {
		return nil
	}
	return asNode(c20access(vals.Index(0)))
}

// ---------------------------------------------------------------------------------- recorders

type c20recVisitor struct {
	ast.DefaultVisitor
	syms []string
}

func (v *c20recVisitor) VisitSymbol(symbol string, _ ast.NodeType) { v.syms = append(v.syms, symbol) }

// a Query around any node, so that the real ValidateSymbolsArePublic can be run on untyped trees
type c20queryWrap struct{ ast.Node }

func (w c20queryWrap) EvalBool(ast.Symbols) bool       { return false }
func (w c20queryWrap) GetPredicate() ast.BoolNode      { return nil }
func (w c20queryWrap) SetPredicate(ast.BoolNode)       {}
func (w c20queryWrap) GetSortFields() []ast.SortField  { return nil }
func (w c20queryWrap) AdoptSortFields(ast.Query) error { return nil }
func (w c20queryWrap) GetSkip() *int64                 { return nil }
func (w c20queryWrap) GetLimit() *int64                { return nil }
func (w c20queryWrap) SetSkip(int64)                   {}
func (w c20queryWrap) SetLimit(int64)                  {}

type c20cursor struct{ left int }

func (c *c20cursor) Next()               { c.left-- }
func (c *c20cursor) IsValid() bool       { return c.left > 0 }
func (c *c20cursor) Current() []byte     { return []byte("k") }
func (c *c20cursor) Seek([]byte)         {}
func (c *c20cursor) SeekToString(string) {}

// c20recSymbols records every symbol name the evaluator asks for
type c20recSymbols struct {
	types  ast.SymbolTypes
	asked  map[string]bool
	r      *rng // nil: fixed, short-circuit-defeating answers
	nested int
}

func (s *c20recSymbols) ask(name string) { s.asked[name] = true }

func (s *c20recSymbols) GetSymbolType(name string) (ast.NodeType, bool) {
	return s.types.GetSymbolType(name)
}
func (s *c20recSymbols) GetSetSymbolTypes(name string) ast.SymbolTypes {
	return s.types.GetSetSymbolTypes(name)
}
func (s *c20recSymbols) IsSet(name string) (bool, bool) { return s.types.IsSet(name) }

func (s *c20recSymbols) null() bool { return s.r != nil && s.r.chance(15) }

func (s *c20recSymbols) EvalBool(name string) *bool {
	s.ask(name)
	if s.null() {
		return nil
	}
	v := s.r == nil || s.r.chance(50)
	return &v
}
func (s *c20recSymbols) EvalString(name string) *string {
	s.ask(name)
	if s.null() {
		return nil
	}
	v := "a"
	if s.r != nil {
		v = s.r.pick([]string{"a", "B c", "", "zz"})
	}
	return &v
}
func (s *c20recSymbols) EvalInt64(name string) *int64 {
	s.ask(name)
	if s.null() {
		return nil
	}
	v := int64(2)
	if s.r != nil {
		v = int64(s.r.intn(50)) - 5
	}
	return &v
}
func (s *c20recSymbols) EvalFloat64(name string) *float64 {
	s.ask(name)
	if s.null() {
		return nil
	}
	v := 2.0
	if s.r != nil {
		v = float64(s.r.intn(50))/2 - 1
	}
	return &v
}
func (s *c20recSymbols) EvalDatetime(name string) *time.Time {
	s.ask(name)
	if s.null() {
		return nil
	}
	v := time.Date(2010, 1, 2, 3, 4, 5, 0, time.UTC)
	if s.r != nil && s.r.chance(50) {
		v = time.Date(2020, 1, 2, 3, 4, 5, 0, time.UTC)
	}
	return &v
}
func (s *c20recSymbols) IsNil(name string) bool {
	s.ask(name)
	return s.r != nil && s.r.chance(50)
}
func (s *c20recSymbols) cursor() ast.SetCursor {
	n := 2
	if s.r != nil {
		n = s.r.intn(3)
	}
	return &c20cursor{left: n}
}
func (s *c20recSymbols) OpenSetCursor(name string) ast.SetCursor {
	s.ask(name)
	return s.cursor()
}

// the real rowCursor runs the sub-query through the linked store's scanner: it evaluates the
// predicate on the linked rows and orders them by the sub-query's sort fields
func (s *c20recSymbols) OpenSetCursorForQuery(name string, query ast.Query) ast.SetCursor {
	s.ask(name)
	if query != nil && s.nested < 8 {
		s.nested++
		c20evalQuery(query, s)
		s.nested--
	}
	return s.cursor()
}

func c20evalQuery(q ast.Query, s *c20recSymbols) {
	defer func() { _ = recover() }()
	for _, sf := range q.GetSortFields() {
		s.ask(sf.Symbol())
	}
	q.EvalBool(s)
}

func c20evalNode(n ast.Node, s ast.Symbols) {
	try := func(f func()) {
		defer func() { _ = recover() }()
		f()
	}
	if x, ok := n.(ast.BoolNode); ok {
		try(func() { x.EvalBool(s) })
	}
	if x, ok := n.(ast.Int64Node); ok {
		try(func() { x.EvalInt64(s) })
	}
	if x, ok := n.(ast.Float64Node); ok {
		try(func() { x.EvalFloat64(s) })
	}
	if x, ok := n.(ast.StringNode); ok {
		try(func() { x.EvalString(s) })
	}
	if x, ok := n.(ast.DatetimeNode); ok {
		try(func() { x.EvalDatetime(s) })
	}
}

// evaluatedNames: every name the evaluator asks the row for, over (a) each node of the tree
// evaluated on its own against answers that are never null and sets that are never empty (no
// operand is hidden behind a short circuit), and (b) the whole query against random rows.
func evaluatedNames(q ast.Query, tree *c20node, types ast.SymbolTypes, r *rng, randomRuns int) []string {
	asked := map[string]bool{}
	fixed := &c20recSymbols{types: types, asked: asked}
	c20evalQuery(q, fixed)
	tree.each(func(n *c20node) { c20evalNode(n.value, fixed) })
	for i := 0; i < randomRuns; i++ {
		c20evalQuery(q, &c20recSymbols{types: types, asked: asked, r: r})
	}
	var out []string
	for n := range asked {
		out = append(out, n)
	}
	sort.Strings(out)
	return out
}

// ---------------------------------------------------------------------------------- store configurations
//
//	cfg_cases.txt : <store 0|1> <nops> {<op> <store> <hex name> <hex key> <aux>} <nprobes> {hex}
//	cfg_impl.txt  : <npub> {hex, sorted} <nmaps> {hex, sorted} <one 0/1 per probe: IsPublicSymbol>
//
// "maps" are the names under which the real store has a map symbol registered, found by asking
// GetSymbol for an element of every candidate name.

// the public names the assignment pub MEANS for the people store, from the harness' own schema
// (names; never a key): requested symbols / map names / resolvable composite names, plus the id
// and fk symbols the API always publishes
func c20intended(pub map[string]bool) []string {
	var out []string
	for _, d := range c20People {
		if d.class == "id" || d.class == "fk" || pub[d.name] {
			out = append(out, d.name)
		}
	}
	for n := range pub {
		if strings.Contains(n, ".") && c20schemaResolves(c20People, c20Places, n, 0) {
			out = append(out, n)
		}
	}
	sort.Strings(out)
	return out
}

func c20cfgLine(ops []c20op, target int, probes []string) string {
	var b strings.Builder
	fmt.Fprintf(&b, "%d %d", target, len(ops))
	for _, o := range ops {
		b.WriteByte(' ')
		b.WriteString(o.String())
	}
	b.WriteByte(' ')
	b.WriteString(hexList(probes))
	return b.String()
}

func c20parseCfgLine(line string) (ops []c20op, target int, probes []string, ok bool) {
	defer func() {
		if recover() != nil {
			ok = false
		}
	}()
	f := strings.Fields(line)
	target = c20atoi(f[0])
	n := c20atoi(f[1])
	pos := 2
	for i := 0; i < n; i++ {
		o := c20op{op: f[pos][0], store: c20atoi(f[pos+1]), name: string(unhx(f[pos+2])), key: string(unhx(f[pos+3])), aux: f[pos+4]}
		if o.aux == "-" {
			o.aux = ""
		}
		ops = append(ops, o)
		pos += 5
	}
	np := c20atoi(f[pos])
	pos++
	for i := 0; i < np; i++ {
		probes = append(probes, string(unhx(f[pos])))
		pos++
	}
	return ops, target, probes, true
}

// every undotted name that could be the name of a map symbol: names and keys of the program,
// first components of dotted names and probes
func c20candidates(ops []c20op, probes []string) []string {
	seen := map[string]bool{}
	var out []string
	add := func(n string) {
		if i := strings.IndexByte(n, '.'); i >= 0 {
			n = n[:i]
		}
		if n != "" && !seen[n] {
			seen[n] = true
			out = append(out, n)
		}
	}
	for _, o := range ops {
		add(o.name)
		add(o.key)
	}
	for _, p := range probes {
		add(p)
	}
	return out
}

func c20sortedHex(xs []string) []string {
	seen := map[string]bool{}
	var out []string
	for _, x := range xs {
		h := hxs(x)
		if !seen[h] {
			seen[h] = true
			out = append(out, h)
		}
	}
	sort.Strings(out)
	return out
}

func c20observeStore(st boltz.ConfigurableStore, candidates, probes []string) (res string) {
	defer func() {
		if recover() != nil {
			res = "E"
		}
	}()
	pub := c20sortedHex(st.GetPublicSymbols())
	var maps []string
	for _, cand := range candidates {
		if st.GetSymbol(cand+".c20probe") != nil {
			maps = append(maps, cand)
		}
	}
	mh := c20sortedHex(maps)
	var b strings.Builder
	fmt.Fprintf(&b, "%d", len(pub))
	for _, h := range pub {
		b.WriteString(" " + h)
	}
	fmt.Fprintf(&b, " %d", len(mh))
	for _, h := range mh {
		b.WriteString(" " + h)
	}
	b.WriteByte(' ')
	if len(probes) == 0 {
		b.WriteByte('-')
	}
	for _, p := range probes {
		if st.IsPublicSymbol(p) {
			b.WriteByte('1')
		} else {
			b.WriteByte('0')
		}
	}
	return b.String()
}

func (c *c20run) emitCfg(ops []c20op, target int, st *c20stores, probes []string) {
	line := c20cfgLine(ops, target, probes)
	if c.cfgSeen[line] {
		return
	}
	c.cfgSeen[line] = true
	if st == nil {
		st = c20build(ops)
	}
	c.cfg.line("%s", line)
	c.cfgImpl.line("%s", c20observeStore(st.store(target), c20candidates(ops, probes), probes))
	c.stats["cfg-cases"]++
}

// probe names for programs over the people schema: every name and key, an element and a nested
// element of each, the composite names, and names that are nothing
func c20peopleProbes() []string {
	seen := map[string]bool{}
	var out []string
	add := func(n string) {
		if !seen[n] {
			seen[n] = true
			out = append(out, n)
		}
	}
	for _, d := range c20People {
		for _, n := range []string{d.name, d.bucketKey()} {
			add(n)
			add(n + ".env")
			add(n + ".a.b")
		}
	}
	for _, n := range c20Composite {
		add(n)
	}
	add("nosuch")
	add("nosuch.x")
	return out
}

// programs written by hand: the order of MakeSymbolPublic and AddMapSymbol, re-registration under
// another key, GrantSymbols to a child store before / after the child's own configuration
func (c *c20run) fixedCfgPrograms() {
	t := c20typ(ast.NodeTypeAnyType)
	ts := c20typ(ast.NodeTypeString)
	probes := []string{"id", "name", "labels", "labels.env", "labels.a.b", "attrs", "attrs.secret", "tags", "tags.x", "lbl", "lbl.env",
		"name.secret", "alias", "alias.x", "home", "home.name", "home.nosuch", "nosuch", "nosuch.x"}
	base := []c20op{{'I', 0, "id", "", ts}, {'A', 0, "name", "name", ts}}
	with := func(more ...c20op) []c20op { return append(append([]c20op{}, base...), more...) }
	progs := [][]c20op{
		// the demonstration store: public map stored under another key; non-public map stored under the name of a public symbol
		with(c20op{'M', 0, "labels", "tags", t}, c20op{'K', 0, "labels", "", "0"}, c20op{'M', 0, "attrs", "name", t}),
		// published too early: MakeSymbolPublic before AddMapSymbol is ignored
		with(c20op{'K', 0, "labels", "", "0"}, c20op{'M', 0, "labels", "lbl", t}),
		with(c20op{'K', 0, "labels.env", "", "0"}, c20op{'M', 0, "labels", "lbl", t}),
		// published, then registered again under another key: still public, by name
		with(c20op{'M', 0, "labels", "lbl", t}, c20op{'K', 0, "labels", "", "0"}, c20op{'M', 0, "labels", "name", t}),
		// only an element published
		with(c20op{'M', 0, "labels", "lbl", t}, c20op{'K', 0, "labels.env", "", "0"}),
		// a scalar stored under the name of a map and vice versa
		with(c20op{'A', 0, "alias", "labels", ts}, c20op{'M', 0, "labels", "alias", t}),
		with(c20op{'E', 0, "alias", "", ts}, c20op{'M', 0, "labels", "alias", t}, c20op{'K', 0, "labels", "", "0"}),
		// composite names through a linked symbol with a key of its own
		with(c20op{'F', 0, "home", "house", ""}, c20op{'K', 0, "home.name", "", "1"}, c20op{'K', 0, "home.nosuch", "", "0"}),
		// unknown names cannot be published
		with(c20op{'K', 0, "nosuch", "", "0"}, c20op{'K', 0, "nosuch.x", "", "0"}),
	}
	for _, p := range progs {
		c.emitCfg(p, 0, nil, probes)
	}
	// GrantSymbols (name = key maps: the child inherits public flags by name)
	grants := [][]c20op{
		with(c20op{'E', 0, "secret", "", ts}, c20op{'M', 0, "tags", "tags", t}, c20op{'K', 0, "tags", "", "0"}, c20op{'M', 0, "meta", "meta", t},
			c20op{'G', 0, "", "", ""}),
		// the child's own symbols before and after the grant
		with(c20op{'M', 0, "tags", "tags", t}, c20op{'K', 0, "tags", "", "0"}, c20op{'A', 1, "own", "own", ts}, c20op{'M', 1, "labels", "lbl", t},
			c20op{'G', 0, "", "", ""}, c20op{'K', 1, "labels", "", "0"}, c20op{'E', 1, "alias", "", ts}),
		// published in the parent only after the grant: not handed down
		with(c20op{'M', 0, "tags", "tags", t}, c20op{'G', 0, "", "", ""}, c20op{'K', 0, "tags", "", "0"}),
		// maps whose name differs from their key (inheritMapSymbol registers them under the key)
		with(c20op{'M', 0, "labels", "tags", t}, c20op{'K', 0, "labels", "", "0"}, c20op{'M', 0, "attrs", "name", t}, c20op{'G', 0, "", "", ""}),
	}
	gprobes := append(append([]string{}, probes...), "secret", "own", "own.x", "meta", "meta.x")
	for _, p := range grants {
		c.emitCfg(p, 0, nil, gprobes)
		c.emitCfg(p, 1, nil, gprobes)
	}
}

// seeded random programs over a tiny pool of names, so that keys and names coincide all the time
func (c *c20run) randomCfgProgram() {
	r := c.r
	pool := []string{"a", "b", "c", "d", "id"}
	rests := []string{"x", "y.z", "name", "zip", "nosuch", "info.k"}
	var probes []string
	for _, n := range pool {
		probes = append(probes, n)
		for _, x := range rests {
			probes = append(probes, n+"."+x)
		}
	}
	probes = append(probes, "nosuch", "nosuch.x")
	ts := c20typ(ast.NodeTypeString)
	cls := [2]map[string]string{{}, {}}    // latest registration of a name in store.symbols: plain | linked
	mapKey := [2]map[string]string{{}, {}} // store.mapSymbols as the harness expects it (only used to keep GrantSymbols order-independent)
	var ops []c20op
	n := 2 + r.intn(9)
	for i := 0; i < n; i++ {
		st := 0
		if r.chance(30) {
			st = 1
		}
		name, key := r.pick(pool), r.pick(pool)
		if r.chance(40) {
			key = name
		}
		switch r.intn(12) {
		case 0:
			ops = append(ops, c20op{'I', st, "id", "", ts})
			cls[st]["id"] = "plain"
		case 1, 2:
			ops = append(ops, c20op{'A', st, name, key, ts})
			cls[st][name] = "plain"
		case 3:
			ops = append(ops, c20op{'F', st, name, key, ""})
			cls[st][name] = "linked"
		case 4:
			ops = append(ops, c20op{"QSE"[r.intn(3)], st, name, "", ts})
			cls[st][name] = "plain"
		case 5:
			ops = append(ops, c20op{'L', st, name, "", ""})
			cls[st][name] = "linked"
		case 6, 7, 8:
			ops = append(ops, c20op{'M', st, name, key, c20typ(ast.NodeTypeAnyType)})
			mapKey[st][name] = key
		case 9, 10:
			target := name
			aux := "0"
			if r.chance(50) {
				rest := r.pick(rests)
				target = name + "." + rest
				if cls[st][name] == "linked" && c20schemaResolves(c20Places, nil, rest, 0) {
					aux = "1"
				}
			}
			ops = append(ops, c20op{'K', st, target, "", aux})
		case 11:
			// Go ranges over mapSymbols in random order; the outcome depends on it only when a map with
			// name != key is called like the key of another map - do not grant then
			chain := false
			for m, k := range mapKey[0] {
				for m2, k2 := range mapKey[0] {
					if m != m2 && k2 == m && k != m {
						chain = true
					}
				}
			}
			if chain {
				continue
			}
			ops = append(ops, c20op{'G', 0, "", "", ""})
			for nm, cl := range cls[0] {
				cls[1][nm] = cl
			}
			for _, k := range mapKey[0] {
				mapKey[1][k] = k
			}
		}
	}
	st := c20build(ops)
	c.emitCfg(ops, 0, st, probes)
	c.emitCfg(ops, 1, st, probes)
}

// ---------------------------------------------------------------------------------- run

type c20run struct {
	cases, impl, oracle *lineWriter
	cfg, cfgImpl        *lineWriter
	cfgSeen             map[string]bool
	peopleProbes        []string
	kinds               map[string]int
	stats               map[string]int
	qid                 int
	r                   *rng
	randomEval          int
	seq                 *c20seqState // histories of validations (c20_seq.go)
}

func hexList(xs []string) string {
	var b strings.Builder
	fmt.Fprintf(&b, "%d", len(xs))
	for _, x := range xs {
		b.WriteByte(' ')
		b.WriteString(hxs(x))
	}
	return b.String()
}

func (c *c20run) verdict(q ast.Query, st boltz.Store) (res string) {
	defer func() {
		if p := recover(); p != nil {
			res = "E"
		}
	}()
	err := boltz.ValidateSymbolsArePublic(q, st)
	if err == nil {
		return "A"
	}
	var use ast.UnknownSymbolError
	if errors.As(err, &use) {
		return "R " + hxs(use.Symbol)
	}
	return "E"
}

func (c *c20run) visited(n ast.Node) (out []string, ok bool) {
	defer func() {
		if p := recover(); p != nil {
			ok = false
		}
	}()
	v := &c20recVisitor{}
	n.Accept(v)
	return v.syms, true
}

// one query against a list of public sets
func (c *c20run) emitQuery(text string, textSyms []string, pubs [][]string) {
	all := map[string]bool{}
	for _, d := range c20People {
		all[d.name] = true
	}
	typeStores := buildStores(all)
	q, err, panicked := c20parse(typeStores.people, text)
	if panicked {
		c.stats["parse-panicked"]++ // an unchecked type assertion of the typer: property C10's subject
		return
	}
	if err != nil || q == nil {
		c.stats["parse-rejected"]++
		return
	}
	c.stats["parsed"]++
	c.qid++
	c.seqRemember(text, textSyms, q)
	typed := reflectNode(q)
	if typed == nil {
		c.stats["reflect-failed"]++
		return
	}
	typed.each(func(n *c20node) { c.kinds[n.kind]++ })
	var tb strings.Builder
	typed.write(&tb)
	vis, vok := c.visited(q)
	evaluated := evaluatedNames(q, typed, typeStores.people, c.r, c.randomEval)

	var untyped *c20node
	var un ast.Node
	var ub strings.Builder
	var uvis []string
	uvok := false
	if un = untypedTree(text); un != nil {
		if untyped = reflectNode(un); untyped != nil {
			untyped.each(func(n *c20node) { c.kinds[n.kind]++ })
			untyped.write(&ub)
			uvis, uvok = c.visited(un)
		}
	} else {
		c.stats["untyped-tree-unavailable"]++
	}

	for _, pub := range pubs {
		pm := map[string]bool{}
		for _, p := range pub {
			pm[p] = true
		}
		prog := c20program(pm)
		st := c20build(prog)
		c.emitCfg(prog, 0, st, c.peopleProbes)
		intended := hexList(c20intended(pm))
		// the public set the real store reports (id / fk symbols are always published)
		real := st.people.GetPublicSymbols()
		sort.Strings(real)
		pubList := hexList(real)
		maps := hexList(c20MapNames())

		c.cases.line("Y %s %s %s", pubList, maps, tb.String())
		if vok {
			c.impl.line("%s %s", hexList(vis), c.verdict(q, st.people))
		} else {
			c.impl.line("0 E")
		}
		c.oracle.line("%d %s %s %s %s", c.qid, hxs(text), hexList(textSyms), hexList(evaluated), intended)
		c.stats["cases-typed"]++

		if untyped != nil {
			c.cases.line("U %s %s %s", pubList, maps, ub.String())
			if uvok {
				c.impl.line("%s %s", hexList(uvis), c.verdict(c20queryWrap{un}, st.people))
			} else {
				c.impl.line("0 E")
			}
			c.oracle.line("%d %s %s 0 %s", c.qid, hxs(text), hexList(textSyms), intended)
			c.stats["cases-untyped"]++
		}
	}
}

func c20parse(st ast.SymbolTypes, text string) (q ast.Query, err error, panicked bool) {
	defer func() {
		if recover() != nil {
			panicked = true
		}
	}()
	q, err = ast.Parse(st, text)
	return
}

func c20distinct(xs []string) []string {
	seen := map[string]bool{}
	var out []string
	for _, x := range xs {
		if !seen[x] {
			seen[x] = true
			out = append(out, x)
		}
	}
	return out
}

func c20universe() []string {
	var out []string
	for _, d := range c20People {
		if d.class != "id" && d.class != "fk" {
			out = append(out, d.name)
		}
	}
	return out
}

// public sets for one query: everything public; each referenced symbol alone non-public (and,
// for a dotted name, its base alone non-public); everything non-public; random ones; and sets
// that publish a dotted name explicitly while its base is not public
func (c *c20run) assignments(textSyms []string, nRandom int) [][]string {
	uni := c20universe()
	var out [][]string
	out = append(out, append([]string{}, uni...))
	except := func(drop ...string) []string {
		var xs []string
		for _, u := range uni {
			keep := true
			for _, d := range drop {
				if u == d {
					keep = false
				}
			}
			if keep {
				xs = append(xs, u)
			}
		}
		return xs
	}
	seen := map[string]bool{}
	symKeys := c20SymKeys()
	inUni := map[string]bool{}
	for _, u := range uni {
		inUni[u] = true
	}
	for _, s := range c20distinct(textSyms) {
		base := s
		if i := strings.IndexByte(s, '.'); i > 0 {
			base = s[:i]
			// the dotted name itself explicitly published, base not
			out = append(out, append(except(base), s))
		}
		if !seen[base] {
			seen[base] = true
			out = append(out, except(base))
			// a symbol (map, scalar, fk) stored under a key that is not its name: the NAME decides, so vary the
			// public flag of whatever else is called like the key independently of the symbol's own
			if key := symKeys[base]; key != "" && key != base {
				out = append(out, []string{base}) // the symbol alone public
				if inUni[key] {
					out = append(out, except(key))       // map public, the symbol named like its key not
					out = append(out, []string{key})     // map not public, the symbol named like its key public
					out = append(out, except(base, key)) // neither
				}
			}
		}
	}
	out = append(out, nil)
	for i := 0; i < nRandom; i++ {
		var xs []string
		p := 30 + c.r.intn(60)
		for _, u := range uni {
			if c.r.chance(p) {
				xs = append(xs, u)
			}
		}
		if c.r.chance(20) {
			xs = append(xs, c.r.pick(c20Composite))
		}
		out = append(out, xs)
	}
	return out
}

// newRng(seed) and newRng(seed+1) are the same splitmix stream shifted by one draw, and the
// generators here consume a data-dependent number of draws per query, so neighbouring seeds
// re-synchronise after a few hundred queries.  Scatter the seed first.
func c20mixSeed(seed int64) int64 {
	z := uint64(seed) + 0x5851F42D4C957F2D
	z = (z ^ (z >> 33)) * 0xFF51AFD7ED558CCD
	z = (z ^ (z >> 33)) * 0xC4CEB9FE1A85EC53
	return int64(z ^ (z >> 33))
}

func runC20(o *opts) error {
	logrus.SetOutput(io.Discard)
	c := &c20run{
		cases: newLineWriter(o.out, "cases.txt"), impl: newLineWriter(o.out, "impl.txt"), oracle: newLineWriter(o.out, "oracle.txt"),
		cfg: newLineWriter(o.out, "cfg_cases.txt"), cfgImpl: newLineWriter(o.out, "cfg_impl.txt"), cfgSeen: map[string]bool{},
		peopleProbes: c20peopleProbes(),
		kinds:        map[string]int{}, stats: map[string]int{}, r: newRng(c20mixSeed(o.seed)), randomEval: 6,
	}
	defer func() {
		c.cases.close()
		c.impl.close()
		c.oracle.close()
		c.cfg.close()
		c.cfgImpl.close()
		c.seqClose()
	}()
	c.seqInit(o.out)

	if rc := o.get("replayseq", ""); rc != "" {
		err := c.seqReplay(rc)
		writeJSON(o.out, "stats.json", map[string]interface{}{"stats": c.stats, "kinds": c.kinds, "symbol_keys": c20SymKeys()})
		return err
	}

	if rc := o.get("replaycfg", ""); rc != "" {
		data, err := os.ReadFile(rc)
		if err != nil {
			return err
		}
		for _, line := range strings.Split(strings.TrimSpace(string(data)), "\n") {
			if ops, target, probes, ok := c20parseCfgLine(line); ok {
				c.emitCfg(ops, target, nil, probes)
			}
		}
		writeJSON(o.out, "stats.json", map[string]interface{}{"stats": c.stats, "kinds": c.kinds, "symbol_keys": c20SymKeys()})
		return nil
	}

	if rc := o.get("replaycase", ""); rc != "" {
		// <hex text> <ntext> {hex} <npub> {hex}
		data, err := os.ReadFile(rc)
		if err != nil {
			return err
		}
		for _, line := range strings.Split(strings.TrimSpace(string(data)), "\n") {
			f := strings.Fields(line)
			if len(f) < 3 {
				continue
			}
			text := string(unhx(f[0]))
			pos := 1
			readList := func() []string {
				var n int
				fmt.Sscanf(f[pos], "%d", &n)
				pos++
				var xs []string
				for i := 0; i < n; i++ {
					xs = append(xs, string(unhx(f[pos])))
					pos++
				}
				return xs
			}
			textSyms := readList()
			pub := readList()
			c.emitQuery(text, textSyms, [][]string{pub})
		}
		writeJSON(o.out, "stats.json", map[string]interface{}{"stats": c.stats, "kinds": c.kinds, "symbol_keys": c20SymKeys()})
		return nil
	}

	nRandomAssign := 1
	nRandomQueries := 900
	nRandomCfg := 1500
	if o.thorough() {
		nRandomAssign = 3
		nRandomQueries = 12000
		nRandomCfg = 20000
		c.randomEval = 12
	}
	if o.n > 0 {
		nRandomQueries = o.n
	}

	// (0) hand-written store configurations (first: a failing one is the smallest demonstration)
	c.fixedCfgPrograms()
	// (1) bounded-exhaustive: every lhs shape x every operator/literal template, alone and under
	// a sort clause; typing decides which of them are queries
	tmpl := c20OpTemplates()
	for _, inner := range []bool{false} {
		for _, lhs := range c20Lhs(inner) {
			for _, t := range tmpl {
				g := &c20gen{}
				text := lhs.text(g) + t
				c.emitQuery(text, g.syms, c.assignments(g.syms, 0))
			}
		}
	}
	// the same operations inside sub-queries (symbols of the linked store)
	for _, lhs := range c20Lhs(true) {
		for i, t := range tmpl {
			g := &c20gen{}
			var text string
			if i%2 == 0 {
				text = "isEmpty(from " + g.id("places") + " where " + lhs.text(g) + t + ")"
			} else {
				text = "count(from " + g.id("places") + " where " + lhs.text(g) + t + ") > 0"
			}
			c.emitQuery(text, g.syms, c.assignments(g.syms, 0))
		}
	}
	// boolean forms, set functions without comparison, sort / skip / limit only
	fixed := []struct {
		text string
		syms []string
	}{
		{"true", nil}, {"false", nil}, {"active", []string{"active"}}, {"not flag", []string{"flag"}},
		{"tags.foo", []string{"tags.foo"}}, {"extra", []string{"extra"}},
		{"isEmpty(nums)", []string{"nums"}}, {"isEmpty(places)", []string{"places"}}, {"not isEmpty(ints)", []string{"ints"}},
		{"isEmpty(places.shops)", []string{"places.shops"}},
		{"isEmpty(from places where true)", []string{"places"}},
		{"isEmpty(from places where open sort by zip)", []string{"places", "open", "zip"}},
		{"isEmpty(from places where isEmpty(from residents where age > 3 sort by nick desc) sort by name limit 3)", []string{"places", "residents", "age", "nick", "name"}},
		{"count(from places where isEmpty(shops)) = 0", []string{"places", "shops"}},
		{"sort by name", []string{"name"}}, {"sort by age desc, name asc, tags.foo", []string{"age", "name", "tags.foo"}},
		{"skip 3", nil}, {"limit 5", nil}, {"limit none", nil}, {"skip 1 limit 2", nil},
		{"true sort by score skip 2 limit none", []string{"score"}},
		{"(name = \"a\" or age > 3) and not (active = true) sort by born", []string{"name", "age", "active", "born"}},
		{"name = \"a\" and nick = \"b\" or age = 1 and rank = 2", []string{"name", "nick", "age", "rank"}},
		{"", nil},
	}
	for _, f := range fixed {
		c.emitQuery(f.text, f.syms, c.assignments(f.syms, 1))
	}
	// (2) random compositions
	for i := 0; i < nRandomQueries; i++ {
		g := &c20gen{r: c.r}
		text := g.query(false, 1+c.r.intn(3), true)
		c.emitQuery(text, g.syms, c.assignments(g.syms, nRandomAssign))
	}
	// (2b) histories: sequences of validations on stores that live through them (c20_seq.go)
	c.seqStream(o.thorough())
	// (3) random store configurations on their own
	for i := 0; i < nRandomCfg; i++ {
		c.randomCfgProgram()
	}
	writeJSON(o.out, "stats.json", map[string]interface{}{"stats": c.stats, "kinds": c.kinds, "symbol_keys": c20SymKeys()})
	return nil
}
