package main

import (
	"errors"
	"fmt"
	"io"
	"os"
	"reflect"
	"sort"
	"strings"
	"time"
	"unsafe"

	"github.com/openziti/storage/ast"
	"github.com/openziti/storage/boltz"
	"github.com/openziti/storage/zitiql"
	"github.com/sirupsen/logrus"
)

// C20 - public-symbol validation sees every symbol a query references.
//
// For every generated (query text, public set) the harness
//   - parses the text with ast.Parse against a real boltz store,
//   - dumps the real typed tree by reflection (kind, string fields, child fields) -> cases.txt,
//   - runs a recording visitor (sequence of VisitSymbol arguments) and the real
//     boltz.ValidateSymbolsArePublic against a real store with that public set -> impl.txt,
//   - evaluates every node of the tree against a recording ast.Symbols (every name the EVALUATOR
//     asks for) and remembers the identifiers the generator wrote into the text -> oracle.txt.
//
// The untyped tree (as built by the listener, before typing) goes through the same visitor
// comparison, which exercises the transient node kinds as well.
//
//	cases.txt :  <Y|U> <npub> {hex} <nmaps> {hex} <tree>
//	             tree := T <kind> <nstrs> {<field> <hex>} <nkids> {<field> <n> {tree}}
//	impl.txt  :  <nvis> {hex} <A | R <hex> | E>
//	oracle.txt:  <qid> <hex text> <ntext> {hex} <neval> {hex}
func init() { commands["c20"] = runC20 }

// ---------------------------------------------------------------------------------- schema

type c20sym struct {
	name  string
	typ   ast.NodeType
	class string // scalar | id | set | fkset | fk | map
}

var c20People = []c20sym{
	{"id", ast.NodeTypeString, "id"},
	{"name", ast.NodeTypeString, "scalar"},
	{"nick", ast.NodeTypeString, "scalar"},
	{"age", ast.NodeTypeInt64, "scalar"},
	{"rank", ast.NodeTypeInt64, "scalar"},
	{"score", ast.NodeTypeFloat64, "scalar"},
	{"born", ast.NodeTypeDatetime, "scalar"},
	{"seen", ast.NodeTypeDatetime, "scalar"},
	{"active", ast.NodeTypeBool, "scalar"},
	{"flag", ast.NodeTypeBool, "scalar"},
	{"extra", ast.NodeTypeAnyType, "scalar"},
	{"nums", ast.NodeTypeString, "set"},
	{"ints", ast.NodeTypeInt64, "set"},
	{"flts", ast.NodeTypeFloat64, "set"},
	{"days", ast.NodeTypeDatetime, "set"},
	{"places", ast.NodeTypeString, "fkset"},
	{"home", ast.NodeTypeString, "fk"},
	{"tags", ast.NodeTypeAnyType, "map"},
	{"meta", ast.NodeTypeAnyType, "map"},
}

var c20Places = []c20sym{
	{"id", ast.NodeTypeString, "id"},
	{"name", ast.NodeTypeString, "scalar"},
	{"zip", ast.NodeTypeInt64, "scalar"},
	{"open", ast.NodeTypeBool, "scalar"},
	{"shops", ast.NodeTypeString, "set"},
	{"residents", ast.NodeTypeString, "fkset"},
	{"info", ast.NodeTypeAnyType, "map"},
}

var c20MapNames = []string{"tags", "meta"}

// composite / element names the generator uses (and may publish explicitly)
var c20Composite = []string{"places.name", "places.zip", "places.id", "places.shops", "home.name", "home.zip",
	"tags.foo", "tags.bar-baz", "meta.x", "tags.a.b"}

type c20stores struct {
	people boltz.ConfigurableStore
	places boltz.ConfigurableStore
}

// buildStores creates real boltz stores whose public symbols are exactly pub (plus those the
// API always publishes: id and fk symbols added with AddIdSymbol / AddFkSymbol).
func buildStores(pub map[string]bool) *c20stores {
	peopleDef := (&boltz.StoreDefinition[boltz.Entity]{EntityType: "people"}).WithBasePath("app")
	placesDef := (&boltz.StoreDefinition[boltz.Entity]{EntityType: "places"}).WithBasePath("app")
	s := &c20stores{people: boltz.NewBaseStore(*peopleDef), places: boltz.NewBaseStore(*placesDef)}
	add := func(st boltz.ConfigurableStore, other boltz.ConfigurableStore, defs []c20sym, pub map[string]bool) {
		for _, d := range defs {
			switch d.class {
			case "id":
				st.AddIdSymbol(d.name, d.typ)
			case "scalar":
				if pub[d.name] {
					st.AddSymbol(d.name, d.typ)
				} else {
					st.AddEntitySymbol(st.NewEntitySymbol(d.name, d.typ))
				}
			case "set":
				st.AddSetSymbol(d.name, d.typ)
			case "fkset":
				st.AddFkSetSymbol(d.name, other)
			case "fk":
				st.AddFkSymbol(d.name, other)
			case "map":
				st.AddMapSymbol(d.name, d.typ, d.name)
			}
		}
	}
	add(s.places, s.people, c20Places, map[string]bool{"name": true, "zip": true, "open": true})
	add(s.people, s.places, c20People, pub)
	for _, d := range c20People {
		if pub[d.name] && (d.class == "set" || d.class == "fkset" || d.class == "map") {
			s.people.MakeSymbolPublic(d.name)
		}
	}
	var extra []string
	for n := range pub {
		if strings.Contains(n, ".") {
			extra = append(extra, n)
		}
	}
	sort.Strings(extra)
	for _, n := range extra {
		s.people.MakeSymbolPublic(n)
	}
	return s
}

// ---------------------------------------------------------------------------------- generator

type c20gen struct {
	r    *rng
	syms []string // identifiers written into the text, in order
}

func (g *c20gen) id(name string) string {
	g.syms = append(g.syms, name)
	if g.r != nil && g.r.chance(5) {
		return "'" + name + "'" // the quoted identifier form of the grammar
	}
	return name
}

type c20lhs struct {
	text func(g *c20gen) string
	desc string
}

func symLhs(name string) c20lhs {
	return c20lhs{func(g *c20gen) string { return g.id(name) }, "sym:" + name}
}
func fnLhs(fn, name string) c20lhs {
	return c20lhs{func(g *c20gen) string { return fn + "(" + g.id(name) + ")" }, fn + ":" + name}
}

var c20Strings = []string{`"a"`, `"B c"`, `""`, `"x.y"`}
var c20Ints = []string{"0", "-5", "42"}
var c20Floats = []string{"1.5", "-0.25", "2e3"}
var c20Dates = []string{"datetime(2020-01-02T03:04:05Z)", "datetime(1999-12-31T23:59:59+01:00)"}

// every operator / literal-kind template of the `operation` grammar rule
func c20OpTemplates() []string {
	var out []string
	cmp := []string{"=", "!=", "<", "<=", ">", ">="}
	for _, op := range cmp {
		out = append(out, " "+op+" "+c20Strings[0], op+c20Ints[2], " "+op+" "+c20Floats[0], " "+op+" "+c20Dates[0])
	}
	for _, op := range []string{"=", "!="} {
		out = append(out, " "+op+" true", " "+op+" false", " "+op+" null")
	}
	for _, op := range []string{"contains", "not contains", "icontains", "not icontains"} {
		out = append(out, " "+op+" "+c20Strings[1])
	}
	out = append(out, " contains 4", " not contains 4")
	for _, op := range []string{"in", "not in"} {
		out = append(out,
			" "+op+` ["a", "b"]`, " "+op+` ["a"]`,
			" "+op+" [1, 2, 3]", " "+op+" [1.5, 2]", " "+op+" [2.5]",
			" "+op+" ["+c20Dates[0]+", "+c20Dates[1]+"]")
	}
	for _, op := range []string{"between", "not between"} {
		out = append(out, " "+op+" 1 and 10", " "+op+" 1.5 and 10", " "+op+" 0.5 and 2.5",
			" "+op+" "+c20Dates[1]+" and "+c20Dates[0])
	}
	return out
}

func c20Lhs(inner bool) []c20lhs {
	var out []c20lhs
	if inner {
		for _, n := range []string{"id", "name", "zip", "open", "info.k", "residents.name"} {
			out = append(out, symLhs(n))
		}
		for _, fn := range []string{"anyOf", "allOf", "count"} {
			for _, n := range []string{"shops", "residents", "residents.age"} {
				out = append(out, fnLhs(fn, n))
			}
		}
		return out
	}
	for _, d := range c20People {
		if d.class == "scalar" || d.class == "id" || d.class == "fk" {
			out = append(out, symLhs(d.name))
		}
	}
	for _, n := range []string{"home.name", "home.zip", "tags.foo", "tags.bar-baz", "meta.x", "tags.a.b"} {
		out = append(out, symLhs(n))
	}
	for _, fn := range []string{"anyOf", "allOf", "count"} {
		for _, n := range []string{"nums", "ints", "flts", "days", "places", "places.name", "places.zip", "places.id", "places.shops"} {
			out = append(out, fnLhs(fn, n))
		}
	}
	return out
}

func (g *c20gen) pickS(xs []string) string { return xs[g.r.intn(len(xs))] }

// a random operation that usually types
func (g *c20gen) atom(inner bool, depth int) string {
	type tl struct {
		lhs []string
		fn  []string
	}
	var strSyms, intSyms, fltSyms, dateSyms, boolSyms, anySyms, sSets, iSets, fSets, dSets, fkSets []string
	if inner {
		strSyms, intSyms, boolSyms, anySyms = []string{"name", "id", "residents.name"}, []string{"zip"}, []string{"open"}, []string{"info.k"}
		sSets, iSets, fkSets = []string{"shops", "residents", "residents.name"}, []string{"residents.age"}, []string{"residents"}
	} else {
		strSyms = []string{"name", "nick", "id", "home", "home.name"}
		intSyms, fltSyms, dateSyms = []string{"age", "rank", "home.zip"}, []string{"score"}, []string{"born", "seen"}
		boolSyms, anySyms = []string{"active", "flag"}, []string{"extra", "tags.foo", "tags.bar-baz", "meta.x", "tags.a.b"}
		sSets, iSets, fSets, dSets = []string{"nums", "places", "places.name", "places.id", "places.shops"}, []string{"ints", "places.zip"}, []string{"flts"}, []string{"days"}
		fkSets = []string{"places"}
	}
	cmp := []string{"=", "!=", "<", "<=", ">", ">="}
	lhsOf := func(scalars, sets []string) string {
		if len(sets) > 0 && (len(scalars) == 0 || g.r.chance(40)) {
			return g.pickS([]string{"anyOf", "allOf"}) + "(" + g.id(g.pickS(sets)) + ")"
		}
		return g.id(g.pickS(scalars))
	}
	neg := func() string {
		if g.r.chance(30) {
			return "not "
		}
		return ""
	}
	strLit := func() string { return g.pickS(c20Strings) }
	intLit := func() string { return g.pickS(c20Ints) }
	numLit := func() string {
		if g.r.chance(50) {
			return g.pickS(c20Floats)
		}
		return g.pickS(c20Ints)
	}
	dateLit := func() string { return g.pickS(c20Dates) }
	list := func(f func() string) string {
		n := 1 + g.r.intn(3)
		var xs []string
		for i := 0; i < n; i++ {
			xs = append(xs, f())
		}
		return "[" + strings.Join(xs, ", ") + "]"
	}
	for tries := 0; tries < 20; tries++ {
		switch g.r.intn(16) {
		case 0:
			return lhsOf(strSyms, sSets) + " " + g.pickS(cmp) + " " + strLit()
		case 1:
			return lhsOf(strSyms, sSets) + " " + neg() + g.pickS([]string{"contains", "icontains"}) + " " + strLit()
		case 2:
			return lhsOf(strSyms, sSets) + " " + neg() + "in " + list(strLit)
		case 3:
			return lhsOf(intSyms, iSets) + " " + g.pickS(cmp) + " " + numLit()
		case 4:
			return lhsOf(intSyms, iSets) + " " + neg() + "in " + list(numLit)
		case 5:
			return lhsOf(intSyms, iSets) + " " + neg() + "between " + numLit() + " and " + numLit()
		case 6:
			if len(fltSyms) == 0 {
				continue
			}
			return lhsOf(fltSyms, fSets) + " " + g.pickS(cmp) + " " + numLit()
		case 7:
			if len(fltSyms) == 0 {
				continue
			}
			if g.r.chance(50) {
				return lhsOf(fltSyms, fSets) + " " + neg() + "in " + list(numLit)
			}
			return lhsOf(fltSyms, fSets) + " " + neg() + "between " + numLit() + " and " + numLit()
		case 8:
			if len(dateSyms) == 0 {
				continue
			}
			switch g.r.intn(3) {
			case 0:
				return lhsOf(dateSyms, dSets) + " " + g.pickS(cmp) + " " + dateLit()
			case 1:
				return lhsOf(dateSyms, dSets) + " " + neg() + "in " + list(dateLit)
			}
			return lhsOf(dateSyms, dSets) + " " + neg() + "between " + dateLit() + " and " + dateLit()
		case 9:
			return g.id(g.pickS(boolSyms)) + " " + g.pickS([]string{"=", "!="}) + " " + g.pickS([]string{"true", "false"})
		case 10:
			all := append(append(append([]string{}, strSyms...), intSyms...), anySyms...)
			return g.id(g.pickS(all)) + " " + g.pickS([]string{"=", "!="}) + " null"
		case 11:
			// any-typed symbol: the literal decides the operation type
			s := g.id(g.pickS(anySyms))
			switch g.r.intn(5) {
			case 0:
				return s + " " + g.pickS(cmp) + " " + strLit()
			case 1:
				return s + " " + g.pickS(cmp) + " " + numLit()
			case 2:
				return s + " = " + g.pickS([]string{"true", "false"})
			case 3:
				return s + " " + g.pickS(cmp) + " " + dateLit()
			}
			return s + " " + neg() + "in " + list(strLit)
		case 12:
			all := append(append(append([]string{}, sSets...), iSets...), fSets...)
			return "count(" + g.id(g.pickS(all)) + ") " + g.pickS(cmp) + " " + intLit()
		case 13:
			if depth <= 0 || len(fkSets) == 0 {
				continue
			}
			return "count(" + g.subQuery(inner, depth-1) + ") " + g.pickS(cmp) + " " + intLit()
		case 14:
			all := append(append([]string{}, sSets...), iSets...)
			return "isEmpty(" + g.id(g.pickS(all)) + ")"
		case 15:
			if depth <= 0 || len(fkSets) == 0 {
				continue
			}
			return "isEmpty(" + g.subQuery(inner, depth-1) + ")"
		}
	}
	return g.id(g.pickS(boolSyms))
}

// from <fkset> where <query over the linked store>
func (g *c20gen) subQuery(inner bool, depth int) string {
	set := "places"
	if inner {
		set = "residents"
	}
	return "from " + g.id(set) + " where " + g.query(!inner, depth, false)
}

func (g *c20gen) boolExpr(inner bool, depth int) string {
	if depth <= 0 {
		return g.atom(inner, 0)
	}
	switch g.r.intn(10) {
	case 0, 1:
		return g.boolExpr(inner, depth-1) + " and " + g.boolExpr(inner, depth-1)
	case 2, 3:
		return g.boolExpr(inner, depth-1) + " or " + g.boolExpr(inner, depth-1)
	case 4:
		return "not " + g.boolExpr(inner, depth-1)
	case 5:
		return "(" + g.boolExpr(inner, depth-1) + ")"
	case 6:
		if g.r.chance(50) {
			return g.pickS([]string{"true", "false"})
		}
		if inner {
			return g.id("open")
		}
		return g.id(g.pickS([]string{"active", "flag"}))
	}
	return g.atom(inner, depth)
}

func (g *c20gen) sortBy(inner bool) string {
	fields := []string{"name", "nick", "age", "score", "born", "active", "id", "home", "home.name", "tags.foo", "extra"}
	if inner {
		fields = []string{"name", "zip", "open", "id"}
	}
	n := 1 + g.r.intn(3)
	var xs []string
	for i := 0; i < n; i++ {
		f := g.id(g.pickS(fields))
		switch g.r.intn(3) {
		case 0:
			f += " asc"
		case 1:
			f += " DESC"
		}
		xs = append(xs, f)
	}
	return "sort by " + strings.Join(xs, ", ")
}

func (g *c20gen) query(inner bool, depth int, allowEmptyPredicate bool) string {
	var parts []string
	if !(allowEmptyPredicate && g.r.chance(10)) {
		parts = append(parts, g.boolExpr(inner, depth))
	}
	if g.r.chance(45) {
		parts = append(parts, g.sortBy(inner))
	}
	if g.r.chance(25) {
		parts = append(parts, "skip "+g.pickS(c20Ints[:1])+g.pickS([]string{"", "1", "7"}))
	}
	if g.r.chance(25) {
		parts = append(parts, "limit "+g.pickS([]string{"none", "3", "100"}))
	}
	if len(parts) == 0 {
		parts = append(parts, g.sortBy(inner))
	}
	return strings.Join(parts, " ")
}

// ---------------------------------------------------------------------------------- reflection

var c20NodeType = reflect.TypeOf((*ast.Node)(nil)).Elem()

type c20node struct {
	kind  string
	strs  [][2]string
	kids  []c20kid
	value ast.Node
}

type c20kid struct {
	name  string
	trees []*c20node
}

func c20access(v reflect.Value) reflect.Value {
	if v.CanInterface() {
		return v
	}
	if !v.CanAddr() {
		return reflect.Value{}
	}
	return reflect.NewAt(v.Type(), unsafe.Pointer(v.UnsafeAddr())).Elem()
}

func c20isNodeType(t reflect.Type) bool {
	return t.Implements(c20NodeType)
}

// reflectNode dumps a real node; nil pointers / nil interfaces give nil
func reflectNode(n ast.Node) *c20node {
	if n == nil {
		return nil
	}
	rv := reflect.ValueOf(n)
	out := &c20node{value: n}
	var sv reflect.Value
	if rv.Kind() == reflect.Ptr {
		if rv.IsNil() {
			return nil
		}
		out.kind = rv.Type().Elem().Name()
		sv = rv.Elem()
	} else {
		out.kind = rv.Type().Name()
		p := reflect.New(rv.Type())
		p.Elem().Set(rv)
		sv = p.Elem()
	}
	if sv.Kind() == reflect.Struct {
		out.walk(sv, "")
	}
	return out
}

func asNode(v reflect.Value) ast.Node {
	if !v.IsValid() {
		return nil
	}
	if (v.Kind() == reflect.Interface || v.Kind() == reflect.Ptr) && v.IsNil() {
		return nil
	}
	if n, ok := v.Interface().(ast.Node); ok {
		return n
	}
	return nil
}

func (out *c20node) walk(sv reflect.Value, prefix string) {
	for i := 0; i < sv.NumField(); i++ {
		f := sv.Type().Field(i)
		fv := c20access(sv.Field(i))
		if !fv.IsValid() {
			continue
		}
		name := prefix + f.Name
		ft := f.Type
		switch {
		case ft.Kind() == reflect.String:
			out.strs = append(out.strs, [2]string{name, fv.String()})
		case c20isNodeType(ft):
			kid := c20kid{name: name}
			if t := reflectNode(asNode(fv)); t != nil {
				kid.trees = append(kid.trees, t)
			}
			out.kids = append(out.kids, kid)
		case ft.Kind() == reflect.Interface:
			// a type that does not announce Node: a child only when it holds one
			if n := asNode(fv); n != nil {
				if t := reflectNode(n); t != nil {
					out.kids = append(out.kids, c20kid{name: name, trees: []*c20node{t}})
				}
			}
		case ft.Kind() == reflect.Slice || ft.Kind() == reflect.Array:
			et := ft.Elem()
			if c20isNodeType(et) || et.Kind() == reflect.Interface {
				kid := c20kid{name: name}
				for j := 0; j < fv.Len(); j++ {
					if t := reflectNode(asNode(c20access(fv.Index(j)))); t != nil {
						kid.trees = append(kid.trees, t)
					}
				}
				if c20isNodeType(et) || len(kid.trees) > 0 {
					out.kids = append(out.kids, kid)
				}
			}
		case ft.Kind() == reflect.Struct:
			out.walk(fv, name+".")
		}
	}
}

func (n *c20node) write(b *strings.Builder) {
	fmt.Fprintf(b, "T %s %d", n.kind, len(n.strs))
	for _, s := range n.strs {
		fmt.Fprintf(b, " %s %s", s[0], hxs(s[1]))
	}
	fmt.Fprintf(b, " %d", len(n.kids))
	for _, k := range n.kids {
		fmt.Fprintf(b, " %s %d", k.name, len(k.trees))
		for _, t := range k.trees {
			b.WriteByte(' ')
			t.write(b)
		}
	}
}

func (n *c20node) each(f func(*c20node)) {
	f(n)
	for _, k := range n.kids {
		for _, t := range k.trees {
			t.each(f)
		}
	}
}

// untypedTree: the tree the listener builds before typing (private to package ast; read off the
// listener's parse stack).  nil when the layout is not the expected one.
func untypedTree(text string) (n ast.Node) {
	defer func() {
		if recover() != nil {
			n = nil
		}
	}()
	listener := ast.NewListener()
	if errs := zitiql.Parse(text, listener); len(errs) != 0 || listener.HasError() {
		return nil
	}
	lv := reflect.ValueOf(listener).Elem()
	cs := lv.FieldByName("currentStack")
	if !cs.IsValid() {
		return nil
	}
	cs = c20access(cs)
	if cs.Kind() != reflect.Ptr || cs.IsNil() {
		return nil
	}
	vals := cs.Elem().FieldByName("values")
	if !vals.IsValid() {
		return nil
	}
	vals = c20access(vals)
	if vals.Kind() != reflect.Slice || vals.Len() != 1 {
		return nil
	}
	return asNode(c20access(vals.Index(0)))
}

// ---------------------------------------------------------------------------------- recorders

type c20recVisitor struct {
	ast.DefaultVisitor
	syms []string
}

func (v *c20recVisitor) VisitSymbol(symbol string, _ ast.NodeType) { v.syms = append(v.syms, symbol) }

// a Query around any node, so that the real ValidateSymbolsArePublic can be run on untyped trees
type c20queryWrap struct{ ast.Node }

func (w c20queryWrap) EvalBool(ast.Symbols) bool       { return false }
func (w c20queryWrap) GetPredicate() ast.BoolNode      { return nil }
func (w c20queryWrap) SetPredicate(ast.BoolNode)       {}
func (w c20queryWrap) GetSortFields() []ast.SortField  { return nil }
func (w c20queryWrap) AdoptSortFields(ast.Query) error { return nil }
func (w c20queryWrap) GetSkip() *int64                 { return nil }
func (w c20queryWrap) GetLimit() *int64                { return nil }
func (w c20queryWrap) SetSkip(int64)                   {}
func (w c20queryWrap) SetLimit(int64)                  {}

type c20cursor struct{ left int }

func (c *c20cursor) Next()               { c.left-- }
func (c *c20cursor) IsValid() bool       { return c.left > 0 }
func (c *c20cursor) Current() []byte     { return []byte("k") }
func (c *c20cursor) Seek([]byte)         {}
func (c *c20cursor) SeekToString(string) {}

// c20recSymbols records every symbol name the evaluator asks for
type c20recSymbols struct {
	types  ast.SymbolTypes
	asked  map[string]bool
	r      *rng // nil: fixed, short-circuit-defeating answers
	nested int
}

func (s *c20recSymbols) ask(name string) { s.asked[name] = true }

func (s *c20recSymbols) GetSymbolType(name string) (ast.NodeType, bool) {
	return s.types.GetSymbolType(name)
}
func (s *c20recSymbols) GetSetSymbolTypes(name string) ast.SymbolTypes {
	return s.types.GetSetSymbolTypes(name)
}
func (s *c20recSymbols) IsSet(name string) (bool, bool) { return s.types.IsSet(name) }

func (s *c20recSymbols) null() bool { return s.r != nil && s.r.chance(15) }

func (s *c20recSymbols) EvalBool(name string) *bool {
	s.ask(name)
	if s.null() {
		return nil
	}
	v := s.r == nil || s.r.chance(50)
	return &v
}
func (s *c20recSymbols) EvalString(name string) *string {
	s.ask(name)
	if s.null() {
		return nil
	}
	v := "a"
	if s.r != nil {
		v = s.r.pick([]string{"a", "B c", "", "zz"})
	}
	return &v
}
func (s *c20recSymbols) EvalInt64(name string) *int64 {
	s.ask(name)
	if s.null() {
		return nil
	}
	v := int64(2)
	if s.r != nil {
		v = int64(s.r.intn(50)) - 5
	}
	return &v
}
func (s *c20recSymbols) EvalFloat64(name string) *float64 {
	s.ask(name)
	if s.null() {
		return nil
	}
	v := 2.0
	if s.r != nil {
		v = float64(s.r.intn(50))/2 - 1
	}
	return &v
}
func (s *c20recSymbols) EvalDatetime(name string) *time.Time {
	s.ask(name)
	if s.null() {
		return nil
	}
	v := time.Date(2010, 1, 2, 3, 4, 5, 0, time.UTC)
	if s.r != nil && s.r.chance(50) {
		v = time.Date(2020, 1, 2, 3, 4, 5, 0, time.UTC)
	}
	return &v
}
func (s *c20recSymbols) IsNil(name string) bool {
	s.ask(name)
	return s.r != nil && s.r.chance(50)
}
func (s *c20recSymbols) cursor() ast.SetCursor {
	n := 2
	if s.r != nil {
		n = s.r.intn(3)
	}
	return &c20cursor{left: n}
}
func (s *c20recSymbols) OpenSetCursor(name string) ast.SetCursor {
	s.ask(name)
	return s.cursor()
}

// the real rowCursor runs the sub-query through the linked store's scanner: it evaluates the
// predicate on the linked rows and orders them by the sub-query's sort fields
func (s *c20recSymbols) OpenSetCursorForQuery(name string, query ast.Query) ast.SetCursor {
	s.ask(name)
	if query != nil && s.nested < 8 {
		s.nested++
		c20evalQuery(query, s)
		s.nested--
	}
	return s.cursor()
}

func c20evalQuery(q ast.Query, s *c20recSymbols) {
	defer func() { _ = recover() }()
	for _, sf := range q.GetSortFields() {
		s.ask(sf.Symbol())
	}
	q.EvalBool(s)
}

func c20evalNode(n ast.Node, s ast.Symbols) {
	try := func(f func()) {
		defer func() { _ = recover() }()
		f()
	}
	if x, ok := n.(ast.BoolNode); ok {
		try(func() { x.EvalBool(s) })
	}
	if x, ok := n.(ast.Int64Node); ok {
		try(func() { x.EvalInt64(s) })
	}
	if x, ok := n.(ast.Float64Node); ok {
		try(func() { x.EvalFloat64(s) })
	}
	if x, ok := n.(ast.StringNode); ok {
		try(func() { x.EvalString(s) })
	}
	if x, ok := n.(ast.DatetimeNode); ok {
		try(func() { x.EvalDatetime(s) })
	}
}

// evaluatedNames: every name the evaluator asks the row for, over (a) each node of the tree
// evaluated on its own against answers that are never null and sets that are never empty (no
// operand is hidden behind a short circuit), and (b) the whole query against random rows.
func evaluatedNames(q ast.Query, tree *c20node, types ast.SymbolTypes, r *rng, randomRuns int) []string {
	asked := map[string]bool{}
	fixed := &c20recSymbols{types: types, asked: asked}
	c20evalQuery(q, fixed)
	tree.each(func(n *c20node) { c20evalNode(n.value, fixed) })
	for i := 0; i < randomRuns; i++ {
		c20evalQuery(q, &c20recSymbols{types: types, asked: asked, r: r})
	}
	var out []string
	for n := range asked {
		out = append(out, n)
	}
	sort.Strings(out)
	return out
}

// ---------------------------------------------------------------------------------- run

type c20run struct {
	cases, impl, oracle *lineWriter
	kinds               map[string]int
	stats               map[string]int
	qid                 int
	r                   *rng
	randomEval          int
}

func hexList(xs []string) string {
	var b strings.Builder
	fmt.Fprintf(&b, "%d", len(xs))
	for _, x := range xs {
		b.WriteByte(' ')
		b.WriteString(hxs(x))
	}
	return b.String()
}

func (c *c20run) verdict(q ast.Query, st boltz.Store) (res string) {
	defer func() {
		if p := recover(); p != nil {
			res = "E"
		}
	}()
	err := boltz.ValidateSymbolsArePublic(q, st)
	if err == nil {
		return "A"
	}
	var use ast.UnknownSymbolError
	if errors.As(err, &use) {
		return "R " + hxs(use.Symbol)
	}
	return "E"
}

func (c *c20run) visited(n ast.Node) (out []string, ok bool) {
	defer func() {
		if p := recover(); p != nil {
			ok = false
		}
	}()
	v := &c20recVisitor{}
	n.Accept(v)
	return v.syms, true
}

// one query against a list of public sets
func (c *c20run) emitQuery(text string, textSyms []string, pubs [][]string) {
	all := map[string]bool{}
	for _, d := range c20People {
		all[d.name] = true
	}
	typeStores := buildStores(all)
	q, err, panicked := c20parse(typeStores.people, text)
	if panicked {
		c.stats["parse-panicked"]++ // an unchecked type assertion of the typer: property C10's subject
		return
	}
	if err != nil || q == nil {
		c.stats["parse-rejected"]++
		return
	}
	c.stats["parsed"]++
	c.qid++
	typed := reflectNode(q)
	if typed == nil {
		c.stats["reflect-failed"]++
		return
	}
	typed.each(func(n *c20node) { c.kinds[n.kind]++ })
	var tb strings.Builder
	typed.write(&tb)
	vis, vok := c.visited(q)
	evaluated := evaluatedNames(q, typed, typeStores.people, c.r, c.randomEval)

	var untyped *c20node
	var un ast.Node
	var ub strings.Builder
	var uvis []string
	uvok := false
	if un = untypedTree(text); un != nil {
		if untyped = reflectNode(un); untyped != nil {
			untyped.each(func(n *c20node) { c.kinds[n.kind]++ })
			untyped.write(&ub)
			uvis, uvok = c.visited(un)
		}
	} else {
		c.stats["untyped-tree-unavailable"]++
	}

	for _, pub := range pubs {
		pm := map[string]bool{}
		for _, p := range pub {
			pm[p] = true
		}
		st := buildStores(pm)
		// the public set the real store reports (id / fk symbols are always published)
		real := st.people.GetPublicSymbols()
		sort.Strings(real)
		pubList := hexList(real)
		maps := hexList(c20MapNames)

		c.cases.line("Y %s %s %s", pubList, maps, tb.String())
		if vok {
			c.impl.line("%s %s", hexList(vis), c.verdict(q, st.people))
		} else {
			c.impl.line("0 E")
		}
		c.oracle.line("%d %s %s %s", c.qid, hxs(text), hexList(textSyms), hexList(evaluated))
		c.stats["cases-typed"]++

		if untyped != nil {
			c.cases.line("U %s %s %s", pubList, maps, ub.String())
			if uvok {
				c.impl.line("%s %s", hexList(uvis), c.verdict(c20queryWrap{un}, st.people))
			} else {
				c.impl.line("0 E")
			}
			c.oracle.line("%d %s %s 0", c.qid, hxs(text), hexList(textSyms))
			c.stats["cases-untyped"]++
		}
	}
}

func c20parse(st ast.SymbolTypes, text string) (q ast.Query, err error, panicked bool) {
	defer func() {
		if recover() != nil {
			panicked = true
		}
	}()
	q, err = ast.Parse(st, text)
	return
}

func c20distinct(xs []string) []string {
	seen := map[string]bool{}
	var out []string
	for _, x := range xs {
		if !seen[x] {
			seen[x] = true
			out = append(out, x)
		}
	}
	return out
}

func c20universe() []string {
	var out []string
	for _, d := range c20People {
		if d.class != "id" && d.class != "fk" {
			out = append(out, d.name)
		}
	}
	return out
}

// public sets for one query: everything public; each referenced symbol alone non-public (and,
// for a dotted name, its base alone non-public); everything non-public; random ones; and sets
// that publish a dotted name explicitly while its base is not public
func (c *c20run) assignments(textSyms []string, nRandom int) [][]string {
	uni := c20universe()
	var out [][]string
	out = append(out, append([]string{}, uni...))
	except := func(drop ...string) []string {
		var xs []string
		for _, u := range uni {
			keep := true
			for _, d := range drop {
				if u == d {
					keep = false
				}
			}
			if keep {
				xs = append(xs, u)
			}
		}
		return xs
	}
	seen := map[string]bool{}
	for _, s := range c20distinct(textSyms) {
		base := s
		if i := strings.IndexByte(s, '.'); i > 0 {
			base = s[:i]
			// the dotted name itself explicitly published, base not
			out = append(out, append(except(base), s))
		}
		if !seen[base] {
			seen[base] = true
			out = append(out, except(base))
		}
	}
	out = append(out, nil)
	for i := 0; i < nRandom; i++ {
		var xs []string
		p := 30 + c.r.intn(60)
		for _, u := range uni {
			if c.r.chance(p) {
				xs = append(xs, u)
			}
		}
		if c.r.chance(20) {
			xs = append(xs, c.r.pick(c20Composite))
		}
		out = append(out, xs)
	}
	return out
}

// newRng(seed) and newRng(seed+1) are the same splitmix stream shifted by one draw, and the
// generators here consume a data-dependent number of draws per query, so neighbouring seeds
// re-synchronise after a few hundred queries.  Scatter the seed first.
func c20mixSeed(seed int64) int64 {
	z := uint64(seed) + 0x5851F42D4C957F2D
	z = (z ^ (z >> 33)) * 0xFF51AFD7ED558CCD
	z = (z ^ (z >> 33)) * 0xC4CEB9FE1A85EC53
	return int64(z ^ (z >> 33))
}

func runC20(o *opts) error {
	logrus.SetOutput(io.Discard)
	c := &c20run{
		cases: newLineWriter(o.out, "cases.txt"), impl: newLineWriter(o.out, "impl.txt"), oracle: newLineWriter(o.out, "oracle.txt"),
		kinds: map[string]int{}, stats: map[string]int{}, r: newRng(c20mixSeed(o.seed)), randomEval: 6,
	}
	defer func() {
		c.cases.close()
		c.impl.close()
		c.oracle.close()
	}()

	if rc := o.get("replaycase", ""); rc != "" {
		// <hex text> <ntext> {hex} <npub> {hex}
		data, err := os.ReadFile(rc)
		if err != nil {
			return err
		}
		for _, line := range strings.Split(strings.TrimSpace(string(data)), "\n") {
			f := strings.Fields(line)
			if len(f) < 3 {
				continue
			}
			text := string(unhx(f[0]))
			pos := 1
			readList := func() []string {
				var n int
				fmt.Sscanf(f[pos], "%d", &n)
				pos++
				var xs []string
				for i := 0; i < n; i++ {
					xs = append(xs, string(unhx(f[pos])))
					pos++
				}
				return xs
			}
			textSyms := readList()
			pub := readList()
			c.emitQuery(text, textSyms, [][]string{pub})
		}
		writeJSON(o.out, "stats.json", map[string]interface{}{"stats": c.stats, "kinds": c.kinds})
		return nil
	}

	nRandomAssign := 1
	nRandomQueries := 900
	if o.thorough() {
		nRandomAssign = 3
		nRandomQueries = 12000
		c.randomEval = 12
	}
	if o.n > 0 {
		nRandomQueries = o.n
	}

	// (1) bounded-exhaustive: every lhs shape x every operator/literal template, alone and under
	// a sort clause; typing decides which of them are queries
	tmpl := c20OpTemplates()
	for _, inner := range []bool{false} {
		for _, lhs := range c20Lhs(inner) {
			for _, t := range tmpl {
				g := &c20gen{}
				text := lhs.text(g) + t
				c.emitQuery(text, g.syms, c.assignments(g.syms, 0))
			}
		}
	}
	// the same operations inside sub-queries (symbols of the linked store)
	for _, lhs := range c20Lhs(true) {
		for i, t := range tmpl {
			g := &c20gen{}
			var text string
			if i%2 == 0 {
				text = "isEmpty(from " + g.id("places") + " where " + lhs.text(g) + t + ")"
			} else {
				text = "count(from " + g.id("places") + " where " + lhs.text(g) + t + ") > 0"
			}
			c.emitQuery(text, g.syms, c.assignments(g.syms, 0))
		}
	}
	// boolean forms, set functions without comparison, sort / skip / limit only
	fixed := []struct {
		text string
		syms []string
	}{
		{"true", nil}, {"false", nil}, {"active", []string{"active"}}, {"not flag", []string{"flag"}},
		{"tags.foo", []string{"tags.foo"}}, {"extra", []string{"extra"}},
		{"isEmpty(nums)", []string{"nums"}}, {"isEmpty(places)", []string{"places"}}, {"not isEmpty(ints)", []string{"ints"}},
		{"isEmpty(places.shops)", []string{"places.shops"}},
		{"isEmpty(from places where true)", []string{"places"}},
		{"isEmpty(from places where open sort by zip)", []string{"places", "open", "zip"}},
		{"isEmpty(from places where isEmpty(from residents where age > 3 sort by nick desc) sort by name limit 3)", []string{"places", "residents", "age", "nick", "name"}},
		{"count(from places where isEmpty(shops)) = 0", []string{"places", "shops"}},
		{"sort by name", []string{"name"}}, {"sort by age desc, name asc, tags.foo", []string{"age", "name", "tags.foo"}},
		{"skip 3", nil}, {"limit 5", nil}, {"limit none", nil}, {"skip 1 limit 2", nil},
		{"true sort by score skip 2 limit none", []string{"score"}},
		{"(name = \"a\" or age > 3) and not (active = true) sort by born", []string{"name", "age", "active", "born"}},
		{"name = \"a\" and nick = \"b\" or age = 1 and rank = 2", []string{"name", "nick", "age", "rank"}},
		{"", nil},
	}
	for _, f := range fixed {
		c.emitQuery(f.text, f.syms, c.assignments(f.syms, 1))
	}
	// (2) random compositions
	for i := 0; i < nRandomQueries; i++ {
		g := &c20gen{r: c.r}
		text := g.query(false, 1+c.r.intn(3), true)
		c.emitQuery(text, g.syms, c.assignments(g.syms, nRandomAssign))
	}
	writeJSON(o.out, "stats.json", map[string]interface{}{"stats": c.stats, "kinds": c.kinds})
	return nil
}
