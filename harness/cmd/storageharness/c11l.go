package main

import (
	"bytes"
	"fmt"
	"sort"
	"strconv"
	"strings"
)

// C11, in-lists of every LENGTH and ORDER (cases of streams Q and M; no new case kind).
//
// Streams Q and M wrote in-lists of 1-4 literals. Whatever an implementation does with a list as a whole - extract the
// constants once, sort them, search them, put them into a set, keep them in a fixed-size array - depends on the NUMBER
// of literals and on the ORDER in which they are written, and was invisible. Here the list is the object:
//
//	length   1..21 literals (thorough 1..32), and long lists of 32 / 64 / 257 (thorough 63 64 65 127 128 129 256 257 1000)
//	order    ascending, descending, shuffled, shuffled with duplicates, ascending rotated, ascending with one swap
//	probe    the literal of s at EVERY position k of the list (sampled for the long lists / secondary paths); every
//	         other literal of the list is a stored row too, so each position is probed twice
//	values   single letters (the minimal replay), generated ids, strings that are prefixes of each other and the empty
//	         string, long common prefix + number (lexicographic != numeric order), mixed case / non-ASCII / quotes /
//	         backslashes / keywords
//	rows     every value of the list (long lists: 32-48 of them, evenly spaced in byte order), non-members next to the smallest / median / largest member (one byte longer,
//	         one byte shorter, other letter case), the empty string, a blank, a string above all members, no value
//
// Expected (oracle q_expected / m_expected, model in_query / filter_query - theorem in_list_exact quantifies over every
// list): membership in the SET of denoted strings, whatever the length and the order of the list.
type c11lList struct {
	order string
	lits  [][]byte // as written, len = L
}

var c11lOrders = []string{"asc", "desc", "shuf", "dup", "rot", "swap"}

// c11lPool: n distinct strings of the given kind
func c11lPool(r *rng, kind string, n int) [][]byte {
	var out [][]byte
	seen := map[string]bool{}
	add := func(s string) {
		if len(out) < n && !seen[s] {
			seen[s] = true
			out = append(out, []byte(s))
		}
	}
	switch kind {
	case "letters":
		w := 1
		for c := 26; c < n; c *= 26 {
			w++
		}
		for i := 0; len(out) < n; i++ {
			b := make([]byte, w)
			for j, v := w-1, i; j >= 0; j, v = j-1, v/26 {
				b[j] = byte('a' + v%26)
			}
			add(string(b))
		}
	case "ids":
		const al = "ABCDEFGHIJKLMNOPQRSTUVWXYZabcdefghijklmnopqrstuvwxyz0123456789.-_"
		for len(out) < n {
			b := make([]byte, 8+r.intn(15))
			for j := range b {
				b[j] = al[r.intn(len(al))]
			}
			add(string(b))
		}
	case "prefixes": // "", a, b, aa, ab, ba, bb, aaa, ..: length-first order is not byte order, values are prefixes of each other
		level := []string{""}
		for len(out) < n {
			var next []string
			for _, p := range level {
				add(p)
				next = append(next, p+"a", p+"b")
			}
			level = next
		}
	case "numbered": // numeric order is not byte order, 40 bytes in common
		pre := strings.Repeat("x", 40)
		for i := 0; len(out) < n; i++ {
			add(pre + strconv.Itoa(8+i))
		}
	default: // mixed: letter case, non-ASCII, blanks, quotes, backslashes, keywords
		for _, w := range []string{"not", "Not", "NOT", "in", "IN", "null", "", " ", "é", "É", "z", "Z", `"`, `\`, `\"`, "a b", "a  b", "]", ",", `", "`} {
			if r.chance(50) {
				add(w)
			}
		}
		for len(out) < n {
			var s string
			for j, l := 0, 1+r.intn(4); j < l; j++ {
				s += c11mLetters[r.intn(len(c11mLetters))]
			}
			add(s)
		}
	}
	return out
}

// c11lArrange writes the pool in the given order
func c11lArrange(r *rng, order string, pool [][]byte) [][]byte {
	l := make([][]byte, len(pool))
	copy(l, pool)
	n := len(l)
	sort.Slice(l, func(i, j int) bool { return bytes.Compare(l[i], l[j]) < 0 })
	shuffle := func() {
		for i := n - 1; i > 0; i-- {
			j := r.intn(i + 1)
			l[i], l[j] = l[j], l[i]
		}
	}
	switch order {
	case "desc":
		for i, j := 0, n-1; i < j; i, j = i+1, j-1 {
			l[i], l[j] = l[j], l[i]
		}
	case "shuf":
		shuffle()
	case "dup":
		shuffle()
		if n > 1 {
			for i := range l {
				if r.chance(30) {
					l[i] = l[r.intn(n)]
				}
			}
		}
	case "rot":
		if n > 1 {
			k := 1 + r.intn(n-1)
			l = append(append([][]byte{}, l[k:]...), l[:k]...)
		}
	case "swap":
		if n > 1 {
			i := r.intn(n - 1)
			l[i], l[i+1] = l[i+1], l[i]
		}
	}
	return l
}

// c11lNonMembers: strings that are in no list over the pool, next to its smallest, median and largest value
func c11lNonMembers(pool [][]byte) [][]byte {
	s := make([][]byte, len(pool))
	copy(s, pool)
	sort.Slice(s, func(i, j int) bool { return bytes.Compare(s[i], s[j]) < 0 })
	in := map[string]bool{}
	for _, p := range pool {
		in[string(p)] = true
	}
	var out [][]byte
	add := func(x []byte) {
		if !in[string(x)] {
			in[string(x)] = true
			out = append(out, x)
		}
	}
	for _, i := range []int{0, len(s) / 2, len(s) - 1} {
		m := s[i]
		add(append(append([]byte{}, m...), 'x'))
		add(append(append([]byte{}, m...), 0))
		if len(m) > 0 {
			add(m[:len(m)-1])
			add(append(append([]byte{}, m[:len(m)-1]...), m[len(m)-1]+1))
		}
		add(c11mSwapCase(m))
	}
	add([]byte{})
	add([]byte(" "))
	add([]byte("~~~~"))
	return out
}

// c11lRows: the rows of a path over members (every one of them) and non-members; the same for every list over the pool,
// so that one dataset serves all orders and positions
func c11lRows(path string, pool, non [][]byte) []string {
	var rows []string
	switch path {
	case "sym", "name", "fk":
		for _, c := range pool {
			rows = append(rows, hx(c))
		}
		for _, c := range non {
			rows = append(rows, hx(c))
		}
		rows = append(rows, "~")
	case "id":
		for _, c := range append(append([][]byte{}, pool...), non...) {
			if len(c) > 0 {
				rows = append(rows, hx(c))
			}
		}
	default:
		n, nn := len(pool), len(non)
		for i, c := range pool {
			rows = append(rows, c11mSet(c))
			if i < 24 || i >= n-4 {
				rows = append(rows, c11mSet(c, non[i%nn]), c11mSet(pool[(i+1)%n], c))
			}
		}
		for i, c := range non {
			rows = append(rows, c11mSet(c), c11mSet(c, non[(i+1)%nn]))
		}
		rows = append(rows, "~", c11mSet(non...))
		if n <= 40 {
			rows = append(rows, c11mSet(pool...))
		}
	}
	return rows
}

// c11lSample: k of the values, evenly spaced in byte order, the two smallest and the two largest included
func c11lSample(pool [][]byte, k int) [][]byte {
	s := make([][]byte, len(pool))
	copy(s, pool)
	sort.Slice(s, func(i, j int) bool { return bytes.Compare(s[i], s[j]) < 0 })
	n := len(s)
	if n <= k {
		return s
	}
	out := [][]byte{s[0], s[1]}
	for i := 1; i < k-3; i++ {
		out = append(out, s[2+i*(n-4)/(k-3)])
	}
	return c11qDedup(append(out, s[n-2], s[n-1]))
}

func c11lPositions(r *rng, n int, all bool) []int {
	if all || n <= 4 {
		out := make([]int, n)
		for i := range out {
			out[i] = i
		}
		return out
	}
	seen := map[int]bool{}
	var out []int
	for _, k := range []int{0, 1, n / 2, n - 2, n - 1, r.intn(n), r.intn(n)} {
		if !seen[k] {
			seen[k] = true
			out = append(out, k)
		}
	}
	return out
}

func (g *c11qGen) c11lEmitQ(path, op, ctx, esc string, list [][]byte, k int, rows []string) {
	for _, l := range list {
		if !c11qExpressible(esc, l) {
			return
		}
	}
	f := []string{path, op, ctx, esc, hx(list[k]), strconv.Itoa(k), strconv.Itoa(len(list) - 1)}
	for i, l := range list {
		if i != k {
			f = append(f, hx(l))
		}
	}
	f = append(f, strconv.Itoa(len(rows)))
	f = append(f, rows...)
	g.emitFields(f)
	g.stats["Q_list"]++
	g.stats[fmt.Sprintf("Q_listlen_%03d", len(list))]++
}

// allL: in-lists by length and order (stream Q), and long in-lists inside filters with several comparisons (stream M)
func (g *c11qGen) allL(o *opts, r *rng) {
	thorough := o.thorough()
	setups0 := g.env.setups
	var lengths []int
	maxShort := 21
	if thorough {
		maxShort = 32
	}
	for n := 1; n <= maxShort; n++ {
		lengths = append(lengths, n)
	}
	long := []int{32, 64, 257}
	if thorough {
		long = []int{63, 64, 65, 127, 128, 129, 256, 257, 1000}
	}
	lengths = append(lengths, long...)
	kinds := []string{"letters", "ids", "prefixes", "numbered", "mixed"}
	ops := []string{"in", "notin"}

	for ki, kind := range kinds {
		for _, n := range lengths {
			pool := c11lPool(r, kind, n)
			non := c11lNonMembers(pool)
			isLong := n > maxShort
			// rows: every value of the list; long lists: 32-48 of them (evenly spaced in byte order, the two smallest and
			// the two largest included) - the model evaluates lists x rows
			probed := pool
			if isLong && !thorough {
				probed = c11lSample(pool, 32)
			} else if n >= 1000 {
				probed = c11lSample(pool, 32)
			} else if isLong {
				probed = c11lSample(pool, 48)
			}
			// primary paths (every order, every position): the stored string field and the ast-level symbol; the other
			// left-hand sides in rotation (thorough: all of them)
			paths := []string{"name", "sym", c11qPaths[2+(n+ki)%5]}
			if kind != "letters" && !thorough {
				paths = []string{[]string{"name", "sym"}[(n+ki)%2], c11qPaths[2+(n+ki)%5]}
			}
			if thorough {
				paths = c11qPaths
				if isLong {
					paths = []string{"name", "sym", c11qPaths[2+(n+ki)%5], c11qPaths[2+(n+ki+2)%5]}
				}
			}
			for pi, path := range paths {
				if n > 300 && path != "name" && path != "sym" {
					continue
				}
				rows := c11lRows(path, probed, non)
				if len(rows) == 0 {
					continue
				}
				primary := pi == 0 || (kind == "letters" && pi == 1) || (thorough && pi < 2)
				orders := c11lOrders
				if !primary || isLong {
					orders = c11lOrders[:4]
				}
				if n >= 1000 {
					orders = c11lOrders[:3]
				}
				for oi, order := range orders {
					list := c11lArrange(r, order, pool)
					all := primary && !isLong && (kind == "letters" || thorough || oi < 3)
					positions := c11lPositions(r, len(list), all)
					if isLong && !thorough {
						positions = []int{0, len(list) / 2, len(list) - 1, r.intn(len(list))}
					} else if n >= 1000 {
						positions = []int{0, len(list) / 2, len(list) - 1}
					}
					for _, k := range positions {
						if path == "id" && len(list[k]) == 0 {
							continue
						}
						esc := "full"
						if r.chance(25) && c11mEsc(r, list...) == "min" {
							esc = "min"
						}
						ctx := "p"
						if r.chance(20) {
							ctx = c11qCtxs[r.intn(len(c11qCtxs))]
						}
						op := ops[(k+oi+n)%2]
						g.c11lEmitQ(path, op, ctx, esc, list, k, rows)
						if primary && kind == "letters" && !isLong {
							g.c11lEmitQ(path, ops[(k+oi+n+1)%2], ctx, esc, list, k, rows)
						}
					}
				}
			}
		}
	}
	g.stats["Q_list_datasets"] = g.env.setups - setups0

	// stream M: long in-lists next to other comparisons and next to each other (two lists over the same values in different
	// orders / of different lengths; a list and an equality with one of its values; inside a sub-query; as a sequence)
	m := &c11mGen{g: g, r: r}
	mLengths := []int{5, 7, 8, 9, 12, 16, 17, 33}
	if thorough {
		mLengths = []int{5, 6, 7, 8, 9, 10, 11, 12, 15, 16, 17, 20, 31, 32, 33, 63, 64, 65, 100}
	}
	before := g.env.setups
	for _, kind := range []string{"letters", "ids", "mixed"} {
		for _, n := range mLengths {
			pool := c11lPool(r, kind, n+2)
			non := c11lNonMembers(pool)
			vals := append(append([][]byte{}, pool...), non...)
			var rows []string
			for i, v := range vals {
				w, u := vals[(i+1)%len(vals)], vals[(i+3)%len(vals)]
				rows = append(rows, hx(v)+"/"+hx(w)+"/"+c11mSet(v, u)+"/"+c11mSet(w))
			}
			rows = append(rows, "~/"+hx(pool[0])+"/~/"+c11mSet(pool[0]), "~/~/~/~")
			for oi, order := range []string{"asc", "desc", "shuf", "dup"} {
				if !thorough && kind != "letters" && oi%2 == (n % 2) {
					continue
				}
				la := c11lArrange(r, order, pool[:n])                       // n literals
				lb := c11lArrange(r, c11lOrders[(oi+1+n)%4], pool[1:n+2])   // n+1 literals, n-1 of them in common
				lc := c11lArrange(r, c11lOrders[(oi+2+n)%4], pool[2:n+1])   // n-1 literals
				ok := true
				for _, l := range pool {
					ok = ok && c11qExpressible("full", l)
				}
				if !ok {
					continue
				}
				in := func(lhs, op string, l [][]byte) *c11mNode { return c11mAtom(lhs, op, "full", l...) }
				and := func(a, b *c11mNode) *c11mNode { return &c11mNode{kind: "and", kids: []*c11mNode{a, b}} }
				or := func(a, b *c11mNode) *c11mNode { return &c11mNode{kind: "or", kids: []*c11mNode{a, b}} }
				for _, env := range []string{"sym", "st"} {
					m.emit(env, []*c11mNode{and(in("name", "in", la), in("descr", "notin", lb))}, rows)
					m.emit(env, []*c11mNode{or(in("name", "in", la), in("name", "in", lc))}, rows)
					m.emit(env, []*c11mNode{and(in("name", "notin", lc), in("name", "in", lb))}, rows)
					m.emit(env, []*c11mNode{or(in("descr", "in", lb), c11mAtom("name", "eq", "full", la[len(la)/2]))}, rows)
					m.emit(env, []*c11mNode{in("name", "in", la), in("name", "in", lb), in("descr", "notin", la)}, rows)
				}
				m.emit("st", []*c11mNode{and(in("any", "in", la), in("name", "in", lb))}, rows)
				m.emit("st", []*c11mNode{or(in("all", "in", lb), in("anyfk", "in", lc))}, rows)
				m.emit("st", []*c11mNode{and(&c11mNode{kind: "ne", kids: []*c11mNode{in("name", "in", la)}}, in("name", "notin", lc))}, rows)
			}
		}
	}
	g.stats["M_list_datasets"] = g.env.setups - before
}
