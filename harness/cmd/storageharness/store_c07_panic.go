package main

// C07, sixth strengthening (seeded change C07-w5-3): failures that surface as a PANIC instead of a returned error, at
// any position of the function handed to Db.Update / Db.Batch.  Model: coq/theories/Store/TxPanic.v (ptx_update),
// theorems Properties/C07Panic.v (failure_kind_is_irrelevant, error_or_panic_leaves_no_trace); design/C07.md section 11.
//
// Where the harness makes code panic (always a real nil-pointer dereference, i.e. a runtime.Error):
//
//	@c07pn C <hex of "fail:<joins>">        every FAIL step of the function (the caller's own code) panics instead of
//	                                        returning an error, inside the nested joined calls <joins> (letters U = db.Update(c, ..),
//	                                        B = db.Batch(c, ..), outermost first; "-" = directly in the function)
//	@c07pn C <hex of "persist:<k>:<level>"> while operation k (0-based; a create / update) runs, the entity strategy's
//	                                        PersistEntity of store <level> (the operation's store or its parent store) panics
//	                                        at its end, i.e. after it wrote that level's fields
//	@c07v  C <hex of "<stage>:panic">       error kind "panic" of the C07 constraints (store_c07.go): the constraint that
//	                                        vetoes a change panics in ProcessPreCommit (P) / ProcessBeforeUpdate,
//	                                        ProcessAfterUpdate, ProcessBeforeDelete (IB, IA) instead of raising an error
//	@c07pc C <hex of "<site>:<path>:p">     registration kind p (store_c07_ctx.go): AddPreCommitAction of an action that panics
//
// The executor (c07CtxRunTx) observes a panic where a caller would: the per-operation result "panic" is recorded by a
// deferred function that RE-RAISES the panic (the library sees it unwinding exactly as without the observer), and the
// whole Db.Update / Db.Batch call is made under a recover OUTSIDE the library: result kind PANICKED.  State, hooks and
// commit actions of the failed transaction are then observed as for any failed transaction.
//
// Observation tokens (between the commit flag and " ST"):
//
//	PANICKED               Db.Update / Db.Batch did not return: the panic reached the caller (the flag in front is ROLLBACK =
//	                       "the caller did not receive nil")
//	PANIC-RAISED:<where>   the harness made code panic inside the transaction; where = fn | persist | precommit |
//	                       constraint-P | constraint-IB | constraint-IA (witness, like VETOED)
//
// bbolt's Batch runs the function inside the batch's db.Update under safelyCall (a panic becomes an error value, that
// Update rolls back) and lets the submitter re-run it solo - db.Update(fn) in the caller's goroutine -, where the panic
// propagates: a panicking function runs twice, as a failing one does.

import (
	"fmt"
	"sort"
	"strconv"
	"strings"

	"github.com/openziti/storage/boltz"
)

const c07PnVeto = "@c07pn"

type c07PnMarks struct {
	failPanics bool
	joins      string
	persist    map[int]string // operation index -> level (store name)
}

func c07PnParse(t *hTx) (m c07PnMarks, has bool) {
	m.persist = map[int]string{}
	for _, v := range t.Vetoes {
		switch v.Store {
		case c07PnVeto:
			parts := strings.Split(v.Id, ":")
			switch {
			case parts[0] == "fail" && len(parts) == 2:
				m.failPanics, has = true, true
				if parts[1] != "-" {
					m.joins = parts[1]
				}
			case parts[0] == "persist" && len(parts) == 3:
				if k, err := strconv.Atoi(parts[1]); err == nil {
					m.persist[k] = parts[2]
					has = true
				}
			}
		case c07PseudoVeto:
			if strings.HasSuffix(v.Id, ":panic") {
				has = true
			}
		case c07CtxRegVeto:
			if strings.HasSuffix(v.Id, ":p") {
				has = true
			}
		}
	}
	return
}

type c07PnBox struct{ v int }

// c07PnNilDeref notes the witness and dereferences a nil pointer
func c07PnNilDeref(where string) int {
	if ctl := c07ctl; ctl != nil {
		ctl.h.mu.Lock()
		if ctl.panics == nil {
			ctl.panics = map[string]bool{}
		}
		ctl.panics[where] = true
		ctl.h.mu.Unlock()
	}
	var b *c07PnBox
	return b.v
}

// the pre-commit action of registration kind p
func c07PnPanickingAction(boltz.MutateContext) error {
	if c07PnNilDeref("precommit") > 0 {
		return nil
	}
	return nil
}

// c07PnPanicInJoins: the caller's function panics inside nested calls that join the running transaction
func c07PnPanicInJoins(h *harnessDb, c boltz.MutateContext, joins string) error {
	if joins == "" || c.Tx() == nil {
		c07PnNilDeref("fn")
		return nil
	}
	run := h.db.Update
	if joins[0] == 'B' {
		run = h.db.Batch
	}
	return run(c, func(c2 boltz.MutateContext) error { return c07PnPanicInJoins(h, c2, joins[1:]) })
}

// c07PnExecOp runs operation k of the function.  A panic is recorded as the operation's result and re-raised.
func c07PnExecOp(h *harnessDb, ctx boltz.MutateContext, t *hTx, k int, pn *c07PnMarks, results *[]string) (err error) {
	defer func() {
		if ctl := c07ctl; ctl != nil {
			ctl.persistPanic = ""
		}
		if r := recover(); r != nil {
			*results = append(*results, "panic")
			panic(r)
		}
	}()
	op := &t.Ops[k]
	if lv, ok := pn.persist[k]; ok && c07ctl != nil && (op.Kind == "C" || op.Kind == "UP") {
		c07ctl.persistPanic = lv
	}
	if op.Kind == "FAIL" && pn.failPanics {
		if e := c07PnPanicInJoins(h, ctx, pn.joins); e != nil {
			return e
		}
	}
	return h.execOp(ctx, op)
}

// c07PnCall makes the Db.Update / Db.Batch call the way a caller that survives a panic does
func c07PnCall(call func() error) (err error, panicked bool) {
	defer func() {
		if r := recover(); r != nil {
			err, panicked = fmt.Errorf("panic: %v", r), true
		}
	}()
	return call(), false
}

// c07PnTokens: the PANIC-RAISED witnesses of the transaction that has just ended
func c07PnTokens() string {
	ctl := c07ctl
	if ctl == nil {
		return ""
	}
	ctl.h.mu.Lock()
	var ws []string
	for w := range ctl.panics {
		ws = append(ws, w)
	}
	ctl.panics = nil
	ctl.h.mu.Unlock()
	sort.Strings(ws)
	var sb strings.Builder
	for _, w := range ws {
		sb.WriteString(" PANIC-RAISED:" + w)
	}
	return sb.String()
}

// ---- generator -----------------------------------------------------------------------------------------

func (g *histGen) c07PnJoins() string {
	switch k := g.r.intn(100); {
	case k < 55:
		return "-"
	case k < 75:
		return "U"
	case k < 88:
		return "B"
	case k < 94:
		return "UB"
	default:
		return "BU"
	}
}

// c07PnDecorate makes the failure of a transaction of the C07 stream surface as a panic: an existing fault of the
// transaction (caller error, veto, failing pre-commit action) is turned into its panicking twin, or a panicking step is
// added at a random position (caller code, entity strategy, constraint, pre-commit action)
func (g *histGen) c07PnDecorate(t *hTx) {
	for _, v := range t.Vetoes {
		if v.Store == "@ctx" { // the context executor opens its own context
			return
		}
	}
	if !g.r.chance(16) {
		return
	}
	_, open, _ := c07CtxParse(t)
	hasFail, realVetoes := false, 0
	var cu []int
	for i, op := range t.Ops {
		if op.Kind == "FAIL" {
			hasFail = true
		}
		if op.Kind == "C" || op.Kind == "UP" {
			cu = append(cu, i)
		}
	}
	var failRegs []int
	for i, v := range t.Vetoes {
		if !strings.HasPrefix(v.Store, "@") {
			realVetoes++
		}
		if v.Store == c07CtxRegVeto && strings.HasSuffix(v.Id, ":f") && !strings.Contains(v.Id, "x") {
			failRegs = append(failRegs, i)
		}
	}
	vetoPanic := func() {
		stage := c07Stages[g.r.intn(len(c07Stages))]
		for i, v := range t.Vetoes {
			if v.Store == c07PseudoVeto {
				if p := strings.SplitN(v.Id, ":", 2); len(p) == 2 {
					stage = p[0]
				}
				t.Vetoes[i].Id = stage + ":panic"
				return
			}
		}
		t.Vetoes = append(t.Vetoes, hVeto{Store: c07PseudoVeto, Change: "C", Id: stage + ":panic"})
	}
	// the twin of a fault the transaction already has
	var twins []string
	if hasFail {
		twins = append(twins, "fail")
	}
	if realVetoes > 0 {
		twins = append(twins, "veto")
	}
	if len(failRegs) > 0 || t.PreCommitErr {
		twins = append(twins, "pre")
	}
	if len(twins) > 0 && g.r.chance(55) {
		switch twins[g.r.intn(len(twins))] {
		case "fail":
			t.Vetoes = append(t.Vetoes, hVeto{Store: c07PnVeto, Change: "C", Id: "fail:" + g.c07PnJoins()})
		case "veto":
			vetoPanic()
		case "pre":
			if len(failRegs) > 0 {
				i := failRegs[g.r.intn(len(failRegs))]
				t.Vetoes[i].Id = strings.TrimSuffix(t.Vetoes[i].Id, ":f") + ":p"
			} else {
				t.PreCommitErr = false
				t.Vetoes = append(t.Vetoes, c07CtxRegText(-1, "", 'p'))
			}
		}
		return
	}
	// a panicking step of its own
	switch k := g.r.intn(100); {
	case k < 30: // the caller's code
		pos := g.r.intn(len(t.Ops) + 1)
		if g.r.chance(40) {
			pos = len(t.Ops) // after every operation of the function succeeded
		}
		ops := append([]hOp{}, t.Ops[:pos]...)
		ops = append(ops, hOp{Kind: "FAIL"})
		t.Ops = append(ops, t.Ops[pos:]...)
		// registrations keep their sites relative to the operations that follow
		for i, v := range t.Vetoes {
			if v.Store != c07CtxRegVeto {
				continue
			}
			p := strings.Split(v.Id, ":")
			if len(p) == 3 && p[0] != "pre" {
				if s, err := strconv.Atoi(p[0]); err == nil && s > pos {
					t.Vetoes[i].Id = fmt.Sprintf("%d:%s:%s", s+1, p[1], p[2])
				}
			}
		}
		t.Vetoes = append(t.Vetoes, hVeto{Store: c07PnVeto, Change: "C", Id: "fail:" + g.c07PnJoins()})
	case k < 55 && len(cu) > 0: // the entity strategy
		i := cu[g.r.intn(len(cu))]
		level := t.Ops[i].Store
		if p := g.w.store(level).Parent; p != "" && g.r.chance(50) {
			level = p
		}
		t.Vetoes = append(t.Vetoes, hVeto{Store: c07PnVeto, Change: "C", Id: fmt.Sprintf("persist:%d:%s", i, level)})
	case k < 80: // a constraint, at any of its stages, on a change the transaction makes
		op := t.Ops[g.r.intn(len(t.Ops))]
		ch, ok := map[string]string{"C": "C", "UP": "U", "D": "D"}[op.Kind]
		if !ok {
			return
		}
		store := op.Store
		if p := g.w.store(store).Parent; p != "" && g.r.chance(40) {
			store = p
		}
		t.Vetoes = append(t.Vetoes, hVeto{Store: store, Change: ch, Id: op.Id})
		vetoPanic()
	default: // a pre-commit action, registered anywhere through a context of the transaction
		site := g.c07CtxSite(t, open != "nil")
		t.Vetoes = append(t.Vetoes, c07CtxRegText(site, g.c07CtxPath(site >= 0, true), 'p'))
	}
}

func c07PnStats(stats map[string]int, t *hTx, seg string) {
	m, has := c07PnParse(t)
	if !has {
		return
	}
	stats["panic_tx"]++
	if m.failPanics {
		stats["panic_mark_fn"]++
		if m.joins != "" {
			stats["panic_mark_fn_in_nested_join"]++
		}
	}
	if len(m.persist) > 0 {
		stats["panic_mark_persist"]++
	}
	batch := false
	for _, v := range t.Vetoes {
		if v.Store == c07PseudoVeto && strings.HasSuffix(v.Id, ":panic") {
			stats["panic_mark_constraint_"+strings.TrimSuffix(v.Id, ":panic")]++
		}
		if v.Store == c07CtxRegVeto && strings.HasSuffix(v.Id, ":p") {
			stats["panic_mark_precommit"]++
		}
		if v.Store == "@batch" {
			batch = true
		}
	}
	if strings.Contains(seg, " PANICKED") {
		stats["panic_reached_caller"]++
		if batch {
			stats["panic_reached_caller_batch"]++
		}
		if strings.Contains(seg, "TX R ok ") {
			stats["panic_after_successful_operation"]++
		}
	}
	for _, w := range []string{"fn", "persist", "precommit", "constraint-P", "constraint-IB", "constraint-IA"} {
		if strings.Contains(seg, " PANIC-RAISED:"+w+" ") {
			stats["panic_raised_"+w]++
		}
	}
}
