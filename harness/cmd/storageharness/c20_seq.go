package main

import (
	"fmt"
	"os"
	"regexp"
	"sort"
	"strings"

	"github.com/openziti/storage/ast"
)

// C20 - SEQUENCES of validations.
//
// Validation is a function of (query, public set of the store): the verdict for a query must not
// depend on what was validated before - on the same store, on another store, accepted or
// rejected.  Every other part of the harness validates each (query, public set) on a store
// built for that one call, so nothing that lives in a store, in the package or in the query object
// between two calls was ever exercised.  Here stores live through a HISTORY:
//
//	spec  := <nstores> {<npub> {hex}} <nsteps> {step}
//	step  := V <store> <Y|U> <hex text> <nsyms> {hex}      validate (typed / untyped tree) on that store
//	       | K <store> <hex name>                          MakeSymbolPublic(name) on that store
//
//	seq_spec.txt   : the spec (replayable as it is: --replayseq)
//	seq_cases.txt  : <nV> {<Y|U> <npub> {hex} <nmaps> {hex} <tree>}     what the model is asked, per V step
//	seq_impl.txt   : <nV> {A | R <hex> | E}
//	seq_oracle.txt : <nV> {<nintended> {hex}}                           public NAMES the harness asked for, at that step
//
// The histories are built from the query population of the run (every query that parsed) plus
// look-alikes derived from it: queries are grouped by the String() rendering of the typed query,
// by token skeleton (literals blanked), by shape (identifiers blanked), by text with the quotes
// removed; ordered pairs / triples are taken inside the groups, on public sets under which the
// two verdicts differ, in both orders, on one store and across two stores; plus a query and a
// query containing it, and random sequences (with repeats and MakeSymbolPublic in between).

type c20seqStep struct {
	kind  byte // 'V' | 'K'
	store int
	mode  byte   // 'Y' | 'U'
	text  string // V: query text, K: symbol name
	syms  []string
}

type c20seqSpec struct {
	pubs  [][]string
	steps []c20seqStep
}

func (sp c20seqSpec) String() string {
	var b strings.Builder
	fmt.Fprintf(&b, "%d", len(sp.pubs))
	for _, p := range sp.pubs {
		b.WriteByte(' ')
		b.WriteString(hexList(p))
	}
	fmt.Fprintf(&b, " %d", len(sp.steps))
	for _, s := range sp.steps {
		if s.kind == 'K' {
			fmt.Fprintf(&b, " K %d %s", s.store, hxs(s.text))
		} else {
			fmt.Fprintf(&b, " V %d %c %s %s", s.store, s.mode, hxs(s.text), hexList(s.syms))
		}
	}
	return b.String()
}

func c20seqParseSpec(line string) (sp c20seqSpec, ok bool) {
	defer func() {
		if recover() != nil {
			ok = false
		}
	}()
	f := strings.Fields(line)
	pos := 0
	list := func() []string {
		n := c20atoi(f[pos])
		pos++
		var xs []string
		for i := 0; i < n; i++ {
			xs = append(xs, string(unhx(f[pos])))
			pos++
		}
		return xs
	}
	ns := c20atoi(f[pos])
	pos++
	for i := 0; i < ns; i++ {
		sp.pubs = append(sp.pubs, list())
	}
	n := c20atoi(f[pos])
	pos++
	for i := 0; i < n; i++ {
		switch f[pos] {
		case "K":
			sp.steps = append(sp.steps, c20seqStep{kind: 'K', store: c20atoi(f[pos+1]), text: string(unhx(f[pos+2]))})
			pos += 3
		case "V":
			st := c20seqStep{kind: 'V', store: c20atoi(f[pos+1]), mode: f[pos+2][0], text: string(unhx(f[pos+3]))}
			pos += 4
			st.syms = list()
			sp.steps = append(sp.steps, st)
		default:
			return sp, false
		}
	}
	return sp, len(sp.pubs) > 0
}

// one member of the query population
type c20popq struct {
	text   string
	syms   []string
	render string // String() of the typed query
}

type c20seqState struct {
	types   *c20stores
	trees   map[string]string // mode+text -> tree dump (the structure depends on the text only)
	pop     []c20popq
	popSeen map[string]bool
	spec    *lineWriter
	cases   *lineWriter
	impl    *lineWriter
	oracle  *lineWriter
}

func (c *c20run) seqInit(out string) {
	all := map[string]bool{}
	for _, d := range c20People {
		all[d.name] = true
	}
	c.seq = &c20seqState{types: buildStores(all), trees: map[string]string{}, popSeen: map[string]bool{},
		spec: newLineWriter(out, "seq_spec.txt"), cases: newLineWriter(out, "seq_cases.txt"),
		impl: newLineWriter(out, "seq_impl.txt"), oracle: newLineWriter(out, "seq_oracle.txt")}
}

func (c *c20run) seqClose() {
	if c.seq != nil {
		c.seq.spec.close()
		c.seq.cases.close()
		c.seq.impl.close()
		c.seq.oracle.close()
	}
}

func c20seqRender(q ast.Query) (s string, ok bool) {
	defer func() {
		if recover() != nil {
			ok = false
		}
	}()
	return q.String(), true
}

// remember a query of the run (called by emitQuery for everything that parsed)
func (c *c20run) seqRemember(text string, syms []string, q ast.Query) {
	if c.seq == nil || c.seq.popSeen[text] || strings.TrimSpace(text) == "" {
		return
	}
	c.seq.popSeen[text] = true
	if r, ok := c20seqRender(q); ok {
		c.seq.pop = append(c.seq.pop, c20popq{text: text, syms: c20distinct(syms), render: r})
	}
}

// add a derived query when it parses
func (c *c20run) seqDerive(text string, syms []string) bool {
	if c.seq.popSeen[text] {
		return true
	}
	q, err, panicked := c20parse(c.seq.types.people, text)
	if panicked || err != nil || q == nil {
		c.stats["seq-derived-rejected"]++
		return false
	}
	c.seqRemember(text, syms, q)
	c.stats["seq-derived"]++
	return true
}

// ---------------------------------------------------------------------------------- running a history

// seqRun runs one history against real stores that live through it
func (c *c20run) seqRun(sp c20seqSpec) {
	var sts []*c20stores
	var pms []map[string]bool
	for _, pub := range sp.pubs {
		pm := map[string]bool{}
		for _, p := range pub {
			pm[p] = true
		}
		pms = append(pms, pm)
		sts = append(sts, c20build(c20program(pm)))
	}
	// one query object per distinct text of the history (a repeated text is the same object again)
	typed := map[string]ast.Query{}
	untyped := map[string]ast.Node{}
	for _, s := range sp.steps {
		if s.kind != 'V' || s.store < 0 || s.store >= len(sts) {
			if s.kind == 'V' {
				c.stats["seq-bad-spec"]++
				return
			}
			continue
		}
		if s.mode == 'U' {
			if _, ok := untyped[s.text]; !ok {
				un := untypedTree(s.text)
				if un == nil {
					c.stats["seq-skipped-unparsable"]++
					return
				}
				untyped[s.text] = un
			}
		} else if _, ok := typed[s.text]; !ok {
			q, err, panicked := c20parse(c.seq.types.people, s.text)
			if panicked || err != nil || q == nil {
				c.stats["seq-skipped-unparsable"]++
				return
			}
			typed[s.text] = q
		}
	}
	maps := hexList(c20MapNames())
	var cb, ib, ob strings.Builder
	nv := 0
	for _, s := range sp.steps {
		if s.store < 0 || s.store >= len(sts) {
			continue
		}
		st := sts[s.store]
		if s.kind == 'K' {
			st.people.MakeSymbolPublic(s.text)
			pms[s.store][s.text] = true
			continue
		}
		var node ast.Node
		var q ast.Query
		if s.mode == 'U' {
			node = untyped[s.text]
			q = c20queryWrap{node}
		} else {
			q = typed[s.text]
			node = q
		}
		tkey := string(s.mode) + s.text
		dump, ok := c.seq.trees[tkey]
		if !ok {
			t := reflectNode(node)
			if t == nil {
				c.stats["seq-reflect-failed"]++
				return
			}
			var tb strings.Builder
			t.write(&tb)
			dump = tb.String()
			c.seq.trees[tkey] = dump
		}
		real := st.people.GetPublicSymbols()
		sort.Strings(real)
		fmt.Fprintf(&cb, " %c %s %s %s", s.mode, hexList(real), maps, dump)
		fmt.Fprintf(&ib, " %s", c.verdict(q, st.people))
		fmt.Fprintf(&ob, " %s", hexList(c20intended(pms[s.store])))
		nv++
	}
	if nv == 0 {
		return
	}
	c.seq.spec.line("%s", sp.String())
	c.seq.cases.line("%d%s", nv, cb.String())
	c.seq.impl.line("%d%s", nv, ib.String())
	c.seq.oracle.line("%d%s", nv, ob.String())
	c.stats["seq-cases"]++
	c.stats["seq-steps"] += nv
	c.stats[fmt.Sprintf("seq-len-%d", nv)]++
}

// ---------------------------------------------------------------------------------- look-alike keys

var c20seqKeywords = map[string]bool{"and": true, "or": true, "not": true, "in": true, "between": true, "contains": true, "icontains": true,
	"sort": true, "by": true, "asc": true, "desc": true, "skip": true, "limit": true, "none": true, "from": true, "where": true,
	"anyof": true, "allof": true, "count": true, "isempty": true}

// c20seqKeys: skeleton (literals blanked), shape (identifiers blanked, literals kept), text without quotes
func c20seqKeys(text string) (skeleton, shape, unquoted string) {
	var sk, sh, uq strings.Builder
	i := 0
	emit := func(a, b, c string) {
		sk.WriteString(a + " ")
		sh.WriteString(b + " ")
		uq.WriteString(c + " ")
	}
	isWord := func(ch byte) bool {
		return ch == '_' || ch == '.' || ch == '-' || (ch >= 'a' && ch <= 'z') || (ch >= 'A' && ch <= 'Z') || (ch >= '0' && ch <= '9')
	}
	for i < len(text) {
		ch := text[i]
		switch {
		case ch == ' ' || ch == '\t' || ch == '\n':
			i++
		case ch == '"':
			j := i + 1
			for j < len(text) && text[j] != '"' {
				if text[j] == '\\' {
					j++
				}
				j++
			}
			if j >= len(text) {
				j = len(text) - 1
			}
			lit := text[i : j+1]
			// what is between the quotes, tokenised like query text
			_, _, inner := c20seqKeys(strings.Trim(lit, `"`))
			sk.WriteString("?s ")
			sh.WriteString(lit + " ")
			uq.WriteString(inner)
			i = j + 1
		case ch == '\'':
			j := strings.IndexByte(text[i+1:], '\'')
			if j < 0 {
				j = len(text) - i - 2
			}
			id := text[i+1 : i+1+j]
			emit(id, "#", id)
			i += j + 2
		case strings.HasPrefix(text[i:], "datetime("):
			j := strings.IndexByte(text[i:], ')')
			if j < 0 {
				j = len(text) - i - 1
			}
			lit := text[i : i+j+1]
			emit("?d", lit, lit)
			i += j + 1
		case (ch >= '0' && ch <= '9') || (ch == '-' && i+1 < len(text) && text[i+1] >= '0' && text[i+1] <= '9'):
			j := i + 1
			for j < len(text) && (isWord(text[j]) || text[j] == '+') {
				j++
			}
			emit("?n", text[i:j], text[i:j])
			i = j
		case isWord(ch):
			j := i
			for j < len(text) && isWord(text[j]) {
				j++
			}
			w := text[i:j]
			lw := strings.ToLower(w)
			switch {
			case lw == "true" || lw == "false" || lw == "null":
				emit("?b", w, w)
			case c20seqKeywords[lw]:
				emit(lw, lw, lw)
			default:
				emit(w, "#", w)
			}
			i = j
		default:
			emit(string(ch), string(ch), string(ch))
			i++
		}
	}
	return sk.String(), sh.String(), uq.String()
}

// the universe names whose public flag decides the verdict of a query: the symbol itself or, for
// a dotted name, its first component
func c20seqBases(syms []string) []string {
	inUni := map[string]bool{}
	for _, u := range c20universe() {
		inUni[u] = true
	}
	var out []string
	for _, s := range c20distinct(syms) {
		b := s
		if i := strings.IndexByte(s, '.'); i > 0 {
			b = s[:i]
		}
		if inUni[b] {
			out = append(out, b)
		}
	}
	return c20distinct(out)
}

func c20seqMinus(a, b []string) []string {
	in := map[string]bool{}
	for _, x := range b {
		in[x] = true
	}
	var out []string
	for _, x := range a {
		if !in[x] {
			out = append(out, x)
		}
	}
	return out
}

// everything public (the universe and the resolvable composite names the queries write) except `drop`
func c20seqPub(qs []c20popq, drop ...string) []string {
	dropped := map[string]bool{}
	for _, d := range drop {
		dropped[d] = true
	}
	var out []string
	for _, u := range c20universe() {
		if !dropped[u] {
			out = append(out, u)
		}
	}
	seen := map[string]bool{}
	for _, q := range qs {
		for _, s := range q.syms {
			i := strings.IndexByte(s, '.')
			if i <= 0 || seen[s] || dropped[s[:i]] || dropped[s] {
				continue
			}
			seen[s] = true
			if c20schemaResolves(c20People, c20Places, s, 0) {
				isMapElem := false
				for _, m := range c20MapNames() {
					if m == s[:i] {
						isMapElem = true
					}
				}
				if !isMapElem {
					out = append(out, s)
				}
			}
		}
	}
	return out
}

func c20seqV(store int, mode byte, q c20popq) c20seqStep {
	return c20seqStep{kind: 'V', store: store, mode: mode, text: q.text, syms: q.syms}
}

// every history over the ordered pair (a, b): on one store, across two stores, as a triple
func (c *c20run) seqPair(a, b c20popq, rich bool) {
	both := []c20popq{a, b}
	onlyB := c20seqMinus(c20seqBases(b.syms), c20seqBases(a.syms))
	onlyA := c20seqMinus(c20seqBases(a.syms), c20seqBases(b.syms))
	var pubs [][]string
	for i, x := range onlyB {
		if i < 2 {
			pubs = append(pubs, c20seqPub(both, x)) // a accepted, b rejected
		}
	}
	for i, x := range onlyA {
		if i < 2 {
			pubs = append(pubs, c20seqPub(both, x))
		}
	}
	if len(pubs) == 0 {
		common := c20seqBases(a.syms)
		pubs = append(pubs, c20seqPub(both))
		if len(common) > 0 {
			pubs = append(pubs, c20seqPub(both, common[c.r.intn(len(common))]))
		}
	}
	full := c20seqPub(both)
	mode := func() byte {
		if c.r.chance(12) {
			return 'U'
		}
		return 'Y'
	}
	for _, pub := range pubs {
		for _, o := range [][2]c20popq{{a, b}, {b, a}} {
			m0, m1 := mode(), mode()
			c.seqRun(c20seqSpec{pubs: [][]string{pub}, steps: []c20seqStep{c20seqV(0, m0, o[0]), c20seqV(0, m1, o[1])}})
			if !rich {
				continue
			}
			// the look-alike validated on ANOTHER store (everything public there) first
			c.seqRun(c20seqSpec{pubs: [][]string{pub, full}, steps: []c20seqStep{c20seqV(1, 'Y', o[0]), c20seqV(1, 'Y', o[1]), c20seqV(0, 'Y', o[1]), c20seqV(0, 'Y', o[0])}})
			c.seqRun(c20seqSpec{pubs: [][]string{pub}, steps: []c20seqStep{c20seqV(0, 'Y', o[0]), c20seqV(0, 'Y', o[1]), c20seqV(0, 'Y', o[0]), c20seqV(0, m1, o[1])}})
		}
	}
}

var c20seqAbsorbRe = regexp.MustCompile(`^([a-z][a-zA-Z.]*) (=|!=|<|<=|>|>=|contains|icontains) "[^"]*"( .+)$`)
var c20seqTailRe = regexp.MustCompile(` (sort by|skip|limit) .*$`)

// the stream of histories
func (c *c20run) seqStream(thorough bool) {
	r := c.r
	// ---- (a) look-alikes built on purpose
	// a set function over a set symbol vs over a sub-query of that set (predicate, sort fields of the linked store)
	inner := []struct {
		text string
		syms []string
	}{
		{`name = "a"`, []string{"name"}}, {`zip > 3`, []string{"zip"}}, {`open`, []string{"open"}}, {`info.k = "v"`, []string{"info.k"}},
		{`anyOf(shops) = "a"`, []string{"shops"}}, {`not isEmpty(residents)`, []string{"residents"}},
		{`true sort by zip`, []string{"zip"}}, {`name = "x" sort by open desc, id`, []string{"name", "open", "id"}},
		{`isEmpty(from residents where age > 3 sort by nick)`, []string{"residents", "age", "nick"}},
		{`true`, nil},
	}
	ctx := []struct {
		pre, post string
		syms      []string
	}{
		{"", "", nil}, {`nick = "a" and `, "", []string{"nick"}}, {"", ` or age > 3`, []string{"age"}}, {"not (", ")", nil},
		{"", " sort by rank", []string{"rank"}}, {`(active = true or `, `) and score < 1.5 sort by born desc limit 3`, []string{"active", "score", "born"}},
	}
	for _, cx := range ctx {
		for _, set := range []string{"places"} {
			for _, tail := range []string{" > 0", " = 0", " <= 42"} {
				c.seqDerive(cx.pre+"count("+set+")"+tail+cx.post, append([]string{set}, cx.syms...))
				for _, in := range inner {
					c.seqDerive(cx.pre+"count(from "+set+" where "+in.text+")"+tail+cx.post, append(append([]string{set}, in.syms...), cx.syms...))
				}
			}
			c.seqDerive(cx.pre+"isEmpty("+set+")"+cx.post, append([]string{set}, cx.syms...))
			for _, in := range inner {
				c.seqDerive(cx.pre+"isEmpty(from "+set+" where "+in.text+")"+cx.post, append(append([]string{set}, in.syms...), cx.syms...))
			}
		}
	}
	// a literal of one type vs the same characters as a literal of another type (any-typed symbols)
	for _, s := range []string{"extra", "tags.foo", "labels.env"} {
		for _, lit := range []string{"42", "true", "1.5", "null"} {
			c.seqDerive(s+" = "+lit, []string{s})
			c.seqDerive(s+` = "`+lit+`"`, []string{s})
		}
	}
	// a string literal that swallows the rest of the query: <sym> <op> "<lit>" <rest>  vs  <sym> <op> "<lit rendering-of-rest>"
	base := append([]c20popq{}, c.seq.pop...)
	nAbsorb := 0
	for _, p := range base {
		m := c20seqAbsorbRe.FindStringSubmatch(p.text)
		if m == nil || strings.ContainsAny(p.render, "\"\\") {
			continue
		}
		prefix := m[1] + " " + m[2] + " "
		if !strings.HasPrefix(p.render, prefix) {
			continue
		}
		if c.seqDerive(prefix+`"`+p.render[len(prefix):]+`"`, []string{m[1]}) {
			nAbsorb++
		}
	}
	c.stats["seq-literal-absorbing"] = nAbsorb

	pop := c.seq.pop
	c.stats["seq-population"] = len(pop)

	// ---- (b) groups of look-alikes
	type group struct {
		kind    string
		members []int
	}
	byKey := map[string]*group{}
	var order []string
	add := func(kind, key string, i int) {
		k := kind + "\x00" + key
		g := byKey[k]
		if g == nil {
			g = &group{kind: kind}
			byKey[k] = g
			order = append(order, k)
		}
		g.members = append(g.members, i)
	}
	for i, p := range pop {
		sk, sh, uq := c20seqKeys(p.text)
		add("render", p.render, i)
		add("skeleton", sk, i)
		add("shape", sh, i)
		add("unquoted", uq, i)
	}
	caps := map[string][2]int{ // per group, in total
		"render": {10, 700}, "unquoted": {6, 300}, "skeleton": {1, 120}, "shape": {2, 250},
	}
	if thorough {
		caps = map[string][2]int{"render": {40, 6000}, "unquoted": {20, 3000}, "skeleton": {3, 1500}, "shape": {6, 3000}}
	}
	used := map[string]int{}
	symKey := func(q c20popq) string {
		xs := append([]string{}, c20seqBases(q.syms)...)
		sort.Strings(xs)
		return strings.Join(xs, ",")
	}
	pairSeen := map[[2]int]bool{}
	for _, k := range order {
		g := byKey[k]
		if len(g.members) < 2 {
			continue
		}
		c.stats["seq-groups-"+g.kind]++
		cp := caps[g.kind]
		if used[g.kind] >= cp[1] {
			continue
		}
		// the member referencing the fewest symbols (the harmless one) against the others, then random pairs
		least := g.members[0]
		for _, m := range g.members {
			if len(c20seqBases(pop[m].syms)) < len(c20seqBases(pop[least].syms)) {
				least = m
			}
		}
		var pairs [][2]int
		others := append([]int{}, g.members...)
		for i := len(others) - 1; i > 0; i-- {
			j := r.intn(i + 1)
			others[i], others[j] = others[j], others[i]
		}
		for _, m := range others {
			if m != least && symKey(pop[m]) != symKey(pop[least]) {
				pairs = append(pairs, [2]int{least, m})
			}
		}
		for t := 0; t < 3*cp[0]; t++ {
			a, b := g.members[r.intn(len(g.members))], g.members[r.intn(len(g.members))]
			if a != b && (symKey(pop[a]) != symKey(pop[b]) || t%3 == 0) {
				pairs = append(pairs, [2]int{a, b})
			}
		}
		n := 0
		for _, pr := range pairs {
			if n >= cp[0] || used[g.kind] >= cp[1] {
				break
			}
			if pr[0] > pr[1] {
				pr[0], pr[1] = pr[1], pr[0]
			}
			if pairSeen[pr] {
				continue
			}
			pairSeen[pr] = true
			c.seqPair(pop[pr[0]], pop[pr[1]], g.kind == "render" || g.kind == "unquoted")
			c.stats["seq-pairs-"+g.kind]++
			used[g.kind]++
			n++
		}
	}

	// ---- (c) a query and a query that contains it
	var plain []c20popq
	for _, p := range pop {
		if !c20seqTailRe.MatchString(p.text) && !strings.HasPrefix(p.text, "sort ") && !strings.HasPrefix(p.text, "skip") &&
			!strings.HasPrefix(p.text, "limit") && len(p.text) < 120 {
			plain = append(plain, p)
		}
	}
	nSub := 250
	if thorough {
		nSub = 3000
	}
	for i := 0; i < nSub && len(plain) > 1; i++ {
		a, b := plain[r.intn(len(plain))], plain[r.intn(len(plain))]
		var text string
		switch r.intn(4) {
		case 0:
			text = a.text + " and " + b.text
		case 1:
			text = b.text + " or " + a.text
		case 2:
			text = "(" + a.text + ") and not (" + b.text + ")"
		default:
			text = a.text + " and " + b.text + " sort by " + r.pick([]string{"name", "age", "tags.foo"})
		}
		syms := append(append([]string{}, a.syms...), b.syms...)
		if strings.Contains(text, " sort by ") {
			syms = append(syms, text[strings.LastIndex(text, " ")+1:])
		}
		q, err, panicked := c20parse(c.seq.types.people, text)
		if panicked || err != nil || q == nil {
			continue
		}
		rd, _ := c20seqRender(q)
		c.seqPair(a, c20popq{text: text, syms: c20distinct(syms), render: rd}, false)
		c.stats["seq-pairs-subexpression"]++
	}

	// ---- (d) random histories: two stores, draws biased towards look-alikes of what was validated before,
	// repeats, MakeSymbolPublic in between
	groupOf := map[int][]int{}
	for _, k := range order {
		g := byKey[k]
		if (g.kind == "render" || g.kind == "unquoted") && len(g.members) > 1 {
			for _, m := range g.members {
				if len(groupOf[m]) < 40 {
					groupOf[m] = append(groupOf[m], g.members...)
				}
			}
		}
	}
	var grouped []int
	for m := range pop {
		if len(groupOf[m]) > 0 {
			grouped = append(grouped, m)
		}
	}
	nRandom := 500
	if thorough {
		nRandom = 8000
	}
	uni := c20universe()
	for i := 0; i < nRandom && len(pop) > 0; i++ {
		n := 3 + r.intn(6)
		var picks []int
		var steps []c20seqStep
		var qs []c20popq
		for len(steps) < n {
			var m int
			switch {
			case len(picks) > 0 && r.chance(15):
				m = picks[r.intn(len(picks))] // the same query again
			case len(picks) > 0 && r.chance(50) && len(groupOf[picks[len(picks)-1]]) > 0:
				g := groupOf[picks[len(picks)-1]]
				m = g[r.intn(len(g))]
			case len(grouped) > 0 && r.chance(50):
				m = grouped[r.intn(len(grouped))]
			default:
				m = r.intn(len(pop))
			}
			picks = append(picks, m)
			qs = append(qs, pop[m])
			mode := byte('Y')
			if r.chance(10) {
				mode = 'U'
			}
			steps = append(steps, c20seqV(r.intn(2), mode, pop[m]))
		}
		// public sets: each store lacks one or two of the names the history references
		var bases []string
		for _, q := range qs {
			bases = append(bases, c20seqBases(q.syms)...)
		}
		bases = c20distinct(bases)
		var pubs [][]string
		var droppedAll []string
		for s := 0; s < 2; s++ {
			var drop []string
			for k := 0; k < 1+r.intn(2) && len(bases) > 0; k++ {
				drop = append(drop, bases[r.intn(len(bases))])
			}
			if r.chance(15) {
				drop = nil
			}
			if r.chance(10) {
				drop = append(drop, uni[r.intn(len(uni))])
			}
			droppedAll = append(droppedAll, drop...)
			pubs = append(pubs, c20seqPub(qs, drop...))
		}
		// symbols made public half way: what was rejected before must be accepted afterwards
		if len(droppedAll) > 0 && r.chance(35) {
			at := 1 + r.intn(len(steps)-1)
			k := c20seqStep{kind: 'K', store: r.intn(2), text: droppedAll[r.intn(len(droppedAll))]}
			steps = append(steps[:at], append([]c20seqStep{k}, steps[at:]...)...)
		}
		c.seqRun(c20seqSpec{pubs: pubs, steps: steps})
	}
}

func (c *c20run) seqReplay(path string) error {
	data, err := os.ReadFile(path)
	if err != nil {
		return err
	}
	for _, line := range strings.Split(strings.TrimSpace(string(data)), "\n") {
		if sp, ok := c20seqParseSpec(line); ok {
			c.seqRun(sp)
		}
	}
	return nil
}
