package main

import (
	"math"
	"strconv"
	"strings"
	"time"
)

// C19, extreme field values.  The ordinary collections (c02.go value pools) hold small values with
// ties; the collections built here hold the values at which a comparator / typed reader that goes
// through a narrower or differently ordered representation stops agreeing with the bolt-backed store:
//
//	datetimes  over the whole time.Time range: the zero time (year 1) and its neighbours, the first and last
//	           instant an int64 of nanoseconds / microseconds / milliseconds since 1970 can hold and the
//	           instants just outside (1677 / 2262, years +-294247, +-292278994), far-future sentinels
//	           (2400, 9999-12-31, year 10000), the epoch +-1ns, instants of one second that differ in the
//	           nanoseconds only, pairs exactly 2^64 ns and 2^32 s apart
//	int64      min / max and their neighbours, +-2^53 (+-1), 2^63-1024, 2^31 / 2^32 boundaries, decimal
//	           length changes (9 / 10, 999999999999999999 / 10^18)
//	float64    +-Inf, +-MaxFloat64, +-smallest subnormal, largest subnormal / smallest normal, +-0, the float32
//	           range boundaries, neighbours one ulp apart, 2^53, +-2^63, 2^64, 1e300
//	strings    empty, NUL, 0x7f / 0x80 / 0xfe / 0xff bytes, multi-byte runes, strings of 300 / 5000 (thorough tier: 70000) bytes
//	           that differ in the last byte only or are a prefix of each other
//	nil        explicit nil and absent fields in every column
//
// Every column is sorted ascending and descending (alone and as the second key behind a column with
// ties) and read back unpaged and page by page; the atoms and random filters of the ordinary
// collections run with literals drawn from the same pools (where ZitiQL can spell them).
// No NaN (the property's sort keys are NaN-free, see design/C19.md).

const c19xNsPerSec = int64(1000000000)

// c19xSplit turns a count of units of 10^-k seconds since 1970 into (sec, nsec) with floor division
func c19xSplit(v int64, unitsPerSec int64) [2]int64 {
	sec := v / unitsPerSec
	rem := v % unitsPerSec
	if rem < 0 {
		sec--
		rem += unitsPerSec
	}
	return [2]int64{sec, rem * (c19xNsPerSec / unitsPerSec)}
}

func c19xAddNs(t [2]int64, d int64) [2]int64 {
	sec, ns := t[0], t[1]+d
	for ns < 0 {
		sec--
		ns += c19xNsPerSec
	}
	for ns >= c19xNsPerSec {
		sec++
		ns -= c19xNsPerSec
	}
	return [2]int64{sec, ns}
}

func c19xDate(y int, m time.Month, d, hh, mm, ss, ns int) [2]int64 {
	t := time.Date(y, m, d, hh, mm, ss, ns, time.UTC)
	return [2]int64{t.Unix(), int64(t.Nanosecond())}
}

const (
	c19xMinLitSec = int64(-62135596800) // 0001-01-01T00:00:00Z
	c19xMaxLitSec = int64(253402300799) // 9999-12-31T23:59:59Z
)

var c19xTimes = func() [][2]int64 {
	nsMin, nsMax := c19xSplit(math.MinInt64, 1000000000), c19xSplit(math.MaxInt64, 1000000000)
	usMin, usMax := c19xSplit(math.MinInt64, 1000000), c19xSplit(math.MaxInt64, 1000000)
	msMin, msMax := c19xSplit(math.MinInt64, 1000), c19xSplit(math.MaxInt64, 1000)
	now := [2]int64{1700000000, 123456789}
	out := [][2]int64{
		{c19xMinLitSec, 0}, {c19xMinLitSec, 1}, {c19xMinLitSec - 1, 999999999}, // the zero time, +-1ns
		c19xDate(-5000, time.June, 15, 12, 0, 0, 0),
		nsMin, c19xAddNs(nsMin, -1), c19xAddNs(nsMin, 1), {nsMin[0] - 1, 0},
		c19xDate(1677, time.January, 1, 0, 0, 0, 0), c19xDate(1678, time.January, 1, 0, 0, 0, 0),
		{-1, 999999999}, {0, 0}, {0, 1}, {-1, 0},
		c19xDate(1999, time.December, 31, 0, 0, 0, 0),
		now, c19xAddNs(now, 1), c19xAddNs(now, -1), {now[0], 0}, {now[0] + 1, 0},
		c19xDate(2038, time.January, 19, 3, 14, 7, 0), c19xDate(2038, time.January, 19, 3, 14, 8, 0),
		{now[0] + (1 << 32), now[1]},               // same second modulo 2^32
		{now[0] + 18446744073, now[1] + 709551616}, // same nanosecond count modulo 2^64
		c19xDate(2262, time.January, 1, 0, 0, 0, 0),
		nsMax, c19xAddNs(nsMax, 1), c19xAddNs(nsMax, -1), {nsMax[0] + 1, 0},
		c19xDate(2263, time.January, 1, 0, 0, 0, 0),
		c19xDate(2400, time.March, 1, 0, 0, 0, 0),
		c19xDate(9999, time.December, 31, 0, 0, 0, 0), {c19xMaxLitSec, 999999999}, {c19xMaxLitSec + 1, 0},
		usMin, c19xAddNs(usMin, -1000), usMax, c19xAddNs(usMax, 1000),
		msMin, c19xAddNs(msMin, -1000000), msMax, c19xAddNs(msMax, 1000000),
		{1 << 62, 0}, {-(1 << 62), 500000000},
	}
	return out
}()

var c19xInts = []int64{
	math.MinInt64, math.MinInt64 + 1, math.MaxInt64, math.MaxInt64 - 1, -1, 0, 1,
	1 << 53, 1<<53 + 1, -(1 << 53), -(1 << 53) - 1, math.MaxInt64 - 1023, math.MaxInt64 - 1024,
	1<<31 - 1, 1 << 31, -(1 << 31), -(1 << 31) - 1, 1 << 32, 1<<32 + 1, -(1 << 32),
	9, 10, -9, -10, 999999999999999999, 1000000000000000000, -1000000000000000000, 1 << 62, -(1 << 62),
}

var c19xInt32s = []int64{math.MinInt32, math.MinInt32 + 1, math.MaxInt32, math.MaxInt32 - 1, -1, 0, 1, 65535, 65536, -65536, 9, 10, 1 << 24, 1<<24 + 1}

var c19xFloats = []float64{
	math.Inf(-1), math.Inf(1), math.MaxFloat64, -math.MaxFloat64, math.Nextafter(math.MaxFloat64, 0),
	math.SmallestNonzeroFloat64, -math.SmallestNonzeroFloat64, 2 * math.SmallestNonzeroFloat64,
	2.2250738585072014e-308, 2.225073858507201e-308, -2.2250738585072014e-308,
	0.0, math.Copysign(0, -1), 1, -1, 1.5, math.Nextafter(1.5, 2), math.Nextafter(1.5, 1), -1.5, math.Nextafter(-1.5, -2),
	math.MaxFloat32, math.Nextafter(math.MaxFloat32, math.Inf(1)), 3.4028235677973366e38, -math.MaxFloat32,
	math.SmallestNonzeroFloat32, 1e-46, -1e-46,
	1 << 53, 1<<53 + 2, -(1 << 53), 9223372036854775808.0, -9223372036854775808.0, math.Nextafter(9223372036854775808.0, 0),
	18446744073709551616.0, 1e19, 1e300, -1e300, 1e308, 0.1, 0.3, 0.1 + 0.2, 4294967296.5, 2147483648.0,
}

var c19xLongA = strings.Repeat("a", 300)
var c19xLongX = strings.Repeat("xy", 2500)
var c19xHuge = strings.Repeat("m", 70000)

// strings a field can hold; c19xStringLits is the subset a ZitiQL string literal can spell verbatim
// (no quote, backslash or control character, valid UTF-8)
var c19xStrings = []string{
	"", "\x00", "\x00\x00", "a", "a\x00", "a\x00b", "A", "a ", " a", "aa", "ab", "b", "B", "\x7f", "\x80", "\xfe", "\xff", "\xff\xff",
	"\xc3\xa9", "e\xcc\x81", "\xe6\x97\xa5\xe6\x9c\xac", "\xf0\x9f\x98\x80", "\xef\xbf\xbd", "\"", "\\", "a\"b", "a\tb", "a\nb",
	c19xLongA, c19xLongA + "a", c19xLongA + "b", c19xLongA[:299], c19xLongA[:299] + "b", c19xLongA[:255], c19xLongA[:256],
	c19xLongX, c19xLongX + "x", c19xLongX[:4999] + "z",
	"9", "10", "-1", "0",
}

// longer than 64 KiB; thorough tier only (the extracted model compares strings byte by byte as lists:
// a few seconds per hundred queries that order such strings)
var c19xHugeStrings = []string{c19xHuge, c19xHuge + "m", c19xHuge[:69999] + "l"}

// c19xStringPool is c19xStrings, in the thorough tier + c19xHugeStrings (set by runC19)
var c19xStringPool = c19xStrings

func c19xSetTier(thorough bool) {
	c19xStringPool = c19xStrings
	if thorough {
		c19xStringPool = append(append([]string{}, c19xStrings...), c19xHugeStrings...)
	}
}

var c19xStringLits = []string{
	"", "a", "A", "a ", " a", "aa", "ab", "b", "B", "\x7f", "\xc3\xa9", "\xe6\x97\xa5\xe6\x9c\xac", "\xf0\x9f\x98\x80", "\xef\xbf\xbd",
	c19xLongA, c19xLongA + "a", c19xLongA + "b", c19xLongA[:299], c19xLongX, c19xLongX[:4999] + "z", "9", "10", "-1", "0",
}

// c19xLiterals: while set, sfLitFor draws most literals from the extreme pools
var c19xLiterals bool

func c19xLitFor(r *rng, typ byte) (sfLit, bool) {
	switch typ {
	case 's':
		return sfStrLit(r.pick(c19xStringLits)), true
	case 'i':
		v := c19xInts[r.intn(len(c19xInts))]
		if r.chance(20) {
			v = c19xInt32s[r.intn(len(c19xInt32s))]
		}
		return sfIntLit(v), true
	case 'f':
		v := c19xFloats[r.intn(len(c19xFloats))]
		if math.IsInf(v, 0) {
			return sfLit{}, false
		}
		if r.chance(15) && v == math.Trunc(v) && math.Abs(v) < 1<<62 {
			return sfFloatLitText(strconv.FormatInt(int64(v), 10)), true // an integer spelling of the same number
		}
		return sfFloatLit(v), true
	case 't':
		for try := 0; try < 8; try++ {
			t := c19xTimes[r.intn(len(c19xTimes))]
			if r.chance(25) {
				t = c19xAddNs(t, int64(r.intn(3))-1)
			}
			// ZitiQL spells datetimes as RFC 3339: years 1 to 9999
			if t[0] >= c19xMinLitSec && t[0] <= c19xMaxLitSec {
				return sfTimeLit(t[0], t[1]), true
			}
		}
	}
	return sfLit{}, false
}

// c19xCell draws a non-null value for the column
func c19xCell(r *rng, ci int, extremePct int) qCell {
	ext := r.chance(extremePct)
	switch qCols[ci].typ {
	case 's':
		if ext {
			return qCell{kind: 'S', s: r.pick(c19xStringPool)}
		}
		return qCell{kind: 'S', s: r.pick(qStrings)}
	case 'i':
		switch {
		case ci == qColGrp:
			return qCell{kind: 'I', i: int64(r.intn(4))}
		case ci == qColFj && ext:
			return qCell{kind: 'I', i: c19xInt32s[r.intn(len(c19xInt32s))], as32: true}
		case ci == qColFj:
			return qCell{kind: 'I', i: qInt32s[r.intn(len(qInt32s))], as32: true}
		case ext:
			return qCell{kind: 'I', i: c19xInts[r.intn(len(c19xInts))]}
		}
		return qCell{kind: 'I', i: qInts[r.intn(len(qInts))]}
	case 'f':
		if ext {
			return qCell{kind: 'F', f: math.Float64bits(c19xFloats[r.intn(len(c19xFloats))])}
		}
		return qCell{kind: 'F', f: math.Float64bits(qFloats[r.intn(len(qFloats))])}
	case 'b':
		return qCell{kind: 'B', b: r.chance(50)}
	case 't':
		t := qTimes[r.intn(len(qTimes))]
		if ext {
			t = c19xTimes[r.intn(len(c19xTimes))]
		}
		return qCell{kind: 'T', sec: t[0], nsec: t[1]}
	}
	panic("bad column type")
}

func c19xIds(n int) []string {
	ids := make([]string, n)
	for i := range ids {
		ids[i] = "x" + string(rune('a'+i/26)) + string(rune('a'+i%26))
	}
	return ids
}

// c19xFixedDataset holds every value of every extreme pool at least once (the longest pool decides
// the number of rows), each column in its own fixed pseudo-random arrangement relative to the id
// order, plus an explicit nil and an absent field per column.  It does not depend on the seed
// (the thorough tier adds the strings longer than 64 KiB).
func c19xFixedDataset() *qDataset {
	r := newRng(0x0C19E)
	n := len(c19xTimes)
	for _, l := range []int{len(c19xInts), len(c19xFloats), len(c19xStringPool)} {
		if l > n {
			n = l
		}
	}
	n += 2
	d := &qDataset{}
	for _, id := range c19xIds(n) {
		d.rows = append(d.rows, qRow{id: id, cells: make([]qCell, len(qCols))})
	}
	for ci, col := range qCols {
		var pool []qCell
		switch {
		case col.typ == 's':
			for _, s := range c19xStringPool {
				pool = append(pool, qCell{kind: 'S', s: s})
			}
		case ci == qColFj:
			for _, v := range c19xInt32s {
				pool = append(pool, qCell{kind: 'I', i: v, as32: true})
			}
		case ci == qColGrp:
			// stays non-null with many ties: the first key of the two-key sorts
		case col.typ == 'i':
			for _, v := range c19xInts {
				pool = append(pool, qCell{kind: 'I', i: v})
			}
		case col.typ == 'f':
			for _, v := range c19xFloats {
				pool = append(pool, qCell{kind: 'F', f: math.Float64bits(v)})
			}
		case col.typ == 't':
			for _, t := range c19xTimes {
				pool = append(pool, qCell{kind: 'T', sec: t[0], nsec: t[1]})
			}
		}
		if ci != qColGrp {
			pool = append(pool, qCell{kind: 'N'}, qCell{kind: 'N', absent: true})
		}
		for len(pool) < n {
			pool = append(pool, c19xCell(r, ci, 60))
		}
		for i, p := range qShuffled(r, n) {
			d.rows[i].cells[ci] = pool[p]
		}
	}
	return d
}

// c19xGenDataset: 2..14 objects, mostly extreme values, some ordinary ones, 0-40% nulls
func c19xGenDataset(r *rng) *qDataset {
	n := 2 + r.intn(13)
	nullPct := []int{0, 10, 25, 40}[r.intn(4)]
	extremePct := []int{55, 75, 100}[r.intn(3)]
	d := &qDataset{}
	ids := c19xIds(n)
	if r.chance(50) {
		// ids from the ordinary generator: not aligned with anything
		ids = ids[:0]
		for _, row := range qGenDataset(r, n, false).rows {
			ids = append(ids, row.id)
		}
	}
	for _, id := range ids {
		row := qRow{id: id}
		for ci := range qCols {
			if ci != qColGrp && r.chance(nullPct) {
				row.cells = append(row.cells, qCell{kind: 'N', absent: r.chance(50)})
				continue
			}
			row.cells = append(row.cells, c19xCell(r, ci, extremePct))
		}
		d.rows = append(d.rows, row)
	}
	return d
}

// c19xSorts: every column ascending and descending, alone and behind the tie-rich grp column
func c19xSorts() [][]qSortField {
	var out [][]qSortField
	for col := -1; col < len(qCols); col++ {
		out = append(out, []qSortField{{col: col, asc: true, spell: 2}}, []qSortField{{col: col, asc: false}})
	}
	for _, col := range []int{qColFs, qColFi, qColFj, qColFf, qColFt} {
		out = append(out,
			[]qSortField{{col: qColGrp, asc: true}, {col: col, asc: true, spell: 1}},
			[]qSortField{{col: qColGrp, asc: false, spell: 1}, {col: col, asc: false}},
			[]qSortField{{col: qColFb, asc: true, spell: 2}, {col: col, asc: false, spell: 1}, {col: -1, asc: false}},
		)
	}
	return out
}

// c19xPages reads an ordering back page by page: one row at a time, in pages of three, first / last
// row, the second half without a limit
func c19xPages(n int64) []qPaging {
	out := []qPaging{{}}
	for k := int64(0); k < n; k++ {
		out = append(out, qPaging{skip: qI64p(k), limit: qI64p(1)})
	}
	for k := int64(0); k < n; k += 3 {
		out = append(out, qPaging{skip: qI64p(k), limit: qI64p(3)})
	}
	out = append(out, qPaging{limit: qI64p(1)}, qPaging{limit: qI64p(2)}, qPaging{skip: qI64p(n / 2)}, qPaging{skip: qI64p(n - 1), none: true},
		qPaging{skip: qI64p(1), limit: qI64p(n - 2)})
	return out
}

// c19xEmit runs the extreme-value part on one collection; emit is the closure of runC19
func c19xEmit(r *rng, n int, fixed bool, nFilters int, emit func(f *sfNode, fs []qSortField, pg qPaging)) {
	c19xLiterals = true
	defer func() { c19xLiterals = false }()
	grid := qPagingGrid(int64(n))
	// (x1) every ordering, unpaged and page by page
	for _, fs := range c19xSorts() {
		for _, pg := range c19xPages(int64(n)) {
			emit(&sfNode{kind: "T"}, fs, pg)
		}
		col := fs[len(fs)-1].col
		if len(fs) > 1 {
			col = fs[1].col
		}
		if col >= 0 {
			emit(&sfNode{kind: "null", col: col, neg: true}, fs, qPaging{})
			emit(&sfNode{kind: "null", col: col, neg: true}, fs, qPaging{skip: qI64p(1), limit: qI64p(2)})
			emit(&sfNode{kind: "null", col: col}, fs, qPaging{})
		}
	}
	// (x2) every atom kind x operator x column with literals at the extremes: unpaged, and sorted by
	// that column with a page
	rounds := 1
	if fixed {
		rounds = 3
	}
	for round := 0; round < rounds; round++ {
		for col := -1; col < len(qCols); col++ {
			for _, a := range sfAtoms(r, col) {
				emit(a, nil, qPaging{})
				emit(a, []qSortField{{col: col, asc: r.chance(50)}}, grid[r.intn(len(grid))])
			}
		}
	}
	// (x3) random composite filters x sorts x pages
	for fi := 0; fi < nFilters; fi++ {
		f := sfRandom(r, 3)
		for si := 0; si < 2; si++ {
			fs := qRandomSort(r, 4)
			for k := 0; k < 6; k++ {
				emit(f, fs, grid[r.intn(len(grid))])
			}
		}
	}
}
