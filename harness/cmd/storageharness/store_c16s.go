package main

// C16 strengthening: MIXED transactions of the "storex" sub-command (profile c16).
//
// A transaction that carries the pseudo veto  @m C <hex of mode string>  (the shared parsers treat it as a veto
// for a store that does not exist) is executed by c16RunTx instead of the shared runTx.  The mode string
// holds three characters per operation:
//
//	context     b  the operation uses the context object handed to the Db.Update body (= the transaction's base context:
//	               ordinary, or system when the TX flag is set)
//	            s  sys := ctx.GetSystemContext()      derived from the base context INSIDE the body, used for this operation only
//	            n  boltz.NewSystemMutateContext(ctx)
//	            u  db.Update(ctx.GetSystemContext(), func(c) { op(c) })   nested in the open transaction
//	            x  boltz.NewTxMutateContext(background, ctx.Tx())   a FRESH ordinary context on the same bolt transaction
//	               (ordinary also when the base context is a system context: the kind belongs to the context object, not to
//	               the transaction)
//	            y  boltz.NewTxMutateContext(background, ctx.Tx()).GetSystemContext()
//	            p / q / r  the operation is DEFERRED into a pre-commit action registered through the base context (p) or a
//	               system context derived from it (q GetSystemContext, r NewSystemMutateContext) and runs with the context the
//	               library hands to the action (store_c16w9.go)
//	swallow     w  the body ignores the error of this operation and goes on (and commits) - but only the error of an UPDATE
//	               refused by the system-entity constraint: ordinary context, the STORED flag of the target is set (read from
//	               the open transaction before the operation), the root store carries the constraint.  Every other error
//	               aborts the transaction as usual.   -  no swallowing
//	decoration  m  the entity handed to Create/Update has Migrate=true and explicit CreatedAt/UpdatedAt
//	            t  it carries tags       x  both       -  plain
//	            l  it carries linked ids for the link fields its strategy persists with PersistContext.SetLinkedIds
//	               (sStore.LinkIds): every entity of the other store present at that moment     e  the empty list
//	               (store_c16w3.go; no effect on stores whose strategy has no such field)
//
// Extra observation tokens (before the read tokens):
//
//	NW:<op>:<n>:<paths>   the error of operation <op> was swallowed; <n> = number of bolt paths (all buckets, all keys, incl.
//	                      tags / timestamps / indexes) whose content differs between the dump taken before and after the
//	                      refused operation, inside the same transaction (first paths listed)
//	RB:<op>:same|diff     LoadById through the operation's store before / after the refused operation (same transaction)
//
// The expected context kind of an operation is a function of the case line alone (TX flag or mode s/n/u); the harness never
// asks the library (IsSystemContext) what kind a context has.

import (
	"context"
	"fmt"
	"sort"
	"strings"
	"time"

	"github.com/openziti/storage/boltz"
	"go.etcd.io/bbolt"
)

const c16ModeStore = "@m"

type c16Mode struct {
	Ctx     byte // b s n u x y
	Swallow bool
	Deco    byte // - m t x l e
}

func (m c16Mode) derived() bool { return m.Ctx == 's' || m.Ctx == 'n' || m.Ctx == 'u' }

// isSys: the kind of the context this operation runs through, from the case line alone
func (m c16Mode) isSys(txSys bool) bool {
	switch m.Ctx {
	case 's', 'n', 'u', 'y':
		return true
	case 'x':
		return false
	}
	return txSys
}

func c16ModesOf(t *hTx) ([]c16Mode, bool) {
	for _, v := range t.Vetoes {
		if v.Store != c16ModeStore {
			continue
		}
		ms := make([]c16Mode, len(t.Ops))
		for i := range ms {
			ms[i] = c16Mode{Ctx: 'b', Deco: '-'}
			if 3*i+2 < len(v.Id) {
				ms[i] = c16Mode{Ctx: v.Id[3*i], Swallow: v.Id[3*i+1] == 'w', Deco: v.Id[3*i+2]}
			}
		}
		return ms, true
	}
	// a plain transaction that names its ENTRY POINT (pseudo veto @ep, store_c16w5.go) runs through c16RunTx as well: every
	// operation through the base context, nothing swallowed, no decoration
	// ... and so does one whose creates / updates are followed by link-count increments (pseudo veto @rc, store_c16w7.go)
	if _, ok := c16w5EntryOf(t); ok || c16w7Has(t) {
		ms := make([]c16Mode, len(t.Ops))
		for i := range ms {
			ms[i] = c16Mode{Ctx: 'b', Deco: '-'}
		}
		return ms, true
	}
	return nil, false
}

func c16SetModes(t *hTx, ms []c16Mode) {
	var sb strings.Builder
	for _, m := range ms {
		sb.WriteByte(m.Ctx)
		if m.Swallow {
			sb.WriteByte('w')
		} else {
			sb.WriteByte('-')
		}
		sb.WriteByte(m.Deco)
	}
	var vs []hVeto
	for _, v := range t.Vetoes {
		if v.Store != c16ModeStore && v.Store != "@batch" {
			vs = append(vs, v)
		}
	}
	t.Vetoes = append(vs, hVeto{Store: c16ModeStore, Change: "C", Id: sb.String()})
}

// ---- execution ------------------------------------------------------------------------------------------

var (
	c16MigCreated = time.Date(2001, 2, 3, 4, 5, 6, 0, time.UTC)
	c16MigUpdated = time.Date(2002, 3, 4, 5, 6, 7, 0, time.UTC)
)

func (h *harnessDb) c16Entity(tx *bbolt.Tx, op *hOp, m c16Mode) *gEnt {
	e := h.entityFor(op)
	if m.Deco == 'l' || m.Deco == 'e' {
		h.c16w3LinkIds(tx, op, e, m.Deco == 'l') // store_c16w3.go: linked ids for the strategy's SetLinkedIds
	}
	if m.Deco == 'm' || m.Deco == 'x' {
		e.Migrate = true
		e.CreatedAt = c16MigCreated
		e.UpdatedAt = c16MigUpdated
	}
	if m.Deco == 't' || m.Deco == 'x' {
		e.Tags = map[string]interface{}{"k": "v", "n": nil, "i": int64(7)}
	}
	return e
}

func (h *harnessDb) c16ExecOp(ctx boltz.MutateContext, op *hOp, m c16Mode) error {
	gs := h.stores[op.Store]
	switch op.Kind {
	case "C":
		return gs.Create(ctx, h.c16Entity(ctx.Tx(), op, m))
	case "UP":
		var chk boltz.FieldChecker
		if op.HasChk {
			mc := boltz.MapFieldChecker{}
			for _, f := range op.Checker {
				mc[f] = struct{}{}
			}
			chk = mc
		}
		return gs.Update(ctx, h.c16Entity(ctx.Tx(), op, m), chk)
	}
	return h.execOp(ctx, op)
}

func (h *harnessDb) c16RootHasSys(root string) bool {
	if d := h.w.store(root); d != nil {
		for _, c := range d.Cons {
			if c.Kind == "SY" {
				return true
			}
		}
	}
	return false
}

// c16StoredSys reads the stored flag of <root>/<id> below the store API, in the open transaction
func c16StoredSys(tx *bbolt.Tx, root, id string) bool {
	top := tx.Bucket([]byte("stores"))
	if top == nil {
		return false
	}
	sb := top.Bucket([]byte(root))
	if sb == nil || id == "" {
		return false
	}
	eb := sb.Bucket([]byte(id))
	if eb == nil {
		return false
	}
	return fieldValStr(eb.Get([]byte(boltz.FieldIsSystemEntity))) == "b1"
}

func c16PathPart(k []byte) string {
	plain := len(k) > 0
	for _, c := range k {
		if !(c >= 'a' && c <= 'z' || c >= 'A' && c <= 'Z' || c >= '0' && c <= '9' || c == '_' || c == '.' || c == '-') {
			plain = false
		}
	}
	if plain {
		return string(k)
	}
	return "x" + hx(k)
}

// c16Dump: every bucket and every key/value of the open transaction
func c16Dump(tx *bbolt.Tx) map[string]string {
	out := map[string]string{}
	var walk func(prefix string, b *bbolt.Bucket)
	walk = func(prefix string, b *bbolt.Bucket) {
		_ = b.ForEach(func(k, v []byte) error {
			p := prefix + "/" + c16PathPart(k)
			if v == nil {
				if sub := b.Bucket(k); sub != nil {
					out[p] = "B"
					walk(p, sub)
					return nil
				}
			}
			out[p] = "v" + hx(v)
			return nil
		})
	}
	_ = tx.ForEach(func(name []byte, b *bbolt.Bucket) error {
		p := c16PathPart(name)
		out[p] = "B"
		walk(p, b)
		return nil
	})
	return out
}

func c16DumpDiff(a, b map[string]string) []string {
	var d []string
	for p, v := range a {
		if w, ok := b[p]; !ok {
			d = append(d, "-"+p)
		} else if w != v {
			d = append(d, "~"+p)
		}
	}
	for p := range b {
		if _, ok := a[p]; !ok {
			d = append(d, "+"+p)
		}
	}
	sort.Strings(d)
	return d
}

// c16Loaded: canonical text of the entity LoadById returns through the store ("" = not loadable)
func (h *harnessDb) c16Loaded(tx *bbolt.Tx, store, id string) string {
	gs := h.stores[store]
	if gs == nil || id == "" {
		return ""
	}
	e, err := gs.LoadById(tx, id)
	if err != nil || e == nil {
		return ""
	}
	var parts []string
	for k, v := range e.F {
		if v == nil {
			parts = append(parts, "F."+k+"=nil")
		} else {
			parts = append(parts, "F."+k+"=s"+hxs(*v))
		}
	}
	for k, l := range e.S {
		ms := append([]string{}, l...)
		sort.Strings(ms)
		parts = append(parts, "S."+k+"="+hxs(strings.Join(ms, "\x00")))
	}
	for k, v := range e.Tags {
		parts = append(parts, "T."+k+"="+hxs(fmt.Sprintf("%T %v", v, v)))
	}
	parts = append(parts, "sys="+b01(e.IsSystem), "c="+e.CreatedAt.UTC().Format(time.RFC3339Nano), "u="+e.UpdatedAt.UTC().Format(time.RFC3339Nano))
	sort.Strings(parts)
	return strings.Join(parts, ";")
}

// c16RunTx = runTx with per-operation context objects, decorations and the "caller ignores the refusal" body
func (h *harnessDb) c16RunTx(t *hTx, modes []c16Mode) string {
	h.mu.Lock()
	h.vetoes = map[string]bool{}
	for _, v := range t.Vetoes {
		h.vetoes[v.Store+"/"+v.Change+"/"+v.Id] = true
	}
	h.events = nil
	h.raised = 0
	h.mu.Unlock()

	var results, extra []string
	// the entry point of the transaction (Db.Update unless the pseudo veto @ep names another one: store_c16w5.go)
	err := h.c16w5Enter(t, func(ctx boltz.MutateContext) error {
		results, extra = nil, nil
		for i := range t.Ops {
			op, m := &t.Ops[i], modes[i]
			root := op.Store
			if d := h.w.store(op.Store); d != nil && d.Parent != "" {
				root = d.Parent
			}
			if m.c16w9Deferred() {
				// the operation runs inside a pre-commit action, with the context the library hands to it (store_c16w9.go)
				h.c16w9Defer(ctx, t, i, m, &results)
				continue
			}
			opSys := m.isSys(t.Sys)
			swallowable := m.Swallow && !opSys && op.Kind == "UP" && h.c16RootHasSys(root) && c16StoredSys(ctx.Tx(), root, op.Id)
			var before map[string]string
			var loadedBefore string
			if swallowable {
				before = c16Dump(ctx.Tx())
				loadedBefore = h.c16Loaded(ctx.Tx(), op.Store, op.Id)
			}
			var e error
			switch m.Ctx {
			case 's':
				sys := ctx.GetSystemContext()
				e = h.c16ExecOp(sys, op, m)
			case 'n':
				sys := boltz.NewSystemMutateContext(ctx)
				e = h.c16ExecOp(sys, op, m)
			case 'u':
				e = h.db.Update(ctx.GetSystemContext(), func(c boltz.MutateContext) error { return h.c16ExecOp(c, op, m) })
			case 'x':
				e = h.c16ExecOp(boltz.NewTxMutateContext(context.Background(), ctx.Tx()), op, m)
			case 'y':
				e = h.c16ExecOp(boltz.NewTxMutateContext(context.Background(), ctx.Tx()).GetSystemContext(), op, m)
			default:
				e = h.c16ExecOp(ctx, op, m)
			}
			results = append(results, classify(e))
			if e == nil {
				// link counts on the entity just written (store_c16w7.go; set-up through the tx-level link API)
				if re := h.c16w7Seed(ctx.Tx(), op, c16w7CountOf(t, i)); re != nil {
					panic(re)
				}
			}
			if e != nil {
				if !swallowable {
					return e
				}
				d := c16DumpDiff(before, c16Dump(ctx.Tx()))
				shown := d
				if len(shown) > 6 {
					shown = shown[:6]
				}
				extra = append(extra, fmt.Sprintf("NW:%d:%d:%s", i, len(d), strings.Join(shown, ",")))
				rb := "same"
				if h.c16Loaded(ctx.Tx(), op.Store, op.Id) != loadedBefore {
					rb = "diff"
				}
				extra = append(extra, fmt.Sprintf("RB:%d:%s", i, rb))
			}
		}
		return nil
	})
	var sb strings.Builder
	sb.WriteString("TX R")
	for _, r := range results {
		sb.WriteString(" " + r)
	}
	if err == nil {
		sb.WriteString(" COMMIT")
	} else {
		sb.WriteString(" ROLLBACK")
	}
	h.mu.Lock()
	evs := append([]string{}, h.events...)
	if h.raised > 0 {
		sb.WriteString(" VETOED")
	}
	h.mu.Unlock()
	sort.Strings(evs)
	for _, e := range evs {
		sb.WriteString(" " + e)
	}
	for _, x := range extra {
		sb.WriteString(" " + x)
	}
	sb.WriteString(h.reads())
	sb.WriteString(" ST")
	for _, f := range h.facts() {
		sb.WriteString(" " + f)
	}
	sb.WriteString(" | ")
	return sb.String()
}

// ---- generator: turn a generated transaction into a mixed one ----------------------------------------------

func (g *xGen) c16SysFamilies() []string {
	var fam []string
	for _, s := range g.w.Stores {
		if s.Parent != "" {
			continue
		}
		for _, c := range s.Cons {
			if c.Kind == "SY" {
				fam = append(fam, s.Name)
				break
			}
		}
	}
	return fam
}

func (g *xGen) c16SysAlive(root string) []string {
	var xs []string
	for _, id := range g.ids {
		if g.snap.alive[root][id] && g.snap.sys[root][id] {
			xs = append(xs, id)
		}
	}
	return xs
}

// c16StoreFor: the root store or (40%) a child store of the family, preferring one that holds child data of id
func (g *xGen) c16StoreFor(root, id string) string {
	if g.r.chance(40) {
		var cs, with []string
		for _, s := range g.w.Stores {
			if s.Parent == root {
				cs = append(cs, s.Name)
				if g.snap.child[s.Name][id] {
					with = append(with, s.Name)
				}
			}
		}
		if len(with) > 0 && g.r.chance(80) {
			return with[g.r.intn(len(with))]
		}
		if len(cs) > 0 {
			return cs[g.r.intn(len(cs))]
		}
	}
	return root
}

func (g *xGen) c16FreeId(root string) string {
	id := g.ids[g.r.intn(len(g.ids))]
	for try := 0; try < 8 && g.snap.alive[root][id]; try++ {
		id = g.ids[g.r.intn(len(g.ids))]
	}
	return id
}

func (g *xGen) c16Update(store, id string) hOp {
	op := hOp{Kind: "UP", Store: store, Id: id}
	g.fieldsValueX(&op)
	if g.r.chance(35) {
		op.HasChk = true
		fields, sets := g.w.allFields(store)
		for _, f := range fields {
			if g.r.chance(60) {
				op.Checker = append(op.Checker, f.Name)
			}
		}
		for _, sn := range sets {
			if g.r.chance(60) {
				op.Checker = append(op.Checker, sn)
			}
		}
	}
	return op
}

func c16Insert(t *hTx, ms []c16Mode, pos int, op hOp, m c16Mode) []c16Mode {
	ops := append([]hOp{}, t.Ops[:pos]...)
	ops = append(ops, op)
	t.Ops = append(ops, t.Ops[pos:]...)
	out := append([]c16Mode{}, ms[:pos]...)
	out = append(out, m)
	return append(out, ms[pos:]...)
}

var c16Derived = []byte{'s', 's', 'n', 'u', 's', 'n', 'u', 'y'}

// c16Mix rewrites a generated transaction into a mixed one; returns the scenario name
func (g *xGen) c16Mix(t *hTx) string {
	fams := g.c16SysFamilies()
	if len(fams) == 0 {
		return ""
	}
	root := fams[g.r.intn(len(fams))]
	ms := make([]c16Mode, len(t.Ops))
	for i := range ms {
		ms[i] = c16Mode{Ctx: 'b', Deco: '-'}
	}
	derivedMode := func() c16Mode { return c16Mode{Ctx: c16Derived[g.r.intn(len(c16Derived))], Deco: '-'} }
	sprinkle := func(pDerived, pDeco int) {
		for i := range ms {
			if g.r.chance(pDerived) {
				ms[i].Ctx = c16Derived[g.r.intn(len(c16Derived))]
			}
			if (t.Ops[i].Kind == "C" || t.Ops[i].Kind == "UP") && g.r.chance(pDeco) {
				ms[i].Deco = []byte{'m', 't', 'x'}[g.r.intn(3)]
			}
		}
	}
	scenario := ""
	k := g.r.intn(100)
	switch {
	case k < 38:
		// context reuse: an operation through a system context DERIVED from the base context, later an operation on a
		// system entity through the base (ordinary) context object itself
		scenario = "reuse"
		t.Sys = false
		sprinkle(35, 10)
		sysIds := g.c16SysAlive(root)
		var first, second hOp
		fm := derivedMode()
		if len(sysIds) > 0 && g.r.chance(70) {
			id := sysIds[g.r.intn(len(sysIds))]
			switch {
			case g.r.chance(55):
				first = g.c16Update(g.c16StoreFor(root, id), id)
			case g.r.chance(50):
				// an unrelated operation through the derived context
				nid := g.c16FreeId(root)
				first = hOp{Kind: "C", Store: root, Id: nid, Sys: g.r.chance(50)}
				g.fieldsValueX(&first)
			default:
				first = g.c16Update(g.c16StoreFor(root, id), id)
				if other := sysIds[g.r.intn(len(sysIds))]; other != id {
					first = g.c16Update(g.c16StoreFor(root, other), other)
				}
			}
			switch {
			case g.r.chance(50):
				second = g.c16Update(g.c16StoreFor(root, id), id)
			case g.r.chance(60):
				second = hOp{Kind: "D", Store: g.c16StoreFor(root, id), Id: id}
			default:
				second = hOp{Kind: "C", Store: root, Id: g.c16FreeId(root), Sys: true}
				g.fieldsValueX(&second)
			}
		} else {
			// no system entity yet: create one through the derived context, then touch it through the base context
			id := g.c16FreeId(root)
			first = hOp{Kind: "C", Store: g.c16StoreFor(root, id), Id: id, Sys: true}
			g.fieldsValueX(&first)
			if g.r.chance(60) {
				second = g.c16Update(root, id)
			} else {
				second = hOp{Kind: "D", Store: root, Id: id}
			}
		}
		p1 := g.r.intn(len(t.Ops) + 1)
		if g.r.chance(50) {
			p1 = 0
		}
		ms = c16Insert(t, ms, p1, first, fm)
		p2 := p1 + 1 + g.r.intn(len(t.Ops)-p1)
		sm := c16Mode{Ctx: 'b', Deco: '-'}
		if g.r.chance(12) {
			sm.Ctx = 'x'
			t.Sys = g.r.chance(50) // a fresh ordinary context on the transaction of a system context stays ordinary
		}
		if second.Kind == "UP" && g.r.chance(25) {
			sm.Swallow = true
		}
		ms = c16Insert(t, ms, p2, second, sm)
	case k < 72:
		// the caller ignores the refusal of an update of a system entity, goes on and commits
		scenario = "swallow"
		t.Sys = false
		t.PreCommitErr = false
		sprinkle(12, 12)
		sysIds := g.c16SysAlive(root)
		pos := g.r.intn(len(t.Ops) + 1)
		if len(sysIds) == 0 {
			id := g.c16FreeId(root)
			c := hOp{Kind: "C", Store: g.c16StoreFor(root, id), Id: id, Sys: true}
			g.fieldsValueX(&c)
			ms = c16Insert(t, ms, 0, c, derivedMode())
			sysIds = []string{id}
			pos = 1 + g.r.intn(len(t.Ops))
		}
		id := sysIds[g.r.intn(len(sysIds))]
		up := g.c16Update(g.c16StoreFor(root, id), id)
		um := c16Mode{Ctx: 'b', Swallow: true, Deco: '-'}
		if g.r.chance(30) {
			um.Deco = []byte{'m', 't', 'x'}[g.r.intn(3)]
		}
		if g.r.chance(15) {
			// the refused update runs through a fresh ordinary context on the transaction of a system context
			um.Ctx = 'x'
			t.Sys = g.r.chance(60)
		}
		ms = c16Insert(t, ms, pos, up, um)
		if g.r.chance(30) {
			// read-your-refusal twice: a second refused update of the same entity in the same transaction
			up2 := g.c16Update(g.c16StoreFor(root, id), id)
			ms = c16Insert(t, ms, pos+1+g.r.intn(len(t.Ops)-pos), up2, c16Mode{Ctx: 'b', Swallow: true, Deco: '-'})
		}
		for i := range ms {
			if !ms[i].Swallow && g.r.chance(10) {
				ms[i].Swallow = true // only takes effect for a refused update of a system entity
			}
		}
	default:
		// decorated entities: Migrate (+ explicit timestamps) and tags, with and without the system flag, any context
		scenario = "migrate"
		sprinkle(20, 75)
		if g.r.chance(70) {
			id := g.c16FreeId(root)
			c := hOp{Kind: "C", Store: g.c16StoreFor(root, id), Id: id, Sys: g.r.chance(65)}
			g.fieldsValueX(&c)
			cm := c16Mode{Ctx: 'b', Deco: []byte{'m', 'm', 'x'}[g.r.intn(3)]}
			if !t.Sys && c.Sys && g.r.chance(75) {
				cm.Ctx = c16Derived[g.r.intn(len(c16Derived))]
			}
			pos := g.r.intn(len(t.Ops) + 1)
			ms = c16Insert(t, ms, pos, c, cm)
			if g.r.chance(45) {
				// ... and an ordinary-context operation on it in the same transaction
				var nx hOp
				if g.r.chance(60) {
					nx = g.c16Update(root, id)
				} else {
					nx = hOp{Kind: "D", Store: root, Id: id}
				}
				ms = c16Insert(t, ms, pos+1+g.r.intn(len(t.Ops)-pos), nx, c16Mode{Ctx: 'b', Deco: '-'})
			}
		}
	}
	g.c16w3Decorate(t, ms) // linked ids for strategies that use SetLinkedIds (store_c16w3.go)
	c16SetModes(t, ms)
	return scenario
}
