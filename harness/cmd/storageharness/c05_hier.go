package main

import (
	"fmt"
	"strconv"
	"strings"

	"github.com/openziti/storage/ast"
	"github.com/openziti/storage/boltz"
	"go.etcd.io/bbolt"
)

// C05 - link collections and ref-counted link collections owned by the stores of a parent / child
// hierarchy (model: coq/theories/Links/HierMachine.v).
//
// Each side (A, B) is a family of real bolt stores: a root store and child stores
// (StoreDefinition.Parent = the root, plain or Extended()).  A topology lists collection pairs; pair p
// joins the store of level lvA of family A with the store of level lvB of family B by a link collection
// and a ref-counted link collection declared on both stores (level 0 = root, k = k-th child).
//
// Case lines:
//   T <nkA> <ext>.. <nkB> <ext>.. <np> { <lvA> <lvB> }.. <nA> <idA>.. <nB> <idB>.. <ntx> { <nops> <op>.. }..
//   op := C <lv> sd x | D <lv> sd x      create / DeleteById through the store of that level
//       | <kind> <pair> sd a ...         the link / count operations of c05.go on the collections of a pair
// Observation: per transaction  <verdict> <presence> | <dump pair 0> | <dump pair 1> ..  where presence
// prints, for side A then B, per universe id one digit per store level (IsEntityPresent of that store),
// and the dump of a pair is the dump of c05.go taken through the two stores of the pair.

type c05HTopo struct {
	kids  [2][]bool // child stores of each root; true = Extended()
	pairs [][2]int
}

func (t c05HTopo) text() string {
	var b strings.Builder
	for sd := 0; sd < 2; sd++ {
		if sd == 1 {
			b.WriteString(" ")
		}
		fmt.Fprintf(&b, "%d", len(t.kids[sd]))
		for _, e := range t.kids[sd] {
			if e {
				b.WriteString(" 1")
			} else {
				b.WriteString(" 0")
			}
		}
	}
	fmt.Fprintf(&b, " %d", len(t.pairs))
	for _, p := range t.pairs {
		fmt.Fprintf(&b, " %d %d", p[0], p[1])
	}
	return b.String()
}

func c05HParseTopo(t *c05Tokens) c05HTopo {
	var tp c05HTopo
	for sd := 0; sd < 2; sd++ {
		n := t.int()
		for i := 0; i < n; i++ {
			tp.kids[sd] = append(tp.kids[sd], t.next() == "1")
		}
	}
	n := t.int()
	for i := 0; i < n; i++ {
		a := t.int()
		b := t.int()
		if a < 0 || a > len(tp.kids[0]) || b < 0 || b > len(tp.kids[1]) {
			panic("c05: pair level out of range")
		}
		tp.pairs = append(tp.pairs, [2]int{a, b})
	}
	return tp
}

// storePairs: the pairs whose collections of side sd are registered on the store of level k
func (t c05HTopo) storePairs(sd, k int) []int {
	var out []int
	for p, pr := range t.pairs {
		if pr[sd] == k {
			out = append(out, p)
		}
	}
	return out
}

type c05HOp struct {
	w int // store level for C / D, pair index otherwise
	c05Op
}

func (op c05HOp) String() string {
	s := op.c05Op.String()
	i := strings.Index(s, " ")
	return s[:i] + " " + strconv.Itoa(op.w) + s[i:]
}

func (t *c05Tokens) hop() c05HOp {
	kind := t.next()
	w := t.int()
	// re-read "<kind> <sd> .." with the parser of the flat operations
	t.i--
	t.t[t.i] = kind
	return c05HOp{w: w, c05Op: t.op()}
}

type c05HWorld struct {
	db    boltz.Db
	base  string
	topo  c05HTopo
	level [2][]*c05Store // the stores of each family, root first
	cell  []*c05World    // per pair: its two stores with its field names and collections
	uni   [2][]string
}

func c05HNewChild(parent *c05Store, name string, ext bool) *c05Store {
	typ := parent.typ
	def := boltz.StoreDefinition[*c05Ent]{
		EntityStrategy: c05Strategy{typ: typ},
		EntityNotFoundF: func(id string) error {
			return boltz.NewNotFoundError(typ, "id", id)
		},
		BasePath:     []string{name},
		Parent:       parent,
		ParentMapper: func(e boltz.Entity) boltz.Entity { return e },
	}
	st := &c05Store{BaseStore: boltz.NewBaseStore(def), typ: typ, basePath: parent.basePath, sub: []string{name}}
	if ext {
		st.Extended()
	}
	st.InitImpl(st)
	parent.RegisterChildStoreStrategy(&boltz.ChildStoreUpdateHandler[*c05Ent, *c05Ent]{
		Store: st,
		Mapper: func(ctx boltz.MutateContext, e *c05Ent) (*c05Ent, bool) {
			if st.IsEntityPresent(ctx.Tx(), e.Id) {
				return e, true
			}
			return nil, false
		},
	})
	return st
}

func c05HNewWorld(db boltz.Db, base string, topo c05HTopo, uA, uB []string) *c05HWorld {
	w := &c05HWorld{db: db, base: base, topo: topo, uni: [2][]string{uA, uB}}
	for sd, typ := range []string{"as", "bs"} {
		root := c05NewStore(base, typ, "", "")
		root.AddIdSymbol("id", ast.NodeTypeString)
		w.level[sd] = append(w.level[sd], root)
		for k, ext := range topo.kids[sd] {
			child := c05HNewChild(root, fmt.Sprintf("k%d", k+1), ext)
			root.GrantSymbols(child)
			w.level[sd] = append(w.level[sd], child)
		}
	}
	for p, pr := range topo.pairs {
		la, lb := w.level[0][pr[0]], w.level[1][pr[1]]
		a := &c05Store{BaseStore: la.BaseStore, typ: la.typ, field: fmt.Sprintf("l%db", p), rcField: fmt.Sprintf("r%db", p), basePath: la.basePath, sub: la.sub}
		b := &c05Store{BaseStore: lb.BaseStore, typ: lb.typ, field: fmt.Sprintf("l%da", p), rcField: fmt.Sprintf("r%da", p), basePath: lb.basePath, sub: lb.sub}
		a.linkSym = a.AddFkSetSymbol(a.field, b)
		b.linkSym = b.AddFkSetSymbol(b.field, a)
		a.rcSym = a.AddFkSetSymbol(a.rcField, b)
		b.rcSym = b.AddFkSetSymbol(b.rcField, a)
		a.links = a.AddLinkCollection(a.linkSym, b.linkSym)
		b.links = b.AddLinkCollection(b.linkSym, a.linkSym)
		a.rcLinks = a.AddRefCountedLinkCollection(a.rcSym, b.rcSym)
		b.rcLinks = b.AddRefCountedLinkCollection(b.rcSym, a.rcSym)
		w.cell = append(w.cell, &c05World{db: db, base: base, store: [2]*c05Store{a, b}, uni: w.uni})
	}
	return w
}

func (w *c05HWorld) apply(ctx boltz.MutateContext, op c05HOp) (err error) {
	defer func() {
		if r := recover(); r != nil {
			err = fmt.Errorf("panic: %v", r)
		}
	}()
	switch op.kind {
	case "C", "D":
		if op.w < 0 || op.w >= len(w.level[op.sd]) {
			return fmt.Errorf("no store of level %d", op.w)
		}
		st := w.level[op.sd][op.w]
		if op.kind == "C" {
			return st.Create(ctx, &c05Ent{Id: op.a, typ: st.typ})
		}
		return st.DeleteById(ctx, op.a)
	}
	if op.w < 0 || op.w >= len(w.cell) {
		return fmt.Errorf("no pair %d", op.w)
	}
	return w.cell[op.w].apply(ctx, op.c05Op)
}

func (w *c05HWorld) runTx(ops []c05HOp) string {
	failed := -1
	err := w.db.Update(nil, func(ctx boltz.MutateContext) error {
		for i, op := range ops {
			if e := w.apply(ctx, op); e != nil {
				failed = i
				return e
			}
		}
		return nil
	})
	if failed >= 0 {
		return fmt.Sprintf("f%d", failed)
	}
	if err != nil {
		return "commit-error"
	}
	return "ok"
}

func (w *c05HWorld) dump(tx *bbolt.Tx) string {
	var sb strings.Builder
	for sd := 0; sd < 2; sd++ {
		if sd == 1 {
			sb.WriteString(" /")
		}
		for _, x := range w.uni[sd] {
			sb.WriteString(" ")
			for _, st := range w.level[sd] {
				if st.IsEntityPresent(tx, x) {
					sb.WriteString("1")
				} else {
					sb.WriteString("0")
				}
			}
		}
	}
	parts := []string{strings.TrimSpace(sb.String())}
	for _, c := range w.cell {
		parts = append(parts, c.dump(tx))
	}
	return strings.Join(parts, " | ")
}

func (w *c05HWorld) observe() string {
	var out string
	err := w.db.View(func(tx *bbolt.Tx) error {
		defer func() {
			if r := recover(); r != nil {
				out = fmt.Sprintf("observer-panic:%v", strings.ReplaceAll(fmt.Sprint(r), " ", "_"))
			}
		}()
		out = w.dump(tx)
		return nil
	})
	if err != nil {
		return "view-error"
	}
	return out
}

func (w *c05HWorld) drop() {
	_ = w.db.Update(nil, func(ctx boltz.MutateContext) error {
		if ctx.Tx().Bucket([]byte(w.base)) != nil {
			return ctx.Tx().DeleteBucket([]byte(w.base))
		}
		return nil
	})
}

func (r *c05Runner) runHier(t *c05Tokens) string {
	topo := c05HParseTopo(t)
	uA := t.ids()
	uB := t.ids()
	w := c05HNewWorld(r.db, r.freshBase(), topo, uA, uB)
	defer w.drop()
	ntx := t.int()
	var blocks []string
	for i := 0; i < ntx; i++ {
		nops := t.int()
		ops := make([]c05HOp, 0, nops)
		for j := 0; j < nops; j++ {
			ops = append(ops, t.hop())
		}
		verdict := w.runTx(ops)
		blocks = append(blocks, verdict+" "+w.observe())
	}
	return strings.Join(blocks, " ; ")
}

func c05HHistoryText(topo c05HTopo, uA, uB []string, txs [][]c05HOp) string {
	var b strings.Builder
	b.WriteString("T " + topo.text() + " " + c05UniText(uA, uB))
	fmt.Fprintf(&b, " %d", len(txs))
	for _, tx := range txs {
		fmt.Fprintf(&b, " %d", len(tx))
		for _, op := range tx {
			b.WriteString(" " + op.String())
		}
	}
	return b.String()
}

// ---- generator ----------------------------------------------------------------------------------

// the shapes every run covers: collections on a plain / extended child of either side, on children of
// both sides, on root and child at once, several children per root, a child without collections
var c05HFixedTopos = []c05HTopo{
	{kids: [2][]bool{{false}, nil}, pairs: [][2]int{{1, 0}}},
	{kids: [2][]bool{{true}, nil}, pairs: [][2]int{{1, 0}}},
	{kids: [2][]bool{nil, {false}}, pairs: [][2]int{{0, 1}}},
	{kids: [2][]bool{{false}, {true}}, pairs: [][2]int{{1, 1}}},
	{kids: [2][]bool{{false}, nil}, pairs: [][2]int{{0, 0}, {1, 0}}},
	{kids: [2][]bool{{false, true}, nil}, pairs: [][2]int{{1, 0}, {2, 0}, {0, 0}}},
	{kids: [2][]bool{{false, false}, {false}}, pairs: [][2]int{{1, 1}, {2, 1}}},
	{kids: [2][]bool{{false}, nil}, pairs: [][2]int{{0, 0}}},
	{kids: [2][]bool{nil, {true, false}}, pairs: [][2]int{{0, 2}, {0, 0}}},
	{kids: [2][]bool{{true}, {false, false}}, pairs: [][2]int{{1, 2}, {0, 1}, {1, 0}}},
}

type c05HGen struct {
	r     *rng
	topo  c05HTopo
	uni   [2][]string
	pres  [2][]map[string]bool // per side, per level
	stats map[string]int
}

func c05HCopyPres(p [2][]map[string]bool) [2][]map[string]bool {
	var q [2][]map[string]bool
	for sd := 0; sd < 2; sd++ {
		for _, m := range p[sd] {
			c := map[string]bool{}
			for k, v := range m {
				c[k] = v
			}
			q[sd] = append(q[sd], c)
		}
	}
	return q
}

func (g *c05HGen) randomTopo() c05HTopo {
	r := g.r
	var t c05HTopo
	for sd := 0; sd < 2; sd++ {
		n := r.intn(3)
		for i := 0; i < n; i++ {
			t.kids[sd] = append(t.kids[sd], r.chance(35))
		}
	}
	np := 1 + r.intn(3)
	for i := 0; i < np; i++ {
		t.pairs = append(t.pairs, [2]int{r.intn(len(t.kids[0]) + 1), r.intn(len(t.kids[1]) + 1)})
	}
	return t
}

// extBlocked: an Extended child store that owns a collection has no data for x (the delete is refused)
func (g *c05HGen) extBlocked(pres [2][]map[string]bool, sd int, x string) bool {
	for k, ext := range g.topo.kids[sd] {
		if ext && !pres[sd][k+1][x] && len(g.topo.storePairs(sd, k+1)) > 0 {
			return true
		}
	}
	return false
}

func (g *c05HGen) cellPresence(pres [2][]map[string]bool, p int) [2]map[string]bool {
	pr := g.topo.pairs[p]
	return [2]map[string]bool{pres[0][pr[0]], pres[1][pr[1]]}
}

func (g *c05HGen) fails(op c05HOp, pres [2][]map[string]bool) bool {
	switch op.kind {
	case "C":
		return pres[op.sd][0][op.a]
	case "D":
		return !pres[op.sd][0][op.a] || g.extBlocked(pres, op.sd, op.a)
	}
	flat := &c05Gen{}
	return flat.fails(op.c05Op, g.cellPresence(pres, op.w))
}

func (g *c05HGen) pickLevel(sd int) int {
	n := len(g.topo.kids[sd])
	if n == 0 || g.r.chance(35) {
		return 0
	}
	return 1 + g.r.intn(n)
}

func (g *c05HGen) genOp(pres [2][]map[string]bool) c05HOp {
	r := g.r
	w := r.intn(100)
	switch {
	case w < 10:
		sd := r.intn(2)
		var cands []string
		for _, x := range g.uni[sd] {
			if !pres[sd][0][x] {
				cands = append(cands, x)
			}
		}
		x := r.pick(g.uni[sd])
		if len(cands) > 0 && r.chance(92) {
			x = r.pick(cands)
		}
		return c05HOp{w: g.pickLevel(sd), c05Op: c05Op{kind: "C", sd: sd, a: x}}
	case w < 23:
		sd := r.intn(2)
		var cands []string
		for _, x := range g.uni[sd] {
			if pres[sd][0][x] {
				cands = append(cands, x)
			}
		}
		x := r.pick(g.uni[sd])
		if len(cands) > 0 && r.chance(92) {
			x = r.pick(cands)
		}
		// through any store of the family, also one the entity was not created through
		return c05HOp{w: r.intn(len(g.topo.kids[sd]) + 1), c05Op: c05Op{kind: "D", sd: sd, a: x}}
	}
	p := r.intn(len(g.topo.pairs))
	flat := &c05Gen{r: r, uni: g.uni, ghost: [2]map[string]bool{{}, {}}, present: g.cellPresence(pres, p), stats: g.stats}
	for {
		op := flat.genOp()
		if op.kind != "C" && op.kind != "D" {
			return c05HOp{w: p, c05Op: op}
		}
	}
}

// scenario: link / count on a pair, then delete one end through any store of its family
func (g *c05HGen) scenario(pres [2][]map[string]bool) []c05HOp {
	r := g.r
	p := r.intn(len(g.topo.pairs))
	cp := g.cellPresence(pres, p)
	sd := r.intn(2)
	var in, peers []string
	for _, x := range g.uni[sd] {
		if cp[sd][x] {
			in = append(in, x)
		}
	}
	for _, x := range g.uni[1-sd] {
		if cp[1-sd][x] {
			peers = append(peers, x)
		}
	}
	if len(in) == 0 || len(peers) == 0 {
		return nil
	}
	a, b := r.pick(in), r.pick(peers)
	ops := []c05HOp{{w: p, c05Op: c05Op{kind: "AL", sd: sd, a: a, keys: []string{b}}}}
	switch r.intn(3) {
	case 0:
		ops = append(ops, c05HOp{w: p, c05Op: c05Op{kind: "I", sd: sd, a: a, keys: []string{b}}})
	case 1:
		ops = append(ops, c05HOp{w: p, c05Op: c05Op{kind: "SC", sd: 1 - sd, a: b, keys: []string{a}, count: 2}})
	}
	dsd, dx := sd, a
	if r.chance(35) {
		dsd, dx = 1-sd, b
	}
	return append(ops, c05HOp{w: r.intn(len(g.topo.kids[dsd]) + 1), c05Op: c05Op{kind: "D", sd: dsd, a: dx}})
}

func (g *c05HGen) genCase(i int) (string, [][]c05HOp) {
	r := g.r
	if r.chance(65) {
		g.topo = c05HFixedTopos[i%len(c05HFixedTopos)]
	} else {
		g.topo = g.randomTopo()
	}
	g.uni = [2][]string{c05PickUniverse(r, 1+r.intn(4)), c05PickUniverse(r, 1+r.intn(4))}
	g.pres = [2][]map[string]bool{}
	for sd := 0; sd < 2; sd++ {
		for k := 0; k <= len(g.topo.kids[sd]); k++ {
			g.pres[sd] = append(g.pres[sd], map[string]bool{})
		}
	}
	total := 2 + r.intn(28)
	var txs [][]c05HOp
	if r.chance(85) {
		var tx []c05HOp
		for sd := 0; sd < 2; sd++ {
			for _, x := range g.uni[sd] {
				if r.chance(85) {
					lv := g.pickLevel(sd)
					tx = append(tx, c05HOp{w: lv, c05Op: c05Op{kind: "C", sd: sd, a: x}})
					g.pres[sd][0][x] = true
					g.pres[sd][lv][x] = true
					total--
				}
			}
		}
		if len(tx) > 0 {
			txs = append(txs, tx)
		}
	}
	for total > 0 {
		n := 1 + r.intn(5)
		allowFail := r.chance(18)
		pres := c05HCopyPres(g.pres)
		var script []c05HOp
		if r.chance(18) {
			if script = g.scenario(pres); len(script) > 0 {
				n = len(script)
				g.stats["hier_scenario_tx"]++
			}
		}
		var tx []c05HOp
		failed := false
		for j := 0; j < n; j++ {
			var op c05HOp
			if script != nil {
				op = script[j]
			} else {
				for try := 0; try < 8; try++ {
					op = g.genOp(pres)
					if allowFail || !g.fails(op, pres) {
						break
					}
				}
			}
			tx = append(tx, op)
			g.stats["hier_op_"+op.kind]++
			if g.fails(op, pres) {
				failed = true
				break
			}
			switch op.kind {
			case "C":
				pres[op.sd][0][op.a] = true
				pres[op.sd][op.w][op.a] = true
			case "D":
				for _, m := range pres[op.sd] {
					m[op.a] = false
				}
				if op.w > 0 {
					g.stats["hier_delete_via_child"]++
				} else {
					g.stats["hier_delete_via_root"]++
				}
			}
		}
		total -= len(tx)
		if !failed {
			g.pres = pres
		}
		txs = append(txs, tx)
	}
	return c05HHistoryText(g.topo, g.uni[0], g.uni[1], txs), txs
}
