package main

import (
	"fmt"
	"strconv"
	"strings"

	"github.com/openziti/storage/ast"
	"github.com/openziti/storage/boltz"
	"go.etcd.io/bbolt"
)

// C05 - link collections and ref-counted link collections owned by the stores of a parent / child
// hierarchy (model: coq/theories/Links/HierMachine.v).
//
// Each side (A, B) is a family of real bolt stores: a root store and child stores
// (StoreDefinition.Parent = the root, plain or Extended()).  A topology lists collection pairs; pair p
// joins the store of level lvA of family A with the store of level lvB of family B by a link collection
// and a ref-counted link collection declared on both stores (level 0 = root, k = k-th child).
//
// Case lines:
//   T <nkA> <ext>.. <nkB> <ext>.. <np> { <lvA> <lvB> }.. <nA> <idA>.. <nB> <idB>.. <ntx> { <nops> <op>.. }..
//   op := C <lv> sd x | D <lv> sd x      create / DeleteById through the store of that level
//       | <kind> <pair> sd a ...         the link / count operations of c05.go on the collections of a pair
//   K ... like T with <np> { <lvA> <lvB> <kind> }.. : which collections the two stores of a pair register for it,
//       kind := b (AddLinkCollection and AddRefCountedLinkCollection) | l (link collection only)
//             | r (ref-counted only) | n (neither: only the fk set symbols exist)
//       and the additional op  DW <lv> sd - <all 0|1> <n> <id>..  = DeleteWhere through the store of that level
//       with the filter `true` (all = 1) or `id in [..]` / `id = ".."` (model: Links/HierWhere.v)
// Observation: per transaction  <verdict> <presence> | <dump pair 0> | <dump pair 1> ..  where presence
// prints, for side A then B, per universe id one digit per store level (IsEntityPresent of that store),
// and the dump of a pair is the dump of c05.go taken through the two stores of the pair.

type c05HTopo struct {
	kids  [2][]bool // child stores of each root; true = Extended()
	pairs [][2]int
	kinds []string // K cases: per pair "b" | "l" | "r" | "n"; nil = every pair registers both kinds (T cases)
}

func (t c05HTopo) hasPlain(p int) bool {
	return t.kinds == nil || t.kinds[p] == "b" || t.kinds[p] == "l"
}

func (t c05HTopo) hasRc(p int) bool {
	return t.kinds == nil || t.kinds[p] == "b" || t.kinds[p] == "r"
}

func (t c05HTopo) tag() string {
	if t.kinds != nil {
		return "K"
	}
	return "T"
}

// registered: is the collection this operation is a method of registered for the pair
func (t c05HTopo) registered(p int, kind string) bool {
	switch kind {
	case "I", "DC", "SC":
		return t.hasRc(p)
	}
	return t.hasPlain(p)
}

// owns: the store of level k of side sd has at least one collection (of either kind)
func (t c05HTopo) owns(sd, k int) bool {
	for _, p := range t.storePairs(sd, k) {
		if t.hasPlain(p) || t.hasRc(p) {
			return true
		}
	}
	return false
}

func (t c05HTopo) text() string {
	var b strings.Builder
	for sd := 0; sd < 2; sd++ {
		if sd == 1 {
			b.WriteString(" ")
		}
		fmt.Fprintf(&b, "%d", len(t.kids[sd]))
		for _, e := range t.kids[sd] {
			if e {
				b.WriteString(" 1")
			} else {
				b.WriteString(" 0")
			}
		}
	}
	fmt.Fprintf(&b, " %d", len(t.pairs))
	for i, p := range t.pairs {
		fmt.Fprintf(&b, " %d %d", p[0], p[1])
		if t.kinds != nil {
			b.WriteString(" " + t.kinds[i])
		}
	}
	return b.String()
}

func c05HParseTopo(t *c05Tokens, kinded bool) c05HTopo {
	var tp c05HTopo
	for sd := 0; sd < 2; sd++ {
		n := t.int()
		for i := 0; i < n; i++ {
			tp.kids[sd] = append(tp.kids[sd], t.next() == "1")
		}
	}
	n := t.int()
	for i := 0; i < n; i++ {
		a := t.int()
		b := t.int()
		if a < 0 || a > len(tp.kids[0]) || b < 0 || b > len(tp.kids[1]) {
			panic("c05: pair level out of range")
		}
		tp.pairs = append(tp.pairs, [2]int{a, b})
		if kinded {
			k := t.next()
			if k != "b" && k != "l" && k != "r" && k != "n" {
				panic("c05: bad pair kind " + k)
			}
			tp.kinds = append(tp.kinds, k)
		}
	}
	if kinded && tp.kinds == nil {
		tp.kinds = []string{}
	}
	return tp
}

// storePairs: the pairs whose collections of side sd are registered on the store of level k
func (t c05HTopo) storePairs(sd, k int) []int {
	var out []int
	for p, pr := range t.pairs {
		if pr[sd] == k {
			out = append(out, p)
		}
	}
	return out
}

type c05HOp struct {
	w int // store level for C / D, pair index otherwise
	c05Op
}

func (op c05HOp) String() string {
	s := op.c05Op.String()
	i := strings.Index(s, " ")
	return s[:i] + " " + strconv.Itoa(op.w) + s[i:]
}

func (t *c05Tokens) hop() c05HOp {
	kind := t.next()
	w := t.int()
	if kind == "DW" { // DW <lv> sd - <all> <n> <id>..
		op := c05Op{kind: kind, sd: t.side(), a: t.id()}
		op.count = int64(t.int())
		op.keys = t.ids()
		return c05HOp{w: w, c05Op: op}
	}
	if kind == "CS" || kind == "US" { // CS|US <lv> sd x <pair> <n> <id>..  (c05_strategy.go)
		op := c05Op{kind: kind, sd: t.side(), a: t.id()}
		op.count = int64(t.int())
		op.keys = t.ids()
		return c05HOp{w: w, c05Op: op}
	}
	// re-read "<kind> <sd> .." with the parser of the flat operations
	t.i--
	t.t[t.i] = kind
	return c05HOp{w: w, c05Op: t.op()}
}

type c05HWorld struct {
	db    boltz.Db
	base  string
	topo  c05HTopo
	level [2][]*c05Store // the stores of each family, root first
	cell  []*c05World    // per pair: its two stores with its field names and collections
	uni   [2][]string
}

func c05HNewChild(parent *c05Store, name string, ext bool) *c05Store {
	typ := parent.typ
	strat := &c05Strategy{typ: typ, parent: parent.strat}
	def := boltz.StoreDefinition[*c05Ent]{
		EntityStrategy: strat,
		EntityNotFoundF: func(id string) error {
			return boltz.NewNotFoundError(typ, "id", id)
		},
		BasePath:     []string{name},
		Parent:       parent,
		ParentMapper: func(e boltz.Entity) boltz.Entity { return e },
	}
	st := &c05Store{BaseStore: boltz.NewBaseStore(def), typ: typ, basePath: parent.basePath, sub: []string{name}, strat: strat}
	if ext {
		st.Extended()
	}
	st.InitImpl(st)
	parent.RegisterChildStoreStrategy(&boltz.ChildStoreUpdateHandler[*c05Ent, *c05Ent]{
		Store: st,
		Mapper: func(ctx boltz.MutateContext, e *c05Ent) (*c05Ent, bool) {
			if st.IsEntityPresent(ctx.Tx(), e.Id) {
				return e, true
			}
			return nil, false
		},
	})
	return st
}

func c05HNewWorld(db boltz.Db, base string, topo c05HTopo, uA, uB []string) *c05HWorld {
	w := &c05HWorld{db: db, base: base, topo: topo, uni: [2][]string{uA, uB}}
	for sd, typ := range []string{"as", "bs"} {
		root := c05NewStore(base, typ, "", "")
		root.AddIdSymbol("id", ast.NodeTypeString)
		w.level[sd] = append(w.level[sd], root)
		for k, ext := range topo.kids[sd] {
			child := c05HNewChild(root, fmt.Sprintf("k%d", k+1), ext)
			root.GrantSymbols(child)
			w.level[sd] = append(w.level[sd], child)
		}
	}
	for p, pr := range topo.pairs {
		la, lb := w.level[0][pr[0]], w.level[1][pr[1]]
		a := &c05Store{BaseStore: la.BaseStore, typ: la.typ, field: fmt.Sprintf("l%db", p), rcField: fmt.Sprintf("r%db", p), basePath: la.basePath, sub: la.sub}
		b := &c05Store{BaseStore: lb.BaseStore, typ: lb.typ, field: fmt.Sprintf("l%da", p), rcField: fmt.Sprintf("r%da", p), basePath: lb.basePath, sub: lb.sub}
		a.linkSym = a.AddFkSetSymbol(a.field, b)
		b.linkSym = b.AddFkSetSymbol(b.field, a)
		a.rcSym = a.AddFkSetSymbol(a.rcField, b)
		b.rcSym = b.AddFkSetSymbol(b.rcField, a)
		if topo.hasPlain(p) {
			a.links = a.AddLinkCollection(a.linkSym, b.linkSym)
			b.links = b.AddLinkCollection(b.linkSym, a.linkSym)
			la.strat.fields = append(la.strat.fields, a.field)
			lb.strat.fields = append(lb.strat.fields, b.field)
		}
		if topo.hasRc(p) {
			a.rcLinks = a.AddRefCountedLinkCollection(a.rcSym, b.rcSym)
			b.rcLinks = b.AddRefCountedLinkCollection(b.rcSym, a.rcSym)
		}
		w.cell = append(w.cell, &c05World{db: db, base: base, store: [2]*c05Store{a, b}, uni: w.uni})
	}
	return w
}

func (w *c05HWorld) apply(ctx boltz.MutateContext, op c05HOp) (err error) {
	defer func() {
		if r := recover(); r != nil {
			err = fmt.Errorf("panic: %v", r)
		}
	}()
	switch op.kind {
	case "C", "D":
		if op.w < 0 || op.w >= len(w.level[op.sd]) {
			return fmt.Errorf("no store of level %d", op.w)
		}
		st := w.level[op.sd][op.w]
		if op.kind == "C" {
			return st.Create(ctx, &c05Ent{Id: op.a, typ: st.typ})
		}
		return st.DeleteById(ctx, op.a)
	case "DW":
		if op.w < 0 || op.w >= len(w.level[op.sd]) {
			return fmt.Errorf("no store of level %d", op.w)
		}
		return w.level[op.sd][op.w].DeleteWhere(ctx, c05HWhereQuery(op.c05Op))
	case "CS", "US":
		return w.c05SApply(ctx, op)
	}
	if op.w < 0 || op.w >= len(w.cell) {
		return fmt.Errorf("no pair %d", op.w)
	}
	return w.cell[op.w].apply(ctx, op.c05Op)
}

// c05HQuotable: the id can be written as a string literal of the query language without escapes
func c05HQuotable(id string) bool {
	if id == "" {
		return false
	}
	for i := 0; i < len(id); i++ {
		if c := id[i]; c < 0x20 || c > 0x7e || c == '"' || c == '\\' {
			return false
		}
	}
	return true
}

// c05HWhereQuery: the filter of a DW op: `true`, `id = "x"` or `id in ["x", "y"]` (an empty list selects nothing)
func c05HWhereQuery(op c05Op) string {
	if op.count == 1 {
		return "true"
	}
	for _, k := range op.keys {
		if !c05HQuotable(k) {
			panic("c05: DeleteWhere filter names an id that cannot be quoted")
		}
	}
	switch len(op.keys) {
	case 0:
		return "false"
	case 1:
		return `id = "` + op.keys[0] + `"`
	}
	return `id in ["` + strings.Join(op.keys, `", "`) + `"]`
}

func (w *c05HWorld) runTx(ops []c05HOp) string {
	failed := -1
	err := w.db.Update(nil, func(ctx boltz.MutateContext) error {
		for i, op := range ops {
			if e := w.apply(ctx, op); e != nil {
				failed = i
				return e
			}
		}
		return nil
	})
	if failed >= 0 {
		return fmt.Sprintf("f%d", failed)
	}
	if err != nil {
		return "commit-error"
	}
	return "ok"
}

func (w *c05HWorld) dump(tx *bbolt.Tx) string {
	var sb strings.Builder
	for sd := 0; sd < 2; sd++ {
		if sd == 1 {
			sb.WriteString(" /")
		}
		for _, x := range w.uni[sd] {
			sb.WriteString(" ")
			for _, st := range w.level[sd] {
				if st.IsEntityPresent(tx, x) {
					sb.WriteString("1")
				} else {
					sb.WriteString("0")
				}
			}
		}
	}
	parts := []string{strings.TrimSpace(sb.String())}
	for _, c := range w.cell {
		parts = append(parts, c.dump(tx))
	}
	return strings.Join(parts, " | ")
}

func (w *c05HWorld) observe() string {
	var out string
	err := w.db.View(func(tx *bbolt.Tx) error {
		defer func() {
			if r := recover(); r != nil {
				out = fmt.Sprintf("observer-panic:%v", strings.ReplaceAll(fmt.Sprint(r), " ", "_"))
			}
		}()
		out = w.dump(tx)
		return nil
	})
	if err != nil {
		return "view-error"
	}
	return out
}

func (w *c05HWorld) drop() {
	_ = w.db.Update(nil, func(ctx boltz.MutateContext) error {
		if ctx.Tx().Bucket([]byte(w.base)) != nil {
			return ctx.Tx().DeleteBucket([]byte(w.base))
		}
		return nil
	})
}

func (r *c05Runner) runHier(t *c05Tokens, kinded bool) string {
	topo := c05HParseTopo(t, kinded)
	uA := t.ids()
	uB := t.ids()
	w := c05HNewWorld(r.db, r.freshBase(), topo, uA, uB)
	defer w.drop()
	ntx := t.int()
	var blocks []string
	for i := 0; i < ntx; i++ {
		nops := t.int()
		ops := make([]c05HOp, 0, nops)
		for j := 0; j < nops; j++ {
			ops = append(ops, t.hop())
		}
		verdict := w.runTx(ops)
		blocks = append(blocks, verdict+" "+w.observe())
	}
	return strings.Join(blocks, " ; ")
}

func c05HHistoryText(topo c05HTopo, uA, uB []string, txs [][]c05HOp) string {
	var b strings.Builder
	b.WriteString(topo.tag() + " " + topo.text() + " " + c05UniText(uA, uB))
	fmt.Fprintf(&b, " %d", len(txs))
	for _, tx := range txs {
		fmt.Fprintf(&b, " %d", len(tx))
		for _, op := range tx {
			b.WriteString(" " + op.String())
		}
	}
	return b.String()
}

// ---- generator ----------------------------------------------------------------------------------

// the shapes every run covers: collections on a plain / extended child of either side, on children of
// both sides, on root and child at once, several children per root, a child without collections
var c05HFixedTopos = []c05HTopo{
	{kids: [2][]bool{{false}, nil}, pairs: [][2]int{{1, 0}}},
	{kids: [2][]bool{{true}, nil}, pairs: [][2]int{{1, 0}}},
	{kids: [2][]bool{nil, {false}}, pairs: [][2]int{{0, 1}}},
	{kids: [2][]bool{{false}, {true}}, pairs: [][2]int{{1, 1}}},
	{kids: [2][]bool{{false}, nil}, pairs: [][2]int{{0, 0}, {1, 0}}},
	{kids: [2][]bool{{false, true}, nil}, pairs: [][2]int{{1, 0}, {2, 0}, {0, 0}}},
	{kids: [2][]bool{{false, false}, {false}}, pairs: [][2]int{{1, 1}, {2, 1}}},
	{kids: [2][]bool{{false}, nil}, pairs: [][2]int{{0, 0}}},
	{kids: [2][]bool{nil, {true, false}}, pairs: [][2]int{{0, 2}, {0, 0}}},
	{kids: [2][]bool{{true}, {false, false}}, pairs: [][2]int{{1, 2}, {0, 1}, {1, 0}}},
}

// K cases: the kinds of collection a store registers vary - only ref-counted (store.links empty), only plain,
// both through one pair or through different pairs, several of one kind, none - at root and at child level
var c05HKindTopos = []c05HTopo{
	{kids: [2][]bool{nil, nil}, pairs: [][2]int{{0, 0}}, kinds: []string{"r"}},
	{kids: [2][]bool{nil, nil}, pairs: [][2]int{{0, 0}}, kinds: []string{"l"}},
	{kids: [2][]bool{nil, nil}, pairs: [][2]int{{0, 0}, {0, 0}}, kinds: []string{"r", "r"}},
	{kids: [2][]bool{nil, nil}, pairs: [][2]int{{0, 0}, {0, 0}}, kinds: []string{"l", "l"}},
	{kids: [2][]bool{nil, nil}, pairs: [][2]int{{0, 0}, {0, 0}}, kinds: []string{"r", "l"}},
	{kids: [2][]bool{{false}, nil}, pairs: [][2]int{{1, 0}}, kinds: []string{"r"}},
	{kids: [2][]bool{{false}, nil}, pairs: [][2]int{{1, 0}, {0, 0}}, kinds: []string{"r", "l"}},
	{kids: [2][]bool{{false}, nil}, pairs: [][2]int{{1, 0}, {0, 0}}, kinds: []string{"l", "r"}},
	{kids: [2][]bool{nil, {false, false}}, pairs: [][2]int{{0, 1}, {0, 2}}, kinds: []string{"r", "r"}},
	{kids: [2][]bool{{true}, nil}, pairs: [][2]int{{1, 0}}, kinds: []string{"r"}},
	{kids: [2][]bool{{false}, nil}, pairs: [][2]int{{0, 0}, {1, 0}}, kinds: []string{"n", "r"}},
	{kids: [2][]bool{{false}, nil}, pairs: [][2]int{{0, 0}, {1, 0}}, kinds: []string{"b", "r"}},
	{kids: [2][]bool{{false}, {false}}, pairs: [][2]int{{1, 1}, {0, 1}, {1, 0}}, kinds: []string{"r", "l", "b"}},
	{kids: [2][]bool{nil, {true}}, pairs: [][2]int{{0, 1}, {0, 0}}, kinds: []string{"l", "r"}},
	{kids: [2][]bool{{false, false}, nil}, pairs: [][2]int{{1, 0}, {2, 0}, {0, 0}}, kinds: []string{"r", "l", "n"}},
	{kids: [2][]bool{nil, nil}, pairs: [][2]int{{0, 0}, {0, 0}, {0, 0}}, kinds: []string{"r", "b", "r"}},
}

type c05HGen struct {
	r      *rng
	kinded bool // K cases: pair kinds, DeleteWhere
	strat  bool // creates / updates whose entity strategy writes a link field (c05_strategy.go)
	topo   c05HTopo
	uni    [2][]string
	pres   [2][]map[string]bool // per side, per level
	stats  map[string]int
}

func c05HCopyPres(p [2][]map[string]bool) [2][]map[string]bool {
	var q [2][]map[string]bool
	for sd := 0; sd < 2; sd++ {
		for _, m := range p[sd] {
			c := map[string]bool{}
			for k, v := range m {
				c[k] = v
			}
			q[sd] = append(q[sd], c)
		}
	}
	return q
}

func (g *c05HGen) randomTopo() c05HTopo {
	r := g.r
	var t c05HTopo
	for sd := 0; sd < 2; sd++ {
		n := r.intn(3)
		for i := 0; i < n; i++ {
			t.kids[sd] = append(t.kids[sd], r.chance(35))
		}
	}
	np := 1 + r.intn(3)
	for i := 0; i < np; i++ {
		t.pairs = append(t.pairs, [2]int{r.intn(len(t.kids[0]) + 1), r.intn(len(t.kids[1]) + 1)})
	}
	if g.kinded {
		t.kinds = []string{}
		for range t.pairs {
			t.kinds = append(t.kinds, []string{"r", "r", "r", "l", "l", "l", "b", "b", "b", "n"}[r.intn(10)])
		}
	}
	return t
}

// extBlocked: an Extended child store that owns a collection has no data for x (the delete is refused)
func (g *c05HGen) extBlocked(pres [2][]map[string]bool, sd int, x string) bool {
	for k, ext := range g.topo.kids[sd] {
		if ext && !pres[sd][k+1][x] && g.topo.owns(sd, k+1) {
			return true
		}
	}
	return false
}

func (g *c05HGen) cellPresence(pres [2][]map[string]bool, p int) [2]map[string]bool {
	pr := g.topo.pairs[p]
	return [2]map[string]bool{pres[0][pr[0]], pres[1][pr[1]]}
}

func (g *c05HGen) fails(op c05HOp, pres [2][]map[string]bool) bool {
	switch op.kind {
	case "C":
		return pres[op.sd][0][op.a]
	case "CS", "US":
		return g.stratFails(op, pres)
	case "D":
		return !pres[op.sd][0][op.a] || g.extBlocked(pres, op.sd, op.a)
	case "DW":
		for _, x := range g.whereIds(op, pres) {
			if g.extBlocked(pres, op.sd, x) {
				return true
			}
		}
		return false
	}
	if !g.topo.registered(op.w, op.kind) {
		return true
	}
	flat := &c05Gen{}
	return flat.fails(op.c05Op, g.cellPresence(pres, op.w))
}

// whereIds: the entities a DeleteWhere through the store of level op.w deletes: the rows of that store's scan
// (root: every entity of the family; plain child: its own; Extended child: the parent's) the filter accepts
func (g *c05HGen) whereIds(op c05HOp, pres [2][]map[string]bool) []string {
	var out []string
	for _, x := range g.uni[op.sd] {
		if !pres[op.sd][0][x] {
			continue
		}
		if op.w > 0 && !pres[op.sd][op.w][x] && !g.topo.kids[op.sd][op.w-1] {
			continue
		}
		if op.count == 1 || c05Contains(op.keys, x) {
			out = append(out, x)
		}
	}
	return out
}

func (g *c05HGen) pickLevel(sd int) int {
	n := len(g.topo.kids[sd])
	if n == 0 || g.r.chance(35) {
		return 0
	}
	return 1 + g.r.intn(n)
}

func (g *c05HGen) genOp(pres [2][]map[string]bool) c05HOp {
	r := g.r
	if g.strat && r.chance(30) {
		if op, ok := g.genStratOp(pres); ok {
			return op
		}
	}
	w := r.intn(100)
	switch {
	case w < 10:
		sd := r.intn(2)
		var cands []string
		for _, x := range g.uni[sd] {
			if !pres[sd][0][x] {
				cands = append(cands, x)
			}
		}
		x := r.pick(g.uni[sd])
		if len(cands) > 0 && r.chance(92) {
			x = r.pick(cands)
		}
		return c05HOp{w: g.pickLevel(sd), c05Op: c05Op{kind: "C", sd: sd, a: x}}
	case w < 23:
		sd := r.intn(2)
		var cands []string
		for _, x := range g.uni[sd] {
			if pres[sd][0][x] {
				cands = append(cands, x)
			}
		}
		x := r.pick(g.uni[sd])
		if len(cands) > 0 && r.chance(92) {
			x = r.pick(cands)
		}
		// through any store of the family, also one the entity was not created through
		lv := r.intn(len(g.topo.kids[sd]) + 1)
		if g.kinded && r.chance(35) {
			return g.genWhere(sd, lv, x, cands)
		}
		return c05HOp{w: lv, c05Op: c05Op{kind: "D", sd: sd, a: x}}
	}
	p := r.intn(len(g.topo.pairs))
	flat := &c05Gen{r: r, uni: g.uni, ghost: [2]map[string]bool{{}, {}}, present: g.cellPresence(pres, p), stats: g.stats}
	for try := 0; ; try++ {
		op := flat.genOp()
		if op.kind == "C" || op.kind == "D" {
			continue
		}
		// mostly the operations of a collection that exists; rarely one of a kind the pair did not register (refused)
		if g.kinded && !g.topo.registered(p, op.kind) && try < 40 && !r.chance(3) {
			if try%8 == 7 {
				p = r.intn(len(g.topo.pairs))
				flat.present = g.cellPresence(pres, p)
			}
			continue
		}
		return c05HOp{w: p, c05Op: op}
	}
}

// genWhere: DeleteWhere through the store of level lv: filter true, or the id x (with up to two more ids)
func (g *c05HGen) genWhere(sd, lv int, x string, present []string) c05HOp {
	r := g.r
	op := c05Op{kind: "DW", sd: sd}
	if r.chance(30) || !c05HQuotable(x) {
		op.count = 1
		return c05HOp{w: lv, c05Op: op}
	}
	op.keys = []string{x}
	for n := r.intn(3); n > 0; n-- {
		y := r.pick(g.uni[sd])
		if len(present) > 0 && r.chance(60) {
			y = r.pick(present)
		}
		if c05HQuotable(y) {
			op.keys = append(op.keys, y)
		}
	}
	return c05HOp{w: lv, c05Op: op}
}

// scenario: link / count on a pair, then delete one end through any store of its family
func (g *c05HGen) scenario(pres [2][]map[string]bool) []c05HOp {
	r := g.r
	p := r.intn(len(g.topo.pairs))
	cp := g.cellPresence(pres, p)
	sd := r.intn(2)
	var in, peers []string
	for _, x := range g.uni[sd] {
		if cp[sd][x] {
			in = append(in, x)
		}
	}
	for _, x := range g.uni[1-sd] {
		if cp[1-sd][x] {
			peers = append(peers, x)
		}
	}
	if len(in) == 0 || len(peers) == 0 {
		return nil
	}
	a, b := r.pick(in), r.pick(peers)
	if g.kinded {
		return g.kindScenario(p, sd, a, b)
	}
	ops := []c05HOp{{w: p, c05Op: c05Op{kind: "AL", sd: sd, a: a, keys: []string{b}}}}
	switch r.intn(3) {
	case 0:
		ops = append(ops, c05HOp{w: p, c05Op: c05Op{kind: "I", sd: sd, a: a, keys: []string{b}}})
	case 1:
		ops = append(ops, c05HOp{w: p, c05Op: c05Op{kind: "SC", sd: 1 - sd, a: b, keys: []string{a}, count: 2}})
	}
	dsd, dx := sd, a
	if r.chance(35) {
		dsd, dx = 1-sd, b
	}
	return append(ops, c05HOp{w: r.intn(len(g.topo.kids[dsd]) + 1), c05Op: c05Op{kind: "D", sd: dsd, a: dx}})
}

// kindScenario: link / count a - b with whatever collections pair p registers (and with the other pairs that
// join the same two stores), then delete one end through any store of its family - DeleteById or DeleteWhere
func (g *c05HGen) kindScenario(p, sd int, a, b string) []c05HOp {
	r := g.r
	var ops []c05HOp
	for q, pr := range g.topo.pairs {
		if q != p && (pr != g.topo.pairs[p] || r.chance(40)) {
			continue
		}
		if g.topo.hasPlain(q) {
			ops = append(ops, c05HOp{w: q, c05Op: c05Op{kind: "AL", sd: sd, a: a, keys: []string{b}}})
		}
		if g.topo.hasRc(q) {
			switch r.intn(3) {
			case 0:
				ops = append(ops, c05HOp{w: q, c05Op: c05Op{kind: "I", sd: sd, a: a, keys: []string{b}}})
			case 1:
				ops = append(ops, c05HOp{w: q, c05Op: c05Op{kind: "SC", sd: 1 - sd, a: b, keys: []string{a}, count: 2}})
			default:
				ops = append(ops, c05HOp{w: q, c05Op: c05Op{kind: "I", sd: 1 - sd, a: b, keys: []string{a}}},
					c05HOp{w: q, c05Op: c05Op{kind: "I", sd: sd, a: a, keys: []string{b}}})
			}
		}
	}
	if len(ops) == 0 {
		return nil
	}
	dsd, dx := sd, a
	if r.chance(35) {
		dsd, dx = 1-sd, b
	}
	lv := r.intn(len(g.topo.kids[dsd]) + 1)
	if r.chance(30) {
		return append(ops, g.genWhere(dsd, lv, dx, nil))
	}
	return append(ops, c05HOp{w: lv, c05Op: c05Op{kind: "D", sd: dsd, a: dx}})
}

func (g *c05HGen) genCase(i int) (string, [][]c05HOp) {
	r := g.r
	if g.kinded {
		if r.chance(70) {
			g.topo = c05HKindTopos[i%len(c05HKindTopos)]
		} else {
			g.topo = g.randomTopo()
		}
	} else if r.chance(65) {
		g.topo = c05HFixedTopos[i%len(c05HFixedTopos)]
	} else {
		g.topo = g.randomTopo()
	}
	g.uni = [2][]string{c05PickUniverse(r, 1+r.intn(4)), c05PickUniverse(r, 1+r.intn(4))}
	g.pres = [2][]map[string]bool{}
	for sd := 0; sd < 2; sd++ {
		for k := 0; k <= len(g.topo.kids[sd]); k++ {
			g.pres[sd] = append(g.pres[sd], map[string]bool{})
		}
	}
	total := 2 + r.intn(28)
	var txs [][]c05HOp
	if r.chance(85) {
		var tx []c05HOp
		for sd := 0; sd < 2; sd++ {
			for _, x := range g.uni[sd] {
				if r.chance(85) {
					lv := g.pickLevel(sd)
					tx = append(tx, c05HOp{w: lv, c05Op: c05Op{kind: "C", sd: sd, a: x}})
					g.pres[sd][0][x] = true
					g.pres[sd][lv][x] = true
					total--
				}
			}
		}
		if len(tx) > 0 {
			txs = append(txs, tx)
		}
	}
	for total > 0 {
		n := 1 + r.intn(5)
		allowFail := r.chance(18)
		pres := c05HCopyPres(g.pres)
		var script []c05HOp
		if g.strat && r.chance(22) {
			if script = g.stratScenario(pres); len(script) > 0 {
				n = len(script)
				g.stats["strategy_scenario_tx"]++
			}
		} else if r.chance(18) {
			if script = g.scenario(pres); len(script) > 0 {
				n = len(script)
				g.stats["hier_scenario_tx"]++
			}
		}
		var tx []c05HOp
		failed := false
		for j := 0; j < n; j++ {
			var op c05HOp
			if script != nil {
				op = script[j]
			} else {
				for try := 0; try < 8; try++ {
					op = g.genOp(pres)
					if allowFail || !g.fails(op, pres) {
						break
					}
				}
			}
			tx = append(tx, op)
			g.stats["hier_op_"+op.kind]++
			if g.fails(op, pres) {
				failed = true
				break
			}
			switch op.kind {
			case "C", "CS":
				pres[op.sd][0][op.a] = true
				pres[op.sd][op.w][op.a] = true
			case "D":
				for _, m := range pres[op.sd] {
					m[op.a] = false
				}
				if op.w > 0 {
					g.stats["hier_delete_via_child"]++
				} else {
					g.stats["hier_delete_via_root"]++
				}
			case "DW":
				ids := g.whereIds(op, pres)
				for _, x := range ids {
					for _, m := range pres[op.sd] {
						m[x] = false
					}
				}
				g.stats[fmt.Sprintf("kind_where_deletes_%d", min(len(ids), 3))]++
			}
		}
		total -= len(tx)
		if !failed {
			g.pres = pres
		}
		txs = append(txs, tx)
	}
	return c05HHistoryText(g.topo, g.uni[0], g.uni[1], txs), txs
}
