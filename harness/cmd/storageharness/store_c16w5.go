package main

// C16 strengthening, fifth wave (seeded C16-w5-1, C16-w5-2):
//
// (a) THE ENTRY POINT OF A TRANSACTION.  Every transaction of the C16 stream ran through Db.Update with a fresh context.  The
//     store operations rely on the surrounding transaction being rolled back when they refuse something (a refused Create has
//     already persisted the entity and the index entries of the constraints registered before the system constraint, a
//     refused DeleteById has already stripped index entries and run cascades), so "the attempt fails" is a statement about
//     the DURABLE content after the caller got the error - and that depends on the entry point.  A transaction that carries
//     the pseudo veto
//
//	@ep C <hex of one character>
//
//     (ignored by the shared parsers and by the machine: the contract of every entry point is that of Db.Update, run_tx /
//     run_mtx / run_xtx of the model) is executed by c16RunTx through
//
//	b  Db.Batch(ctx, body)                      (bbolt re-runs a failing body on its own: the observation is that of the last run)
//	t  a transaction the CALLER manages: tx := bolt.Begin(true); ctx := boltz.NewTxMutateContext(background, tx)
//	   (.GetSystemContext() for a system transaction); body(ctx); tx.Rollback() when the body returned an error, else
//	   tx.Commit()     (pre-commit actions belong to Db.Update / Db.Batch: a transaction with a failing pre-commit action is
//	   rolled back by the caller itself)
//	j  Db.Update(ctx, func(c) { return Db.Update(c, body) })     the inner call JOINS the open transaction
//	k  Db.Update(ctx, func(c) { return Db.Batch(c, body) })
//	l  Db.Batch(ctx, func(c) { return Db.Update(c, body) })
//
//     for plain AND mixed transactions (per-operation context objects, the caller that ignores the refusal of an update,
//     decorated entities: store_c16s.go), so that every refused system operation - create with the flag, update, delete,
//     DeleteWhere, through the root or a child store - meets every entry point, swallowed or not.
//
// (b) DeleteWhere (op DW of the shared harness; model Store/XOps.v XDeleteWhere, theorem Store/SystemDeleteWhere.v) FROM THE
//     C16 HISTORIES: through the root store, the plain and the extended child store of a family that carries the constraint,
//     with a filter (true, or field = a value a protected system entity holds now, mostly a field whose value several
//     entities share) over the mixed populations of the adaptive generator; an ordinary entity with the same value and a
//     random id (= any position relative to the system entity in the id order of the query result) is often created in front
//     of it.  78 % ordinary contexts.
//
// What exists (g.snap) only biases the generator; the oracle (checks/c16.py) works from the case line and the observation.

import (
	"context"
	"fmt"

	"github.com/openziti/storage/boltz"
	"github.com/pkg/errors"
	"go.etcd.io/bbolt"
)

const c16w5EntryStore = "@ep"

var c16w5Entries = []byte{'b', 'b', 'b', 't', 't', 'j', 'k', 'l'}

// c16w5EntryOf: the entry point named by the transaction ('u' = Db.Update when it names none)
func c16w5EntryOf(t *hTx) (byte, bool) {
	for _, v := range t.Vetoes {
		if v.Store == c16w5EntryStore {
			if len(v.Id) == 1 {
				return v.Id[0], true
			}
			return 'u', true
		}
	}
	return 'u', false
}

func c16w5SetEntry(t *hTx, e byte) {
	var vs []hVeto
	for _, v := range t.Vetoes {
		if v.Store != c16w5EntryStore {
			vs = append(vs, v)
		}
	}
	t.Vetoes = append(vs, hVeto{Store: c16w5EntryStore, Change: "C", Id: string([]byte{e})})
}

// c16w5Bolt: the bolt database underneath the DbImpl, the way a caller of the library gets at it (bbolt.Tx.DB)
func (h *harnessDb) c16w5Bolt() *bbolt.DB {
	var raw *bbolt.DB
	_ = h.db.View(func(tx *bbolt.Tx) error {
		raw = tx.DB()
		return nil
	})
	return raw
}

// c16w5Enter runs the body of transaction t through its entry point and returns what the caller gets back
func (h *harnessDb) c16w5Enter(t *hTx, body func(ctx boltz.MutateContext) error) error {
	entry, _ := c16w5EntryOf(t)
	mk := func() boltz.MutateContext {
		base := boltz.NewMutateContext(context.Background())
		if t.Sys {
			base = base.GetSystemContext()
		}
		if t.PreCommitErr {
			// registered before the context is handed to Update / Batch (bbolt's Batch re-runs a failing function)
			base.AddPreCommitAction(func(boltz.MutateContext) error { return errors.New("pre-commit action failed") })
		}
		return base
	}
	batchNow := func() {
		// a lone Batch call waits MaxBatchDelay (10 ms) for company: the harness is single-threaded, so the timer fires at once
		if raw := h.c16w5Bolt(); raw != nil {
			raw.MaxBatchDelay = 0
		}
	}
	switch entry {
	case 'b':
		batchNow()
		return h.db.Batch(mk(), body)
	case 'j':
		return h.db.Update(mk(), func(c boltz.MutateContext) error { return h.db.Update(c, body) })
	case 'k':
		return h.db.Update(mk(), func(c boltz.MutateContext) error { return h.db.Batch(c, body) })
	case 'l':
		batchNow()
		return h.db.Batch(mk(), func(c boltz.MutateContext) error { return h.db.Update(c, body) })
	case 't':
		raw := h.c16w5Bolt()
		if raw == nil {
			return errors.New("no bolt database")
		}
		tx, err := raw.Begin(true)
		if err != nil {
			return err
		}
		done := false
		defer func() {
			if !done { // a panic of the library inside the body: release the writer lock
				_ = tx.Rollback()
			}
		}()
		ctx := boltz.NewTxMutateContext(context.Background(), tx)
		if t.Sys {
			ctx = ctx.GetSystemContext()
		}
		err = body(ctx)
		if err == nil && t.PreCommitErr {
			err = errors.New("pre-commit action failed")
		}
		done = true
		if err != nil {
			_ = tx.Rollback()
			return err
		}
		return tx.Commit()
	}
	return h.db.Update(mk(), body)
}

// ---- generator ------------------------------------------------------------------------------------------------

// c16w5Constrained: the stores of the wiring that carry the system-entity constraint
func (g *xGen) c16w5Constrained() []*sStore {
	var out []*sStore
	for _, s := range g.w.Stores {
		for _, c := range s.Cons {
			if c.Kind == "SY" {
				out = append(out, s)
				break
			}
		}
	}
	return out
}

// c16w5FamilyStore: the root store or (45 %) a child store of the family, preferring one that holds child data of id
func (g *xGen) c16w5FamilyStore(root, id string) string {
	if g.r.chance(45) {
		var cs, with []string
		for _, s := range g.w.Stores {
			if s.Parent == root {
				cs = append(cs, s.Name)
				if g.snap.child[s.Name][id] {
					with = append(with, s.Name)
				}
			}
		}
		if len(with) > 0 && g.r.chance(75) {
			return with[g.r.intn(len(with))]
		}
		if len(cs) > 0 {
			return cs[g.r.intn(len(cs))]
		}
	}
	return root
}

// c16w5DeleteWhere rewrites t into a transaction around a DeleteWhere over a family that carries the constraint; false = the
// wiring has no such family
func (g *xGen) c16w5DeleteWhere(t *hTx) bool {
	cons := g.c16w5Constrained()
	if len(cons) == 0 {
		return false
	}
	prot := g.c16ProtectedIn(g.snap, false)
	var root, id string
	if len(prot) > 0 {
		p := prot[g.r.intn(len(prot))]
		root, id = g.rootOf(p[0]), p[1]
	} else {
		if g.r.chance(70) {
			return false
		}
		root = g.rootOf(cons[g.r.intn(len(cons))].Name)
		alive := g.sortedAlive(root)
		if len(alive) == 0 {
			return false
		}
		id = alive[g.r.intn(len(alive))]
	}
	through := g.c16w5FamilyStore(root, id)
	op := hOp{Kind: "DW", Store: through}
	type cand struct {
		owner, f, v string
		unique      bool
	}
	var cands, shared []cand
	for _, f := range g.w.store(root).Fields {
		if v := g.snap.fvals[root][id][f.Name]; v != "" {
			cands = append(cands, cand{root, f.Name, v, g.isUnique(root, f.Name)})
		}
	}
	if through != root {
		for _, f := range g.w.store(through).Fields {
			if v := g.snap.cvals[through][id][f.Name]; v != "" {
				cands = append(cands, cand{through, f.Name, v, g.isUnique(through, f.Name)})
			}
		}
	}
	for _, c := range cands {
		if !c.unique {
			shared = append(shared, c)
		}
	}
	var pick *cand
	if len(cands) > 0 && !g.r.chance(35) {
		c := cands[g.r.intn(len(cands))]
		if len(shared) > 0 && g.r.chance(75) {
			c = shared[g.r.intn(len(shared))]
		}
		pick = &c
		op.DwField, op.DwVal = c.f, c.v
	}
	t.Sys = g.r.chance(22)
	t.Vetoes = nil
	var ops []hOp
	if len(t.Ops) > 0 && g.r.chance(10) {
		ops = append(ops, t.Ops[0])
	}
	if g.r.chance(40) && (pick == nil || !pick.unique) {
		// an ORDINARY entity the filter matches as well, under a random id: before or after the system entity in id order
		cst := root
		if pick != nil && pick.owner != root {
			cst = pick.owner
		} else if through != root && g.r.chance(50) {
			cst = through
		}
		c := hOp{Kind: "C", Store: cst, Id: g.c16FreeId(root)}
		g.fieldsValueX(&c)
		if pick != nil {
			c.F[pick.f] = sp(pick.v)
		}
		ops = append(ops, c)
	}
	ops = append(ops, op)
	if g.r.chance(20) {
		ops = append(ops, g.genOpX(t.Sys))
	}
	t.Ops = ops
	return true
}

// c16w5Refusal inserts an operation the constraint has to refuse into an ORDINARY transaction (create with the flag through
// a store that has the constraint in its chain; update / delete of a protected system entity through its root or a child
// store) at a random position; false = nothing to aim at
func (g *xGen) c16w5Refusal(t *hTx) bool {
	cons := g.c16w5Constrained()
	if len(cons) == 0 {
		return false
	}
	prot := g.c16ProtectedIn(g.snap, false)
	var op hOp
	if len(prot) == 0 || g.r.chance(40) {
		s := cons[g.r.intn(len(cons))]
		through := s.Name
		if s.Parent == "" && g.r.chance(35) {
			for _, c := range g.w.Stores {
				if c.Parent == s.Name && g.r.chance(60) {
					through = c.Name // the parent's constraint applies to what is created through a child store
				}
			}
		}
		op = hOp{Kind: "C", Store: through, Id: g.c16FreeId(g.rootOf(s.Name)), Sys: true}
		g.fieldsValueX(&op)
		// a create that is refused ONLY by the system constraint: values no unique index objects to
		for _, owner := range []string{g.rootOf(through), through} {
			for _, f := range g.w.store(owner).Fields {
				if g.isUnique(owner, f.Name) && op.F[f.Name] != nil {
					g.fresh++
					op.F[f.Name] = sp(fmt.Sprintf("w%d", g.fresh))
				}
			}
		}
	} else {
		p := prot[g.r.intn(len(prot))]
		root := g.rootOf(p[0])
		through := p[0]
		if g.r.chance(45) {
			through = root
		}
		if g.r.chance(50) {
			op = g.c16Update(through, p[1])
		} else {
			op = hOp{Kind: "D", Store: through, Id: p[1]}
		}
	}
	t.Sys = false
	t.PreCommitErr = false
	t.Vetoes = nil
	var kept []hOp
	for _, o := range t.Ops {
		if o.Kind != "FAIL" {
			kept = append(kept, o)
		}
	}
	pos := g.r.intn(len(kept) + 1)
	ops := append([]hOp{}, kept[:pos]...)
	ops = append(ops, op)
	t.Ops = append(ops, kept[pos:]...)
	return true
}

// c16w5Shape is applied to every generated transaction of profile c16 (mixed: c16Mix has turned it into a mixed transaction)
func (g *xGen) c16w5Shape(t *hTx, stats map[string]int) {
	if g.c16w9Shape(t, stats) { // operations deferred into pre-commit actions (store_c16w9.go)
		return
	}
	_, mixed := c16ModesOf(t)
	aimed := false
	if !mixed {
		switch k := g.r.intn(100); {
		case k < 22:
			if g.c16w5DeleteWhere(t) {
				stats["w5_delete_where_tx"]++
				if !t.Sys {
					stats["w5_delete_where_tx_ordinary"]++
				}
				aimed = true
			}
		case k < 36:
			if g.c16w5Refusal(t) {
				stats["w5_refusal_tx"]++
				aimed = true
			}
		}
	}
	p := 30
	if aimed {
		p = 55
	}
	if g.r.chance(p) {
		e := c16w5Entries[g.r.intn(len(c16w5Entries))]
		c16w5SetEntry(t, e)
		stats["w5_entry_"+string([]byte{e})]++
	}
}
