package main

// C04: re-use of a foreign-key target id inside ONE mutate context.
//
// "A reference can be created only if the target exists" must hold at the moment of every create / update, also
// when the same mutate context (one transaction, or one MutateContext handed to several Db.Update calls - pseudo
// veto "@ctx") has seen that target before: referenced it successfully, released it, deleted it (directly or by
// a cascade), possibly re-created it.  Anything the code remembers per context about a target (presence, index
// bucket, referrer list) goes stale in such a sequence.  The histories of store_c04.go had 1-3 unrelated ops per
// transaction and always a fresh context, so the life cycle  reference T / release T / delete T / reference T
// again  never happened inside one context.  Added here:
//
//   - c04Gen.reuseTxs: the life cycle of one target over a randomly chosen fk edge of the wiring (fk index,
//     nullable fk index, cascade fk index, fk constraint restrict / cascade; referrer entered through the root
//     or a child store), every step with variants (create or re-point an existing referrer; release by delete,
//     by nulling, by re-pointing, or left to the cascade; after the delete: reference again, re-create and
//     reference, re-create / reference / release / delete / reference again), as one transaction or - in a
//     history that shares its context - cut into consecutive transactions;
//   - graves: ids (believed) deleted in the current context scope; fk values and create ids of the ordinary
//     generator are drawn from them with a small probability;
//   - exhaustCtxC04: bounded-exhaustive op sequences over the self-referencing store inside one transaction
//     and as one-op transactions under the shared context.

import "strings"

type c04TxBuilder struct {
	g      *c04Gen
	txs    []hTx
	cur    hTx
	snap   map[string]map[string]map[string]*string
	mayCut bool
}

func (g *c04Gen) c04NewTx() hTx {
	t := hTx{Sys: g.r.chance(12)}
	if g.shared {
		t.Vetoes = append(t.Vetoes, hVeto{Store: "@ctx", Change: "C", Id: ""})
	}
	return t
}

func (b *c04TxBuilder) begin() {
	b.cur = b.g.c04NewTx()
	b.snap = b.g.snapshot()
	if !b.g.shared {
		b.g.graves = map[string][]string{}
	}
}

// cut closes the current transaction and opens the next one (only histories that share their context are cut:
// with a fresh context per transaction the steps would not meet in one context)
func (b *c04TxBuilder) cut() {
	if !b.mayCut || len(b.cur.Ops) == 0 || !b.g.r.chance(35) {
		return
	}
	b.txs = append(b.txs, b.cur)
	b.begin()
}

func (b *c04TxBuilder) emit(ops ...hOp) { b.cur.Ops = append(b.cur.Ops, ops...) }

// finish closes the last transaction; rollback = the generator believes its last op is refused
func (b *c04TxBuilder) finish(rollback bool) []hTx {
	if len(b.cur.Ops) > 0 {
		b.txs = append(b.txs, b.cur)
		if rollback {
			b.g.ents = b.snap
		}
	}
	return b.txs
}

func (g *c04Gen) c04FkDecls() []*wiringDecl {
	var ds []*wiringDecl
	for i := range g.w.Script {
		d := &g.w.Script[i]
		if d.Kind == "fkindex" || d.Kind == "fkindexcascade" || d.Kind == "fkcons" {
			ds = append(ds, d)
		}
	}
	return ds
}

func c04Nullable(d *wiringDecl) bool { return d.Nullable && d.Kind != "fkindexcascade" }

func c04Cascades(d *wiringDecl) bool {
	return d.Kind == "fkindexcascade" || (d.Kind == "fkcons" && d.Casc == "D")
}

// c04FreshId: an id of the universe that is not believed alive in the root store ("" when all are taken)
func (g *c04Gen) c04FreshId(root string, avoid ...string) string {
	var xs []string
	for _, id := range g.ids {
		if _, ok := g.ents[root][id]; !ok && !containsStr(avoid, id) {
			xs = append(xs, id)
		}
	}
	if len(xs) == 0 {
		return ""
	}
	return xs[g.r.intn(len(xs))]
}

// c04Create: a create of (store, id) that the generator believes valid (values re-drawn a few times, no self
// reference), with the given fk fields forced; the belief is updated
func (g *c04Gen) c04Create(store, id string, force map[string]string) hOp {
	op := hOp{Kind: "C", Store: store, Id: id}
	root := g.root(store)
	valid := false
	g.forced = force
	for try := 0; try < 12; try++ {
		valid = g.values(&op)
		self := false
		for f, v := range op.F {
			if _, forced := force[f]; forced || v == nil || *v != id {
				continue
			}
			if d := g.c04DeclOf(store, f); d != nil && g.root(d.Target) == root {
				self = true
			}
		}
		if valid && !self {
			break
		}
	}
	g.forced = nil
	if _, exists := g.ents[root][id]; !exists && valid {
		if g.childFk {
			g.c04cBelieveCreate(&op)
		} else {
			g.ents[root][id] = op.F
		}
	}
	return op
}

// c04DeclOf: the fk declaration of a field of the store or, for a child store, of its parent
func (g *c04Gen) c04DeclOf(store, field string) *wiringDecl {
	if d := g.fkDecl(store, field); d != nil {
		return d
	}
	return g.fkDecl(g.root(store), field)
}

// c04Ensure: the ops that give every non-nullable fk field of the store (other than `except`) a believed-alive target
func (g *c04Gen) c04Ensure(store, except string, depth int) []hOp {
	var ops []hOp
	if depth > 3 {
		return nil
	}
	root := g.root(store)
	for _, f := range g.fieldsFor(store) {
		if f.Name == except {
			continue
		}
		for _, owner := range []string{store, root} {
			d := g.fkDecl(owner, f.Name)
			if d == nil || c04Nullable(d) {
				continue
			}
			troot := g.root(d.Target)
			if len(g.aliveIn(d.Target)) > 0 {
				break
			}
			if id := g.c04FreshId(troot); id != "" {
				ops = append(ops, g.c04Ensure(d.Target, "", depth+1)...)
				ops = append(ops, g.c04Create(d.Target, id, nil))
			}
			break
		}
	}
	return ops
}

// c04Reference: the ops that make some entity reference (target root of d, t) through d: a new referrer (entered
// through the declaring store or one of its child stores) or an existing one re-pointed by a full or a
// field-restricted update
func (g *c04Gen) c04Reference(d *wiringDecl, t string, avoid ...string) []hOp {
	sroot, troot := g.root(d.Store), g.root(d.Target)
	var cands []string
	for _, x := range g.aliveIn(d.Store) {
		if !(sroot == troot && x == t) && !containsStr(avoid, x) {
			cands = append(cands, x)
		}
	}
	if len(cands) > 0 && g.r.chance(30) {
		x := cands[g.r.intn(len(cands))]
		return []hOp{g.c04Repoint(d, x, sp(t))}
	}
	av := append([]string{}, avoid...)
	if sroot == troot {
		av = append(av, t)
	}
	r := g.c04FreshId(sroot, av...)
	if r == "" {
		if len(cands) == 0 {
			return nil
		}
		return []hOp{g.c04Repoint(d, cands[g.r.intn(len(cands))], sp(t))}
	}
	store := d.Store
	if g.r.chance(25) {
		for _, c := range g.w.Stores {
			if c.Parent == d.Store && g.r.chance(60) {
				store = c.Name
			}
		}
	}
	ops := g.c04Ensure(store, d.Field, 0)
	return append(ops, g.c04Create(store, r, map[string]string{d.Field: t}))
}

// c04Repoint: update of entity x of the declaring store of d that sets the fk field to v (nil = null); the other
// fields keep their believed values; half of the updates are restricted to the fk field
func (g *c04Gen) c04Repoint(d *wiringDecl, x string, v *string) hOp {
	sroot := g.root(d.Store)
	op := hOp{Kind: "UP", Store: d.Store, Id: x, F: map[string]*string{}, S: map[string][]string{}}
	if e, ok := g.ents[sroot][x]; ok {
		for f, fv := range e {
			if f != c04ViaKey {
				op.F[f] = fv
			}
		}
	}
	op.F[d.Field] = v
	if g.r.chance(50) {
		op.HasChk = true
		op.Checker = []string{d.Field}
	}
	if e, ok := g.ents[sroot][x]; ok {
		e[d.Field] = v
	}
	return op
}

// c04Release: the ops that take every believed reference to (troot, t) away (delete the referrer, null the field,
// point it to another target), or leave it to the cascade where the edge cascades
func (g *c04Gen) c04Release(troot, t string) []hOp {
	var ops []hOp
	for _, d := range g.c04FkDecls() {
		if g.root(d.Target) != troot {
			continue
		}
		sroot := g.root(d.Store)
		for _, x := range g.aliveIn(d.Store) {
			e, ok := g.ents[sroot][x]
			if !ok || e[d.Field] == nil || *e[d.Field] != t || (sroot == troot && x == t) {
				continue
			}
			var others []string
			for _, o := range g.aliveIn(d.Target) {
				if o != t && !(sroot == troot && o == x) {
					others = append(others, o)
				}
			}
			k := g.r.intn(100)
			switch {
			case c04Cascades(d) && k < 55:
				// the delete of the target removes it
			case c04Nullable(d) && k < 75:
				ops = append(ops, g.c04Repoint(d, x, nil))
			case len(others) > 0 && k < 85:
				ops = append(ops, g.c04Repoint(d, x, sp(others[g.r.intn(len(others))])))
			default:
				ops = append(ops, hOp{Kind: "D", Store: d.Store, Id: x})
				g.believeDelete(sroot, x, 0)
			}
		}
	}
	return ops
}

// reuseTxs: the life cycle of one fk target inside one mutate context (see the head of the file)
func (g *c04Gen) reuseTxs() []hTx {
	ds := g.c04FkDecls()
	if len(ds) == 0 {
		return nil
	}
	d := ds[g.r.intn(len(ds))]
	troot := g.root(d.Target)
	b := &c04TxBuilder{g: g, mayCut: g.shared}
	b.begin()

	// 1. the target: an existing entity or a new one
	t := ""
	if alive := g.aliveIn(d.Target); len(alive) > 0 && g.r.chance(45) {
		t = alive[g.r.intn(len(alive))]
	} else if t = g.c04FreshId(troot); t != "" {
		b.emit(g.c04Ensure(d.Target, "", 0)...)
		b.emit(g.c04Create(d.Target, t, nil))
	} else if len(alive) > 0 {
		t = alive[g.r.intn(len(alive))]
	} else {
		return nil
	}
	b.cut()
	// 2. a successful reference to it (skipped now and then: the target may be referenced already)
	if !g.r.chance(12) {
		b.emit(g.c04Reference(d, t)...)
		b.cut()
	}
	rollback := false
	for round, rounds := 0, 1+g.r.intn(2); round < rounds && !rollback; round++ {
		// 3. release (now and then forgotten: the delete is then refused or cascades)
		if !g.r.chance(10) {
			b.emit(g.c04Release(troot, t)...)
			b.cut()
		}
		// 4. delete the target
		b.emit(hOp{Kind: "D", Store: d.Target, Id: t})
		if !g.believeDelete(troot, t, 0) {
			rollback = true
			break
		}
		b.cut()
		// 5. re-use of the id
		d2 := d
		if g.r.chance(25) { // through another edge to the same target store, when there is one
			for _, o := range ds {
				if g.root(o.Target) == troot && (!g.childFk || o.Target == d.Target) && g.r.chance(50) {
					d2 = o
				}
			}
		}
		switch k := g.r.intn(100); {
		case k < 45: // reference the deleted target: must be refused
			if ops := g.c04Reference(d2, t); len(ops) > 0 {
				b.emit(ops...)
				rollback = true
			}
		case k < 90: // re-create it, then reference it: must be accepted
			b.emit(g.c04Ensure(d.Target, "", 0)...)
			b.emit(g.c04Create(d.Target, t, nil))
			b.cut()
			b.emit(g.c04Reference(d2, t)...)
			b.cut()
		default: // nothing in this context any more
			round = rounds
		}
	}
	return b.finish(rollback)
}

// exhaustCtxC04: bounded-exhaustive op sequences inside one mutate context over the self-referencing store n of
// the cyc wiring (ids {a, b}; create / full update with next in {nil, a, b}; delete: 14 operations), after a
// committed transaction that created a (so that sequences of three ops reach reference / delete / reference
// again).  single = all ops in one transaction; otherwise one op per transaction, all sharing the context.
func exhaustCtxC04(maxLen int, single bool, stats map[string]int) []string {
	w := wiringByName("cyc")
	w.derive()
	var ops []hOp
	for _, id := range []string{"a", "b"} {
		for _, next := range []*string{nil, sp("a"), sp("b")} {
			f := map[string]*string{"name": sp("x")}
			if next != nil {
				f["next"] = next
			}
			ops = append(ops, hOp{Kind: "C", Store: "n", Id: id, F: f, S: map[string][]string{}})
			ops = append(ops, hOp{Kind: "UP", Store: "n", Id: id, F: f, S: map[string][]string{}})
		}
		ops = append(ops, hOp{Kind: "D", Store: "n", Id: id})
	}
	ctxVeto := []hVeto{{Store: "@ctx", Change: "C", Id: ""}}
	prefix := hTx{Ops: []hOp{ops[0]}} // create a, next = nil (fresh context)
	var lines []string
	var rec func(seq []hOp)
	rec = func(seq []hOp) {
		if len(seq) >= 2 { // length 1 is covered by exhaustC04
			txs := []hTx{prefix}
			if single {
				txs = append(txs, hTx{Ops: seq})
			} else {
				for _, op := range seq {
					txs = append(txs, hTx{Vetoes: ctxVeto, Ops: []hOp{op}})
				}
			}
			var c strings.Builder
			c.WriteString(w.text())
			for k := range txs {
				c.WriteString(" ")
				c.WriteString(w.txText(&txs[k]))
			}
			lines = append(lines, c.String())
			if single {
				stats["exhaustive_one_tx"]++
			} else {
				stats["exhaustive_shared_ctx"]++
			}
		}
		if len(seq) == maxLen {
			return
		}
		for i := range ops {
			rec(append(append([]hOp{}, seq...), ops[i]))
		}
	}
	rec(nil)
	return lines
}
