package main

import (
	"github.com/openziti/storage/ast"
	"go.etcd.io/bbolt"
)

// C12, stream n4, added after the ninth wave of seeded changes (design/C12.md, "Strengthening after C12-w9-3"):
//
// THE ENTITY'S OWN ID AMONG THE ATOMS.  In every row-wise stream (n, m, q) the atoms were comparisons on ordinary
// fields, set functions or sub-queries; none of them compared the symbol `id`.  `id` is the one symbol a store's
// scanners know about: it is the key of the entities bucket, the default sort column, the thing an id look-up, a key
// range or a "this filter can match one row only" analysis is keyed on.  Whatever a scanner concludes from the PLACE an
// id comparison has in the boolean structure (a top-level conjunct? under an or? under a not?) has to agree with how
// the connectives group as written - and that is observable only when such an atom stands at every place of every
// skeleton and the result is what Store.QueryIds returns, not what ast.EvalBool computes.
//
// n4 puts an id comparison (equality with an existing id first, then an absent id, !=, in, ordering, contains) at EVERY
// leaf position of EVERY skeleton over two and three leaves (<= 2 parenthesis pairs, <= 2 nots), next to ordinary
// atoms that hold on other rows, and two id comparisons in one filter; a slice again followed by `sort by` / `limit none`
// (the sorting scanner instead of the id-ordered one).  Case kind N, store `things`, oracle of stream n: the rows
// selected are the rows on which the surface semantics holds under the value the code gives each atom ALONE on that
// row.  All skeletons are emitted for one and the same atom triple, so every pure chain is there in all its groupings
// (checks/c12.py compares a failing chain with its other groupings: C12:chain-regrouping).

// id comparisons over the rows of c12nRows (n0 n1 v1 v2 v3 h1 h2); the first three are equalities with existing ids
var c12w9IdAtoms = []string{
	`id = "v2"`, `id = "n0"`, `id = "h2"`,
	`id = "zz"`, `id != "v2"`, `id in ["v1", "h1"]`, `id > "n1"`, `id contains "v"`, `id not in ["n0", "v3"]`, `id <= "n1"`,
}

// ordinary atoms that hold on several rows each (and on different ones)
var c12w9Others = []string{
	`s >= "m"`, `i = 5`, `b`, `f < 5.0`, `anyOf(tags) = "red"`, `t != null`, `s = null`, `i not between 2 and 6`, `count(tags) = 0`,
}

var c12w9Suffixes = []string{" sort by id", " limit none", " sort by s", " sort by id desc", " sort by i desc limit none"}

func c12w9IdJobs(o *opts, r *rng, stats map[string]int) []*c12nJob {
	var jobs []*c12nJob
	add := func(e *c12Expr, texts []string, suffix string) {
		lay := &c12Layout{atoms: c12nNames, fixed: true}
		text, pre := lay.spell(e)
		jobs = append(jobs, &c12nJob{stream: "n4", filter: text, pre: pre, atoms: c12nNames[:len(texts)], texts: texts, suffix: suffix})
		stats["stream_n4"]++
	}
	shapes := func(k, maxP, maxN int) []*c12Expr {
		var out []*c12Expr
		for np := 0; np <= maxP; np++ {
			for nn := 0; nn <= maxN; nn++ {
				lab := make([]int, k)
				for i := range lab {
					lab[i] = i
				}
				for _, e := range c12Exprs(k, np, nn) {
					out = append(out, c12dRelabel(e, lab))
				}
			}
		}
		return out
	}
	one, two, three := shapes(1, 2, 3), shapes(2, 2, 2), shapes(3, 2, 2)
	stats["n4_shapes_two_leaves"], stats["n4_shapes_three_leaves"] = len(two), len(three)
	nsuf := 0
	emit := func(all []*c12Expr, texts []string, every int) {
		for si, e := range all {
			add(e, texts, "")
			if every > 0 && si%every == 0 {
				add(e, texts, c12w9Suffixes[nsuf%len(c12w9Suffixes)])
				nsuf++
			}
		}
		stats["n4_atom_tuples"]++
	}
	other := func(k int) string { return c12w9Others[k%len(c12w9Others)] }
	// one leaf (parentheses and nots around the id comparison), two leaves: every id atom at both positions
	for ai, a := range c12w9IdAtoms {
		emit(one, []string{a}, 4)
		emit(two, []string{a, other(ai)}, 6)
		emit(two, []string{other(ai + 3), a}, 6)
	}
	emit(two, []string{c12w9IdAtoms[0], c12w9IdAtoms[1]}, 0)
	// three leaves: an equality with an existing id at each position (quick: the other id atoms at one random position)
	k := 0
	for ai, a := range c12w9IdAtoms {
		for pos := 0; pos < 3; pos++ {
			if ai >= 3 && !o.thorough() && pos != (ai+int(o.seed%3))%3 {
				continue
			}
			if ai >= 1 && ai < 3 && !o.thorough() && pos != ai {
				// quick: the second and third existing id at one position each (all positions for the first)
				continue
			}
			texts := []string{other(k), other(k + 4), other(k + 2)}
			texts[pos] = a
			k++
			every := 9
			if ai >= 3 {
				every = 0
			}
			emit(three, texts, every)
		}
	}
	// two id comparisons in one filter
	emit(three, []string{c12w9IdAtoms[0], other(r.intn(9)), c12w9IdAtoms[1]}, 0)
	if o.thorough() {
		emit(three, []string{other(r.intn(9)), c12w9IdAtoms[2], c12w9IdAtoms[5]}, 0)
		emit(three, []string{c12w9IdAtoms[1], c12w9IdAtoms[4], other(r.intn(9))}, 0)
	}
	return jobs
}

// c12w9IterBits: which rows Store.IterateIds yields for the predicate of the query - the store's other way of
// evaluating a filter over its rows (a filtered cursor over the entities bucket, no scanner); E rejected, P panic
func c12w9IterBits(d *c12nDb, text string) (res string) {
	defer func() {
		if r := recover(); r != nil {
			res = "P"
		}
	}()
	query, err := ast.Parse(d.store, text)
	if err != nil {
		return "E"
	}
	_ = d.db.View(func(tx *bbolt.Tx) error {
		sel := map[string]bool{}
		for c := d.store.IterateIds(tx, query.GetPredicate()); c.IsValid(); c.Next() {
			sel[string(c.Current())] = true
		}
		b := make([]byte, len(d.ids))
		for i, id := range d.ids {
			b[i] = '0'
			if sel[id] {
				b[i] = '1'
			}
		}
		res = string(b)
		return nil
	})
	return res
}
