package main

// C18, ninth strengthening (b)

import (
	"bytes"
	"fmt"
	"os"
	"os/exec"
	"strconv"
	"strings"
	"sync"
	"time"

	"go.etcd.io/bbolt"
)

// ---- (b) cold start: the FIRST uses of a process happen concurrently ---------------------------------------
//
// Every reader of the main workload starts after the sequential baselines were computed (parse of every filter,
// every symbol), and the helpers are hammered after the whole workload: whatever the repository initialises on
// first use was initialised by ONE goroutine long before two goroutines met.  A server answers its first list
// requests concurrently.  "C <variant> <workers>": the harness starts ITSELF again (same binary, so built with
// -race; GORACE is inherited, the report of the child goes next to the reports of the parent), sub-command c18cold:
// the child opens a database and builds its stores like a server does, and then - nothing has been parsed, no
// symbol looked up, no query run - releases <workers> goroutines from a start barrier.  Each of them does exactly
// one thing (so that nothing but the repository's own code orders them): parse one filter (all six comparison
// operators, in / contains / between / set functions / sort / paging / sub-queries / errors), resolve one symbol,
// or run one query over the groups.  <variant> rotates which goroutine does what.  The child prints what every
// goroutine got; the parent compares with its own sequential answers.  Repeated with different variants: a
// process has only one first time.

var c18s9ColdFilters = []string{`val >= 3`, `val <= 3`, `val != 3`, `val > 3`, `val < 3`, `val = 3`, `name != "beta"`, `name > "b" sort by val`,
	`val >= 1 and val <= 5 or name < "m"`, `not (val != 0) limit 2`, `anyOf(tags) != "t1"`, `count(watchers) > 1`, `group.name >= "Gg1"`,
	`val in [1, 2]`, `name not contains "a"`, `true`, `isEmpty(tags)`, `anyOf(watchers.name) < "Gg2" skip 1`,
	`not isEmpty(from watchers where name >= "Gg1")`}

var c18s9ColdGroupFilters = []string{`name >= "Gg1"`, `name != "Gg0"`, `name < "Gg2" sort by name desc`, `name = "Gg2"`, `name <= "Gg0" or name > "Gg1"`}

func init() { commands["c18cold"] = runC18Cold }

type c18s9ColdJob struct{ kind, arg string }

func c18s9ColdJobs(variant, workers int) []c18s9ColdJob {
	all := append(append([]string{}, c18s9ColdFilters...), c18Filters...)
	jobs := make([]c18s9ColdJob, workers)
	for g := range jobs {
		switch (g + variant) % 5 {
		case 3:
			jobs[g] = c18s9ColdJob{"S", c18Symbols[(g*3+variant)%len(c18Symbols)]}
		case 4:
			jobs[g] = c18s9ColdJob{"G", c18s9ColdGroupFilters[(g+variant)%len(c18s9ColdGroupFilters)]}
		default:
			jobs[g] = c18s9ColdJob{"P", all[(g+variant*7)%len(all)]}
		}
	}
	return jobs
}

func (w *c18World) c18s9ColdAnswer(j c18s9ColdJob) (res string) {
	switch j.kind {
	case "P":
		return w.parseAnswer(j.arg)
	case "S":
		return w.symbolAnswer(j.arg)
	}
	defer func() {
		if r := recover(); r != nil {
			res = "panic:" + fmt.Sprint(r)
		}
	}()
	_ = w.db.View(func(tx *bbolt.Tx) error {
		ids, _, err := w.stores.group.QueryIds(tx, j.arg)
		if err != nil {
			res = "error"
		} else {
			res = "ids:" + strings.Join(ids, ",")
		}
		return nil
	})
	return res
}

// runC18Cold: the child.  Nothing of the repository's query machinery may run before the barrier opens.
func runC18Cold(o *opts) error {
	c17Quiet()
	go c18Watchdog(60 * time.Second)
	dir, err := os.MkdirTemp("", "c18cold")
	if err != nil {
		return err
	}
	defer os.RemoveAll(dir)
	w, err := c18Open(dir)
	if err != nil {
		return err
	}
	defer w.db.Close()
	jobs := c18s9ColdJobs(o.getInt("variant", 0), o.getInt("workers", 16))
	results := make([]string, len(jobs))
	start := make(chan struct{})
	var ready, done sync.WaitGroup
	for g := range jobs {
		ready.Add(1)
		done.Add(1)
		go func(g int) {
			defer done.Done()
			ready.Done()
			<-start
			results[g] = w.c18s9ColdAnswer(jobs[g])
		}(g)
	}
	ready.Wait()
	close(start)
	done.Wait()
	for g, j := range jobs {
		fmt.Printf("%s %s %s\n", j.kind, hxs(j.arg), hxs(results[g]))
	}
	return nil
}

// c18s9ColdRun: the parent's side of "C <variant> <workers>"; -> observation, pid of the child
func (w *c18World) c18s9ColdRun(variant, workers int) (string, int) {
	exe, err := os.Executable()
	if err != nil {
		return "C error " + hxs(err.Error()), 0
	}
	cmd := exec.Command(exe, "c18cold", "--variant", strconv.Itoa(variant), "--workers", strconv.Itoa(workers))
	var stdout, stderr bytes.Buffer
	cmd.Stdout, cmd.Stderr = &stdout, &stderr
	err = cmd.Run()
	pid, rc := 0, 0
	if cmd.ProcessState != nil {
		pid, rc = cmd.ProcessState.Pid(), cmd.ProcessState.ExitCode()
	} else if err != nil {
		return "C error " + hxs(err.Error()), 0
	}
	tail := stderr.String()
	if len(tail) > 1500 {
		tail = tail[:1500]
	}
	if rc != 0 && rc != 66 {
		return fmt.Sprintf("C died rc=%d %s", rc, hxs(tail)), pid
	}
	jobs := c18s9ColdJobs(variant, workers)
	lines := strings.Split(strings.TrimSpace(stdout.String()), "\n")
	if len(lines) != len(jobs) {
		return fmt.Sprintf("C died rc=%d %s", rc, hxs(fmt.Sprintf("%d answers for %d goroutines; %s", len(lines), len(jobs), tail))), pid
	}
	for g, j := range jobs {
		f := strings.Fields(lines[g])
		got := ""
		if len(f) > 2 {
			got = string(unhx(f[2]))
		}
		if want := w.c18s9ColdAnswer(j); got != want {
			what := map[string]string{"P": "ast.Parse", "S": "GetSymbol", "G": "QueryIds over the groups"}[j.kind]
			return "C differs " + hxs(fmt.Sprintf("%s of [%s], one of the first %d concurrent calls of a fresh process, answered [%s]; sequentially it answers [%s]",
				what, j.arg, workers, got, want)), pid
		}
	}
	if rc == 66 || strings.Contains(stderr.String(), "WARNING: DATA RACE") {
		return "C race " + hxs(tail), pid
	}
	return "C ok", pid
}
