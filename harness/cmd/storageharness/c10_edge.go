package main

import (
	"sort"
	"strings"
	"unicode"
)

// C10, blank-like foreign characters.  The grammar's WS token is exactly space, tab, CR, LF.  Every other rune that
// some part of a Go program would call "blank" - what unicode.IsSpace / strings.TrimSpace / strings.Fields /
// bytes.TrimSpace strip (the White_Space property: \v \f U+0085 U+00A0 U+1680 U+2000-200A U+2028 U+2029 U+202F U+205F
// U+3000), the separators Zs / Zl / Zp, Pattern_White_Space, every C0 / C1 control (NUL, FS..US, DEL, NEL), format
// characters that render as nothing (ZWSP, ZWNJ, ZWJ, word joiner, BOM, soft hyphen, bidi controls, Mongolian vowel
// separator), U+FFFD, non-characters, private use, a 4-byte rune, runes that turn into ASCII under case mapping or
// compatibility normalisation (KELVIN SIGN, LONG S, dotted / dotless i, full-width letters and punctuation, typographic
// quotes, MINUS SIGN) and bytes that are not UTF-8 at all (stray continuation bytes 0x80 / 0x85 / 0xA0 - NEL and NBSP of
// Latin-1 -, 0xFF, the overlong encoding of the space, truncated sequences, an encoded surrogate, a code point beyond
// U+10FFFF, half a BOM) - is a character the lexer does not recognise outside a string literal: text that carries one is
// no sentence, wherever it stands - FIRST, LAST, between two tokens, in place of a blank, alone or mixed with grammar
// whitespace - and through whichever entry point it arrives.  The population is taken from the tables of Go's unicode
// package at run time (not from a list of the runes one particular normalisation touches); whether a unit is foreign at a
// position is decided by the real lexer and by the lexer model (Lang/LexerFull.v), not here.

// c10wRunes: every blank-like rune that is not grammar whitespace, ascending
func c10wRunes() []rune {
	set := map[rune]bool{}
	for r := rune(0); r <= unicode.MaxRune; r++ {
		if unicode.IsSpace(r) || unicode.IsControl(r) ||
			unicode.In(r, unicode.Zs, unicode.Zl, unicode.Zp, unicode.White_Space, unicode.Pattern_White_Space, unicode.Bidi_Control, unicode.Join_Control) {
			set[r] = true
		}
	}
	for _, r := range []rune{
		0x00ad, 0x180e, 0x200b, 0x2060, 0x2061, 0xfeff, 0xfffd, 0xfffe, 0xffff, 0xe000, 0x1f600, 0x10ffff, // invisible / odd
		0x212a, 0x017f, 0x0130, 0x0131, 0xff41, 0xff21, 0xff11, // become ASCII letters / digits under case mapping or NFKC
		0xff08, 0xff09, 0xff1d, 0xff02, 0xff0c, 0xff3b, 0x201c, 0x201d, 0x2018, 0x2019, 0x2212, 0x3001, // look like the grammar's punctuation
	} {
		set[r] = true
	}
	for _, r := range " \t\r\n" {
		delete(set, r)
	}
	var out []rune
	for r := range set {
		out = append(out, r)
	}
	sort.Slice(out, func(i, j int) bool { return out[i] < out[j] })
	return out
}

// c10wRawUnits: byte sequences that are not well-formed UTF-8 (each byte reaches the lexer as U+FFFD)
var c10wRawUnits = []string{"\x80", "\x85", "\xa0", "\xff", "\xc0\xa0", "\xc2", "\xe2\x80", "\xed\xa0\x80", "\xf4\x90\x80\x80", "\xef\xbb", "\xc0\x8a"}

// c10wMixedUnits: foreign blanks next to grammar whitespace / to each other
var c10wMixedUnits = []string{" \v", "\v ", "\t\u00a0\n", "\u2028\r\n", "\r\n\u0085", "\u00a0\u00a0", "\ufeff ", " \x00", "\f\v", "\u3000\t", " \u2003 ", "\n\xa0"}

// c10wEveryPosition: the members of the population that the stream `ins` also inserts at EVERY position of every short
// sentence (the whole population goes to the edges, the token boundaries and the blanks: c10wCases)
var c10wEveryPosition = []rune{'\v', '\f', 0x1f, 0x85, 0xa0, 0x1680, 0x2003, 0x200b, 0x2028, 0x2029, 0x3000, 0xfeff, 0xfffd, 0x212a, 0xff41, 0x201c, 0x1f600}

func c10wUnits() []string {
	var units []string
	for _, r := range c10wRunes() {
		units = append(units, string(r))
	}
	units = append(units, c10wRawUnits...)
	units = append(units, c10wMixedUnits...)
	return units
}

// c10wCases: every unit alone, and around / inside every short valid sentence
func c10wCases(sentences []string, emit func(stream, text string)) {
	units := c10wUnits()
	for _, u := range units {
		emit("edge", u)
		emit("edge", u+u)
		emit("edge", " "+u)
		emit("edge", u+" ")
		emit("edge", " "+u+"\t")
	}
	// substitution: one character of a sentence replaced by a rune that a case mapping or a compatibility normalisation
	// maps to it (KELVIN SIGN / LONG S / dotted and dotless I for k s i, the full-width form for every printable ASCII
	// character, typographic quotes, MINUS SIGN): what case folding or NFKC in front of the parser would turn into a sentence
	for _, s := range sentences {
		rs := []rune(s)
		for i, r := range rs {
			var subs []rune
			switch r {
			case 'k', 'K':
				subs = append(subs, 0x212a)
			case 's', 'S':
				subs = append(subs, 0x017f)
			case 'i':
				subs = append(subs, 0x0131)
			case 'I':
				subs = append(subs, 0x0130)
			case '"':
				subs = append(subs, 0x201c, 0x201d)
			case '-':
				subs = append(subs, 0x2212)
			case ' ':
				subs = append(subs, 0x3000, 0xa0)
			}
			if r > 0x20 && r < 0x7f {
				subs = append(subs, r+0xfee0)
			}
			for _, sub := range subs {
				out := append([]rune{}, rs...)
				out[i] = sub
				emit("edge", string(out))
			}
		}
	}
	for si, s := range sentences {
		toks := c10Tokenize(s)
		firstWS := -1
		for i, t := range toks {
			if strings.TrimLeft(t, " \t\r\n") == "" {
				firstWS = i
				break
			}
		}
		lastWS := -1
		for i := len(toks) - 1; i >= 0; i-- {
			if strings.TrimLeft(toks[i], " \t\r\n") == "" {
				lastWS = i
				break
			}
		}
		at := func(k int, u string) string { return strings.Join(toks[:k], "") + u + strings.Join(toks[k:], "") }
		for _, u := range units {
			// the edges, bare and with grammar whitespace on the outer / inner side of the unit
			emit("edge", u+s)
			emit("edge", s+u)
			emit("edge", " "+u+s)
			emit("edge", s+u+" ")
			// a token boundary: behind the first token
			if len(toks) > 1 {
				emit("edge", at(1, u))
			}
			// in place of a blank (what a whitespace normalisation would turn back into a blank)
			if firstWS >= 0 {
				emit("edge", strings.Join(toks[:firstWS], "")+u+strings.Join(toks[firstWS+1:], ""))
			}
			if si%4 != 0 {
				continue
			}
			// every fourth sentence: more shapes
			emit("edge", u+s+u)
			emit("edge", u+" "+s)
			emit("edge", s+" "+u)
			emit("edge", "\t"+u+"\n"+s+"\r"+u+" ")
			if len(toks) > 1 {
				emit("edge", at(len(toks)/2, u))
				emit("edge", at(len(toks)-1, u))
			}
			if lastWS >= 0 {
				emit("edge", strings.Join(toks[:lastWS], "")+u+strings.Join(toks[lastWS+1:], ""))
			}
		}
	}
}
