package main

import (
	"context"
	"fmt"
	"path/filepath"
	"sort"
	"strings"
	"time"

	"github.com/openziti/storage/ast"
	"github.com/openziti/storage/boltz"
	"go.etcd.io/bbolt"
)

// C14 - RE-OPENED cursors.
//
// The query engine caches one runtime set symbol per scan (rowCursorImpl.symbolCache, filled from
// store.GetSymbol(name)) and calls OpenCursor(tx, rowId) on it for EVERY row - and for every predicate
// evaluation on a row.  The cursor handed out is the symbol itself (entitySetSymbolRuntime) or hangs off it
// (compositeEntitySetSymbol.cursor).  Opening a fresh symbol per case never sees what an earlier use left behind.
//
// Case lines (see coq/extraction/c14_driver.ml):
//   R <kind> <nseg> { <rowid> <present> <nA> A.. <nops> ops.. }*
//       ONE symbol, used for the rows of the segments one after the other; per segment the row id, whether the row
//       has the set bucket (0 = no such entity, 1 = bucket exists, 2 = entity without that bucket), the elements in
//       enumeration order and the operations performed after OpenCursor.  Observation: the tokens of every segment
//       (as for C lines), segments separated by "/".
//       kinds: rs-tags   store.GetSymbol("tags")  (string list)        Seek = SeekToString
//              rs-tagsraw GetRuntimeSymbol() of the tags symbol          Seek = Seek(stored key)
//              rs-grps   store.GetSymbol("grps")  (fk set of a link collection; rows nobody linked have no bucket)
//              rs-comp   store.GetSymbol("grps.items")      compositeEntitySetSymbol / stackedCursor, Next only
//              rs-comp3  store.GetSymbol("grps.items.tags") three levels, Next only
//   S <field> <variant> <nent> { <id> <present> <nA> A.. }* <filter>
//       a scan over the entities (ascending ids) with a filter over the set symbol <field>;
//       variant q = store.QueryIds(filter), it = store.IterateIds(parsed filter) drained;
//       filter (prefix form): E isEmpty(f) | Z isEmpty(from f where true) | =<hex> anyOf(f) = "v" | #<hex> anyOf(f) != "v"
//                             | A<hex> allOf(f) = "v" | C<n> count(f) = n | ! f | & f g | | f g
//       Observation: the ids returned (sorted), or H (the query did not return within the time limit), E (error), P (panic).

type c14Row struct {
	id      string
	present int // 0 = no such entity, 1 = bucket exists, 2 = entity without the bucket
	elems   []string
}

type c14Seg struct {
	row c14Row
	ops []c14Op
}

func c14RowString(r c14Row) string {
	return fmt.Sprintf("%s %d %s", hxs(r.id), r.present, c14Set(r.elems))
}

func c14SegsString(segs []c14Seg) string {
	parts := []string{fmt.Sprint(len(segs))}
	for _, s := range segs {
		parts = append(parts, c14RowString(s.row), c14OpsString(s.ops))
	}
	return strings.Join(parts, " ")
}

// what the database holds for (item id, field), looked at through plain bbolt
func c14Present(tx *bbolt.Tx, w *c14World, id, field string) int {
	eb := w.items.GetEntityBucket(tx, []byte(id))
	if eb == nil || eb.Bucket == nil {
		return 0
	}
	if eb.Bucket.Bucket([]byte(field)) == nil {
		return 2
	}
	return 1
}

// c14MakeItem creates item id with the given tags / grps rows (present 0 in either: no entity)
func c14MakeItem(tx *bbolt.Tx, w *c14World, grpsMade map[string]bool, id string, tags, grps c14Row) {
	if tags.present == 0 || grps.present == 0 {
		return
	}
	ctx := boltz.NewTxMutateContext(context.Background(), tx)
	c14Must(w.items.Create(ctx, &c14Item{Id: id, Tags: tags.elems}))
	if tags.present == 2 {
		// an entity written before the field existed: no bucket for it
		eb := w.items.GetEntityBucket(tx, []byte(id))
		if eb.Bucket.Bucket([]byte("tags")) != nil {
			c14Must(eb.Bucket.DeleteBucket([]byte("tags")))
		}
	}
	if grps.present == 1 {
		for _, g := range grps.elems {
			if !grpsMade[g] {
				c14Must(w.grps.Create(ctx, &c14Grp{Id: g}))
				grpsMade[g] = true
			}
		}
		c14Must(w.links.AddLinks(tx, id, grps.elems...)) // no keys: an empty bucket
	}
}

// c14ReuseRun: one symbol, OpenCursor for the row of each segment in turn
func c14ReuseRun(mkSym func() boltz.RuntimeEntitySetSymbol, tx *bbolt.Tx, segs []c14Seg, seek func(c ast.SetCursor, v string) bool) string {
	var parts []string
	var sym boltz.RuntimeEntitySetSymbol
	made := false
	for _, sg := range segs {
		sg := sg
		mk := func() ast.SetCursor {
			if !made {
				sym = mkSym()
				made = true
			}
			if sym == nil {
				return nil
			}
			return sym.OpenCursor(tx, []byte(sg.row.id))
		}
		parts = append(parts, c14RunOps(mk, sg.ops, seek))
	}
	return strings.Join(parts, " / ")
}

type c14ReuseKind struct {
	name  string
	field string
	seek  func(c ast.SetCursor, v string) bool
	mkSym func(w *c14World) boltz.RuntimeEntitySetSymbol
}

func c14SymOf(w *c14World, name string) boltz.RuntimeEntitySetSymbol {
	s, _ := w.items.GetSymbol(name).(boltz.RuntimeEntitySetSymbol)
	return s
}

var c14ReuseKinds = []c14ReuseKind{
	{name: "rs-tags", field: "tags", seek: c14SeekString, mkSym: func(w *c14World) boltz.RuntimeEntitySetSymbol { return c14SymOf(w, "tags") }},
	{name: "rs-tagsraw", field: "tags", seek: c14SeekTagged, mkSym: func(w *c14World) boltz.RuntimeEntitySetSymbol { return w.tagsSym.GetRuntimeSymbol() }},
	{name: "rs-grps", field: "grps", seek: c14SeekString, mkSym: func(w *c14World) boltz.RuntimeEntitySetSymbol { return c14SymOf(w, "grps") }},
	{name: "rs-comp", field: "grps.items", seek: c14SeekPlain, mkSym: func(w *c14World) boltz.RuntimeEntitySetSymbol { return c14SymOf(w, "grps.items") }},
	{name: "rs-comp3", field: "grps.items.tags", seek: c14SeekPlain, mkSym: func(w *c14World) boltz.RuntimeEntitySetSymbol {
		return c14SymOf(w, "grps.items.tags")
	}},
}

func c14ReuseKindOf(name string) *c14ReuseKind {
	for i := range c14ReuseKinds {
		if c14ReuseKinds[i].name == name {
			return &c14ReuseKinds[i]
		}
	}
	return nil
}

func (o *c14Out) reuseCase(k *c14ReuseKind, w *c14World, tx *bbolt.Tx, segs []c14Seg) {
	line := fmt.Sprintf("R %s %s", k.name, c14SegsString(segs))
	watchdogBeat(line)
	o.emit(k.name, line, c14ReuseRun(func() boltz.RuntimeEntitySetSymbol { return k.mkSym(w) }, tx, segs, k.seek))
}

// ---- the fixed world of the composite symbols ----------------------------------------------------------------
// items p q r s with tags, groups g1..g4; p -> g1 g2, q -> g1, r -> nothing (no grps bucket), s -> g3; g4 empty.

var c14CompItems = []string{"p", "q", "r", "s"}
var c14CompTags = map[string][]string{"p": {"a", "b"}, "q": {}, "r": {"b"}, "s": {"ab"}}
var c14CompLinks = map[string][]string{"p": {"g1", "g2"}, "q": {"g1"}, "r": nil, "s": {"g3"}}

func c14CompBuild(tx *bbolt.Tx, w *c14World) {
	ctx := boltz.NewTxMutateContext(context.Background(), tx)
	w.initIndexes(tx)
	for _, g := range []string{"g1", "g2", "g3", "g4"} {
		c14Must(w.grps.Create(ctx, &c14Grp{Id: g}))
	}
	for _, id := range c14CompItems {
		c14Must(w.items.Create(ctx, &c14Item{Id: id, Tags: c14CompTags[id]}))
	}
	for _, id := range c14CompItems {
		if l := c14CompLinks[id]; len(l) > 0 {
			c14Must(w.links.AddLinks(tx, id, l...))
		}
	}
}

// what "grps.items" / "grps.items.tags" enumerate for an item: group by group (ascending), the items of the group
// (ascending), for the three-level symbol their tags (ascending) - a concatenation, duplicates included
func c14CompExpected(id string, withTags bool) []string {
	var out []string
	groups := append([]string(nil), c14CompLinks[id]...)
	sort.Strings(groups)
	for _, g := range groups {
		var members []string
		for _, it := range c14CompItems {
			for _, x := range c14CompLinks[it] {
				if x == g {
					members = append(members, it)
				}
			}
		}
		sort.Strings(members)
		for _, m := range members {
			if !withTags {
				out = append(out, m)
				continue
			}
			tags := append([]string(nil), c14CompTags[m]...)
			sort.Strings(tags)
			out = append(out, tags...)
		}
	}
	return out
}

func c14CompRows(tx *bbolt.Tx, w *c14World, withTags bool) []c14Row {
	var rows []c14Row
	for _, id := range append(append([]string(nil), c14CompItems...), "nobody") {
		rows = append(rows, c14Row{id: id, present: c14Present(tx, w, id, "grps"), elems: c14CompExpected(id, withTags)})
	}
	return rows
}

// ---- filters -----------------------------------------------------------------------------------------------------

// prefix tokens -> query text
func c14FilterText(field string, toks []string, pos *int) string {
	t := toks[*pos]
	*pos++
	q := func(h string) string { return `"` + string(unhx(h)) + `"` }
	switch t[0] {
	case 'E':
		return "isEmpty(" + field + ")"
	case 'Z':
		return "isEmpty(from " + field + " where true)"
	case '=':
		return "anyOf(" + field + ") = " + q(t[1:])
	case '#':
		return "anyOf(" + field + ") != " + q(t[1:])
	case 'A':
		return "allOf(" + field + ") = " + q(t[1:])
	case 'C':
		return "count(" + field + ") = " + t[1:]
	case '!':
		return "not (" + c14FilterText(field, toks, pos) + ")"
	case '&':
		a := c14FilterText(field, toks, pos)
		b := c14FilterText(field, toks, pos)
		return "(" + a + ") and (" + b + ")"
	case '|':
		a := c14FilterText(field, toks, pos)
		b := c14FilterText(field, toks, pos)
		return "(" + a + ") or (" + b + ")"
	}
	panic("bad filter token " + t)
}

var c14Hangs int
var c14HangLimit = 2

// c14ScanRun runs the query in its own goroutine and read transaction; a query that does not come back is
// abandoned (it keeps its transaction: the database is then not closed any more)
func c14ScanRun(db *bbolt.DB, w *c14World, variant, text string, limit time.Duration) string {
	done := make(chan string, 1)
	go func() {
		res := "P"
		defer func() {
			if r := recover(); r != nil {
				res = "P"
			}
			done <- res
		}()
		_ = db.View(func(tx *bbolt.Tx) error {
			var ids []string
			switch variant {
			case "q":
				got, _, err := w.items.QueryIds(tx, text)
				if err != nil {
					res = "E"
					return nil
				}
				ids = got
			case "it":
				query, err := ast.Parse(w.items, text)
				if err != nil {
					res = "E"
					return nil
				}
				n := 0
				for c := w.items.IterateIds(tx, query); c.IsValid(); c.Next() {
					ids = append(ids, string(c.Current()))
					if n++; n > 1000 {
						res = "H" // an id cursor that never ends
						return nil
					}
				}
			}
			sort.Strings(ids)
			parts := []string{fmt.Sprint(len(ids))}
			for _, id := range ids {
				parts = append(parts, hxs(id))
			}
			res = strings.Join(parts, " ")
			return nil
		})
	}()
	select {
	case r := <-done:
		return r
	case <-time.After(limit):
		c14Hangs++
		return "H"
	}
}

func (o *c14Out) scanCase(db *bbolt.DB, w *c14World, field, variant string, rows []c14Row, filter []string) {
	if c14Hangs >= c14HangLimit {
		return // abandoned queries are still spinning; the classes they belong to have been reported
	}
	parts := []string{"S", field, variant, fmt.Sprint(len(rows))}
	for _, r := range rows {
		parts = append(parts, c14RowString(r))
	}
	parts = append(parts, filter...)
	line := strings.Join(parts, " ")
	watchdogBeat(line)
	pos := 0
	text := c14FilterText(field, filter, &pos)
	o.emit("scan-"+field, line, c14ScanRun(db, w, variant, text, 10*time.Second))
}

func c14Filters(field string, vals []string, fk bool) [][]string {
	a, b := hxs(vals[0]), hxs(vals[1])
	fs := [][]string{
		{"E"}, {"!", "E"}, {"=" + a}, {"=" + b}, {"#" + a}, {"A" + a}, {"C0"}, {"C1"}, {"C2"},
		{"|", "C9", "!", "E"},   // count drains, "not isEmpty" re-opens and leaves the cursor on the first element
		{"&", "!", "E", "C1"},   // two evaluations per row
		{"|", "=" + a, "E"},     // a seek leaves the cursor in the middle
		{"|", "A" + b, "#" + a}, // the loops leave it where they stopped
		{"&", "!", "=" + b, "!", "E"},
	}
	if fk {
		fs = append(fs, []string{"Z"}, []string{"!", "Z"}, []string{"|", "C9", "!", "Z"})
	}
	return fs
}

// ---- generation ----------------------------------------------------------------------------------------------------

func c14Reuse(dir string, out *c14Out, thorough bool) error {
	// (1) direct re-use of one symbol
	db, err := bbolt.Open(filepath.Join(dir, "reuse.db"), 0o600, nil)
	if err != nil {
		return err
	}
	w := c14NewWorld("r")
	cw := c14NewWorld("c")
	holder := func(mask int) string { return fmt.Sprintf("t%02d", mask) }
	c14Must(db.Update(func(tx *bbolt.Tx) error {
		w.initIndexes(tx)
		made := map[string]bool{}
		for mask := 0; mask < 32; mask++ {
			grps := c14Row{present: 1, elems: c14Subset(c14IdU, mask)}
			if mask == 0 {
				grps.present = 2
			}
			c14MakeItem(tx, w, made, holder(mask), c14Row{present: 1, elems: c14Subset(c14ElemU, mask)}, grps)
		}
		c14MakeItem(tx, w, made, "tnb", c14Row{present: 2}, c14Row{present: 2})
		c14MakeItem(tx, w, made, "tev", c14Row{present: 1}, c14Row{present: 1})
		c14CompBuild(tx, cw)
		return nil
	}))
	err = db.View(func(tx *bbolt.Tx) error {
		rowsOf := func(field string) []c14Row {
			u := c14ElemU
			if field == "grps" {
				u = c14IdU
			}
			var rows []c14Row
			for mask := 0; mask < 32; mask++ {
				r := c14Row{id: holder(mask), present: c14Present(tx, w, holder(mask), field)}
				if r.present == 1 {
					r.elems = c14Subset(u, mask)
				}
				rows = append(rows, r)
			}
			for _, id := range []string{"tnb", "tev", "nobody"} {
				rows = append(rows, c14Row{id: id, present: c14Present(tx, w, id, field)})
			}
			return rows
		}
		firstMasks := []int{1, 2, 6, 11, 31}
		maxDepth := 2
		if thorough {
			firstMasks = []int{1, 2, 3, 4, 6, 8, 11, 16, 21, 26, 30, 31}
			maxDepth = 3
		}
		var firstOps [][]c14Op
		for d := 0; d <= maxDepth; d++ {
			firstOps = append(firstOps, c14Seqs(c14TargetsSmall, d)...)
		}
		secondOps := [][]c14Op{{{}, {}}, {{seek: true, v: "a"}, {}}}
		for i := range c14ReuseKinds {
			k := &c14ReuseKinds[i]
			if k.field != "tags" && k.field != "grps" {
				continue
			}
			rows := rowsOf(k.field)
			for _, fm := range firstMasks {
				for _, ops1 := range firstOps {
					for _, r2 := range rows {
						for _, ops2 := range secondOps {
							out.reuseCase(k, w, tx, []c14Seg{{row: rows[fm], ops: ops1}, {row: r2, ops: ops2}, {row: rows[6], ops: []c14Op{{}}}})
						}
					}
				}
			}
			// the smallest shape: open on a row, open on the next
			for _, fm := range firstMasks {
				for _, r2 := range rows {
					out.reuseCase(k, w, tx, []c14Seg{{row: rows[fm]}, {row: r2, ops: c14NextOnly(1)}})
				}
			}
			// the symbol was never opened on a row with elements; the same row twice; long chains
			for _, r1 := range rows {
				out.reuseCase(k, w, tx, []c14Seg{{row: r1, ops: c14NextOnly(1)}, {row: r1, ops: c14NextOnly(len(r1.elems) + 1)}})
			}
			var chain []c14Seg
			for i, r := range rows {
				chain = append(chain, c14Seg{row: r, ops: c14NextOnly(i % 3)})
			}
			out.reuseCase(k, w, tx, chain)
		}
		for _, name := range []string{"rs-comp", "rs-comp3"} {
			k := c14ReuseKindOf(name)
			rows := c14CompRows(tx, cw, name == "rs-comp3")
			for _, r1 := range rows {
				for _, n1 := range []int{0, 1, 2, len(r1.elems) + 1} {
					for _, r2 := range rows {
						for _, r3 := range rows {
							out.reuseCase(k, cw, tx, []c14Seg{{row: r1, ops: c14NextOnly(n1)}, {row: r2, ops: c14NextOnly(len(r2.elems) + 2)}, {row: r3, ops: c14NextOnly(1)}})
						}
					}
				}
			}
		}
		return nil
	})
	if err != nil {
		return err
	}

	// (2) scans: all worlds first (one transaction), then only reads
	nent := 3
	if thorough {
		nent = 4
	}
	type rowKind struct {
		present int
		mask    int
	}
	kinds := []rowKind{{2, 0}, {1, 0}, {1, 1}, {1, 2}, {1, 3}} // no bucket, empty, {a}, {b}, {a, b}
	vals := []string{"a", "b"}
	nworlds := 1
	for i := 0; i < nent; i++ {
		nworlds *= len(kinds)
	}
	type scanWorld struct {
		w    *c14World
		kind []rowKind
	}
	worlds := make([]scanWorld, nworlds)
	c14Must(db.Update(func(tx *bbolt.Tx) error {
		for wi := range worlds {
			sw := scanWorld{w: c14NewWorld(fmt.Sprintf("s%d", wi))}
			sw.w.initIndexes(tx)
			made := map[string]bool{}
			x := wi
			for e := 0; e < nent; e++ {
				rk := kinds[x%len(kinds)]
				x /= len(kinds)
				sw.kind = append(sw.kind, rk)
				row := c14Row{present: rk.present, elems: c14Subset(vals, rk.mask)}
				c14MakeItem(tx, sw.w, made, fmt.Sprintf("x%d", e+1), row, row)
			}
			worlds[wi] = sw
		}
		return nil
	}))
	for _, sw := range worlds {
		for _, field := range []string{"tags", "grps"} {
			var rows []c14Row
			c14Must(db.View(func(tx *bbolt.Tx) error {
				for e, rk := range sw.kind {
					id := fmt.Sprintf("x%d", e+1)
					r := c14Row{id: id, present: c14Present(tx, sw.w, id, field)}
					if r.present == 1 {
						r.elems = c14Subset(vals, rk.mask)
					}
					rows = append(rows, r)
				}
				return nil
			}))
			for _, f := range c14Filters(field, vals, field == "grps") {
				for _, variant := range []string{"q", "it"} {
					out.scanCase(db, sw.w, field, variant, rows, f)
				}
			}
		}
	}
	// scans over the composite symbols
	for _, field := range []string{"grps.items", "grps.items.tags"} {
		var rows []c14Row
		c14Must(db.View(func(tx *bbolt.Tx) error {
			rows = c14CompRows(tx, cw, field == "grps.items.tags")
			return nil
		}))
		rows = rows[:len(rows)-1] // "nobody" is not scanned
		v := []string{"p", "q"}
		if field == "grps.items.tags" {
			v = []string{"a", "b"}
		}
		for _, f := range c14Filters(field, v, false) {
			for _, variant := range []string{"q", "it"} {
				out.scanCase(db, cw, field, variant, rows, f)
			}
		}
	}
	if c14Hangs == 0 {
		return db.Close()
	}
	return nil
}

// ---- replay ------------------------------------------------------------------------------------------------------------

func c14ReplayReuse(dir string, out *c14Out, line string) error {
	f := strings.Fields(line)
	pos := 0
	next := func() string { pos++; return f[pos-1] }
	atoi := func(s string) int { n := 0; fmt.Sscan(s, &n); return n }
	readRow := func() c14Row {
		r := c14Row{id: string(unhx(next())), present: atoi(next())}
		n := atoi(next())
		for i := 0; i < n; i++ {
			r.elems = append(r.elems, string(unhx(next())))
		}
		return r
	}
	db, err := bbolt.Open(filepath.Join(dir, "r.db"), 0o600, nil)
	if err != nil {
		return err
	}
	head := next()
	w := c14NewWorld("w")
	build := func(field string, rows []c14Row) {
		c14Must(db.Update(func(tx *bbolt.Tx) error {
			if strings.HasPrefix(field, "grps.") {
				c14CompBuild(tx, w)
				return nil
			}
			w.initIndexes(tx)
			made := map[string]bool{}
			seen := map[string]bool{}
			for _, r := range rows {
				if seen[r.id] {
					continue
				}
				seen[r.id] = true
				other := c14Row{present: 2}
				if r.present == 0 {
					other.present = 0
				}
				if field == "tags" {
					c14MakeItem(tx, w, made, r.id, r, other)
				} else {
					other.present = r.present
					if other.present == 2 {
						other.present = 1
					}
					c14MakeItem(tx, w, made, r.id, other, r)
				}
			}
			return nil
		}))
	}
	switch head {
	case "R":
		k := c14ReuseKindOf(next())
		if k == nil {
			return fmt.Errorf("bad replay line %q", line)
		}
		nseg := atoi(next())
		var segs []c14Seg
		var rows []c14Row
		for i := 0; i < nseg; i++ {
			sg := c14Seg{row: readRow()}
			n := atoi(next())
			for j := 0; j < n; j++ {
				sg.ops = append(sg.ops, c14ParseOp(next()))
			}
			segs = append(segs, sg)
			rows = append(rows, sg.row)
		}
		build(k.field, rows)
		err := db.View(func(tx *bbolt.Tx) error {
			out.emit(k.name, line, c14ReuseRun(func() boltz.RuntimeEntitySetSymbol { return k.mkSym(w) }, tx, segs, k.seek))
			return nil
		})
		db.Close()
		return err
	case "S":
		field := next()
		variant := next()
		nent := atoi(next())
		var rows []c14Row
		for i := 0; i < nent; i++ {
			rows = append(rows, readRow())
		}
		filter := f[pos:]
		build(field, rows)
		p := 0
		out.emit("scan-"+field, line, c14ScanRun(db, w, variant, c14FilterText(field, filter, &p), 10*time.Second))
		if c14Hangs == 0 {
			db.Close()
		}
		return nil
	}
	return fmt.Errorf("bad replay line %q", line)
}
