package main

import (
	"encoding/hex"
	"fmt"
	"sort"
	"strconv"
	"strings"

	"github.com/openziti/storage/boltz"
)

// C05, seventh wave (s9-c05).
//
// 1. Links written through the ENTITY STRATEGY (model: coq/theories/Links/HierStrategy.v).  An entity carries
//    the value of a link field; the strategy of its store persists it with PersistContext.SetLinkedIds inside
//    store.Create / store.Update; a child store's strategy runs the parent strategy on ctx.GetParentContext()
//    first.  Operations of T / K cases:
//      CS <lv> sd x <pair> <n> <id>..   Create through the store of level lv, link field of <pair> = ids
//      US <lv> sd x <pair> <n> <id>..   Update through the store of level lv, link field of <pair> = ids
//    The field must belong to the store of level lv or to its parent (the root store), otherwise the harness
//    refuses the operation (as the model does: field_of).
//
// 2. Ids at the key size limits of the storage (case tag Z, a history of the flat machine).  A link is stored as
//    a KEY <type tag><peer id> in the link bucket of each side and bbolt refuses keys longer than MaxKeySize
//    (32768), while bucket names (entity ids) are not size checked: an id of 32767 bytes can be linked from both
//    sides, an id of 32768 bytes can be written on neither ... or on one side only.  Long ids are written
//    <hex prefix>*<length> in the case text: the prefix padded with 'z' to the length.

const c05MaxLinkId = 32767 // bbolt.MaxKeySize - 1 (the type tag of a typed key)

func c05Hx(id string) string {
	if len(id) > 64 {
		n := len(id)
		i := n
		for i > 0 && id[i-1] == 'z' {
			i--
		}
		if n-i > 32 {
			return hxs(id[:i]) + "*" + strconv.Itoa(n)
		}
	}
	return hxs(id)
}

func c05Unhx(tok string) string {
	if i := strings.IndexByte(tok, '*'); i >= 0 {
		n, err := strconv.Atoi(tok[i+1:])
		if err != nil {
			panic(err)
		}
		var pre []byte
		if tok[:i] != "-" {
			if pre, err = hex.DecodeString(tok[:i]); err != nil {
				panic(err)
			}
		}
		if n < len(pre) {
			panic("c05: padded id shorter than its prefix")
		}
		return string(pre) + strings.Repeat("z", n-len(pre))
	}
	return string(unhx(tok))
}

// fieldOf: the strategy of the store of level lv (side sd) persists the link field of pair p
func (t c05HTopo) fieldOf(sd, lv, p int) bool {
	return p >= 0 && p < len(t.pairs) && (t.pairs[p][sd] == lv || t.pairs[p][sd] == 0)
}

func (w *c05HWorld) c05SApply(ctx boltz.MutateContext, op c05HOp) error {
	if op.w < 0 || op.w >= len(w.level[op.sd]) {
		return fmt.Errorf("no store of level %d", op.w)
	}
	p := int(op.count)
	if !w.topo.fieldOf(op.sd, op.w, p) {
		return fmt.Errorf("the strategy of store level %d does not persist the field of pair %d", op.w, p)
	}
	st := w.level[op.sd][op.w]
	e := &c05Ent{Id: op.a, typ: st.typ}
	if w.topo.hasPlain(p) {
		e.sets = map[string][]string{w.cell[p].store[op.sd].field: append([]string{}, op.keys...)}
	}
	var err error
	if op.kind == "CS" {
		err = st.Create(ctx, e)
	} else {
		err = st.Update(ctx, e, nil)
	}
	if err == nil && !w.topo.hasPlain(p) {
		// no link collection registered for the field: nothing can persist it (the model refuses the SetLinks)
		return fmt.Errorf("no link collection registered for the field of pair %d", p)
	}
	return err
}

// ---- generator: strategy operations ------------------------------------------------------------------------

func (g *c05HGen) stratFails(op c05HOp, pres [2][]map[string]bool) bool {
	p := int(op.count)
	if op.w < 0 || op.w >= len(pres[op.sd]) || !g.topo.fieldOf(op.sd, op.w, p) || !g.topo.hasPlain(p) {
		return true
	}
	if op.kind == "CS" {
		if pres[op.sd][0][op.a] {
			return true
		}
	} else if !pres[op.sd][op.w][op.a] {
		return true
	}
	peers := g.cellPresence(pres, p)[1-op.sd]
	for _, k := range op.keys {
		if !peers[k] {
			return true
		}
	}
	return false
}

// stratPairs: the pairs whose field the strategy of store (sd, lv) persists, those with a link collection first
func (g *c05HGen) stratPairs(sd, lv int) []int {
	var yes, no []int
	for p := range g.topo.pairs {
		if g.topo.fieldOf(sd, lv, p) {
			if g.topo.hasPlain(p) {
				yes = append(yes, p)
			} else {
				no = append(no, p)
			}
		}
	}
	if len(yes) > 0 && (len(no) == 0 || !g.r.chance(4)) {
		return yes
	}
	return no
}

func (g *c05HGen) stratKeys(pres [2][]map[string]bool, p, od int, wantPresent int) []string {
	flat := &c05Gen{r: g.r, uni: g.uni, ghost: [2]map[string]bool{{}, {}}, present: g.cellPresence(pres, p), stats: g.stats}
	return flat.keyList(od, 4, wantPresent)
}

func (g *c05HGen) genStratOp(pres [2][]map[string]bool) (c05HOp, bool) {
	r := g.r
	sd := r.intn(2)
	var in, out []string
	for _, x := range g.uni[sd] {
		if pres[sd][0][x] {
			in = append(in, x)
		} else {
			out = append(out, x)
		}
	}
	create := len(out) > 0 && (len(in) == 0 || r.chance(35))
	var lv int
	var x string
	if create {
		x, lv = r.pick(out), g.pickLevel(sd)
	} else if len(in) > 0 {
		x = r.pick(in)
		// through a store that holds the entity (the root store or the child it was created through); rarely another
		var lvs []int
		for k := range pres[sd] {
			if pres[sd][k][x] {
				lvs = append(lvs, k)
			}
		}
		lv = lvs[r.intn(len(lvs))]
		if r.chance(6) {
			lv = r.intn(len(pres[sd]))
		}
	} else {
		return c05HOp{}, false
	}
	ps := g.stratPairs(sd, lv)
	if len(ps) == 0 {
		return c05HOp{}, false
	}
	p := ps[r.intn(len(ps))]
	kind := "US"
	if create {
		kind = "CS"
	}
	g.stats["strategy_op_"+kind]++
	return c05HOp{w: lv, c05Op: c05Op{kind: kind, sd: sd, a: x, count: int64(p), keys: g.stratKeys(pres, p, 1-sd, 93)}}, true
}

// stratScenario: a create or an update through any store of the family whose link field (of the store itself or
// of its parent) names the existing peers and, mostly, one entity that does not exist in the peer store; after an
// update that passes, the same entity is updated once more with a missing target (the half applied SetLinks)
func (g *c05HGen) stratScenario(pres [2][]map[string]bool) []c05HOp {
	r := g.r
	sd := r.intn(2)
	op, ok := g.genStratOp(pres)
	for try := 0; try < 6 && (!ok || op.sd != sd); try++ {
		op, ok = g.genStratOp(pres)
	}
	if !ok {
		return nil
	}
	p := int(op.count)
	peers := g.cellPresence(pres, p)[1-op.sd]
	var have, miss []string
	for _, k := range g.uni[1-op.sd] {
		if peers[k] {
			have = append(have, k)
		} else {
			miss = append(miss, k)
		}
	}
	keys := append([]string{}, have...)
	if len(keys) > 1 && r.chance(50) {
		keys = keys[:1+r.intn(len(keys))]
	}
	good := op
	good.keys = append([]string{}, keys...)
	if len(miss) == 0 || r.chance(25) {
		return []c05HOp{good}
	}
	bad := op
	bad.keys = append(append([]string{}, keys...), r.pick(miss))
	if r.chance(50) {
		sort.Sort(sort.Reverse(sort.StringSlice(bad.keys)))
	}
	if op.kind == "US" && r.chance(50) {
		return []c05HOp{good, bad}
	}
	return []c05HOp{bad}
}

// ---- generator: ids at the key size limits -------------------------------------------------------------------

func c05ZId(prefix string, n int) string {
	if n <= len(prefix) {
		return prefix[:n]
	}
	return prefix + strings.Repeat("z", n-len(prefix))
}

// c05ZCases: for every pair of id lengths (one entity per side; short, MaxKeySize-2 .. MaxKeySize, thorough: +1)
// and every linking operation of both kinds of collection, from either side: create everything, link two short
// entities, run the operation, run it from the other side, delete one end.  Whatever the storage answers, both
// sides have to agree after every transaction.
func c05ZCases(thorough bool, emit func(string)) int {
	lens := []int{1, c05MaxLinkId - 1, c05MaxLinkId, c05MaxLinkId + 1}
	if thorough {
		lens = append(lens, c05MaxLinkId+2)
	}
	kinds := []string{"AL", "SL", "A1", "I", "SC"}
	n := 0
	for _, la := range lens {
		for _, lb := range lens {
			if la == 1 && lb == 1 {
				continue
			}
			for ki, kind := range kinds {
				for sd := 0; sd < 2; sd++ {
					if !thorough && la > 1 && lb > 1 && (ki+sd)%2 == 1 {
						continue // quick tier: half of the combinations in which both ids are long
					}
					x, y := c05ZId("m", la), c05ZId("n", lb)
					uA, uB := []string{"a", x}, []string{"b", y}
					if la == 1 {
						uA = []string{"a", "m"}
					}
					if lb == 1 {
						uB = []string{"b", "n"}
					}
					ends := [2]string{x, y}
					mk := func(sd int) c05Op {
						op := c05Op{kind: kind, sd: sd, a: ends[sd], keys: []string{ends[1-sd]}}
						switch kind {
						case "AL":
							op.keys = []string{[]string{"a", "b"}[1-sd], ends[1-sd]}
						case "SC":
							op.count = 2
						}
						return op
					}
					txs := [][]c05Op{
						{{kind: "C", sd: 0, a: uA[0]}, {kind: "C", sd: 0, a: uA[1]}, {kind: "C", sd: 1, a: uB[0]}, {kind: "C", sd: 1, a: uB[1]}},
						{{kind: "AL", sd: 0, a: "a", keys: []string{"b"}}, {kind: "I", sd: 1, a: "b", keys: []string{"a"}}},
						{mk(sd)},
						{mk(1 - sd)},
						{{kind: "D", sd: sd, a: ends[sd]}},
					}
					line := c05HistoryText(uA, uB, txs)
					emit("Z" + line[1:])
					n++
				}
			}
		}
	}
	return n
}
