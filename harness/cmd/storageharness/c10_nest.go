package main

import (
	"github.com/openziti/storage/ast"
	"github.com/openziti/storage/boltz"
)

// C10, scopes of nested sub-queries over stores whose symbol NAMES CLASH.
//
// A filter is validated and typed scope by scope: the symbols of `from A where ...` belong to the store A links to,
// the symbols behind the closing parenthesis belong to the enclosing store again.  Whether that bookkeeping is right
// can only be seen when (1) sub-queries are nested (a stack of two entries restores in the right order whichever end
// it is popped from only while it holds ONE entry), (2) a symbol is used AFTER the nested sub-query - in the outermost
// scope and in every scope in between -, (3) the same NAME means something of another kind in the stores of the chain:
// a scalar in one, a set / fk set / map in another (then a symbol checked against the wrong table is accepted although
// it is a set in a scalar position, a scalar in a set function, unknown ...), and (4) the filter is evaluated on rows
// that reach the symbol (a set symbol read in a scalar position has no open cursor).
//
// Schema (added to the three stores of c10_store.go, all roots): 36 names q<kM><kS><kL>, one per ORDERED PAIR of kinds in
// (mains, subs); the kind in leaves is (kM + kS) mod 6, an orthogonal array: every ordered pair of kinds also occurs for
// (subs, leaves) and for (mains, leaves), so for every scope store X, every other store Y of a chain and every pair of
// kinds there is a name that is the one in X and the other in Y.  Kinds:
//
//	s scalar string   i scalar int64   k fk (one linked entity)   t string set   u fk set   m map
//
// fk / fk set symbols link to the next store of the cycle mains -> subs -> leaves -> mains, so that the dotted forms
// N.s, N.i, N.xss (s, i, xss exist in all three stores) are: a scalar through a fk, a SET through a fk set, a map element
// (scalar) of a map, unknown for s / i / t.  leaves.owners -> mains closes the cycle for sub-queries of depth 3.
//
// Filters (stream boltnest, typing store): every use T of every name (scalar comparison of N, N.s, N.xss, N.i; anyOf /
// isEmpty / sub-query over N and N.s; in-list; sort by N.s) and of ten symbols without clash, placed
//   - in the OUTER scope behind a sub-query of depth 1, 2 and 3 over every order of the stores (`P and T` with P true on
//     every row, `P or T` with P false on every row: every row reaches T),
//   - in a MIDDLE scope behind the inner sub-query (T is then about the store of that scope: subs, leaves, or mains
//     reached again through owners).
//
// The oracle is the black-box one of the property: ast.Parse returns a query or an error, and a query that parses is
// evaluated through every Store query API over every root without panic.
var c10nKinds = []byte("siktum")

type c10nName struct {
	name  string
	kinds [3]byte // kind in mains, subs, leaves
}

func c10nNames() []c10nName {
	var out []c10nName
	for i, km := range c10nKinds {
		for j, ks := range c10nKinds {
			kl := c10nKinds[(i+j)%len(c10nKinds)]
			out = append(out, c10nName{name: "q" + string([]byte{km, ks, kl}), kinds: [3]byte{km, ks, kl}})
		}
	}
	return out
}

// c10nAddClashSymbols: called by c10sBuild for the stores of every root
func c10nAddClashSymbols(f *c10sFamily) {
	stores := []*boltz.BaseStore[boltz.Entity]{f.main, f.sub, f.leaf}
	for _, n := range c10nNames() {
		for k, st := range stores {
			next := stores[(k+1)%len(stores)]
			switch n.kinds[k] {
			case 's':
				st.AddSymbol(n.name, ast.NodeTypeString)
			case 'i':
				st.AddSymbol(n.name, ast.NodeTypeInt64)
			case 'k':
				st.AddFkSymbol(n.name, next)
			case 't':
				st.AddSetSymbol(n.name, ast.NodeTypeString)
			case 'u':
				st.AddFkSetSymbol(n.name, next)
			case 'm':
				st.AddMapSymbol(n.name, ast.NodeTypeAnyType, n.name)
			}
		}
	}
	f.leaf.AddFkSetSymbol("owners", f.main)
}

// c10nWriteClash writes a value for every clash name into a FULL entity of store number k (0 mains, 1 subs, 2 leaves);
// the other profiles (never written, nil, ...) do not have the fields
func c10nWriteClash(e *boltz.TypedBucket, k int) {
	full := []string{"m1-full", "s1-full", "l1-full"}[(k+1)%3]
	others := [][]string{{"m2-full", "m3-absent", "nope"}, {"s2-absent", "s3-nil", "zz-dangling"}, {"l2-absent", "gone"}}[(k+1)%3]
	for _, n := range c10nNames() {
		switch n.kinds[k] {
		case 's':
			e.SetString(n.name, "s", nil)
		case 'i':
			e.SetInt64(n.name, 1, nil)
		case 'k':
			e.SetString(n.name, full, nil)
		case 't':
			c10sSetList(e, n.name, c10sStrs("a", "s"))
		case 'u':
			c10sSetList(e, n.name, c10sStrs(append([]string{full}, others...)...))
		case 'm':
			e.PutMap(n.name, map[string]interface{}{"s": "s", "i": int64(1), "xss": "s", "k": "s"}, nil, false)
		}
	}
	if k == 2 {
		c10sSetList(e, "owners", c10sStrs("m1-full", "m3-absent", "nope"))
	}
	if e.HasError() {
		panic(e.GetError())
	}
}

// c10nUses: what a filter can do with the name N behind a sub-query
func c10nUses(n string) []string {
	return []string{
		n + ` = "s"`,
		n + `.s = "s"`,
		n + `.xss = "s"`,
		n + `.i > 0`,
		n + `.s in ["a", "s"]`,
		`anyOf(` + n + `) = "s"`,
		`anyOf(` + n + `.s) = "s"`,
		`isEmpty(` + n + `)`,
		`isEmpty(from ` + n + ` where true)`,
	}
}

// c10nPlain: uses of symbols whose kind is the same in every store that knows them (a set stays a set: only the set-function
// context is wrong), and of symbols that only ONE store of the chain knows
var c10nPlain = []string{`xks.s = "s"`, `xms.xk.s = "s"`, `xk.xks.s = "s"`, `xss = "s"`, `xk.s = "s"`, `tags.k = "s"`, `s = "s"`, `owners.s = "s"`, `x = 1`, `v = 1`,
	`anyOf(xks.s) = "s"`, `anyOf(xk.s) = "s"`, `anyOf(owners.s) = "s"`, `isEmpty(from owners where true)`}

// c10nFrames: a frame puts the use T behind a sub-query; the stores of the scopes are named in the comment (M mains, S subs,
// L leaves), T's scope in brackets.  P is constant over the rows (count >= 0 is true, count < 0 is false), so `P and T` / `P or
// T` evaluate T on every row of the scope.
var c10nFrames = []struct {
	pre, post string
	quick     bool // part of the quick tier
}{
	// outer scope [M], depth 1
	{`count(from xks where true) >= 0 and `, ``, true},                   // [M] S
	{`count(from xms where a) < 0 or `, ``, true},                        // [M] M
	{`isEmpty(from xks where false) and `, ` sort by id limit 3`, false}, // [M] S
	// depth 2
	{`count(from xks where count(from xks where true) >= 0) >= 0 and `, ``, true},  // [M] S L
	{`count(from xks where count(from owners where true) >= 0) < 0 or `, ``, true}, // [M] S M
	{`count(from xms where isEmpty(from xks where false)) >= 0 and `, ``, true},    // [M] M S
	// depth 3
	{`count(from xks where count(from xks where count(from owners where true) >= 0) >= 0) >= 0 and `, ``, true}, // [M] S L M
	{`count(from xks where isEmpty(from owners where count(from xks where true) < 0)) < 0 or `, ``, true},       // [M] S M S
	{`count(from xms where count(from xks where count(from xks where a) >= 0) >= 0) >= 0 and `, ``, false},      // [M] M S L
	// a middle scope behind the inner sub-query
	{`count(from xks where count(from xks where true) >= 0 and `, `) >= 0`, true},                                  // M [S] L
	{`count(from xks where count(from owners where true) < 0 or `, `) >= 0`, true},                                 // M [S] M
	{`count(from xks where count(from xks where count(from owners where true) >= 0 and `, `) >= 0) >= 0`, true},    // M S [L] M
	{`count(from xks where count(from xks where count(from owners where true) >= 0) >= 0 and `, `) >= 0`, false},   // M [S] L M
	{`count(from xks where count(from owners where count(from xks where true) >= 0 and `, `) >= 0) >= 0`, true},    // M S [M] S
	{`not isEmpty(from xks where isEmpty(from xks where isEmpty(from owners where a) and `, `) or a) or b`, false}, // M S [L] M, data dependent
}

// c10nFilters: the population of the stream boltnest
func c10nFilters(thorough bool, emit func(stream, filter string)) {
	var uses []string
	for _, n := range c10nNames() {
		uses = append(uses, c10nUses(n.name)...)
	}
	uses = append(uses, c10nPlain...)
	for _, fr := range c10nFrames {
		if !fr.quick && !thorough {
			continue
		}
		for _, t := range uses {
			emit("boltnest", fr.pre+t+fr.post)
		}
	}
	// sort clauses behind a nested sub-query: the sort symbols belong to the outer scope as well
	for _, n := range c10nNames() {
		for _, key := range []string{n.name, n.name + ".s"} {
			emit("boltnest", `count(from xks where count(from xks where true) >= 0) >= 0 sort by `+key)
			emit("boltnest", `count(from xks where count(from owners where true) >= 0 sort by `+key+` limit 2) >= 0 sort by `+key+` desc`)
		}
	}
	// the uses on their own (no sub-query in front): what the store says about T itself
	for _, t := range uses {
		emit("nestuse", t)
	}
}
