package main

// C08, fifth strengthening round: HOW a caller hands the additional change types to
//
//	store.AddEntityEventListener / AddEntityEventListenerF / AddListener / AddEntityIdListener(l, first, rest...)
//
// Until now every registration of the harness spelled its types out (a fresh slice per call).  Callers that
// register many listeners build the additional types ONCE - make(.., 0, n) + append - and pass that slice with
// `rest...` to several registrations, re-fill it between registrations, or go on using its memory afterwards.  A
// variadic call hands the callee the caller's slice (same backing array, same spare capacity), so a registration
// that keeps it - or appends to it - instead of copying lets a LATER registration or a later write of the caller
// change what an EARLIER listener is registered for.  The property counts notifications per "listener registered for
// that change type": the types named when the registration was made (Store/EventsReg.v, Properties/C08.v
// registration_types_fixed).  The expectation of model and oracle therefore does not depend on the way of passing.
//
// Fourth field of a REGS token  <style>:<store>:<types>:<pass>  (absent = l):
//
//	l      spelled out in the call: a fresh slice of exactly the additional types (none: nothing is passed)
//	z      `[]EntityEventType{}...` - empty, not nil, no capacity (the registration names one type)
//	b<g>   buffer g of the caller (g = 0..9; one `make([]EntityEventType, 0, 4)` per history, shared by ALL
//	       registrations that name it, whatever their style and store):
//	           buf = append(buf[:0], <additional types>...);  store.Add..(l, first, buf...)
//	       - the same array, with spare capacity, for every registration; a registration without additional types
//	       passes the empty slice WITH capacity
//	s<k>   a slice of its own with k (0..3) spare cells: sl := append(make([]EntityEventType, 0, n+k), ...);
//	       store.Add..(l, first, sl...); afterwards the caller overwrites ALL cap(sl) cells with another type
//	       (c08Scribble: the synchronous type of the first change kind the registration does not name; when it names
//	       all three, its own first type)
//
// The registrations are made in the order of the REGS section, each followed at once by the caller's writes.

import (
	"fmt"
	"strings"

	"github.com/openziti/storage/boltz"
)

const c08RegBufCap = 4

// c08RegCaller is the caller's memory while it registers the listeners of a history
type c08RegCaller struct {
	bufs [10][]boltz.EntityEventType
}

func c08CheckPass(reg c08Reg) error {
	p := reg.Pass
	bad := fmt.Errorf("registration %s: bad way of passing the change types %q", reg, p)
	switch {
	case p == "" || p == "l":
		return nil
	case p == "z":
		if len(reg.Types) != 1 {
			return fmt.Errorf("registration %s: an empty slice cannot carry additional types", reg)
		}
		return nil
	case len(p) == 2 && p[0] == 'b' && p[1] >= '0' && p[1] <= '9':
		if len(reg.Types)-1 > c08RegBufCap-1 {
			return bad
		}
		return nil
	case len(p) == 2 && p[0] == 's' && p[1] >= '0' && p[1] <= '3':
		return nil
	}
	return bad
}

// c08Scribble: what the caller writes over a slice it passed (mode s)
func c08Scribble(types string) boltz.EntityEventType {
	up := strings.ToUpper(types)
	for _, kd := range "CUD" {
		if !strings.ContainsRune(up, kd) {
			return c08EventType(byte(kd))
		}
	}
	return c08EventType(types[0])
}

// args returns the arguments of the Add*Listener call of a registration and what the caller does to its memory
// right after the call
func (rc *c08RegCaller) args(reg c08Reg) (first boltz.EntityEventType, rest []boltz.EntityEventType, after func(), err error) {
	if err = c08CheckPass(reg); err != nil {
		return
	}
	first = c08EventType(reg.Types[0])
	n := len(reg.Types) - 1
	extra := func(i int) boltz.EntityEventType { return c08EventType(reg.Types[1+i]) }
	switch p := reg.Pass; {
	case p == "" || p == "l":
		if n > 0 {
			rest = make([]boltz.EntityEventType, n) // len == cap, as the compiler builds it for spelled-out arguments
			for i := 0; i < n; i++ {
				rest[i] = extra(i)
			}
		}
	case p == "z":
		rest = []boltz.EntityEventType{}
	case p[0] == 'b':
		g := p[1] - '0'
		if rc.bufs[g] == nil {
			rc.bufs[g] = make([]boltz.EntityEventType, 0, c08RegBufCap)
		}
		buf := rc.bufs[g][:0]
		for i := 0; i < n; i++ {
			buf = append(buf, extra(i))
		}
		rc.bufs[g] = buf
		rest = buf
	case p[0] == 's':
		k := int(p[1] - '0')
		sl := make([]boltz.EntityEventType, 0, n+k)
		for i := 0; i < n; i++ {
			sl = append(sl, extra(i))
		}
		rest = sl
		x := c08Scribble(reg.Types)
		after = func() {
			full := sl[:cap(sl)]
			for i := range full {
				full[i] = x
			}
		}
	}
	return
}

// genRegPass draws, for the registrations of a history, the way each hands over its types.  A third of the
// histories registers the way the harness always did (everything spelled out); the others mix spelled-out calls
// with one or two re-used buffers (most registrations of such a history share buffer 0), slices overwritten after
// the call and - for registrations naming a single type - empty slices with and without capacity.
func (g *c08Gen) genRegPass(regs []c08Reg) {
	r := g.r
	if r.chance(33) {
		return
	}
	for k := range regs {
		reg := &regs[k]
		// some registrations name ONE type: nothing additional, so the slice handed over is empty (nil, empty, or a
		// re-used buffer cut back to length 0 - all of its capacity is spare)
		if r.chance(22) {
			reg.Types = reg.Types[:1]
		}
		switch x := r.intn(100); {
		case x < 25:
			// spelled out
		case x < 70:
			if r.chance(80) {
				reg.Pass = "b0"
			} else {
				reg.Pass = "b1"
			}
		case x < 90:
			reg.Pass = fmt.Sprintf("s%d", r.intn(4))
		default:
			if len(reg.Types) == 1 {
				reg.Pass = "z"
			} else {
				reg.Pass = "s1"
			}
		}
	}
}

func c08RegPassStats(stats map[string]int, regs []c08Reg) {
	shared := map[string]int{}
	for _, reg := range regs {
		switch {
		case reg.Pass == "" || reg.Pass == "l":
			stats["reg_pass_spelled_out"]++
		case reg.Pass == "z":
			stats["reg_pass_empty_slice"]++
		case reg.Pass[0] == 'b':
			stats["reg_pass_reused_buffer"]++
			shared[reg.Pass]++
			if len(reg.Types) == 1 {
				stats["reg_pass_reused_buffer_cut_to_empty"]++
			}
		case reg.Pass[0] == 's':
			stats["reg_pass_overwritten_after"]++
			if reg.Pass == "s0" {
				stats["reg_pass_overwritten_after_full_capacity"]++
			}
		}
		if len(reg.Types) == 1 {
			stats["reg_single_type"]++
		}
	}
	for _, n := range shared {
		if n >= 2 {
			stats["histories_buffer_shared_by_registrations"]++
			break
		}
	}
}
