package main

// C06 - fields that live in a NESTED bucket of the entity (design/C06.md, "Strengthening: fk fields under a path
// prefix").  boltz symbols may be declared with a path prefix (AddSymbol / AddFkSymbol / Add..WithKey(.., prefix...)):
// the value is then stored at <entity bucket>/<prefix...>/<key> - for a child store inside the child store's bucket -
// and every reader of the field has to go through the symbol's full path.  sField.Pfx makes the generic entity strategy
// persist / load such a field in the nested bucket and declares its symbol with the prefix; facts() projects it as an
// ordinary field fact (paths are not part of the model: the schema text and the model see a field of that name), so
// such wirings are ordinary schemas.  The wirings below put foreign-key fields with cascade and restrict constraints,
// fk indexes (plain and cascading) and a unique index on prefixed symbols, at root level and inside child stores, with
// one- and two-element prefixes, next to flat fields of the same kind.  Registered through extraWirings, used by the C06
// "pfx" stream only (generated after every older stream).  Examples/C06Wirings.v computes wf_notrace_b for each.

import (
	"fmt"
	"strings"

	"github.com/openziti/storage/boltz"
	"go.etcd.io/bbolt"
)

func init() {
	extraWirings["C06pa"] = wiringC06Pa
	extraWirings["C06pb"] = wiringC06Pb
	extraWirings["C06pc"] = wiringC06Pc
	for _, n := range c06PfxWirings {
		c06ChildWirings[n] = true
	}
}

var c06PfxWirings = []string{"C06pa", "C06pb", "C06pc"}

// ---- the entity strategy's side ------------------------------------------------------------------------------------

func c06pfxFieldGet(bucket *boltz.TypedBucket, f sField) *string {
	nested := bucket.GetPath(f.Pfx...)
	if nested == nil {
		return nil
	}
	return nested.GetString(f.Name)
}

// c06pfxFieldSet writes the field like the flat branch of gStrategy.PersistEntity does (SetStringP for pointer fields,
// SetString else), into the nested bucket; the field checker is asked for the field's key, as for a flat field
func c06pfxFieldSet(ctx *boltz.PersistContext, f sField, v *string) {
	if ctx.Bucket.HasError() || !ctx.ProceedWithSet(f.Name) {
		return
	}
	nested := ctx.Bucket.GetOrCreatePath(f.Pfx...)
	if f.Ptr {
		nested.SetStringP(f.Name, v, ctx.FieldChecker)
	} else if v == nil {
		nested.SetString(f.Name, "", ctx.FieldChecker)
	} else {
		nested.SetString(f.Name, *v, ctx.FieldChecker)
	}
	ctx.Bucket.SetError(nested.GetError())
}

// ---- the projection's side -----------------------------------------------------------------------------------------

func c06pfxHasPrefix(p, prefix []string) bool {
	if len(prefix) > len(p) {
		return false
	}
	for i := range prefix {
		if p[i] != prefix[i] {
			return false
		}
	}
	return true
}

// c06pfxIsBucket: some field of the store is declared with a path prefix that starts with path
func c06pfxIsBucket(w *wiring, store string, path []string) bool {
	s := w.store(store)
	if s == nil {
		return false
	}
	for _, f := range s.Fields {
		if len(f.Pfx) > 0 && c06pfxHasPrefix(f.Pfx, path) {
			return true
		}
	}
	return false
}

// c06pfxFacts projects the nested bucket b (= <entity or child-store bucket>/<path...>) of the store: the value of a
// field declared with exactly this prefix is the fact "<head>:<field>:<value>" (head = F:<root>:<id> or
// CF:<root>:<id>:<child store>), a bucket that continues the prefix of some field is descended into, everything else is
// JUNK
func c06pfxFacts(h *harnessDb, out *[]string, head, store string, path []string, b *bbolt.Bucket) {
	s := h.w.store(store)
	_ = b.ForEach(func(k, v []byte) error {
		key := string(k)
		sub := b.Bucket(k)
		if sub != nil {
			next := append(append([]string{}, path...), key)
			if c06pfxIsBucket(h.w, store, next) {
				c06pfxFacts(h, out, head, store, next, sub)
			} else {
				*out = append(*out, fmt.Sprintf("JUNK:PFX:%s:%s/%s", head, strings.Join(path, "/"), hx(k)))
			}
			return nil
		}
		for _, f := range s.Fields {
			if f.Name == key && len(f.Pfx) == len(path) && c06pfxHasPrefix(f.Pfx, path) {
				*out = append(*out, fmt.Sprintf("%s:%s:%s", head, key, fieldValStr(v)))
				return nil
			}
		}
		*out = append(*out, fmt.Sprintf("JUNK:PFX:%s:%s/%s", head, strings.Join(path, "/"), hx(k)))
		return nil
	})
}

// ---- wirings -------------------------------------------------------------------------------------------------------

// C06pa: root stores only.  emp keeps its three foreign keys in nested buckets: boss (restrict, self reference) and dept
// (cascade) under "refs", room (restrict) under "cfg"/"loc"; proj.owner -> emp (cascade, under "config") continues the
// cascade dept -> emp -> proj; proj.code (unique, nullable) lives under "config" too, proj.backup -> emp is a FLAT
// restrict constraint next to the nested ones.
func wiringC06Pa() *wiring {
	return &wiring{Name: "C06pa", Stores: []*sStore{
		{Name: "emp", Fields: []sField{{Name: "name"}, {Name: "boss", Ptr: true, Pfx: []string{"refs"}}, {Name: "dept", Pfx: []string{"refs"}},
			{Name: "room", Ptr: true, Pfx: []string{"cfg", "loc"}}}, Sets: []string{"roles"}},
		{Name: "dept", Fields: []sField{{Name: "title"}}},
		{Name: "room", Fields: []sField{{Name: "label", Ptr: true}}},
		{Name: "proj", Fields: []sField{{Name: "name"}, {Name: "owner", Pfx: []string{"config"}}, {Name: "code", Ptr: true, Pfx: []string{"config"}},
			{Name: "backup", Ptr: true}}},
	}, Script: []wiringDecl{
		{Kind: "unique", Store: "emp", Field: "name"},
		{Kind: "setidx", Store: "emp", Field: "roles"},
		{Kind: "fkcons", Store: "emp", Field: "boss", Target: "emp", Nullable: true, Casc: "N"},
		{Kind: "fkcons", Store: "emp", Field: "dept", Target: "dept", Casc: "D"},
		{Kind: "fkcons", Store: "emp", Field: "room", Target: "room", Nullable: true, Casc: "N"},
		{Kind: "unique", Store: "room", Field: "label", Nullable: true},
		{Kind: "fkcons", Store: "proj", Field: "owner", Target: "emp", Casc: "D"},
		{Kind: "unique", Store: "proj", Field: "code", Nullable: true},
		{Kind: "fkcons", Store: "proj", Field: "backup", Target: "emp", Nullable: true, Casc: "N"},
	}}
}

// C06pb: the schema of C06sa (sibling child stores with equally named fk constraints) with one field of every group
// nested INSIDE the child store's bucket: mgr.sponsor under "cfg", ctr.desk under "loc"/"at"; ctr.sponsor and mgr.desk
// stay flat, so every delete of a dept / room has a nested and a flat guard to run.
func wiringC06Pb() *wiring {
	return &wiring{Name: "C06pb", Stores: []*sStore{
		{Name: "dept", Fields: []sField{{Name: "name"}}, Sets: []string{"marks"}},
		{Name: "room", Fields: []sField{{Name: "name", Ptr: true}}},
		{Name: "emp", Fields: []sField{{Name: "name"}, {Name: "nick", Ptr: true, Pfx: []string{"cfg"}}}, Sets: []string{"marks"}},
		{Name: "mgr", Parent: "emp", Fields: []sField{{Name: "sponsor", Pfx: []string{"cfg"}}, {Name: "desk", Ptr: true}}},
		{Name: "ctr", Parent: "emp", Fields: []sField{{Name: "sponsor", Ptr: true}, {Name: "desk", Ptr: true, Pfx: []string{"loc", "at"}}}},
	}, Script: []wiringDecl{
		{Kind: "unique", Store: "dept", Field: "name"},
		{Kind: "unique", Store: "emp", Field: "name"},
		{Kind: "unique", Store: "room", Field: "name", Nullable: true},
		{Kind: "setidx", Store: "dept", Field: "marks"},
		{Kind: "setidx", Store: "emp", Field: "marks"},
		{Kind: "fkcons", Store: "mgr", Field: "sponsor", Target: "dept", Casc: "D"},
		{Kind: "fkcons", Store: "ctr", Field: "sponsor", Target: "dept", Nullable: true, Casc: "D"},
		{Kind: "fkcons", Store: "mgr", Field: "desk", Target: "room", Nullable: true, Casc: "N"},
		{Kind: "fkcons", Store: "ctr", Field: "desk", Target: "room", Nullable: true, Casc: "N"},
	}}
}

// C06pc: the schema of C06sc (a child store and its parent declare an fk constraint on a field of the same name) with
// the parent's field nested under "cfg" in the entity bucket and mgr's field nested under a bucket of the same name
// inside the child store's bucket; ctr.sponsor flat; the restrict fk INDEX of vend and a cascading fk index of tmp on
// nested symbols as well.
func wiringC06Pc() *wiring {
	return &wiring{Name: "C06pc", Stores: []*sStore{
		{Name: "dept", Fields: []sField{{Name: "name"}}, Sets: []string{"marks"}},
		{Name: "emp", Fields: []sField{{Name: "name"}, {Name: "sponsor", Ptr: true, Pfx: []string{"cfg"}}}, Sets: []string{"marks"}},
		{Name: "vend", Fields: []sField{{Name: "name"}, {Name: "sponsor", Ptr: true, Pfx: []string{"ref"}}}},
		{Name: "mgr", Parent: "emp", Fields: []sField{{Name: "sponsor", Ptr: true, Pfx: []string{"cfg"}}, {Name: "code", Ptr: true}}},
		{Name: "ctr", Parent: "emp", Fields: []sField{{Name: "sponsor", Ptr: true}}},
		{Name: "tmp", Parent: "emp", Fields: []sField{{Name: "sponsor", Pfx: []string{"cfg", "fk"}}}},
	}, Script: []wiringDecl{
		{Kind: "unique", Store: "dept", Field: "name"},
		{Kind: "unique", Store: "emp", Field: "name"},
		{Kind: "unique", Store: "vend", Field: "name"},
		{Kind: "unique", Store: "mgr", Field: "code", Nullable: true},
		{Kind: "setidx", Store: "dept", Field: "marks"},
		{Kind: "setidx", Store: "emp", Field: "marks"},
		{Kind: "fkcons", Store: "mgr", Field: "sponsor", Target: "dept", Nullable: true, Casc: "D"},
		{Kind: "fkcons", Store: "ctr", Field: "sponsor", Target: "dept", Nullable: true, Casc: "D"},
		{Kind: "fkcons", Store: "emp", Field: "sponsor", Target: "dept", Nullable: true, Casc: "N"},
		{Kind: "fkindex", Store: "vend", Field: "sponsor", Target: "dept", Back: "vends", Nullable: true},
		{Kind: "fkindexcascade", Store: "tmp", Field: "sponsor", Target: "dept", Back: "tmps"},
	}}
}

// ---- stream --------------------------------------------------------------------------------------------------------

// c06PfxStream appends the "pfx" histories to the case files: wirings C06pa / C06pb / C06pc round robin; per wiring the
// generators rotate: burst (a target entity with neighbouring referrers over one edge, then deleted), same-name group
// (C06pa has no group of equally named edges and no child store: bursts instead), child-level subject, burst, tail of the main stream.
func c06PfxStream(r *rng, n int, tmp string, stats map[string]int, emit func(c, obs, nv string)) error {
	for i := 0; i < n; i++ {
		prof := profileFor("c06")
		w := wiringByName(c06PfxWirings[i%len(c06PfxWirings)])
		w.derive()
		g := &histGen{r: r, w: w, p: prof, ids: prof.ids}
		stats["pfx_wiring_"+w.Name]++
		kind := (i / len(c06PfxWirings)) % 5
		var c, obsLine, nv string
		var txs []hTx
		if kind == 4 {
			var bstart, bend int
			txs, bstart, bend = g.genHistoryC06((i/(5*len(c06PfxWirings)))%2 == 1)
			for k := range txs {
				c06Route(w, &txs[k])
			}
			var err error
			c, obsLine, nv, err = c06Case(w, txs, bstart, bend, tmp)
			if err != nil {
				return err
			}
			stats["pfx_tail_histories"]++
		} else {
			h, err := openHarnessDb(w, tmp)
			if err != nil {
				return err
			}
			var obs []string
			sub := map[string]int{}
			hasChild := false
			for _, s := range w.Stores {
				hasChild = hasChild || s.Parent != ""
			}
			switch {
			case kind == 1 && len(g.c06NameGroups()) > 0:
				txs, obs = g.genSameNameC06(h, sub)
				stats["pfx_group_histories"]++
			case kind == 2 && hasChild:
				txs, obs = g.genChildC06(h, sub)
				stats["pfx_child_subject_histories"]++
			default:
				txs, obs, _ = g.genBurstC06(h, sub)
				stats["pfx_burst_histories"]++
			}
			for k, v := range sub {
				stats["pfx_"+k] += v
			}
			h.close()
			var cb strings.Builder
			cb.WriteString(w.text())
			for k := range txs {
				cb.WriteString(" ")
				cb.WriteString(w.txText(&txs[k]))
			}
			c, obsLine, nv = cb.String(), strings.Join(obs, ""), "-"
		}
		emit(c, obsLine, nv)
		stats["pfx_histories"]++
		stats["pfx_tx"] += len(txs)
		stats["pfx_obs_commit"] += strings.Count(obsLine, " COMMIT")
		stats["pfx_obs_rollback"] += strings.Count(obsLine, " ROLLBACK")
		stats["pfx_deleted_entities"] += strings.Count(obsLine, " VD:")
		stats["validate_deleted_calls"] += strings.Count(obsLine, " VD:")
		// facts about fields that live in a nested bucket (the projection found them where the schema says)
		stats["pfx_nested_field_facts"] += c06pfxCountNested(w, obsLine)
	}
	return nil
}

// c06pfxCountNested counts the F: / CF: facts of the observation that are about a field declared with a path prefix
func c06pfxCountNested(w *wiring, obsLine string) int {
	nested := map[string]bool{}
	for _, s := range w.Stores {
		for _, f := range s.Fields {
			if len(f.Pfx) > 0 {
				if s.Parent == "" {
					nested["F:"+s.Name+":"+f.Name] = true
				} else {
					nested["CF:"+s.Parent+":"+s.Name+":"+f.Name] = true
				}
			}
		}
	}
	n := 0
	for _, tk := range strings.Fields(obsLine) {
		p := strings.Split(tk, ":")
		if len(p) == 5 && p[0] == "F" && nested["F:"+p[1]+":"+p[3]] {
			n++
		} else if len(p) == 6 && p[0] == "CF" && nested["CF:"+p[1]+":"+p[3]+":"+p[4]] {
			n++
		}
	}
	return n
}
