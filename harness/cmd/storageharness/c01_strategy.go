package main

import (
	"fmt"
	"sort"
	"strconv"
	"strings"

	"github.com/openziti/storage/ast"
	"go.etcd.io/bbolt"
)

// C01 - scan strategies.  The same filter is answered by different machinery depending on how the query is issued:
//
//	QueryIds, no sort / first sort field id       uniqueIndexScanner over a forward or reverse bolt cursor (nextUnpaged)
//	QueryIds, first sort field anything else      sortingScanner (llrb tree of the matching rows)
//	IterateIds, sub-queries                       uniqueIndexScanner.Next (Q lines, c01.go)
//	QueryWithCursorC                              either scanner over a cursor the caller provides
//
// each with its own copy of the child-store presence test and of the paging counters.  A T line records the answer
// one strategy gave (ids in the order returned, the total count); the model judges it with strategy_check
// (Ast/ChildStore.v): count = number of matching entities whatever the paging, only matching entities, none twice,
// as many as skip / limit leave - and exactly the page of the id order for the id-ordered strategies.
//
//	T <store> <F|R|A> <Q|C> <universe ids|*> <sort hex|-> <status> <ids> <count> <text hex> <term>      impl: T
type c01Strat struct {
	api  byte     // 'Q' Store.QueryIds(text), 'C' Store.QueryWithCursorC(cursor provider, parsed query)
	sort string   // the sort clause without "sort by", "" = none
	univ []string // api C: the ids the provided cursor enumerates (nil = the entities bucket)
}

// the order the documented rules promise: id order (forward / reverse) when there is no sort clause or its first field
// is id, otherwise the order is the business of C02
func c01SortKind(sortClause string) string {
	if sortClause == "" {
		return "F"
	}
	first := strings.Fields(strings.Split(sortClause, ",")[0])
	if first[0] != "id" {
		return "A"
	}
	if len(first) > 1 && strings.EqualFold(first[1], "desc") {
		return "R"
	}
	return "F"
}

func c01QueryText(top *c01Filter, sortClause string) string {
	s := ""
	if sortClause != "" {
		s = c01Kw("sort", "sort") + " " + c01Kw("by", "sort") + " " + sortClause
	}
	return c01JoinQuery(top.a.text(), s, c01PagingText(top))
}

// c01ListCursor: a caller-provided cursor over some of the ids of the entities bucket, in bolt order or reversed
type c01ListCursor struct {
	ids []string
	pos int
}

func (c *c01ListCursor) Next()         { c.pos++ }
func (c *c01ListCursor) IsValid() bool { return c.pos < len(c.ids) }
func (c *c01ListCursor) Current() []byte {
	if c.pos < len(c.ids) {
		return []byte(c.ids[c.pos])
	}
	return nil
}

func (r *c01Runner) strategy(store int, st c01Strat, text string) (status string, ids []string, count int64) {
	defer func() {
		if p := recover(); p != nil {
			status, ids, count = "panic", nil, 0
		}
	}()
	err := r.db.View(func(tx *bbolt.Tx) error {
		var err error
		s := r.stores[store]
		if st.api == 'Q' {
			ids, count, err = s.QueryIds(tx, text)
			return err
		}
		query, err := ast.Parse(s, text)
		if err != nil {
			return err
		}
		provider := func(tx *bbolt.Tx, forward bool) ast.SetCursor {
			bucket := s.GetEntitiesBucket(tx)
			if bucket == nil {
				return nil
			}
			if st.univ == nil {
				return bucket.OpenCursor(tx, forward)
			}
			want := map[string]bool{}
			for _, id := range st.univ {
				want[id] = true
			}
			var keep []string
			for c := bucket.OpenCursor(tx, forward); c.IsValid(); c.Next() {
				if want[string(c.Current())] {
					keep = append(keep, string(c.Current()))
				}
			}
			return &c01ListCursor{ids: keep}
		}
		ids, count, err = s.QueryWithCursorC(tx, provider, query)
		return err
	})
	if err != nil {
		return "err", nil, 0
	}
	return "ok", ids, count
}

func c01UnivToken(univ []string) string {
	if univ == nil {
		return "*"
	}
	return c01Ids(univ)
}

func (r *c01Runner) runStrategy(store int, top *c01Filter, st c01Strat) {
	text := c01QueryText(top, st.sort)
	term := top.term()
	// a share of the lines spells the keywords of the query in another case (c01_kwcase.go); the sort clause token of
	// the line carries the directions as they were spelled
	if ks := r.kwStyleFor(term + "|" + st.sort); ks != nil {
		c01KwCur = ks
		cased := c01KwSortClause(st.sort)
		if t2 := c01QueryText(top, cased); t2 != text {
			text, term, st.sort = t2, term+c01KwToken(ks), cased
			r.stats["keyword-case:T:"+string(ks.kind)]++
		}
		c01KwCur = nil
	}
	watchdogBeat(fmt.Sprintf("%d %s", store, text))
	r.strategyLine(store, st, text, term)
}

func (r *c01Runner) strategyLine(store int, st c01Strat, text string, term string) {
	status, ids, count := r.strategy(store, st, text)
	sortTok := "-"
	if st.sort != "" {
		sortTok = hxs(st.sort)
	}
	cnt := "-"
	if status == "ok" {
		cnt = strconv.FormatInt(count, 10)
	}
	kind := c01SortKind(st.sort)
	r.cases.line("T %d %s %c %s %s %s %s %s %s %s", store, kind, st.api, c01UnivToken(st.univ), sortTok, status, c01Ids(ids), cnt, hxs(text), term)
	r.impl.line("T")
	r.stats["strategy:"+string(st.api)+kind]++
	r.stats["strategy-result:"+status]++
	if c01Cur.raw[store].isChild {
		if c01Cur.raw[store].ext {
			r.stats["strategy-store:child-extended"]++
		} else {
			r.stats["strategy-store:child-plain"]++
		}
	} else {
		r.stats["strategy-store:root"]++
	}
}

// replay of a T line: the answer is taken again from the current tree
func (r *c01Runner) replayStrategy(toks []string) {
	store, _ := strconv.Atoi(toks[1])
	st := c01Strat{api: toks[3][0]}
	if toks[4] != "*" {
		st.univ = []string{}
		if toks[4] != "-" {
			for _, h := range strings.Split(toks[4], ",") {
				st.univ = append(st.univ, string(unhx(h)))
			}
		}
	}
	if toks[5] != "-" {
		st.sort = string(unhx(toks[5]))
	}
	r.strategyLine(store, st, string(unhx(toks[9])), strings.Join(toks[10:], " "))
}

// the symbols a store can sort by: registered directly (store.symbols), single valued, of a concrete type
func c01SortFields(store int) []string {
	var out []string
	for _, s := range c01Schema[store].syms {
		if s.kind == "fld" && s.ty != 'a' {
			out = append(out, s.name)
		}
	}
	return out
}

func (g *c01Gen) sortClause(store int) string {
	flds := c01SortFields(store)
	dir := func() string { return g.pickS([]string{"", " asc", " desc", " ASC", " DESC"}) }
	switch g.weighted([]int{10, 10, 10, 45, 25}) {
	case 0:
		return ""
	case 1:
		return "id" + g.pickS([]string{"", " asc"})
	case 2:
		return "id desc"
	case 3:
		return g.pickS(flds) + dir()
	default:
		n := 2 + g.r.intn(2)
		var parts []string
		for i := 0; i < n; i++ {
			f := g.pickS(flds)
			if i > 0 && g.r.chance(15) {
				f = "id"
			}
			parts = append(parts, f+dir())
		}
		return strings.Join(parts, ", ")
	}
}

func (g *c01Gen) paging(top *c01Filter) {
	if g.r.chance(45) {
		v := g.pickI([]int64{0, 1, 2, -1, 5, 3})
		top.skip = &v
	}
	if g.r.chance(45) {
		v := g.pickI([]int64{-1, 0, 1, 2, 3, 10, -7})
		top.limit = &v
	}
}

// a universe for a provided cursor: some ids of the root store (members and non members of a child store alike),
// sometimes the elements of a stored foreign-key set (the "entities related to X" use of QueryWithCursorC)
func (g *c01Gen) universe(store int, d *c01Dataset) []string {
	root := c01RootOf(store)
	univ := []string{}
	if g.r.chance(30) {
		for _, ents := range d.stores {
			for _, e := range ents {
				for _, s := range e.sets {
					if len(univ) == 0 && len(s.elems) > 0 && g.r.chance(20) {
						univ = append(univ, s.elems...)
					}
				}
			}
		}
	}
	for _, e := range d.stores[root] {
		if g.r.chance(50) {
			univ = append(univ, e.id)
		}
	}
	return c01SortDedup(univ)
}

// c01RandomStrategies: the filter of a Q line once more through n other strategies
func (g *c01Gen) randomStrategies(r *c01Runner, store int, d *c01Dataset, f *c01Filter, n int) {
	for i := 0; i < n; i++ {
		top := &c01Filter{k: "q", a: f}
		g.paging(top)
		st := c01Strat{api: 'Q', sort: g.sortClause(store)}
		if g.r.chance(30) {
			st.api = 'C'
			if g.r.chance(60) {
				st.univ = g.universe(store, d)
			}
		}
		r.runStrategy(store, top, st)
	}
}

// c01SweepStrategies: bounded-exhaustive over (store incl. child stores) x (filters over inherited and own symbols) x
// (every sort strategy: none, id asc / desc, every sortable symbol asc / desc, two field sorts) x paging x api, on the
// sweep dataset with mixed membership
func c01SweepStrategies(r *c01Runner) int {
	n := 0
	for store := range c01Cur.raw {
		cat := c01Catalogue(store, false)
		filters := []*c01Filter{{k: "bc", b: true}, {k: "bc", b: true, absent: true}}
		want := map[string]bool{"name": true, "age": true, "flag": true, "pop": true, "size": true, c01MapNameIn(store, "tags") + ".a": true}
		for _, s := range c01Cur.raw[store].syms {
			if c01Cur.raw[store].isChild {
				want[s.name] = true
			}
		}
		for _, m := range c01Cur.raw[store].maps {
			if c01Cur.raw[store].isChild {
				want[m.name+".a"] = true
				want[m.name+".sub.k"] = true
			}
		}
		var names []string
		for _, s := range cat {
			if want[s.name] && !s.set {
				names = append(names, s.name)
			}
		}
		sort.Strings(names)
		for _, nme := range names {
			filters = append(filters,
				&c01Filter{k: "bin", lhs: &c01Lhs{k: "sym", name: nme}, op: "neq", lit: &c01Lit{k: 'N'}},
				&c01Filter{k: "bin", lhs: &c01Lhs{k: "sym", name: nme}, op: "eq", lit: &c01Lit{k: 'N'}})
		}
		for _, s := range cat {
			if s.set && s.linked < 0 {
				filters = append(filters, &c01Filter{k: "not", a: &c01Filter{k: "empty", name: s.name}})
				break
			}
		}
		sorts := []string{"", "id", "id desc", "id, name desc"}
		for k, f := range c01SortFields(store) {
			sorts = append(sorts, f+[]string{"", " desc"}[k%2], f+[]string{" desc", " asc"}[k%2])
		}
		if fl := c01SortFields(store); len(fl) >= 3 {
			sorts = append(sorts, fl[0]+" desc, "+fl[1], fl[2]+", "+fl[0]+" desc, id desc")
		}
		one, two, three, zero := int64(1), int64(2), int64(3), int64(0)
		pagings := [][2]*int64{{nil, nil}, {&one, &two}, {nil, &three}, {&two, nil}, {nil, &zero}}
		var allIds []string
		for _, e := range c01SweepDataset().stores[c01RootOf(store)] {
			allIds = append(allIds, e.id)
		}
		for fi, f := range filters {
			for si, sc := range sorts {
				for pi, pg := range pagings {
					if pi >= 3 && (fi+si)%4 != 0 {
						continue
					}
					top := &c01Filter{k: "q", a: f, skip: pg[0], limit: pg[1]}
					r.runStrategy(store, top, c01Strat{api: 'Q', sort: sc})
					n++
					if pi == (fi+si)%3 {
						st := c01Strat{api: 'C', sort: sc}
						if (fi+si)%2 == 0 { // every other id: members and non members
							st.univ = []string{}
							for k, id := range allIds {
								if (k+fi)%3 != 0 {
									st.univ = append(st.univ, id)
								}
							}
						}
						r.runStrategy(store, top, st)
						n++
					}
				}
			}
		}
	}
	return n
}

// c01VariantSweeps: for every schema variant the symbol-resolution sweep through the people store and its child
// stores, and for the hierarchy variants the strategy sweep
func c01VariantSweeps(r *c01Runner, dotted bool) {
	for _, name := range []string{"alias", "hier", "hier-alias"} {
		r.useVariant(name)
		d := c01FixedChildData(c01Remap(c01SweepDataset()))
		if err := r.loadDataset(d); err != nil {
			panic(err)
		}
		for store := range c01Cur.raw {
			if c01RootOf(store) != 0 || (name == "hier" && store == 0) {
				continue // people and its child stores (the base run already swept people with this storage)
			}
			r.stats["variant-sweep-filters:"+name] += c01SweepStore(r, store, dotted, true)
		}
		if name != "alias" {
			r.stats["strategy-sweep:"+name] += c01SweepStrategies(r)
		}
	}
	// the strategies over root stores with the base storage
	r.useVariant("base")
	if err := r.loadDataset(c01SweepDataset()); err != nil {
		panic(err)
	}
	r.stats["strategy-sweep:base"] += c01SweepStrategies(r)
}
