package main

// C04: cascade graphs in which a referrer is reachable over MORE THAN ONE cascade path (diamonds, DAGs with shared
// descendants).
//
// "Deleting an entity cascades to exactly the entities that reference it" is a statement about the TRANSITIVE
// referrers.  Every cascade wiring so far (casc, cyc, fkc, C04cp / C04cd and the attribute variants) gave a store at
// most one cascading fk field - or two that end at the same level - so the set of transitive referrers was always a
// tree: no entity was ever reached twice during one delete, and nothing the cascade computes before it starts deleting
// (a list of referrers, a count, a cursor position) could go stale through a NESTED cascade.  A diamond needs a store
// with two cascading fk fields whose targets are themselves connected by a cascade:
//
//	item.owner -> own (cascade)  and  item.parent -> item (cascade):   own o <- item p <- item s,  own o <- item s
//
// The referrers of o through item.owner are {p, s}; the delete of p removes s before the loop over {p, s} reaches it (when
// p sorts first) or after (when s sorts first).  The store machine defines the outcome: cascade_loop re-evaluates the
// match of every candidate against the CURRENT state, so exactly the transitive referrers go and no error arises
// (Properties/C04.v delete_cascade_exact / delete_cascade_exact_any hold for these schemas: wf_casc_b resp. wf_stores_b
// by computation in Examples/C04Diamonds.v; a self fk under CascadeDelete makes the SCHEMA cyclic, the DATA built here
// stays a DAG: every new entity references only entities created before it).
//
// Wirings (all fk kinds that cascade - fk constraint with CascadeDelete, cascading fk index - mixed with restrict edges):
//
//	C04da  own <-cons,D- item ; item <-cons,D- item (parent) ; item <-fk index, restrict- tag
//	C04db  own <-cascade index- item ; item <-cons,D- item ; own <-cons,D- part ; item <-cascade index- part
//	       (part is reached from own directly and through item: a diamond over three stores, schema acyclic apart from item.parent)
//	C04dc  depth 3: grp <-cons,D- grp (up) ; grp <-cascade index- mem ; mem <-cons,D- mem (via) ; grp / mem / doc <-cons,D- doc
//	       (grp, mem, prev) ; mem <-cons, restrict- doc (rev) ; doc <-fk index, restrict- lock
//	C04dd  child stores: the guard of task.owner -> mgr lives on the plain child store mgr of emp, the referrer field
//	       step.after -> task lives in the plain child store step of task; task <-cons,D- task (parent) ; task <-fk index- log
//
// Generator: c04Gen.diamondTxs builds such a DAG on purpose (apex, then 2-5 referrers, each created with one cascading fk
// field pointing at a node of the DAG and its other fk fields - cascading or restricting - pointed at further nodes), now
// and then a restricting referrer on top, then deletes the apex or an inner node, through the root or a child store.

import "strings"

var c04DiamondWirings = []string{"C04da", "C04db", "C04dc", "C04dd"}

// the wirings of the diamond stream: the four above and the two base wirings in which a restrict edge can close a diamond
var c04DiamondStream = []string{"C04da", "C04db", "C04dc", "C04dd", "C04da", "C04db", "casc", "fkc"}

// ids whose byte order is not the order of their creation: prefixes of each other, upper / lower case, digits
var c04DiamondIds = []string{"a", "aa", "ab", "b", "B", "a0", "ba", "0"}

func init() {
	extraWirings["C04da"] = wiringC04Da
	extraWirings["C04db"] = wiringC04Db
	extraWirings["C04dc"] = wiringC04Dc
	extraWirings["C04dd"] = wiringC04Dd
}

func wiringC04Da() *wiring {
	return &wiring{Name: "C04da", Stores: []*sStore{
		{Name: "own", Fields: []sField{{Name: "name"}}},
		{Name: "item", Fields: []sField{{Name: "name"}, {Name: "owner"}, {Name: "parent", Ptr: true}}},
		{Name: "tag", Fields: []sField{{Name: "label", Ptr: true}, {Name: "item", Ptr: true}}},
	}, Script: []wiringDecl{
		{Kind: "fkcons", Store: "item", Field: "owner", Target: "own", Nullable: false, Casc: "D"},
		{Kind: "fkcons", Store: "item", Field: "parent", Target: "item", Nullable: true, Casc: "D"},
		{Kind: "fkindex", Store: "tag", Field: "item", Target: "item", Back: "marks", Nullable: true},
	}}
}

func wiringC04Db() *wiring {
	return &wiring{Name: "C04db", Stores: []*sStore{
		{Name: "own", Fields: []sField{{Name: "name"}}},
		{Name: "item", Fields: []sField{{Name: "name"}, {Name: "owner"}, {Name: "parent", Ptr: true}}},
		{Name: "part", Fields: []sField{{Name: "name", Ptr: true}, {Name: "item"}, {Name: "owner", Ptr: true}}},
	}, Script: []wiringDecl{
		{Kind: "fkindexcascade", Store: "item", Field: "owner", Target: "own", Back: "items"},
		{Kind: "fkcons", Store: "item", Field: "parent", Target: "item", Nullable: true, Casc: "D"},
		{Kind: "fkcons", Store: "part", Field: "owner", Target: "own", Nullable: true, Casc: "D"},
		{Kind: "fkindexcascade", Store: "part", Field: "item", Target: "item", Back: "parts"},
		{Kind: "unique", Store: "part", Field: "name", Nullable: true},
	}}
}

func wiringC04Dc() *wiring {
	return &wiring{Name: "C04dc", Stores: []*sStore{
		{Name: "grp", Fields: []sField{{Name: "name"}, {Name: "up", Ptr: true}}},
		{Name: "mem", Fields: []sField{{Name: "name"}, {Name: "grp"}, {Name: "via", Ptr: true}}},
		{Name: "doc", Fields: []sField{{Name: "title"}, {Name: "grp", Ptr: true}, {Name: "mem", Ptr: true}, {Name: "prev", Ptr: true}, {Name: "rev", Ptr: true}}},
		{Name: "lock", Fields: []sField{{Name: "doc"}, {Name: "note", Ptr: true}}},
	}, Script: []wiringDecl{
		{Kind: "fkcons", Store: "grp", Field: "up", Target: "grp", Nullable: true, Casc: "D"},
		{Kind: "fkindexcascade", Store: "mem", Field: "grp", Target: "grp", Back: "mems"},
		{Kind: "fkcons", Store: "mem", Field: "via", Target: "mem", Nullable: true, Casc: "D"},
		{Kind: "fkcons", Store: "doc", Field: "grp", Target: "grp", Nullable: true, Casc: "D"},
		{Kind: "fkcons", Store: "doc", Field: "mem", Target: "mem", Nullable: true, Casc: "D"},
		{Kind: "fkcons", Store: "doc", Field: "prev", Target: "doc", Nullable: true, Casc: "D"},
		{Kind: "fkcons", Store: "doc", Field: "rev", Target: "mem", Nullable: true, Casc: "N"},
		{Kind: "fkindex", Store: "lock", Field: "doc", Target: "doc", Back: "locks"},
	}}
}

func wiringC04Dd() *wiring {
	return &wiring{Name: "C04dd", Stores: []*sStore{
		{Name: "emp", Fields: []sField{{Name: "name"}}},
		{Name: "task", Fields: []sField{{Name: "name"}, {Name: "owner"}, {Name: "parent", Ptr: true}}},
		{Name: "log", Fields: []sField{{Name: "text", Ptr: true}, {Name: "task", Ptr: true}}},
		{Name: "mgr", Parent: "emp", Fields: []sField{{Name: "level", Ptr: true}}},
		{Name: "step", Parent: "task", Fields: []sField{{Name: "after", Ptr: true}, {Name: "note", Ptr: true}}},
	}, Script: []wiringDecl{
		{Kind: "fkcons", Store: "task", Field: "owner", Target: "mgr", Nullable: false, Casc: "D"},
		{Kind: "fkcons", Store: "task", Field: "parent", Target: "task", Nullable: true, Casc: "D"},
		{Kind: "fkcons", Store: "step", Field: "after", Target: "task", Nullable: true, Casc: "D"},
		{Kind: "fkindex", Store: "log", Field: "task", Target: "task", Back: "logs", Nullable: true},
	}}
}

// ---- the generator: a DAG with shared descendants, then the delete of its apex -------------------------------------

type c04dNode struct{ store, root, id string }

// diamondTxs: see the head of the file.  References only ever go from a new entity to entities that exist already, so
// what is built here never closes a reference cycle.
func (g *c04Gen) diamondTxs() []hTx {
	var casc, rest []*wiringDecl
	for _, d := range g.c04FkDecls() {
		if c04Cascades(d) {
			casc = append(casc, d)
		} else {
			rest = append(rest, d)
		}
	}
	if len(casc) == 0 {
		return nil
	}
	b := &c04TxBuilder{g: g, mayCut: g.shared}
	b.begin()

	// 1. the apex: the target of some cascading edge, new or existing
	d0 := casc[g.r.intn(len(casc))]
	aroot := g.root(d0.Target)
	apex := ""
	if alive := g.aliveIn(d0.Target); len(alive) > 0 && g.r.chance(30) {
		apex = alive[g.r.intn(len(alive))]
	} else if apex = g.c04FreshId(aroot); apex != "" {
		b.emit(g.c04Ensure(d0.Target, "", 0)...)
		b.emit(g.c04Create(d0.Target, apex, nil))
	} else if len(alive) > 0 {
		apex = alive[g.r.intn(len(alive))]
	} else {
		return nil
	}
	if !g.isAliveIn(d0.Target, apex) {
		return b.finish(true)
	}
	nodes := []c04dNode{{d0.Target, aroot, apex}}
	nodesIn := func(store, except string) []string {
		var xs []string
		for _, nd := range nodes {
			if nd.root == g.root(store) && nd.id != except && g.isAliveIn(store, nd.id) {
				xs = append(xs, nd.id)
			}
		}
		return xs
	}

	// 2. referrers: each references a node through a cascading edge, and further nodes through its other fk fields
	type cand struct {
		d *wiringDecl
		t string
	}
	for step, steps := 0, 2+g.r.intn(4); step < steps; step++ {
		var cs []cand
		for _, d := range casc {
			for _, t := range nodesIn(d.Target, "") {
				cs = append(cs, cand{d, t})
			}
		}
		if len(cs) == 0 {
			break
		}
		c := cs[g.r.intn(len(cs))]
		if g.r.chance(40) { // grow downwards: prefer the youngest node that can be referenced
			for k := len(cs) - 1; k >= 0; k-- {
				if cs[k].t == nodes[len(nodes)-1].id {
					c = cs[k]
					break
				}
			}
		}
		sroot := g.root(c.d.Store)
		x := g.c04FreshId(sroot)
		if x == "" {
			continue
		}
		store := c.d.Store
		if g.r.chance(30) {
			for _, ch := range g.w.Stores {
				if ch.Parent == c.d.Store && g.r.chance(60) {
					store = ch.Name
				}
			}
		}
		force := map[string]string{c.d.Field: c.t}
		fields, _ := g.w.allFields(store)
		for _, f := range fields {
			d2 := g.c04DeclOf(store, f.Name)
			if d2 == nil || f.Name == c.d.Field {
				continue
			}
			if xs := nodesIn(d2.Target, x); len(xs) > 0 && g.r.chance(70) {
				force[f.Name] = xs[g.r.intn(len(xs))]
			}
		}
		b.emit(g.c04Ensure(store, c.d.Field, 0)...)
		b.emit(g.c04Create(store, x, force))
		if g.isAliveIn(store, x) {
			nodes = append(nodes, c04dNode{store, sroot, x})
		}
	}

	// 3. the DAG is committed first most of the time, so that the delete stands alone in its transaction
	if len(b.cur.Ops) > 0 && g.r.chance(70) {
		b.txs = append(b.txs, b.cur)
		b.begin()
	}
	// 4. now and then a referrer through a restricting edge (inside the DAG it may be cleared by the cascade, depending on
	// the order of the constraints; from outside it makes the whole delete fail)
	if len(rest) > 0 && g.r.chance(25) {
		r := rest[g.r.intn(len(rest))]
		if xs := nodesIn(r.Target, ""); len(xs) > 0 {
			b.emit(g.c04Reference(r, xs[g.r.intn(len(xs))])...)
			b.cut()
		}
	}
	// 5. delete the apex (or an inner node), through the store of the edge or the root store
	v := nodes[0]
	if g.r.chance(35) {
		v = nodes[g.r.intn(len(nodes))]
	}
	through := v.store
	if g.r.chance(50) {
		through = v.root
	}
	b.emit(hOp{Kind: "D", Store: through, Id: v.id})
	if !g.believeDelete(v.root, v.id, 0) {
		return b.finish(true)
	}
	if g.r.chance(35) {
		// a second delete: another node of the DAG (gone already when the cascade reached it: not found, nothing changes)
		b.cut()
		w := nodes[g.r.intn(len(nodes))]
		b.emit(hOp{Kind: "D", Store: w.root, Id: w.id})
		if _, alive := g.ents[w.root][w.id]; !alive || !g.believeDelete(w.root, w.id, 0) {
			return b.finish(true)
		}
	}
	return b.finish(false)
}

// genC04Diamond: the seeded stream over the diamond wirings: every history starts with a diamond and has further ones
// among the ordinary transactions of the C04 generator (re-parenting updates, deletes of referenced entities, ...)
func genC04Diamond(seed int64, n int, stats map[string]int) []string {
	r := newRng(seed)
	var lines []string
	for i := 0; i < n; i++ {
		w := wiringByName(c04DiamondStream[i%len(c04DiamondStream)])
		w.derive()
		var ids []string
		switch (i / len(c04DiamondStream)) % 3 {
		case 0:
			ids = plainIds
			stats["dm_plain_ids"]++
		case 1:
			ids = c04DiamondIds
			stats["dm_prefix_ids"]++
		default:
			for k := 0; k < 3; k++ {
				ids = append(ids, hostileIdsC04[r.intn(len(hostileIdsC04))])
			}
			ids = append(ids, "a", "b", "c")
			stats["dm_hostile_ids"]++
		}
		g := newC04Gen(r, w, ids)
		g.diamond = true
		txs := g.genHistory()
		stats["dm_tx_diamond"] += g.nDiamond
		if g.shared {
			stats["dm_histories_shared_ctx"]++
		}
		var c strings.Builder
		c.WriteString(w.text())
		for k := range txs {
			c.WriteString(" ")
			c.WriteString(w.txText(&txs[k]))
		}
		lines = append(lines, c.String())
		stats["dm_histories"]++
		stats["dm_wiring_"+w.Name]++
		stats["dm_tx"] += len(txs)
		for _, t := range txs {
			stats["dm_ops"] += len(t.Ops)
			for _, op := range t.Ops {
				stats["dm_op_"+op.Kind]++
			}
		}
	}
	return lines
}

// ---- bounded-exhaustive scenarios ------------------------------------------------------------------------------------

// c04DiamondScenarios: after a committed prefix that holds diamonds (the inner node sorting before AND after the shared
// descendant), every sequence of the operations: deletes of every node through every store, re-parenting, new shared
// descendants, restricting referrers coming and going.  No operation closes a reference cycle.
func c04DiamondScenarios() []c04ApiScenario {
	mk := func(kind, store, id string, chk []string, kv ...string) hOp {
		op := hOp{Kind: kind, Store: store, Id: id, F: map[string]*string{}, S: map[string][]string{}}
		for i := 0; i+1 < len(kv); i += 2 {
			op.F[kv[i]] = sp(kv[i+1])
		}
		if chk != nil {
			op.HasChk = true
			op.Checker = chk
		}
		return op
	}
	del := func(store, id string) hOp { return hOp{Kind: "D", Store: store, Id: id} }
	var out []c04ApiScenario

	// A: two fk constraints.  o1 owns m (top), b and z (under m: one sorts before m, one after), k under b; o2 owns y under b
	out = append(out, c04ApiScenario{wiring: "C04da", prefix: []hOp{
		mk("C", "own", "o1", nil, "name", "n1"), mk("C", "own", "o2", nil, "name", "n2"),
		mk("C", "item", "m", nil, "name", "x", "owner", "o1"), mk("C", "item", "b", nil, "name", "x", "owner", "o1", "parent", "m"),
		mk("C", "item", "z", nil, "name", "x", "owner", "o1", "parent", "m"), mk("C", "item", "k", nil, "name", "x", "owner", "o1", "parent", "b"),
		mk("C", "item", "y", nil, "name", "x", "owner", "o2", "parent", "b")},
		ops: []hOp{
			del("own", "o1"), del("own", "o2"), del("item", "m"), del("item", "b"), del("item", "z"), del("item", "k"),
			mk("UP", "item", "z", []string{"parent"}, "name", "x", "owner", "o1", "parent", "b"), mk("UP", "item", "b", []string{"parent"}, "name", "x", "owner", "o1"),
			mk("UP", "item", "y", []string{"owner"}, "name", "x", "owner", "o1", "parent", "b"), mk("C", "item", "a", nil, "name", "x", "owner", "o2", "parent", "z"),
			mk("C", "tag", "t1", nil, "item", "k"), del("tag", "t1"), mk("C", "tag", "t2", nil, "item", "y"),
		}})
	// B: cascading fk index + fk constraints; parts hang below items and below owners
	out = append(out, c04ApiScenario{wiring: "C04db", prefix: []hOp{
		mk("C", "own", "o1", nil, "name", "n1"), mk("C", "own", "o2", nil, "name", "n2"),
		mk("C", "item", "i2", nil, "name", "x", "owner", "o1"), mk("C", "item", "i1", nil, "name", "x", "owner", "o1", "parent", "i2"),
		mk("C", "item", "i3", nil, "name", "x", "owner", "o1", "parent", "i2"), mk("C", "item", "i4", nil, "name", "x", "owner", "o2", "parent", "i3"),
		mk("C", "part", "p1", nil, "name", "u1", "item", "i1", "owner", "o1"), mk("C", "part", "p2", nil, "name", "u2", "item", "i3", "owner", "o2"),
		mk("C", "part", "p3", nil, "item", "i4")},
		ops: []hOp{
			del("own", "o1"), del("own", "o2"), del("item", "i1"), del("item", "i2"), del("item", "i3"), del("item", "i4"), del("part", "p2"),
			mk("UP", "item", "i1", []string{"parent"}, "name", "x", "owner", "o1"), mk("UP", "item", "i4", []string{"owner"}, "name", "x", "owner", "o1", "parent", "i3"),
			mk("UP", "part", "p3", []string{"owner", "item"}, "item", "i1", "owner", "o1"), mk("UP", "part", "p1", []string{"owner"}, "name", "u1", "item", "i1"),
			mk("C", "item", "i0", nil, "name", "x", "owner", "o2", "parent", "i1"),
		}})
	// C: depth three, restricting edges (doc.rev constraint, lock.doc fk index) in and around the cascade set
	out = append(out, c04ApiScenario{wiring: "C04dc", prefix: []hOp{
		mk("C", "grp", "g1", nil, "name", "x"), mk("C", "grp", "g0", nil, "name", "x", "up", "g1"), mk("C", "grp", "g2", nil, "name", "x", "up", "g1"),
		mk("C", "mem", "m2", nil, "name", "x", "grp", "g1"), mk("C", "mem", "m1", nil, "name", "x", "grp", "g0", "via", "m2"),
		mk("C", "mem", "m3", nil, "name", "x", "grp", "g1", "via", "m2"),
		mk("C", "doc", "d2", nil, "title", "t", "grp", "g1", "mem", "m1"), mk("C", "doc", "d1", nil, "title", "t", "grp", "g0", "mem", "m3", "prev", "d2"),
		mk("C", "doc", "d3", nil, "title", "t", "mem", "m2", "prev", "d2")},
		ops: []hOp{
			del("grp", "g1"), del("grp", "g0"), del("grp", "g2"), del("mem", "m2"), del("mem", "m1"), del("doc", "d2"), del("doc", "d3"),
			mk("UP", "doc", "d3", []string{"rev"}, "title", "t", "mem", "m2", "prev", "d2", "rev", "m1"), mk("UP", "doc", "d1", []string{"rev"}, "title", "t", "grp", "g0", "mem", "m3", "prev", "d2", "rev", "m2"),
			mk("C", "lock", "l1", nil, "doc", "d1"), del("lock", "l1"), mk("C", "grp", "g3", nil, "name", "x"),
			mk("UP", "doc", "d3", []string{"rev"}, "title", "t", "mem", "m2", "prev", "d2", "rev", "m3"),
		}})
	// D: the guard of the outer edge on a child store, the inner edge declared by a child store
	out = append(out, c04ApiScenario{wiring: "C04dd", prefix: []hOp{
		mk("C", "mgr", "e1", nil, "name", "n1"), mk("C", "mgr", "e2", nil, "name", "n2"), mk("C", "emp", "e3", nil, "name", "n3"),
		mk("C", "task", "t2", nil, "name", "x", "owner", "e1"), mk("C", "task", "t1", nil, "name", "x", "owner", "e1", "parent", "t2"),
		mk("C", "step", "t3", nil, "name", "x", "owner", "e1", "after", "t2"), mk("C", "step", "t4", nil, "name", "x", "owner", "e2", "parent", "t1", "after", "t3")},
		ops: []hOp{
			del("emp", "e1"), del("mgr", "e1"), del("emp", "e2"), del("task", "t2"), del("step", "t3"), del("task", "t3"), del("task", "t1"), del("task", "t4"),
			mk("UP", "step", "t4", []string{"after"}, "name", "x", "owner", "e2", "parent", "t1"), mk("UP", "task", "t4", []string{"owner"}, "name", "x", "owner", "e1", "parent", "t1", "after", "t3"),
			mk("C", "log", "l1", nil, "task", "t4"), del("log", "l1"), mk("C", "task", "t0", nil, "name", "x", "owner", "e3"),
		}})
	return out
}
