package main

import (
	"bytes"
	"fmt"
	"os"
	"strings"
	"time"

	"github.com/antlr4-go/antlr/v4"
	"github.com/openziti/storage/ast"
	"github.com/openziti/storage/zitiql"
)

// C11 - string literals.  Case kinds (see coq/extraction/c11_driver.ml):
//   T <token>            ParseZqlString(token)
//   L <s>                values of the two literals of s, whether each lexes as one STRING token
//   B <body>             does "body" lex as exactly one STRING token
//   E <op> <esc> <s> <cand>...   ids matched by  name <op> <literal of s>  among candidate values
func init() { commands["c11"] = runC11 }

var c11Alphabet = [][]byte{[]byte("a"), []byte("n"), []byte("t"), []byte("\\"), []byte("\""), []byte("\n"), []byte("\t"), []byte("é")}
var c11Wide = [][]byte{[]byte("a"), []byte("n"), []byte("t"), []byte("r"), []byte("f"), []byte("b"), []byte("\\"), []byte("\\"), []byte("\""),
	[]byte("\n"), []byte("\t"), []byte("\r"), []byte("\f"), []byte("é"), []byte(" "), []byte("x"), []byte("\x01"), []byte("\x1f"), []byte("\x7f"), []byte("€"), []byte("'")}

func escapeMin(s []byte) []byte {
	var b bytes.Buffer
	for _, c := range s {
		if c == '\\' || c == '"' {
			b.WriteByte('\\')
		}
		b.WriteByte(c)
	}
	return b.Bytes()
}

func escapeFull(s []byte) []byte {
	var b bytes.Buffer
	for _, c := range s {
		switch c {
		case '\\', '"':
			b.WriteByte('\\')
			b.WriteByte(c)
		case '\n':
			b.WriteString(`\n`)
		case '\t':
			b.WriteString(`\t`)
		case '\r':
			b.WriteString(`\r`)
		case '\f':
			b.WriteString(`\f`)
		default:
			b.WriteByte(c)
		}
	}
	return b.Bytes()
}

func quote(body []byte) string { return `"` + string(body) + `"` }

type silentListener struct {
	*antlr.DefaultErrorListener
	errs int
}

func (l *silentListener) SyntaxError(antlr.Recognizer, interface{}, int, int, string, antlr.RecognitionException) {
	l.errs++
}

// lexesAsOneString: the real lexer turns text into exactly one STRING token spanning all of it
func lexesAsOneString(text string) bool {
	lexer := zitiql.NewZitiQlLexer(antlr.NewInputStream(text))
	lexer.RemoveErrorListeners()
	el := &silentListener{DefaultErrorListener: antlr.NewDefaultErrorListener()}
	lexer.AddErrorListener(el)
	toks := lexer.GetAllTokens()
	if el.errs != 0 || len(toks) != 1 {
		return false
	}
	return toks[0].GetTokenType() == zitiql.ZitiQlLexerSTRING && toks[0].GetText() == text
}

// oneString is a Symbols implementation with a single string symbol "name"
type oneString struct{ val *string }

func (s *oneString) GetSymbolType(name string) (ast.NodeType, bool) {
	if name == "name" {
		return ast.NodeTypeString, true
	}
	return 0, false
}
func (s *oneString) GetSetSymbolTypes(string) ast.SymbolTypes             { return nil }
func (s *oneString) IsSet(name string) (bool, bool)                       { return false, name == "name" }
func (s *oneString) EvalBool(string) *bool                                { return nil }
func (s *oneString) EvalString(string) *string                            { return s.val }
func (s *oneString) EvalInt64(string) *int64                              { return nil }
func (s *oneString) EvalFloat64(string) *float64                          { return nil }
func (s *oneString) EvalDatetime(string) *time.Time                       { return nil }
func (s *oneString) IsNil(string) bool                                    { return s.val == nil }
func (s *oneString) OpenSetCursor(string) ast.SetCursor                   { return nil }
func (s *oneString) OpenSetCursorForQuery(string, ast.Query) ast.SetCursor { return nil }

func c11Eval(op string, literal string, cands [][]byte) string {
	var q string
	switch op {
	case "eq":
		q = "name = " + literal
	case "neq":
		q = "name != " + literal
	case "in":
		q = "name in [" + literal + "]"
	case "contains":
		q = "name contains " + literal
	}
	var res strings.Builder
	func() {
		defer func() {
			if r := recover(); r != nil {
				res.Reset()
				res.WriteString("panic")
			}
		}()
		query, err := ast.Parse(&oneString{}, q)
		if err != nil {
			res.WriteString("err")
			return
		}
		for _, c := range cands {
			v := string(c)
			if query.EvalBool(&oneString{val: &v}) {
				res.WriteByte('1')
			} else {
				res.WriteByte('0')
			}
		}
	}()
	return res.String()
}

func c11Candidates(s []byte) [][]byte {
	// the value itself and its near misses
	r := strings.NewReplacer(`\n`, "\n", `\t`, "\t", `\r`, "\r", `\f`, "\f", `\\`, `\`, `\"`, `"`)
	c := [][]byte{
		s,
		[]byte(r.Replace(string(s))),
		bytes.ReplaceAll(s, []byte(`\`), nil),
		bytes.ReplaceAll(s, []byte(`\`), []byte(`\\`)),
		append(append([]byte{}, s...), 'x'),
		[]byte(strings.NewReplacer("\n", `\n`, "\t", `\t`).Replace(string(s))),
	}
	if len(s) > 0 {
		c = append(c, s[1:], s[:len(s)-1])
	}
	// whitespace / case near misses
	c = append(c, []byte(strings.Join(strings.Fields(string(s)), " ")), bytes.TrimSpace(s), bytes.ToUpper(s), bytes.ToLower(s))
	return c
}

func runC11(o *opts) error {
	cases := newLineWriter(o.out, "cases.txt")
	impl := newLineWriter(o.out, "impl.txt")
	defer cases.close()
	defer impl.close()
	r := newRng(o.seed)
	stats := map[string]int{}

	emitL := func(s []byte) {
		lm, lf := quote(escapeMin(s)), quote(escapeFull(s))
		cases.line("L %s", hx(s))
		impl.line("L %s %s %v %v", hxs(zitiql.ParseZqlString(lm)), hxs(zitiql.ParseZqlString(lf)),
			b2i(lexesAsOneString(lm)), b2i(lexesAsOneString(lf)))
		stats["L"]++
	}
	emitT := func(tok []byte) {
		cases.line("T %s", hx(tok))
		impl.line("T %s", hxs(zitiql.ParseZqlString(string(tok))))
		stats["T"]++
	}
	emitB := func(body []byte) {
		cases.line("B %s", hx(body))
		impl.line("B %v", b2i(lexesAsOneString(quote(body))))
		stats["B"]++
	}
	emitE := func(op, esc string, s []byte) {
		var lit string
		if esc == "min" {
			lit = quote(escapeMin(s))
		} else {
			lit = quote(escapeFull(s))
		}
		cands := c11Candidates(s)
		var hs []string
		for _, c := range cands {
			hs = append(hs, hx(c))
		}
		cases.line("E %s %s %s %s", op, esc, hx(s), strings.Join(hs, " "))
		impl.line("E %s", c11Eval(op, lit, cands))
		stats["E"]++
	}

	qenv, err := c11qOpen(o.out)
	if err != nil {
		return err
	}
	defer qenv.close()
	qgen := &c11qGen{env: qenv, cases: cases, impl: impl, stats: stats}

	if rc := o.get("replaycase", ""); rc != "" {
		// replay: re-run exactly the given case lines
		data, err := os.ReadFile(rc)
		if err != nil {
			return err
		}
		for _, line := range strings.Split(strings.TrimSpace(string(data)), "\n") {
			f := strings.Fields(line)
			if len(f) < 2 {
				continue
			}
			switch f[0] {
			case "L":
				emitL(unhx(f[1]))
			case "T":
				emitT(unhx(f[1]))
			case "B":
				emitB(unhx(f[1]))
			case "E":
				emitE(f[1], f[2], unhx(f[3]))
			case "Q":
				qgen.emitFields(f[1:])
			case "M":
				(&c11mGen{g: qgen}).emitFields(f[1:])
			}
		}
		return nil
	}

	// corpus first
	for _, s := range [][]byte{[]byte(`a\nb`), []byte(`\\n`), []byte(`\t`), []byte(`x\`), []byte(`"`), []byte(`\"`), []byte("a\nb"), []byte(`\\\n`), []byte(`c:\new\table`)} {
		emitL(s)
		for _, op := range []string{"eq", "neq", "in", "contains"} {
			emitE(op, "min", s)
			emitE(op, "full", s)
		}
	}

	// bounded-exhaustive: all strings up to length maxLen over the 8-symbol alphabet
	maxLen := 4
	if o.thorough() {
		maxLen = 5
	}
	var rec func(prefix []byte, depth int)
	count := 0
	rec = func(prefix []byte, depth int) {
		emitL(prefix)
		emitT([]byte(quote(prefix)))
		emitB(prefix)
		count++
		if count%7 == 0 { // end-to-end on a slice of the exhaustive set
			op := []string{"eq", "neq", "in", "contains"}[count/7%4]
			emitE(op, "full", prefix)
		}
		if depth == maxLen {
			return
		}
		for _, a := range c11Alphabet {
			rec(append(append([]byte{}, prefix...), a...), depth+1)
		}
	}
	rec(nil, 0)
	stats["exhaustive_strings"] = count

	// random longer strings over the wide alphabet (includes raw control bytes: the malformed stream)
	n := 2000
	if o.thorough() {
		n = 50000
	}
	if o.n > 0 {
		n = o.n
	}
	for i := 0; i < n; i++ {
		l := 1 + r.intn(24)
		var s []byte
		for j := 0; j < l; j++ {
			s = append(s, c11Wide[r.intn(len(c11Wide))]...)
		}
		stats[fmt.Sprintf("len_%02d", (len(s)/8)*8)]++
		emitL(s)
		emitT(s)                 // arbitrary text, quoted or not
		emitT([]byte(quote(s))) // as a (possibly invalid) token
		emitB(s)
		if i%4 == 0 {
			emitE([]string{"eq", "neq", "in", "contains"}[r.intn(4)], []string{"min", "full"}[r.intn(2)], s)
		}
	}
	// stream Q: keyword-spelling and boundary values against stored values, through the store path
	qgen.all(o, r)
	// stream M: filters with several comparisons in which literals repeat; sequences of filters
	qgen.allM(o, r)
	// in-lists of every length and order (Q and M cases)
	qgen.allL(o, r)
	// values whose text has a reading in another notation: numbers, bools, dates, percent / entity / escape encodings (Q and M cases)
	qgen.allN(o, r)
	writeJSON(o.out, "stats.json", stats)
	return nil
}

func b2i(b bool) int {
	if b {
		return 1
	}
	return 0
}
