package main

import (
	"fmt"
	"strings"

	"github.com/biogo/store/llrb"
	"github.com/openziti/storage/ast"
	"github.com/openziti/storage/boltz"
	"go.etcd.io/bbolt"
)

// C14 - the cursor PROTOCOL: IsValid / Current / Next / Seek in any order.
//
// Every other case family looks at the cursor (IsValid, then Current) right after the constructor and after every operation.
// The interface does not oblige a caller to do that: "skip the first element" is Next() as the very first call, IsLinked opens
// a cursor only to Seek, a caller that knows the set is not empty reads Current() without asking IsValid().  In the model looking
// is a function of the state (Cursor/Core.v `observe`), so the observation at a point does not depend on which other points were
// looked at, nor on the order of IsValid and Current: the reference of a protocol case is the ordinary trace of the SAME C line,
// projected on the points that were looked at.  An implementation that positions itself lazily, or caches in IsValid what Current
// returns, is not such a function.
//
// Case line: the C line followed by " @ m0 m1 .. mn" (one mode per observation point; the model driver ignores the suffix):
//   -  do not touch the cursor            -> token _
//   v  IsValid, then Current if valid     -> I | V<hex>     (what every other family does)
//   w  Current FIRST, then IsValid        -> I | V<hex>
//   c  Current only                       -> C<hex> | C! (panic)  (compared only where the set has an element at that point)
//   i  IsValid only                       -> V | I

var c14pProto []string // nil: mode v everywhere

var c14pMasksQuick = []int{0, 1, 2, 5, 6, 7, 24, 31}

func c14pSuffix(nops int) string {
	if len(c14pProto) != nops+1 {
		return ""
	}
	return " @ " + strings.Join(c14pProto, " ")
}

func c14pObserveAt(c ast.SetCursor, point, nops int) string {
	if len(c14pProto) != nops+1 {
		return c14Observe(c)
	}
	switch c14pProto[point] {
	case "-":
		return "_"
	case "i":
		if c.IsValid() {
			return "V"
		}
		return "I"
	case "c":
		cur, ok := c14pCurrent(c)
		if !ok {
			return "C!"
		}
		return "C" + hx(cur)
	case "w":
		cur, ok := c14pCurrent(c)
		text := hx(cur)
		if c.IsValid() {
			if !ok {
				panic("Current() of a valid cursor panicked")
			}
			return "V" + text
		}
		return "I"
	}
	return c14Observe(c)
}

// Current() of a cursor that may be exhausted: what it does then (nil for the bolt cursors, a nil dereference for treeCursor - as
// modelled in Cursor/Tree.v) is not the property's subject, so a panic is caught here and counts only if the cursor is valid
func c14pCurrent(c ast.SetCursor) (cur []byte, ok bool) {
	defer func() {
		if r := recover(); r != nil {
			cur, ok = nil, false
		}
	}()
	return c.Current(), true
}

// all protocols over n points: every mode at the points before the last, `last` modes at the last; the all-v protocol (the
// other families) left out
func c14pProtocols(n int, last []string) [][]string {
	modes := []string{"-", "v", "w", "c", "i"}
	protos := [][]string{{}}
	for k := 0; k < n-1; k++ {
		var next [][]string
		for _, p := range protos {
			for _, m := range modes {
				next = append(next, append(append([]string{}, p...), m))
			}
		}
		protos = next
	}
	var out [][]string
	for _, p := range protos {
		for _, m := range last {
			q := append(append([]string{}, p...), m)
			if strings.Join(q, "") != strings.Repeat("v", n) {
				out = append(out, q)
			}
		}
	}
	return out
}

// walks: the first k points untouched, then one look in mode m, then mode v to the end (k = 0 .. n-1; not all-v)
func c14pWalks(n int) [][]string {
	var out [][]string
	for k := 0; k < n; k++ {
		for _, m := range []string{"v", "w", "c", "i"} {
			if k == 0 && m == "v" {
				continue
			}
			p := make([]string, n)
			for j := range p {
				switch {
				case j < k:
					p[j] = "-"
				case j == k:
					p[j] = m
				default:
					p[j] = "v"
				}
			}
			out = append(out, p)
		}
	}
	return out
}

// a thin selection for the scanner cursors (I lines): nothing looked at before the end; constructor untouched and Current
// before IsValid afterwards; Current only after the constructor, then nothing, IsValid-less look at the end
func c14pThin(n int) [][]string {
	a, b, c := make([]string, n), make([]string, n), make([]string, n)
	for j := 0; j < n; j++ {
		a[j], b[j], c[j] = "-", "w", "-"
	}
	a[n-1], b[0], c[0], c[n-1] = "v", "-", "c", "w"
	return [][]string{a, b, c}
}

func c14pCases(tx *bbolt.Tx, w *c14World, out *c14Out, kinds []c14Kind, thorough bool) {
	defer func() { c14pProto = nil }()
	masks := c14pMasksQuick
	targets := []string{"a", "b", "\xff\xff"}
	last := []string{"v", "w"}
	if thorough {
		masks = nil
		for m := 0; m < 32; m++ {
			masks = append(masks, m)
		}
		targets = []string{"", "a", "aa", "b", "\xff\xff"}
		last = []string{"v", "w", "c"}
	}
	seqs := append(c14Seqs(targets, 1), c14Seqs(targets, 2)...)
	protos := map[int][][]string{2: c14pProtocols(2, last), 3: c14pProtocols(3, last)}
	run := func(kind string, fw, present bool, a, b []string, ops []c14Op, ps [][]string, mk func() ast.SetCursor,
		seek func(c ast.SetCursor, v string) bool) {
		for _, p := range ps {
			c14pProto = p
			out.cursorCase(kind, fw, present, a, b, ops, mk, seek)
		}
		c14pProto = nil
	}

	// every seekable kind / hand-out site
	for _, k := range kinds {
		u := c14ElemU
		if k.idU {
			u = c14IdU
		}
		for _, mask := range masks {
			set := c14Subset(u, mask)
			a := set
			present := true
			if k.tagOps {
				a = nil
				for _, e := range set {
					a = append(a, string(boltz.PrependFieldType(boltz.TypeString, []byte(e))))
				}
			}
			if mask == 0 && k.name == "idxval" {
				present = false
			}
			mk := k.mk(tx, w, mask)
			for _, ops := range seqs {
				if k.tagOps {
					ops = c14TagOps(ops)
				}
				run(k.name, k.fw, present, a, nil, ops, protos[len(ops)+1], mk, k.seek)
			}
			n := len(set) + 1
			run(k.name, k.fw, present, a, nil, c14NextOnly(n), c14pWalks(n+1), mk, k.seek)
		}
	}

	// hand-outs for things that do not exist
	type missing struct {
		kind string
		fw   bool
		seek func(c ast.SetCursor, v string) bool
		mk   func() ast.SetCursor
	}
	var miss []missing
	for _, fw := range []bool{true, false} {
		fw := fw
		miss = append(miss,
			missing{"related", fw, c14SeekPlain, func() ast.SetCursor { return w.items.GetRelatedEntitiesCursor(tx, "nobody", "tags", fw) }},
			missing{"related", fw, c14SeekPlain, func() ast.SetCursor { return w.items.GetRelatedEntitiesCursor(tx, "a", "nofield", fw) }},
			missing{"idxval", fw, c14SeekPlain, func() ast.SetCursor { return w.rolesIdx.OpenValueCursor(tx, []byte("norole"), fw) }},
			missing{"rclinks", fw, c14SeekPlain, func() ast.SetCursor { return w.rcLinks.IterateLinks(tx, []byte("nobody"), fw) }},
			missing{"empty", fw, c14SeekPlain, func() ast.SetCursor { return ast.OpenEmptyCursor(tx, fw) }})
	}
	miss = append(miss,
		missing{"links", true, c14SeekPlain, func() ast.SetCursor { return w.links.IterateLinks(tx, []byte("nobody")) }},
		missing{"setsym", true, c14SeekString, func() ast.SetCursor { return w.tagsSym.GetRuntimeSymbol().OpenCursor(tx, []byte("nobody")) }},
		missing{"empty", true, c14SeekPlain, func() ast.SetCursor { return ast.NewEmptyCursor() }},
		missing{"empty", true, c14SeekPlain, func() ast.SetCursor { return ast.EmptyCursor }})
	for _, m := range miss {
		for _, ops := range seqs {
			run(m.kind, m.fw, false, nil, nil, ops, protos[len(ops)+1], m.mk, m.seek)
		}
	}

	// Next-only cursors: filtered, union, tree
	typedB := func(mask int) *bbolt.Bucket { return tx.Bucket([]byte("typed")).Bucket([]byte(fmt.Sprint(mask))) }
	typedCur := func(mask int, fw bool) ast.SetCursor {
		if fw {
			return boltz.NewTypedForwardBoltCursor(typedB(mask).Cursor(), boltz.TypeString)
		}
		return boltz.NewTypedReverseBoltCursor(typedB(mask).Cursor(), boltz.TypeString)
	}
	for _, fw := range []bool{true, false} {
		fw := fw
		for _, ma := range masks {
			ma := ma
			a := c14Subset(c14ElemU, ma)
			for _, mb := range masks {
				mb := mb
				if thorough && (ma+mb)%3 != 0 {
					continue
				}
				b := c14Subset(c14ElemU, mb)
				accept := map[string]bool{}
				for _, e := range b {
					accept[e] = true
				}
				n := len(a) + 1
				run("filtered", fw, true, a, b, c14NextOnly(n), c14pWalks(n+1), func() ast.SetCursor {
					return ast.NewFilteredCursor(typedCur(ma, fw), func(val []byte) bool { return accept[string(val)] })
				}, c14SeekPlain)
				n = len(a) + len(b) + 1
				run("union", fw, true, a, b, c14NextOnly(n), c14pWalks(n+1), func() ast.SetCursor {
					return ast.NewUnionSetCursor(typedCur(ma, fw), typedCur(mb, fw), fw)
				}, c14SeekPlain)
				if (ma+mb)%3 == 0 {
					run("uniontree", fw, true, a, b, c14NextOnly(n), c14pWalks(n+1), func() ast.SetCursor {
						return ast.NewUnionSetCursor(c14Tree(a, fw), c14Tree(b, fw), fw)
					}, c14SeekPlain)
					run("unionfiltered", fw, true, a, b, c14NextOnly(n), c14pWalks(n+1), func() ast.SetCursor {
						return ast.NewUnionSetCursor(
							ast.NewFilteredCursor(typedCur(ma, fw), func(val []byte) bool { return accept[string(val)] }),
							typedCur(mb, fw), fw)
					}, c14SeekPlain)
				}
			}
			n := len(a) + 1
			run("tree", fw, true, a, nil, c14NextOnly(n), c14pWalks(n+1), func() ast.SetCursor { return c14Tree(a, fw) }, c14SeekPlain)
		}
		run("filtered", fw, false, nil, nil, c14NextOnly(2), c14pWalks(3), func() ast.SetCursor {
			return ast.NewFilteredCursor(nil, func(val []byte) bool { return true })
		}, c14SeekPlain)
	}
	run("treecursor", true, true, nil, nil, c14NextOnly(2), c14pWalks(3), func() ast.SetCursor {
		return ast.NewTreeCursor(&llrb.Tree{})
	}, c14SeekPlain)
}
