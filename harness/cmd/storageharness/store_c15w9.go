package main

// C15 strengthening, ninth wave (seeded C15-w9-3):
//
// PERSIST-TIME VALIDATION OF THE PARENT'S ENTITY STRATEGY.  A child entity strategy persists the shared part through
// PersistContext.GetParentContext(); whatever the PARENT's strategy reports on that context's bucket while persisting the
// shared fields (SetRequiredString with an empty value, a string-list element bbolt refuses, explicit SetError
// validation) has to come back from Create / Update / patch through the CHILD store exactly as it does through the
// parent store.  No wiring of the C15 stream had an entity strategy that can fail in PersistEntity (every refusal came
// from an index or a constraint, which report on the caller's holder directly), so "the error raised on the parent
// context reaches the caller of the child store" was never exercised.
//
// The shared harness and the model already know such strategies (C07): sField.Req = the strategy writes the field with
// PersistContext.SetRequiredString, and a guarded operation `G <badtags> <k> (<store> <field>)*k <C|UP ...>` is the
// model's XPersist (Store/XOps.v persist_rejected: for a child store the PARENT level's required fields and string
// lists are checked first, then the child's own).  Added here:
//
//   - wirings C15rq / C15rx: the schemas of C15np / C15nx (parent with unique / set / fk indexes, plain / extended child
//     store that declares nothing but fields) plus one required, NOT indexed field on the parent (badge / code) and one
//     on the child store (mode / plan) - not indexed, so that nothing but the strategy's validation refuses an empty value;
//   - c15GuardTx: in a wiring with required fields every create / update is a guarded operation; the generator's empty /
//     nil values for required fields are kept for about a third of the fields (else replaced by a value), and now and
//     then an element of one of the PARENT's string lists is longer than bbolt's key limit (the other persist-time error
//     of the shared part: the storage error is latched in the parent context's bucket).
//
// Side conditions of the C15 theorems for the two schemas and the statement "what the parent level rejects, the child
// store rejects" (persist_rejected_through_child): coq/theories/Examples/C15Validation.v.

import (
	"sort"
	"strings"
)

func init() {
	extraWirings["C15rq"] = wiringC15Rq
	extraWirings["C15rx"] = wiringC15Rx
	c15Wirings = append(c15Wirings, "C15rq", "C15rx")
	// (seeded C15-w9-1) link collections OWNED BY A CHILD STORE, see below
	extraWirings["C15cp"] = func() *wiring { return wiringC15ChildLinked("C15cp", []string{"pc"}) }
	extraWirings["C15cm"] = func() *wiring { return wiringC15ChildLinked("C15cm", []string{"px", "pc"}) }
	c15Wirings = append(c15Wirings, "C15cp", "C15cm")
}

// ---- link collections owned by a child store (seeded C15-w9-1) ---------------------------------------------------------
//
// Every link collection of the C15 stream was declared on a family's PARENT store (C15lp / C15lx / C15lm, idx, C15np).  The
// delete of an entity with child data runs the delete work of BOTH levels; a link collection a CHILD store declares
// (AddLinkCollection on the child store: its local set lives inside the child bucket) is cleaned by the child level's
// work only, so "the delete through either store leaves nothing of the child part - the peers' back references
// included" was never exercised for it.  wiringC15ChildLinked = wiringC15Linked (the parent keeps its collections to
// the peer site and to itself) plus a collection of the PLAIN child store to the peer: pc.csites <-> site.ccrew (C15cp: pc
// alone; C15cm: the extended px registered before pc).  An EXTENDED child store gets no link collection: on the
// unmodified tree such a store makes DeleteById fail for every parent entity without extension data (candidate defect
// recorded in design/C06.md; the first version of these wirings, with px.xsites <-> site.xcrew, met it in 87 of 1500
// histories: impl err / model ok).  The oracles of checks/c15.py (link_sets / link_oracle / peer_mentions / delete-left-parts)
// key link sets by the ROOT store of the declaring store and need no change; the facts projection (store.go) shows
// the sets inside a child bucket as S:<root>:<id>:<set>:<member>.  c15GenChildLink: link operations on those
// collections, aimed at entities with data of the owning child store.  Side conditions: Examples/C15Validation.v.
func wiringC15ChildLinked(name string, kids []string) *wiring {
	w := wiringC15Linked(name, kids)
	for _, k := range kids {
		switch k {
		case "pc":
			w.Script = append(w.Script, wiringDecl{Kind: "link", Store: "pc", Field: "csites", Target: "site", Back: "ccrew"})
		}
	}
	return w
}

func c15HasChildLinks(w *wiring, root *sStore) bool {
	for _, s := range w.Stores {
		if s.Parent == root.Name && len(s.Links) > 0 {
			return true
		}
	}
	return false
}

// c15GenChildLink: AddLinks / RemoveLinks on a link collection declared on a child store of the family root, for an
// entity that (mostly) has data of that child store, towards existing peers; false = the wiring has no such collection
func (g *xGen) c15GenChildLink(root *sStore) (hOp, bool) {
	type owned struct {
		st *sStore
		l  sLink
	}
	var cands []owned
	for _, s := range g.w.Stores {
		if s.Parent == root.Name {
			for _, l := range s.Links {
				cands = append(cands, owned{s, l})
			}
		}
	}
	if len(cands) == 0 {
		return hOp{}, false
	}
	c := cands[g.r.intn(len(cands))]
	alive := g.sortedAlive(root.Name)
	peers := g.sortedAlive(g.rootOf(c.l.Other))
	if len(alive) == 0 || len(peers) == 0 {
		return hOp{}, false
	}
	var withChild []string
	for _, id := range alive {
		if g.snap.child[c.st.Name][id] {
			withChild = append(withChild, id)
		}
	}
	op := hOp{Kind: "AL", Store: c.st.Name, LinkF: c.l.Local}
	if g.r.chance(12) {
		op.Kind = "RL"
	}
	if len(withChild) > 0 && g.r.chance(85) {
		op.Id = g.pickFrom(withChild)
	} else {
		op.Id = g.pickFrom(alive)
	}
	n := 1 + g.r.intn(2)
	for i := 0; i < n; i++ {
		op.Targets = append(op.Targets, g.pickFrom(peers))
	}
	return op, true
}

// C15rq: C15np + required parent field badge, required child field mode
func wiringC15Rq() *wiring {
	return &wiring{Name: "C15rq", Stores: []*sStore{
		{Name: "site", Fields: []sField{{Name: "label"}}},
		{Name: "node", Fields: []sField{{Name: "name"}, {Name: "alias", Ptr: true, Sym: "aliasSym"}, {Name: "site"}, {Name: "badge", Req: true}}, Sets: []string{"roles"}},
		{Name: "edge", Parent: "node", Fields: []sField{{Name: "port", Ptr: true}, {Name: "mode", Req: true}}},
	}, Script: []wiringDecl{
		{Kind: "unique", Store: "site", Field: "label"},
		{Kind: "unique", Store: "node", Field: "name"},
		{Kind: "unique", Store: "node", Field: "alias", Nullable: true},
		{Kind: "setidx", Store: "node", Field: "roles"},
		{Kind: "fkindex", Store: "node", Field: "site", Target: "site", Back: "nodes"},
		{Kind: "link", Store: "node", Field: "zones", Target: "site", Back: "crew"},
	}}
}

// C15rx: C15nx + required parent field code, required child field plan (extended child store)
func wiringC15Rx() *wiring {
	return &wiring{Name: "C15rx", Stores: []*sStore{
		{Name: "grp", Fields: []sField{{Name: "name"}}},
		{Name: "acct", Fields: []sField{{Name: "name"}, {Name: "grp"}, {Name: "code", Req: true}}, Sets: []string{"caps"}},
		{Name: "sub", Fields: []sField{{Name: "note", Ptr: true}, {Name: "acct"}}},
		{Name: "acx", Parent: "acct", Ext: true, Fields: []sField{{Name: "quota", Ptr: true}, {Name: "plan", Req: true}}},
	}, Script: []wiringDecl{
		{Kind: "unique", Store: "grp", Field: "name"},
		{Kind: "unique", Store: "acct", Field: "name"},
		{Kind: "setidx", Store: "acct", Field: "caps"},
		{Kind: "fkindexcascade", Store: "acct", Field: "grp", Target: "grp", Back: "accts"},
		{Kind: "fkindexcascade", Store: "sub", Field: "acct", Target: "acct", Back: "subs"},
	}}
}

// c15GuardTx: in a wiring whose strategies validate at persist time, every create / update is a guarded operation (the
// model then applies XOps.persist_rejected); draws nothing for the other wirings.
func (g *xGen) c15GuardTx(t *hTx) {
	req := g.w.requiredFields()
	if len(req) == 0 {
		return
	}
	for i := range t.Ops {
		op := &t.Ops[i]
		if op.Kind != "C" && op.Kind != "UP" {
			continue
		}
		op.Guard = true
		for _, r := range req {
			if g.rootOf(op.Store) != g.rootOf(r[0]) {
				continue // a field of another family
			}
			if v := op.F[r[1]]; (v == nil || *v == "") && g.r.chance(68) {
				op.F[r[1]] = sp("rq")
			}
		}
		// an element of one of the parent's string lists beyond bbolt's key limit (32768 bytes including the type tag)
		if len(op.S) > 0 && g.r.chance(2) {
			var names []string
			for n := range op.S {
				names = append(names, n)
			}
			sort.Strings(names)
			n := names[g.r.intn(len(names))]
			l := append([]string{}, op.S[n]...)
			l = append(l, strings.Repeat("e", 32768))
			op.S[n] = l
		}
	}
}
