package main

// State-aware history generator for C08.  The property is about what listeners see of COMMITTED
// work, so most transactions must commit: the generator looks at the facts of the database after
// the previous transaction (never as an oracle, only to bias its choices) and builds operations that
// respect the wiring (existing fk targets, fresh unique values, no restricted referrers, system
// context for system entities), then injects the faults the property names (caller error, failing
// pre-commit action, vetoes, deliberately invalid operations) with small probabilities, and the
// multi-change patterns it talks about (update then delete, create then update through the other
// store of the family, delete twice, cascade deletes).

import (
	"fmt"
	"sort"
	"strings"
)

type c08Ent struct {
	f     map[string]*string
	child map[string]bool
	sys   bool
}

type c08Shadow map[string]map[string]*c08Ent // root store -> id -> entity

type c08Gen struct {
	r    *rng
	w    *wiring
	ids  []string
	vals []string
	sh   c08Shadow
}

func newC08Gen(r *rng, w *wiring) *c08Gen {
	return &c08Gen{r: r, w: w, ids: []string{"a", "b", "c", "d", "e", "f", "g"}, vals: []string{"v1", "v2", "v3", "", "v4"}}
}

func (g *c08Gen) root(store string) string {
	if p := g.w.store(store).Parent; p != "" {
		return p
	}
	return store
}

func c08ShadowFromFacts(w *wiring, facts []string) c08Shadow {
	sh := c08Shadow{}
	for _, s := range w.Stores {
		if s.Parent == "" {
			sh[s.Name] = map[string]*c08Ent{}
		}
	}
	get := func(root, hexid string) *c08Ent {
		id := string(unhx(hexid))
		m := sh[root]
		if m == nil {
			m = map[string]*c08Ent{}
			sh[root] = m
		}
		e := m[id]
		if e == nil {
			e = &c08Ent{f: map[string]*string{}, child: map[string]bool{}}
			m[id] = e
		}
		return e
	}
	val := func(v string) *string {
		if strings.HasPrefix(v, "s") {
			return sp(string(unhx(v[1:])))
		}
		return nil
	}
	for _, f := range facts {
		p := strings.Split(f, ":")
		switch p[0] {
		case "E":
			get(p[1], p[2])
		case "F":
			e := get(p[1], p[2])
			if p[3] == "isSystem" {
				e.sys = p[4] == "b1"
			} else {
				e.f[p[3]] = val(p[4])
			}
		case "C":
			get(p[1], p[2]).child[p[3]] = true
		case "CF":
			get(p[1], p[2]).f[p[4]] = val(p[5])
		}
	}
	return sh
}

func (g *c08Gen) aliveIds(root string) []string {
	var xs []string
	for id := range g.sh[root] {
		xs = append(xs, id)
	}
	sort.Strings(xs)
	return xs
}

// owner returns the store of the family that declares the field
func (g *c08Gen) owner(store, field string) string {
	def := g.w.store(store)
	for _, f := range def.Fields {
		if f.Name == field {
			return store
		}
	}
	if def.Parent != "" {
		return def.Parent
	}
	return store
}

type c08Fk struct {
	target   string
	nullable bool
	cascade  bool
}

func (g *c08Gen) fk(owner, field string) *c08Fk {
	for _, d := range g.w.Script {
		if d.Store == owner && d.Field == field {
			switch d.Kind {
			case "fkindex":
				return &c08Fk{target: d.Target, nullable: d.Nullable}
			case "fkindexcascade":
				return &c08Fk{target: d.Target, cascade: true}
			case "fkcons":
				return &c08Fk{target: d.Target, nullable: d.Nullable, cascade: d.Casc == "D"}
			}
		}
	}
	return nil
}

// unique returns (is unique, nullable)
func (g *c08Gen) unique(owner, field string) (bool, bool) {
	for _, d := range g.w.Script {
		if d.Kind == "unique" && d.Store == owner && d.Field == field {
			return true, d.Nullable
		}
	}
	return false, false
}

func (g *c08Gen) familyFields(store string) ([]sField, []string) {
	fields, sets := g.w.allFields(store)
	s := g.w.store(store)
	if s.Parent == "" {
		for _, c := range g.w.Stores {
			if c.Parent == s.Name {
				fields = append(fields, c.Fields...)
			}
		}
	}
	return fields, sets
}

func (g *c08Gen) fillFields(op *hOp, cur *c08Ent) {
	op.F = map[string]*string{}
	op.S = map[string][]string{}
	fields, sets := g.familyFields(op.Store)
	for _, f := range fields {
		owner := g.owner(op.Store, f.Name)
		if g.w.store(op.Store).Parent == "" {
			// a field of a child store reached through the root store
			for _, c := range g.w.Stores {
				if c.Parent == op.Store {
					for _, cf := range c.Fields {
						if cf.Name == f.Name {
							owner = c.Name
						}
					}
				}
			}
		}
		var old *string
		if cur != nil {
			old = cur.f[f.Name]
		}
		if fk := g.fk(owner, f.Name); fk != nil {
			var cands []string
			for _, id := range g.aliveIds(g.root(fk.target)) {
				if id != op.Id || g.r.chance(8) {
					cands = append(cands, id)
				}
			}
			switch {
			case fk.nullable && (len(cands) == 0 || g.r.chance(30)):
				// nil
			case len(cands) == 0 || g.r.chance(3):
				op.F[f.Name] = sp(g.ids[g.r.intn(len(g.ids))]) // most likely missing: rejected
			case old != nil && g.r.chance(50):
				op.F[f.Name] = sp(*old)
			default:
				op.F[f.Name] = sp(cands[g.r.intn(len(cands))])
			}
			continue
		}
		if uq, nullable := g.unique(owner, f.Name); uq {
			switch {
			case old != nil && g.r.chance(55):
				op.F[f.Name] = sp(*old)
			case nullable && g.r.chance(25):
				// nil
			case g.r.chance(2):
				op.F[f.Name] = sp("") // rejected for a non-nullable index
			default:
				op.F[f.Name] = sp(fmt.Sprintf("n%d", g.r.intn(60)))
			}
			continue
		}
		if f.Ptr && g.r.chance(25) {
			continue
		}
		op.F[f.Name] = sp(g.vals[g.r.intn(len(g.vals))])
	}
	for _, sn := range sets {
		n := g.r.intn(4)
		var l []string
		for i := 0; i < n; i++ {
			v := g.vals[g.r.intn(len(g.vals))]
			if v == "" && !g.r.chance(4) {
				v = "r"
			}
			l = append(l, v)
		}
		op.S[sn] = l
	}
}

// restricted: some alive entity references (root,id) through a non-cascading fk
func (g *c08Gen) restricted(root, id string) bool {
	for _, d := range g.w.Script {
		casc := d.Kind == "fkindexcascade" || (d.Kind == "fkcons" && d.Casc == "D")
		if (d.Kind == "fkindex" || d.Kind == "fkcons") && !casc && g.root(d.Target) == root {
			for rid, e := range g.sh[g.root(d.Store)] {
				if v := e.f[d.Field]; v != nil && *v == id && !(g.root(d.Store) == root && rid == id && false) {
					return true
				}
			}
		}
	}
	return false
}

func (g *c08Gen) shadowDelete(root, id string, depth int) {
	if g.sh[root][id] == nil || depth > 6 {
		return
	}
	delete(g.sh[root], id)
	for _, d := range g.w.Script {
		casc := d.Kind == "fkindexcascade" || (d.Kind == "fkcons" && d.Casc == "D")
		if casc && g.root(d.Target) == root {
			rr := g.root(d.Store)
			for _, rid := range g.aliveIds(rr) {
				if e := g.sh[rr][rid]; e != nil {
					if v := e.f[d.Field]; v != nil && *v == id {
						g.shadowDelete(rr, rid, depth+1)
					}
				}
			}
		}
	}
}

func (g *c08Gen) apply(op *hOp) {
	root := g.root(op.Store)
	switch op.Kind {
	case "C":
		e := &c08Ent{f: map[string]*string{}, child: map[string]bool{}, sys: op.Sys}
		fields, _ := g.w.allFields(op.Store)
		for _, f := range fields {
			v := op.F[f.Name]
			if v == nil && !f.Ptr {
				v = sp("")
			}
			e.f[f.Name] = v
		}
		if root != op.Store {
			e.child[op.Store] = true
		}
		if g.sh[root][op.Id] == nil {
			g.sh[root][op.Id] = e
		}
	case "UP":
		e := g.sh[root][op.Id]
		if e == nil {
			return
		}
		for k, v := range op.F {
			if !op.HasChk || c08Contains(op.Checker, k) {
				e.f[k] = v
			}
		}
	case "D":
		g.shadowDelete(root, op.Id, 0)
	}
}

func c08Contains(xs []string, x string) bool {
	for _, y := range xs {
		if y == x {
			return true
		}
	}
	return false
}

func (g *c08Gen) freshId(root string) string {
	var free []string
	for _, id := range g.ids {
		if g.sh[root][id] == nil {
			free = append(free, id)
		}
	}
	if len(free) == 0 || g.r.chance(5) {
		return g.ids[g.r.intn(len(g.ids))]
	}
	return free[g.r.intn(len(free))]
}

// needsTarget returns a store that must get an entity before [store] can be created
func (g *c08Gen) needsTarget(store string) string {
	fields, _ := g.w.allFields(store)
	for _, f := range fields {
		if fk := g.fk(g.owner(store, f.Name), f.Name); fk != nil && !fk.nullable {
			if len(g.sh[g.root(fk.target)]) == 0 && g.root(fk.target) != g.root(store) {
				return fk.target
			}
		}
	}
	return ""
}

func (g *c08Gen) genCreate(store string, sys bool, depth int) []hOp {
	var ops []hOp
	if t := g.needsTarget(store); t != "" && depth < 3 {
		ops = append(ops, g.genCreate(t, sys, depth+1)...)
	}
	op := hOp{Kind: "C", Store: store, Id: g.freshId(g.root(store)), Sys: sys && g.r.chance(25)}
	g.fillFields(&op, nil)
	g.apply(&op)
	return append(ops, op)
}

func (g *c08Gen) pickStore() string { return g.w.Stores[g.r.intn(len(g.w.Stores))].Name }

// updatable ids of a store: a plain child store only handles entities with its data
func (g *c08Gen) candidates(store string, sysCtx bool) []string {
	def := g.w.store(store)
	root := g.root(store)
	var xs []string
	for _, id := range g.aliveIds(root) {
		e := g.sh[root][id]
		if def.Parent != "" && !e.child[store] {
			continue
		}
		if e.sys && !sysCtx && !g.r.chance(5) {
			continue
		}
		xs = append(xs, id)
	}
	return xs
}

func (g *c08Gen) genOps(sysCtx bool) []hOp {
	store := g.pickStore()
	root := g.root(store)
	k := g.r.intn(100)
	switch {
	case k < 34 || len(g.sh[root]) == 0:
		return g.genCreate(store, sysCtx, 0)
	case k < 64:
		cands := g.candidates(store, sysCtx)
		if len(cands) == 0 {
			return g.genCreate(store, sysCtx, 0)
		}
		op := hOp{Kind: "UP", Store: store, Id: cands[g.r.intn(len(cands))]}
		g.fillFields(&op, g.sh[root][op.Id])
		if g.r.chance(40) {
			op.HasChk = true
			fields, sets := g.w.allFields(store)
			for _, f := range fields {
				if g.r.chance(50) {
					op.Checker = append(op.Checker, f.Name)
				}
			}
			for _, sn := range sets {
				if g.r.chance(50) {
					op.Checker = append(op.Checker, sn)
				}
			}
		}
		g.apply(&op)
		return []hOp{op}
	case k < 90:
		var cands []string
		for _, id := range g.aliveIds(root) {
			e := g.sh[root][id]
			if e.sys && !sysCtx && !g.r.chance(5) {
				continue
			}
			if g.restricted(root, id) && !g.r.chance(8) {
				continue
			}
			cands = append(cands, id)
		}
		if len(cands) == 0 {
			return g.genCreate(store, sysCtx, 0)
		}
		op := hOp{Kind: "D", Store: store, Id: cands[g.r.intn(len(cands))]}
		g.apply(&op)
		return []hOp{op}
	default:
		for _, s2 := range g.w.Stores {
			if len(s2.Links) > 0 {
				cands := g.candidates(s2.Name, true)
				l := s2.Links[g.r.intn(len(s2.Links))]
				others := g.aliveIds(g.root(l.Other))
				if len(cands) == 0 || len(others) == 0 {
					break
				}
				op := hOp{Kind: "AL", Store: s2.Name, Id: cands[g.r.intn(len(cands))], LinkF: l.Local}
				if g.r.chance(30) {
					op.Kind = "RL"
				}
				for i, n := 0, 1+g.r.intn(2); i < n; i++ {
					op.Targets = append(op.Targets, others[g.r.intn(len(others))])
				}
				return []hOp{op}
			}
		}
		return g.genCreate(store, sysCtx, 0)
	}
}

// otherStore returns another store of the same family (parent of a child, a child of a root)
func (g *c08Gen) otherStore(store string) string {
	def := g.w.store(store)
	if def.Parent != "" {
		var sibs []string
		for _, c := range g.w.Stores {
			if c.Parent == def.Parent && c.Name != store {
				sibs = append(sibs, c.Name)
			}
		}
		if len(sibs) > 0 && g.r.chance(30) {
			return sibs[g.r.intn(len(sibs))]
		}
		return def.Parent
	}
	// any child store of the root (a family may have several)
	var kids []string
	for _, c := range g.w.Stores {
		if c.Parent == store {
			kids = append(kids, c.Name)
		}
	}
	if len(kids) > 0 {
		return kids[g.r.intn(len(kids))]
	}
	return store
}

// addVeto makes an entity constraint veto one of the changes the transaction attempts (on the store
// the operation names or on the other store of its family: parent event / child flow)
func (g *c08Gen) addVeto(t *hTx) {
	for try := 0; try < 4; try++ {
		op := t.Ops[g.r.intn(len(t.Ops))]
		if ch, ok := map[string]string{"C": "C", "UP": "U", "D": "D"}[op.Kind]; ok {
			store := op.Store
			if g.r.chance(45) {
				store = g.otherStore(store)
			}
			t.Vetoes = append(t.Vetoes, hVeto{Store: store, Change: ch, Id: op.Id})
			return
		}
	}
}

// blindOp builds an operation without looking at the database: random store, id and values
func (g *c08Gen) blindOp() hOp {
	store := g.pickStore()
	id := g.ids[g.r.intn(len(g.ids))]
	if g.r.chance(3) {
		id = ""
	}
	switch k := g.r.intn(100); {
	case k < 35:
		op := hOp{Kind: "C", Store: store, Id: id}
		g.fillFields(&op, nil)
		return op
	case k < 70:
		op := hOp{Kind: "UP", Store: store, Id: id}
		g.fillFields(&op, nil)
		return op
	default:
		return hOp{Kind: "D", Store: store, Id: id}
	}
}

func (g *c08Gen) genTx(facts []string) *hTx {
	g.sh = c08ShadowFromFacts(g.w, facts)
	t := &hTx{Sys: g.r.chance(30)}
	n := 1 + g.r.intn(3)
	for i := 0; i < n; i++ {
		ops := g.genOps(t.Sys)
		t.Ops = append(t.Ops, ops...)
		last := ops[len(ops)-1]
		if last.Kind != "C" && last.Kind != "UP" && last.Kind != "D" {
			continue
		}
		// several changes of one entity in one transaction
		store := last.Store
		if g.r.chance(40) {
			store = g.otherStore(store)
		}
		switch k := g.r.intn(100); {
		case k < 9 && last.Kind != "D":
			op := hOp{Kind: "D", Store: store, Id: last.Id}
			if !g.restricted(g.root(store), last.Id) {
				g.apply(&op)
				t.Ops = append(t.Ops, op)
			}
		case k < 12 && last.Kind == "D":
			t.Ops = append(t.Ops, hOp{Kind: "D", Store: store, Id: last.Id}) // second delete: not found, rejected
		case k < 24 && last.Kind != "D":
			if e := g.sh[g.root(store)][last.Id]; e != nil && (g.w.store(store).Parent == "" || e.child[store]) {
				op := hOp{Kind: "UP", Store: store, Id: last.Id}
				g.fillFields(&op, e)
				g.apply(&op)
				t.Ops = append(t.Ops, op)
			}
		}
	}
	// faults
	if g.r.chance(6) {
		pos := g.r.intn(len(t.Ops) + 1)
		ops := append([]hOp{}, t.Ops[:pos]...)
		ops = append(ops, hOp{Kind: "FAIL"})
		t.Ops = append(ops, t.Ops[pos:]...)
	}
	if g.r.chance(5) {
		t.PreCommitErr = true
	}
	if g.r.chance(9) {
		g.addVeto(t)
	}
	if g.r.chance(7) {
		// an operation built without looking at the database
		pos := g.r.intn(len(t.Ops) + 1)
		ops := append([]hOp{}, t.Ops[:pos]...)
		ops = append(ops, g.blindOp())
		t.Ops = append(ops, t.Ops[pos:]...)
	}
	return t
}

// ---------------------------------------------------------------- hook programs (alphabet: c08Exec)

// genProg decides where the transaction's commit actions and pre-commit actions are registered - on the
// context before Db.Update / Db.Batch is called, at the start and the end of the function, inside nested
// calls - and which operations are issued through nested db.Update(ctx, ..) / db.Batch(ctx, ..) calls
// that join the running transaction (0..3 per transaction, nested up to depth 3, possibly empty).
func (g *c08Gen) genProg(t *hTx, mode string) string {
	r := g.r
	var sb strings.Builder
	// the failing pre-commit action: 0 on the context before the transaction, 1 at the start of the
	// function, 2 inside a nested call (or at the end of the function)
	failAt := -1
	if t.PreCommitErr {
		failAt = r.intn(3)
	}
	if r.chance(75) {
		sb.WriteByte('c')
	}
	if r.chance(65) {
		sb.WriteByte('p')
	}
	if r.chance(15) {
		sb.WriteByte('q')
	}
	if failAt == 0 {
		sb.WriteByte('f')
	}
	if r.chance(20) {
		sb.WriteByte('c')
	}
	sb.WriteByte('|')
	sb.WriteString("cp") // every transaction: a commit action before its operations, a pre-commit action
	if failAt == 1 {
		sb.WriteByte('f')
	}
	budget := []int{0, 0, 0, 0, 0, 0, 0, 1, 1, 1, 1, 1, 1, 2, 2, 2, 2, 3, 3, 3}[r.intn(20)]
	failPending := failAt == 2
	// part of the operations (possibly none) may be done with a second context built around the running
	// transaction (store_c08_w3.go)
	g.progBody(&sb, len(t.Ops), &budget, &failPending, mode, 22)
	if budget > 0 && r.chance(50) {
		sb.WriteString("uc)") // a nested call that only registers
	}
	if failPending {
		sb.WriteByte('f')
	}
	sb.WriteByte('c') // ... and a commit action after them
	if r.chance(35) {
		sb.WriteByte('p')
	}
	if r.chance(10) {
		sb.WriteByte('q')
	}
	return sb.String()
}

func (g *c08Gen) progItems(sb *strings.Builder, nOps int, budget *int, depth int, failPending *bool, mode string) {
	r := g.r
	remaining := nOps
	for {
		if *budget > 0 && depth < 3 && r.chance(40) {
			*budget--
			take := r.intn(remaining + 1)
			// mostly the call of the stream, sometimes the other one (joined, both only run the function)
			open := byte('u')
			if (mode == "bat") != r.chance(25) {
				open = 'b'
			}
			sb.WriteByte(open)
			if r.chance(30) {
				sb.WriteByte('c')
			}
			if r.chance(20) {
				sb.WriteByte('p')
			}
			g.progItems(sb, take, budget, depth+1, failPending, mode)
			if r.chance(50) {
				sb.WriteByte('c')
			}
			if r.chance(40) {
				sb.WriteByte('p')
			}
			if r.chance(10) {
				sb.WriteByte('q')
			}
			if *failPending && r.chance(60) {
				sb.WriteByte('f')
				*failPending = false
			}
			sb.WriteByte(')')
			remaining -= take
			continue
		}
		if remaining == 0 {
			break
		}
		sb.WriteByte('.')
		remaining--
	}
}

func c08ProgStats(stats map[string]int, prog string) {
	start := strings.IndexByte(prog, '|')
	if start < 0 {
		start = 0
	}
	pre := prog[:start]
	if strings.ContainsAny(pre, "c") {
		stats["prog_commit_action_before_tx"]++
	}
	if strings.ContainsAny(pre, "pfq") {
		stats["prog_precommit_action_before_tx"]++
	}
	depth, maxDepth, nested, inNested := 0, 0, 0, 0
	for i := start; i < len(prog); i++ {
		switch prog[i] {
		case 'u', 'b':
			nested++
			depth++
			if depth > maxDepth {
				maxDepth = depth
			}
		case ')':
			depth--
		case '.':
			if depth > 0 {
				stats["prog_ops_in_nested_call"]++
			}
		case 'x':
			depth++
			stats["prog_second_context_block"]++
		case 'c', 'p', 'f', 'q':
			if depth > 0 {
				inNested++
			}
			if prog[i] == 'q' {
				stats["prog_precommit_adds_commit_action"]++
			}
		}
	}
	stats[fmt.Sprintf("prog_nested_calls_%d", nested)]++
	stats[fmt.Sprintf("prog_nesting_depth_%d", maxDepth)]++
	if inNested > 0 {
		stats["prog_registration_in_nested_call"]++
	}
}
