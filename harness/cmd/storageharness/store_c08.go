package main

// C08 - entity events: exactly once per committed change, none for undone work.
//
// On top of the shared store harness (store.go) this file registers, on EVERY store of a wiring,
// one listener per registration style x change type x {sync, async}:
//
//	t  AddEntityEventListener   (typed listener object)
//	f  AddEntityEventListenerF  (typed function)
//	u  AddListener              (untyped function)
//	i  AddEntityIdListener      (id only)
//	c  AddEntityConstraint      (typed constraint, every change)
//	uc AddUntypedEntityConstraint (untyped constraint, every change)
//
// plus one tx-complete listener (db.AddTxCompleteListener) and, per transaction, the commit actions and
// pre-commit actions of the transaction's HOOK PROGRAM (one token per transaction in the HOOKS section
// of the case line, see c08Exec): registrations on the context object before Db.Update / Db.Batch is
// called, inside the function, and inside nested db.Update(ctx, ..) / db.Batch(ctx, ..) calls that join
// the running transaction.  Every delivery is recorded as
//
//	LS:<style><s|a>:<store>:<change the listener was registered for>:<hex id>:<state digest>
//	LS:c|uc:<store>:<change of the event>:<hex id>:<state digest>:p<parent flag>
//	CA:<label>:<n>   executions of the commit action registered at program position <label>
//	PA:<label>:<n>   executions of the pre-commit action <label>
//	TC:<n>           executions of the tx-complete listener
//
// where the state digest lists the declared field values of the entity the listener received
// (FinalState for create/update, InitialState for delete).  Asynchronous deliveries are awaited.
// The same tokens are printed by coq/extraction/c08_driver.ml from Store/Events.v.

import (
	"context"
	"fmt"
	"os"
	"runtime"
	"sort"
	"strings"
	"sync"
	"time"

	"github.com/openziti/storage/boltz"
	"github.com/pkg/errors"
)

func init() { commands["c08"] = runC08 }

type c08Db struct {
	h *harnessDb

	mu      sync.Mutex
	toks    []string
	nAsync  int            // asynchronous listener deliveries seen
	evCount map[string]int // "store/C" -> events seen by the (synchronous) typed constraint
	ca      int            // commit action executions
	caRuns  map[string]int // ... per registration label
	paRuns  map[string]int // pre-commit action executions per registration label
	tc      int            // tx-complete listener executions
	sig     chan struct{}

	regs     []c08Reg       // registrations with several change types (REGS section), store_c08_w2.go
	nMulti   int            // deliveries to them
	multiPer map[string]int // "store/C" -> number of those registrations on the store that name the change
	reruns   int            // times bbolt ran a transaction function again after it had succeeded
	tagsOn   bool           // the recorders check the tags of the entities they are handed (store_c08_caller.go)
}

func (c *c08Db) signal() {
	select {
	case c.sig <- struct{}{}:
	default:
	}
}

// digest of the entity as seen through the given store: declared fields of the parent store, then
// of the store itself, declared string lists of the root, the system flag
func (c *c08Db) digest(store string, e *gEnt) string {
	if e == nil {
		return "NIL"
	}
	fields, sets := c.h.w.allFields(store)
	var fs []string
	for _, f := range fields {
		v := e.F[f.Name]
		if v == nil {
			fs = append(fs, f.Name+"=N")
		} else {
			fs = append(fs, f.Name+"="+hxs(*v))
		}
	}
	var ss []string
	for _, sn := range sets {
		var ms []string
		seen := map[string]bool{}
		for _, m := range e.S[sn] {
			if !seen[m] {
				seen[m] = true
				ms = append(ms, hxs(m))
			}
		}
		sort.Strings(ms)
		ss = append(ss, sn+"="+strings.Join(ms, "+"))
	}
	return fmt.Sprintf("%s;%s;sys=%s", strings.Join(fs, ","), strings.Join(ss, ","), b01(e.IsSystem))
}

func c08EntId(e *gEnt) string {
	if e == nil {
		return "NIL"
	}
	return hxs(e.Id)
}

func c08EntIdRaw(e *gEnt) string {
	if e == nil {
		return ""
	}
	return e.Id
}

func c08AsGEnt(x boltz.Entity) *gEnt {
	if x == nil {
		return nil
	}
	g, _ := x.(*gEnt)
	return g
}

func (c *c08Db) record(async bool, tok string) {
	c.mu.Lock()
	c.toks = append(c.toks, tok)
	if async {
		c.nAsync++
	}
	c.mu.Unlock()
	if async {
		c.signal()
	}
}

type c08Typed struct {
	c      *c08Db
	prefix string // LS:t<s|a>:<store>:<change>
	store  string
	async  bool
}

func (l *c08Typed) HandleEntityEvent(e *gEnt) {
	l.c.tagCheck(l.prefix[3:5], l.store, l.prefix[len(l.prefix)-1:], c08EntIdRaw(e), e)
	l.c.record(l.async, fmt.Sprintf("%s:%s:%s", l.prefix, c08EntId(e), l.c.digest(l.store, e)))
}

type c08Constraint struct {
	c     *c08Db
	store string
}

func (k *c08Constraint) ProcessPreCommit(*boltz.EntityChangeState[*gEnt]) error { return nil }

func (k *c08Constraint) ProcessPostCommit(state *boltz.EntityChangeState[*gEnt]) {
	ch := changeLetter(state.ChangeType)
	e := state.FinalState
	if ch == "D" {
		e = state.InitialState
	}
	k.c.mu.Lock()
	k.c.evCount[k.store+"/"+ch]++
	k.c.mu.Unlock()
	k.c.tagCheck("c", k.store, ch, state.EntityId, e)
	k.c.record(false, fmt.Sprintf("LS:c:%s:%s:%s:%s:p%s", k.store, ch, hxs(state.EntityId), k.c.digest(k.store, e), b01(state.ParentEvent)))
}

type c08UntypedConstraint struct {
	c     *c08Db
	store string
}

func (k *c08UntypedConstraint) ProcessPreCommit(boltz.UntypedEntityChangeState) error { return nil }

func (k *c08UntypedConstraint) ProcessPostCommit(state boltz.UntypedEntityChangeState) {
	ch := changeLetter(state.GetChangeType())
	e := c08AsGEnt(state.GetFinalState())
	if ch == "D" {
		e = c08AsGEnt(state.GetInitialState())
	}
	k.c.tagCheck("uc", k.store, ch, state.GetEntityId(), e)
	k.c.record(false, fmt.Sprintf("LS:uc:%s:%s:%s:%s:p%s", k.store, ch, hxs(state.GetEntityId()), k.c.digest(k.store, e), b01(state.IsParentEvent())))
}

var c08Changes = []struct {
	letter      string
	sync, async boltz.EntityEventType
}{
	{"C", boltz.EntityCreated, boltz.EntityCreatedAsync},
	{"U", boltz.EntityUpdated, boltz.EntityUpdatedAsync},
	{"D", boltz.EntityDeleted, boltz.EntityDeletedAsync},
}

func openC08Db(w *wiring, dir string, regs []c08Reg) (*c08Db, error) {
	h, err := openHarnessDb(w, dir)
	if err != nil {
		return nil, err
	}
	c, err := c08AttachDb(h, regs)
	if c != nil {
		c.tagsOn = true // every struct the C08 executor builds carries the tags {"id": <id>} (store_c08_caller.go)
	}
	return c, err
}

// c08AttachDb registers the recording listeners of every style, the constraints and the tx-complete listener on an
// open harness database (also used by the C07 harness, store_c07_hooks.go: none of them may run for a failed transaction)
func c08AttachDb(h *harnessDb, regs []c08Reg) (*c08Db, error) {
	w := h.w
	c := &c08Db{h: h, evCount: map[string]int{}, caRuns: map[string]int{}, paRuns: map[string]int{}, sig: make(chan struct{}, 1)}
	for _, def := range w.Stores {
		gs := h.stores[def.Name]
		store := def.Name
		for _, ch := range c08Changes {
			for _, async := range []bool{false, true} {
				et, al := ch.sync, "s"
				if async {
					et, al = ch.async, "a"
				}
				async := async
				ch := ch
				tp := fmt.Sprintf("LS:t%s:%s:%s", al, store, ch.letter)
				fp := fmt.Sprintf("LS:f%s:%s:%s", al, store, ch.letter)
				up := fmt.Sprintf("LS:u%s:%s:%s", al, store, ch.letter)
				ip := fmt.Sprintf("LS:i%s:%s:%s", al, store, ch.letter)
				gs.AddEntityEventListener(&c08Typed{c: c, prefix: tp, store: store, async: async}, et)
				gs.AddEntityEventListenerF(func(e *gEnt) {
					c.tagCheck("f"+al, store, ch.letter, c08EntIdRaw(e), e)
					c.record(async, fmt.Sprintf("%s:%s:%s", fp, c08EntId(e), c.digest(store, e)))
				}, et)
				gs.AddListener(func(e boltz.Entity) {
					g := c08AsGEnt(e)
					c.tagCheck("u"+al, store, ch.letter, c08EntIdRaw(g), g)
					c.record(async, fmt.Sprintf("%s:%s:%s", up, c08EntId(g), c.digest(store, g)))
				}, et)
				gs.AddEntityIdListener(func(id string) {
					c.record(async, fmt.Sprintf("%s:%s:-", ip, hxs(id)))
				}, et)
			}
		}
		gs.AddEntityConstraint(&c08Constraint{c: c, store: store})
		gs.AddUntypedEntityConstraint(&c08UntypedConstraint{c: c, store: store})
	}
	if err := c.registerMulti(regs); err != nil {
		h.close()
		return nil, err
	}
	h.db.AddTxCompleteListener(func(boltz.MutateContext) {
		c.mu.Lock()
		c.tc++
		c.mu.Unlock()
	})
	return c, nil
}

// waits that ran into their deadline in this run
var c08Timeouts int

// the number of asynchronous styles registered per (store, change)
const c08AsyncStyles = 4

type c08Seg struct {
	head  string   // TX R ... COMMIT|ROLLBACK [VETOED] EV...
	other []string // LS / CA / TC / diagnostics
	tail  string   // ST facts
	facts []string
}

func (s *c08Seg) String() string {
	var sb strings.Builder
	sb.WriteString(s.head)
	for _, t := range s.other {
		sb.WriteString(" " + t)
	}
	sb.WriteString(s.tail)
	sb.WriteString(" | ")
	return sb.String()
}

// drain returns the tokens and hook executions recorded so far and resets the recorder
func (c *c08Db) drain() ([]string, map[string]int, map[string]int, int) {
	c.mu.Lock()
	defer c.mu.Unlock()
	toks := c.toks
	ca, pa, tc := c.caRuns, c.paRuns, c.tc
	c.toks, c.nAsync, c.ca, c.tc, c.nMulti = nil, 0, 0, 0, 0
	c.caRuns, c.paRuns = map[string]int{}, map[string]int{}
	c.evCount = map[string]int{}
	sort.Strings(toks)
	return toks, ca, pa, tc
}

// await blocks until the asynchronous deliveries implied by the synchronously observed events and the
// commit actions have arrived (cap 10 s), then leaves a short window for surplus deliveries
func (c *c08Db) await(committed bool, nActions int) bool {
	limit := 10 * time.Second
	if c08Timeouts > 0 {
		limit = 100 * time.Millisecond // something is missing for good: do not stall the whole run
	}
	deadline := time.NewTimer(limit)
	defer deadline.Stop()
	ok := true
	for {
		c.mu.Lock()
		want, wantMulti := 0, 0
		for k, n := range c.evCount {
			want += n * c08AsyncStyles
			wantMulti += n * c.multiPer[k]
		}
		wantCa := 0
		if committed {
			wantCa = nActions
		}
		done := c.nAsync >= want && c.ca >= wantCa && c.nMulti >= wantMulti
		c.mu.Unlock()
		if done {
			break
		}
		select {
		case <-c.sig:
		case <-time.After(2 * time.Millisecond):
		case <-deadline.C:
			ok = false
		}
		if !ok {
			break
		}
	}
	if !ok {
		c08Timeouts++
	}
	// grace: goroutines spawned by the commit are already runnable
	for k := 0; k < 4; k++ {
		runtime.Gosched()
	}
	time.Sleep(300 * time.Microsecond)
	return ok
}

// ---------------------------------------------------------------- hook programs
//
// The hook program of a transaction is one token over the alphabet
//
//	c   ctx.AddCommitAction(<recording action>)                  label c<k>, k = index among the c's
//	p   ctx.AddPreCommitAction(<recording action returning nil>)  label p<k>, k = index among p f q
//	f   ctx.AddPreCommitAction(<recording action that fails>)     label p<k>
//	q   ctx.AddPreCommitAction(<recording action that calls ctx.AddCommitAction(<recording action q<k>>)>), label p<k>
//	|   the transaction starts: db.Update(ctx, body) (mode upd, swl) / db.Batch(ctx, body) (mode bat);
//	    what precedes it is done on the context object returned by NewMutateContext while ctx.Tx() == nil
//	.   the next operation of the transaction (TX section of the case line)
//	u   db.Update(ctx, func..) with the context of the running transaction: joins it; closed by )
//	b   db.Batch(ctx, func..) likewise
//	)   end of the nested function
//	x   ctx2 := boltz.NewTxMutateContext(ctx.Context(), ctx.Tx()): what follows up to the closing ) is done with a
//	    SECOND context built around the running transaction (store_c08_w3.go; only at the top level of the function)
//
// A transaction with the pseudo veto "@rawtx" is opened by the CALLER on the bbolt database and wrapped with
// boltz.NewTxMutateContext (store_c08_w3.go): '|' then is the constructor call, what precedes it is registered on the
// new context right after it.
//
// Operations the program has no '.' for run at the end of the outermost function.  The program of a
// history without HOOKS section is c08DefaultProg: what every transaction registered before programs
// existed.
func c08DefaultProg(t *hTx) string {
	s := "|cp"
	if t.PreCommitErr {
		s += "f"
	}
	return s + strings.Repeat(".", len(t.Ops)) + "c"
}

type c08Exec struct {
	c    *c08Db
	t    *hTx
	mode string
	prog string

	results  []string
	opIdx    int
	nC, nP   int      // label counters
	regC     []string // labels of the commit actions registered so far (incl. those a q action will add)
	regP     []string
	bodyDone bool // the outermost function ran to its end

	// third strengthening (store_c08_w3.go)
	dead    int  // > 0: registrations go to a context built AROUND an existing transaction - nobody runs its pre-commit actions
	regWrap bool // registrations are made through ctx.GetSystemContext() instead of ctx itself

	// sixth strengthening (store_c08_caller.go): what the caller does with the structs it passes (pseudo veto @caller)
	caller *c08CallerState
}

func (x *c08Exec) commitAction(label string) func() {
	c := x.c
	return func() {
		c.mu.Lock()
		c.ca++
		c.caRuns[label]++
		c.mu.Unlock()
		c.signal()
	}
}

// register carries out one of c p f q on the context
func (x *c08Exec) register(ctx boltz.MutateContext, ch byte) {
	c := x.c
	if x.regWrap {
		ctx = ctx.GetSystemContext()
	}
	switch ch {
	case 'c':
		label := fmt.Sprintf("c%d", x.nC)
		x.nC++
		x.regC = append(x.regC, label)
		ctx.AddCommitAction(x.commitAction(label))
	case 'p', 'f', 'q':
		label := fmt.Sprintf("p%d", x.nP)
		qlabel := fmt.Sprintf("q%d", x.nP)
		x.nP++
		x.regP = append(x.regP, label)
		if ch == 'q' && x.dead == 0 {
			x.regC = append(x.regC, qlabel)
		}
		ctx.AddPreCommitAction(func(actx boltz.MutateContext) error {
			c.mu.Lock()
			c.paRuns[label]++
			c.mu.Unlock()
			switch ch {
			case 'f':
				return errors.New("pre-commit action failed")
			case 'q':
				actx.AddCommitAction(x.commitAction(qlabel))
			}
			return nil
		})
	}
}

// op runs the next operation of the transaction; done = the function has to return err
func (x *c08Exec) op(ctx boltz.MutateContext) (err error, done bool) {
	if x.opIdx >= len(x.t.Ops) {
		return nil, false
	}
	h := x.c.h
	i := x.opIdx
	x.opIdx++
	h.mu.Lock()
	raisedBefore := h.raised
	h.mu.Unlock()
	e := x.execOp(ctx, &x.t.Ops[i]) // the caller's structs: store_c08_caller.go
	if e != nil && x.mode == "swl" {
		// a caller that handles the veto of an entity constraint and carries on
		h.mu.Lock()
		vetoed := h.raised > raisedBefore
		h.mu.Unlock()
		if vetoed {
			x.results = append(x.results, "swallowed")
			return nil, false
		}
	}
	x.results = append(x.results, classify(e))
	return e, e != nil
}

// items interprets the program from pos inside a function running in the transaction; it returns the
// position after the function's closing ')' (or the end of the program)
func (x *c08Exec) items(ctx boltz.MutateContext, pos int, depth int) (int, error) {
	for pos < len(x.prog) {
		ch := x.prog[pos]
		pos++
		switch ch {
		case ')':
			if depth > 0 {
				return pos, nil
			}
		case '.':
			if err, done := x.op(ctx); done {
				return pos, err
			}
		case 'c', 'p', 'f', 'q':
			x.register(ctx, ch)
		case 'u', 'b':
			// the usual helper that works with or without an open transaction: called with the context
			// of the running one it joins it
			call := x.c.h.db.Update
			if ch == 'b' {
				call = x.c.h.db.Batch
			}
			after := len(x.prog)
			err := call(ctx, func(nctx boltz.MutateContext) error {
				var e error
				after, e = x.items(nctx, pos, depth+1)
				return e
			})
			if err != nil {
				return after, err
			}
			pos = after
		case 'x':
			// part of the work is done with a second context built around the transaction of the running one
			x.dead++
			after, err := x.items(c08SecondCtx(ctx), pos, depth+1)
			x.dead--
			if err != nil {
				return after, err
			}
			pos = after
		}
	}
	if depth == 0 {
		for x.opIdx < len(x.t.Ops) {
			if err, done := x.op(ctx); done {
				return pos, err
			}
		}
	}
	return pos, nil
}

// runTx executes one transaction (mode upd = Db.Update, bat = Db.Batch, swl = Db.Update with a caller
// that swallows constraint vetoes and commits anyway) under its hook program and returns its observation
func (c *c08Db) runTx(t *hTx, mode, prog string) *c08Seg {
	h := c.h
	h.mu.Lock()
	h.vetoes = map[string]bool{}
	for _, v := range t.Vetoes {
		h.vetoes[v.Store+"/"+v.Change+"/"+v.Id] = true
	}
	h.events = nil
	h.raised = 0
	h.mu.Unlock()

	ctx := boltz.NewMutateContext(context.Background())
	// pseudo veto "@ctx" (shared harness): the caller keeps ONE context for all its transactions - also
	// after one of them was rolled back.  Programs of such transactions register nothing on it.
	if _, shared := c08PseudoVeto(t, "@ctx"); shared {
		if h.sharedCtx == nil {
			h.sharedCtx = boltz.NewMutateContext(context.Background())
		}
		ctx = h.sharedCtx
	}
	if t.Sys {
		ctx = ctx.GetSystemContext()
	}
	x := &c08Exec{c: c, t: t, mode: mode, prog: prog}
	// pseudo veto "@nilctx" (store_c08_w9.go): the caller brings no context, Db.Update / Db.Batch make one
	callCtx := ctx
	if c08NilCtxApplies(t, prog) {
		callCtx = nil
	}
	// pseudo veto "@rawtx": the caller opens the bbolt transaction itself and wraps it with NewTxMutateContext
	rawSpec, raw := c08PseudoVeto(t, c08RawTx)
	if raw {
		x.dead = 1
		x.regWrap = strings.Contains(rawSpec, "w") && !t.Sys
	}
	// on the context object, before the transaction exists
	start := strings.IndexByte(prog, '|')
	for k := 0; k < start && !raw; k++ {
		x.register(ctx, prog[k])
	}
	preC, preP, preRegC, preRegP := x.nC, x.nP, len(x.regC), len(x.regP)
	body := func(ctx boltz.MutateContext) (err error) {
		// bbolt's Batch re-runs a failed function on its own - and an innocent one whose batch partner
		// failed: start from scratch
		if x.bodyDone {
			c.mu.Lock()
			c.reruns++
			c.mu.Unlock()
		}
		x.results, x.opIdx, x.bodyDone = nil, 0, false
		x.caller = c08NewCaller(t)
		defer x.callerEnd() // a caller that changes its structs at the end of the function
		x.nC, x.nP, x.regC, x.regP = preC, preP, x.regC[:preRegC], x.regP[:preRegP]
		c.mu.Lock()
		c.paRuns = map[string]int{}
		c.mu.Unlock()
		// a caller that swallowed a veto in the middle of a cascade works on a half-updated database;
		// whatever boltz does then (also a nil dereference) only has to end in a rollback
		defer func() {
			if r := recover(); r != nil {
				x.results = append(x.results, "PANIC")
				err = fmt.Errorf("panic in the transaction body: %v", r)
			}
		}()
		for k := 0; k < start && raw; k++ {
			x.register(ctx, prog[k]) // right after NewTxMutateContext(.., tx)
		}
		if _, err = x.items(ctx, start+1, 0); err == nil {
			x.bodyDone = true
		}
		return err
	}
	var err error
	if raw {
		err = c.runRawTx(rawSpec, t.Sys, body)
	} else if partners, co := c08PseudoVeto(t, c08CoBatch); co && mode == "bat" && partners != "" {
		err = c.runCoalesced(callCtx, body, partners)
	} else if mode == "bat" {
		err = h.db.Batch(callCtx, body)
	} else {
		err = h.db.Update(callCtx, body)
	}
	inTime := c.await(err == nil, len(x.regC))

	seg := &c08Seg{}
	var sb strings.Builder
	sb.WriteString("TX R")
	for _, r := range x.results {
		sb.WriteString(" " + r)
	}
	if err == nil {
		sb.WriteString(" COMMIT")
	} else {
		sb.WriteString(" ROLLBACK")
	}
	h.mu.Lock()
	evs := append([]string{}, h.events...)
	if h.raised > 0 {
		sb.WriteString(" VETOED")
	}
	h.mu.Unlock()
	sort.Strings(evs)
	for _, e := range evs {
		sb.WriteString(" " + e)
	}
	seg.head = sb.String()
	toks, ca, pa, tc := c.drain()
	seg.other = append(seg.other, toks...)
	// commit: every registration with its executions.  Rollback: only what ran although it must not
	// (commit actions: anything; pre-commit actions: anything when the function itself failed - when
	// the function succeeded they are work inside the transaction that is then rolled back, and
	// bbolt's Batch repeats it)
	seg.other = append(seg.other, c08HookTokens("CA", x.regC, ca, err == nil)...)
	if err == nil || !x.bodyDone {
		seg.other = append(seg.other, c08HookTokens("PA", x.regP, pa, err == nil)...)
	}
	seg.other = append(seg.other, fmt.Sprintf("TC:%d", tc))
	if !inTime {
		seg.other = append(seg.other, "ASYNC-TIMEOUT")
	}
	var tb strings.Builder
	tb.WriteString(" ST")
	seg.facts = h.facts()
	for _, f := range seg.facts {
		tb.WriteString(" " + f)
	}
	seg.tail = tb.String()
	return seg
}

func c08HookTokens(tag string, registered []string, runs map[string]int, committed bool) []string {
	labels := map[string]bool{}
	for l := range runs {
		labels[l] = true
	}
	if committed {
		for _, l := range registered {
			labels[l] = true
		}
	}
	var out []string
	for l := range labels {
		if committed || runs[l] > 0 {
			out = append(out, fmt.Sprintf("%s:%s:%d", tag, l, runs[l]))
		}
	}
	sort.Strings(out)
	return out
}

// runHistoryC08 executes a history on a fresh database; the transactions and their hook programs come
// from [next], which sees the facts of the database after the previous transaction (the state-aware
// generator uses them to bias its choices; a corpus / replay history ignores them).  Deliveries that
// arrive after their transaction's observation was taken show up in the next segment (or as LATE tokens
// at the end).
func runHistoryC08(w *wiring, regs []c08Reg, next func(k int, facts []string) (*hTx, string), mode, dir string) (string, string, []hTx, []string, error) {
	c, err := openC08Db(w, dir, regs)
	if err != nil {
		return "", "", nil, nil, err
	}
	defer c.h.close()
	defer func() { c08Reruns += c.reruns }()
	var cs strings.Builder
	var segs []*c08Seg
	var txs []hTx
	var progs []string
	var facts []string
	for k := 0; ; k++ {
		t, prog := next(k, facts)
		if t == nil {
			break
		}
		if prog == "" {
			prog = c08DefaultProg(t)
		}
		txs = append(txs, *t)
		progs = append(progs, prog)
		cs.WriteString(" ")
		cs.WriteString(w.txText(t))
		seg := c.runTx(t, mode, prog)
		facts = seg.facts
		segs = append(segs, seg)
	}
	if len(segs) > 0 {
		time.Sleep(2 * time.Millisecond)
		toks, ca, pa, tc := c.drain()
		last := segs[len(segs)-1]
		for _, t := range toks {
			last.other = append(last.other, "LATE:"+t)
		}
		for _, t := range c08HookTokens("CA", nil, ca, false) {
			last.other = append(last.other, "LATE:"+t)
		}
		for _, t := range c08HookTokens("PA", nil, pa, false) {
			last.other = append(last.other, "LATE:"+t)
		}
		if tc > 0 {
			last.other = append(last.other, fmt.Sprintf("LATE:TC:%d", tc))
		}
	}
	var o strings.Builder
	for _, s := range segs {
		o.WriteString(s.String())
	}
	head := fmt.Sprintf("MODE %s HOOKS %d %s", mode, len(progs), strings.Join(progs, " "))
	if len(regs) > 0 {
		head += fmt.Sprintf(" REGS %d", len(regs))
		for _, reg := range regs {
			head += " " + reg.String()
		}
	}
	head += " " + w.text()
	return head + cs.String(), o.String(), txs, progs, nil
}

func c08FixedHistory(txs []hTx, progs []string) func(int, []string) (*hTx, string) {
	return func(k int, _ []string) (*hTx, string) {
		if k >= len(txs) {
			return nil, ""
		}
		if k < len(progs) {
			return &txs[k], progs[k]
		}
		return &txs[k], ""
	}
}

// c08SplitHead takes "MODE <m> [HOOKS <n> <prog>...] [REGS <n> <registration>...]" off a case line
func c08SplitHead(line string) (mode string, progs []string, regs []c08Reg, rest string, err error) {
	mode = "upd"
	if strings.HasPrefix(line, "MODE ") {
		parts := strings.SplitN(line, " ", 3)
		mode, line = parts[1], parts[2]
	}
	section := func(tag string) []string {
		if !strings.HasPrefix(line, tag+" ") {
			return nil
		}
		parts := strings.SplitN(line, " ", 3)
		var n int
		fmt.Sscanf(parts[1], "%d", &n)
		items := strings.SplitN(parts[2], " ", n+1)
		if len(items) != n+1 {
			return nil
		}
		line = items[n]
		return items[:n]
	}
	progs = section("HOOKS")
	for _, tok := range section("REGS") {
		reg, e := c08ParseReg(tok)
		if e != nil {
			return mode, progs, nil, line, e
		}
		regs = append(regs, reg)
	}
	return mode, progs, regs, line, nil
}

// how often bbolt re-ran a transaction function that had already succeeded (coalesced Db.Batch calls)
var c08Reruns int

func runC08(o *opts) error {
	cases := newLineWriter(o.out, "cases.txt")
	impl := newLineWriter(o.out, "impl.txt")
	defer cases.close()
	defer impl.close()
	tmp := o.get("tmp", os.TempDir())
	stats := map[string]int{}
	n, nb, nsw := 2200, 120, 150
	if o.thorough() {
		n, nb, nsw = 24000, 2000, 2000
	}
	if o.n > 0 {
		n = o.n
		nb = o.getInt("nbatch", o.n/12)
		nsw = o.getInt("nswallow", o.n/12)
	}
	account := func(w *wiring, mode string, txs []hTx, progs []string, obs string) {
		for _, p := range progs {
			c08ProgStats(stats, p)
		}
		stats["histories"]++
		stats["mode_"+mode]++
		stats["wiring_"+w.Name]++
		stats["tx"] += len(txs)
		c08NilCtxStats(stats, txs, progs)
		for _, t := range txs {
			stats["ops"] += len(t.Ops)
			for _, op := range t.Ops {
				stats["op_"+op.Kind]++
			}
			if len(t.Vetoes) > 0 {
				stats["tx_veto"]++
			}
			if _, ok := c08PseudoVeto(&t, "@ctx"); ok {
				stats["tx_shared_ctx"]++
			}
			c08CallerStats(stats, &t)
			if _, ok := c08PseudoVeto(&t, c08CoBatch); ok {
				stats["tx_coalesced_batch"]++
			}
			if spec, ok := c08PseudoVeto(&t, c08RawTx); ok {
				stats["tx_caller_managed"]++
				stats["tx_caller_managed_"+spec]++
			}
			if t.PreCommitErr {
				stats["tx_precommit_err"]++
			}
		}
		stats["obs_commit"] += strings.Count(obs, " COMMIT")
		stats["obs_rollback"] += strings.Count(obs, " ROLLBACK")
		stats["obs_events"] += strings.Count(obs, " EV:")
		stats["obs_parent_events"] += strings.Count(obs, ":1 ") // EV:...:1
		stats["obs_deliveries"] += strings.Count(obs, " LS:")
		stats["obs_async_timeout"] += strings.Count(obs, "ASYNC-TIMEOUT")
	}
	if cp := o.get("corpus", ""); cp != "" {
		data, err := os.ReadFile(cp)
		if err != nil {
			return err
		}
		for _, line := range strings.Split(string(data), "\n") {
			line = strings.TrimSpace(line)
			if line == "" || strings.HasPrefix(line, "#") {
				continue
			}
			mode, progs, regs, line, err := c08SplitHead(line)
			if err != nil {
				return fmt.Errorf("corpus %s: %v", cp, err)
			}
			w, txs, err := parseCase(line)
			if err != nil {
				return fmt.Errorf("corpus %s: %v", cp, err)
			}
			cl, obs, _, _, err := runHistoryC08(w, regs, c08FixedHistory(txs, progs), mode, tmp)
			if err != nil {
				return err
			}
			cases.line("%s", cl)
			impl.line("%s", obs)
			stats["corpus"]++
		}
	}
	if o.get("replay", "") != "" {
		writeJSON(o.out, "stats.json", stats)
		return nil
	}
	r := newRng(o.seed)
	rNil := newRng(o.seed ^ 0x6e696c637478) // own stream of store_c08_w9.go
	for i := 0; i < n+nb+nsw; i++ {
		if c08Timeouts >= 25 {
			stats["aborted_after_timeouts"] = i
			break
		}
		mode := "upd"
		if i >= n+nb {
			mode = "swl"
		} else if i >= n {
			mode = "bat"
		}
		w := wiringByName(c08Wirings[i%len(c08Wirings)])
		w.derive()
		g := newC08Gen(r, w)
		nTx := 2 + r.intn(5)
		// in 45% of the histories most callers reuse / change their entity structs, elsewhere a few do
		callerPct := 6
		if mode != "swl" && r.chance(45) {
			callerPct = 70
		}
		var regs []c08Reg
		var kind c08History
		// in a quarter of the histories most callers bring no context, elsewhere some do
		nilPct := 10
		if rNil.chance(25) {
			nilPct = 70
		}
		if mode != "swl" {
			regs = g.genRegs()
			g.genRegPass(regs) // how the caller hands the types over (store_c08_regpass.go)
			kind = g.genHistoryKind(mode)
		}
		cl, obs, txs, progs, err := runHistoryC08(w, regs, func(k int, facts []string) (*hTx, string) {
			if k >= nTx {
				return nil, ""
			}
			t := g.genTx(facts)
			if mode == "swl" {
				if len(t.Vetoes) == 0 {
					g.addVeto(t)
				}
				return t, g.genProg(t, mode)
			}
			if r.chance(callerPct) {
				g.callerShape(t) // a caller that reuses / changes the structs it passes (store_c08_caller.go)
			}
			prog := g.shape(t, mode, kind)
			return t, c08NilCtxShape(rNil, t, mode, prog, nilPct) // a caller that brings no context (store_c08_w9.go)
		}, mode, tmp)
		if err != nil {
			return err
		}
		cases.line("%s", cl)
		impl.line("%s", obs)
		account(w, mode, txs, progs, obs)
		stats["multi_type_registrations"] += len(regs)
		c08RegPassStats(stats, regs)
		if kind.sharedCtx {
			stats["histories_shared_ctx"]++
		}
		if kind.coBatch {
			stats["histories_coalesced_batch"]++
		}
		if kind.rawTx {
			stats["histories_caller_managed_tx"]++
		}
	}
	stats["batch_reruns_of_succeeded_function"] = c08Reruns
	writeJSON(o.out, "stats.json", stats)
	fmt.Fprintf(os.Stderr, "c08: %d histories (%d through Db.Batch, %d with swallowed vetoes)\n", n+nb+nsw, nb, nsw)
	return nil
}
