package main

// C06 - wirings in which stores of ONE family (two sibling child stores; a child store and its parent) and stores of
// different families declare constraints on fields WITH THE SAME NAME that point at the same target store (see
// design/C06.md, "Strengthening: equal field names in sibling child stores").  A child store reports the entity type
// of its parent, so "<entity type>.<symbol name>" does not identify a field: mgr.sponsor and ctr.sponsor (child stores
// of emp) are both "emp.sponsor".  The schema, the model and the facts identify a field by (store, name), so such
// wirings are ordinary schemas; Examples/C06Wirings.v computes wf_notrace_b for each of them.  Registered through
// extraWirings, used by the C06 "same-name" stream only (generated after every older stream).

import (
	"strings"
)

func init() {
	extraWirings["C06sa"] = wiringC06Sa
	extraWirings["C06sb"] = wiringC06Sb
	extraWirings["C06sc"] = wiringC06Sc
	for _, n := range c06NameWirings {
		c06ChildWirings[n] = true // the generator helpers follow fk targets / links on child stores
	}
}

var c06NameWirings = []string{"C06sa", "C06sb", "C06sc"}

// C06sa: fk CONSTRAINTS of two sibling child stores on equally named fields: mgr.sponsor / ctr.sponsor -> dept
// (cascade), mgr.desk / ctr.desk -> room (restrict).  The target store gets one delete constraint per referrer store.
// Unique indexes on "name" and set indexes on "marks" in several families (index buckets are kept per entity type).
func wiringC06Sa() *wiring {
	return &wiring{Name: "C06sa", Stores: []*sStore{
		{Name: "dept", Fields: []sField{{Name: "name"}}, Sets: []string{"marks"}},
		{Name: "room", Fields: []sField{{Name: "name", Ptr: true}}},
		{Name: "emp", Fields: []sField{{Name: "name"}, {Name: "nick", Ptr: true}}, Sets: []string{"marks"}},
		{Name: "mgr", Parent: "emp", Fields: []sField{{Name: "sponsor"}, {Name: "desk", Ptr: true}}},
		{Name: "ctr", Parent: "emp", Fields: []sField{{Name: "sponsor", Ptr: true}, {Name: "desk", Ptr: true}}},
	}, Script: []wiringDecl{
		{Kind: "unique", Store: "dept", Field: "name"},
		{Kind: "unique", Store: "emp", Field: "name"},
		{Kind: "unique", Store: "room", Field: "name", Nullable: true},
		{Kind: "setidx", Store: "dept", Field: "marks"},
		{Kind: "setidx", Store: "emp", Field: "marks"},
		{Kind: "fkcons", Store: "mgr", Field: "sponsor", Target: "dept", Casc: "D"},
		{Kind: "fkcons", Store: "ctr", Field: "sponsor", Target: "dept", Nullable: true, Casc: "D"},
		{Kind: "fkcons", Store: "mgr", Field: "desk", Target: "room", Nullable: true, Casc: "N"},
		{Kind: "fkcons", Store: "ctr", Field: "desk", Target: "room", Nullable: true, Casc: "N"},
	}}
}

// C06sb: fk INDEXES of sibling child stores on equally named fields (the back-reference sets on the target have
// different names): cascade fk indexes mgr.sponsor / ctr.sponsor -> dept plus a cascade fk constraint tmp.sponsor ->
// dept from a third sibling, restrict fk indexes mgr.desk / ctr.desk -> room; a set index on a child store and a
// parent-level link collection, so that the delete of a referrer has work on both levels.
func wiringC06Sb() *wiring {
	return &wiring{Name: "C06sb", Stores: []*sStore{
		{Name: "dept", Fields: []sField{{Name: "name"}}},
		{Name: "room", Fields: []sField{{Name: "name", Ptr: true}}},
		{Name: "emp", Fields: []sField{{Name: "name"}}, Sets: []string{"roles"}},
		{Name: "mgr", Parent: "emp", Fields: []sField{{Name: "sponsor"}, {Name: "desk", Ptr: true}}},
		{Name: "ctr", Parent: "emp", Fields: []sField{{Name: "sponsor"}, {Name: "desk", Ptr: true}}},
		{Name: "tmp", Parent: "emp", Fields: []sField{{Name: "sponsor", Ptr: true}}},
	}, Script: []wiringDecl{
		{Kind: "unique", Store: "dept", Field: "name"},
		{Kind: "unique", Store: "emp", Field: "name"},
		{Kind: "fkindexcascade", Store: "mgr", Field: "sponsor", Target: "dept", Back: "mgrs"},
		{Kind: "fkindexcascade", Store: "ctr", Field: "sponsor", Target: "dept", Back: "ctrs"},
		{Kind: "fkcons", Store: "tmp", Field: "sponsor", Target: "dept", Nullable: true, Casc: "D"},
		{Kind: "fkindex", Store: "mgr", Field: "desk", Target: "room", Back: "mdesks", Nullable: true},
		{Kind: "fkindex", Store: "ctr", Field: "desk", Target: "room", Back: "cdesks", Nullable: true},
		{Kind: "setidx", Store: "mgr", Field: "roles"},
		{Kind: "link", Store: "emp", Field: "sites", Target: "room", Back: "staff"},
	}}
}

// C06sc: a child store and its PARENT declare an fk constraint on a field of the same name (the child store's symbol
// shadows the parent's inside the child store; both levels are written with the value the operation carries for that
// name), a sibling and a store of another family do the same.  Registration order on dept: cascade from mgr, cascade
// from ctr, restrict from emp (entities without child data), restrict fk index from vend.
func wiringC06Sc() *wiring {
	return &wiring{Name: "C06sc", Stores: []*sStore{
		{Name: "dept", Fields: []sField{{Name: "name"}}, Sets: []string{"marks"}},
		{Name: "emp", Fields: []sField{{Name: "name"}, {Name: "sponsor", Ptr: true}}, Sets: []string{"marks"}},
		{Name: "vend", Fields: []sField{{Name: "name"}, {Name: "sponsor", Ptr: true}}},
		{Name: "mgr", Parent: "emp", Fields: []sField{{Name: "sponsor", Ptr: true}, {Name: "code", Ptr: true}}},
		{Name: "ctr", Parent: "emp", Fields: []sField{{Name: "sponsor", Ptr: true}}},
	}, Script: []wiringDecl{
		{Kind: "unique", Store: "dept", Field: "name"},
		{Kind: "unique", Store: "emp", Field: "name"},
		{Kind: "unique", Store: "vend", Field: "name"},
		{Kind: "unique", Store: "mgr", Field: "code", Nullable: true},
		{Kind: "setidx", Store: "dept", Field: "marks"},
		{Kind: "setidx", Store: "emp", Field: "marks"},
		{Kind: "fkcons", Store: "mgr", Field: "sponsor", Target: "dept", Nullable: true, Casc: "D"},
		{Kind: "fkcons", Store: "ctr", Field: "sponsor", Target: "dept", Nullable: true, Casc: "D"},
		{Kind: "fkcons", Store: "emp", Field: "sponsor", Target: "dept", Nullable: true, Casc: "N"},
		{Kind: "fkindex", Store: "vend", Field: "sponsor", Target: "dept", Back: "vends", Nullable: true},
	}}
}

// c06NameGroups: the edges of the wiring grouped by (target store, field name), groups with at least two edges only,
// in script order (= the order in which the target store registered the delete constraints)
func (g *histGen) c06NameGroups() [][]c06Edge {
	var keys []string
	m := map[string][]c06Edge{}
	for _, e := range g.c06Edges() {
		k := e.d.Target + "." + e.d.Field
		if _, ok := m[k]; !ok {
			keys = append(keys, k)
		}
		m[k] = append(m[k], e)
	}
	var out [][]c06Edge
	for _, k := range keys {
		if len(m[k]) >= 2 {
			out = append(out, m[k])
		}
	}
	return out
}

// genSameNameC06: a history (generated against the live database) around ONE target entity X that is referenced through
// SEVERAL equally named fk fields at once: for a group of edges with the same target store and field name, each edge
// (a subset, mostly all of them) gets 1..3 neighbouring referrers in its own store; referrers of restrict edges are
// released per edge (so that the referrers of exactly one store may be left: the delete must then be refused), then X
// is deleted - in the transaction that wrote the referrers or in a later one -, created again and used.  Every
// referrer store of the group has its own delete constraint on the target store; each must do its work.
func (g *histGen) genSameNameC06(h *harnessDb, stats map[string]int) ([]hTx, []string) {
	g.p.endInDelete = false
	g.alive = map[string]map[string]bool{}
	for _, s := range g.w.Stores {
		g.alive[s.Name] = map[string]bool{}
	}
	var txs []hTx
	var obs []string
	sync := func() {
		for len(obs) < len(txs) {
			c06Route(g.w, &txs[len(obs)])
			obs = append(obs, h.runTxC06(&txs[len(obs)]))
		}
		g.refresh(h)
	}
	for i, n := 0, g.r.intn(4); i < n; i++ {
		st := g.w.Stores[g.r.intn(len(g.w.Stores))]
		id := g.pickId()
		for try := 0; try < 4 && g.alive[g.rootOf(st.Name)][id]; try++ {
			id = g.pickId()
		}
		txs = g.validCreate(txs, st, id, 0)
	}
	sync()
	g.ids = append(append(append([]string{}, g.ids...), c06BurstIds...), c06BurstIds2...)

	groups := g.c06NameGroups()
	grp := groups[g.r.intn(len(groups))]
	tstore := g.w.store(grp[0].d.Target)
	troot := g.rootOf(tstore.Name)
	stats["samename_group_"+tstore.Name+"."+grp[0].d.Field]++

	var ops []hOp
	commit := func(sys bool) {
		if len(ops) > 0 {
			txs = append(txs, hTx{Sys: sys, Ops: ops})
			ops = nil
			sync()
		}
	}
	x := c06Reserved
	if al := g.aliveIds(tstore.Name); len(al) > 0 && g.r.chance(30) {
		x = al[g.r.intn(len(al))]
	} else {
		ops = g.c06BurstCreate(ops, tstore, x, nil, g.r.chance(40), 0)
	}
	if g.r.chance(50) {
		commit(true)
	}
	// which edges of the group get referrers: all of them (60 %), else a random non-empty subset (the last one included
	// half of the time: the constraint registered last / in the middle / first is the only one with work)
	use := make([]bool, len(grp))
	if g.r.chance(60) {
		for i := range use {
			use[i] = true
		}
	} else {
		for i := range use {
			use[i] = g.r.chance(40)
		}
		use[g.r.intn(len(use))] = true
	}
	type att struct {
		e   c06Edge
		ids []string
	}
	var attached []att
	created := map[string]hOp{}
	pool := append([]string{}, c06BurstIds...)
	for i, e := range grp {
		if !use[i] || len(pool) == 0 {
			continue
		}
		n := 1 + g.r.intn(3)
		if n > len(pool) {
			n = len(pool)
		}
		ids := append([]string{}, pool[:n]...)
		pool = pool[n:]
		// c06Attach creates a free id through the edge's store (sometimes through one of its child stores) with the fk
		// field fixed to x, and patches exactly the fk field of an existing entity of that store
		ops = g.c06Attach(ops, e, ids, x, created)
		attached = append(attached, att{e, ids})
		stats["samename_attach_"+e.d.Store]++
		if g.r.chance(25) {
			commit(g.r.chance(70))
		}
	}
	if g.r.chance(40) {
		commit(true)
	}
	if len(attached) > 0 && g.r.chance(30) {
		a := attached[g.r.intn(len(attached))]
		ops = g.c06Churn(ops, a.e, a.ids, x, created)
	}
	// release the referrers of restrict edges, edge by edge
	released := true
	for _, a := range attached {
		if a.e.cascade {
			continue
		}
		if g.r.chance(25) {
			released = false
			continue
		}
		rroot := g.rootOf(a.e.d.Store)
		for _, id := range a.ids {
			if g.alive[rroot][id] && !(rroot == troot && id == x) {
				ops = g.c06Release(ops, a.e, id, x)
			}
		}
	}
	if !released {
		stats["samename_delete_with_restrict_referrers_left"]++
	}
	ops = append(ops, hOp{Kind: "D", Store: tstore.Name, Id: x})
	g.markDeleted(troot, x)
	nops := len(ops)
	commit(!g.r.chance(12))
	if strings.Contains(obs[len(obs)-1], " COMMIT") {
		stats["samename_delete_tx_committed"]++
		stats["samename_deleted_entities"] += strings.Count(obs[len(obs)-1], " VD:")
		if nops > 1 {
			stats["samename_delete_in_multi_op_tx"]++
		}
	}
	// the id again
	if g.r.chance(70) && !g.alive[troot][x] {
		txs = g.validCreate(txs, tstore, x, 3)
		txs[len(txs)-1].Sys = true
		sync()
		// a referrer of every store of the group points at the re-created entity, which then goes again
		if g.r.chance(50) {
			for _, e := range grp {
				if len(pool) == 0 {
					break
				}
				ops = g.c06Attach(ops, e, pool[:1], x, created)
				pool = pool[1:]
			}
			commit(true)
			if g.r.chance(60) {
				ops = append(ops, hOp{Kind: "D", Store: tstore.Name, Id: x})
				g.markDeleted(troot, x)
				commit(true)
			}
		} else {
			for i, n := 0, g.r.intn(3); i < n; i++ {
				txs = append(txs, hTx{Sys: g.r.chance(60), Ops: []hOp{g.opOn(tstore, x)}})
			}
			sync()
		}
	}
	return txs, obs
}

// c06NameStream appends the "same-name" histories to the case files: wirings C06sa / C06sb / C06sc round robin; per
// wiring the generators rotate: same-name (2 of 5), child-level subject, burst, tail of the main stream.
func c06NameStream(o *opts, r *rng, n int, tmp string, stats map[string]int, emit func(c, obs, nv string)) error {
	for i := 0; i < n; i++ {
		prof := profileFor("c06")
		w := wiringByName(c06NameWirings[i%len(c06NameWirings)])
		w.derive()
		g := &histGen{r: r, w: w, p: prof, ids: prof.ids}
		stats["samename_wiring_"+w.Name]++
		kind := (i / len(c06NameWirings)) % 5
		var c, obsLine, nv string
		var txs []hTx
		if kind == 4 {
			var bstart, bend int
			txs, bstart, bend = g.genHistoryC06((i/(5*len(c06NameWirings)))%2 == 1)
			for k := range txs {
				c06Route(w, &txs[k])
			}
			var err error
			c, obsLine, nv, err = c06Case(w, txs, bstart, bend, tmp)
			if err != nil {
				return err
			}
			stats["samename_tail_histories"]++
		} else {
			h, err := openHarnessDb(w, tmp)
			if err != nil {
				return err
			}
			var obs []string
			sub := map[string]int{} // the counters of the shared generators, kept apart from those of their own streams
			switch kind {
			case 2:
				txs, obs = g.genChildC06(h, sub)
				stats["samename_child_subject_histories"]++
			case 3:
				txs, obs, _ = g.genBurstC06(h, sub)
				stats["samename_burst_histories"]++
			default:
				txs, obs = g.genSameNameC06(h, stats)
				stats["samename_group_histories"]++
			}
			for k, v := range sub {
				stats["samename_"+k] += v
			}
			h.close()
			var cb strings.Builder
			cb.WriteString(w.text())
			for k := range txs {
				cb.WriteString(" ")
				cb.WriteString(w.txText(&txs[k]))
			}
			c, obsLine, nv = cb.String(), strings.Join(obs, ""), "-"
		}
		emit(c, obsLine, nv)
		stats["samename_histories"]++
		stats["samename_tx"] += len(txs)
		stats["samename_obs_commit"] += strings.Count(obsLine, " COMMIT")
		stats["samename_obs_rollback"] += strings.Count(obsLine, " ROLLBACK")
		stats["validate_deleted_calls"] += strings.Count(obsLine, " VD:")
	}
	return nil
}
