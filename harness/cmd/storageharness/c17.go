package main

import (
	"bytes"
	"encoding/json"
	"errors"
	"fmt"
	"io"
	"os"
	"os/exec"
	"path/filepath"
	"runtime"
	"runtime/debug"
	"strconv"
	"strings"
	"sync"
	"sync/atomic"
	"time"

	"github.com/openziti/storage/boltz"
	"github.com/sirupsen/logrus"
	"go.etcd.io/bbolt"
)

// C17 - snapshot and restore.  One case per line (see coq/extraction/c17_driver.ml):
//
//	H <nops> <op>...       a history executed on a fresh database
//	   op :=  tx <commit> <n> <wop>...                         Db.Update with raw writes; commit=0: fn returns an error
//	        | snap plain | snap view | snap upd <commit> <n> <wop>... <n> <wop>...
//	        | stream | restore <k> | snapid | tl <d|i|f> <ok hex | err> | addl
//	   wop := put <n> <bucket>... <key> <val> | del <n> <bucket>... <key> | mk <n> <bucket>... | rm <n> <bucket>...
//	R <mode> <ms>          transactions racing restores (child process); the model answers "R ok"
//
// Observation: per op one group of tokens, groups separated by " | "; every group ends with the
// full live content L[...]; snap/stream groups also show the content of the produced file F[...].
func init() {
	commands["c17"] = runC17
	commands["c17race"] = runC17Race
}

type c17Wop struct {
	kind string
	bs   [][]byte
	k, v []byte
}

func (w c17Wop) String() string {
	var sb strings.Builder
	fmt.Fprintf(&sb, "%s %d", w.kind, len(w.bs))
	for _, b := range w.bs {
		sb.WriteString(" " + hx(b))
	}
	switch w.kind {
	case "put":
		sb.WriteString(" " + hx(w.k) + " " + hx(w.v))
	case "del":
		sb.WriteString(" " + hx(w.k))
	}
	return sb.String()
}

func c17Wops(ws []c17Wop) string {
	parts := []string{strconv.Itoa(len(ws))}
	for _, w := range ws {
		parts = append(parts, w.String())
	}
	return strings.Join(parts, " ")
}

func c17Apply(tx *bbolt.Tx, w c17Wop) error {
	if len(w.bs) == 0 {
		return errors.New("empty bucket chain")
	}
	switch w.kind {
	case "put", "mk":
		b, err := tx.CreateBucketIfNotExists(w.bs[0])
		if err != nil {
			return err
		}
		for _, n := range w.bs[1:] {
			if b, err = b.CreateBucketIfNotExists(n); err != nil {
				return err
			}
		}
		if w.kind == "put" {
			return b.Put(w.k, w.v)
		}
		return nil
	case "del":
		b := tx.Bucket(w.bs[0])
		for _, n := range w.bs[1:] {
			if b == nil {
				return nil
			}
			b = b.Bucket(n)
		}
		if b == nil || b.Bucket(w.k) != nil || b.Get(w.k) == nil {
			return nil
		}
		return b.Delete(w.k)
	case "rm":
		if len(w.bs) == 1 {
			if tx.Bucket(w.bs[0]) == nil {
				return nil
			}
			return tx.DeleteBucket(w.bs[0])
		}
		b := tx.Bucket(w.bs[0])
		for _, n := range w.bs[1 : len(w.bs)-1] {
			if b == nil {
				return nil
			}
			b = b.Bucket(n)
		}
		last := w.bs[len(w.bs)-1]
		if b == nil || b.Bucket(last) == nil {
			return nil
		}
		return b.DeleteBucket(last)
	}
	return fmt.Errorf("unknown wop %q", w.kind)
}

var errC17Rollback = errors.New("c17: requested rollback")

var c17ListenerWait = 15 * time.Second // generous: a slow disk must not look like a stuck listener

// ---- canonical dump -------------------------------------------------------------------------

func c17Dump(entries []csEntry, ids map[string]string) string {
	if len(entries) == 0 {
		return "-"
	}
	parts := make([]string, 0, len(entries))
	for _, e := range entries {
		var ps []string
		for _, c := range e.path {
			ps = append(ps, hx(c))
		}
		p := strings.Join(ps, "/")
		if e.bucket {
			parts = append(parts, "B:"+p)
		} else {
			v := e.val
			if len(v) > 1 && v[0] == byte(boltz.TypeString) {
				if name, ok := ids[string(v[1:])]; ok {
					v = append([]byte{byte(boltz.TypeString)}, name...)
				}
			}
			parts = append(parts, "V:"+p+"="+hx(v))
		}
	}
	return strings.Join(parts, ",")
}

func c17FileContent(path string) ([]csEntry, error) {
	db, err := bbolt.Open(path, 0o600, &bbolt.Options{ReadOnly: true, Timeout: time.Second})
	if err != nil {
		return nil, err
	}
	defer db.Close()
	var out []csEntry
	err = db.View(func(tx *bbolt.Tx) error {
		out = csWalk(tx)
		return nil
	})
	return out, err
}

// diff of two contents as raw writes (removals first, then additions in path order)
func c17Diff(before, after []csEntry) []c17Wop {
	find := func(l []csEntry, p [][]byte) *csEntry {
		for i := range l {
			if csPathEq(l[i].path, p) {
				return &l[i]
			}
		}
		return nil
	}
	var ws []c17Wop
	var removed [][][]byte
	under := func(p [][]byte) bool {
		for _, r := range removed {
			if len(r) <= len(p) && csPathEq(r, p[:len(r)]) {
				return true
			}
		}
		return false
	}
	for _, e := range before {
		if under(e.path) {
			continue
		}
		a := find(after, e.path)
		if e.bucket {
			if a == nil || !a.bucket {
				ws = append(ws, c17Wop{kind: "rm", bs: e.path})
				removed = append(removed, e.path)
			}
		} else if a == nil || a.bucket {
			ws = append(ws, c17Wop{kind: "del", bs: e.path[:len(e.path)-1], k: e.path[len(e.path)-1]})
		}
	}
	for _, e := range after {
		b := find(before, e.path)
		if e.bucket {
			if b == nil || !b.bucket {
				ws = append(ws, c17Wop{kind: "mk", bs: e.path})
			}
		} else if b == nil || b.bucket || !bytes.Equal(b.val, e.val) {
			ws = append(ws, c17Wop{kind: "put", bs: e.path[:len(e.path)-1], k: e.path[len(e.path)-1], v: e.val})
		}
	}
	return ws
}

// ---- one history ------------------------------------------------------------------------------

type c17Run struct {
	dir       string
	db        *boltz.DbImpl
	stores    *csStores
	files     [][]byte // bytes of snapshot files / streams
	ids       map[string]string
	nsnap     int
	listeners int
	fired     int64
	idfCalls  int
	caseToks  []string
	obsToks   []string
	stats     map[string]int
	// restore listeners that use the database, readers, watchdog (c17_readers.go)
	mu      sync.Mutex
	lbodies []c17xBody
	lobs    []string
	ldone   int64
	lcalls  int64
	tlMode  string
	nsrc    int
	srcOf   map[string]string // snapshot bytes (length:hash) -> the file they were handed in as (flavour f)
	dead    bool              // a restore or its listeners hang: the database must not be touched any more
	// snapshot paths (c17_paths.go)
	dbPath string   // the path the database was opened with (absolute or relative to the history's directory)
	ptpls  []string // templates used so far
	// metadata calls made by the reader of a restore (c17_meta.go)
	mcalls int64
	mlog   *c17mLog
	// listeners that wait, snapshots inside an old read transaction (c17_view.go)
	lgen  *c17vGen
	vSeen string // what the read transaction saw right before SnapshotInTx
	vTx   string // what the other goroutine's transaction reported
}

func newC17Run(stats map[string]int) (*c17Run, error) {
	dir, err := os.MkdirTemp("", "c17h")
	if err != nil {
		return nil, err
	}
	// every history runs inside its own directory: relative snapshot paths land there
	if err = c17pEnter(dir); err != nil {
		return nil, err
	}
	dbPath := filepath.Join(dir, "live.db")
	db, err := boltz.Open(dbPath, "r")
	if err != nil {
		return nil, err
	}
	return &c17Run{dir: dir, db: db, stores: newCsStores(), ids: map[string]string{}, stats: stats, dbPath: dbPath}, nil
}

func (h *c17Run) close() {
	if !h.dead {
		func() {
			defer func() { _ = recover() }()
			_ = h.db.Close()
		}()
	}
	c17pLeave()
	_ = os.RemoveAll(h.dir)
}

func (h *c17Run) live() (out []csEntry) {
	if h.dead {
		return nil
	}
	defer func() {
		if recover() != nil { // a failed restore can leave the handle unusable
			out = nil
		}
	}()
	_ = h.db.View(func(tx *bbolt.Tx) error {
		out = csWalk(tx)
		return nil
	})
	return out
}

// guard: an operation that panics inside the library (a restore that failed half-way can leave the handle
// unusable) ends the history instead of the harness; the failed restore itself has been recorded
func (h *c17Run) guard() {
	if r := recover(); r != nil {
		h.dead = true
		h.stats["op_panicked"]++
	}
}

func (h *c17Run) emit(caseTok, obs string) {
	h.caseToks = append(h.caseToks, caseTok)
	h.obsToks = append(h.obsToks, obs+" L["+c17Dump(h.live(), h.ids)+"]")
}

func (h *c17Run) rawTx(ws []c17Wop, commit bool) string {
	err := h.db.Update(nil, func(ctx boltz.MutateContext) error {
		for _, w := range ws {
			if err := c17Apply(ctx.Tx(), w); err != nil {
				return err
			}
		}
		if !commit {
			return errC17Rollback
		}
		return nil
	})
	if err != nil {
		return "tx err"
	}
	return "tx ok"
}

func (h *c17Run) opTx(ws []c17Wop, commit bool) {
	if h.dead {
		return
	}
	defer h.guard()
	obs := h.rawTx(ws, commit)
	h.emit(fmt.Sprintf("tx %d %s", b2i(commit), c17Wops(ws)), obs)
	h.stats["op_tx"]++
}

// a transaction through the real stores; recorded as the raw difference it made
func (h *c17Run) opStoreTx(r *rng) {
	if h.dead {
		return
	}
	defer h.guard()
	before := h.live()
	err := h.db.Update(nil, func(ctx boltz.MutateContext) error {
		if err := h.stores.init(ctx.Tx()); err != nil {
			return err
		}
		n := 1 + r.intn(4)
		for i := 0; i < n; i++ {
			if err := c17StoreOp(h.stores, ctx, r); err != nil {
				return err
			}
		}
		if r.chance(10) {
			return errC17Rollback
		}
		return nil
	})
	after := h.live()
	if err != nil {
		h.emit("tx 0 0", "tx err")
		h.stats["op_storetx_rolledback"]++
		if os.Getenv("C17_DEBUG") != "" {
			fmt.Fprintln(os.Stderr, "store tx error:", err)
		}
		return
	}
	h.emit(fmt.Sprintf("tx 1 %s", c17Wops(c17Diff(before, after))), "tx ok")
	h.stats["op_storetx"]++
}

var c17Names = []string{"n0", "n1", "n2", "n3"}
var c17Tags = []string{"t0", "t1", "t2"}
var c17GroupIds = []string{"g0", "g1", "g2"}
var c17ItemIds = []string{"i0", "i1", "i2", "i3", "i4"}

func c17StoreOp(s *csStores, ctx boltz.MutateContext, r *rng) error {
	tx := ctx.Tx()
	pickTags := func() []string {
		var t []string
		for _, x := range c17Tags {
			if r.chance(40) {
				t = append(t, x)
			}
		}
		return t
	}
	pickGroup := func() *string {
		if r.chance(30) {
			return nil
		}
		g := r.pick(c17GroupIds)
		if !s.group.IsEntityPresent(tx, g) {
			return nil
		}
		return &g
	}
	switch r.intn(7) {
	case 0:
		g := r.pick(c17GroupIds)
		if s.group.IsEntityPresent(tx, g) {
			return s.group.DeleteById(ctx, g)
		}
		return s.group.Create(ctx, &csGroup{Id: g, Name: "G" + g})
	case 1, 2:
		id := r.pick(c17ItemIds)
		e := &csItem{Id: id, Name: r.pick(c17Names) + id, Group: pickGroup(), Val: int64(r.intn(7)) - 2, Tags: pickTags()}
		if s.item.IsEntityPresent(tx, id) {
			return s.item.Update(ctx, e, nil)
		}
		return s.item.Create(ctx, e)
	case 3:
		id := r.pick(c17ItemIds)
		if s.item.IsEntityPresent(tx, id) {
			return s.item.DeleteById(ctx, id)
		}
	case 4:
		id := r.pick(c17ItemIds)
		if s.item.IsEntityPresent(tx, id) {
			return s.item.Update(ctx, &csItem{Id: id, Val: int64(r.intn(100)), Tags: pickTags()}, boltz.MapFieldChecker{csFieldVal: struct{}{}, csFieldTags: struct{}{}})
		}
	case 5, 6:
		id, g := r.pick(c17ItemIds), r.pick(c17GroupIds)
		if s.item.IsEntityPresent(tx, id) && s.group.IsEntityPresent(tx, g) {
			if r.chance(60) {
				return s.item.watchers.AddLinks(tx, id, g)
			}
			return s.item.watchers.RemoveLinks(tx, id, g)
		}
	}
	return nil
}

func (h *c17Run) registerSnapshot(path, id string) ([]csEntry, error) {
	name := "s" + strings.Repeat("+", h.nsnap)
	h.nsnap++
	h.ids[id] = name
	data, err := os.ReadFile(path)
	if err != nil {
		return nil, err
	}
	h.files = append(h.files, data)
	return c17FileContent(path)
}

// snapCall: Snapshot / SnapshotInTx in a read or write transaction with the given path
func (h *c17Run) snapCall(path, kind string, commit bool, before, after []c17Wop) (actual, id string, err error) {
	switch kind {
	case "plain":
		actual, id, err = h.db.Snapshot(path)
	case "view":
		err = h.db.View(func(tx *bbolt.Tx) error {
			var e error
			actual, id, e = h.db.SnapshotInTx(tx, path)
			return e
		})
	case "stale":
		actual, id, err = h.c17vSnapStale(path, before, commit)
	case "upd":
		var snapErr error
		_ = h.db.Update(nil, func(ctx boltz.MutateContext) error {
			for _, w := range before {
				if e := c17Apply(ctx.Tx(), w); e != nil {
					snapErr = e
					return e
				}
			}
			actual, id, snapErr = h.db.SnapshotInTx(ctx.Tx(), path)
			if snapErr != nil {
				return snapErr
			}
			for _, w := range after {
				if e := c17Apply(ctx.Tx(), w); e != nil {
					snapErr = e
					return e
				}
			}
			if !commit {
				return errC17Rollback
			}
			return nil
		})
		err = snapErr
	}
	return actual, id, err
}

func c17SnapKindTok(kind string, commit bool, before, after []c17Wop) string {
	if kind == "upd" {
		return fmt.Sprintf("upd %d %s %s", b2i(commit), c17Wops(before), c17Wops(after))
	}
	if kind == "stale" {
		return fmt.Sprintf("stale %d %s", b2i(commit), c17Wops(before))
	}
	return kind
}

func (h *c17Run) opSnap(kind string, commit bool, before, after []c17Wop) {
	if h.dead {
		return
	}
	defer h.guard()
	path := filepath.Join(h.dir, fmt.Sprintf("snap%d", len(h.files)))
	caseTok := "snap " + c17SnapKindTok(kind, commit, before, after)
	actual, id, err := h.snapCall(path, kind, commit, before, after)
	h.stats["op_snap_"+kind]++
	if err != nil {
		h.emit(caseTok, "snap error:"+hxs(err.Error()))
		return
	}
	content, ferr := h.registerSnapshot(actual, id)
	if ferr != nil {
		h.emit(caseTok, "snap unreadable:"+hxs(ferr.Error()))
		return
	}
	extra := ""
	if kind == "stale" {
		extra = " V[" + h.vSeen + "] T[" + h.vTx + "]"
	}
	h.emit(caseTok, "snap "+hxs(h.ids[id])+" F["+c17Dump(content, h.ids)+"]"+extra)
}

func (h *c17Run) opStream() {
	if h.dead {
		return
	}
	defer h.guard()
	var buf bytes.Buffer
	if err := h.db.StreamToWriter(&buf); err != nil {
		h.emit("stream", "stream error")
		return
	}
	path := filepath.Join(h.dir, fmt.Sprintf("stream%d", len(h.files)))
	_ = os.WriteFile(path, buf.Bytes(), 0o600)
	h.files = append(h.files, buf.Bytes())
	content, err := c17FileContent(path)
	if err != nil {
		h.emit("stream", "stream unreadable")
		return
	}
	h.emit("stream", "stream F["+c17Dump(content, h.ids)+"]")
	h.stats["op_stream"]++
}

func (h *c17Run) opRestore(k int) {
	caseTok := fmt.Sprintf("restore %d", k)
	if h.dead {
		return
	}
	if k < 0 || k >= len(h.files) {
		h.emit(caseTok, "nofile")
		return
	}
	h.doRestore(caseTok, false, func() { h.db.RestoreSnapshot(h.files[k]) })
}

func (h *c17Run) opSnapId() {
	if h.dead {
		return
	}
	defer h.guard()
	id, err := h.db.GetSnapshotId()
	switch {
	case err != nil:
		h.emit("snapid", "snapid error")
	case id == nil:
		h.emit("snapid", "snapid nil")
	default:
		name := *id
		if n, ok := h.ids[name]; ok {
			name = n
		}
		h.emit("snapid", "snapid "+hxs(name))
	}
	h.stats["op_snapid"]++
}

func (h *c17Run) opTimeline(mode string, idfOk bool, idf []byte) {
	if h.dead {
		return
	}
	defer h.guard()
	m := map[string]boltz.TimelineMode{"d": boltz.TimelineModeDefault, "i": boltz.TimelineModeInitIfEmpty, "f": boltz.TimelineModeForceReset}[mode]
	calls := 0
	id, err := h.db.GetTimelineId(m, func() (string, error) {
		calls++
		if !idfOk {
			return "", errors.New("idF failed")
		}
		return string(idf), nil
	})
	h.idfCalls += calls
	caseTok := "tl " + mode + " err"
	if idfOk {
		caseTok = "tl " + mode + " ok " + hx(idf)
	}
	res := "err"
	if err == nil {
		res = "id:" + hxs(id)
	}
	h.emit(caseTok, fmt.Sprintf("tl %s called=%d calls=%d", res, calls, h.idfCalls))
	h.stats["op_tl_"+mode]++
}

func (h *c17Run) opAddListener() { h.opAddDbListener(c17xBody{kind: "c"}) }

// ---- generators ---------------------------------------------------------------------------------

var c17Tops = []string{"r", "z", "meta", "r", "meta"}
var c17Subs = []string{"x", "y"}
var c17Keys = []string{"a", "b", "c", "snapshotId", "resetTimeline", "timelineId"}

func c17GenChain(r *rng) [][]byte {
	bs := [][]byte{[]byte(r.pick(c17Tops))}
	for len(bs) < 3 && r.chance(40) {
		bs = append(bs, []byte(r.pick(c17Subs)))
	}
	return bs
}

func c17GenValue(r *rng, key string) []byte {
	switch key {
	case "snapshotId", "timelineId":
		switch r.intn(4) {
		case 0:
			return []byte{byte(boltz.TypeNil)}
		case 1:
			return []byte{byte(boltz.TypeString)} // the empty string
		default:
			return append([]byte{byte(boltz.TypeString)}, []byte(r.pick([]string{"u1", "u2", "s", "s+"}))...)
		}
	case "resetTimeline":
		switch r.intn(4) {
		case 0:
			return []byte{byte(boltz.TypeNil)}
		case 1:
			return []byte{byte(boltz.TypeBool), 1}
		default:
			return []byte{byte(boltz.TypeBool), 0}
		}
	}
	n := 1 + r.intn(3)
	v := make([]byte, n)
	for i := range v {
		v[i] = byte(r.intn(256))
	}
	return v
}

func c17GenWop(r *rng) c17Wop {
	switch x := r.intn(100); {
	case x < 60:
		bs := c17GenChain(r)
		k := r.pick(c17Keys)
		return c17Wop{kind: "put", bs: bs, k: []byte(k), v: c17GenValue(r, k)}
	case x < 75:
		return c17Wop{kind: "del", bs: c17GenChain(r), k: []byte(r.pick(c17Keys))}
	case x < 85:
		return c17Wop{kind: "mk", bs: c17GenChain(r)}
	case x < 97:
		return c17Wop{kind: "rm", bs: c17GenChain(r)}
	default:
		return c17Wop{kind: "rm", bs: [][]byte{[]byte("stores")}}
	}
}

func c17GenWops(r *rng, max int) []c17Wop {
	n := r.intn(max + 1)
	ws := make([]c17Wop, 0, n)
	for i := 0; i < n; i++ {
		ws = append(ws, c17GenWop(r))
	}
	return ws
}

func (h *c17Run) genOp(r *rng) {
	switch x := r.intn(100); {
	case x < 22:
		h.opTx(c17GenWops(r, 5), !r.chance(15))
	case x < 42:
		h.opStoreTx(r)
	case x < 57:
		h.genSnap(r)
	case x < 60:
		h.opStream()
	case x < 75:
		if len(h.files) == 0 {
			h.genSnap(r)
		} else if r.chance(5) {
			h.opRestore(len(h.files) + r.intn(2))
		} else {
			h.genRestore(r, r.intn(len(h.files)))
		}
	case x < 80:
		h.opSnapId()
	case x < 83:
		if c := c17mGenCall(r, 25); c.kind == "t" {
			h.genTimeline(r)
		} else {
			h.opCall(c)
		}
	case x < 95:
		h.genTimeline(r)
	default:
		h.genDbListener(r, 40)
	}
}

func (h *c17Run) genSnap(r *rng) {
	if r.chance(20) {
		// SnapshotInTx inside a read transaction that was opened before another goroutine committed
		h.opSnap("stale", !r.chance(12), c17GenWops(r, 3), nil)
		return
	}
	if r.chance(45) && h.genSnapPath(r) {
		return
	}
	h.genSnapKind(r, func(kind string, commit bool, before, after []c17Wop) { h.opSnap(kind, commit, before, after) })
}

func (h *c17Run) genSnapKind(r *rng, do func(kind string, commit bool, before, after []c17Wop)) {
	switch r.intn(4) {
	case 0:
		do("plain", true, nil, nil)
	case 1:
		do("view", true, nil, nil)
	case 2:
		// the way migration.go uses it: first thing in a write transaction
		do("upd", !r.chance(20), nil, c17GenWops(r, 3))
	default:
		do("upd", !r.chance(20), c17GenWops(r, 3), c17GenWops(r, 3))
	}
}

func (h *c17Run) genTimeline(r *rng) {
	mode := r.pick([]string{"d", "d", "i", "f"})
	if r.chance(15) {
		h.opTimeline(mode, false, nil)
		return
	}
	id := []byte(r.pick([]string{"T1", "T2", "T3", ""}))
	h.opTimeline(mode, true, id)
}

func (h *c17Run) genHistory(r *rng, structured bool) {
	if !structured {
		n := 3 + r.intn(14)
		for i := 0; i < n; i++ {
			h.genOp(r)
		}
		return
	}
	// state A ; snapshot ; arbitrary further operations ; restore ; id ; two timeline requests per mode
	for i, n := 0, 1+r.intn(4); i < n; i++ {
		if r.chance(50) {
			h.opStoreTx(r)
		} else {
			h.opTx(c17GenWops(r, 5), true)
		}
	}
	if r.chance(50) {
		h.genTimeline(r)
	}
	for i, n := 0, r.intn(3); i < n; i++ {
		h.genDbListener(r, 50)
	}
	h.genSnap(r)
	k := len(h.files) - 1
	for i, n := 0, r.intn(7); i < n; i++ {
		h.genOp(r)
	}
	h.genRestore(r, k)
	h.opSnapId()
	m1 := r.pick([]string{"d", "i", "f"})
	if r.chance(20) {
		h.opTimeline(m1, false, nil)
	}
	h.opTimeline(m1, true, []byte("N1"))
	h.opTimeline(r.pick([]string{"d", "i"}), r.chance(80), []byte("N2"))
	h.opTimeline(r.pick([]string{"d", "i", "f"}), true, []byte("N3"))
	for i, n := 0, r.intn(3); i < n; i++ {
		h.genOp(r)
	}
}

// state A ; listeners ; snapshot ; then many restores of that file through readers of every behaviour,
// the live database modified in between
func (h *c17Run) genReaderSweep(r *rng) {
	for i, n := 0, 1+r.intn(3); i < n; i++ {
		if r.chance(50) {
			h.opStoreTx(r)
		} else {
			h.opTx(c17GenWops(r, 5), true)
		}
	}
	for i, n := 0, r.intn(3); i < n; i++ {
		h.genDbListener(r, 30)
	}
	if r.chance(80) {
		h.genSnap(r)
	} else {
		h.opStream()
	}
	k := len(h.files) - 1
	if k < 0 {
		return
	}
	for i, n := 0, 8+r.intn(8); i < n; i++ {
		if r.chance(50) {
			h.opTx(c17GenWops(r, 4), true)
		}
		h.opRestoreReader(k, c17xGenScript(r, len(h.files[k])))
		if r.chance(25) {
			h.opSnapId()
		}
	}
}

// ---- replay of a case line -------------------------------------------------------------------------

type c17Toks struct {
	t []string
	i int
}

func (t *c17Toks) next() string {
	if t.i >= len(t.t) {
		panic("c17: truncated case")
	}
	s := t.t[t.i]
	t.i++
	return s
}

func (t *c17Toks) int() int {
	n, err := strconv.Atoi(t.next())
	if err != nil {
		panic(err)
	}
	return n
}

func (t *c17Toks) wops() []c17Wop {
	n := t.int()
	ws := make([]c17Wop, 0, n)
	for i := 0; i < n; i++ {
		w := c17Wop{kind: t.next()}
		nb := t.int()
		for j := 0; j < nb; j++ {
			w.bs = append(w.bs, unhx(t.next()))
		}
		switch w.kind {
		case "put":
			w.k = unhx(t.next())
			w.v = unhx(t.next())
		case "del":
			w.k = unhx(t.next())
		}
		ws = append(ws, w)
	}
	return ws
}

func (h *c17Run) replay(line string) {
	t := &c17Toks{t: strings.Fields(line)}
	if t.next() != "H" {
		panic("c17: not a history")
	}
	n := t.int()
	for i := 0; i < n; i++ {
		switch op := t.next(); op {
		case "tx":
			commit := t.int() == 1
			h.opTx(t.wops(), commit)
		case "snap":
			switch kind := t.next(); kind {
			case "upd":
				commit := t.int() == 1
				before := t.wops()
				after := t.wops()
				h.opSnap("upd", commit, before, after)
			case "stale":
				commit := t.int() == 1
				h.opSnap("stale", commit, t.wops(), nil)
			default:
				h.opSnap(kind, true, nil, nil)
			}
		case "snapp":
			h.replaySnapPath(t)
		case "open":
			h.opOpen(t.next())
		case "stream":
			h.opStream()
		case "restore":
			h.opRestore(t.int())
		case "snapid":
			h.opSnapId()
		case "tl":
			mode := t.next()
			if t.next() == "ok" {
				h.opTimeline(mode, true, unhx(t.next()))
			} else {
				h.opTimeline(mode, false, nil)
			}
		case "addl":
			h.opAddListener()
		case "addlv":
			h.opAddDbListener(c17xBody{kind: "v"})
		case "addls":
			h.opAddDbListener(c17xBody{kind: "s"})
		case "addlt":
			h.opAddDbListener(c17xBody{kind: "t", mode: t.next()})
		case "addlw":
			h.opAddDbListener(c17xBody{kind: "w", key: unhx(t.next())})
		case "addlb":
			h.opAddDbListener(c17xBody{kind: "b"})
		case "addld":
			h.opAddDbListener(c17xBody{kind: "d", dep: t.int()})
		case "restorer":
			k, sc := c17xParseScript(t)
			h.opRestoreReader(k, sc)
		case "restorec":
			k, sc := c17xParseScript(t)
			h.opRestoreReaderCb(k, sc, c17mParseCbs(t))
		case "call":
			h.opCall(c17mParseCall(t))
		default:
			panic("c17: unknown op " + op)
		}
	}
}

// ---- command ------------------------------------------------------------------------------------------

func c17Quiet() {
	logrus.SetOutput(io.Discard)
	logrus.SetLevel(logrus.PanicLevel)
}

func runC17(o *opts) error {
	c17Quiet()
	debug.SetPanicOnFault(true) // see doRestore; the operations after a failed restore run on this goroutine
	if abs, err := filepath.Abs(o.out); err == nil {
		o.out = abs
	}
	cases := newLineWriter(o.out, "cases.txt")
	impl := newLineWriter(o.out, "impl.txt")
	defer cases.close()
	defer impl.close()
	stats := map[string]int{}
	r := newRng(o.seed)
	if ms := o.getInt("hangms", 0); ms > 0 {
		c17HangWait = time.Duration(ms) * time.Millisecond
	}
	if ms := o.getInt("listenms", 0); ms > 0 {
		c17ListenerWait = time.Duration(ms) * time.Millisecond
	}

	finish := func(h *c17Run) {
		cases.line("H %d %s", len(h.caseToks), strings.Join(h.caseToks, " "))
		impl.line("H %s", strings.Join(h.obsToks, " | "))
		stats["ops"] += len(h.caseToks)
		stats["histories"]++
		h.close()
	}

	if rc := o.get("replaycase", ""); rc != "" {
		data, err := os.ReadFile(rc)
		if err != nil {
			return err
		}
		for _, line := range strings.Split(strings.TrimSpace(string(data)), "\n") {
			f := strings.Fields(line)
			if len(f) == 0 {
				continue
			}
			if f[0] == "R" {
				ms, _ := strconv.Atoi(f[2])
				cases.line("%s", line)
				impl.line("%s", c17RaceChild(f[1], ms, o.seed, o.out))
				continue
			}
			h, err := newC17Run(stats)
			if err != nil {
				return err
			}
			h.replay(line)
			finish(h)
		}
		return nil
	}

	n := 150
	if o.thorough() {
		n = 1200
	}
	if o.n > 0 {
		n = o.n
	}
	if o.get("onlyrace", "") != "" {
		n = 0
	}
	for i := 0; i < n; i++ {
		h, err := newC17Run(stats)
		if err != nil {
			return err
		}
		if i%4 == 1 {
			h.opOpen(r.pick(c17pOpenModes)) // the database file somewhere else / opened through a relative path
		}
		if i%8 == 1 {
			h.genViewSweep(r) // listeners that wait for each other, snapshots inside old read transactions (c17_view.go)
		} else if i%8 == 5 {
			h.genReaderSweep(r)
		} else if i%8 == 7 {
			h.genMetaSweep(r)
		} else if i%8 == 3 {
			h.genPathSweep(r)
		} else {
			h.genHistory(r, i%3 != 2)
		}
		finish(h)
	}

	// transactions racing restores: each mode in a child process with a watchdog
	if o.get("norace", "") == "" {
		ms := 700
		rounds := 1
		if o.thorough() {
			ms = 4000
			rounds = 3
		}
		for round := 0; round < rounds; round++ {
			for _, mode := range []string{"plain", "batch", "snapshot", "rootbucket", "snapintx", "nested", "listeners", "metadata", "accessors", "overlap"} {
				cases.line("R %s %d", mode, ms)
				impl.line("%s", c17RaceChild(mode, ms, o.seed+int64(round), o.out))
				stats["race_"+mode]++
			}
		}
	}
	writeJSON(o.out, "stats.json", stats)
	return nil
}

// ---- racing transactions and restores -------------------------------------------------------------------

type c17RaceResult struct {
	Mode     string   `json:"mode"`
	Txs      int64    `json:"txs"`
	Restores int64    `json:"restores"`
	OldSeen  int64    `json:"tx_saw_old"`
	NewSeen  int64    `json:"tx_saw_new"`
	Mixtures []string `json:"mixtures"`
	Errors   []string `json:"errors"`
	Metadata []string `json:"metadata"` // "snapid ..." / "timeline ...": stale or foreign metadata (mode metadata)
	Polls    int64    `json:"polls"`
	Calls    int64    `json:"accessor_calls,omitempty"` // mode accessors: Db accessor calls made inside transactions
	Overlap  []string `json:"overlap,omitempty"`        // mode overlap: what went wrong with two overlapping restores
	Pairs    [3]int64 `json:"overlap_pairs,omitempty"`  // mode overlap: pairs run / really overlapping / of those with a known order
	Stuck    string   `json:"stuck"`
}

func c17RaceChild(mode string, ms int, seed int64, out string) string {
	exe, err := os.Executable()
	if err != nil {
		return "R harness-error " + hxs(err.Error())
	}
	cmd := exec.Command(exe, "c17race", "--mode", mode, "--ms", strconv.Itoa(ms), "--seed", strconv.FormatInt(seed, 10))
	var stdout, stderr bytes.Buffer
	cmd.Stdout = &stdout
	cmd.Stderr = &stderr
	done := make(chan error, 1)
	if err := cmd.Start(); err != nil {
		return "R harness-error " + hxs(err.Error())
	}
	go func() { done <- cmd.Wait() }()
	select {
	case <-done:
	case <-time.After(time.Duration(ms)*time.Millisecond + 30*time.Second):
		_ = cmd.Process.Kill()
		<-done
		return "R stuck child-timeout"
	}
	if strings.Contains(stderr.String(), "WARNING: DATA RACE") {
		_ = os.WriteFile(filepath.Join(out, "race_"+mode+".txt"), stderr.Bytes(), 0o644)
		return "R datarace " + mode
	}
	var res c17RaceResult
	if err := json.Unmarshal(stdout.Bytes(), &res); err != nil {
		tail := stderr.String()
		if len(tail) > 600 {
			tail = tail[len(tail)-600:]
		}
		return "R crash " + hxs(tail)
	}
	f, _ := os.OpenFile(filepath.Join(out, "race.jsonl"), os.O_APPEND|os.O_CREATE|os.O_WRONLY, 0o644)
	if f != nil {
		f.Write(append(bytes.TrimSpace(stdout.Bytes()), '\n'))
		f.Close()
	}
	switch {
	case res.Stuck != "":
		return "R stuck " + hxs(res.Stuck)
	case len(res.Overlap) > 0:
		return "R overlap " + hxs(res.Overlap[0])
	case mode == "overlap" && res.Pairs[1] == 0:
		return "R idle"
	case len(res.Mixtures) > 0:
		return "R mixture " + hxs(res.Mixtures[0])
	case len(res.Metadata) > 0:
		f := strings.SplitN(res.Metadata[0], " ", 2)
		return "R " + f[0] + " " + hxs(f[1])
	case len(res.Errors) > 0:
		return "R error " + hxs(res.Errors[0])
	case res.Txs == 0 || res.Restores == 0:
		return "R idle"
	}
	return "R ok"
}

const c17RaceKeys = 12

func c17RaceValue(tx *bbolt.Tx) (vals []uint64, err error) {
	b := tx.Bucket([]byte("r"))
	if b == nil {
		return nil, errors.New("bucket r missing")
	}
	for i := 0; i < c17RaceKeys; i++ {
		v := b.Get([]byte(fmt.Sprintf("k%02d", i)))
		if len(v) == 0 {
			return nil, fmt.Errorf("key k%02d missing", i)
		}
		n, perr := strconv.ParseUint(string(v), 10, 64)
		if perr != nil {
			return nil, perr
		}
		vals = append(vals, n)
		if i%4 == 3 {
			time.Sleep(20 * time.Microsecond) // widen the window in which a swap of the handle would be visible
		}
	}
	return vals, nil
}

func c17RaceWrite(tx *bbolt.Tx, n uint64) error {
	b, err := tx.CreateBucketIfNotExists([]byte("r"))
	if err != nil {
		return err
	}
	for i := 0; i < c17RaceKeys; i++ {
		if err = b.Put([]byte(fmt.Sprintf("k%02d", i)), []byte(strconv.FormatUint(n, 10))); err != nil {
			return err
		}
	}
	return nil
}

func c17Uniform(vals []uint64) bool {
	for _, v := range vals {
		if v != vals[0] {
			return false
		}
	}
	return true
}

// runC17Race: readers and writers keep the invariant "all keys hold the same number"; the snapshot
// files hold g*1_000_000 in every key.  A transaction that observed two different numbers saw a
// mixture of databases; one that got an error saw a closed handle.  A watchdog reports when
// nothing completes any more.
func runC17Race(o *opts) error {
	c17Quiet()
	mode := o.get("mode", "plain")
	ms := o.getInt("ms", 700)
	dir, err := os.MkdirTemp("", "c17r")
	if err != nil {
		return err
	}
	defer os.RemoveAll(dir)
	_ = os.Chdir(dir) // a restore that failed half-way makes later ones write next to a nameless database
	db, err := boltz.Open(filepath.Join(dir, "live.db"), "r")
	if err != nil {
		return err
	}
	res := &c17RaceResult{Mode: mode}
	acc := newC17aState(dir) // mode accessors (c17_access.go)
	ovl := &c17oState{}      // mode overlap (c17_access.go)
	var snaps [][]byte
	var snapIds []string
	for g := 1; g <= 3; g++ {
		if err = db.Update(nil, func(ctx boltz.MutateContext) error { return c17RaceWrite(ctx.Tx(), uint64(g)*1_000_000) }); err != nil {
			return err
		}
		p, id, serr := db.Snapshot(filepath.Join(dir, fmt.Sprintf("snap%d", g)))
		if serr != nil {
			return serr
		}
		data, _ := os.ReadFile(p)
		snaps = append(snaps, data)
		snapIds = append(snapIds, id)
	}

	var txs, restores, oldSeen, newSeen, progress int64
	var stop int32
	problems := make(chan [2]string, 1024)
	report := func(kind, what string) {
		select {
		case problems <- [2]string{kind, what}:
		default:
		}
	}
	var restoreEpoch int64   // number of completed restores
	var restoreStarted int64 // number of restores begun
	var polls int64
	check := func(kind string, vals []uint64, err error, epoch0 int64) {
		if err != nil {
			report("error", kind+": "+err.Error())
			return
		}
		if !c17Uniform(vals) {
			report("mixture", fmt.Sprintf("%s saw %v", kind, vals))
			return
		}
		if atomic.LoadInt64(&restoreEpoch) == epoch0 {
			atomic.AddInt64(&oldSeen, 1)
		} else {
			atomic.AddInt64(&newSeen, 1)
		}
	}
	worker := func(id int) {
		debug.SetPanicOnFault(true)
		defer func() {
			if r := recover(); r != nil {
				report("error", fmt.Sprint("transaction panicked: ", r))
			}
		}()
		n := 0
		for atomic.LoadInt32(&stop) == 0 {
			n++
			epoch0 := atomic.LoadInt64(&restoreEpoch)
			var vals []uint64
			var e error
			switch {
			case id%2 == 0 || mode == "overlap": // reader
				e = db.View(func(tx *bbolt.Tx) error {
					if mode == "rootbucket" {
						if _, rerr := db.RootBucket(tx); rerr != nil {
							return rerr
						}
					}
					if mode == "accessors" {
						return acc.c17aBody(db, tx, "Db.View", id, n, func() (verr error) {
							vals, verr = c17RaceValue(tx)
							return verr
						})
					}
					var verr error
					vals, verr = c17RaceValue(tx)
					return verr
				})
				check("reader", vals, e, epoch0)
			case mode == "metadata" && id%2 == 1:
				c17mRacePoll(db, id, n, snapIds, &restoreStarted, &restoreEpoch, report)
				atomic.AddInt64(&polls, 1)
			case mode == "snapshot" && id%2 == 1:
				_, _, e = db.Snapshot(filepath.Join(dir, fmt.Sprintf("w%d", id)))
				if e != nil {
					report("error", "Snapshot: "+e.Error())
				}
			default: // writer
				body := func(ctx boltz.MutateContext) error {
					if mode == "rootbucket" {
						if _, rerr := db.RootBucket(ctx.Tx()); rerr != nil {
							return rerr
						}
					}
					if mode == "snapintx" && n%8 == 0 {
						if _, _, serr := db.SnapshotInTx(ctx.Tx(), filepath.Join(dir, fmt.Sprintf("w%d", id))); serr != nil {
							return serr
						}
					}
					var verr error
					vals, verr = c17RaceValue(ctx.Tx())
					if verr != nil {
						return verr
					}
					if werr := c17RaceWrite(ctx.Tx(), vals[0]+1); werr != nil {
						return werr
					}
					after, verr := c17RaceValue(ctx.Tx())
					if verr == nil && (!c17Uniform(after) || after[0] != vals[0]+1) {
						return fmt.Errorf("writer read back %v after writing %d", after, vals[0]+1)
					}
					return verr
				}
				switch {
				case mode == "accessors":
					kind := []string{"Db.Update", "Db.Batch", "nested Db.Update"}[n%3]
					abody := func(ctx boltz.MutateContext) error {
						return acc.c17aBody(db, ctx.Tx(), kind, id, n, func() error { return body(ctx) })
					}
					switch n % 3 {
					case 0:
						e = db.Update(nil, abody)
					case 1:
						e = db.Batch(nil, abody)
					default:
						e = db.Update(nil, func(ctx boltz.MutateContext) error { return db.Update(ctx, abody) })
					}
				case mode == "batch":
					e = db.Batch(nil, body)
				case mode == "nested":
					// a multi-step writer: nested Db.Update / Db.Batch calls that join the transaction of the context
					e = db.Update(nil, func(ctx boltz.MutateContext) error {
						if _, verr := c17RaceValue(ctx.Tx()); verr != nil {
							return verr
						}
						if n%2 == 0 {
							return db.Update(ctx, body)
						}
						return db.Batch(ctx, body)
					})
				default:
					e = db.Update(nil, body)
				}
				check("writer", vals, e, epoch0)
			}
			atomic.AddInt64(&txs, 1)
			atomic.AddInt64(&progress, 1)
		}
	}
	var lsStarted, lsDone, lsWanted int64
	if mode == "listeners" {
		// restore listeners that use the database, as applications do to refresh derived state
		db.AddRestoreListener(func() {
			atomic.AddInt64(&lsStarted, 1)
			epoch0 := atomic.LoadInt64(&restoreEpoch)
			var vals []uint64
			e := db.View(func(tx *bbolt.Tx) error {
				var verr error
				vals, verr = c17RaceValue(tx)
				return verr
			})
			check("listener", vals, e, epoch0)
			atomic.AddInt64(&lsDone, 1)
		})
		db.AddRestoreListener(func() {
			atomic.AddInt64(&lsStarted, 1)
			if id, ierr := db.GetSnapshotId(); ierr != nil || id == nil {
				report("error", "GetSnapshotId in a restore listener failed")
			}
			atomic.AddInt64(&lsDone, 1)
		})
		db.AddRestoreListener(func() {
			atomic.AddInt64(&lsStarted, 1)
			e := db.Update(nil, func(ctx boltz.MutateContext) error {
				bk, berr := ctx.Tx().CreateBucketIfNotExists([]byte("lsn"))
				if berr != nil {
					return berr
				}
				return bk.Put([]byte("k"), append(csClone(bk.Get([]byte("k"))), 1))
			})
			if e != nil {
				report("error", "Update in a restore listener: "+e.Error())
			}
			atomic.AddInt64(&lsDone, 1)
		})
	}
	if mode == "overlap" {
		db.AddRestoreListener(func() { atomic.AddInt64(&ovl.lsRan, 1) })
	}
	for i := 0; i < 6; i++ {
		go worker(i)
	}
	go func() { // the restorer
		debug.SetPanicOnFault(true) // a truncated file under bbolt's memory map: a panic of this restore, not a crash
		g := 0
		for atomic.LoadInt32(&stop) == 0 {
			func() {
				defer func() {
					if r := recover(); r != nil {
						report("error", fmt.Sprint("restore panicked: ", r))
					}
				}()
				data := snaps[g%len(snaps)]
				atomic.AddInt64(&restoreStarted, 1)
				if mode == "overlap" {
					a, b := g%len(snaps), (g+1+g/len(snaps)%2)%len(snaps)
					ran0 := atomic.LoadInt64(&ovl.lsRan)
					returned, aLast := ovl.c17oPair(db, snaps, a, b, g, report)
					if returned < 2 {
						atomic.StoreInt32(&stop, 1) // a restore panicked (reported): the handle is not usable any more
						return
					}
					ovl.c17oVerdict(db, dir, snapIds, a, b, aLast, report)
					for w := 0; w < 500 && atomic.LoadInt64(&ovl.lsRan) < ran0+2; w++ {
						time.Sleep(10 * time.Millisecond)
					}
					if got := atomic.LoadInt64(&ovl.lsRan) - ran0; got != 2 {
						report("overlap", fmt.Sprintf("two overlapping RestoreFromReader calls (snapshots %d and %d) have both returned; the restore listener ran %d times instead of twice", a+1, b+1, got))
					}
					atomic.AddInt64(&restores, 1)
					return
				}
				if mode == "metadata" {
					// a snapshot that takes a while to arrive: many small reads, the scheduler invited in between
					sc := c17xScript{flav: "r", length: len(data), failAt: -1, eofd: g%2 == 1, rest: []int{997, 4096, 2048, 8191}[g%4]}
					rd := newC17xReader(data, sc)
					rd.hook = func(int) { runtime.Gosched() }
					var src io.Reader = struct{ io.Reader }{rd}
					if g%3 == 1 {
						src = c17xWriterTo{rd}
					}
					db.RestoreFromReader(src)
				} else if mode == "listeners" {
					// through readers of different behaviour
					sc := c17xScript{flav: "r", length: len(data), failAt: -1, eofd: g%2 == 0, rest: []int{0, 1000, 4096, len(data), 32768}[g%5]}
					var rd io.Reader = struct{ io.Reader }{newC17xReader(data, sc)}
					if g%3 == 2 {
						rd = c17xWriterTo{newC17xReader(data, sc)}
					}
					db.RestoreFromReader(rd)
					atomic.AddInt64(&lsWanted, 3) // it returned: its three listeners were started and must finish
				} else {
					db.RestoreSnapshot(data)
				}
			}()
			atomic.AddInt64(&restoreEpoch, 1)
			atomic.AddInt64(&restores, 1)
			atomic.AddInt64(&progress, 1)
			if id, ierr := db.GetSnapshotId(); ierr != nil || id == nil {
				report("error", "GetSnapshotId after restore failed")
			} else if mode == "metadata" && *id != snapIds[g%len(snapIds)] {
				// nobody writes the meta bucket's snapshot id here: until the next restore it is that of the restored snapshot
				report("metadata", fmt.Sprintf("snapid after restore %d (of snapshot %d) returned, with GetSnapshotId pollers running during it, GetSnapshotId reports the id of snapshot %d",
					g, g%len(snapIds)+1, c17mRaceWhich(*id, snapIds)))
			}
			if mode == "metadata" {
				c17mRaceTimelineAfter(db, g, &restoreStarted, report)
			}
			g++
			time.Sleep(time.Duration(300+g%5*200) * time.Microsecond)
		}
	}()

	deadline := time.Now().Add(time.Duration(ms) * time.Millisecond)
	last, lastChange := int64(-1), time.Now()
	for {
		time.Sleep(10 * time.Millisecond)
		p := atomic.LoadInt64(&progress)
		if p != last {
			last, lastChange = p, time.Now()
		}
		stalled := time.Since(lastChange)
		if atomic.LoadInt32(&stop) != 0 {
			break // mode overlap: a restore panicked, the run has ended itself
		}
		if stalled > 15*time.Second {
			res.Stuck = fmt.Sprintf("mode %s: no transaction and no restore completed for 15s after %d transactions and %d restores", mode, atomic.LoadInt64(&txs), atomic.LoadInt64(&restores))
			if mode == "accessors" {
				res.Stuck += acc.inFlight()
			}
			break
		}
		// past the deadline: stop only while things are moving, otherwise wait for the watchdog's verdict
		if time.Now().After(deadline) && stalled < 200*time.Millisecond {
			break
		}
	}
	atomic.StoreInt32(&stop, 1)
	if res.Stuck == "" {
		time.Sleep(30 * time.Millisecond)
	}
	if mode == "listeners" && res.Stuck == "" {
		// every listener of every completed restore must come back from the database
		want := atomic.LoadInt64(&lsWanted)
		for w := 0; w < 100 && atomic.LoadInt64(&lsDone) < want; w++ {
			time.Sleep(10 * time.Millisecond)
		}
		if got := atomic.LoadInt64(&lsDone); got < want {
			res.Stuck = fmt.Sprintf("mode listeners: %d of the %d restore listeners started by %d restores did not finish (started %d)", want-got, want, want/3, atomic.LoadInt64(&lsStarted))
		}
	}
	res.Txs, res.Restores = atomic.LoadInt64(&txs), atomic.LoadInt64(&restores)
	res.OldSeen, res.NewSeen = atomic.LoadInt64(&oldSeen), atomic.LoadInt64(&newSeen)
	res.Polls = atomic.LoadInt64(&polls)
	res.Calls = atomic.LoadInt64(&acc.calls)
	res.Pairs = [3]int64{atomic.LoadInt64(&ovl.pairs), atomic.LoadInt64(&ovl.overlaps), atomic.LoadInt64(&ovl.ordered)}
	for {
		select {
		case p := <-problems:
			if p[0] == "overlap" {
				res.Overlap = append(res.Overlap, p[1])
			} else if p[0] == "mixture" {
				res.Mixtures = append(res.Mixtures, p[1])
			} else if p[0] == "metadata" {
				res.Metadata = append(res.Metadata, p[1])
			} else {
				res.Errors = append(res.Errors, p[1])
			}
			continue
		default:
		}
		break
	}
	b, _ := json.Marshal(res)
	fmt.Println(string(b))
	_ = os.Chdir(os.TempDir())
	_ = os.RemoveAll(dir)
	os.Exit(0) // goroutines may still be blocked on the lock
	return nil
}
