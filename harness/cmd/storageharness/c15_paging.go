package main

// C15: paged / sorted / counted queries through every store of a parent-child family (sub-command "storex").
//
// After every transaction, for every store of a family (root store with child stores, plain and extended child
// stores) a fixed list of queries - derived by rule from the schema and from N = the number of entities of the
// root store, so that the model driver (coq/extraction/storex_driver.ml, c15_paged_tokens) issues the same list - is
// answered by the library and printed as
//
//	QP:<store>:<api>:<filter>:<sort>:<dir>:<skip>:<limit>:<count>:<ids in result order>
//
//	api     q = QueryIds(text)            (sortingScanner.Scan for a non-id sort, uniqueIndexScanner.Scan otherwise)
//	        c = QueryWithCursorC over the ROOT store's entities-bucket cursor (ScanCursor entered directly)
//	        i = IterateIds(parsed query)  (paged cursor uniqueIndexScanner.Next; no count: "-")
//	filter  T = `true`,  E=<field>=<hex> = `<field> = "<value>"` on the LAST field of the root store; the value is
//	        the one held by the first root entity (id order) that has a non-nil value (several entities share it:
//	        fk / small-domain fields), so plain parent entities match it as well as child entities
//	sort    field key (first / last field of the root store, first own field of a child store) or "-" (id order)
//	dir     a | d ;  skip decimal ;  limit decimal or "n" (limit none)
//
// Nothing is printed for a family without entities.  The tokens are compared verbatim (ordered) with the
// model's and checked by the oracle of checks/c15.py against the entity facts of the implementation.

import (
	"fmt"
	"strconv"
	"strings"

	"github.com/openziti/storage/ast"
	"go.etcd.io/bbolt"
)

type c15Query struct {
	api   string // q c i
	eq    bool   // filter: false = true, true = <ff> = "<fv>"
	sort  *sField
	asc   bool
	skip  int
	limit int // -1 = none
}

type c15Page struct{ skip, limit int }

// c15Queries is the rule shared with the model driver (c15_paged_tokens in storex_driver.ml) - keep them in step.
func c15Queries(root, def *sStore, n int, hasEq bool) []c15Query {
	var out []c15Query
	first := &root.Fields[0]
	last := &root.Fields[len(root.Fields)-1]
	var own *sField
	if def.Parent != "" && len(def.Fields) > 0 {
		own = &def.Fields[0]
	}
	filters := []bool{false}
	if hasEq {
		filters = append(filters, true)
	}
	for _, eq := range filters {
		// sorting scanner (the selective filter gets a shorter list)
		p1 := []c15Page{{0, -1}, {0, 1}, {1, 1}}
		p2 := []c15Page{{0, 1}}
		p3 := []c15Page{{0, 2}}
		p4 := []c15Page{{1, 1}}
		p5 := []c15Page{{1, 2}}
		if !eq {
			p1 = []c15Page{{0, -1}, {0, 1}, {0, 2}, {1, -1}, {1, 1}}
			if n-1 > 2 {
				p1 = append(p1, c15Page{0, n - 1})
			}
			p2 = []c15Page{{0, -1}, {0, 1}, {1, 2}}
			p3 = []c15Page{{0, -1}, {0, 2}, {1, 1}}
			p4 = []c15Page{{0, 1}, {1, 1}, {1, -1}}
			p5 = []c15Page{{0, 1}, {1, 2}}
		}
		for _, p := range p1 {
			out = append(out, c15Query{"q", eq, first, true, p.skip, p.limit})
		}
		for _, p := range p2 {
			out = append(out, c15Query{"q", eq, last, false, p.skip, p.limit})
		}
		if own != nil {
			for _, p := range p3 {
				out = append(out, c15Query{"q", eq, own, true, p.skip, p.limit})
			}
		}
		// id order: unique index scanner (count) and the paged cursor
		for _, p := range p4 {
			out = append(out, c15Query{"q", eq, nil, true, p.skip, p.limit})
		}
		for _, p := range p5 {
			out = append(out, c15Query{"i", eq, nil, true, p.skip, p.limit})
		}
	}
	out = append(out, c15Query{"c", false, first, true, 0, 1})
	out = append(out, c15Query{"c", hasEq, last, false, 1, 1})
	return out
}

func c15Quote(s string) string {
	s = strings.ReplaceAll(s, `\`, `\\`)
	s = strings.ReplaceAll(s, `"`, `\"`)
	return `"` + s + `"`
}

func (q *c15Query) text(ff *sField, fv string) string {
	var sb strings.Builder
	if q.eq {
		sb.WriteString(ff.symName() + " = " + c15Quote(fv))
	} else {
		sb.WriteString("true")
	}
	if q.sort != nil {
		sb.WriteString(" sort by " + q.sort.symName())
		if !q.asc {
			sb.WriteString(" desc")
		}
	}
	if q.skip > 0 {
		sb.WriteString(" skip " + strconv.Itoa(q.skip))
	}
	if q.limit >= 0 {
		sb.WriteString(" limit " + strconv.Itoa(q.limit))
	} else {
		sb.WriteString(" limit none")
	}
	return sb.String()
}

func (q *c15Query) token(store string, ff *sField, fv string) string {
	flt := "T"
	if q.eq {
		flt = "E=" + ff.Name + "=" + hxs(fv)
	}
	srt, dir := "-", "a"
	if q.sort != nil {
		srt = q.sort.Name
	}
	if !q.asc {
		dir = "d"
	}
	lim := "n"
	if q.limit >= 0 {
		lim = strconv.Itoa(q.limit)
	}
	return fmt.Sprintf("QP:%s:%s:%s:%s:%s:%d:%s", store, q.api, flt, srt, dir, q.skip, lim)
}

func c15InFamily(w *wiring, def *sStore) bool {
	if def.Parent != "" {
		return true
	}
	for _, s := range w.Stores {
		if s.Parent == def.Name {
			return true
		}
	}
	return false
}

// c15PagedReads appends the QP tokens of every family store (inside the caller's read transaction)
func (h *harnessDb) c15PagedReads(tx *bbolt.Tx, sb *strings.Builder) {
	for _, def := range h.w.Stores {
		if !c15InFamily(h.w, def) {
			continue
		}
		root := h.w.store(rootName(def))
		if root == nil || len(root.Fields) == 0 {
			continue
		}
		gs := h.stores[def.Name]
		rs := h.stores[root.Name]
		ff := &root.Fields[len(root.Fields)-1]
		n := 0
		hasEq := false
		fv := ""
		for c := rs.IterateIds(tx, ast.BoolNodeTrue); c.IsValid(); c.Next() {
			n++
			if !hasEq {
				if e, err := rs.LoadById(tx, string(c.Current())); err == nil && e != nil {
					if p := e.F[ff.Name]; p != nil {
						hasEq, fv = true, *p
					}
				}
			}
		}
		if n == 0 {
			continue
		}
		for _, q := range c15Queries(root, def, n, hasEq) {
			q := q
			text := q.text(ff, fv)
			var ids []string
			count := "-"
			var err error
			switch q.api {
			case "q":
				var cnt int64
				ids, cnt, err = gs.QueryIds(tx, text)
				count = strconv.FormatInt(cnt, 10)
			case "c":
				var query ast.Query
				query, err = ast.Parse(gs, text)
				if err == nil {
					var cnt int64
					ids, cnt, err = gs.QueryWithCursorC(tx, rs.GetEntitiesBucket(tx).OpenCursor, query)
					count = strconv.FormatInt(cnt, 10)
				}
			case "i":
				var query ast.Query
				query, err = ast.Parse(gs, text)
				if err == nil {
					for c := gs.IterateIds(tx, query); c.IsValid(); c.Next() {
						ids = append(ids, string(c.Current()))
					}
				}
			}
			if err != nil {
				fmt.Fprintf(sb, " %s:ERR:", q.token(def.Name, ff, fv))
				continue
			}
			hs := make([]string, 0, len(ids))
			for _, id := range ids {
				hs = append(hs, hxs(id))
			}
			fmt.Fprintf(sb, " %s:%s:%s", q.token(def.Name, ff, fv), count, strings.Join(hs, ","))
		}
	}
}

// c15PagedOn: print the QP tokens (off only when the C16 profile is requested explicitly)
var c15PagedOn = true
