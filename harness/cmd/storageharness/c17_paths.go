package main

import (
	"fmt"
	"hash/fnv"
	"io/fs"
	"os"
	"path/filepath"
	"sort"
	"strings"
	"time"

	"github.com/openziti/storage/boltz"
)

// C17 - snapshot PATHS.  Snapshot / SnapshotInTx take a path TEMPLATE: __DATE__, __TIME__, __DB_DIR__,
// __DB_FILE__ and the bare DATE, TIME, DB_DIR, DB_FILE are filled in, the expanded path is returned, and
// that is where the snapshot has to be.  Operations (model: Db/SnapPath.v):
//
//	open <mode>       only as the first operation: where the database file lives and how it was opened
//	                  a <dir>/live.db   r live.db (relative)   s data/live.db (relative)
//	                  u <dir>/RUNTIME/UPDATE.db   d <dir>/DB_DIR.d/DB_FILE   (names that contain placeholder text)
//	snapp <t|d> <template|-> <root> <date> <time> <dbdir> <dbfile> <dbpath> <-|g|d> <kind> [upd arguments]
//	                  t: Snapshot(template); d: Snapshot(GetDefaultSnapshotPath())
//	                  root: directory of this run (a replay re-spells absolute templates with its own)
//	                  date time dbdir dbfile dbpath: what the expansion reads from its environment, as observed
//	                  -: nothing special; g: a large file of other content already has the expanded name;
//	                  d: the expanded name cannot be written (a directory has it): the call has to fail
//
// Observation: snap <id> [D[default path]] P[returned path] W[returned path written 0/1]
//
//	X[files created or changed besides the returned path and the database] F[content at the returned path]
//	snap failed E[message] [D[..]] P[-] W[0] X[..]
var c17pOpenModes = []string{"r", "s", "u", "d", "a", "r"}

var c17pHome string // working directory of the harness

func c17pEnter(dir string) error {
	if c17pHome == "" {
		wd, err := os.Getwd()
		if err != nil {
			return err
		}
		c17pHome = wd
	}
	return os.Chdir(dir)
}

func c17pLeave() {
	if c17pHome != "" {
		_ = os.Chdir(c17pHome)
	}
}

// opOpen moves the (still empty) database of a history; anywhere but at the start it does nothing
func (h *c17Run) opOpen(mode string) {
	if h.dead {
		return
	}
	defer h.guard()
	if len(h.caseToks) == 0 && mode != "a" {
		var p string
		switch mode {
		case "r":
			p = "live.db"
		case "s":
			p = filepath.Join("data", "live.db")
		case "u":
			p = filepath.Join(h.dir, "RUNTIME", "UPDATE.db")
		case "d":
			p = filepath.Join(h.dir, "DB_DIR.d", "DB_FILE")
		}
		if p != "" {
			_ = h.db.Close()
			_ = os.Remove(h.dbPath)
			_ = os.MkdirAll(filepath.Dir(p), 0o755)
			db, err := boltz.Open(p, "r")
			if err != nil {
				panic(err)
			}
			h.db, h.dbPath = db, p
		}
	}
	h.emit("open "+mode, "open")
	h.stats["op_open_"+mode]++
}

// ---- where the documentation says a template leads ------------------------------------------------
// Used only to prepare the ground (the directory of the file has to exist; a file or a directory
// is put there beforehand) and to tell which second the call saw when the clock ticked during it.
// The verdict compares the returned path with the model's expansion, not with this.

type c17pEnv struct{ date, time, dir, file, path string }

func (h *c17Run) pEnv(t time.Time) c17pEnv {
	return c17pEnv{date: t.Format("20060102"), time: t.Format("150405"), dir: filepath.Dir(h.dbPath), file: filepath.Base(h.dbPath), path: h.dbPath}
}

func c17pDocumented(tpl string, e c17pEnv) string {
	for _, kv := range [][2]string{{"__DATE__", e.date}, {"__TIME__", e.time}, {"__DB_DIR__", e.dir}, {"__DB_FILE__", e.file},
		{"DATE", e.date}, {"TIME", e.time}, {"DB_DIR", e.dir}, {"DB_FILE", e.file}} {
		tpl = strings.ReplaceAll(tpl, kv[0], kv[1])
	}
	return tpl
}

func (h *c17Run) pAbs(p string) string {
	if !filepath.IsAbs(p) {
		p = filepath.Join(h.dir, p)
	}
	return filepath.Clean(p)
}

func (h *c17Run) pInside(abs string) bool {
	return strings.HasPrefix(abs, filepath.Clean(h.dir)+string(filepath.Separator))
}

// the names the other operations of a history use in its directory
func c17pReserved(abs string) bool {
	b := filepath.Base(abs)
	for _, p := range []string{"snap", "stream", "src"} {
		if strings.HasPrefix(b, p) {
			return true
		}
	}
	return false
}

// ---- what a call changed in the directory ---------------------------------------------------------

type c17pStat struct {
	dir  bool
	size int64
	sum  uint64
}

func (h *c17Run) pTree() map[string]c17pStat {
	out := map[string]c17pStat{}
	live := h.pAbs(h.dbPath)
	_ = filepath.WalkDir(h.dir, func(p string, d fs.DirEntry, err error) error {
		if err != nil || p == h.dir || p == live {
			return nil
		}
		rel, _ := filepath.Rel(h.dir, p)
		if d.IsDir() {
			out[rel] = c17pStat{dir: true}
			return nil
		}
		data, rerr := os.ReadFile(p)
		if rerr != nil {
			out[rel] = c17pStat{size: -1}
			return nil
		}
		f := fnv.New64a()
		_, _ = f.Write(data)
		out[rel] = c17pStat{size: int64(len(data)), sum: f.Sum64()}
		return nil
	})
	return out
}

func c17pChanged(before, after map[string]c17pStat) []string {
	var out []string
	for p, a := range after {
		if b, ok := before[p]; !ok || b != a {
			out = append(out, p)
		}
	}
	for p := range before {
		if _, ok := after[p]; !ok {
			out = append(out, p)
		}
	}
	sort.Strings(out)
	return out
}

// ---- the operation -----------------------------------------------------------------------------------

type c17pSpec struct {
	def bool   // Snapshot(GetDefaultSnapshotPath())
	tpl string // the template as passed to Snapshot
	pre string // "-", "g", "d"
}

// wait for a moment in which the second is unlikely to change during the call
func c17pSettle() time.Time {
	now := time.Now()
	if ns := now.Nanosecond(); ns > 850_000_000 {
		time.Sleep(time.Duration(1_000_000_000-ns) + time.Millisecond)
		now = time.Now()
	}
	return now
}

func (h *c17Run) opSnapPath(sp c17pSpec, kind string, commit bool, before, after []c17Wop) {
	if h.dead {
		return
	}
	defer h.guard()
	t0 := c17pSettle()
	dflt := ""
	if sp.def {
		dflt = h.db.GetDefaultSnapshotPath()
		sp.tpl = dflt
	}
	// prepare the ground for this second and the next
	for _, t := range []time.Time{t0, t0.Add(time.Second)} {
		target := h.pAbs(c17pDocumented(sp.tpl, h.pEnv(t)))
		if !h.pInside(target) || target == h.pAbs(h.dbPath) {
			panic("c17: snapshot template leads outside the run's directory: " + sp.tpl)
		}
		_ = os.MkdirAll(filepath.Dir(target), 0o755)
		switch sp.pre {
		case "g":
			if t == t0 {
				junk := make([]byte, 300<<10)
				for i := range junk {
					junk[i] = byte(i*7 + 3)
				}
				_ = os.WriteFile(target, junk, 0o600)
			}
		case "d":
			_ = os.Remove(target)
			_ = os.MkdirAll(target, 0o755)
		}
	}
	tree0 := h.pTree()
	actual, id, err := h.snapCall(sp.tpl, kind, commit, before, after)
	t1 := time.Now()
	tree1 := h.pTree()
	env := h.pEnv(t0)
	if t1.Unix() != t0.Unix() && err == nil && c17pDocumented(sp.tpl, env) != actual && c17pDocumented(sp.tpl, h.pEnv(t1)) == actual {
		env = h.pEnv(t1) // the clock ticked between settling and the call
	}
	tplTok := hxs(sp.tpl)
	flag := "t"
	if sp.def {
		flag, tplTok = "d", "-"
	}
	caseTok := fmt.Sprintf("snapp %s %s %s %s %s %s %s %s %s %s", flag, tplTok, hxs(h.dir), hxs(env.date), hxs(env.time), hxs(env.dir), hxs(env.file),
		hxs(env.path), sp.pre, c17SnapKindTok(kind, commit, before, after))
	h.stats["op_snapp"]++
	h.stats["op_snapp_"+kind]++
	h.stats["op_snapp_pre_"+sp.pre]++
	if sp.def {
		h.stats["op_snapp_default"]++
	} else if c17pDocumented(sp.tpl, env) != sp.tpl {
		h.stats["op_snapp_placeholders"]++
	}
	if filepath.IsAbs(sp.tpl) {
		h.stats["op_snapp_absolute"]++
	}
	dtok := ""
	if sp.def {
		dtok = " D[" + hxs(dflt) + "]"
	}
	changed := c17pChanged(tree0, tree1)
	written, stray := 0, []string{}
	var actualRel string
	if err == nil {
		actualRel, _ = filepath.Rel(h.dir, h.pAbs(actual))
	}
	for _, p := range changed {
		if err == nil && p == actualRel {
			written = 1
		} else {
			stray = append(stray, hxs(p))
		}
	}
	xtok := "-"
	if len(stray) > 0 {
		xtok = strings.Join(stray, ",")
	}
	if err != nil {
		h.emit(caseTok, fmt.Sprintf("snap failed E[%s]%s P[-] W[0] X[%s]", hxs(err.Error()), dtok, xtok))
		return
	}
	content, ferr := h.registerSnapshot(actual, id)
	if ferr != nil {
		h.emit(caseTok, "snap unreadable:"+hxs(ferr.Error())+dtok+" P["+hxs(actual)+"] W["+fmt.Sprint(written)+"] X["+xtok+"]")
		return
	}
	h.emit(caseTok, fmt.Sprintf("snap %s%s P[%s] W[%d] X[%s] F[%s]", hxs(h.ids[id]), dtok, hxs(actual), written, xtok, c17Dump(content, h.ids)))
}

func (h *c17Run) replaySnapPath(t *c17Toks) {
	flag := t.next()
	tpl := string(unhx(t.next()))
	oldRoot := string(unhx(t.next()))
	for i := 0; i < 5; i++ { // the environment is observed anew
		t.next()
	}
	pre := t.next()
	kind := t.next()
	commit := true
	var before, after []c17Wop
	if kind == "upd" {
		commit = t.int() == 1
		before = t.wops()
		after = t.wops()
	}
	if oldRoot != "" {
		tpl = strings.ReplaceAll(tpl, oldRoot, h.dir)
	}
	h.opSnapPath(c17pSpec{def: flag == "d", tpl: tpl, pre: pre}, kind, commit, before, after)
}

// ---- generator ------------------------------------------------------------------------------------------

var c17pPlaceholders = []string{"__DATE__", "__TIME__", "__DB_DIR__", "__DB_FILE__", "DATE", "TIME", "DB_DIR", "DB_FILE"}

// literals: harmless ones, ones that form a placeholder only together with a neighbour (UP+DATE, DAT+E,
// DB_+DIR, __+DATE+__), lower case and incomplete spellings that must stay as they are
var c17pFirst = []string{"bk", "bk-", "p.", "arc_", "UP", "RUN", "bk__", "bk-DB_"}
var c17pLits = []string{"-", ".", "_", "__", "date", "time", "DAT", "E", "TIM", "DB_", "DIR", "FILE", ".snap", "__DATE_", "_TIME__", "db_dir", "0", "Z"}

func (h *c17Run) genTemplate(r *rng) string {
	root := h.dir
	dirs := []string{"", "", "", "./", "sub/", "sub/deep/", root + "/", root + "/", root + "/sub/", "__DB_DIR__/", "__DB_DIR__/", "DB_DIR/",
		"__DB_DIR__/arch-__DATE__/", "arch-DATE/", "at__TIME__/", "tTIME/", root + "/DB_FILE.d/", "../" + filepath.Base(root) + "/",
		"__DB_DIR__/__DB_FILE__.d/", "UPDATE/"}
	name := r.pick(c17pFirst)
	withPh := r.chance(70)
	for i, n := 0, 1+r.intn(4); i < n; i++ {
		if withPh && r.chance(55) {
			name += r.pick(c17pPlaceholders)
		} else {
			name += r.pick(c17pLits)
		}
	}
	return r.pick(dirs) + name
}

// usable: the expansion stays inside the run's directory, is not a name other operations use, and
// (unless the call is meant to fail) is not a directory nor below a file
func (h *c17Run) pUsable(tpl string) bool {
	now := time.Now()
	for _, t := range []time.Time{now, now.Add(time.Second), now.Add(2 * time.Second)} {
		target := h.pAbs(c17pDocumented(tpl, h.pEnv(t)))
		if !h.pInside(target) || target == h.pAbs(h.dbPath) || c17pReserved(target) || len(target) > 900 {
			return false
		}
		if st, err := os.Stat(target); err == nil && st.IsDir() {
			return false
		}
		for d := filepath.Dir(target); h.pInside(d); d = filepath.Dir(d) {
			if st, err := os.Stat(d); err == nil && !st.IsDir() {
				return false
			}
		}
	}
	return true
}

func (h *c17Run) genSnapPathSpec(r *rng, allowBlocked bool) (c17pSpec, bool) {
	for _, tok := range []string{"DATE", "TIME", "DB_DIR", "DB_FILE"} {
		if strings.Contains(h.dir, tok) { // a temp directory whose own name would be rewritten: keep to plain snapshots
			return c17pSpec{}, false
		}
	}
	sp := c17pSpec{pre: "-"}
	switch x := r.intn(100); {
	case x < 8:
		sp.def = true
		if !h.pUsable(h.db.GetDefaultSnapshotPath()) {
			return sp, false
		}
		return sp, true
	case x < 28 && len(h.ptpls) > 0:
		sp.tpl = r.pick(h.ptpls) // the same template again: the file of that name exists already (unless the time is part of it)
	default:
		sp.tpl = h.genTemplate(r)
	}
	for try := 0; !h.pUsable(sp.tpl); try++ {
		if try > 20 {
			return sp, false
		}
		sp.tpl = h.genTemplate(r)
	}
	h.ptpls = append(h.ptpls, sp.tpl)
	switch x := r.intn(100); {
	case x < 10:
		sp.pre = "g"
	case x < 16 && allowBlocked:
		sp.pre = "d"
	}
	return sp, true
}

func (h *c17Run) genSnapPath(r *rng) bool {
	if h.dead {
		return false
	}
	sp, ok := h.genSnapPathSpec(r, false)
	if !ok {
		return false
	}
	h.genSnapKind(r, func(kind string, commit bool, before, after []c17Wop) { h.opSnapPath(sp, kind, commit, before, after) })
	return true
}

// state A ; many snapshots through path templates, transactions in between ; restores of them
func (h *c17Run) genPathSweep(r *rng) {
	for i, n := 0, 1+r.intn(3); i < n; i++ {
		if r.chance(50) {
			h.opStoreTx(r)
		} else {
			h.opTx(c17GenWops(r, 5), true)
		}
	}
	for i, n := 0, 5+r.intn(6); i < n; i++ {
		if sp, ok := h.genSnapPathSpec(r, true); ok {
			h.genSnapKind(r, func(kind string, commit bool, before, after []c17Wop) { h.opSnapPath(sp, kind, commit, before, after) })
		}
		if r.chance(60) {
			h.opTx(c17GenWops(r, 4), true)
		}
		if len(h.files) > 0 && r.chance(35) {
			h.genRestore(r, r.intn(len(h.files)))
			if r.chance(50) {
				h.opSnapId()
			}
		}
	}
	if len(h.files) > 0 {
		h.genRestore(r, len(h.files)-1)
		h.opSnapId()
	}
}
