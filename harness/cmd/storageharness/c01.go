package main

import (
	"bufio"
	"fmt"
	"os"
	"path/filepath"
	"strings"
	"time"

	"github.com/openziti/storage/ast"
	"github.com/openziti/storage/boltz"
	"go.etcd.io/bbolt"
)

// C01 - filter evaluation.  Case lines (see coq/extraction/c01_driver.ml):
//
//	S <schema>                      impl: S
//	D <dataset>                     impl: D          (the dataset is written into a bolt file)
//	Q <store> <zitiql hex> <term>   impl: R ok <QueryIds ids> <IterateIds ids> | R err | R panic
//	F <float64 bits>                impl: F <hex of strconv.FormatFloat(v,'f',-1,64)>   (the model's formatter)
//	T ...                           impl: T          (the answer of one scan strategy, c01_strategy.go)
//
// The S line of a schema variant (c01_variant.go) ends with  H ... (child stores)  and  V <variant name>.
func init() { commands["c01"] = runC01 }

const c01Base = "root"

type c01Runner struct {
	db     *bbolt.DB
	stores []*boltz.BaseStore[boltz.Entity]
	cases  *lineWriter
	impl   *lineWriter
	stats  map[string]int
	// the case spelling of keywords (c01_kwcase.go): salt of the share, off for the phases that ask the SAME text twice,
	// a style forced by the keyword-case sweep
	kwSalt   int64
	kwOff    bool
	kwForced bool
	kwForce  *c01KwCaseStyle
}

func c01Ids(ids []string) string {
	if len(ids) == 0 {
		return "-"
	}
	parts := make([]string, len(ids))
	for i, id := range ids {
		parts[i] = hxs(id)
	}
	return strings.Join(parts, ",")
}

func (r *c01Runner) loadDataset(d *c01Dataset) error {
	err := r.db.Update(func(tx *bbolt.Tx) error {
		if tx.Bucket([]byte(c01Base)) != nil {
			return tx.DeleteBucket([]byte(c01Base))
		}
		return nil
	})
	if err != nil {
		return err
	}
	if err = c01Write(r.db, c01Base, d); err != nil {
		return err
	}
	r.cases.line("%s", d.line())
	r.impl.line("D")
	return nil
}

func (r *c01Runner) query(store int, text string) (res string) {
	defer func() {
		if p := recover(); p != nil {
			res = "R panic"
		}
	}()
	var ids, iter []string
	err := r.db.View(func(tx *bbolt.Tx) error {
		var err error
		ids, _, err = r.stores[store].QueryIds(tx, text)
		if err != nil {
			return err
		}
		query, err := ast.Parse(r.stores[store], text)
		if err != nil {
			return err
		}
		cursor := r.stores[store].IterateIds(tx, query)
		for cursor.IsValid() {
			iter = append(iter, string(cursor.Current()))
			cursor.Next()
			if len(iter) > 100000 {
				return fmt.Errorf("runaway cursor")
			}
		}
		return nil
	})
	if err != nil {
		return "R err"
	}
	return "R ok " + c01Ids(ids) + " " + c01Ids(iter)
}

func (r *c01Runner) runFilter(store int, f *c01Filter) {
	text := f.text()
	term := f.term()
	// a share of the filters spells its keywords and word operators in another case (c01_kwcase.go): same term, same
	// expected answer; the style is the last token of the line (the shrinker prints sub-filters in the same style)
	if ks := r.kwStyleFor(term); ks != nil {
		c01KwCur = ks
		if t2 := f.text(); t2 != text {
			text, term = t2, term+c01KwToken(ks)
			r.stats["keyword-case:Q:"+string(ks.kind)]++
		}
		c01KwCur = nil
	}
	watchdogBeat(fmt.Sprintf("%d %s", store, text))
	r.cases.line("Q %d %s %s", store, hxs(text), term)
	res := r.query(store, text)
	r.impl.line("%s", res)
	switch {
	case res == "R err":
		r.stats["result:error"]++
	case res == "R panic":
		r.stats["result:panic"]++
	case strings.HasPrefix(res, "R ok - "):
		r.stats["result:no-rows"]++
	default:
		r.stats["result:rows"]++
	}
}

func runC01(o *opts) error {
	startWatchdog(o.out, 20*time.Second)
	if t := o.get("render", ""); t != "" {
		// --kwcase <style>: the spelling of the keywords; --sortclause <hex>: the complete query text of a T line
		c01KwCur = c01KwParseStyle(o.get("kwcase", ""))
		f := c01ParseTerm(strings.Split(t, ","))
		if sc := o.get("sortclause", ""); sc != "" && f.k == "q" {
			clause := ""
			if sc != "-" {
				clause = string(unhx(sc))
			}
			fmt.Println(hxs(c01QueryText(f, clause)))
			return nil
		}
		fmt.Println(hxs(f.text()))
		return nil
	}
	dir, err := os.MkdirTemp("", "c01")
	if err != nil {
		return err
	}
	defer os.RemoveAll(dir)
	db, err := bbolt.Open(filepath.Join(dir, "c01.db"), 0600, &bbolt.Options{NoSync: true, NoFreelistSync: true})
	if err != nil {
		return err
	}
	defer db.Close()
	ast.EnableQueryDebug.Store(false)
	r := &c01Runner{db: db, stats: map[string]int{}, kwSalt: o.seed}
	r.useVariant("base")
	r.cases = newLineWriter(o.out, "cases.txt")
	r.impl = newLineWriter(o.out, "impl.txt")
	defer r.cases.close()
	defer r.impl.close()

	if rp := o.get("replaycase", ""); rp != "" {
		return r.replay(rp)
	}

	r.useVariant("base")

	g := &c01Gen{r: newRng(o.seed), stats: r.stats}
	dotted := o.get("dotted", "1") == "1"

	// bounded-exhaustive operator sweep
	nsweep := c01Sweep(r, dotted)
	r.stats["sweep-filters"] = nsweep

	// bounded-exhaustive sweep of literal syntax and number -> string coercion positions
	r.stats["coerce-sweep-filters"] = c01SweepCoerce(r, dotted)

	// bounded-exhaustive sweep of boundary values (empty string, zeros, false, zero times) at the end of and along
	// every symbol path shape (c01_boundary.go)
	if dotted {
		c01SweepBoundary(r, o.thorough())
	}

	// the modelled float formatter against strconv.FormatFloat
	nfmt := 400
	if o.thorough() {
		nfmt = 6000
	}
	r.stats["float-format-lines"] = c01FmtLines(r, g, nfmt)

	// every keyword and word operator x every kind of case spelling, bounded-exhaustive (c01_kwcase.go)
	r.stats["keyword-case-sweep-lines"] = c01SweepKwCase(r, o.thorough(), dotted)

	// the schema variants (aliased storage, child stores) and every scan strategy, bounded-exhaustive
	c01VariantSweeps(r, dotted)

	// random datasets x typed random filters
	ndatasets, perDataset := 150, 20
	if o.thorough() {
		ndatasets, perDataset = 1500, 40
	}
	if o.n > 0 {
		ndatasets = o.n
	}
	for k := 0; k < ndatasets; k++ {
		maxPeople := 12
		if k%10 == 0 {
			maxPeople = 2
		}
		// the schema variant of this dataset: where the values are stored, and which child stores exist
		if variant := []string{"base", "base", "alias", "hier", "hier-alias"}[k%5]; variant != c01Cur.name {
			r.useVariant(variant)
		}
		d := g.dataset(maxPeople)
		if err := r.loadDataset(d); err != nil {
			return err
		}
		r.stats[fmt.Sprintf("people:%02d", len(d.stores[0]))]++
		for j := 0; j < perDataset; j++ {
			store := 0
			if g.r.chance(15) {
				store = 1
			}
			if len(c01Cur.raw) > c01Roots && g.r.chance(60) { // through a child store
				store = c01Roots + g.r.intn(len(c01Cur.raw)-c01Roots)
			}
			depth := g.weighted([]int{25, 30, 25, 15, 5})
			f := g.filter(store, depth, dotted)
			top := &c01Filter{k: "q", a: f}
			if g.r.chance(8) { // the paging counters of the id scanners (sorting is C02)
				v := g.pickI([]int64{0, 1, 2, -1, 5})
				top.skip = &v
				r.stats["top-level:skip"]++
			}
			if g.r.chance(8) {
				v := g.pickI([]int64{-1, 0, 1, 2, 3, 10})
				top.limit = &v
				r.stats["top-level:limit"]++
			}
			r.stats[fmt.Sprintf("nesting:%d", top.depth())]++
			r.runFilter(store, top)
			// the same filter through other scan strategies
			g.randomStrategies(r, store, d, f, 2)
		}
	}
	r.stats["datasets"] = ndatasets

	// long sort clauses over datasets with ties, queries without a predicate (c01_ties.go); sequences of queries in
	// which an earlier caller refines the query object it parsed (c01_history.go).  These phases come last and draw
	// from their own generator: the streams above are unchanged, and an M line precedes only lines of these phases
	r.kwOff = true // the phases below ask the same TEXT again after an earlier caller: their lines keep the canonical spelling
	c01TieSweeps(r)
	g2 := &c01Gen{r: newRng(o.seed ^ 0x5e55104), stats: r.stats}
	nties, perTies := 24, 8
	if o.thorough() {
		nties, perTies = 300, 12
	}
	if o.n > 0 {
		nties = o.n
	}
	c01RandomTies(r, g2, nties, perTies, dotted)
	r.stats["tie-datasets"] = nties
	c01HistorySweeps(r)
	writeJSON(o.out, "stats.json", r.stats)
	return nil
}

// replay: a file with S, D and Q lines; the Q lines are re-run from their text
func (r *c01Runner) replay(path string) error {
	f, err := os.Open(path)
	if err != nil {
		return err
	}
	defer f.Close()
	sc := bufio.NewScanner(f)
	sc.Buffer(make([]byte, 1<<20), 1<<26)
	for sc.Scan() {
		line := sc.Text()
		toks := strings.Fields(line)
		if len(toks) == 0 {
			continue
		}
		switch toks[0] {
		case "S":
			variant := "base"
			if len(toks) > 2 && toks[len(toks)-2] == "V" {
				variant = toks[len(toks)-1]
			}
			r.useVariant(variant)
		case "T":
			r.replayStrategy(toks)
		case "M":
			r.replayPrior(toks)
		case "D":
			d, err := c01ParseDataset(toks[1:])
			if err != nil {
				return err
			}
			if err := r.loadDataset(d); err != nil {
				return err
			}
		case "Q":
			store := 0
			fmt.Sscanf(toks[1], "%d", &store)
			r.cases.line("%s", line)
			r.impl.line("%s", r.query(store, string(unhx(toks[2]))))
		}
	}
	return sc.Err()
}

// c01ParseDataset reads back the tokens of a D line (for replays and shrinking)
func c01ParseDataset(toks []string) (*c01Dataset, error) {
	pos := 0
	next := func() string {
		if pos >= len(toks) {
			panic("short dataset line")
		}
		t := toks[pos]
		pos++
		return t
	}
	nextInt := func() int {
		n := 0
		fmt.Sscanf(next(), "%d", &n)
		return n
	}
	d := &c01Dataset{}
	var perr error
	func() {
		defer func() {
			if p := recover(); p != nil {
				perr = fmt.Errorf("dataset line: %v", p)
			}
		}()
		ns := nextInt()
		for s := 0; s < ns; s++ {
			var ents []c01Entity
			ne := nextInt()
			for e := 0; e < ne; e++ {
				ent := c01Entity{id: string(unhx(next()))}
				nf := nextInt()
				for i := 0; i < nf; i++ {
					np := nextInt()
					var path []string
					for j := 0; j < np; j++ {
						path = append(path, string(unhx(next())))
					}
					ent.fields = append(ent.fields, c01Field{path: path, v: c01ParseVal(next())})
				}
				nsets := nextInt()
				for i := 0; i < nsets; i++ {
					set := c01Set{key: string(unhx(next()))}
					k := nextInt()
					for j := 0; j < k; j++ {
						set.elems = append(set.elems, c01ParseVal(next()).s)
					}
					ent.sets = append(ent.sets, set)
				}
				ents = append(ents, ent)
			}
			d.stores = append(d.stores, ents)
		}
	}()
	return d, perr
}

func c01ParseVal(t string) c01Val {
	rest := t[1:]
	switch t[0] {
	case 'n':
		return c01Val{k: 'n'}
	case 'b':
		return c01Val{k: 'b', b: rest == "1"}
	case 'w', 'i':
		var i int64
		fmt.Sscanf(rest, "%d", &i)
		return c01Val{k: t[0], i: i}
	case 'f':
		var bits uint64
		fmt.Sscanf(rest, "%x", &bits)
		return c01Val{k: 'f', f: c01Float64frombits(bits)}
	case 's':
		return c01Val{k: 's', s: string(unhx(rest))}
	case 't':
		var sec, ns int64
		fmt.Sscanf(rest, "%d:%d", &sec, &ns)
		return c01Val{k: 't', sec: sec, ns: ns}
	}
	panic("bad value token " + t)
}
