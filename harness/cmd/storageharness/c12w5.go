package main

import (
	"fmt"
	"os"
	"path/filepath"
	"strconv"
	"strings"
	"sync"
	"time"

	"github.com/openziti/storage/ast"
	"github.com/openziti/storage/boltz"
	"go.etcd.io/bbolt"
)

// C12, stream m (design/C12.md, "Strengthening after C12-w5-2"): skeletons whose atoms are real comparisons of ONE
// operator family on SEVERAL symbols of one type, with literals shared between the symbols.
//
// Stream n has one symbol per field type, so two neighbouring clauses of a chain never had the same operator shape
// on different symbols (`s = "x" or sn = "x"`), nor did a chain ever hold three or more clauses of one shape.  A
// rewriting of the typed tree that merges neighbouring clauses by their operator shape (equalities into an IN list,
// INs into one IN, two ordering comparisons into a between, `x != a and x != b` into a not-in, ...) is observable
// only there: the merged node answers for ONE symbol.
//
// Store `twins` (real bbolt file): string symbols s, sn, su; int64 i, j; float64 f, g; datetime t, u; bool b, c;
// string sets tags, labels.  64 rows: (s, sn, su) runs through the full product of {x, xy, hello, unset}; the other
// families run through the full product of their value domains under fixed permutations of the row numbers.  For any
// two atoms that differ in their symbol only there are rows on which exactly one of them holds (self-test
// m_symbol_twins_indistinguishable = 0).
//
// An atom is (family, form, symbol, literal).  m1: every clause sequence of 3 atoms of one family - all symbol
// patterns over two symbols, all literal patterns, every and/or sequence - in ALL its groupings; m2: chains of 4-6
// clauses (pure or, pure and, alternating) unparenthesised and grouped; m3: random skeletons (parentheses, nots)
// whose atoms, read left to right, are a walk through the pool: each clause differs from the one before it in the
// symbol, or in the operator form, or in the literal (sometimes two of them).
// Observation of stream m: N <row bits of the query | E | P> <hex row id,..> <row bits of the same skeleton over opaque atoms>
// Case kind N (c12w3.go): valuation of an atom on a row = what the code answers for the atom alone; oracle: the
// rows selected = the rows on which the skeleton's surface semantics holds under that valuation.

type c12mForm func(sym string, lits []string, k int) string

type c12mFamily struct {
	name  string
	syms  []string
	lits  []string
	forms []c12mForm
}

func c12mLit(lits []string, k int) string { return lits[((k%len(lits))+len(lits))%len(lits)] }

func c12mBin(op string) c12mForm {
	return func(sym string, lits []string, k int) string { return sym + " " + op + " " + c12mLit(lits, k) }
}

// a list of two literals: the k-th and its successor
func c12mIn(op string) c12mForm {
	return func(sym string, lits []string, k int) string {
		return sym + " " + op + " [" + c12mLit(lits, k) + ", " + c12mLit(lits, k+1) + "]"
	}
}

// between the k-th literal and the largest one
func c12mBetween(op string) c12mForm {
	return func(sym string, lits []string, k int) string {
		return sym + " " + op + " " + c12mLit(lits, k) + " and " + lits[len(lits)-1]
	}
}

func c12mFixed(format string) c12mForm {
	return func(sym string, lits []string, k int) string { return fmt.Sprintf(format, sym) }
}

func c12mSetFn(fn string, f c12mForm) c12mForm {
	return func(sym string, lits []string, k int) string { return f(fn+"("+sym+")", lits, k) }
}

var (
	c12mStrSyms = []string{"s", "sn", "su"}
	c12mStrLits = []string{`"x"`, `"xy"`, `"hello"`}
	c12mSubLits = []string{`"x"`, `"y"`, `"l"`}
	c12mSubUp   = []string{`"X"`, `"Y"`, `"L"`}
	c12mIntLits = []string{"1", "5", "9"}
	c12mFltLits = []string{"1.5", "5.0", "9.5"}
	c12mTimes   = []string{"2019-06-01T00:00:00Z", "2021-06-01T00:00:00Z", "2023-06-01T00:00:00Z"}
	c12mDtLits  = []string{"datetime(" + c12mTimes[0] + ")", "datetime(" + c12mTimes[1] + ")", "datetime(" + c12mTimes[2] + ")"}
	c12mSetSyms = []string{"tags", "labels"}
	c12mSetLits = []string{`"x"`, `"y"`, `"q"`}
)

// the pool: per field type the operator families; inside a family the forms are the ways of writing a clause of
// that shape (a rewriting that recognises one of them is likely to recognise its neighbours)
var c12mFamilies = []*c12mFamily{
	{"str-eq", c12mStrSyms, c12mStrLits, []c12mForm{c12mBin("="), c12mIn("in")}},
	{"str-ne", c12mStrSyms, c12mStrLits, []c12mForm{c12mBin("!="), c12mIn("not in")}},
	{"str-sub", c12mStrSyms, c12mSubLits, []c12mForm{c12mBin("contains"), c12mBin("not contains"),
		func(sym string, _ []string, k int) string { return sym + " icontains " + c12mLit(c12mSubUp, k) },
		func(sym string, _ []string, k int) string { return sym + " not icontains " + c12mLit(c12mSubUp, k) }}},
	{"str-ord", c12mStrSyms, c12mStrLits, []c12mForm{c12mBin("<"), c12mBin(">="), c12mBin("<="), c12mBin(">")}},
	{"str-null", c12mStrSyms, []string{"null"}, []c12mForm{c12mBin("="), c12mBin("!=")}},
	{"int-eq", []string{"i", "j"}, c12mIntLits, []c12mForm{c12mBin("="), c12mIn("in"), c12mBetween("between")}},
	{"int-ne", []string{"i", "j"}, c12mIntLits, []c12mForm{c12mBin("!="), c12mIn("not in"), c12mBetween("not between")}},
	{"int-ord", []string{"i", "j"}, c12mIntLits, []c12mForm{c12mBin("<"), c12mBin(">="), c12mBin("<="), c12mBin(">")}},
	{"int-null", []string{"i", "j"}, []string{"null"}, []c12mForm{c12mBin("="), c12mBin("!=")}},
	{"float-eq", []string{"f", "g"}, c12mFltLits, []c12mForm{c12mBin("="), c12mIn("in"), c12mBetween("between")}},
	{"float-ne", []string{"f", "g"}, c12mFltLits, []c12mForm{c12mBin("!="), c12mIn("not in"), c12mBetween("not between")}},
	{"float-ord", []string{"f", "g"}, c12mFltLits, []c12mForm{c12mBin("<"), c12mBin(">="), c12mBin("<="), c12mBin(">")}},
	{"time-eq", []string{"t", "u"}, c12mDtLits, []c12mForm{c12mBin("="), c12mIn("in"), c12mBetween("between")}},
	{"time-ne", []string{"t", "u"}, c12mDtLits, []c12mForm{c12mBin("!="), c12mIn("not in"), c12mBetween("not between")}},
	{"time-ord", []string{"t", "u"}, c12mDtLits, []c12mForm{c12mBin("<"), c12mBin(">="), c12mBin("<="), c12mBin(">")}},
	{"bool", []string{"b", "c"}, []string{"true", "false"}, []c12mForm{c12mBin("="), c12mBin("!="), c12mFixed("%s"), c12mFixed("%s = null")}},
	{"set-any", c12mSetSyms, c12mSetLits, []c12mForm{c12mSetFn("anyOf", c12mBin("=")), c12mSetFn("anyOf", c12mIn("in")),
		c12mSetFn("anyOf", c12mBin("contains")), c12mSetFn("anyOf", c12mBin("!="))}},
	{"set-all", c12mSetSyms, c12mSetLits, []c12mForm{c12mSetFn("allOf", c12mBin("=")), c12mSetFn("allOf", c12mBin("!=")),
		c12mSetFn("allOf", c12mIn("not in"))}},
	{"set-count", c12mSetSyms, []string{"1", "2"}, []c12mForm{c12mSetFn("count", c12mBin(">=")), c12mSetFn("count", c12mBin("=")),
		c12mSetFn("count", c12mBin("<")), c12mFixed("isEmpty(%s)")}},
}

// families of one field type: a walk may change the operator family but stays inside the type
var c12mTypes = [][]int{{0, 1, 2, 3, 4}, {5, 6, 7, 8}, {9, 10, 11}, {12, 13, 14}, {15}, {16, 17, 18}}

// ---- the store ------------------------------------------------------------------------------------------------

const c12mRowCount = 64

// c12mPerm: a fixed permutation of the row numbers (independent of the run's seed: the dataset never changes)
func c12mPerm(k int) []int {
	p := make([]int, c12mRowCount)
	for i := range p {
		p[i] = i
	}
	x := uint32(0x9e3779b9) * uint32(k+1)
	for i := len(p) - 1; i > 0; i-- {
		x = x*1664525 + 1013904223
		j := int((x >> 8) % uint32(i+1))
		p[i], p[j] = p[j], p[i]
	}
	return p
}

func c12mOpen(dir string) (*c12nDb, error) {
	f := filepath.Join(dir, fmt.Sprintf("c12m-%d.db", os.Getpid()))
	_ = os.Remove(f)
	db, err := bbolt.Open(f, 0o600, &bbolt.Options{NoSync: true, NoFreelistSync: true, Timeout: 5 * time.Second})
	if err != nil {
		return nil, err
	}
	def := (&boltz.StoreDefinition[boltz.Entity]{EntityType: "twins"}).WithBasePath("ctwin")
	twins := boltz.NewBaseStore(*def)
	twins.AddIdSymbol("id", ast.NodeTypeString)
	for _, s := range c12mStrSyms {
		twins.AddSymbol(s, ast.NodeTypeString)
	}
	twins.AddSymbol("i", ast.NodeTypeInt64)
	twins.AddSymbol("j", ast.NodeTypeInt64)
	twins.AddSymbol("f", ast.NodeTypeFloat64)
	twins.AddSymbol("g", ast.NodeTypeFloat64)
	twins.AddSymbol("t", ast.NodeTypeDatetime)
	twins.AddSymbol("u", ast.NodeTypeDatetime)
	twins.AddSymbol("b", ast.NodeTypeBool)
	twins.AddSymbol("c", ast.NodeTypeBool)
	for _, s := range c12mSetSyms {
		twins.AddSetSymbol(s, ast.NodeTypeString)
	}
	d := &c12nDb{db: db, file: f, store: twins}
	strVals := []string{"x", "xy", "hello"} // digit 3: unset
	intVals := []int64{1, 5, 9}
	fltVals := []float64{1.5, 5, 9.5}
	setVals := [][]string{nil, {"x"}, {"y"}, {"x", "y"}}
	pi, pf, pt, pb, ps := c12mPerm(1), c12mPerm(2), c12mPerm(3), c12mPerm(4), c12mPerm(5)
	err = db.Update(func(tx *bbolt.Tx) error {
		root := boltz.GetOrCreatePath(tx, "ctwin", "twins")
		for r := 0; r < c12mRowCount; r++ {
			id := fmt.Sprintf("r%02d", r)
			d.ids = append(d.ids, id)
			eb := root.GetOrCreatePath(id)
			explicitNil := r%2 == 1 // half of the rows write a nil instead of leaving the field out
			for k, sym := range c12mStrSyms {
				if dg := r >> uint(2*k) & 3; dg < 3 {
					eb.SetString(sym, strVals[dg], nil)
				} else if explicitNil {
					eb.SetNil(sym)
				}
			}
			for k, sym := range []string{"i", "j"} {
				if dg := pi[r] >> uint(2*k) & 3; dg < 3 {
					eb.SetInt64(sym, intVals[dg], nil)
				} else if explicitNil {
					eb.SetNil(sym)
				}
			}
			for k, sym := range []string{"f", "g"} {
				if dg := pf[r] >> uint(2*k) & 3; dg < 3 {
					eb.SetFloat64(sym, fltVals[dg], nil)
				} else if explicitNil {
					eb.SetNil(sym)
				}
			}
			for k, sym := range []string{"t", "u"} {
				if dg := pt[r] >> uint(2*k) & 3; dg < 3 {
					t, err := time.Parse(time.RFC3339, c12mTimes[dg])
					if err != nil {
						return err
					}
					eb.SetTimeP(sym, &t, nil)
				} else if explicitNil {
					eb.SetNil(sym)
				}
			}
			for k, sym := range []string{"b", "c"} {
				dg := pb[r] % 9
				if k == 1 {
					dg /= 3
				}
				if dg %= 3; dg < 2 {
					eb.SetBool(sym, dg == 1, nil)
				} else if explicitNil {
					eb.SetNil(sym)
				}
			}
			for k, sym := range c12mSetSyms {
				if v := setVals[ps[r]>>uint(2*k)&3]; len(v) > 0 {
					eb.SetStringList(sym, v, nil)
				}
			}
			if eb.Err != nil {
				return eb.Err
			}
		}
		return root.Err
	})
	if err != nil {
		_ = db.Close()
		return nil, err
	}
	return d, nil
}

// ---- generation -----------------------------------------------------------------------------------------------

var c12mNames = []string{"A", "B", "C", "D", "E", "F", "G", "H"}

type c12mAtom struct {
	fam, form, sym, lit int
}

func (a c12mAtom) text() string {
	f := c12mFamilies[a.fam]
	return f.forms[a.form%len(f.forms)](f.syms[a.sym%len(f.syms)], f.lits, a.lit)
}

func c12mSeqExpr(m int) []int {
	lab := make([]int, m)
	for i := range lab {
		lab[i] = i
	}
	return lab
}

func c12mOps(m int, mask int) []byte {
	ops := make([]byte, m-1)
	for i := range ops {
		ops[i] = '|'
		if mask>>uint(i)&1 == 1 {
			ops[i] = '&'
		}
	}
	return ops
}

func c12mGenerate(o *opts, r *rng, stats map[string]int) []*c12nJob {
	var jobs []*c12nJob
	seen := map[string]bool{}
	add := func(stream string, e *c12Expr, lay *c12Layout, atoms []c12mAtom) {
		texts := make([]string, len(atoms))
		for i, a := range atoms {
			texts[i] = a.text()
		}
		lay.atoms, lay.fixed = c12mNames, true
		text, pre := lay.spell(e)
		key := text + "\x00" + strings.Join(texts, "\x00")
		if seen[key] {
			return
		}
		seen[key] = true
		jobs = append(jobs, &c12nJob{stream: stream, store: "twins", filter: text, pre: pre, atoms: c12mNames[:len(texts)], texts: texts})
		stats["stream_"+stream]++
	}
	canon := func() *c12Layout { return &c12Layout{} }
	// symbol pair used by the exhaustive part: the first two symbols of the family; the third string symbol and
	// other pairs come in through m2 / m3
	// m1: 3 clauses of one family: every symbol pattern over two symbols x every literal pattern x every and/or
	// sequence, in ALL groupings (plain chain first).  Form: all clauses in the family's first form, then in its
	// other forms, then one random mix of forms per pattern.
	labs3 := c12dLabellings(3, 3, false)
	labs3[0], labs3[len(labs3)-1] = labs3[len(labs3)-1], labs3[0] // three different literals first
	cnt := 0
	for opmask := 0; opmask < 4; opmask++ { // pure or first, then mixed, pure and last but one
		seq := &c12dSeq{atoms: c12mSeqExpr(3), ops: c12mOps(3, opmask)}
		gs := seq.groupings(0, 3, 0, 0)
		stats["m_groupings_3"] = len(gs)
		for fi, fam := range c12mFamilies {
			for sp := 0; sp < 8; sp++ {
				for li, lab := range labs3 {
					cnt++
					off := (sp + li) % len(fam.lits)
					variants := [][]int{{0, 0, 0}}
					for fo := 1; fo < len(fam.forms); fo++ {
						// the other forms uniformly: all patterns in the thorough tier, a third of them in the quick tier
						if o.thorough() || (cnt+fo)%3 == 0 {
							variants = append(variants, []int{fo, fo, fo})
						}
					}
					if len(fam.forms) > 1 {
						variants = append(variants, []int{r.intn(len(fam.forms)), r.intn(len(fam.forms)), r.intn(len(fam.forms))})
					}
					for _, v := range variants {
						atoms := make([]c12mAtom, 3)
						for p := 0; p < 3; p++ {
							atoms[p] = c12mAtom{fam: fi, form: v[p], sym: sp >> uint(p) & 1, lit: lab[p] + off}
						}
						for _, g := range gs {
							add("m1", g, canon(), atoms)
						}
					}
				}
			}
		}
	}
	// m2: chains of 4-6 clauses of one family: pure or, pure and, alternating; unparenthesised and in random
	// groupings; symbols over all symbols of the family (not constant), literals random
	per := 24
	if o.thorough() {
		per = 400
	}
	for fi, fam := range c12mFamilies {
		for n := 0; n < per; n++ {
			m := 4 + n%3
			var mask int
			switch n % 4 {
			case 0, 1:
				mask = 0 // or-chain
			case 2:
				mask = 1<<uint(m-1) - 1 // and-chain
			default:
				mask = 0x2a >> uint(n/4%2) // alternating, starting with or / with and
			}
			seq := &c12dSeq{atoms: c12mSeqExpr(m), ops: c12mOps(m, mask)}
			atoms := make([]c12mAtom, m)
			form := r.intn(len(fam.forms))
			for {
				same := true
				for p := range atoms {
					atoms[p] = c12mAtom{fam: fi, form: form, sym: r.intn(len(fam.syms)), lit: r.intn(len(fam.lits))}
					if n%5 == 4 {
						atoms[p].form = r.intn(len(fam.forms))
					}
					same = same && atoms[p].sym == atoms[0].sym
				}
				if !same {
					break
				}
			}
			// the plain chain
			plain := &c12Expr{kind: '.', p: &c12Prim{atom: m - 1}}
			for p := m - 2; p >= 0; p-- {
				plain = &c12Expr{kind: seq.ops[p], p: &c12Prim{atom: p}, e: plain}
			}
			add("m2", plain, canon(), atoms)
			if m <= 5 {
				gs := seq.groupings(0, m, 0, 0)
				for k := 0; k < 3; k++ {
					add("m2", gs[r.intn(len(gs))], canon(), atoms)
				}
			} else {
				add("m2", c12mRandomGrouping(r, seq.ops, 0, m), canon(), atoms)
				add("m2", c12mRandomGrouping(r, seq.ops, 0, m), canon(), atoms)
			}
		}
	}
	// m3: random skeletons (parentheses, nots) over a WALK through the pool of one field type
	n3 := 1500
	if o.thorough() {
		n3 = 25000
	}
	for i := 0; i < n3; i++ {
		var e *c12Expr
		var m int
		for {
			e = c12Random(r, 2+r.intn(4), 1, 2)
			if m = c12CountAtoms(e); m >= 3 && m <= len(c12mNames) {
				break
			}
		}
		e = c12dRelabel(e, c12mSeqExpr(m))
		typ := c12mTypes[r.intn(len(c12mTypes))]
		cur := c12mAtom{fam: typ[r.intn(len(typ))]}
		cur.form, cur.sym, cur.lit = r.intn(len(c12mFamilies[cur.fam].forms)), r.intn(len(c12mFamilies[cur.fam].syms)), r.intn(3)
		atoms := make([]c12mAtom, m)
		for p := range atoms {
			atoms[p] = cur
			steps := 1
			if r.chance(25) {
				steps = 2
			}
			for s := 0; s < steps; s++ {
				fam := c12mFamilies[cur.fam]
				switch x := r.intn(10); {
				case x < 4: // another symbol, same clause shape
					cur.sym = (cur.sym + 1 + r.intn(len(fam.syms)-1)) % len(fam.syms)
				case x < 6: // another form of the same family
					cur.form = r.intn(len(fam.forms))
				case x < 8: // another literal
					cur.lit = r.intn(3)
				default: // another operator family of the same type, same symbol
					cur.fam = typ[r.intn(len(typ))]
					cur.form = r.intn(len(c12mFamilies[cur.fam].forms))
				}
			}
		}
		lay := canon()
		if r.chance(20) {
			lay = &c12Layout{r: r, maxWs: 2, inner: 1, kwCase: true}
		}
		add("m3", e, lay, atoms)
	}
	return jobs
}

// a random grouping of clauses [i,j) of a sequence into a chain of atoms and parenthesised sub-ranges
func c12mRandomGrouping(r *rng, ops []byte, i, j int) *c12Expr {
	e := i + 1
	if j-i > 2 && r.chance(50) {
		e = i + 2 + r.intn(j-i-2)
		if e == j && i == 0 {
			e = j - 1
		}
	}
	var p *c12Prim
	if e == i+1 {
		p = &c12Prim{atom: i}
	} else {
		p = &c12Prim{paren: c12mRandomGrouping(r, ops, i, e)}
	}
	if e == j {
		return &c12Expr{kind: '.', p: p}
	}
	return &c12Expr{kind: ops[e-1], p: p, e: c12mRandomGrouping(r, ops, e, j)}
}

// ---- run ------------------------------------------------------------------------------------------------------

// c12mSelfTest: two atoms of the pool that differ in their symbol only must be told apart by the rows (on some row
// exactly one of them holds, in each direction unless one of them is constant), otherwise re-targeting a clause to
// its neighbour's symbol would be unobservable (atoms that are constant over the rows are counted, not compared)
func c12mSelfTest(db *c12nDb, stats map[string]int) {
	natoms := 0
	for fi, fam := range c12mFamilies {
		for fo := range fam.forms {
			for l := range fam.lits {
				var bits []string
				for s := range fam.syms {
					b := db.rowBits(c12mAtom{fam: fi, form: fo, sym: s, lit: l}.text())
					natoms++
					if b == "E" || b == "P" {
						stats["m_atoms_rejected"]++
						continue
					}
					if !strings.Contains(b, "1") || !strings.Contains(b, "0") {
						stats["m_atoms_constant"]++ // a literal at the edge of the value domain: a legitimate atom, nothing to tell apart
						continue
					}
					bits = append(bits, b)
				}
				for x := 0; x < len(bits); x++ {
					for y := x + 1; y < len(bits); y++ {
						only1, only2 := false, false
						for k := range bits[x] {
							only1 = only1 || (bits[x][k] == '1' && bits[y][k] == '0')
							only2 = only2 || (bits[x][k] == '0' && bits[y][k] == '1')
						}
						if !only1 || !only2 {
							stats["m_symbol_twins_indistinguishable"]++
							if os.Getenv("C12M_DEBUG") != "" {
								fmt.Fprintf(os.Stderr, "indistinguishable: %s (symbols %d, %d): %s %s\n", c12mAtom{fam: fi, form: fo, sym: 0, lit: l}.text(), x, y, bits[x], bits[y])
							}
						}
					}
				}
			}
		}
	}
	stats["m_pool_atoms"] = natoms
	stats["m_families"] = len(c12mFamilies)
}

func c12mRun(o *opts, jobs []*c12nJob, stats map[string]int, selfTest bool) error {
	if len(jobs) == 0 {
		return nil
	}
	db, err := c12mOpen(o.out)
	if err != nil {
		return err
	}
	defer db.close()
	if selfTest {
		stats["m_symbol_twins_indistinguishable"] = 0
		stats["m_atoms_rejected"] = 0
		c12mSelfTest(db, stats)
	}
	// the atoms alone (sequential, cached), then the queries in parallel
	atomBits := map[string]string{}
	for _, j := range jobs {
		for _, t := range j.texts {
			if _, ok := atomBits[t]; !ok {
				b := db.rowBits(t)
				if b == "E" || b == "P" {
					stats["m_atoms_rejected"]++
					b = strings.Repeat("0", len(db.ids))
				}
				atomBits[t] = b
			}
		}
	}
	var hexIds []string
	for _, id := range db.ids {
		hexIds = append(hexIds, hxs(id))
	}
	ids := strings.Join(hexIds, ",")
	workers := 4
	if v, err := strconv.Atoi(os.Getenv("VERIF_JOBS")); err == nil && v > 0 {
		workers = v
	}
	var wg sync.WaitGroup
	ch := make(chan *c12nJob, 256)
	for w := 0; w < workers; w++ {
		wg.Add(1)
		go func() {
			defer wg.Done()
			for j := range ch {
				var bits, htexts []string
				for _, t := range j.texts {
					bits = append(bits, atomBits[t])
					htexts = append(htexts, hxs(t))
				}
				q := j.query()
				j.caseLine = fmt.Sprintf("N %s twins %s %s %s %s %s %s", j.stream, hxs(q), hxs(j.filter), j.pre,
					strings.Join(j.atoms, ","), strings.Join(htexts, ","), strings.Join(bits, ","))
				// the same skeleton over OPAQUE atoms (boolean symbols), under the values the clauses have on each row:
				// what the code's handling of the skeleton alone selects
				proj := "-"
				if tt := c12TruthTable("sym", j.filter, j.atoms); len(tt) == 1<<uint(len(j.atoms)) {
					pb := make([]byte, len(db.ids))
					for r := range pb {
						idx := 0
						for a, b := range bits {
							if b[r] == '1' {
								idx |= 1 << uint(a)
							}
						}
						pb[r] = tt[idx]
					}
					proj = string(pb)
				}
				j.implLine = fmt.Sprintf("N %s %s %s", db.rowBits(q), ids, proj)
			}
		}()
	}
	for _, j := range jobs {
		ch <- j
	}
	close(ch)
	wg.Wait()
	stats["m_atoms_used"] = len(atomBits)
	return nil
}
