package main

// C08, third strengthening round (seeded change C08-w3-3): MutateContexts built AROUND an existing bbolt transaction
// with boltz.NewTxMutateContext.  Until now every transaction of the C08 streams was opened by Db.Update / Db.Batch
// with a context from NewMutateContext, so the constructor that hooks a context to a transaction that already exists
// was never executed.  Two call sites of it are exercised (model: coq/theories/Store/TxShared.v):
//
//  (1) pseudo veto "@rawtx" (id = how the caller manages the transaction): the CALLER opens the write transaction on
//      the bbolt database behind the boltz handle, wraps it with NewTxMutateContext, runs the hook program with that
//      context - store operations, registrations, nested db.Update(ctx, ..) / db.Batch(ctx, ..) calls, which join -
//      and commits, or rolls back when an operation failed / the caller gives up (operation FAIL):
//          b   tx, _ := bolt.Begin(true) ... tx.Commit() / tx.Rollback()
//          u   bolt.Update(func(tx) error { ... })
//          t   bolt.Batch(func(tx) error { ... })      (a failing function is re-run by bbolt on its own: a new
//                                                        context around the new transaction)
//          w   (suffix) registrations are made through ctx.GetSystemContext(), operations with ctx itself
//      Expected by the model: entity events as for every committed transaction; every registered commit action once
//      after the commit, none after a rollback; pre-commit actions NEVER (runPreCommitActions is called by the
//      Db.Update / Db.Batch that opens a transaction, by nobody else), so a "failing" one cannot fail the transaction
//      and a 'q' action adds nothing; tx-complete listeners are registered by the Db.Update / Db.Batch that opens a
//      transaction: not involved, TC:0.
//  (2) program letter 'x' .. ')': inside the function of a running transaction (whoever opened it) a SECOND context is
//      built around ctx.Tx() and the block is executed with it.  Its commit actions run once after the commit, its
//      pre-commit actions never.

import (
	"context"
	"strings"

	"github.com/openziti/storage/boltz"
	"github.com/pkg/errors"
	"go.etcd.io/bbolt"
)

const c08RawTx = "@rawtx"

// c08SecondCtx builds a second context around the transaction of a running one (same privileges)
func c08SecondCtx(ctx boltz.MutateContext) boltz.MutateContext {
	n := boltz.NewTxMutateContext(ctx.Context(), ctx.Tx())
	if ctx.IsSystemContext() {
		n = n.GetSystemContext()
	}
	return n
}

// runRawTx lets the caller manage the bbolt transaction: [body] gets a context built around it
func (c *c08Db) runRawTx(spec string, sys bool, body func(boltz.MutateContext) error) error {
	bdb := c08BoltDb(c.h)
	if bdb == nil {
		return errors.New("no bbolt database behind the boltz handle")
	}
	fn := func(tx *bbolt.Tx) error {
		ctx := boltz.NewTxMutateContext(context.Background(), tx)
		if sys {
			ctx = ctx.GetSystemContext()
		}
		return body(ctx)
	}
	opener := byte('b')
	if spec != "" {
		opener = spec[0]
	}
	switch opener {
	case 'u':
		return bdb.Update(fn)
	case 't':
		return bdb.Batch(fn)
	default:
		tx, err := bdb.Begin(true)
		if err != nil {
			return err
		}
		if err := fn(tx); err != nil {
			_ = tx.Rollback()
			return err
		}
		return tx.Commit()
	}
}

// shapeRaw turns a generated transaction into a caller-managed one and returns its hook program
func (g *c08Gen) shapeRaw(t *hTx, mode string) string {
	r := g.r
	t.PreCommitErr = false // nobody runs pre-commit actions there: the program may register a failing one, it must not matter
	spec := []string{"b", "b", "b", "u", "u", "t"}[r.intn(6)]
	if r.chance(25) {
		spec += "w"
	}
	t.Vetoes = append(t.Vetoes, hVeto{Store: c08RawTx, Change: "C", Id: spec})
	// a caller that gives up after its changes: explicit rollback
	if r.chance(12) && len(t.Ops) > 0 {
		t.Ops = append(t.Ops, hOp{Kind: "FAIL"})
	}
	var sb strings.Builder
	// right after the constructor
	if r.chance(60) {
		sb.WriteByte('c')
	}
	if r.chance(35) {
		sb.WriteByte('p')
	}
	if r.chance(8) {
		sb.WriteByte('q')
	}
	if r.chance(6) {
		sb.WriteByte('f')
	}
	if r.chance(15) {
		sb.WriteByte('c')
	}
	sb.WriteByte('|')
	if r.chance(40) {
		sb.WriteByte('c')
	}
	budget := []int{0, 0, 0, 0, 0, 0, 1, 1, 1, 1, 1, 2, 2, 2, 3}[r.intn(15)]
	noFail := false
	g.progBody(&sb, len(t.Ops), &budget, &noFail, mode, 25)
	if r.chance(55) {
		sb.WriteByte('c')
	}
	if r.chance(15) {
		sb.WriteByte('p')
	}
	return sb.String()
}

// progBody spreads nOps operations over the top level of the function: items (with nested joined calls, progItems),
// and with probability pX a block in the middle that is executed with a second context around the transaction
func (g *c08Gen) progBody(sb *strings.Builder, nOps int, budget *int, failPending *bool, mode string, pX int) {
	r := g.r
	if !r.chance(pX) {
		g.progItems(sb, nOps, budget, 0, failPending, mode)
		return
	}
	inX := r.intn(nOps + 1)
	before := r.intn(nOps - inX + 1)
	g.progItems(sb, before, budget, 0, failPending, mode)
	sb.WriteByte('x')
	if r.chance(70) {
		sb.WriteByte('c')
	}
	if r.chance(30) {
		sb.WriteByte('p')
	}
	if r.chance(8) {
		sb.WriteByte('q')
	}
	if r.chance(6) {
		sb.WriteByte('f') // on the second context: never run, cannot fail the transaction
	}
	noFail := false
	g.progItems(sb, inX, budget, 1, &noFail, mode)
	if r.chance(40) {
		sb.WriteByte('c')
	}
	if r.chance(15) {
		sb.WriteByte('p')
	}
	sb.WriteByte(')')
	g.progItems(sb, nOps-inX-before, budget, 0, failPending, mode)
}
