package main

import (
	"fmt"
	"math"
	"sort"
	"strconv"
	"strings"
	"time"

	"github.com/openziti/storage/ast"
	"github.com/openziti/storage/boltz"
	"go.etcd.io/bbolt"
)

// C01 - fixed rich schema, datasets and the writers that put a dataset into a bolt file through the
// public TypedBucket API; printers of the S (schema) and D (dataset) case lines.

type c01SymDecl struct {
	kind   string // "id", "fld", "set"
	name   string
	ty     byte // b d f i s a
	prefix []string
	key    string
	linked int // -1 = none
	// generator hints (not part of the schema line)
	gen string // value generator: see c01GenValue
	idx bool   // set symbol carries a set index
}

type c01MapDecl struct {
	name   string
	ty     byte
	prefix []string
	key    string
}

type c01StoreDecl struct {
	name string
	syms []c01SymDecl
	maps []c01MapDecl
	// child stores (c01_variant.go): index of the parent store (root stores: 0 = none, see isChild), the entity
	// path below the parent's entity bucket, Extended()
	isChild bool
	parent  int
	path    []string
	ext     bool
}

// c01Schema: what every store of the CURRENT schema variant exposes, as symbols over the root stores' entity
// buckets (child stores: own symbols with the child's entity path in front + the symbols granted by the parent).
// Generators and the dataset writer read it; c01UseVariant switches it.
var c01Schema = c01SchemaBase

// c01SchemaBase: the schema all filters are written for (symbol NAMES never change between variants)
var c01SchemaBase = []c01StoreDecl{
	{name: "people", syms: []c01SymDecl{
		{kind: "id", name: "id", ty: 's', linked: -1},
		{kind: "fld", name: "name", ty: 's', key: "name", linked: -1, gen: "str"},
		{kind: "fld", name: "nick", ty: 's', key: "nickname", linked: -1, gen: "strnum"},
		{kind: "fld", name: "nothing", ty: 's', key: "nothing", linked: -1, gen: "nil"},
		{kind: "fld", name: "age", ty: 'i', key: "age", linked: -1, gen: "int32"},
		{kind: "fld", name: "big", ty: 'i', key: "big", linked: -1, gen: "int64"},
		{kind: "fld", name: "score", ty: 'f', key: "score", linked: -1, gen: "float"},
		{kind: "fld", name: "whole", ty: 'f', key: "whole", linked: -1, gen: "wholefloat"},
		{kind: "fld", name: "flag", ty: 'b', key: "flag", linked: -1, gen: "bool"},
		{kind: "fld", name: "born", ty: 'd', key: "born", linked: -1, gen: "time"},
		{kind: "fld", name: "grp", ty: 'i', prefix: []string{"ext"}, key: "grp", linked: -1, gen: "int32"},
		{kind: "fld", name: "place", ty: 's', key: "place", linked: 1, gen: "fk1"},
		{kind: "set", name: "strs", ty: 's', key: "strs", linked: -1, gen: "strset"},
		{kind: "set", name: "roles", ty: 's', key: "roles", linked: -1, gen: "strset", idx: true},
		{kind: "set", name: "nums", ty: 's', key: "nums", linked: -1, gen: "numset"},
		{kind: "set", name: "places", ty: 's', key: "places", linked: 1, gen: "fkset1"},
		{kind: "set", name: "friends", ty: 's', key: "friends", linked: 0, gen: "fkset0"},
	}, maps: []c01MapDecl{{name: "tags", ty: 'a', prefix: []string{"ext"}, key: "tags"}}},
	{name: "places", syms: []c01SymDecl{
		{kind: "id", name: "id", ty: 's', linked: -1},
		{kind: "fld", name: "name", ty: 's', key: "name", linked: -1, gen: "str"},
		{kind: "fld", name: "pop", ty: 'i', key: "pop", linked: -1, gen: "int64"},
		{kind: "fld", name: "open", ty: 'b', key: "open", linked: -1, gen: "bool"},
		{kind: "fld", name: "owner", ty: 's', key: "owner", linked: 0, gen: "fk0"},
		{kind: "fld", name: "org", ty: 's', key: "org", linked: 2, gen: "fk2"},
		{kind: "set", name: "biz", ty: 's', key: "biz", linked: -1, gen: "strset"},
		{kind: "set", name: "orgs", ty: 's', key: "orgs", linked: 2, gen: "fkset2"},
		{kind: "set", name: "visitors", ty: 's', key: "visitors", linked: 0, gen: "fkset0"},
	}, maps: []c01MapDecl{{name: "tags", ty: 'a', key: "tags"}}},
	{name: "orgs", syms: []c01SymDecl{
		{kind: "id", name: "id", ty: 's', linked: -1},
		{kind: "fld", name: "name", ty: 's', key: "name", linked: -1, gen: "str"},
		{kind: "fld", name: "size", ty: 'i', key: "size", linked: -1, gen: "int32"},
		{kind: "set", name: "kinds", ty: 's', key: "kinds", linked: -1, gen: "strset"},
	}},
}

func c01NodeType(ty byte) ast.NodeType {
	switch ty {
	case 'b':
		return ast.NodeTypeBool
	case 'd':
		return ast.NodeTypeDatetime
	case 'f':
		return ast.NodeTypeFloat64
	case 'i':
		return ast.NodeTypeInt64
	case 's':
		return ast.NodeTypeString
	default:
		return ast.NodeTypeAnyType
	}
}

// c01BuildStores defines the stores of a schema variant under the given root bucket through the public API:
// root stores first, then every child store (StoreDefinition.Parent, plain or Extended()), parent.GrantSymbols(child),
// then the child's own symbols
func c01BuildStores(base string, raw []c01StoreDecl) []*boltz.BaseStore[boltz.Entity] {
	stores := make([]*boltz.BaseStore[boltz.Entity], len(raw))
	for i, sd := range raw {
		if !sd.isChild {
			def := (&boltz.StoreDefinition[boltz.Entity]{EntityType: sd.name}).WithBasePath(base)
			stores[i] = boltz.NewBaseStore(*def)
		}
	}
	define := func(i int) {
		sd, st := raw[i], stores[i]
		for _, s := range sd.syms {
			switch s.kind {
			case "id":
				st.AddIdSymbol(s.name, ast.NodeTypeString)
			case "fld":
				if s.linked >= 0 {
					st.AddFkSymbolWithKey(s.name, s.key, stores[s.linked], s.prefix...)
				} else {
					st.AddSymbolWithKey(s.name, c01NodeType(s.ty), s.key, s.prefix...)
				}
			case "set":
				var sym boltz.EntitySetSymbol
				if s.linked >= 0 {
					sym = st.AddFkSetSymbol(s.name, stores[s.linked])
				} else {
					sym = st.AddSetSymbol(s.name, c01NodeType(s.ty))
				}
				if s.idx {
					st.AddSetIndex(sym)
				}
			}
		}
		for _, m := range sd.maps {
			st.AddMapSymbol(m.name, c01NodeType(m.ty), m.key, m.prefix...)
		}
	}
	for i, sd := range raw {
		if !sd.isChild {
			define(i)
		}
	}
	// a link collection (people.places <-> places.visitors), as the entity stores of the suite define them
	stores[0].AddLinkCollection(stores[0].GetSymbol("places"), stores[1].GetSymbol("visitors"))
	for i, sd := range raw {
		if sd.isChild {
			def := boltz.StoreDefinition[boltz.Entity]{EntityType: sd.name, BasePath: append([]string{}, sd.path...), Parent: stores[sd.parent],
				ParentMapper: func(e boltz.Entity) boltz.Entity { return e }}
			stores[i] = boltz.NewBaseStore(def)
			if sd.ext {
				stores[i].Extended()
			}
			stores[sd.parent].GrantSymbols(stores[i])
			define(i)
		}
	}
	return stores
}

// c01SchemaLine: the S line of the current variant.  Child stores are listed with their OWN symbols; the trailer
// H <n> (<child> <parent> <extended> <npath> <path..>)* names them (the model derives what they expose and contain:
// child_decl / child_db in Ast/ChildStore.v); V <name> lets a replay rebuild the stores.
func c01SchemaLine() string {
	raw := c01Cur.raw
	var b strings.Builder
	fmt.Fprintf(&b, "S %d", len(raw))
	for _, sd := range raw {
		fmt.Fprintf(&b, " %d", len(sd.syms))
		for _, s := range sd.syms {
			lk := "-"
			if s.linked >= 0 {
				lk = strconv.Itoa(s.linked)
			}
			switch s.kind {
			case "id":
				fmt.Fprintf(&b, " id %s", hxs(s.name))
			case "fld":
				fmt.Fprintf(&b, " fld %s %c %d", hxs(s.name), s.ty, len(s.prefix))
				for _, p := range s.prefix {
					fmt.Fprintf(&b, " %s", hxs(p))
				}
				fmt.Fprintf(&b, " %s %s", hxs(s.key), lk)
			case "set":
				fmt.Fprintf(&b, " set %s %c %s %s", hxs(s.name), s.ty, hxs(s.key), lk)
			}
		}
		fmt.Fprintf(&b, " %d", len(sd.maps))
		for _, m := range sd.maps {
			fmt.Fprintf(&b, " %s %c %d", hxs(m.name), m.ty, len(m.prefix))
			for _, p := range m.prefix {
				fmt.Fprintf(&b, " %s", hxs(p))
			}
			fmt.Fprintf(&b, " %s", hxs(m.key))
		}
	}
	nchild := 0
	for _, sd := range raw {
		if sd.isChild {
			nchild++
		}
	}
	if nchild > 0 {
		fmt.Fprintf(&b, " H %d", nchild)
		for i, sd := range raw {
			if sd.isChild {
				fmt.Fprintf(&b, " %d %d %s %d", i, sd.parent, c01Bool(sd.ext), len(sd.path))
				for _, p := range sd.path {
					fmt.Fprintf(&b, " %s", hxs(p))
				}
			}
		}
	}
	if c01Cur.name != "base" {
		fmt.Fprintf(&b, " V %s", c01Cur.name)
	}
	return b.String()
}

// ---- values -------------------------------------------------------------------------------------

type c01Val struct {
	k   byte // n b w i f s t
	b   bool
	i   int64
	f   float64
	s   string
	sec int64
	ns  int64
	loc int // zone used when writing (irrelevant for the instant)
}

func (v c01Val) token() string {
	switch v.k {
	case 'n':
		return "n"
	case 'b':
		if v.b {
			return "b1"
		}
		return "b0"
	case 'w':
		return "w" + strconv.FormatInt(v.i, 10)
	case 'i':
		return "i" + strconv.FormatInt(v.i, 10)
	case 'f':
		return fmt.Sprintf("f%016x", math.Float64bits(v.f))
	case 's':
		return "s" + hxs(v.s)
	case 't':
		return fmt.Sprintf("t%d:%d", v.sec, v.ns)
	}
	panic("bad value kind")
}

type c01Field struct {
	path []string // bucket path below the entity bucket, last element = key
	v    c01Val
}

type c01Set struct {
	key   string
	elems []string // sorted, duplicate free
}

type c01Entity struct {
	id     string
	fields []c01Field
	sets   []c01Set
}

type c01Dataset struct {
	stores [][]c01Entity // per store, sorted by id
}

func (d *c01Dataset) line() string {
	var b strings.Builder
	fmt.Fprintf(&b, "D %d", len(d.stores))
	for _, ents := range d.stores {
		fmt.Fprintf(&b, " %d", len(ents))
		for _, e := range ents {
			fmt.Fprintf(&b, " %s %d", hxs(e.id), len(e.fields))
			for _, f := range e.fields {
				fmt.Fprintf(&b, " %d", len(f.path))
				for _, p := range f.path {
					fmt.Fprintf(&b, " %s", hxs(p))
				}
				fmt.Fprintf(&b, " %s", f.v.token())
			}
			fmt.Fprintf(&b, " %d", len(e.sets))
			for _, s := range e.sets {
				fmt.Fprintf(&b, " %s %d", hxs(s.key), len(s.elems))
				for _, el := range s.elems {
					fmt.Fprintf(&b, " s%s", hxs(el))
				}
			}
		}
	}
	return b.String()
}

var c01Zones = []*time.Location{time.UTC, time.FixedZone("p5", 5*3600), time.FixedZone("m330", -(3*3600 + 1800))}

// c01Write stores the dataset under the root bucket `base`
func c01Write(db *bbolt.DB, base string, d *c01Dataset) error {
	return db.Update(func(tx *bbolt.Tx) error {
		for si, ents := range d.stores {
			storeBucket := boltz.GetOrCreatePath(tx, base, c01Cur.raw[si].name)
			if storeBucket.HasError() {
				return storeBucket.GetError()
			}
			for _, e := range ents {
				eb := storeBucket.GetOrCreatePath(e.id)
				for _, f := range e.fields {
					b := eb
					if len(f.path) > 1 {
						b = eb.GetOrCreatePath(f.path[:len(f.path)-1]...)
					}
					key := f.path[len(f.path)-1]
					switch f.v.k {
					case 'n':
						b.SetNil(key)
					case 'b':
						b.SetBool(key, f.v.b, nil)
					case 'w':
						b.SetInt32(key, int32(f.v.i), nil)
					case 'i':
						b.SetInt64(key, f.v.i, nil)
					case 'f':
						b.SetFloat64(key, f.v.f, nil)
					case 's':
						b.SetString(key, f.v.s, nil)
					case 't':
						b.SetTime(key, time.Unix(f.v.sec, f.v.ns).In(c01Zones[f.v.loc%len(c01Zones)]), nil)
					}
					if b.HasError() {
						return b.GetError()
					}
				}
				for _, s := range e.sets {
					eb.SetStringList(s.key, s.elems, nil)
				}
				if eb.HasError() {
					return eb.GetError()
				}
			}
		}
		return nil
	})
}

func c01SortDedup(l []string) []string {
	sort.Strings(l)
	var out []string
	for i, s := range l {
		if i == 0 || s != l[i-1] {
			out = append(out, s)
		}
	}
	return out
}
