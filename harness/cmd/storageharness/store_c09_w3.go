package main

// C09 - third strengthening (design/C09.md, section 10):
//
//  (a) the grouping of the steps of a case into transactions (c09Mode in store_c09.go): the checker inspects entries
//      that were written earlier in the SAME, still uncommitted write transaction - by the API (the tail of the history
//      merged into one transaction: populate / update and check before commit), by the raw corruption writes, by its own
//      fix run (fix, then verify, then commit);
//  (b) schemas in which an Extended() and a plain child store carry NON-NULLABLE constraints on fields of their own
//      (unique index, fk index, fk constraint), over populations in which entities without child data sort before,
//      between and behind the entities of the child store.
//
// The wirings are registered through extraWirings and used by the C09 streams only; Examples/C09Wirings.v holds their
// schemas and the computed side conditions of the C09 theorems.

import (
	"fmt"
)

func init() {
	extraWirings["C09xu"] = wiringC09xu
	extraWirings["C09xf"] = wiringC09xf
}

// C09xu: parent store p with an EXTENDED child store px and a PLAIN child store pc.  Both child stores carry a
// non-nullable unique index on a field of their own (px.badge, pc.key), px a nullable one in addition; the parent keeps a
// unique index, a set index, a nullable fk index and a link collection, t is the other root store.
// (Inside wf_c09 and wf_all_b: unique indexes on a child store's own field, everything else on root stores.)
func wiringC09xu() *wiring {
	return &wiring{Name: "C09xu", Stores: []*sStore{
		{Name: "p", Fields: []sField{{Name: "name"}, {Name: "grp", Ptr: true}}, Sets: []string{"labels"}},
		{Name: "t", Fields: []sField{{Name: "title", Ptr: true}}},
		{Name: "px", Parent: "p", Ext: true, Fields: []sField{{Name: "badge"}, {Name: "alias", Ptr: true}}},
		{Name: "pc", Parent: "p", Fields: []sField{{Name: "key"}}},
	}, Script: []wiringDecl{
		{Kind: "unique", Store: "p", Field: "name"},
		{Kind: "setidx", Store: "p", Field: "labels"},
		{Kind: "fkindex", Store: "p", Field: "grp", Target: "t", Back: "grpd", Nullable: true},
		{Kind: "link", Store: "p", Field: "ts", Target: "t", Back: "ps"},
		{Kind: "unique", Store: "t", Field: "title", Nullable: true},
		{Kind: "unique", Store: "px", Field: "badge"},
		{Kind: "unique", Store: "px", Field: "alias", Nullable: true},
		{Kind: "unique", Store: "pc", Field: "key"},
	}}
}

// C09xf: the EXTENDED child store px carries, on fields of its own, a non-nullable fk index (px.home -> t), a nullable fk
// index (px.alt -> t), a non-nullable fk constraint (px.owner -> u) and a nullable one (px.peer -> u); the plain child
// store pc a non-nullable fk index (pc.site -> t).
// (fk jobs on child stores: outside wf_c09 - fix_convergent is proved for fk jobs on root stores only - so for this wiring
// the theorems that apply are check_sound / check_complete / check_readonly, which hold for every schema; convergence
// is judged by the oracle and by the correspondence with the model, whose definitions cover child stores.)
func wiringC09xf() *wiring {
	return &wiring{Name: "C09xf", Stores: []*sStore{
		{Name: "p", Fields: []sField{{Name: "name"}}},
		{Name: "t", Fields: []sField{{Name: "title", Ptr: true}}},
		{Name: "u", Fields: []sField{{Name: "label", Ptr: true}}},
		{Name: "px", Parent: "p", Ext: true, Fields: []sField{{Name: "home"}, {Name: "alt", Ptr: true}, {Name: "owner"}, {Name: "peer", Ptr: true}}},
		{Name: "pc", Parent: "p", Fields: []sField{{Name: "site"}}},
	}, Script: []wiringDecl{
		{Kind: "unique", Store: "p", Field: "name"},
		{Kind: "unique", Store: "t", Field: "title", Nullable: true},
		{Kind: "fkindex", Store: "px", Field: "home", Target: "t", Back: "homes"},
		{Kind: "fkindex", Store: "px", Field: "alt", Target: "t", Back: "alts", Nullable: true},
		{Kind: "fkcons", Store: "px", Field: "owner", Target: "u", Casc: "N"},
		{Kind: "fkcons", Store: "px", Field: "peer", Target: "u", Nullable: true, Casc: "N"},
		{Kind: "fkindex", Store: "pc", Field: "site", Target: "t", Back: "sites"},
	}}
}

var c09ChildWirings = []string{"C09xu", "C09xf"}

// ten ids: room for entities without child data before, between and behind the child store's entities
var c09WideIds = []string{"a", "b", "c", "d", "e", "f", "g", "h", "i", "j"}

// c09Populated: genPopulated, plus - for the child-store wirings - a population shaped on purpose: the ids are split
// into three blocks in key order and the first / middle / last block is created through the parent store only (no child
// data), the other blocks through the child stores
func (g *histGen) c09Populated(shape int) []hTx {
	txs := g.genPopulated()
	if shape < 0 {
		return txs
	}
	var parents []*sStore
	kids := map[string][]*sStore{}
	for _, s := range g.w.Stores {
		if s.Parent == "" {
			continue
		}
		if len(kids[s.Parent]) == 0 {
			parents = append(parents, g.w.store(s.Parent))
		}
		kids[s.Parent] = append(kids[s.Parent], s)
	}
	if len(parents) == 0 {
		return txs
	}
	n := len(g.ids)
	lo, hi := n/3, 2*n/3
	for _, p := range parents {
		for k, id := range g.ids {
			if g.alive[p.Name][id] || g.r.chance(25) {
				continue
			}
			block := 0
			if k >= hi {
				block = 2
			} else if k >= lo {
				block = 1
			}
			st := p // parent-only
			if block != shape%3 {
				st = kids[p.Name][g.r.intn(len(kids[p.Name]))]
			}
			op := hOp{Kind: "C", Store: st.Name, Id: id}
			g.fieldsValue(&op)
			g.alive[p.Name][id] = true
			txs = append(txs, hTx{Sys: true, Ops: []hOp{op}})
		}
	}
	return txs
}

// c09MergeTail: the transactions from position j on that commit on their own (no failing operation, no failing pre-commit
// action) become ONE transaction - the live transaction of an LCJ case; transactions that roll back leave no trace in the
// state and are dropped.  Which ones commit is found out by a dry run on a scratch database; the resulting case text is
// judged by the model on its own, so a wrong guess only costs coverage.
func c09MergeTail(w *wiring, txs []hTx, j int, dir string) ([]hTx, error) {
	h, err := openHarnessDb(w, dir)
	if err != nil {
		return nil, err
	}
	defer h.close()
	out := append([]hTx{}, txs[:j]...)
	live := hTx{Sys: true}
	for k := range txs {
		e := h.execTx(&txs[k])
		if k >= j && e == nil {
			live.Ops = append(live.Ops, txs[k].Ops...)
		}
	}
	return append(out, live), nil
}

// c09W3Streams: (1) every wiring in the three joint modes, (2) the child-store wirings in the separate-transactions mode
func c09W3Streams(o *opts, r *rng, prof *genProfile, tmp string, stats map[string]int,
	emitMode func(*wiring, []hTx, func([]string) []corruption, c09Mode) error,
	randomChoice func(*wiring, []string, int) func([]string) []corruption) error {
	nJoint, nChild := 270, 150
	if o.thorough() {
		nJoint, nChild = 1200, 600
	}
	nJoint = o.getInt("joint", nJoint)
	nChild = o.getInt("child", nChild)
	if o.n > 0 && o.get("joint", "") == "" {
		nJoint, nChild = 0, 0
	}
	history := func(name string, shape int) (*wiring, []string, []hTx) {
		w := wiringByName(name)
		w.derive()
		ids := prof.ids
		if len(w.Stores) > 0 && (name == "C09xu" || name == "C09xf") {
			ids = c09WideIds
		}
		p, ids := c09Universe(r, prof, ids) // plain universes or prefix chains (store_c09_w5.go)
		if p != prof {
			stats["chain_universe_histories"]++
		}
		g := &histGen{r: r, w: w, p: p, ids: ids}
		return w, ids, g.c09Populated(shape)
	}
	wirings := append(append([]string{}, prof.wirings...), c09ChildWirings...)
	modes := []string{"J", "CJ", "LCJ"}
	for i := 0; i < nJoint; i++ {
		name := wirings[i%len(wirings)]
		mode, _ := c09ParseMode(modes[(i/len(wirings))%len(modes)])
		shape := -1
		if name == "C09xu" || name == "C09xf" {
			shape = r.intn(4) - 1
		}
		w, ids, txs := history(name, shape)
		pZero := 0
		if mode.live {
			// everything from a random position on (40%: from the very first transaction: the whole database) is written
			// by the transaction that runs the check; half of these cases have no corruption at all
			j := 0
			if !r.chance(40) {
				j = r.intn(len(txs) + 1)
			}
			var err error
			if txs, err = c09MergeTail(w, txs, j, tmp); err != nil {
				return err
			}
			stats["live_ops"] += len(txs[len(txs)-1].Ops)
			pZero = 50
		}
		if err := emitMode(w, txs, randomChoice(w, ids, pZero), mode); err != nil {
			return fmt.Errorf("joint case %d (%s %s): %v", i, name, mode.name, err)
		}
		stats["joint_cases"]++
	}
	for i := 0; i < nChild; i++ {
		name := c09ChildWirings[i%len(c09ChildWirings)]
		w, ids, txs := history(name, r.intn(4)-1)
		if err := emitMode(w, txs, randomChoice(w, ids, 0), c09Mode{}); err != nil {
			return fmt.Errorf("child-wiring case %d (%s): %v", i, name, err)
		}
		stats["child_wiring_cases"]++
	}
	return nil
}
