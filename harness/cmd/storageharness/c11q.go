package main

import (
	"bytes"
	"fmt"
	"os"
	"path/filepath"
	"strconv"
	"strings"
	"time"
	"unicode/utf8"

	"github.com/openziti/storage/ast"
	"github.com/openziti/storage/boltz"
	"go.etcd.io/bbolt"
)

// C11, stream Q: the literal as operand of a comparison with STORED values, end to end through the real store
// path (boltz.BaseStore.QueryIds -> scanner -> rowCursorImpl.EvalString -> FieldToString) and, for comparison,
// through the ast-level symbol evaluation.
//
// Case line:   Q <path> <op> <ctx> <esc> <s> <k> <nd> <decoy>*nd <nr> <row>*nr
//
//	path  sym    name <op> ..           ast.Parse + Query.EvalBool over a one-symbol ast.Symbols (no store)
//	      name   name <op> ..           string field of the entity
//	      id     id <op> ..             the entity id (row value = id)
//	      fk     peer.name <op> ..      string field of the entity the fk field points to
//	      any    anyOf(tags) <op> ..    string set of the entity
//	      all    allOf(tags) <op> ..
//	      anyfk  anyOf(peers.name) ..   names of the entities an fk set points to
//	op    eq neq lt le gt ge contains ncontains icontains nicontains in notin
//	ctx   p plain | n not (..) | g ( .. ) | t .. and true | f .. or false | s .. sort by | l .. limit none |
//	      k .. skip 0 limit 1000 | z no optional blanks | w tabs / newlines as blanks
//	esc   min | full            which escaper writes the literals
//	s     the string whose literal is the operand; for in / notin the list is the decoys' literals with the
//	      literal of s inserted at position k
//	row   ~ (no value stored / no set) | hex (scalar) | hex,hex,.. (set elements)
//
// Observation: Q <one bit per row: row selected> <hex query text>   |  Q err <hex query> | Q panic <hex query>
type c11qEnv struct {
	db     *bbolt.DB
	file   string
	things boltz.ConfigurableStore
	peers  boltz.ConfigurableStore
	tx     *bbolt.Tx
	key    string
	ids    []string
	setups int
}

var c11qOps = []string{"eq", "neq", "lt", "le", "gt", "ge", "contains", "ncontains", "icontains", "nicontains", "in", "notin"}
var c11qPaths = []string{"sym", "name", "id", "fk", "any", "all", "anyfk"}
var c11qCtxs = []string{"p", "n", "g", "t", "f", "s", "l", "k", "z", "w"}

func c11qOpen(dir string) (*c11qEnv, error) {
	f := filepath.Join(dir, fmt.Sprintf("c11q-%d.db", os.Getpid()))
	_ = os.Remove(f)
	db, err := bbolt.Open(f, 0o600, &bbolt.Options{NoSync: true, NoFreelistSync: true, Timeout: 5 * time.Second})
	if err != nil {
		return nil, err
	}
	thingsDef := (&boltz.StoreDefinition[boltz.Entity]{EntityType: "things"}).WithBasePath("c11q")
	peersDef := (&boltz.StoreDefinition[boltz.Entity]{EntityType: "peers"}).WithBasePath("c11q")
	things := boltz.NewBaseStore(*thingsDef)
	peers := boltz.NewBaseStore(*peersDef)
	peers.AddIdSymbol("id", ast.NodeTypeString)
	peers.AddSymbol("name", ast.NodeTypeString)
	things.AddIdSymbol("id", ast.NodeTypeString)
	things.AddSymbol("name", ast.NodeTypeString)
	things.AddSymbol("descr", ast.NodeTypeString) // second string field, stream M
	things.AddSymbol("n", ast.NodeTypeInt64)
	things.AddSetSymbol("tags", ast.NodeTypeString)
	things.AddFkSymbol("peer", peers)
	things.AddFkSetSymbol("peers", peers)
	return &c11qEnv{db: db, file: f, things: things, peers: peers}, nil
}

func (e *c11qEnv) close() {
	if e.tx != nil {
		_ = e.tx.Rollback()
	}
	_ = e.db.Close()
	_ = os.Remove(e.file)
}

func c11qElems(row string) []string {
	if row == "~" {
		return nil
	}
	var out []string
	for _, h := range strings.Split(row, ",") {
		out = append(out, string(unhx(h)))
	}
	return out
}

// dataset writes the rows (inside a write transaction that is rolled back when the next dataset comes)
func (e *c11qEnv) dataset(path string, rows []string) error {
	key := path + " " + strings.Join(rows, " ")
	if e.tx != nil && key == e.key {
		return nil
	}
	if e.tx != nil {
		_ = e.tx.Rollback()
		e.tx = nil
	}
	tx, err := e.db.Begin(true)
	if err != nil {
		return err
	}
	e.tx, e.key, e.ids = tx, key, nil
	e.setups++
	tb := boltz.GetOrCreatePath(tx, "c11q", "things")
	pb := boltz.GetOrCreatePath(tx, "c11q", "peers")
	for i, row := range rows {
		id := fmt.Sprintf("r%03d", i)
		if path == "id" {
			id = string(unhx(row))
		}
		e.ids = append(e.ids, id)
		eb := tb.GetOrCreatePath(id)
		eb.SetInt64("n", int64(i), nil)
		switch path {
		case "name":
			if row != "~" {
				eb.SetString("name", string(unhx(row)), nil)
			}
		case "id":
			eb.SetString("name", id, nil)
		case "fk":
			pid := fmt.Sprintf("q%03d", i)
			eb.SetString("peer", pid, nil)
			peer := pb.GetOrCreatePath(pid)
			if row != "~" {
				peer.SetString("name", string(unhx(row)), nil)
			}
			if peer.Err != nil {
				return peer.Err
			}
		case "any", "all":
			if row != "~" {
				eb.SetStringList("tags", c11qElems(row), nil)
			}
		case "anyfk":
			if row != "~" {
				var pids []string
				for j, el := range c11qElems(row) {
					pid := fmt.Sprintf("q%03d_%02d", i, j)
					pids = append(pids, pid)
					peer := pb.GetOrCreatePath(pid)
					peer.SetString("name", el, nil)
					if peer.Err != nil {
						return peer.Err
					}
				}
				eb.SetStringList("peers", pids, nil)
			}
		}
		if eb.Err != nil {
			return eb.Err
		}
	}
	if tb.Err != nil {
		return tb.Err
	}
	return pb.Err
}

var c11qLhs = map[string]string{"sym": "name", "name": "name", "id": "id", "fk": "peer.name", "any": "anyOf(tags)",
	"all": "allOf(tags)", "anyfk": "anyOf(peers.name)"}
var c11qOpText = map[string]string{"eq": "=", "neq": "!=", "lt": "<", "le": "<=", "gt": ">", "ge": ">=", "contains": "contains",
	"ncontains": "not contains", "icontains": "icontains", "nicontains": "not icontains", "in": "in", "notin": "not in"}

func c11qLit(esc string, s []byte) string {
	if esc == "min" {
		return quote(escapeMin(s))
	}
	return quote(escapeFull(s))
}

// c11qQuery writes the filter text
func c11qQuery(path, op, ctx, esc string, s []byte, k int, decoys [][]byte) string {
	lhs := c11qLhs[path]
	lit := c11qLit(esc, s)
	sp, sep := " ", ", "
	open, cl := "[", "]"
	switch ctx {
	case "z":
		sp, sep = "", ","
	case "w":
		sp, sep = "\t\n", "\n,\t"
		open, cl = "[\t", "\r]"
	}
	var atom string
	switch op {
	case "eq", "neq", "lt", "le", "gt", "ge":
		atom = lhs + sp + c11qOpText[op] + sp + lit
	case "contains", "ncontains", "icontains", "nicontains":
		ws := " "
		if ctx == "w" {
			ws = "\t\n"
		}
		atom = lhs + ws + c11qOpText[op] + ws + lit
	case "in", "notin":
		var lits []string
		for i := 0; i <= len(decoys); i++ {
			if i == k {
				lits = append(lits, lit)
			}
			if i < len(decoys) {
				lits = append(lits, c11qLit(esc, decoys[i]))
			}
		}
		ws := " "
		if ctx == "w" {
			ws = "\n"
		}
		atom = lhs + ws + c11qOpText[op] + ws + open + strings.Join(lits, sep) + cl
	}
	sortField := "id"
	if path == "name" || path == "sym" {
		sortField = "name"
	}
	switch ctx {
	case "n":
		return "not (" + atom + ")"
	case "g":
		return "( " + atom + " )"
	case "t":
		return atom + " and true"
	case "f":
		return atom + " or false"
	case "s":
		return atom + " sort by " + sortField
	case "l":
		return atom + " limit none"
	case "k":
		return atom + " skip 0 limit 1000"
	}
	return atom
}

// run evaluates one case line (fields after the leading Q) and returns the observation
func (e *c11qEnv) run(f []string) (obs string) {
	path, op, ctx, esc := f[0], f[1], f[2], f[3]
	s := unhx(f[4])
	k, _ := strconv.Atoi(f[5])
	nd, _ := strconv.Atoi(f[6])
	var decoys [][]byte
	for _, h := range f[7 : 7+nd] {
		decoys = append(decoys, unhx(h))
	}
	rows := f[7+nd+1:]
	q := c11qQuery(path, op, ctx, esc, s, k, decoys)
	defer func() {
		if r := recover(); r != nil {
			obs = "panic " + hxs(q)
			if e.tx != nil { // the transaction may be unusable after a panic
				_ = e.tx.Rollback()
				e.tx = nil
			}
		}
	}()
	bits := make([]byte, len(rows))
	for i := range bits {
		bits[i] = '0'
	}
	if path == "sym" {
		query, err := ast.Parse(&oneString{}, q)
		if err != nil {
			return "err " + hxs(q)
		}
		for i, row := range rows {
			sym := &oneString{}
			if row != "~" {
				v := string(unhx(row))
				sym.val = &v
			}
			if query.EvalBool(sym) {
				bits[i] = '1'
			}
		}
		return string(bits) + " " + hxs(q)
	}
	if err := e.dataset(path, rows); err != nil {
		return "setuperr " + hxs(err.Error())
	}
	ids, _, err := e.things.QueryIds(e.tx, q)
	if err != nil {
		return "err " + hxs(q)
	}
	index := map[string]int{}
	for i, id := range e.ids {
		index[id] = i
	}
	for _, id := range ids {
		i, ok := index[id]
		if !ok || bits[i] == '1' {
			return "badids " + hxs(q) // an id that is no row, or a row twice
		}
		bits[i] = '1'
	}
	return string(bits) + " " + hxs(q)
}

// ---- generators -------------------------------------------------------------------------------------------

// words of the filter language and names of the schema, which a string VALUE may well spell
var c11qKeywords = []string{"not", "and", "or", "in", "not in", "between", "not between", "contains", "not contains",
	"icontains", "not icontains", "null", "true", "false", "limit", "limit none", "limit 1", "skip", "skip 1", "sort by",
	"sort by name desc", "asc", "desc", "anyOf", "allOf", "anyOf(tags)", "count", "isEmpty", "from", "where", "none",
	"datetime(", "id", "name", "tags", "peer.name"}

// pieces of filter syntax
var c11qQueryLike = []string{`name = "x"`, `" or name != "`, `"] or name not in ["`, `x" and true or name = "y`,
	`not (name = "a")`, `["a", "b"]`, `a", "b`, `[`, `]`, `(`, `)`, `,`, `'name'`, `=`, `!=`, `<=`, `>`, `\" or \"`,
	`name in ["not"]`, `true or false`, `x limit 1`, `a sort by id`, `x not in [y]`, `a and b`, `a or b`, `not a`,
	`from things where true`, `isEmpty(tags)`, `count(tags) > 0`, `datetime(2020-01-01T00:00:00Z)`, `-1`, `1.5e3`, `0`}

var c11qFill = []string{"", "x", "k", "Z", " ", "-", "_", "1", "e", "book", "s"}

func c11qCase(w string, mode int) string {
	b := []byte(w)
	for i := range b {
		c := b[i]
		if !(c >= 'a' && c <= 'z' || c >= 'A' && c <= 'Z') {
			continue
		}
		lower, upper := c|0x20, c&^0x20
		switch mode {
		case 0:
			b[i] = lower
		case 1:
			b[i] = upper
		case 2:
			if i == 0 {
				b[i] = upper
			} else {
				b[i] = lower
			}
		default:
			if i%2 == 0 {
				b[i] = lower
			} else {
				b[i] = upper
			}
		}
	}
	return string(b)
}

// boundary strings as stored values; the ones without a literal are stored only
func c11qBoundary(thorough bool) [][]byte {
	b := [][]byte{{}, []byte(" "), []byte("  "), []byte("\t"), []byte("\n"), []byte("\r\n"), []byte("\f"), []byte(`"`), []byte(`""`),
		[]byte(`\`), []byte(`\\`), []byte(`\"`), []byte("\x00"), []byte("\x01"), []byte("\x02"), []byte("\x1f"), []byte("\x7f"), []byte("é"),
		[]byte("\xff"), []byte("\xc3"), []byte("a"), []byte("A"), []byte("0"), []byte("null"), []byte("nil"),
		bytes.Repeat([]byte("a"), 300), bytes.Repeat([]byte(`"\`), 40)}
	if thorough {
		b = append(b, bytes.Repeat([]byte("ab "), 1500), bytes.Repeat([]byte{0}, 64))
	}
	return b
}

// c11qExpressible: s has a literal with this escaper (and is UTF-8: the parser reads the filter as runes)
func c11qExpressible(esc string, s []byte) bool {
	if !utf8.Valid(s) {
		return false
	}
	for _, ch := range s {
		if ch < 32 && !(esc == "full" && (ch == 9 || ch == 10 || ch == 12 || ch == 13)) {
			return false
		}
	}
	return true
}

func c11qDedup(c [][]byte) [][]byte {
	seen := map[string]bool{}
	var out [][]byte
	for _, x := range c {
		if !seen[string(x)] {
			seen[string(x)] = true
			out = append(out, x)
		}
	}
	return out
}

// c11qRows turns candidate values into the row tokens of a path ("" result: the path cannot hold them)
func c11qRows(path string, cands [][]byte) []string {
	cands = c11qDedup(cands)
	var rows []string
	switch path {
	case "sym", "name", "fk":
		for _, c := range cands {
			rows = append(rows, hx(c))
		}
		rows = append(rows, "~")
	case "id":
		for _, c := range cands {
			if len(c) > 0 && len(c) <= 1000 {
				rows = append(rows, hx(c))
			}
		}
	default: // sets
		if len(cands) > 14 {
			cands = cands[:14]
		}
		n := len(cands)
		set := func(xs ...[]byte) string {
			var hs []string
			for _, x := range c11qDedup(xs) {
				hs = append(hs, hx(x))
			}
			return strings.Join(hs, ",")
		}
		for i := 0; i < n; i++ {
			rows = append(rows, set(cands[(i+1)%n], cands[i]))
		}
		for i := 0; i < n && i < 3; i++ {
			rows = append(rows, set(cands[i]))
		}
		rows = append(rows, "~", set(cands...))
	}
	return rows
}

type c11qGen struct {
	env   *c11qEnv
	cases *lineWriter
	impl  *lineWriter
	stats map[string]int
}

func (g *c11qGen) emitFields(f []string) {
	g.cases.line("Q %s", strings.Join(f, " "))
	g.impl.line("Q %s", g.env.run(f))
	g.stats["Q"]++
	g.stats["Q_path_"+f[0]]++
	g.stats["Q_op_"+f[1]]++
	g.stats["Q_ctx_"+f[2]]++
}

func (g *c11qGen) emit(path, op, ctx, esc string, s []byte, k int, decoys [][]byte, cands [][]byte) {
	if !c11qExpressible(esc, s) {
		return
	}
	for _, d := range decoys {
		if !c11qExpressible(esc, d) {
			return
		}
	}
	if op != "in" && op != "notin" {
		k, decoys = 0, nil
	}
	rows := c11qRows(path, cands)
	if len(rows) == 0 {
		return
	}
	f := []string{path, op, ctx, esc, hx(s), strconv.Itoa(k), strconv.Itoa(len(decoys))}
	for _, d := range decoys {
		f = append(f, hx(d))
	}
	f = append(f, strconv.Itoa(len(rows)))
	f = append(f, rows...)
	g.emitFields(f)
}

// c11qCands: the value, its near misses (as for the E cases), the empty string and a blank
func c11qCands(s []byte, extra ...[]byte) [][]byte {
	c := append(c11Candidates(s), extra...)
	c = append(c, []byte{}, []byte(" "))
	return c11qDedup(c)
}

func (g *c11qGen) decoys(r *rng, esc string, s []byte, pool [][]byte) (int, [][]byte) {
	nd := r.intn(4)
	var d [][]byte
	near := c11Candidates(s)
	for i := 0; i < nd; i++ {
		var x []byte
		if r.chance(40) {
			x = near[r.intn(len(near))]
		} else {
			x = pool[r.intn(len(pool))]
		}
		if !bytes.Equal(x, s) && c11qExpressible(esc, x) {
			d = append(d, x)
		}
	}
	return r.intn(len(d) + 1), d
}

func (g *c11qGen) random(r *rng, s []byte, cands [][]byte, pool [][]byte, n int) {
	for i := 0; i < n; i++ {
		path := c11qPaths[r.intn(len(c11qPaths))]
		op := c11qOps[r.intn(len(c11qOps))]
		if r.chance(30) {
			op = []string{"in", "notin"}[r.intn(2)]
		}
		ctx := c11qCtxs[r.intn(len(c11qCtxs))]
		esc := []string{"min", "full"}[r.intn(2)]
		if !c11qExpressible(esc, s) {
			esc = "full"
		}
		k, d := g.decoys(r, esc, s, pool)
		g.emit(path, op, ctx, esc, s, k, d, cands)
	}
}

func (g *c11qGen) all(o *opts, r *rng) {
	thorough := o.thorough()
	var pool [][]byte
	for _, w := range c11qKeywords {
		pool = append(pool, []byte(w), []byte(c11qCase(w, 2)))
	}
	for _, w := range c11qQueryLike {
		pool = append(pool, []byte(w))
	}

	// (b) boundary strings as stored values, every path and operator
	bnd := c11qBoundary(thorough)
	for _, s := range bnd {
		cands := append([][]byte{s}, bnd...)
		for _, path := range c11qPaths {
			for _, op := range c11qOps {
				g.emit(path, op, "p", "full", s, 0, nil, cands)
				if thorough {
					g.emit(path, op, "p", "min", s, 0, nil, cands)
				}
			}
		}
		g.random(r, s, cands, bnd, 8)
	}

	// (a) values that spell words of the filter language / pieces of filter syntax
	var words [][]byte
	for _, w := range c11qKeywords {
		for mode := 0; mode < 4; mode++ {
			words = append(words, []byte(c11qCase(w, mode)))
		}
	}
	words = c11qDedup(words)
	for _, w := range c11qQueryLike {
		words = append(words, []byte(w))
	}
	for _, s := range words {
		cands := c11qCands(s, []byte(c11qCase(string(s), 2)), []byte(c11qCase(string(s), 3)))
		for _, path := range c11qPaths {
			for _, op := range c11qOps {
				g.emit(path, op, "p", "full", s, 0, nil, cands)
			}
		}
		g.random(r, s, cands, pool, 8)
	}
	// ... embedded in longer words
	nEmb := 3
	if thorough {
		nEmb = 12
	}
	for _, w := range c11qKeywords {
		for j := 0; j < nEmb; j++ {
			s := []byte(c11qFill[r.intn(len(c11qFill))] + c11qCase(w, r.intn(4)) + c11qFill[r.intn(len(c11qFill))])
			g.random(r, s, c11qCands(s), pool, 8)
		}
	}
	// ... and combined
	nComb := 300
	if thorough {
		nComb = 6000
	}
	for i := 0; i < nComb; i++ {
		var b []byte
		for j, np := 0, 1+r.intn(4); j < np; j++ {
			if j > 0 {
				b = append(b, []string{"", " ", " ", "\t", "\"", "\\"}[r.intn(6)]...)
			}
			switch r.intn(3) {
			case 0:
				b = append(b, c11qCase(c11qKeywords[r.intn(len(c11qKeywords))], r.intn(4))...)
			case 1:
				b = append(b, c11qQueryLike[r.intn(len(c11qQueryLike))]...)
			default:
				b = append(b, c11qFill[r.intn(len(c11qFill))]...)
			}
		}
		g.random(r, b, c11qCands(b), pool, 4)
	}
	// strings over the escape alphabet through the store paths
	nEsc := 400
	if thorough {
		nEsc = 8000
	}
	for i := 0; i < nEsc; i++ {
		var s []byte
		for j, l := 0, r.intn(10); j < l; j++ {
			s = append(s, c11Wide[r.intn(len(c11Wide))]...)
		}
		g.random(r, s, c11qCands(s), pool, 3)
	}
	g.stats["Q_datasets"] = g.env.setups
}
