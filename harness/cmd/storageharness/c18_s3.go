package main

import (
	"bytes"
	"fmt"
	"os"
	"path/filepath"
	"runtime"
	"runtime/debug"
	"sort"
	"strconv"
	"strings"
	"sync"
	"sync/atomic"
	"time"

	"github.com/openziti/storage/boltz"
	"go.etcd.io/bbolt"
)

// C18, third strengthening.  Two classes of use the workload did not contain:
//
// (a) a writer whose multi-operation transaction is COMPOSED of Db calls that join the running
//     transaction - Db.Update(ctx, ...) / Db.Batch(ctx, ...) with the MutateContext of the outer call,
//     also two levels deep, Db.RootBucket(tx) - while a RestoreSnapshot / RestoreFromReader arrives and
//     readers keep reading.  Every Db entry point that takes the reload read lock must not take it again
//     on the goroutine of a transaction that already holds it: sync.RWMutex lets no new reader in once a
//     writer (the restore) waits, so the second RLock waits for the restore and the restore for the first.
//       "D <outer> <steps> <at> <rkind> <readers>"   one transaction on a small database of its own:
//           outer  update | batch                     how the transaction is opened
//           steps  letters, one per step               p plain write through ctx.Tx()
//                                                      u Db.Update(ctx)   b Db.Batch(ctx)
//                                                      n Db.Update(ctx) inside Db.Update(ctx)
//                                                      r Db.RootBucket(tx), then a write
//           at     the restore of a snapshot taken before the transaction is started - and seen to be
//                  waiting for the lock - before this step; -1: no restore
//           rkind  snapshot | reader                   RestoreSnapshot / RestoreFromReader
//           readers  goroutines that run read transactions meanwhile
//       observation "D ok <g> <n>": everything finished, n steps ran, the final read transaction saw the
//       restored file (g = 1) or the transaction's content (g = 0); "D stuck <where>" after the time limit.
//       Model: Db/LockTable.v lock_scenario (the RwLock.v system of C17 run on exactly this schedule).
//     The writer of the main workload uses the same forms (trailing tokens of the W line: "form <f> at <k>
//     <rkind>"; the model ignores them): the operations of one transaction go through nested calls, and
//     a transaction that is going to roll back may have the snapshot of the state before it restored while
//     it is open (restoring the current committed state changes no version).  "R <rkind>" = the current
//     state is streamed out and restored between two writer transactions, readers running.
//
// (b) values that outlive their read transaction.  What a reader obtained - an entity from FindById /
//     LoadById / LoadEntity, field values read from the entity bucket, a map with nested map and list from
//     GetMap, the id lists of queries - is a picture of the version it was read from and has to stay that
//     picture: the reader keeps some of them, the writer goes on committing, the database is restored, and
//     the kept value must still render as it did inside its transaction.
//       "K <reader> <tx> <version> <commits> <restores> <what...>"   kept value re-read after that many
//           later commits and restores: "K same" | "K changed <now> <then>" | "K fault <message>"
//       Model: Mvcc - an observation, once made, is never altered (Properties/C18.v kept_observations_persist).
//     In a replay "K ..." loads and keeps the value (what = a query) and "KC <restore>" re-reads all kept ones.

// ---- (b) kept values ---------------------------------------------------------------------------------

// c18s3Keep collects, during the evaluation of one query, closures that re-render what the query handed
// to the caller (the objects themselves are retained by the closures)
type c18s3Keep struct {
	fns []func() string
}

func (k *c18s3Keep) add(f func() string) {
	if k != nil {
		k.fns = append(k.fns, f)
	}
}

func (k *c18s3Keep) ids(ids []string) {
	if k != nil {
		k.fns = append(k.fns, func() string { return c18Ids2(ids) })
	}
}

type c18s3Kept struct {
	tx       int
	version  int64
	commits  int64 // writer commits / restores seen when the value was loaded
	restores int64
	what     string
	render   func() string
	atLoad   string
}

type c18s3KRec struct {
	reader, tx        int
	version           int64
	commits, restores int64
	what, obs         string
}

type c18s3Keeper struct {
	reader int
	kept   []c18s3Kept
	recs   []c18s3KRec
}

// c18s3Render re-reads a kept value.  Memory that was handed out without a copy may be unmapped by now:
// the fault becomes a panic of this goroutine (SetPanicOnFault) and an observation.
func c18s3Render(f func() string) (s string) {
	old := debug.SetPanicOnFault(true)
	defer debug.SetPanicOnFault(old)
	defer func() {
		if r := recover(); r != nil {
			s = "K fault " + hxs(fmt.Sprint(r))
		}
	}()
	return f()
}

const c18s3MaxKept = 24

// keep: called inside the read transaction, after the query was evaluated
func (kp *c18s3Keeper) keep(w *c18World, tx int, version int64, what string, k *c18s3Keep) {
	if k == nil || len(k.fns) == 0 || len(kp.kept) >= c18s3MaxKept {
		return
	}
	for _, f := range k.fns {
		kp.kept = append(kp.kept, c18s3Kept{tx: tx, version: version, commits: atomic.LoadInt64(&w.commits),
			restores: atomic.LoadInt64(&w.restores), what: what, render: f, atLoad: f()})
	}
}

// check: outside of any transaction; values that have seen minAge later commits are read again
func (kp *c18s3Keeper) check(w *c18World, minAge int64) {
	commits, restores := atomic.LoadInt64(&w.commits), atomic.LoadInt64(&w.restores)
	rest := kp.kept[:0]
	for _, k := range kp.kept {
		if commits-k.commits < minAge {
			rest = append(rest, k)
			continue
		}
		obs := "K same"
		if now := c18s3Render(k.render); now != k.atLoad {
			obs = now
			if !strings.HasPrefix(now, "K fault") {
				obs = "K changed " + hxs(now) + " " + hxs(k.atLoad)
			}
		}
		kp.recs = append(kp.recs, c18s3KRec{reader: kp.reader, tx: k.tx, version: k.version, commits: commits - k.commits,
			restores: restores - k.restores, what: k.what, obs: obs})
	}
	kp.kept = rest
}

// ---- the info map: written by the writer next to the version marker, read by every read transaction ----

func c18s3Stamp(version int64) string {
	return fmt.Sprintf("version-%06d-%s", version, strings.Repeat(string(rune('a'+version%26)), 24))
}

func c18s3Info(version int64) map[string]interface{} {
	return map[string]interface{}{
		"stamp": c18s3Stamp(version),
		"n":     version,
		"who":   map[string]interface{}{"stamp": c18s3Stamp(version + 1), "odd": version%2 == 1},
		"hist":  []interface{}{c18s3Stamp(version + 2), version, c18s3Stamp(version + 3)},
	}
}

// c18s3TypedInfo: what the typed getters return for the fields stored next to the map (a string list is a set:
// it comes back in key order)
func c18s3TypedInfo(version int64) map[string]interface{} {
	// more than a quarter of a page of keys: bbolt then gives the list bucket pages of its own (what it hands
	// out for a small, inline bucket is often a heap copy - it clones an inline bucket that is not 8-byte aligned)
	var l []string
	for i := int64(0); i < 36; i++ {
		l = append(l, c18s3Stamp(version+5+i*7))
	}
	sort.Strings(l)
	return map[string]interface{}{"s": c18s3Stamp(version + 4), "l": l}
}

func c18s3PutInfo(tx *bbolt.Tx, version int64) error {
	b := boltz.GetOrCreatePath(tx, "r")
	b.PutMap("info", c18s3Info(version), nil, true)
	t := b.GetOrCreateBucket("typed")
	ti := c18s3TypedInfo(version)
	t.SetString("s", ti["s"].(string), nil)
	t.SetStringList("l", ti["l"].([]string), nil)
	if t.HasError() {
		return t.GetError()
	}
	return b.GetError()
}

// c18s3LoadInfo: (nil, true) before the first commit; ok = the value is the one of that version.  The map of
// GetMap plus, under "typed", what GetString / GetStringWithDefault / GetStringOrError / GetStringList return.
func c18s3LoadInfo(tx *bbolt.Tx, version int64) (map[string]interface{}, bool) {
	b := boltz.Path(tx, "r")
	if b == nil || b.GetBucket("info") == nil {
		return nil, version == 0
	}
	m := b.GetMap("info")
	want := c18s3Info(version)
	if t := b.GetBucket("typed"); t != nil {
		var sp string
		if p := t.GetString("s"); p != nil {
			sp = *p
		}
		m["typed"] = map[string]interface{}{"s": sp, "sd": t.GetStringWithDefault("s", "none"), "se": t.GetStringOrError("s"), "l": t.GetStringList("l")}
		ti := c18s3TypedInfo(version)
		want["typed"] = map[string]interface{}{"s": ti["s"], "sd": ti["s"], "se": ti["s"], "l": ti["l"]}
	}
	return m, fmt.Sprint(m) == fmt.Sprint(want)
}

// ---- more ways to load an entity (all answer the model's QLoad) -----------------------------------------

func c18s3ItemString(e *csItem) string {
	g := "nil"
	if e.Group != nil {
		g = hxs(*e.Group)
	}
	out := fmt.Sprintf("Q item %s %s %s %d %d", hxs(e.Id), hxs(e.Name), g, e.Val, len(e.Tags))
	for _, t := range e.Tags {
		out += " " + hxs(t)
	}
	return out
}

var c18s3LoadKinds = []string{"load", "loadby", "loadent", "loadraw"}

func c18s3EvalLoad(s *csStores, tx *bbolt.Tx, q c18Query, keep *c18s3Keep) (string, bool) {
	var e *csItem
	switch q.kind {
	case "load":
		x, found, err := s.item.FindById(tx, q.a)
		if err != nil {
			return "Q error " + hxs(err.Error()), true
		}
		if !found {
			return "Q item none", true
		}
		e = x
	case "loadby":
		x, err := s.item.LoadById(tx, q.a)
		if err != nil {
			if boltz.IsErrNotFoundErr(err) {
				return "Q item none", true
			}
			return "Q error " + hxs(err.Error()), true
		}
		e = x
	case "loadent":
		x := &csItem{}
		found, err := s.item.LoadEntity(tx, q.a, x)
		if err != nil {
			return "Q error " + hxs(err.Error()), true
		}
		if !found {
			return "Q item none", true
		}
		e = x
	case "loadraw":
		b := s.item.GetEntityBucket(tx, []byte(q.a))
		if b == nil {
			return "Q item none", true
		}
		e = &csItem{Id: q.a, Name: b.GetStringOrError(csFieldName), Group: b.GetString(csFieldGroup),
			Val: b.GetInt64WithDefault(csFieldVal, 0), Tags: b.GetStringList(csFieldTags)}
		if b.HasError() {
			return "Q error " + hxs(b.GetError().Error()), true
		}
	case "tagm", "tagany":
		// the ids of a set-index value as strings, through the two list builders of the store
		var ids []string
		if q.kind == "tagm" {
			ids = s.item.FindMatching(tx, s.item.idxTags, []string{q.a})
		} else {
			ids = s.item.FindMatchingAnyOf(tx, s.item.idxTags, []string{q.a})
		}
		keep.ids(ids)
		return c18Ids2(ids), true
	default:
		return "", false
	}
	keep.add(func() string { return c18s3ItemString(e) })
	return c18s3ItemString(e), true
}

// ---- (a) writer forms ----------------------------------------------------------------------------------

var c18s3Forms = []string{"flat", "nu", "nb", "deep", "root", "bu"}

type c18s3Form struct {
	name  string
	at    int       // a restore of the state before the transaction is pending before this operation; -1: none
	rkind string    // snapshot | reader
	fail  c18s6Fail // the transaction fails part-way (c18_s6.go); trailing tokens "fail <kind> <k>"
}

func (f c18s3Form) String() string {
	if f.name == "" || (f.name == "flat" && f.at < 0 && f.fail.kind == "") {
		return ""
	}
	rk := f.rkind
	if rk == "" {
		rk = "snapshot"
	}
	s := fmt.Sprintf(" form %s at %d %s", f.name, f.at, rk)
	if f.fail.kind != "" {
		s += fmt.Sprintf(" fail %s %d", f.fail.kind, f.fail.k)
	}
	return s
}

// c18s3ParseForm: the trailing tokens of a W line ("form <name> at <k> <rkind>")
func c18s3ParseForm(f []string) c18s3Form {
	for i := range f {
		if f[i] == "form" && i+3 < len(f) && f[i+2] == "at" {
			at, _ := strconv.Atoi(f[i+3])
			form := c18s3Form{name: f[i+1], at: at, rkind: "snapshot"}
			if i+4 < len(f) {
				form.rkind = f[i+4]
			}
			if i+7 < len(f) && f[i+5] == "fail" {
				form.fail.kind = f[i+6]
				form.fail.k, _ = strconv.Atoi(f[i+7])
			}
			return form
		}
	}
	return c18s3Form{name: "flat", at: -1, rkind: "snapshot"}
}

// c18s3Joined runs f as one step of the transaction carried by ctx, the way the form says
func c18s3Joined(db *boltz.DbImpl, form string, ctx boltz.MutateContext, f func(ctx boltz.MutateContext) error) error {
	switch form {
	case "nu", "bu":
		return db.Update(ctx, f)
	case "nb":
		return db.Batch(ctx, f)
	case "deep":
		return db.Update(ctx, func(c boltz.MutateContext) error { return db.Update(c, f) })
	case "root":
		_, _ = db.RootBucket(ctx.Tx()) // the root bucket does not exist before the first commit
		return db.Update(ctx, f)
	}
	return f(ctx)
}

// c18s3Stall: what the writer is waiting for; the stall watchdog turns "no progress" into exit status 9
type c18s3Stall struct {
	beat  atomic.Int64
	desc  atomic.Value // string: a D line equivalent to what is running
	armed atomic.Bool
}

var c18s3StallState c18s3Stall

func c18s3Beat(desc string) {
	c18s3StallState.desc.Store(desc)
	c18s3StallState.beat.Add(1)
}

func c18s3StallWatchdog(out string, limit time.Duration) {
	last, lastChange := int64(-1), time.Now()
	seen := 0
	ignore := c18s3StuckEarlier()
	for {
		time.Sleep(200 * time.Millisecond)
		b := c18s3StallState.beat.Load()
		if b != last || !c18s3StallState.armed.Load() {
			last, lastChange, seen = b, time.Now(), 0
			continue
		}
		if time.Since(lastChange) < limit {
			continue
		}
		// no progress: is the writer waiting for the reload lock from inside its own transaction?
		frames := c18s3LockedInsideTx(ignore)
		if frames == "" {
			seen = 0
			continue
		}
		if seen++; seen < 3 {
			continue
		}
		desc, _ := c18s3StallState.desc.Load().(string)
		buf := make([]byte, 1<<16)
		n := runtime.Stack(buf, true)
		_ = os.WriteFile(filepath.Join(out, "DEADLOCK.txt"), []byte(desc+"\n"+frames+"\n"), 0o644)
		fmt.Fprintf(os.Stderr, "c18: the writer made no progress for %v and waits for the reload lock inside its transaction (%s): %s\n%s\n", limit, frames, desc, buf[:n])
		os.Exit(9)
	}
}

// c18s3Restore replaces the database by the given snapshot; a failed restore panics in boltz
func c18s3Restore(db *boltz.DbImpl, rkind string, snap []byte) (err error) {
	defer func() {
		if r := recover(); r != nil {
			err = fmt.Errorf("restore panicked: %v", r)
		}
	}()
	if rkind == "reader" {
		db.RestoreFromReader(bytes.NewReader(snap))
	} else {
		db.RestoreSnapshot(snap)
	}
	return nil
}

// c18s3Goroutines: the stack of every goroutine, one string each
func c18s3Goroutines() []string {
	buf := make([]byte, 1<<20)
	n := runtime.Stack(buf, true)
	return strings.Split(string(buf[:n]), "\n\n")
}

func c18s3WaitsForRWMutex(g string) bool {
	head, _, _ := strings.Cut(g, "\n")
	return strings.Contains(head, "RWMutex") || strings.Contains(g, "sync.runtime_SemacquireRWMutex")
}

// c18s3RestorePending: a goroutine inside Db.RestoreFromReader is blocked in RWMutex.Lock - it has announced
// itself, so from now on the lock admits no new reader
func c18s3RestorePending(ignore map[string]bool) bool {
	for _, g := range c18s3Goroutines() {
		if !ignore[c18s3GoroutineId(g)] && strings.Contains(g, "RestoreFromReader") && strings.Contains(g, "sync.(*RWMutex).Lock") && c18s3WaitsForRWMutex(g) {
			return true
		}
	}
	return false
}

// c18s3LockedInsideTx: a goroutine that is executing the function of a bbolt transaction (so the Db entry point
// that opened it holds the reload lock) waits for that lock again; returns the frames, "" when there is none
func c18s3LockedInsideTx(ignore map[string]bool) string {
	for _, g := range c18s3Goroutines() {
		if ignore[c18s3GoroutineId(g)] || !c18s3WaitsForRWMutex(g) || !(strings.Contains(g, "sync.(*RWMutex).RLock") || strings.Contains(g, "sync.(*RWMutex).Lock")) {
			continue
		}
		k := strings.Index(g, "sync.(*RWMutex).")
		if rest := g[k:]; strings.Contains(rest, "go.etcd.io/bbolt.(*DB).Update") || strings.Contains(rest, "go.etcd.io/bbolt.(*DB).View") ||
			strings.Contains(rest, "go.etcd.io/bbolt.(*batch).run") || strings.Contains(rest, "go.etcd.io/bbolt.(*DB).Batch") {
			var fr []string
			for _, l := range strings.Split(rest, "\n") {
				if !strings.HasPrefix(l, "\t") && l != "" {
					if p := strings.LastIndex(l, "("); p > 0 {
						l = l[:p]
					}
					fr = append(fr, l[strings.LastIndex(l, "/")+1:])
				}
			}
			if len(fr) > 8 {
				fr = fr[:8]
			}
			return strings.Join(fr, " <- ")
		}
	}
	return ""
}

// c18s3GoroutineId: "goroutine 12 [semacquire]:..." -> "12"
func c18s3GoroutineId(g string) string {
	f := strings.Fields(g)
	if len(f) > 1 && f[0] == "goroutine" {
		return f[1]
	}
	return ""
}

// c18s3StuckEarlier: the goroutines of abandoned scenarios, which wait for ever
func c18s3StuckEarlier() map[string]bool {
	ignore := map[string]bool{}
	for _, g := range c18s3Goroutines() {
		if c18s3WaitsForRWMutex(g) {
			ignore[c18s3GoroutineId(g)] = true
		}
	}
	return ignore
}

// c18s3WaitPending: true once a restore started on another goroutine is waiting for the reload lock
func c18s3WaitPending(ignore map[string]bool, done <-chan struct{}) bool {
	for t := 0; t < 4000; t++ {
		select {
		case <-done:
			return false
		default:
		}
		if c18s3RestorePending(ignore) {
			return true
		}
		time.Sleep(250 * time.Microsecond)
	}
	return false
}

// c18s3WriterTx: one writer transaction in the given form.  snap (the state before the transaction) is
// needed when form.at >= 0.
func (w *c18World) c18s3WriterTx(form c18s3Form, snap []byte, ops []c18Op, commit bool, version, count int64) error {
	marker := func(ctx boltz.MutateContext) error { return c18s6PutMarker(ctx.Tx(), version, count) }
	var restoreDone chan struct{}
	var restoreErr error
	desc := func(i int) string {
		steps := ""
		for range ops {
			steps += c18s3FormLetter(form.name)
		}
		outer := "update"
		if form.name == "bu" || form.name == "cb" {
			outer = "batch"
		}
		return fmt.Sprintf("D %s %s %d %s 0", outer, steps+c18s3FormLetter(form.name), form.at, form.rkind)
	}
	body := func(ctx boltz.MutateContext) error {
		for i, o := range ops {
			if i == form.at && snap != nil && restoreDone == nil {
				restoreDone = make(chan struct{})
				go func() {
					restoreErr = c18s3Restore(w.db, form.rkind, snap)
					close(restoreDone)
				}()
				c18s3WaitPending(w.stuckEarlier, restoreDone)
			}
			c18s3Beat(desc(i))
			// a transaction that is to fail part-way (c18_s6.go): the caller's own error / a pre-commit action
			if err := c18s6Step(ctx, form.fail, i); err != nil {
				return err
			}
			o := o
			if err := c18s3Joined(w.db, form.name, ctx, func(c boltz.MutateContext) error { return w.apply(c, o) }); err != nil {
				return err
			}
		}
		c18s3Beat(desc(len(ops)))
		if err := c18s6Step(ctx, form.fail, len(ops)); err != nil {
			return err
		}
		if form.fail.natural() {
			return errC18s6Missed // one of the operations was to fail in the store
		}
		if err := c18s3Joined(w.db, form.name, ctx, marker); err != nil {
			return err
		}
		if form.fail.kind == "precommit" {
			return nil // the pre-commit action registered above fails after the last write
		}
		if !commit {
			return errC18Rollback
		}
		return nil
	}
	var err error
	if form.name == "bu" || form.name == "cb" {
		err = w.db.Batch(nil, body)
	} else {
		err = w.db.Update(nil, body)
	}
	if restoreDone != nil {
		c18s3Beat(desc(len(ops)) + " (transaction finished, waiting for the restore)")
		<-restoreDone
		atomic.AddInt64(&w.restores, 1)
		if restoreErr != nil && err == nil {
			err = restoreErr
		}
	}
	c18s3Beat("between transactions")
	return err
}

func c18s3FormLetter(form string) string {
	switch form {
	case "nu", "bu":
		return "u"
	case "nb":
		return "b"
	case "deep":
		return "n"
	case "root":
		return "r"
	}
	return "p"
}

// c18s3Snapshot: the committed state as bytes
func c18s3Snapshot(db *boltz.DbImpl) ([]byte, error) {
	var buf bytes.Buffer
	if err := db.StreamToWriter(&buf); err != nil {
		return nil, err
	}
	return buf.Bytes(), nil
}

// c18s3RestoreCurrent: stream the current committed state out and restore it (no version changes)
func (w *c18World) c18s3RestoreCurrent(rkind string) error {
	c18s3Beat("D update p -1 " + rkind + " 0 (restore of the current state between two transactions, readers running)")
	snap, err := c18s3Snapshot(w.db)
	if err != nil {
		return err
	}
	if err = c18s3Restore(w.db, rkind, snap); err != nil {
		return err
	}
	atomic.AddInt64(&w.restores, 1)
	c18s3Beat("between transactions")
	return nil
}

// ---- (a) D scenarios -----------------------------------------------------------------------------------

type c18s3Scn struct {
	outer   string
	steps   string
	at      int
	rkind   string
	readers int
}

func (s c18s3Scn) String() string {
	return fmt.Sprintf("D %s %s %d %s %d", s.outer, s.steps, s.at, s.rkind, s.readers)
}

func c18s3ParseScn(f []string) (c18s3Scn, bool) {
	if len(f) < 6 || f[0] != "D" {
		return c18s3Scn{}, false
	}
	at, err1 := strconv.Atoi(f[3])
	rd, err2 := strconv.Atoi(f[5])
	if err1 != nil || err2 != nil || (f[1] != "update" && f[1] != "batch") || rd < 0 || rd > 8 || len(f[2]) == 0 || len(f[2]) > 40 {
		return c18s3Scn{}, false
	}
	return c18s3Scn{outer: f[1], steps: f[2], at: at, rkind: f[4], readers: rd}, true
}

// c18s3Scenarios: every way to join a transaction once, with the restore pending before it (both ways to
// open the transaction, both ways to restore), controls without a restore, and random longer ones
func c18s3Scenarios(r *rng, thorough bool) []c18s3Scn {
	var out []c18s3Scn
	k := 0
	for _, outer := range []string{"update", "batch"} {
		for _, step := range "ubnrp" {
			rk := []string{"snapshot", "reader"}[k%2]
			k++
			out = append(out, c18s3Scn{outer: outer, steps: "p" + string(step) + "p", at: 1, rkind: rk, readers: k % 3})
		}
	}
	out = append(out, c18s3Scn{outer: "update", steps: "ubnr", at: -1, rkind: "snapshot", readers: 1},
		c18s3Scn{outer: "update", steps: "u", at: 0, rkind: "snapshot", readers: 0},
		c18s3Scn{outer: "batch", steps: "b", at: 0, rkind: "reader", readers: 0})
	n := 6
	if thorough {
		n = 60
	}
	for i := 0; i < n; i++ {
		steps := ""
		for j, m := 0, 1+r.intn(6); j < m; j++ {
			steps += string("uubbnrp"[r.intn(7)])
		}
		sc := c18s3Scn{outer: "update", steps: steps, at: r.intn(len(steps)+1) - 1, rkind: "snapshot", readers: r.intn(4)}
		if r.chance(25) {
			sc.outer = "batch"
		}
		if r.chance(40) {
			sc.rkind = "reader"
		}
		out = append(out, sc)
	}
	return out
}

func c18s3RunScn(dir string, k int, sc c18s3Scn, limit time.Duration) string {
	d := filepath.Join(dir, fmt.Sprintf("scn%d", k))
	if err := os.MkdirAll(d, 0o755); err != nil {
		return "D error " + hxs(err.Error())
	}
	db, err := boltz.Open(filepath.Join(d, "d.db"), "r")
	if err != nil {
		return "D error " + hxs(err.Error())
	}
	err = db.Update(nil, func(ctx boltz.MutateContext) error {
		b := boltz.GetOrCreatePath(ctx.Tx(), "r", "data")
		b.SetString("state", "snapshot", nil)
		b.SetInt64("steps", 0, nil)
		return b.GetError()
	})
	if err != nil {
		return "D error " + hxs(err.Error())
	}
	snap, err := c18s3Snapshot(db)
	if err != nil {
		return "D error " + hxs(err.Error())
	}
	var phase atomic.Value
	phase.Store("start")
	ignore := c18s3StuckEarlier()
	res := make(chan string, 1)
	go func() { res <- c18s3ScnBody(db, sc, snap, &phase, ignore) }()
	// "stuck" is decided by what the goroutines wait for, not by the clock (a loaded machine is slow, not stuck):
	// after the soft limit, a goroutine that waits for the reload lock from inside the transaction's function,
	// seen three times in a row with the phase unchanged
	start, seen, lastPhase := time.Now(), 0, ""
	for {
		select {
		case r := <-res:
			_ = db.Close()
			return r
		case <-time.After(150 * time.Millisecond):
		}
		p, _ := phase.Load().(string)
		if time.Since(start) > 40*limit {
			return "D timeout " + hxs(p)
		}
		if time.Since(start) < limit {
			continue
		}
		if frames := c18s3LockedInsideTx(ignore); frames != "" && p == lastPhase {
			if seen++; seen >= 3 {
				// the goroutines of the scenario and its database are abandoned
				return "D stuck " + hxs(p+"; waiting: "+frames)
			}
		} else {
			seen = 0
		}
		lastPhase = p
	}
}

func c18s3ScnBody(db *boltz.DbImpl, sc c18s3Scn, snap []byte, phase *atomic.Value, ignore map[string]bool) (res string) {
	defer func() {
		if r := recover(); r != nil {
			res = "D panic " + hxs(fmt.Sprint(r))
		}
	}()
	var stop int32
	var rwg sync.WaitGroup
	for i := 0; i < sc.readers; i++ {
		rwg.Add(1)
		go func() {
			defer rwg.Done()
			for atomic.LoadInt32(&stop) == 0 {
				_ = db.View(func(tx *bbolt.Tx) error {
					if b := boltz.Path(tx, "r", "data"); b != nil {
						_ = b.GetStringWithDefault("state", "")
					}
					return nil
				})
				time.Sleep(100 * time.Microsecond)
			}
		}()
	}
	var restoreDone chan struct{}
	var restoreErr error
	write := func(n int) func(ctx boltz.MutateContext) error {
		return func(ctx boltz.MutateContext) error {
			b := boltz.GetOrCreatePath(ctx.Tx(), "r", "data")
			b.SetString("state", "tx", nil)
			b.SetInt64("steps", int64(n), nil)
			return b.GetError()
		}
	}
	names := map[rune]string{'p': "write through ctx.Tx()", 'u': "Db.Update(ctx) joining the transaction", 'b': "Db.Batch(ctx) joining the transaction",
		'n': "Db.Update(ctx) inside Db.Update(ctx)", 'r': "Db.RootBucket(tx)"}
	ran := 0
	body := func(ctx boltz.MutateContext) error {
		ran = 0 // bbolt may run the function of a batch again
		for i, k := range sc.steps {
			pending := ""
			if i == sc.at && restoreDone == nil {
				restoreDone = make(chan struct{})
				go func() {
					restoreErr = c18s3Restore(db, sc.rkind, snap)
					close(restoreDone)
				}()
				phase.Store(fmt.Sprintf("step %d: waiting for the restore to reach the lock", i))
				c18s3WaitPending(ignore, restoreDone)
			}
			if restoreDone != nil {
				pending = " while a restore waits for the transaction"
			}
			phase.Store(fmt.Sprintf("step %d of the transaction opened by Db.%s: %s%s", i, map[string]string{"batch": "Batch"}[sc.outer]+map[string]string{"update": "Update"}[sc.outer], names[k], pending))
			var err error
			switch k {
			case 'u':
				err = db.Update(ctx, write(i+1))
			case 'b':
				err = db.Batch(ctx, write(i+1))
			case 'n':
				err = db.Update(ctx, func(c boltz.MutateContext) error { return db.Update(c, write(i+1)) })
			case 'r':
				if _, err = db.RootBucket(ctx.Tx()); err == nil {
					err = write(i + 1)(ctx)
				}
			default:
				err = write(i + 1)(ctx)
			}
			if err != nil {
				return err
			}
			ran++
		}
		return nil
	}
	var err error
	if sc.outer == "batch" {
		err = db.Batch(nil, body)
	} else {
		err = db.Update(nil, body)
	}
	if err != nil {
		return "D error " + hxs(err.Error())
	}
	if restoreDone != nil {
		phase.Store("the transaction is finished, the restore is not")
		<-restoreDone
		if restoreErr != nil {
			return "D error " + hxs(restoreErr.Error())
		}
	}
	phase.Store("the transaction and the restore are finished, a reader is not")
	atomic.StoreInt32(&stop, 1)
	rwg.Wait()
	state, steps := "", int64(-1)
	err = db.View(func(tx *bbolt.Tx) error {
		if b := boltz.Path(tx, "r", "data"); b != nil {
			state = b.GetStringWithDefault("state", "")
			steps = b.GetInt64WithDefault("steps", -1)
		}
		return nil
	})
	switch {
	case err != nil:
		return "D error " + hxs(err.Error())
	case state == "snapshot" && steps == 0:
		return fmt.Sprintf("D ok 1 %d", ran)
	case state == "tx" && steps == int64(len(sc.steps)):
		return fmt.Sprintf("D ok 0 %d", ran)
	}
	return "D wrong " + hxs(fmt.Sprintf("state %q steps %d", state, steps))
}

// ---- generator hooks ------------------------------------------------------------------------------------

// c18s3GenForm: the form of the next writer transaction; mid-transaction restores only for transactions
// that roll back (the restored state is then the state after the transaction as well)
func c18s3GenForm(r *rng, nops int, commit, allowRestore bool) c18s3Form {
	f := c18s3Form{name: "flat", at: -1, rkind: "snapshot"}
	switch x := r.intn(100); {
	case x < 45:
	case x < 62:
		f.name = "nu"
	case x < 74:
		f.name = "nb"
	case x < 84:
		f.name = "deep"
	case x < 94:
		f.name = "root"
	default:
		if commit { // bbolt runs the function of a failed batch a second time
			f.name = "bu"
		} else {
			f.name = "nu"
		}
	}
	if !commit && allowRestore && nops > 0 && r.chance(55) {
		f.at = r.intn(nops)
		if r.chance(40) {
			f.rkind = "reader"
		}
	}
	return f
}

func c18s3SortedRecs(keepers []*c18s3Keeper) []c18s3KRec {
	var all []c18s3KRec
	for _, k := range keepers {
		all = append(all, k.recs...)
	}
	sort.SliceStable(all, func(i, j int) bool {
		if all[i].reader != all[j].reader {
			return all[i].reader < all[j].reader
		}
		return all[i].tx < all[j].tx
	})
	return all
}
