package main

// C08, sixth strengthening round (seeded change C08-w6-1): what the CALLER does with the entity structs it handed to
// Create / Update between the operation and the commit.
//
// Until now every operation of the C08 streams got a struct of its own (harnessDb.entityFor) that nobody touched
// again, so an event that carries the CALLER'S struct by reference instead of the state read back from the store
// looked exactly like a correct one.  Listeners run after the commit: they must see the COMMITTED state of the
// operation's entity (final state for create / update, last state for delete), whatever the caller did to its own
// memory in the meantime.  Callers do reuse and change their structs:
//
//	scratch := &Employee{}
//	for _, row := range rows { scratch.Id = row.id; scratch.Name = row.name; store.Create(ctx, scratch) }
//	scratch.Id = "not-an-entity"
//
// The pseudo veto "@caller" (the model ignores it: the state an event carries is the stored state; id = the
// behaviour) makes the transaction's caller behave like that.  First letter = where the structs come from:
//
//	n   a struct of its own per operation (as before)
//	r   ONE scratch struct for every create / update of the transaction, re-filled per operation with fresh maps
//	k   ONE scratch struct whose maps, set slices and tag map are KEPT: cleared and re-filled in place
//
// then what the caller does to the struct it passed, after the operation returned (any subset, in this order):
//
//	i   the id is overwritten with one that is never stored
//	f   the entries of the field map are replaced (other values, every second one nil)
//	p   the strings the field map points to are overwritten through the pointers
//	s   the string lists are changed in place (first element overwritten, one element appended)
//	t   the tag map is changed in place (value overwritten, key added)
//	y   the system flag is flipped
//	z   field map, lists and tags are set to nil
//	e   (timing) all of that happens at the END of the transaction function, not right after each operation
//	l   before a delete the caller loads the entity through the store (FindById), deletes it, and then treats the
//	    loaded struct like the ones it passed
//
// Every struct built by the C08 executor - with or without "@caller" - carries the tag map {"id": <entity id>}, so
// the tags of every stored entity are a function of its id; a recorder that is handed an entity whose tags are
// anything else prints TAGS:<style>:<store>:<change>:<hex id>:<tags seen> (never on a correct tree, never by the
// model), which the oracle reports as a wrong delivered state.

import (
	"fmt"
	"sort"
	"strings"

	"github.com/openziti/storage/boltz"
)

const c08Caller = "@caller"

type c08CallerState struct {
	spec    string
	scratch *gEnt
	pending []*gEnt // structs the caller changes at the end of the function (timing e)
}

func (cs *c08CallerState) has(ch byte) bool {
	return cs != nil && len(cs.spec) > 1 && strings.IndexByte(cs.spec[1:], ch) >= 0
}

func (cs *c08CallerState) policy() byte {
	if cs == nil || cs.spec == "" {
		return 'n'
	}
	return cs.spec[0]
}

// c08NewCaller is called at the start of every run of the transaction function (bbolt's Batch may run it again)
func c08NewCaller(t *hTx) *c08CallerState {
	spec, ok := c08PseudoVeto(t, c08Caller)
	if !ok {
		return nil
	}
	return &c08CallerState{spec: spec}
}

func c08Tags(id string) map[string]interface{} { return map[string]interface{}{"id": id} }

// c08TagsOk: the tags every stored entity of the C08 streams has
func c08TagsOk(id string, tags map[string]interface{}) bool {
	if len(tags) != 1 {
		return false
	}
	v, ok := tags["id"].(string)
	return ok && v == id
}

func c08TagsText(tags map[string]interface{}) string {
	if tags == nil {
		return "nil"
	}
	var ks []string
	for k, v := range tags {
		ks = append(ks, fmt.Sprintf("%s=%s", hxs(k), hxs(fmt.Sprint(v))))
	}
	sort.Strings(ks)
	return "{" + strings.Join(ks, ",") + "}"
}

// tagCheck is called by every recorder that is handed an entity: [id] is the id the event names (constraints) or the
// id of the entity itself (listeners only get the entity)
func (c *c08Db) tagCheck(style, store, change, id string, e *gEnt) {
	if !c.tagsOn || e == nil || c08TagsOk(id, e.Tags) {
		return
	}
	c.mu.Lock()
	c.toks = append(c.toks, fmt.Sprintf("TAGS:%s:%s:%s:%s:%s", style, store, change, hxs(id), c08TagsText(e.Tags)))
	c.mu.Unlock()
}

// fill writes the operation's values into the struct; keep = into the maps / slices the struct already has
func c08FillEntity(e *gEnt, root string, op *hOp, keep bool) {
	e.etype = root
	e.Id = op.Id
	e.IsSystem = op.Sys
	if !keep || e.F == nil {
		e.F = map[string]*string{}
	} else {
		for k := range e.F {
			delete(e.F, k)
		}
	}
	for k, v := range op.F {
		if v == nil {
			e.F[k] = nil
			continue
		}
		s := *v // never the operation's own string: the caller may write through the pointer
		e.F[k] = &s
	}
	if !keep || e.S == nil {
		e.S = map[string][]string{}
	}
	for k := range e.S {
		if _, ok := op.S[k]; !ok {
			delete(e.S, k)
		}
	}
	for k, v := range op.S {
		if keep {
			e.S[k] = append(e.S[k][:0], v...) // the same backing array when it is large enough
			if e.S[k] == nil {
				e.S[k] = []string{}
			}
		} else {
			e.S[k] = append([]string{}, v...)
		}
	}
	e.L = nil
	switch {
	case op.BadTags:
		e.Tags = map[string]interface{}{"nested": map[string]interface{}{"x": "y"}, "ok": "v"}
	case keep && e.Tags != nil:
		for k := range e.Tags {
			delete(e.Tags, k)
		}
		e.Tags["id"] = op.Id
	default:
		e.Tags = c08Tags(op.Id)
	}
}

// entity returns the struct the caller passes to the create / update
func (x *c08Exec) callerEntity(op *hOp) *gEnt {
	h := x.c.h
	root := op.Store
	if p := h.w.store(op.Store).Parent; p != "" {
		root = p
	}
	cs := x.caller
	switch cs.policy() {
	case 'r', 'k':
		if cs.scratch == nil {
			cs.scratch = &gEnt{}
		}
		c08FillEntity(cs.scratch, root, op, cs.policy() == 'k')
		return cs.scratch
	}
	e := &gEnt{}
	c08FillEntity(e, root, op, false)
	return e
}

// c08Scribble is what the caller does to a struct of its own after the operation that got it returned
func c08ScribbleEntity(e *gEnt, cs *c08CallerState) {
	if e == nil {
		return
	}
	if cs.has('i') {
		e.Id = e.Id + "~never-stored"
	}
	if cs.has('f') {
		var ks []string
		for k := range e.F {
			ks = append(ks, k)
		}
		sort.Strings(ks)
		for n, k := range ks {
			if n%2 == 1 {
				e.F[k] = nil
				continue
			}
			v := "~"
			if e.F[k] != nil {
				v += *e.F[k]
			}
			e.F[k] = &v
		}
	}
	if cs.has('p') {
		for _, v := range e.F {
			if v != nil {
				*v = "~~" + *v
			}
		}
	}
	if cs.has('s') {
		for k, l := range e.S {
			if len(l) > 0 {
				l[0] = "~" + l[0]
			}
			e.S[k] = append(l, "~never")
		}
	}
	if cs.has('t') {
		if e.Tags == nil {
			e.Tags = map[string]interface{}{}
		}
		e.Tags["id"] = "~changed"
		e.Tags["never"] = true
	}
	if cs.has('y') {
		e.IsSystem = !e.IsSystem
	}
	if cs.has('z') {
		e.F, e.S, e.Tags, e.L = nil, nil, nil, nil
	}
}

func (x *c08Exec) callerAfter(e *gEnt) {
	cs := x.caller
	if cs == nil || e == nil {
		return
	}
	if cs.has('e') {
		for _, p := range cs.pending {
			if p == e {
				return
			}
		}
		cs.pending = append(cs.pending, e)
		return
	}
	c08ScribbleEntity(e, cs)
}

// callerEnd: the end of the transaction function (timing e)
func (x *c08Exec) callerEnd() {
	cs := x.caller
	if cs == nil {
		return
	}
	for _, e := range cs.pending {
		c08ScribbleEntity(e, cs)
	}
	cs.pending = nil
}

// execOp runs one operation of a C08 transaction the way its caller does
func (x *c08Exec) execOp(ctx boltz.MutateContext, op *hOp) error {
	h := x.c.h
	gs := h.stores[op.Store]
	switch op.Kind {
	case "C":
		e := x.callerEntity(op)
		err := gs.Create(ctx, e)
		x.callerAfter(e)
		return err
	case "UP":
		var chk boltz.FieldChecker
		if op.HasChk {
			m := boltz.MapFieldChecker{}
			for _, f := range c04ImplChecker(h.w, op.Store, op.Checker) { // storage keys -> the names the checker knows
				m[f] = struct{}{}
			}
			chk = m
		}
		e := x.callerEntity(op)
		err := gs.Update(ctx, e, chk)
		x.callerAfter(e)
		return err
	case "D":
		if x.caller.has('l') {
			loaded, found, _ := gs.FindById(ctx.Tx(), op.Id)
			err := gs.DeleteById(ctx, op.Id)
			if found {
				x.callerAfter(loaded)
			}
			return err
		}
	}
	return h.execOp(ctx, op)
}

// ---------------------------------------------------------------- generator

var c08CallerMuts = "ifpstyz"

// genCallerSpec draws the behaviour of one transaction's caller
func (g *c08Gen) genCallerSpec() string {
	r := g.r
	var sb strings.Builder
	sb.WriteByte("nnrrrkk"[r.intn(7)])
	switch r.intn(10) {
	case 0: // reuse only (the scratch struct keeps the values of its last operation)
		if sb.String() == "n" {
			sb.WriteByte('f')
		}
	case 1, 2, 3: // one kind of change
		sb.WriteByte(c08CallerMuts[r.intn(len(c08CallerMuts))])
	default:
		for i := 0; i < len(c08CallerMuts); i++ {
			if r.chance(40) {
				sb.WriteByte(c08CallerMuts[i])
			}
		}
	}
	if r.chance(30) {
		sb.WriteByte('e')
	}
	if r.chance(50) {
		sb.WriteByte('l')
	}
	return sb.String()
}

// callerShape gives the transaction a caller that reuses / changes its structs; half of the callers with a scratch
// struct run the loop such structs are made for: several creates through one store
func (g *c08Gen) callerShape(t *hTx) {
	r := g.r
	spec := g.genCallerSpec()
	if spec[0] != 'n' && r.chance(50) {
		store := g.pickStore()
		for i, n := 0, 2+r.intn(2); i < n; i++ {
			t.Ops = append(t.Ops, g.genCreate(store, t.Sys, 0)...)
		}
	}
	t.Vetoes = append(t.Vetoes, hVeto{Store: c08Caller, Change: "C", Id: spec})
}

func c08CallerStats(stats map[string]int, t *hTx) {
	spec, ok := c08PseudoVeto(t, c08Caller)
	if !ok || spec == "" {
		return
	}
	stats["tx_caller_structs"]++
	stats["tx_caller_structs_policy_"+spec[:1]]++
	for i := 1; i < len(spec); i++ {
		stats["tx_caller_structs_"+spec[i:i+1]]++
	}
	n := 0
	for _, op := range t.Ops {
		if op.Kind == "C" || op.Kind == "UP" {
			n++
		}
	}
	if spec[0] != 'n' && n > 1 {
		stats["tx_caller_scratch_struct_several_writes"]++
	}
}
