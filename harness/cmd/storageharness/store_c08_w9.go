package main

// C08, ninth strengthening round: callers that bring NO context.
//
// The Db interface takes the MutateContext of Update / Batch as an optional argument: `db.Update(nil, fn)` /
// `db.Batch(nil, fn)` make one (DbImpl: `if ctx == nil { ctx = NewMutateContext(context.Background()) }`).  Until this
// round every transaction of the C08 streams was started with a context object of the caller (fresh, database-wide
// shared, system, wrapped around a caller-managed transaction), so the branch that builds the context inside the call
// was never executed by this check - although a transaction started that way is a committed transaction like any
// other: entity events, commit actions and pre-commit actions registered inside the function, and the
// transaction-complete listeners, exactly once.
//
// Pseudo veto "@nilctx" (the model ignores it - the expectation of a transaction does not depend on who made its
// context): the OUTERMOST call of the transaction is db.Update(nil, body) / db.Batch(nil, body) (also the coalesced
// Db.Batch calls of "@cobatch").  There is no context object before the call, so the hook program of such a
// transaction has nothing in front of '|': the generator moves what it drew for that position to the start of the
// function (labels are positions in program order and do not change) - or drops it when bbolt may run the function
// twice ("@cobatch": a function that registers is not idempotent).  Nested calls still pass the context of the
// running transaction (a nil context there would ask for a second write transaction).  Not combined with "@ctx",
// "@rawtx" (both ARE a context of the caller) or system transactions (the system flag is a property of the caller's
// context).  A replayed transaction whose program registers before '|' runs with a fresh context: the token is then
// without effect, never an error.

import "strings"

const c08NilCtx = "@nilctx"

// c08NilCtxApplies: the transaction's outermost Db call gets a nil context
func c08NilCtxApplies(t *hTx, prog string) bool {
	if _, ok := c08PseudoVeto(t, c08NilCtx); !ok || t.Sys {
		return false
	}
	if _, ok := c08PseudoVeto(t, "@ctx"); ok {
		return false
	}
	if _, ok := c08PseudoVeto(t, c08RawTx); ok {
		return false
	}
	return strings.IndexByte(prog, '|') == 0
}

// c08NilCtxShape turns a generated transaction into one of a caller without a context (its own random stream: the
// histories of the earlier rounds keep their shape for a given seed)
func c08NilCtxShape(r *rng, t *hTx, mode, prog string, pct int) string {
	if !r.chance(pct) || t.Sys || mode == "swl" {
		return prog
	}
	if _, ok := c08PseudoVeto(t, "@ctx"); ok {
		return prog
	}
	if _, ok := c08PseudoVeto(t, c08RawTx); ok {
		return prog
	}
	start := strings.IndexByte(prog, '|')
	if start < 0 {
		return prog
	}
	before, rest := prog[:start], prog[start+1:]
	if _, co := c08PseudoVeto(t, c08CoBatch); co {
		before = ""
	}
	t.Vetoes = append(t.Vetoes, hVeto{Store: c08NilCtx, Change: "C", Id: ""})
	return "|" + before + rest
}

func c08NilCtxStats(stats map[string]int, txs []hTx, progs []string) {
	for k := range txs {
		if k < len(progs) && c08NilCtxApplies(&txs[k], progs[k]) {
			stats["tx_nil_ctx"]++
			if _, co := c08PseudoVeto(&txs[k], c08CoBatch); co {
				stats["tx_nil_ctx_coalesced_batch"]++
			}
		}
	}
}
