package main

// C16 strengthening, third wave (seeded C16-w3-1, C16-w3-3):
//
// (a) ENTITY STRATEGIES THAT USE THE PersistContext-LEVEL HELPERS.  Update latches the refusal of the system-entity
//     constraint in the entity bucket's error holder (ProcessBeforeUpdate) BEFORE PersistEntity runs; that nothing is
//     written afterwards - and that the latched refusal is still there when Update returns - is up to every single write
//     helper the strategy calls.  The shared gStrategy only used the TypedBucket-level setters (SetString, SetStringP,
//     SetStringList).  The wirings below mark fields with sField.Via / sStore.SetsVia / sStore.LinkIds (store.go, additive;
//     not part of the schema text - the stored values are the same) so that the strategy persists them with
//
//	PersistContext.SetRequiredString     (its own ProceedWithSet + setTyped, which ASSIGNS bucket.Err)
//	PersistContext.GetAndSetString       PersistContext.GetAndSetStringList
//	PersistContext.SetLinkedIds          (its own ProceedWithSet + LinkCollection.SetLinks; decorations 'l' / 'e' of a mixed
//	                                      transaction give the entity its linked ids, see store_c16s.go)
//
//     on the root level and on the child level (the child's persist context shares the error holder of the parent's).
//     The generator always supplies a non-empty value for a "req" field (store_x1516.go fieldsValueX): refusing an empty
//     required value is field validation, which Store/Model.v does not model.  Links are outside the C16 projection
//     (results, entities, isSystem flags), so linked ids written through the strategy have no model counterpart; they are
//     seen by the dump around a swallowed refusal (NW / RB tokens) like every other bolt path.
//
// (b) CHILD STORES THAT DECLARE NOTHING BUT FIELDS (no index, no constraint of their own) under a parent that carries the
//     system-entity constraint and unique / set / fk indexes: plain child (c16np) and extended child (c16nx).  Every child
//     store of the earlier wirings had a unique index of its own.  The chain root-constraints-then-own-constraints of
//     Store/Model.v (chain, before_chain, after_chain) with an EMPTY own list; wf by computation in
//     Examples/C16W3Wirings.v.

import (
	"github.com/openziti/storage/ast"
	"go.etcd.io/bbolt"
)

func init() {
	extraWirings["c16np"] = wiringC16Np
	extraWirings["c16nx"] = wiringC16Nx
	c16Wirings = append(c16Wirings, "c16np", "c16nx", "c16np")
}

// c16np: root dev carries the constraint (registered between its indexes), a unique, a nullable unique, a set index, an
// fk index with cascade delete and a link collection; its PLAIN child store gw declares two fields and nothing else.
// dev.name and gw.zone are required strings, dev.owner / dev.roles go through the GetAndSet helpers, dev.sites through
// SetLinkedIds.  wf: Examples/C16W3Wirings.v c16np_wf
func wiringC16Np() *wiring {
	return &wiring{Name: "c16np", Stores: []*sStore{
		{Name: "own", Fields: []sField{{Name: "title"}}},
		{Name: "dev", Fields: []sField{{Name: "name", Via: "req"}, {Name: "nick", Ptr: true}, {Name: "owner", Via: "gas"}},
			Sets: []string{"roles"}, SetsVia: "gas", LinkIds: []string{"sites"}},
		{Name: "gw", Parent: "dev", Fields: []sField{{Name: "port", Ptr: true}, {Name: "zone", Via: "req"}}},
	}, Script: []wiringDecl{
		{Kind: "unique", Store: "own", Field: "title"},
		{Kind: "unique", Store: "dev", Field: "name"},
		{Kind: "system", Store: "dev"},
		{Kind: "unique", Store: "dev", Field: "nick", Nullable: true},
		{Kind: "setidx", Store: "dev", Field: "roles"},
		{Kind: "fkindexcascade", Store: "dev", Field: "owner", Target: "own", Back: "devs"},
		{Kind: "link", Store: "dev", Field: "sites", Target: "own", Back: "staff"},
	}}
}

// c16nx: the casc shape (cascade-delete chain a <- b <- c) with the constraint registered FIRST on b, a unique index on
// the required string b.name, and an EXTENDED child store bx that declares two fields and nothing else (bx.tag through
// GetAndSetString).  wf: Examples/C16W3Wirings.v c16nx_wf
func wiringC16Nx() *wiring {
	return &wiring{Name: "c16nx", Stores: []*sStore{
		{Name: "a", Fields: []sField{{Name: "name"}}, Sets: []string{"roles"}},
		{Name: "b", Fields: []sField{{Name: "name", Via: "req"}, {Name: "a"}}},
		{Name: "c", Fields: []sField{{Name: "name", Ptr: true, Sym: "cname"}, {Name: "b"}, {Name: "a", Ptr: true}}},
		{Name: "bx", Parent: "b", Ext: true, Fields: []sField{{Name: "code", Ptr: true}, {Name: "tag", Via: "gas"}}},
	}, Script: []wiringDecl{
		{Kind: "system", Store: "b"},
		{Kind: "unique", Store: "a", Field: "name"},
		{Kind: "setidx", Store: "a", Field: "roles"},
		{Kind: "fkindexcascade", Store: "b", Field: "a", Target: "a", Back: "bs"},
		{Kind: "fkindexcascade", Store: "c", Field: "b", Target: "b", Back: "cs"},
		{Kind: "fkindex", Store: "c", Field: "a", Target: "a", Back: "cas", Nullable: true},
		{Kind: "unique", Store: "c", Field: "name", Nullable: true},
		{Kind: "unique", Store: "b", Field: "name"},
	}}
}

// c16w3LinkIds gives the entity handed to Create / Update its linked ids for every link field a strategy of the
// operation's store family persists with SetLinkedIds: all = every entity of the other store present now (read in the open
// transaction, so SetLinks cannot meet a missing target), otherwise the empty list
func (h *harnessDb) c16w3LinkIds(tx *bbolt.Tx, op *hOp, e *gEnt, all bool) {
	def := h.w.store(op.Store)
	if def == nil {
		return
	}
	root := rootName(def)
	for _, d := range h.w.Stores {
		if d.Name != root && d.Parent != root {
			continue
		}
		for _, lf := range d.LinkIds {
			ids := []string{}
			if all {
				for _, l := range d.Links {
					if l.Local != lf || h.stores[l.Other] == nil {
						continue
					}
					for c := h.stores[l.Other].IterateIds(tx, ast.BoolNodeTrue); c.IsValid(); c.Next() {
						ids = append(ids, string(c.Current()))
					}
				}
			}
			if e.L == nil {
				e.L = map[string][]string{}
			}
			e.L[lf] = ids
		}
	}
}

// c16w3FamilyLinkIds: the link fields persisted with SetLinkedIds by the strategies of store's family
func (g *xGen) c16w3FamilyLinkIds(store string) []string {
	def := g.w.store(store)
	if def == nil {
		return nil
	}
	root := g.rootOf(store)
	var out []string
	for _, d := range g.w.Stores {
		if d.Name == root || d.Parent == root {
			out = append(out, d.LinkIds...)
		}
	}
	return out
}

// c16w3Decorate (called by c16Mix before the mode string is written): creates / updates of a family whose strategy uses
// SetLinkedIds carry linked ids (l: all present entities of the other store, e: none); a patch then names the link field.
// Draws nothing for wirings without such a strategy.
func (g *xGen) c16w3Decorate(t *hTx, ms []c16Mode) {
	for i := range t.Ops {
		op := &t.Ops[i]
		if op.Kind != "C" && op.Kind != "UP" {
			continue
		}
		lfs := g.c16w3FamilyLinkIds(op.Store)
		if len(lfs) == 0 || ms[i].Deco != '-' {
			continue
		}
		p := 30
		if ms[i].Swallow {
			p = 60
		}
		if !g.r.chance(p) {
			continue
		}
		ms[i].Deco = 'l'
		if g.r.chance(30) {
			ms[i].Deco = 'e'
		}
		if op.HasChk && g.r.chance(70) {
			op.Checker = append(op.Checker, lfs...)
		}
	}
}
