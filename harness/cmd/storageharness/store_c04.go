package main

// C04 (foreign keys): process-isolated execution of store histories.
//
// Deleting an entity whose id is hostile to the cascade filter, or that sits on a reference cycle
// under a cascade-delete wiring, can make the real code recurse without bound.  The Go runtime then
// aborts with "fatal error: stack overflow", which recover() cannot catch.  Therefore
//
//	store-iso   (parent) generates the case lines (corpus first, then the seeded c04 stream), writes
//	            cases.txt, and executes them in child processes (re-exec of this binary):
//	            a child runs the cases from --from on, streaming one line per finished transaction;
//	            when a child dies (crash, timeout, memory) the observation of the case it was working
//	            on ends with  "TX R CRASH:<kind> ROLLBACK ST | "  and a new child continues after it;
//	store-child executes the cases of a file, from a given index on.
//
// The wiring "cyc" (self-referencing store and a two-store reference loop, both under CascadeDelete)
// exists only here: it is the separate stream in which reference cycles can occur.

import (
	"bufio"
	"fmt"
	"io"
	"os"
	"os/exec"
	"runtime/debug"
	"strconv"
	"strings"
	"sync"
	"time"
)

func init() {
	commands["store-iso"] = runStoreIso
	commands["store-child"] = runStoreChild
	extraWirings["cyc"] = wiringCyc
}

// cyc: n.next -> n (nullable, cascade delete) ; p.q -> q and q.p -> p (nullable, cascade delete) ;
// leaf.n -> n through a cascade-delete fk index (non-null), so chains leaf -> n -> n -> ... exist
func wiringCyc() *wiring {
	return &wiring{Name: "cyc", Stores: []*sStore{
		{Name: "n", Fields: []sField{{Name: "name"}, {Name: "next", Ptr: true}}},
		{Name: "p", Fields: []sField{{Name: "q", Ptr: true}}},
		{Name: "q", Fields: []sField{{Name: "p", Ptr: true}}},
		{Name: "leaf", Fields: []sField{{Name: "n"}}},
	}, Script: []wiringDecl{
		{Kind: "fkcons", Store: "n", Field: "next", Target: "n", Nullable: true, Casc: "D"},
		{Kind: "fkcons", Store: "p", Field: "q", Target: "q", Nullable: true, Casc: "D"},
		{Kind: "fkcons", Store: "q", Field: "p", Target: "p", Nullable: true, Casc: "D"},
		{Kind: "fkindexcascade", Store: "leaf", Field: "n", Target: "n", Back: "leaves"},
	}}
}

// ids that are hostile to a filter built by string concatenation (in addition to hostileIds)
var hostileIdsC04 = []string{
	`x" or id != "`, `a\`, `\`, `\\`, `x\"`, `or`, `b c`, `"`, `not`, `a=b`, `(`, `x\"y`, "é", "t\tb", "a\nb", "\x00", "a\x00b",
	`and true`, `a" or true or id = "`, `" or id = "a`, `a" and id = "b`, `a'b`, `%`, `a" or isSystem = true or id = "`,
	`x")`, `true`, `null`, `1`, `a"`, ` `,
}

var c04Wirings = []string{"idx", "fkc", "casc", "cyc"}

// ---- the C04 history generator -------------------------------------------------------------
//
// The shared generator (store_gen.go) produces mostly failing transactions on fk wirings (targets
// rarely exist).  This one keeps a belief of the database (never used as an oracle) so that most
// creates reference existing targets, deletes hit referenced entities (restrict / cascade), updates
// re-parent, and a small share of operations is invalid on purpose (missing target, empty value in a
// non-nullable fk, self reference, duplicate id).

type c04Gen struct {
	r          *rng
	w          *wiring
	ids        []string
	vals       []string
	ents       map[string]map[string]map[string]*string // root -> id -> field -> believed value
	unique     map[string]bool                          // store.field has a unique index
	shared     bool                                     // every transaction of the history runs with the shared mutate context ("@ctx")
	graves     map[string][]string                      // root -> ids believed deleted in the current mutate-context scope (store_c04_reuse.go)
	forced     map[string]string                        // fk field -> value imposed on the next values() call
	reuseFirst bool                                     // the second transaction of the history is a re-use life cycle (belief still exact)
	nReuse     int                                      // transactions produced by reuseTxs
	childFk    bool                                     // some fk edge starts or ends at a child store: the belief tracks the store an entity lives in (store_c04_child.go)
	diamond    bool                                     // the history holds DAGs with shared descendants built on purpose (store_c04_diamond.go)
	nDiamond   int                                      // transactions produced by diamondTxs
}

func newC04Gen(r *rng, w *wiring, ids []string) *c04Gen {
	g := &c04Gen{r: r, w: w, ids: ids, vals: []string{"v1", "v2", "v3", ""}, ents: map[string]map[string]map[string]*string{}, unique: map[string]bool{}}
	g.childFk = c04HasChildFk(w)
	for _, s := range w.Stores {
		if s.Parent == "" {
			g.ents[s.Name] = map[string]map[string]*string{}
		}
	}
	for _, d := range w.Script {
		if d.Kind == "unique" {
			g.unique[d.Store+"."+d.Field] = true
		}
	}
	return g
}

func (g *c04Gen) root(store string) string {
	if p := g.w.store(store).Parent; p != "" {
		return p
	}
	return store
}

func (g *c04Gen) fkDecl(store, field string) *wiringDecl {
	for i := range g.w.Script {
		d := &g.w.Script[i]
		if d.Store == store && d.Field == field && (d.Kind == "fkindex" || d.Kind == "fkindexcascade" || d.Kind == "fkcons") {
			return d
		}
	}
	return nil
}

func (g *c04Gen) aliveIds(root string) []string {
	var xs []string
	for _, id := range g.ids {
		if _, ok := g.ents[root][id]; ok {
			xs = append(xs, id)
		}
	}
	return xs
}

func (g *c04Gen) pickAlive(root string) string {
	xs := g.aliveIds(root)
	if len(xs) == 0 || g.r.chance(6) {
		return g.ids[g.r.intn(len(g.ids))]
	}
	return xs[g.r.intn(len(xs))]
}

// referrers of (root, id) per wiring declaration
func (g *c04Gen) referrers(root, id string) (restrict []string, cascade [][2]string) {
	for _, d := range g.w.Script {
		if d.Kind != "fkindex" && d.Kind != "fkindexcascade" && d.Kind != "fkcons" {
			continue
		}
		if g.root(d.Target) != root {
			continue
		}
		if d.Target != root && !g.isAliveIn(d.Target, id) {
			continue // the edge ends at a child store the entity has no data in: nothing can reference it through this edge
		}
		rr := g.root(d.Store)
		for _, x := range g.ids {
			e, ok := g.ents[rr][x]
			if !ok || e[d.Field] == nil || *e[d.Field] != id {
				continue
			}
			if d.Store != rr && !g.isAliveIn(d.Store, x) {
				continue // the fk field lives in a child store the entity has no data in
			}
			if d.Kind == "fkindexcascade" || (d.Kind == "fkcons" && d.Casc == "D") {
				cascade = append(cascade, [2]string{rr, x})
			} else {
				restrict = append(restrict, x)
			}
		}
	}
	return
}

// believeDelete removes (root,id) and its transitive cascade referrers from the belief, unless a
// restrict wiring (believably) refuses; depth-bounded so that believed cycles do not loop
func (g *c04Gen) believeDelete(root, id string, depth int) bool {
	if _, ok := g.ents[root][id]; !ok || depth > 12 {
		return false
	}
	restrict, cascade := g.referrers(root, id)
	for _, x := range restrict {
		if !(x == id) {
			return false
		}
	}
	for _, c := range cascade {
		if c[0] == root && c[1] == id {
			return false // self reference under cascade: never terminates / is refused
		}
		if _, ok := g.ents[c[0]][c[1]]; !ok {
			continue // reached over a second cascade path: a nested cascade removed it already
		}
		if !g.believeDelete(c[0], c[1], depth+1) {
			return false
		}
	}
	delete(g.ents[root], id)
	if g.graves != nil && !containsStr(g.graves[root], id) {
		g.graves[root] = append(g.graves[root], id)
	}
	return true
}

func (g *c04Gen) fieldsFor(store string) []sField {
	fields, _ := g.w.allFields(store)
	s := g.w.store(store)
	if s.Parent == "" {
		for _, c := range g.w.Stores {
			if c.Parent == s.Name {
				fields = append(fields, c.Fields...)
			}
		}
	}
	return fields
}

func (g *c04Gen) values(op *hOp) (valid bool) {
	op.F = map[string]*string{}
	op.S = map[string][]string{}
	s := g.w.store(op.Store)
	root := g.root(op.Store)
	valid = true
	for _, f := range g.fieldsFor(op.Store) {
		owner := op.Store
		if g.fkDecl(owner, f.Name) == nil && s.Parent != "" {
			owner = s.Parent
		}
		d, relevant := g.fkDecl(owner, f.Name), true
		if g.childFk {
			d, relevant = g.c04cDecl(op, f.Name) // also the fk fields of child stores, seen from the parent store
		}
		if d != nil {
			troot := g.root(d.Target)
			alive := g.aliveIn(d.Target)
			k := g.r.intn(100)
			switch {
			case k < 4:
				op.F[f.Name] = sp(g.ids[g.r.intn(len(g.ids))]) // any id: often a missing target
			case k >= 92 && len(g.graves[troot]) > 0:
				op.F[f.Name] = sp(g.graves[troot][g.r.intn(len(g.graves[troot]))]) // a target deleted earlier in this context
			case k < 7:
				op.F[f.Name] = sp("")
			case k < 13 && troot == root:
				op.F[f.Name] = sp(op.Id) // self reference
			case f.Ptr && (k < 30 || len(alive) == 0):
				// nil
			case len(alive) > 0:
				op.F[f.Name] = sp(alive[g.r.intn(len(alive))])
			default:
				op.F[f.Name] = sp(g.ids[g.r.intn(len(g.ids))])
			}
			if fv, ok := g.forced[f.Name]; ok {
				op.F[f.Name] = sp(fv)
			}
			v := op.F[f.Name]
			nullable := d.Nullable && d.Kind != "fkindexcascade"
			switch {
			case !relevant:
				// a field of a child store the operation does not reach
			case v == nil || *v == "":
				if !nullable {
					valid = false
				}
			case *v == op.Id && troot == root:
				// a self reference; through an edge that ends at a child store the entity itself must live there
				if d.Target != troot {
					in := op.Store
					if op.Kind == "UP" {
						in = g.viaOf(root, op.Id)
					}
					if in != d.Target {
						valid = false
					}
				}
			default:
				if !g.isAliveIn(d.Target, *v) {
					valid = false
				}
			}
			continue
		}
		switch {
		case g.unique[op.Store+"."+f.Name] || g.unique[root+"."+f.Name]:
			if g.r.chance(92) {
				op.F[f.Name] = sp("u" + op.Id)
			} else {
				op.F[f.Name] = sp(g.vals[g.r.intn(len(g.vals))])
			}
		case f.Ptr && g.r.chance(25):
		default:
			op.F[f.Name] = sp(g.vals[g.r.intn(len(g.vals))])
		}
	}
	_, sets := g.w.allFields(op.Store)
	for _, sn := range sets {
		n := g.r.intn(3)
		var l []string
		for i := 0; i < n; i++ {
			l = append(l, g.r.pick([]string{"r1", "r2", "r3"}))
		}
		op.S[sn] = l
	}
	return valid
}

// creatable: every non-nullable fk field of the store (and of its parent) has a believed-alive target
func (g *c04Gen) creatable(store string) bool {
	for _, f := range g.fieldsFor(store) {
		for _, owner := range []string{store, g.root(store)} {
			if d := g.fkDecl(owner, f.Name); d != nil && !(d.Nullable && d.Kind != "fkindexcascade") {
				if len(g.aliveIn(d.Target)) == 0 {
					return false
				}
			}
		}
	}
	return true
}

func (g *c04Gen) genOp() hOp {
	st := g.w.Stores[g.r.intn(len(g.w.Stores))]
	k := g.r.intn(100)
	total := 0
	for r := range g.ents {
		total += len(g.aliveIds(r))
	}
	if total < 4 && g.r.chance(80) {
		k = 0 // populate first
	}
	// prefer a sensible (store, kind) pair; keep a small share of senseless ones
	for try := 0; try < 8 && !g.r.chance(7); try++ {
		if k < 42 {
			if g.creatable(st.Name) {
				break
			}
		} else if len(g.aliveIds(g.root(st.Name))) > 0 {
			break
		}
		st = g.w.Stores[g.r.intn(len(g.w.Stores))]
	}
	root := g.root(st.Name)
	switch {
	case k < 42:
		op := hOp{Kind: "C", Store: st.Name, Id: g.ids[g.r.intn(len(g.ids))], Sys: g.r.chance(4)}
		if g.r.chance(85) {
			for try := 0; try < 6; try++ {
				if _, ok := g.ents[root][op.Id]; !ok {
					break
				}
				op.Id = g.ids[g.r.intn(len(g.ids))]
			}
		}
		if gr := g.graves[root]; len(gr) > 0 && g.r.chance(15) {
			op.Id = gr[g.r.intn(len(gr))] // re-create an id deleted earlier in this context
		}
		valid := g.values(&op)
		if _, exists := g.ents[root][op.Id]; valid && !exists && op.Id != "" {
			if g.childFk {
				g.c04cBelieveCreate(&op)
			} else {
				g.ents[root][op.Id] = op.F
			}
		}
		return op
	case k < 64:
		op := hOp{Kind: "UP", Store: st.Name, Id: g.pickAlive(root)}
		valid := g.values(&op)
		if g.r.chance(40) {
			op.HasChk = true
			fields, sets := g.w.allFields(st.Name)
			for _, f := range fields {
				if g.r.chance(50) {
					op.Checker = append(op.Checker, f.Name)
				}
			}
			for _, sn := range sets {
				if g.r.chance(50) {
					op.Checker = append(op.Checker, sn)
				}
			}
			if g.childFk && st.Parent == "" {
				// a patch entered through the parent store may name fields of the child store it is routed to
				for _, c := range g.w.Stores {
					if c.Parent == st.Name && g.viaOf(root, op.Id) == c.Name {
						for _, f := range c.Fields {
							if g.r.chance(50) {
								op.Checker = append(op.Checker, f.Name)
							}
						}
					}
				}
			}
			op.Checker = c04ModelChecker(g.w, st.Name, op.Checker) // fields the strategy writes whatever the checker says (store_c04_api.go)
		}
		if g.childFk {
			g.c04cBelieveUpdate(&op, valid)
		} else if e, ok := g.ents[root][op.Id]; ok && valid {
			for f, v := range op.F {
				if !op.HasChk || containsStr(op.Checker, f) {
					e[f] = v
				}
			}
		}
		return op
	case k < 96:
		// delete: prefer entities that are referenced
		op := hOp{Kind: "D", Store: st.Name, Id: g.pickAlive(root)}
		if g.r.chance(60) {
			for try := 0; try < 5; try++ {
				r, c := g.referrers(root, op.Id)
				if len(r)+len(c) > 0 {
					break
				}
				op.Id = g.pickAlive(root)
			}
		}
		g.believeDelete(root, op.Id, 0)
		return op
	default:
		for _, s2 := range g.w.Stores {
			if len(s2.Links) > 0 {
				l := s2.Links[g.r.intn(len(s2.Links))]
				op := hOp{Kind: "AL", Store: s2.Name, Id: g.pickAlive(g.root(s2.Name)), LinkF: l.Local}
				if g.r.chance(30) {
					op.Kind = "RL"
				}
				for i, n := 0, 1+g.r.intn(2); i < n; i++ {
					op.Targets = append(op.Targets, g.pickAlive(g.root(l.Other)))
				}
				return op
			}
		}
		op := hOp{Kind: "D", Store: st.Name, Id: g.pickAlive(root)}
		g.believeDelete(root, op.Id, 0)
		return op
	}
}

func containsStr(l []string, x string) bool {
	for _, y := range l {
		if y == x {
			return true
		}
	}
	return false
}

func (g *c04Gen) genHistory() []hTx {
	n := 4 + g.r.intn(10)
	var txs []hTx
	// one history in four keeps ONE mutate context for all its transactions (pseudo veto "@ctx"): what the code
	// remembers per context then outlives the transaction; pre-commit actions stay registered on a context for
	// good and are therefore not combined with it
	g.shared = g.r.chance(25)
	g.graves = map[string][]string{}
	for i := 0; i < n; i++ {
		if g.diamond && (i == 0 || g.r.chance(22)) {
			// an entity reachable over two cascade paths, then the delete of the apex (store_c04_diamond.go)
			if r := g.diamondTxs(); len(r) > 0 {
				txs = append(txs, r...)
				g.nDiamond += len(r)
				continue
			}
		}
		if g.r.chance(14) || (i == 1 && g.reuseFirst) {
			// the life cycle of one fk target inside one context (store_c04_reuse.go)
			if r := g.reuseTxs(); len(r) > 0 {
				txs = append(txs, r...)
				g.nReuse += len(r)
				continue
			}
		}
		t := hTx{Sys: g.r.chance(12), PreCommitErr: g.r.chance(2)}
		if g.shared {
			t.PreCommitErr = false
			t.Vetoes = append(t.Vetoes, hVeto{Store: "@ctx", Change: "C", Id: ""})
		} else {
			g.graves = map[string][]string{}
		}
		ops := 1
		if k := g.r.intn(100); k >= 92 {
			ops = 4 + g.r.intn(4) // a long transaction: deletes and later re-use of their ids meet in one context
		} else if k >= 80 {
			ops = 3
		} else if k >= 58 {
			ops = 2
		}
		snapshot := g.snapshot()
		for j := 0; j < ops; j++ {
			t.Ops = append(t.Ops, g.genOp())
		}
		if g.r.chance(3) {
			t.Ops = append(t.Ops, hOp{Kind: "FAIL"})
		}
		if g.r.chance(3) {
			op := t.Ops[g.r.intn(len(t.Ops))]
			if ch, ok := map[string]string{"C": "C", "UP": "U", "D": "D"}[op.Kind]; ok {
				t.Vetoes = append(t.Vetoes, hVeto{Store: op.Store, Change: ch, Id: op.Id})
			}
		}
		if t.PreCommitErr || (len(t.Vetoes) > 0 && t.Vetoes[len(t.Vetoes)-1].Store != "@ctx") || t.Ops[len(t.Ops)-1].Kind == "FAIL" {
			g.ents = snapshot
		}
		txs = append(txs, t)
	}
	return txs
}

func (g *c04Gen) snapshot() map[string]map[string]map[string]*string {
	cp := map[string]map[string]map[string]*string{}
	for r, m := range g.ents {
		cp[r] = map[string]map[string]*string{}
		for id, e := range m {
			e2 := map[string]*string{}
			for f, v := range e {
				e2[f] = v
			}
			cp[r][id] = e2
		}
	}
	return cp
}

// sweepC04: for every hostile id a few fixed scenario shapes per cascade / restrict wiring: the hostile id
// as the id of the deleted target, of a referrer, and of an unrelated bystander
func sweepC04(stats map[string]int) []string {
	var lines []string
	one := func(ops ...hOp) hTx { return hTx{Ops: ops} }
	mk := func(store, id string, kv ...string) hOp {
		op := hOp{Kind: "C", Store: store, Id: id, F: map[string]*string{}, S: map[string][]string{}}
		for i := 0; i+1 < len(kv); i += 2 {
			op.F[kv[i]] = sp(kv[i+1])
		}
		return op
	}
	del := func(store, id string) hOp { return hOp{Kind: "D", Store: store, Id: id} }
	emit := func(wn string, txs []hTx) {
		w := wiringByName(wn)
		w.derive()
		var c strings.Builder
		c.WriteString(w.text())
		for k := range txs {
			c.WriteString(" ")
			c.WriteString(w.txText(&txs[k]))
		}
		lines = append(lines, c.String())
		stats["sweep"]++
	}
	for _, h := range hostileIdsC04 {
		// fkc: dept <-cascade- emp, room <-restrict- emp, emp <-restrict- emp(boss)
		emit("fkc", []hTx{
			one(mk("dept", h, "title", "t1")), one(mk("dept", "a", "title", "t2")), one(mk("room", h, "label", "l1")),
			one(mk("emp", "e1", "name", "n1", "dept", h, "room", h)), one(mk("emp", "e2", "name", "n2", "dept", "a")),
			one(mk("emp", h, "name", "n3", "dept", "a", "boss", "e2")),
			one(del("room", h)), one(del("emp", "e2")), one(del("dept", h)), one(del("room", h)), one(del("emp", h)), one(del("dept", "a")),
		})
		// casc: a <-cascade- b <-cascade- c ; a <-restrict- c.a
		emit("casc", []hTx{
			one(mk("a", h, "name", "n1")), one(mk("a", "a", "name", "n2")),
			one(mk("b", h, "name", "x", "a", h)), one(mk("b", "b", "name", "y", "a", "a")), one(mk("b", "b2", "name", "y", "a", h)),
			one(mk("c", "c1", "b", h)), one(mk("c", h, "b", "b")), one(mk("c", "c3", "b", "b", "a", h)),
			one(del("a", h)), one(del("c", "c3")), one(del("a", h)), one(del("b", "b")), one(del("a", "a")),
		})
		// cyc without cycle: chain h <- n1 <- n2, leaf on each
		emit("cyc", []hTx{
			one(mk("n", h, "name", "x")), one(mk("n", "a", "name", "x")), one(mk("n", "n1", "name", "x", "next", h)), one(mk("n", "n2", "name", "x", "next", "n1")),
			one(mk("n", "n3", "name", "x", "next", "a")), one(mk("leaf", "l1", "n", "n2")), one(mk("leaf", h, "n", "a")), one(mk("leaf", "l3", "n", h)),
			one(mk("q", h)), one(mk("p", "p1", "q", h)), one(mk("p", "p2")), one(mk("q", "q2", "p", "p1")),
			one(del("n", h)), one(del("q", h)), one(del("n", "a")),
		})
	}
	return lines
}

// exhaustC04: bounded-exhaustive histories over the self-referencing store n of the cyc wiring: ids {a, b},
// operations create / full update with next in {nil, a, b} and delete (14 operations), one per transaction,
// every sequence of length 1..maxLen. Covers self references, two-cycles, re-parenting and chains.
func exhaustC04(maxLen int, stats map[string]int) []string {
	w := wiringByName("cyc")
	w.derive()
	var ops []hOp
	for _, id := range []string{"a", "b"} {
		for _, next := range []*string{nil, sp("a"), sp("b")} {
			f := map[string]*string{"name": sp("x")}
			if next != nil {
				f["next"] = next
			}
			ops = append(ops, hOp{Kind: "C", Store: "n", Id: id, F: f, S: map[string][]string{}})
			ops = append(ops, hOp{Kind: "UP", Store: "n", Id: id, F: f, S: map[string][]string{}})
		}
		ops = append(ops, hOp{Kind: "D", Store: "n", Id: id})
	}
	var lines []string
	var rec func(prefix []hTx, depth int)
	rec = func(prefix []hTx, depth int) {
		if len(prefix) > 0 {
			var c strings.Builder
			c.WriteString(w.text())
			for k := range prefix {
				c.WriteString(" ")
				c.WriteString(w.txText(&prefix[k]))
			}
			lines = append(lines, c.String())
			stats["exhaustive"]++
		}
		if depth == maxLen {
			return
		}
		for i := range ops {
			next := append(append([]hTx{}, prefix...), hTx{Ops: []hOp{ops[i]}})
			rec(next, depth+1)
		}
	}
	rec(nil, 0)
	return lines
}

// genC04 produces the seeded history stream of the C04 check: the four wirings in rotation; every
// second round of four draws its ids from the hostile alphabet (so every wiring meets hostile ids).
func genC04(seed int64, n int, stats map[string]int) []string {
	return genC04W(seed, n, c04Wirings, stats)
}

// genC04W: the same stream over the given wirings (store_c04_api.go: the wirings whose checker names differ from the storage keys)
func genC04W(seed int64, n int, c04Wirings []string, stats map[string]int) []string {
	r := newRng(seed)
	var lines []string
	for i := 0; i < n; i++ {
		w := wiringByName(c04Wirings[i%len(c04Wirings)])
		w.derive()
		ids := plainIds
		hostile := (i/len(c04Wirings))%2 == 0
		if hostile {
			ids = nil
			for k := 0; k < 4; k++ {
				ids = append(ids, hostileIdsC04[r.intn(len(hostileIdsC04))])
			}
			ids = append(ids, "a", "b")
			stats["stream_hostile_ids"]++
		} else {
			stats["stream_plain_ids"]++
		}
		g := newC04Gen(r, w, ids)
		g.reuseFirst = (i/(2*len(c04Wirings)))%3 == 0
		txs := g.genHistory()
		stats["tx_reuse_lifecycle"] += g.nReuse
		if g.shared {
			stats["histories_shared_ctx"]++
		}
		var c strings.Builder
		c.WriteString(w.text())
		for k := range txs {
			c.WriteString(" ")
			c.WriteString(w.txText(&txs[k]))
		}
		lines = append(lines, c.String())
		stats["histories"]++
		stats["wiring_"+w.Name]++
		stats["tx"] += len(txs)
		for _, t := range txs {
			stats["ops"] += len(t.Ops)
			if len(t.Ops) >= 4 {
				stats["tx_4plus_ops"]++
			}
			for _, op := range t.Ops {
				stats["op_"+op.Kind]++
			}
		}
	}
	return lines
}

const crashSegment = "TX R CRASH:%s ROLLBACK ST | "

func runStoreIso(o *opts) error {
	stats := map[string]int{}
	n := 400
	if o.thorough() {
		n = 6000
	}
	if o.n > 0 {
		n = o.n
	}
	var lines []string
	if cp := o.get("corpus", ""); cp != "" {
		data, err := os.ReadFile(cp)
		if err != nil {
			return err
		}
		for _, line := range strings.Split(string(data), "\n") {
			line = strings.TrimSpace(line)
			if line == "" || strings.HasPrefix(line, "#") {
				continue
			}
			w, txs, err := parseCase(line)
			if err != nil {
				return fmt.Errorf("corpus %s: %v", cp, err)
			}
			var c strings.Builder
			c.WriteString(w.text())
			for k := range txs {
				c.WriteString(" ")
				c.WriteString(w.txText(&txs[k]))
			}
			lines = append(lines, c.String())
			stats["corpus"]++
		}
	}
	if !(o.n == 0 && o.get("corpus", "") != "" && o.get("profile", "") == "") {
		if o.get("sweep", "1") == "1" {
			lines = append(lines, sweepC04(stats)...)
			if o.thorough() {
				lines = append(lines, exhaustC04(3, stats)...)
				lines = append(lines, exhaustCtxC04(3, true, stats)...)
				lines = append(lines, exhaustCtxC04(3, false, stats)...)
			} else {
				lines = append(lines, exhaustC04(2, stats)...)
				lines = append(lines, exhaustCtxC04(3, true, stats)...)
				lines = append(lines, exhaustCtxC04(2, false, stats)...)
			}
		}
		lines = append(lines, genC04(o.seed, n, stats)...)
		if o.get("sweep", "1") == "1" {
			if o.thorough() {
				lines = append(lines, exhaustApiC04(3, stats)...)
			} else {
				lines = append(lines, exhaustApiC04(2, stats)...)
			}
		}
		lines = append(lines, genC04W(o.seed+7919, n*2/5, c04ApiWirings, stats)...)
		// fk edges that start or end at a child store (store_c04_child.go)
		if o.get("sweep", "1") == "1" {
			if o.thorough() {
				lines = append(lines, c04ExhaustScenarios(c04ChildScenarios(), 3, "exhaustive_child", stats)...)
			} else {
				lines = append(lines, c04ExhaustScenarios(c04ChildScenarios(), 2, "exhaustive_child", stats)...)
			}
		}
		lines = append(lines, genC04W(o.seed+104729, n*2/5, c04ChildWirings, stats)...)
		// referrers reachable over two cascade paths (store_c04_diamond.go)
		if o.get("sweep", "1") == "1" {
			if o.thorough() {
				lines = append(lines, c04ExhaustScenarios(c04DiamondScenarios(), 3, "exhaustive_diamond", stats)...)
			} else {
				lines = append(lines, c04ExhaustScenarios(c04DiamondScenarios(), 2, "exhaustive_diamond", stats)...)
			}
		}
		lines = append(lines, genC04Diamond(o.seed+15485863, n*2/5, stats)...)
	}
	cases := newLineWriter(o.out, "cases.txt")
	for _, l := range lines {
		cases.line("%s", l)
	}
	cases.close()

	tmp := o.get("tmp", os.TempDir())
	perCase := time.Duration(o.getInt("case-timeout", 20)) * time.Second
	obs := make([]string, len(lines))
	from := 0
	for from < len(lines) {
		done, cur, partial, kind := runChildBatch(o.out+"/cases.txt", from, tmp, perCase, obs)
		if done {
			break
		}
		// the child died while executing case cur
		obs[cur] = partial + fmt.Sprintf(crashSegment, kind)
		stats["crash_"+kind]++
		stats["children_restarted"]++
		from = cur + 1
	}
	impl := newLineWriter(o.out, "impl.txt")
	for _, l := range obs {
		impl.line("%s", l)
		stats["obs_commit"] += strings.Count(l, " COMMIT")
		stats["obs_rollback"] += strings.Count(l, " ROLLBACK")
		for _, k := range []string{" dup", " notfound", " refexists", " err"} {
			stats["res_"+strings.TrimSpace(k)] += strings.Count(l, k+" ")
		}
	}
	impl.close()
	writeJSON(o.out, "stats.json", stats)
	fmt.Fprintf(os.Stderr, "store-iso: %d histories, %d children restarted\n", len(lines), stats["children_restarted"])
	return nil
}

// runChildBatch runs one child from case index `from`; it fills obs for every completed case.
// Returns done=true when the child finished all cases; else the index of the case it died on, the
// segments of that case completed so far and the kind of death.
func runChildBatch(casesPath string, from int, tmp string, perCase time.Duration, obs []string) (bool, int, string, string) {
	cmd := exec.Command("/bin/sh", "-c", `ulimit -v 8388608 2>/dev/null; exec "$0" "$@"`, os.Args[0], "store-child",
		"--cases", casesPath, "--from", strconv.Itoa(from), "--tmp", tmp)
	cmd.Env = append(os.Environ(), "GOMEMLIMIT=1GiB", "GOTRACEBACK=single")
	stdout, err := cmd.StdoutPipe()
	if err != nil {
		panic(err)
	}
	var errBuf tailBuffer
	cmd.Stderr = &errBuf
	if err := cmd.Start(); err != nil {
		panic(err)
	}
	cur := from
	partial := ""
	timedOut := false
	var mu sync.Mutex
	last := time.Now()
	stop := make(chan struct{})
	go func() { // watchdog: no progress on one case for perCase => kill
		t := time.NewTicker(200 * time.Millisecond)
		defer t.Stop()
		for {
			select {
			case <-stop:
				return
			case <-t.C:
				mu.Lock()
				idle := time.Since(last)
				mu.Unlock()
				if idle > perCase {
					mu.Lock()
					timedOut = true
					mu.Unlock()
					_ = cmd.Process.Kill()
					return
				}
			}
		}
	}()
	rd := bufio.NewReaderSize(stdout, 1<<20)
	finished := false
	for {
		line, err := rd.ReadString('\n')
		if len(line) > 0 && strings.HasSuffix(line, "\n") {
			line = strings.TrimSuffix(line, "\n")
			mu.Lock()
			last = time.Now()
			mu.Unlock()
			switch {
			case strings.HasPrefix(line, "B "):
				cur, _ = strconv.Atoi(line[2:])
				partial = ""
			case strings.HasPrefix(line, "S "):
				partial += line[2:]
			case strings.HasPrefix(line, "E "):
				obs[cur] = partial
				partial = ""
				cur++
			case line == "DONE":
				finished = true
			}
		}
		if err != nil {
			if err != io.EOF {
				fmt.Fprintln(os.Stderr, "store-iso: read:", err)
			}
			break
		}
	}
	close(stop)
	werr := cmd.Wait()
	if finished && werr == nil {
		return true, 0, "", ""
	}
	mu.Lock()
	to := timedOut
	mu.Unlock()
	kind := "exit"
	es := errBuf.String()
	switch {
	case to:
		kind = "timeout"
	case strings.Contains(es, "stack overflow") || strings.Contains(es, "stack exceeds"):
		kind = "stackoverflow"
	case strings.Contains(es, "out of memory") || strings.Contains(es, "cannot allocate"):
		kind = "oom"
	case strings.Contains(es, "panic:"):
		kind = "panic"
	}
	if finished { // all cases done but a non-zero exit: report on the last case
		return true, 0, "", ""
	}
	if cur >= len(obs) {
		return true, 0, "", ""
	}
	return false, cur, partial, kind
}

// tailBuffer keeps the first 64 KiB of what is written to it (the fatal error message comes first)
type tailBuffer struct {
	mu  sync.Mutex
	buf []byte
}

func (t *tailBuffer) Write(p []byte) (int, error) {
	t.mu.Lock()
	if len(t.buf) < 1<<16 {
		k := 1<<16 - len(t.buf)
		if k > len(p) {
			k = len(p)
		}
		t.buf = append(t.buf, p[:k]...)
	}
	t.mu.Unlock()
	return len(p), nil
}

func (t *tailBuffer) String() string {
	t.mu.Lock()
	defer t.mu.Unlock()
	return string(t.buf)
}

func runStoreChild(o *opts) error {
	debug.SetMaxStack(2 << 20) // legit depth is a few dozen frames; unbounded recursion ends quickly, as "fatal error: stack overflow"
	data, err := os.ReadFile(o.get("cases", ""))
	if err != nil {
		return err
	}
	from := o.getInt("from", 0)
	tmp := o.get("tmp", os.TempDir())
	out := bufio.NewWriterSize(os.Stdout, 1<<16)
	idx := -1
	for _, line := range strings.Split(string(data), "\n") {
		if strings.TrimSpace(line) == "" {
			continue
		}
		idx++
		if idx < from {
			continue
		}
		w, txs, err := parseCase(line)
		if err != nil {
			return fmt.Errorf("case %d: %v", idx, err)
		}
		fmt.Fprintf(out, "B %d\n", idx)
		out.Flush()
		h, err := openHarnessDb(w, tmp)
		if err != nil {
			return err
		}
		for k := range txs {
			seg := h.runTx(&txs[k])
			fmt.Fprintf(out, "S %s\n", seg)
			out.Flush()
		}
		h.close()
		fmt.Fprintf(out, "E %d\n", idx)
		out.Flush()
	}
	fmt.Fprintln(out, "DONE")
	out.Flush()
	return nil
}
