package main

import (
	"fmt"
	"os"
	"path/filepath"
	"sort"
	"strconv"
	"strings"
	"sync"
	"time"

	"github.com/openziti/storage/ast"
	"github.com/openziti/storage/boltz"
	"go.etcd.io/bbolt"
)

// C12, stream k: keywords and WORD OPERATORS are case-insensitive, and white space may be added wherever the
// grammar allows white space - INSIDE the atoms of a filter and in the sort / skip / limit clauses, not only
// around and / or / not.
//
// A query is written as a template in which every place the grammar lets the author choose is a SITE:
//
//	{word}  a keyword / word operator made of letter fragments (any letter case):  in between contains icontains
//	        not and or true false null anyOf allOf count isEmpty from where sort by asc desc skip limit none,
//	        and the T / Z of an RFC3339 instant inside datetime(...)
//	~       WS+   (canonical: one blank)            |   WS*  (canonical: nothing)
//	@       exactly one WS character (the token rule IN is `(N O T WS)? I N`; canonical: one blank)
//	<not+>  nothing, or `{not}~` as part of the two-word operators  not between / not contains / not icontains
//	<not1>  nothing, or `{not}@` as part of  not in
//
// everything else is literal text (identifiers, strings, numbers, punctuation).  The canonical spelling and a
// re-spelling of the same template are run through Store.QueryIds of a real boltz store over a small dataset;
// the property's oracle is: same ids in the same order and the same count as the canonical spelling.
//
// Case line:   K <stream> <site class> <store> <hex canonical query> <hex re-spelled query>
// Observation: K <token kinds of the re-spelling> <lexer errors> <result canonical> <result re-spelling>
// result = <count>:<hex id>,<hex id>,... | E (rejected) | P (panic)

type c12kSite struct {
	kind byte // 'L' literal, 'K' keyword, '+' WS+, '*' WS*, '1' one WS
	text string
	inOp bool // part of a word operator token (in / between / contains / icontains and their not-forms)
}

var c12kOpWords = map[string]bool{"in": true, "between": true, "contains": true, "icontains": true}

// c12kParse turns a template into sites; neg selects the expansion of <not+> / <not1>
func c12kParse(tpl string, neg bool) []c12kSite {
	var sites []c12kSite
	lit := func(s string) {
		if n := len(sites); n > 0 && sites[n-1].kind == 'L' {
			sites[n-1].text += s
		} else {
			sites = append(sites, c12kSite{kind: 'L', text: s})
		}
	}
	for i := 0; i < len(tpl); {
		switch c := tpl[i]; {
		case strings.HasPrefix(tpl[i:], "<not+>"), strings.HasPrefix(tpl[i:], "<not1>"):
			if neg {
				k := byte('+')
				if tpl[i+4] == '1' {
					k = '1'
				}
				sites = append(sites, c12kSite{kind: 'K', text: "not", inOp: true}, c12kSite{kind: k, inOp: true})
			}
			i += 6
		case c == '{':
			j := i + strings.IndexByte(tpl[i:], '}')
			w := tpl[i+1 : j]
			sites = append(sites, c12kSite{kind: 'K', text: w, inOp: c12kOpWords[w]})
			i = j + 1
		case c == '~':
			sites = append(sites, c12kSite{kind: '+'})
			i++
		case c == '|':
			sites = append(sites, c12kSite{kind: '*'})
			i++
		case c == '@':
			sites = append(sites, c12kSite{kind: '1'})
			i++
		default:
			lit(string(c))
			i++
		}
	}
	return sites
}

func c12kCanonSite(s c12kSite) string {
	switch s.kind {
	case '+', '1':
		return " "
	case '*':
		return ""
	}
	return s.text
}

// c12kSpell spells the sites; choose returns the spelling of a non-literal site ("" + ok=false: canonical)
func c12kSpell(sites []c12kSite, choose func(i int, s c12kSite) (string, bool)) string {
	var b strings.Builder
	for i, s := range sites {
		if s.kind != 'L' && choose != nil {
			if v, ok := choose(i, s); ok {
				b.WriteString(v)
				continue
			}
		}
		b.WriteString(c12kCanonSite(s))
	}
	return b.String()
}

var c12kWsOne = []string{" ", "\t", "\n", "\r"}

func c12kCase(w string, mode int, r *rng) string {
	b := []byte(w)
	for i := range b {
		lower := b[i] | 0x20
		upper := lower &^ 0x20
		switch mode {
		case 0:
			b[i] = upper
		case 1:
			b[i] = lower
		case 2: // Capitalised
			if i == 0 {
				b[i] = upper
			} else {
				b[i] = lower
			}
		case 3: // aLTERNATING
			if i%2 == 0 {
				b[i] = lower
			} else {
				b[i] = upper
			}
		default:
			if r.chance(50) {
				b[i] = upper
			} else {
				b[i] = lower
			}
		}
	}
	return string(b)
}

// the spellings tried at a single site (everything else canonical)
func c12kSiteVariants(s c12kSite) []string {
	switch s.kind {
	case 'K':
		var out []string
		seen := map[string]bool{s.text: true}
		for m := 0; m <= 3; m++ {
			if v := c12kCase(s.text, m, nil); !seen[v] {
				seen[v] = true
				out = append(out, v)
			}
		}
		return out
	case '+':
		return []string{"  ", "\t", "\n", "\r", " \t\n", "\r\n"}
	case '*':
		return []string{" ", "\t", "  ", "\n\r "}
	case '1':
		return []string{"\t", "\n", "\r"}
	}
	return nil
}

func c12kRandomSite(s c12kSite, r *rng, maxWs int) string {
	ws := func(min int) string {
		n := min + r.intn(maxWs-min+1)
		var b strings.Builder
		for i := 0; i < n; i++ {
			b.WriteString(c12kWsOne[r.intn(len(c12kWsOne))])
		}
		return b.String()
	}
	switch s.kind {
	case 'K':
		return c12kCase(s.text, r.intn(6), r)
	case '+':
		return ws(1)
	case '*':
		return ws(0)
	case '1':
		return c12kWsOne[r.intn(len(c12kWsOne))]
	}
	return s.text
}

// ---- the dataset ------------------------------------------------------------------------------------------

type c12kPerson struct {
	id, name string
	nick     *string
	age      int64
	score    float64
	active   bool
	born     string
	tags     []string
	places   []string
}

func c12kStr(s string) *string { return &s }

var c12kPeople = []c12kPerson{
	{"p1", "alice", c12kStr("Al"), 1, 1.5, true, "2019-06-01T00:00:00Z", []string{"red", "blue"}, []string{"x1", "x2"}},
	{"p2", "Bob", nil, 2, 2, false, "2020-06-01T00:00:00Z", []string{"blue"}, []string{"x2"}},
	{"p3", "carol", c12kStr("CC"), 3, 2.5, true, "2021-06-01T00:00:00Z", nil, nil},
	{"p4", "dALIce", nil, 5, 3.5, false, "2022-06-01T00:00:00Z", []string{"red", "green", "blue"}, []string{"x1", "x2", "x3"}},
	{"p5", "eve", c12kStr("e v"), 8, 4.25, true, "2023-06-01T00:00:00Z", []string{"green"}, []string{"x3"}},
	{"p6", "not in", c12kStr("between"), 13, -1, false, "2024-06-01T00:00:00Z", []string{"RED"}, []string{"x1"}},
	{"p7", "alice", c12kStr("and or"), 3, 1.5, true, "2020-06-01T00:00:00Z", []string{"green", "tree"}, []string{"x2", "x3"}},
}

var c12kPlaces = []struct {
	id, name string
	zip      int64
	open     bool
}{{"x1", "alpha", 10, true}, {"x2", "Beta", 20, false}, {"x3", "gamma", 30, true}}

type c12kDb struct {
	db     *bbolt.DB
	file   string
	stores map[string]boltz.ConfigurableStore
}

func c12kOpen(dir string) (*c12kDb, error) {
	f := filepath.Join(dir, fmt.Sprintf("c12k-%d.db", os.Getpid()))
	_ = os.Remove(f)
	db, err := bbolt.Open(f, 0o600, &bbolt.Options{NoSync: true, NoFreelistSync: true, Timeout: 5 * time.Second})
	if err != nil {
		return nil, err
	}
	peopleDef := (&boltz.StoreDefinition[boltz.Entity]{EntityType: "people"}).WithBasePath("ckw")
	placesDef := (&boltz.StoreDefinition[boltz.Entity]{EntityType: "places"}).WithBasePath("ckw")
	people := boltz.NewBaseStore(*peopleDef)
	places := boltz.NewBaseStore(*placesDef)
	places.AddIdSymbol("id", ast.NodeTypeString)
	places.AddSymbol("name", ast.NodeTypeString)
	places.AddSymbol("zip", ast.NodeTypeInt64)
	places.AddSymbol("open", ast.NodeTypeBool)
	people.AddIdSymbol("id", ast.NodeTypeString)
	people.AddSymbol("name", ast.NodeTypeString)
	people.AddSymbol("nick", ast.NodeTypeString)
	people.AddSymbol("age", ast.NodeTypeInt64)
	people.AddSymbol("score", ast.NodeTypeFloat64)
	people.AddSymbol("active", ast.NodeTypeBool)
	people.AddSymbol("born", ast.NodeTypeDatetime)
	people.AddSetSymbol("tags", ast.NodeTypeString)
	people.AddFkSetSymbol("places", places)
	err = db.Update(func(tx *bbolt.Tx) error {
		pb := boltz.GetOrCreatePath(tx, "ckw", "places")
		for _, p := range c12kPlaces {
			eb := pb.GetOrCreatePath(p.id)
			eb.SetString("name", p.name, nil)
			eb.SetInt64("zip", p.zip, nil)
			eb.SetBool("open", p.open, nil)
			if eb.Err != nil {
				return eb.Err
			}
		}
		eb0 := boltz.GetOrCreatePath(tx, "ckw", "people")
		for _, p := range c12kPeople {
			eb := eb0.GetOrCreatePath(p.id)
			eb.SetString("name", p.name, nil)
			eb.SetStringP("nick", p.nick, nil)
			eb.SetInt64("age", p.age, nil)
			eb.SetFloat64("score", p.score, nil)
			eb.SetBool("active", p.active, nil)
			t, err := time.Parse(time.RFC3339, p.born)
			if err != nil {
				return err
			}
			eb.SetTimeP("born", &t, nil)
			eb.SetStringList("tags", p.tags, nil)
			eb.SetStringList("places", p.places, nil)
			if eb.Err != nil {
				return eb.Err
			}
		}
		if pb.Err != nil {
			return pb.Err
		}
		return eb0.Err
	})
	if err != nil {
		_ = db.Close()
		return nil, err
	}
	return &c12kDb{db: db, file: f, stores: map[string]boltz.ConfigurableStore{"people": people, "places": places}}, nil
}

func (d *c12kDb) close() {
	_ = d.db.Close()
	_ = os.Remove(d.file)
}

func (d *c12kDb) run(store, text string) (res string) {
	defer func() {
		if r := recover(); r != nil {
			res = "P"
		}
	}()
	st := d.stores[store]
	if st == nil {
		return "E"
	}
	_ = d.db.View(func(tx *bbolt.Tx) error {
		ids, count, err := st.QueryIds(tx, text)
		if err != nil {
			res = "E"
			return nil
		}
		res = fmt.Sprintf("%d:%s", count, qIdsStr(ids))
		return nil
	})
	return res
}

// ---- the templates ------------------------------------------------------------------------------------------

const c12kD1 = "datetime(|2020-01-01{T}00:00:00{Z}|)"
const c12kD2 = "datetime(|2022-01-01{T}00:00:00.5{Z}|)"
const c12kD3 = "datetime(|2021-06-01{T}02:00:00+02:00|)"

// atoms over the store `people`; every one is true of some rows and false of others
var c12kAtomTpls = []string{
	// word operators (each in its plain and its negated form)
	`age~<not+>{between}~2~{and}~8`,
	`age~<not+>{between}~-1~{and}~3`,
	`score~<not+>{between}~1.5~{and}~3.5`,
	`born~<not+>{between}~` + c12kD1 + `~{and}~` + c12kD2,
	`{anyOf}(|places.zip|)~<not+>{between}~15~{and}~25`,
	`{count}(|tags|)~<not+>{between}~1~{and}~3`,
	`age~<not1>{in}~[|1|,|2|,|13|]`,
	`age~<not1>{in}~[3]`,
	`score~<not1>{in}~[|1.5|,|2|]`,
	`name~<not1>{in}~[|"alice"|,|"eve"|]`,
	`name~<not1>{in}~[|"not in"|,|"Bob"|]`,
	`born~<not1>{in}~[|` + c12kD3 + `|,|` + c12kD1 + `|]`,
	`{anyOf}(|tags|)~<not1>{in}~[|"red"|,|"green"|]`,
	`{allOf}(|tags|)~<not1>{in}~[|"red"|,|"blue"|]`,
	`name~<not+>{contains}~"li"`,
	`name~<not+>{contains}~"not"`,
	`nick~<not+>{contains}~"between"`,
	`age~<not+>{contains}~3`,
	`{anyOf}(|tags|)|<not+>{contains}~"ee"`,
	`{allOf}(|tags|)|<not+>{contains}~"e"`,
	`name~<not+>{icontains}~"LI"`,
	`name~<not+>{icontains}~"NOT IN"`,
	`{anyOf}(|tags|)|<not+>{icontains}~"Red"`,
	`{anyOf}(|places.name|)~<not+>{icontains}~"ALPHA"`,
	// comparison operators, constants
	`name|=|"alice"`, `name|!=|"alice"`, `name|<|"c"`, `name|>=|"carol"`, `name|=|"not in"`,
	`age|=|3`, `age|!=|3`, `age|<|3`, `age|<=|3`, `age|>|3`, `age|>=|3`, `score|>|2.0`,
	`active|=|{true}`, `active|=|{false}`, `active|!=|{true}`, `active`,
	`nick|=|{null}`, `nick|!=|{null}`,
	`born|<|` + c12kD2, `born|>=|` + c12kD3, `born|=|` + c12kD3,
	// set functions and sub-queries
	`{anyOf}(|tags|)|=|"red"`, `{allOf}(|tags|)|!=|"red"`, `{allOf}(|tags|)|=|"blue"`,
	`{count}(|tags|)|>|1`, `{count}(|places|)|=|2`, `{isEmpty}(|tags|)`, `{isEmpty}(|places|)`,
	`{anyOf}(|places.name|)|=|"alpha"`, `{allOf}(|places.open|)|=|{true}`, `{anyOf}(|places|)|=|"x3"`,
	`{isEmpty}(|{from}~places~{where}~zip|>|15|)`,
	`{count}(|{from}~places~{where}~name~<not+>{contains}~"l"|)|>=|1`,
	`{isEmpty}(|{from}~places~{where}~open|=|{true}~{and}~zip~<not1>{in}~[|10|]|)`,
	`{count}(|{from}~places~{where}~name|=|"gamma"~{or}~{not}~(|zip~<not+>{between}~10~{and}~21|)|)|=|1`,
}

// constant atoms (all rows / no row)
var c12kConstTpls = []string{`{true}`, `{false}`}

// boolean skeletons over atoms A B C
var c12kShapes = []string{
	`A`, `A`, `A~{and}~B`, `A~{or}~B`, `{not}~A`, `{not}~(|A|)`, `(|A|)`,
	`(|A~{or}~B|)~{and}~C`, `A~{and}~{not}~(|B~{or}~C|)`, `A~{or}~B~{and}~C`, `A~{and}~B~{or}~C`,
	`{not}~(|A~{and}~B|)~{or}~C`, `(|(|A|)~{and}~B|)`,
}

// sort / skip / limit clauses (appended to a predicate with `~`, or on their own)
var c12kSorts = []string{
	``, ``, `{sort}~{by}~age`, `{sort}~{by}~name~{desc}`, `{sort}~{by}~active~{asc}|,|age~{desc}`,
	`{sort}~{by}~name~{asc}|,|id~{desc}`, `{sort}~{by}~score~{desc}|,|name|,|id~{asc}`, `{sort}~{by}~born~{desc}`,
}
var c12kSkips = []string{``, ``, `{skip}~1`, `{skip}~3`, `{skip}~0`}
var c12kLimits = []string{``, ``, `{limit}~2`, `{limit}~{none}`, `{limit}~1`, `{limit}~100`}

type c12kJob struct {
	stream, class, store string
	canon, resp          string
	caseLine, implLine   string
}

func c12kJoin(parts ...string) string {
	var ps []string
	for _, p := range parts {
		if p != "" {
			ps = append(ps, p)
		}
	}
	return strings.Join(ps, "~")
}

func c12kClass(sites []c12kSite, changed []int) string {
	if len(changed) == 0 {
		return "none"
	}
	op, kw, ws := false, false, false
	for _, i := range changed {
		switch {
		case sites[i].inOp:
			op = true
		case sites[i].kind == 'K':
			kw = true
		default:
			ws = true
		}
	}
	switch {
	case op && !kw && !ws:
		return "op"
	case kw && !op && !ws:
		return "kw"
	case ws && !op && !kw:
		return "ws"
	}
	return "mix"
}

// c12kGenerate produces the jobs of stream k
func c12kGenerate(o *opts, r *rng, stats map[string]int) []*c12kJob {
	var jobs []*c12kJob
	add := func(stream, store string, sites []c12kSite, choose func(i int, s c12kSite) (string, bool)) {
		canon := c12kSpell(sites, nil)
		var changed []int
		resp := c12kSpell(sites, func(i int, s c12kSite) (string, bool) {
			v, ok := choose(i, s)
			if ok && v != c12kCanonSite(s) {
				changed = append(changed, i)
			}
			return v, ok
		})
		if resp == canon {
			return
		}
		class := c12kClass(sites, changed)
		jobs = append(jobs, &c12kJob{stream: stream, class: class, store: store, canon: canon, resp: resp})
		stats["stream_"+stream]++
		stats["k_class_"+class]++
	}

	// all atoms, both forms of the word operators
	type atom struct {
		tpl   string
		neg   bool
		hasOp bool
	}
	var atoms []atom
	for _, t := range c12kAtomTpls {
		hasOp := strings.Contains(t, "<not")
		atoms = append(atoms, atom{t, false, hasOp})
		if hasOp {
			atoms = append(atoms, atom{t, true, true})
		}
	}
	stats["k_atoms"] = len(atoms)

	// k1: ONE site re-spelled, everything else canonical - every site of every atom, every variant
	whole := func(tpl string) string { return "|" + tpl + "|" }
	for _, a := range atoms {
		sites := c12kParse(whole(a.tpl), a.neg)
		for si, s := range sites {
			for _, v := range c12kSiteVariants(s) {
				si, v := si, v
				add("k1", "people", sites, func(i int, _ c12kSite) (string, bool) { return v, i == si })
			}
		}
	}
	// the clauses, one site at a time (with and without a predicate)
	var clauseTpls []string
	for _, s := range c12kSorts {
		for _, k := range c12kSkips {
			for _, l := range c12kLimits {
				if c := c12kJoin(s, k, l); c != "" {
					clauseTpls = append(clauseTpls, c)
				}
			}
		}
	}
	for ci, c := range clauseTpls {
		if !o.thorough() && ci%4 != 1 {
			continue
		}
		tpls := []string{whole(c)}
		if ci%3 == 0 {
			tpls = append(tpls, whole(c12kJoin(`age|>|1`, c)))
		}
		for _, t := range tpls {
			sites := c12kParse(t, false)
			for si, s := range sites {
				vs := c12kSiteVariants(s)
				if !o.thorough() && len(vs) > 2 {
					vs = []string{vs[(ci+si)%len(vs)], vs[(ci+si+1)%len(vs)]}
				}
				for _, v := range vs {
					si, v := si, v
					add("k1", "people", sites, func(i int, _ c12kSite) (string, bool) { return v, i == si })
				}
			}
		}
	}

	// k2: ALL sites of an atom re-spelled in one uniform style
	styles := []struct {
		kwMode int
		plus   string
		star   string
		one    string
	}{
		{0, " ", "", " "}, {2, " ", "", " "}, {3, " ", "", " "}, {1, "  ", " ", " "}, {1, "\t", "", "\t"}, {1, "\n", "\n", "\n"},
		{0, "\r\n", " ", "\r"}, {3, " \t ", "\t", "\t"}, {0, "   ", "  ", "\n"},
	}
	for _, a := range atoms {
		sites := c12kParse(whole(a.tpl), a.neg)
		for _, st := range styles {
			st := st
			add("k2", "people", sites, func(_ int, s c12kSite) (string, bool) {
				switch s.kind {
				case 'K':
					return c12kCase(s.text, st.kwMode, nil), true
				case '+':
					return st.plus, true
				case '*':
					return st.star, true
				case '1':
					return st.one, true
				}
				return "", false
			})
		}
	}

	// k3: random skeletons over random atoms with random clauses, every site re-spelled at random
	n3 := 700
	if o.thorough() {
		n3 = 12000
	}
	n3 = o.getInt("nk", n3)
	pickAtom := func() string {
		if r.chance(4) {
			return c12kConstTpls[r.intn(len(c12kConstTpls))]
		}
		a := atoms[r.intn(len(atoms))]
		// resolve the negation markers here: a compound template is parsed once, with neg=false
		t := a.tpl
		if a.neg {
			t = strings.ReplaceAll(t, "<not+>", "\x01")
			t = strings.ReplaceAll(t, "<not1>", "\x02")
		} else {
			t = strings.ReplaceAll(t, "<not+>", "")
			t = strings.ReplaceAll(t, "<not1>", "")
		}
		return t
	}
	for i := 0; i < n3; i++ {
		shape := c12kShapes[r.intn(len(c12kShapes))]
		var b strings.Builder
		for _, c := range []byte(shape) {
			if c == 'A' || c == 'B' || c == 'C' {
				b.WriteString(pickAtom())
			} else {
				b.WriteByte(c)
			}
		}
		pred := b.String()
		if r.chance(6) {
			pred = ""
		}
		tpl := c12kJoin(pred, c12kSorts[r.intn(len(c12kSorts))], c12kSkips[r.intn(len(c12kSkips))], c12kLimits[r.intn(len(c12kLimits))])
		if tpl == "" {
			continue
		}
		// negation markers of compound templates: \x01 = {not}~ inside an operator, \x02 = {not}@
		tpl = strings.ReplaceAll(tpl, "\x01", "<not+>")
		tpl = strings.ReplaceAll(tpl, "\x02", "<not1>")
		sites := c12kParse(whole(tpl), true)
		maxWs := 1 + r.intn(3)
		canonPct := []int{0, 0, 30, 70}[r.intn(4)]
		add("k3", "people", sites, func(_ int, s c12kSite) (string, bool) {
			if r.chance(canonPct) {
				return "", false
			}
			return c12kRandomSite(s, r, maxWs), true
		})
	}

	// k4: LONG filters (tens to hundreds of clauses, as generated id / role filters are) in the uniform styles:
	// the compact canonical spelling against pretty-printed / tabbed / multi-line spellings of thousands of tokens
	longClauses := []string{`age|=|3`, `name|=|"alice"`, `age~{between}~2~{and}~8`, `score|>|2.0`, `active|=|{true}`,
		`name~{not}~{contains}~"li"`, `age~{not}@{in}~[|1|,|2|,|13|]`, `{anyOf}(|tags|)|=|"red"`}
	longSizes := []int{20, 60, 120, 200}
	if o.thorough() {
		longSizes = append(longSizes, 400, 800)
	}
	for _, n := range longSizes {
		for variant := 0; variant < 3; variant++ {
			var b strings.Builder
			for i := 0; i < n; i++ {
				if i > 0 {
					switch {
					case variant == 0, variant == 2 && i%3 == 0:
						b.WriteString(`~{or}~`)
					default:
						if variant == 1 && i%2 == 0 {
							b.WriteString(`~{or}~`)
						} else {
							b.WriteString(`~{and}~`)
						}
					}
				}
				if variant == 0 {
					b.WriteString(longClauses[0]) // an id-list like chain of one comparison
				} else {
					b.WriteString(longClauses[(i+variant)%len(longClauses)])
				}
			}
			sites := c12kParse(whole(b.String()), false)
			for si, st := range styles {
				if !o.thorough() && (si+variant+n)%3 != 0 {
					continue
				}
				st := st
				add("k4", "people", sites, func(_ int, s c12kSite) (string, bool) {
					switch s.kind {
					case 'K':
						return c12kCase(s.text, st.kwMode, nil), true
					case '+':
						return st.plus, true
					case '*':
						return st.star, true
					case '1':
						return st.one, true
					}
					return "", false
				})
			}
		}
	}
	return jobs
}

func (j *c12kJob) line() string {
	return fmt.Sprintf("K %s %s %s %s %s", j.stream, j.class, j.store, hxs(j.canon), hxs(j.resp))
}

func c12kFromLine(f []string) *c12kJob {
	if len(f) < 6 {
		return nil
	}
	return &c12kJob{stream: f[1], class: f[2], store: f[3], canon: string(unhx(f[4])), resp: string(unhx(f[5]))}
}

// c12kRun evaluates the jobs on the real store (in parallel; the output order is the job order)
func c12kRun(o *opts, jobs []*c12kJob, stats map[string]int) error {
	if len(jobs) == 0 {
		return nil
	}
	db, err := c12kOpen(o.out)
	if err != nil {
		return err
	}
	defer db.close()
	workers := 4
	if v, err := strconv.Atoi(os.Getenv("VERIF_JOBS")); err == nil && v > 0 {
		workers = v
	}
	var mu sync.Mutex
	canonCache := map[string]string{}
	var wg sync.WaitGroup
	ch := make(chan *c12kJob, 256)
	for w := 0; w < workers; w++ {
		wg.Add(1)
		go func() {
			defer wg.Done()
			for j := range ch {
				key := j.store + "\x00" + j.canon
				mu.Lock()
				rc, ok := canonCache[key]
				mu.Unlock()
				if !ok {
					rc = db.run(j.store, j.canon)
					mu.Lock()
					canonCache[key] = rc
					mu.Unlock()
				}
				kinds, nerr := c12Lex(j.resp)
				j.caseLine = j.line()
				j.implLine = fmt.Sprintf("K %s %d %s %s", kinds, nerr, rc, db.run(j.store, j.resp))
			}
		}()
	}
	for _, j := range jobs {
		ch <- j
	}
	close(ch)
	wg.Wait()
	// how discriminating the dataset is: canonical queries that select all rows / no row / are rejected
	results := map[string]bool{}
	var keys []string
	for k := range canonCache {
		keys = append(keys, k)
	}
	sort.Strings(keys)
	for _, k := range keys {
		v := canonCache[k]
		results[v] = true
		switch {
		case v == "E" || v == "P":
			stats["k_canonical_rejected"]++
		case strings.HasPrefix(v, "0:"):
			stats["k_canonical_selects_nothing"]++
		}
	}
	stats["k_canonical_queries"] = len(keys)
	stats["k_distinct_canonical_results"] = len(results)
	return nil
}

// c12kSelfTest: the plain and the negated form of every word-operator atom must select different rows
// (otherwise losing the negation could not be observed); returns the number of atoms for which they do not
func c12kSelfTest(o *opts) (int, error) {
	db, err := c12kOpen(o.out)
	if err != nil {
		return 0, err
	}
	defer db.close()
	bad := 0
	for _, t := range c12kAtomTpls {
		if !strings.Contains(t, "<not") {
			continue
		}
		p := db.run("people", c12kSpell(c12kParse(t, false), nil))
		n := db.run("people", c12kSpell(c12kParse(t, true), nil))
		if p == n || p == "E" || n == "E" || p == "P" || n == "P" {
			bad++
		}
	}
	return bad, nil
}
