package main

import (
	"fmt"
	"os"
	"path/filepath"
	"sort"
	"strconv"
	"strings"

	"github.com/openziti/storage/ast"
	"github.com/openziti/storage/boltz"
	"go.etcd.io/bbolt"
)

// C05 - link collections and ref-counted link collections between two real bolt stores A and B.
//
// Case lines (see coq/extraction/c05_driver.ml):
//
//	H <nA> <idA>.. <nB> <idB>.. <ntx> { <nops> <op>.. }..
//	     a history of transactions; ids hex, both universes sorted and duplicate free
//	S <nA> <idA>.. <nB> <idB>.. <sd> <a> <ncur> <cur>.. <nreq> <req>.. <npre> <pre>..
//	     all idA and the first <npre> idB exist... (see c05SetLinksCase); one SetLinks(a, req)
//	     on the collection of side sd in a state where a is linked to exactly cur
//	op :=  C sd x | D sd x | AL sd a n k.. | RL sd a n k.. | SL sd a n k.. | A1 sd a k | R1 sd a k
//	     | I sd a k | DC sd a k | SC sd a k count
//
// Observation lines: one block per transaction  <verdict> <dump>  joined by " ; " where
//
//	verdict = ok | f<i> (index of the failing op; the transaction was rolled back)
//	dump    = for side A then B, per universe id:  <present>:<GetLinks>:<IsLinked>:<IterateLinks>:<raw>:
//	          <GetLinkCounts src>:<GetLinkCounts tgt>:<GetLinkCount>:<rc raw>:<rc IterateLinks>
//	          with ids printed as indices into the other side's universe.
func init() { commands["c05"] = runC05 }

const (
	c05FieldAB   = "bs"   // link bucket name inside an A entity
	c05FieldBA   = "as"   // link bucket name inside a B entity
	c05RcFieldAB = "rcbs" // ref-counted link bucket inside an A entity
	c05RcFieldBA = "rcas"
)

type c05Ent struct {
	Id  string
	typ string
	// link fields the entity carries (field name -> linked ids); persisted by the store's strategy with
	// PersistContext.SetLinkedIds (c05_strategy.go); nil = the entity has no link fields
	sets map[string][]string
}

func (e *c05Ent) GetId() string         { return e.Id }
func (e *c05Ent) SetId(id string)       { e.Id = id }
func (e *c05Ent) GetEntityType() string { return e.typ }

// c05Strategy: the entity strategy of a store.  Like the strategies of the repository's test stores (and of
// ziti), a child store's strategy first runs the parent strategy on ctx.GetParentContext() and then persists its
// own fields; the link fields a store owns are persisted with SetLinkedIds when the entity carries them.
type c05Strategy struct {
	typ    string
	parent *c05Strategy
	fields []string // the link fields (plain link collections) registered on this store
}

func (s *c05Strategy) NewEntity() *c05Ent                     { return &c05Ent{typ: s.typ} }
func (s *c05Strategy) FillEntity(*c05Ent, *boltz.TypedBucket) {}
func (s *c05Strategy) PersistEntity(e *c05Ent, ctx *boltz.PersistContext) {
	if s.parent != nil {
		s.parent.PersistEntity(e, ctx.GetParentContext())
	}
	for _, f := range s.fields {
		if ids, ok := e.sets[f]; ok {
			ctx.SetLinkedIds(f, append([]string{}, ids...))
		}
	}
}

type c05Store struct {
	*boltz.BaseStore[*c05Ent]
	typ      string
	field    string
	rcField  string
	linkSym  boltz.EntitySetSymbol
	rcSym    boltz.EntitySetSymbol
	links    boltz.LinkCollection
	rcLinks  boltz.RefCountedLinkCollection
	strat    *c05Strategy
	basePath []string
	sub      []string // bucket path between the entity bucket and the field buckets (child stores, c05_hier.go)
}

// rawPath: bolt path of a field bucket of entity x as this store lays it out
func (st *c05Store) rawPath(x, field string) []string {
	p := append(append([]string{}, st.basePath...), x)
	p = append(p, st.sub...)
	return append(p, field)
}

// c05World: two stores below a private base path, wired like the test stores of the repository
// (AddFkSetSymbol on both sides, then AddLinkCollection / AddRefCountedLinkCollection both ways)
type c05World struct {
	db    boltz.Db
	base  string
	store [2]*c05Store // 0 = A, 1 = B
	uni   [2][]string
}

func c05NewStore(base, typ, field, rcField string) *c05Store {
	strat := &c05Strategy{typ: typ}
	def := boltz.StoreDefinition[*c05Ent]{
		EntityType:     typ,
		EntityStrategy: strat,
		EntityNotFoundF: func(id string) error {
			return boltz.NewNotFoundError(typ, "id", id)
		},
		BasePath: []string{base},
	}
	st := &c05Store{BaseStore: boltz.NewBaseStore(def), typ: typ, field: field, rcField: rcField, basePath: []string{base, typ}, strat: strat}
	st.InitImpl(st)
	return st
}

func c05NewWorld(db boltz.Db, base string, uA, uB []string) *c05World {
	w := &c05World{db: db, base: base}
	a := c05NewStore(base, "as", c05FieldAB, c05RcFieldAB)
	b := c05NewStore(base, "bs", c05FieldBA, c05RcFieldBA)
	a.AddIdSymbol("id", ast.NodeTypeString)
	b.AddIdSymbol("id", ast.NodeTypeString)
	a.linkSym = a.AddFkSetSymbol(a.field, b)
	b.linkSym = b.AddFkSetSymbol(b.field, a)
	a.rcSym = a.AddFkSetSymbol(a.rcField, b)
	b.rcSym = b.AddFkSetSymbol(b.rcField, a)
	a.links = a.AddLinkCollection(a.linkSym, b.linkSym)
	b.links = b.AddLinkCollection(b.linkSym, a.linkSym)
	a.rcLinks = a.AddRefCountedLinkCollection(a.rcSym, b.rcSym)
	b.rcLinks = b.AddRefCountedLinkCollection(b.rcSym, a.rcSym)
	w.store = [2]*c05Store{a, b}
	w.uni = [2][]string{uA, uB}
	return w
}

type c05Op struct {
	kind  string
	sd    int // 0 = A, 1 = B
	a     string
	keys  []string
	count int64
}

func c05Side(sd int) string {
	if sd == 0 {
		return "A"
	}
	return "B"
}

func (op c05Op) String() string {
	var b strings.Builder
	fmt.Fprintf(&b, "%s %s %s", op.kind, c05Side(op.sd), c05Hx(op.a))
	switch op.kind {
	case "AL", "RL", "SL":
		fmt.Fprintf(&b, " %d", len(op.keys))
		for _, k := range op.keys {
			b.WriteString(" " + c05Hx(k))
		}
	case "A1", "R1", "I", "DC":
		b.WriteString(" " + c05Hx(op.keys[0]))
	case "SC":
		fmt.Fprintf(&b, " %s %d", c05Hx(op.keys[0]), op.count)
	case "CS", "US": // c05_strategy.go: count = the pair whose link field the entity carries, keys = its value
		fmt.Fprintf(&b, " %d %d", op.count, len(op.keys))
		for _, k := range op.keys {
			b.WriteString(" " + c05Hx(k))
		}
	case "DW": // c05_hier.go: count = 1 -> filter true, else membership in keys
		fmt.Fprintf(&b, " %d %d", op.count, len(op.keys))
		for _, k := range op.keys {
			b.WriteString(" " + c05Hx(k))
		}
	}
	return b.String()
}

// apply runs one operation of the real code inside the transaction of ctx
func (w *c05World) apply(ctx boltz.MutateContext, op c05Op) (err error) {
	defer func() {
		if r := recover(); r != nil {
			err = fmt.Errorf("panic: %v", r)
		}
	}()
	st := w.store[op.sd]
	tx := ctx.Tx()
	switch op.kind {
	case "AL", "RL", "SL", "A1", "R1":
		if st.links == nil { // K cases: the stores of this pair registered no plain link collection
			return fmt.Errorf("no link collection registered for %s", st.field)
		}
	case "I", "DC", "SC":
		if st.rcLinks == nil {
			return fmt.Errorf("no ref-counted link collection registered for %s", st.rcField)
		}
	}
	switch op.kind {
	case "C":
		return st.Create(ctx, &c05Ent{Id: op.a, typ: st.typ})
	case "D":
		return st.DeleteById(ctx, op.a)
	case "AL":
		return st.links.AddLinks(tx, op.a, append([]string{}, op.keys...)...)
	case "RL":
		return st.links.RemoveLinks(tx, op.a, append([]string{}, op.keys...)...)
	case "SL":
		return st.links.SetLinks(tx, op.a, append([]string{}, op.keys...))
	case "A1":
		_, err = st.links.AddLink(tx, []byte(op.a), []byte(op.keys[0]))
		return err
	case "R1":
		_, err = st.links.RemoveLink(tx, []byte(op.a), []byte(op.keys[0]))
		return err
	case "I":
		_, err = st.rcLinks.IncrementLinkCount(tx, []byte(op.a), []byte(op.keys[0]))
		return err
	case "DC":
		_, err = st.rcLinks.DecrementLinkCount(tx, []byte(op.a), []byte(op.keys[0]))
		return err
	case "SC":
		_, _, err = st.rcLinks.SetLinkCount(tx, []byte(op.a), []byte(op.keys[0]), int(op.count))
		return err
	}
	return fmt.Errorf("unknown op %q", op.kind)
}

type c05Abort struct{ at int }

func (c05Abort) Error() string { return "c05 abort" }

// runTx: all ops in one db.Update; the first error is returned from the update function, so
// bolt rolls the transaction back.  Returns the verdict token.
func (w *c05World) runTx(ops []c05Op) string {
	failed := -1
	err := w.db.Update(nil, func(ctx boltz.MutateContext) error {
		for i, op := range ops {
			if e := w.apply(ctx, op); e != nil {
				failed = i
				return e
			}
		}
		return nil
	})
	if failed >= 0 {
		return fmt.Sprintf("f%d", failed)
	}
	if err != nil {
		return "commit-error"
	}
	return "ok"
}

func c05Idx(u []string, id string) string {
	for i, x := range u {
		if x == id {
			return strconv.Itoa(i)
		}
	}
	return "?" + c05Hx(id)
}

func c05Join(xs []string) string {
	if len(xs) == 0 {
		return "-"
	}
	return strings.Join(xs, ".")
}

func c05Cursor(u []string, c ast.SetCursor) string {
	var out []string
	n := 0
	for c.IsValid() {
		out = append(out, c05Idx(u, string(c.Current())))
		c.Next()
		if n++; n > 1000 {
			out = append(out, "?runaway")
			break
		}
	}
	sort.Strings(out)
	return c05Join(out)
}

func c05RawBucket(tx *bbolt.Tx, path []string) *bbolt.Bucket {
	b := tx.Bucket([]byte(path[0]))
	for _, p := range path[1:] {
		if b == nil {
			return nil
		}
		b = b.Bucket([]byte(p))
	}
	return b
}

func c05Count(p *int32) (string, bool) {
	if p == nil {
		return "", false
	}
	return strconv.Itoa(int(*p)), true
}

// dump: every observer of the property, for every universe id of both sides, in one tx
func (w *c05World) dump(tx *bbolt.Tx) string {
	var sb strings.Builder
	for sd := 0; sd < 2; sd++ {
		st := w.store[sd]
		ou := w.uni[1-sd]
		if sd == 1 {
			sb.WriteString(" /")
		}
		for _, x := range w.uni[sd] {
			present := "0"
			if st.IsEntityPresent(tx, x) {
				present = "1"
			}
			// GetLinks (a pair whose stores registered no collection of this kind - K cases - is read through
			// the store's own readers of the fk set symbol: GetRelatedEntitiesIdList / IsEntityRelated / cursor)
			var gl []string
			var linked []string
			if st.links != nil {
				linked = st.links.GetLinks(tx, x)
			} else {
				linked = st.GetRelatedEntitiesIdList(tx, x, st.field)
			}
			for _, k := range linked {
				gl = append(gl, c05Idx(ou, k))
			}
			sort.Strings(gl)
			// IsLinked for every id of the other universe
			var il []string
			for i, k := range ou {
				if (st.links != nil && st.links.IsLinked(tx, []byte(x), []byte(k))) || (st.links == nil && st.IsEntityRelated(tx, x, st.field, k)) {
					il = append(il, strconv.Itoa(i))
				}
			}
			sort.Strings(il)
			var it string
			if st.links != nil {
				it = c05Cursor(ou, st.links.IterateLinks(tx, []byte(x)))
			} else {
				it = c05Cursor(ou, st.GetRelatedEntitiesCursor(tx, x, st.field, true))
			}
			// raw traversal of the link bucket
			var raw []string
			if b := c05RawBucket(tx, st.rawPath(x, st.field)); b != nil {
				_ = b.ForEach(func(k, v []byte) error {
					_, val := boltz.GetTypeAndValue(k)
					raw = append(raw, c05Idx(ou, string(val)))
					return nil
				})
			}
			sort.Strings(raw)
			// ref counts
			var cs, ct, cg []string
			for i, k := range ou {
				if st.rcLinks == nil {
					break
				}
				s, t := st.rcLinks.GetLinkCounts(tx, []byte(x), []byte(k))
				if v, ok := c05Count(s); ok {
					cs = append(cs, fmt.Sprintf("%d=%s", i, v))
				}
				if v, ok := c05Count(t); ok {
					ct = append(ct, fmt.Sprintf("%d=%s", i, v))
				}
				if v, ok := c05Count(st.rcLinks.GetLinkCount(tx, []byte(x), []byte(k))); ok {
					cg = append(cg, fmt.Sprintf("%d=%s", i, v))
				}
			}
			sort.Strings(cs)
			sort.Strings(ct)
			sort.Strings(cg)
			var craw []string
			if b := c05RawBucket(tx, st.rawPath(x, st.rcField)); b != nil {
				_ = b.ForEach(func(k, v []byte) error {
					_, key := boltz.GetTypeAndValue(k)
					ft, val := boltz.GetTypeAndValue(v)
					if ft == boltz.TypeInt32 && len(val) == 4 {
						craw = append(craw, fmt.Sprintf("%s=%d", c05Idx(ou, string(key)), *boltz.BytesToInt32(val)))
					} else {
						craw = append(craw, fmt.Sprintf("%s=?%s", c05Idx(ou, string(key)), hx(v)))
					}
					return nil
				})
			}
			sort.Strings(craw)
			var cit string
			if st.rcLinks != nil {
				cit = c05Cursor(ou, st.rcLinks.IterateLinks(tx, []byte(x), true))
			} else {
				// no collection: whatever the raw count bucket holds is reported by every count observer, and the
				// peer's entry is read from the peer's raw bucket
				cit = c05Cursor(ou, st.GetRelatedEntitiesCursor(tx, x, st.rcField, true))
				cs, cg = append([]string{}, craw...), append([]string{}, craw...)
				peer := w.store[1-sd]
				for i, k := range ou {
					if b := c05RawBucket(tx, peer.rawPath(k, peer.rcField)); b != nil && peer.IsEntityPresent(tx, k) {
						if v := b.Get(boltz.PrependFieldType(boltz.TypeString, []byte(x))); v != nil {
							if ft, val := boltz.GetTypeAndValue(v); ft == boltz.TypeInt32 && len(val) == 4 {
								ct = append(ct, fmt.Sprintf("%d=%d", i, *boltz.BytesToInt32(val)))
							} else {
								ct = append(ct, fmt.Sprintf("%d=?%s", i, hx(v)))
							}
						}
					}
				}
				sort.Strings(ct)
			}
			fmt.Fprintf(&sb, " %s:%s:%s:%s:%s:%s:%s:%s:%s:%s", present, c05Join(gl), c05Join(il), it, c05Join(raw),
				c05Join(cs), c05Join(ct), c05Join(cg), c05Join(craw), cit)
		}
	}
	return strings.TrimSpace(sb.String())
}

func (w *c05World) observe() string {
	var out string
	err := w.db.View(func(tx *bbolt.Tx) error {
		defer func() {
			if r := recover(); r != nil {
				out = fmt.Sprintf("observer-panic:%v", strings.ReplaceAll(fmt.Sprint(r), " ", "_"))
			}
		}()
		out = w.dump(tx)
		return nil
	})
	if err != nil {
		return "view-error"
	}
	return out
}

func (w *c05World) drop() {
	_ = w.db.Update(nil, func(ctx boltz.MutateContext) error {
		if ctx.Tx().Bucket([]byte(w.base)) != nil {
			return ctx.Tx().DeleteBucket([]byte(w.base))
		}
		return nil
	})
}

// ---- case text ---------------------------------------------------------------------------

func c05UniText(uA, uB []string) string {
	var b strings.Builder
	fmt.Fprintf(&b, "%d", len(uA))
	for _, x := range uA {
		b.WriteString(" " + c05Hx(x))
	}
	fmt.Fprintf(&b, " %d", len(uB))
	for _, x := range uB {
		b.WriteString(" " + c05Hx(x))
	}
	return b.String()
}

func c05HistoryText(uA, uB []string, txs [][]c05Op) string {
	var b strings.Builder
	b.WriteString("H " + c05UniText(uA, uB))
	fmt.Fprintf(&b, " %d", len(txs))
	for _, tx := range txs {
		fmt.Fprintf(&b, " %d", len(tx))
		for _, op := range tx {
			b.WriteString(" " + op.String())
		}
	}
	return b.String()
}

type c05Tokens struct {
	t []string
	i int
}

func (t *c05Tokens) next() string {
	if t.i >= len(t.t) {
		panic("c05: truncated case line")
	}
	s := t.t[t.i]
	t.i++
	return s
}
func (t *c05Tokens) int() int {
	n, err := strconv.Atoi(t.next())
	if err != nil {
		panic(err)
	}
	return n
}
func (t *c05Tokens) id() string { return c05Unhx(t.next()) }
func (t *c05Tokens) ids() []string {
	n := t.int()
	out := make([]string, 0, n)
	for i := 0; i < n; i++ {
		out = append(out, t.id())
	}
	return out
}
func (t *c05Tokens) side() int {
	if t.next() == "A" {
		return 0
	}
	return 1
}

func (t *c05Tokens) op() c05Op {
	op := c05Op{kind: t.next()}
	op.sd = t.side()
	op.a = t.id()
	switch op.kind {
	case "AL", "RL", "SL":
		op.keys = t.ids()
	case "A1", "R1", "I", "DC":
		op.keys = []string{t.id()}
	case "SC":
		op.keys = []string{t.id()}
		n, err := strconv.ParseInt(t.next(), 10, 64)
		if err != nil {
			panic(err)
		}
		op.count = n
	}
	return op
}

// ---- running a case ------------------------------------------------------------------------

type c05Runner struct {
	db   boltz.Db
	next int
	// cache for S cases: the committed base state is shared by all requested lists
	sKey   string
	sWorld *c05World
}

func (r *c05Runner) freshBase() string {
	r.next++
	return fmt.Sprintf("w%d", r.next)
}

func (r *c05Runner) runHistory(t *c05Tokens) string {
	uA := t.ids()
	uB := t.ids()
	w := c05NewWorld(r.db, r.freshBase(), uA, uB)
	defer w.drop()
	ntx := t.int()
	var blocks []string
	for i := 0; i < ntx; i++ {
		nops := t.int()
		ops := make([]c05Op, 0, nops)
		for j := 0; j < nops; j++ {
			ops = append(ops, t.op())
		}
		verdict := w.runTx(ops)
		blocks = append(blocks, verdict+" "+w.observe())
	}
	return strings.Join(blocks, " ; ")
}

// S case: A universe = {a, (other A ids)}, every A id exists; the B ids listed in <pre> exist.
// Base state (committed once per (universes, sd, a, cur, pre)): a linked to cur; every other entity
// of a's side linked to the existing peers at even universe index.  Then SetLinks(a, req) and
// the observation run inside one transaction that is rolled back.
func (r *c05Runner) runSetLinks(t *c05Tokens) string {
	start := t.i
	uA := t.ids()
	uB := t.ids()
	sd := t.side()
	a := t.id()
	cur := t.ids()
	baseKey := strings.Join(t.t[start:t.i], " ")
	req := t.ids()
	pre := t.ids()
	baseKey += " | " + strings.Join(pre, ",")
	if r.sWorld == nil || r.sKey != baseKey {
		if r.sWorld != nil {
			r.sWorld.drop()
		}
		w := c05NewWorld(r.db, r.freshBase(), uA, uB)
		setup := c05SetLinksSetup(w.uni, sd, a, cur, pre)
		if v := w.runTx(setup); v != "ok" {
			return "setup-" + v
		}
		r.sWorld, r.sKey = w, baseKey
	}
	w := r.sWorld
	verdict := "ok"
	var obs string
	_ = w.db.Update(nil, func(ctx boltz.MutateContext) error {
		if e := w.apply(ctx, c05Op{kind: "SL", sd: sd, a: a, keys: req}); e != nil {
			verdict = "f0"
			return e
		}
		func() {
			defer func() {
				if rec := recover(); rec != nil {
					obs = fmt.Sprintf("observer-panic:%v", strings.ReplaceAll(fmt.Sprint(rec), " ", "_"))
				}
			}()
			obs = w.dump(ctx.Tx())
		}()
		return c05Abort{}
	})
	if verdict != "ok" {
		obs = w.observe()
	}
	return verdict + " " + obs
}

// c05SetLinksSetup must stay in step with the driver (c05_driver.ml, set_links_setup)
func c05SetLinksSetup(uni [2][]string, sd int, a string, cur, pre []string) []c05Op {
	var ops []c05Op
	own := uni[sd]
	for _, x := range own {
		ops = append(ops, c05Op{kind: "C", sd: sd, a: x})
	}
	for _, k := range pre {
		ops = append(ops, c05Op{kind: "C", sd: 1 - sd, a: k})
	}
	ops = append(ops, c05Op{kind: "AL", sd: sd, a: a, keys: cur})
	for _, x := range own {
		if x == a {
			continue
		}
		var ks []string
		for i, k := range uni[1-sd] {
			if i%2 == 0 && c05Contains(pre, k) {
				ks = append(ks, k)
			}
		}
		ops = append(ops, c05Op{kind: "AL", sd: sd, a: x, keys: ks})
	}
	return ops
}

func c05Contains(xs []string, x string) bool {
	for _, y := range xs {
		if x == y {
			return true
		}
	}
	return false
}

// ---- generators ----------------------------------------------------------------------------

var c05IdPool = []string{"a", "aa", "ab", "b", "a\x00", "ba", "\xc3\xa9", "~", "A", "0", "b\xff", "ab\x00"}

func c05PickUniverse(r *rng, n int) []string {
	perm := append([]string{}, c05IdPool...)
	for i := len(perm) - 1; i > 0; i-- {
		j := r.intn(i + 1)
		perm[i], perm[j] = perm[j], perm[i]
	}
	u := perm[:n]
	sort.Strings(u)
	return u
}

type c05Gen struct {
	r       *rng
	uni     [2][]string
	ghost   [2]map[string]bool // ids that are never created
	present [2]map[string]bool
	stats   map[string]int
	bigInts bool
}

func (g *c05Gen) pickEntity(sd int, wantPresent int) string {
	// wantPresent: percentage with which an existing entity is chosen when there is one
	u := g.uni[sd]
	var in, out []string
	for _, x := range u {
		if g.present[sd][x] {
			in = append(in, x)
		} else {
			out = append(out, x)
		}
	}
	if len(in) > 0 && (len(out) == 0 || g.r.chance(wantPresent)) {
		return g.r.pick(in)
	}
	if len(out) > 0 {
		return g.r.pick(out)
	}
	return g.r.pick(u)
}

func (g *c05Gen) keyList(sd int, maxLen int, wantPresent int) []string {
	n := g.r.intn(maxLen + 1)
	var ks []string
	for i := 0; i < n; i++ {
		if len(ks) > 0 && g.r.chance(25) {
			ks = append(ks, ks[g.r.intn(len(ks))]) // duplicate
		} else {
			ks = append(ks, g.pickEntity(sd, wantPresent))
		}
	}
	return ks
}

func (g *c05Gen) genOp() c05Op {
	r := g.r
	sd := r.intn(2)
	od := 1 - sd
	w := r.intn(100)
	keyPresent := 93
	switch {
	case w < 10:
		// create: mostly an absent, creatable id
		var cands []string
		for _, x := range g.uni[sd] {
			if !g.present[sd][x] && !g.ghost[sd][x] {
				cands = append(cands, x)
			}
		}
		if len(cands) > 0 && r.chance(90) {
			return c05Op{kind: "C", sd: sd, a: r.pick(cands)}
		}
		return c05Op{kind: "C", sd: sd, a: g.pickEntity(sd, 100)}
	case w < 19:
		return c05Op{kind: "D", sd: sd, a: g.pickEntity(sd, 92)}
	case w < 31:
		return c05Op{kind: "AL", sd: sd, a: g.pickEntity(sd, 95), keys: g.keyList(od, 4, keyPresent)}
	case w < 39:
		return c05Op{kind: "RL", sd: sd, a: g.pickEntity(sd, 95), keys: g.keyList(od, 4, 70)}
	case w < 54:
		return c05Op{kind: "SL", sd: sd, a: g.pickEntity(sd, 95), keys: g.keyList(od, 6, keyPresent+3)}
	case w < 60:
		return c05Op{kind: "A1", sd: sd, a: g.pickEntity(sd, 95), keys: []string{g.pickEntity(od, keyPresent)}}
	case w < 66:
		return c05Op{kind: "R1", sd: sd, a: g.pickEntity(sd, 95), keys: []string{g.pickEntity(od, 70)}}
	case w < 78:
		return c05Op{kind: "I", sd: sd, a: g.pickEntity(sd, 95), keys: []string{g.pickEntity(od, keyPresent)}}
	case w < 91:
		return c05Op{kind: "DC", sd: sd, a: g.pickEntity(sd, 95), keys: []string{g.pickEntity(od, 80)}}
	default:
		counts := []int64{0, 0, 0, 1, 1, 2, 3, 5}
		n := counts[r.intn(len(counts))]
		if g.bigInts && r.chance(40) {
			big := []int64{2147483647, 2147483646, 2147483648, 4294967296, 4294967297, 65536}
			n = big[r.intn(len(big))]
		}
		return c05Op{kind: "SC", sd: sd, a: g.pickEntity(sd, 95), keys: []string{g.pickEntity(od, keyPresent)}, count: n}
	}
}

// scenario: one scripted transaction around the corners the property is about - both ends deleted in
// one transaction, delete and re-create in one transaction, link and delete in one transaction,
// create + link rolled back by a later failure, operations naming a peer deleted just before
func (g *c05Gen) scenario() []c05Op {
	r := g.r
	sd := r.intn(2)
	od := 1 - sd
	var in, peers, absent []string
	for _, x := range g.uni[sd] {
		if g.present[sd][x] {
			in = append(in, x)
		} else if !g.ghost[sd][x] {
			absent = append(absent, x)
		}
	}
	for _, x := range g.uni[od] {
		if g.present[od][x] {
			peers = append(peers, x)
		}
	}
	if len(in) == 0 || len(peers) == 0 {
		return nil
	}
	a, b := r.pick(in), r.pick(peers)
	switch r.intn(6) {
	case 0: // link, then both ends deleted, peer first
		return []c05Op{{kind: "AL", sd: sd, a: a, keys: []string{b}}, {kind: "I", sd: sd, a: a, keys: []string{b}},
			{kind: "D", sd: od, a: b}, {kind: "D", sd: sd, a: a}}
	case 1: // delete and re-create in one transaction, then link again
		return []c05Op{{kind: "D", sd: sd, a: a}, {kind: "C", sd: sd, a: a}, {kind: "SL", sd: sd, a: a, keys: []string{b, b}},
			{kind: "DC", sd: od, a: b, keys: []string{a}}}
	case 2: // link and delete in one transaction
		return []c05Op{{kind: "AL", sd: sd, a: a, keys: peers}, {kind: "SC", sd: sd, a: a, keys: []string{b}, count: 2}, {kind: "D", sd: sd, a: a}}
	case 3: // create and link, rolled back by a later failure
		if len(absent) == 0 {
			return nil
		}
		x := r.pick(absent)
		return []c05Op{{kind: "C", sd: sd, a: x}, {kind: "AL", sd: sd, a: x, keys: []string{b}}, {kind: "I", sd: od, a: b, keys: []string{x}},
			{kind: "D", sd: od, a: b}, {kind: "A1", sd: sd, a: x, keys: []string{b}}}
	case 4: // operations that name a peer deleted just before
		return []c05Op{{kind: "SC", sd: sd, a: a, keys: []string{b}, count: 1}, {kind: "A1", sd: sd, a: a, keys: []string{b}}, {kind: "D", sd: od, a: b},
			{kind: "DC", sd: sd, a: a, keys: []string{b}}, {kind: "RL", sd: sd, a: a, keys: []string{b, b}}, {kind: "R1", sd: sd, a: a, keys: []string{b}}}
	default: // count down to zero from both sides, then once more
		return []c05Op{{kind: "SC", sd: sd, a: a, keys: []string{b}, count: 2}, {kind: "DC", sd: od, a: b, keys: []string{a}},
			{kind: "DC", sd: sd, a: a, keys: []string{b}}, {kind: "DC", sd: od, a: b, keys: []string{a}}, {kind: "I", sd: od, a: b, keys: []string{a}}}
	}
}

// fails: does the operation return an error in a state with this presence (exact for the
// property-conforming implementation; used only to steer the generator)
func (g *c05Gen) fails(op c05Op, present [2]map[string]bool) bool {
	sd, od := op.sd, 1-op.sd
	switch op.kind {
	case "C":
		return present[sd][op.a]
	case "D":
		return !present[sd][op.a]
	case "AL", "SL", "A1", "I", "SC":
		if !present[sd][op.a] {
			return true
		}
		for _, k := range op.keys {
			if !present[od][k] {
				return true
			}
		}
		return false
	default:
		return !present[sd][op.a]
	}
}

func c05CopyPresence(p [2]map[string]bool) [2]map[string]bool {
	var q [2]map[string]bool
	for i := 0; i < 2; i++ {
		q[i] = map[string]bool{}
		for k, v := range p[i] {
			q[i][k] = v
		}
	}
	return q
}

func (g *c05Gen) genHistory(maxOps int) (uA, uB []string, txs [][]c05Op) {
	r := g.r
	nA, nB := 1+r.intn(5), 1+r.intn(5)
	g.uni = [2][]string{c05PickUniverse(r, nA), c05PickUniverse(r, nB)}
	g.ghost = [2]map[string]bool{{}, {}}
	g.present = [2]map[string]bool{{}, {}}
	for sd := 0; sd < 2; sd++ {
		if len(g.uni[sd]) >= 3 && r.chance(40) {
			g.ghost[sd][r.pick(g.uni[sd])] = true
		}
	}
	g.bigInts = r.chance(6)
	total := 1 + r.intn(maxOps)
	if r.chance(50) && maxOps >= 12 {
		total = 12 + r.intn(maxOps-11)
	}
	// most histories start by creating most entities
	if r.chance(80) {
		var tx []c05Op
		for sd := 0; sd < 2; sd++ {
			for _, x := range g.uni[sd] {
				if !g.ghost[sd][x] && r.chance(85) && total > 0 {
					tx = append(tx, c05Op{kind: "C", sd: sd, a: x})
					g.present[sd][x] = true
					total--
				}
			}
		}
		if len(tx) > 0 {
			txs = append(txs, tx)
		}
	}
	for total > 0 {
		n := 1 + r.intn(6)
		if n > total {
			n = total
		}
		allowFail := r.chance(22)
		var tx []c05Op
		pres := c05CopyPresence(g.present)
		g2 := *g
		g2.present = pres
		failed := false
		var script []c05Op
		if r.chance(14) {
			script = g.scenario()
			if len(script) > 0 {
				n = len(script)
				g.stats["scenario_tx"]++
			}
		}
		for i := 0; i < n; i++ {
			var op c05Op
			if script != nil {
				op = script[i]
			} else {
				for try := 0; try < 8; try++ {
					op = g2.genOp()
					if allowFail || !g2.fails(op, pres) {
						break
					}
				}
			}
			tx = append(tx, op)
			if g2.fails(op, pres) {
				failed = true
				// the transaction stops here in a conforming implementation; sometimes keep generating
				// operations behind the failing one (they must not be executed)
				if r.chance(70) {
					break
				}
				continue
			}
			switch op.kind {
			case "C":
				pres[op.sd][op.a] = true
			case "D":
				pres[op.sd][op.a] = false
			}
		}
		total -= len(tx)
		if !failed {
			g.present = pres
		}
		txs = append(txs, tx)
	}
	return g.uni[0], g.uni[1], txs
}

func (g *c05Gen) genWideHistory() (uA, uB []string, txs [][]c05Op) {
	r := g.r
	uA = []string{"a", "b", "c"}
	nB := 120 + r.intn(120)
	for i := 0; i < nB; i++ {
		uB = append(uB, fmt.Sprintf("k%03d-%s", i, strings.Repeat("x", 20+r.intn(30))))
	}
	sort.Strings(uB)
	subset := func(pct int) []string {
		var ks []string
		for _, k := range uB {
			if r.chance(pct) {
				ks = append(ks, k)
			}
		}
		for i := len(ks) - 1; i > 0; i-- {
			j := r.intn(i + 1)
			ks[i], ks[j] = ks[j], ks[i]
		}
		return ks
	}
	var create []c05Op
	for _, x := range uA {
		create = append(create, c05Op{kind: "C", sd: 0, a: x})
	}
	for _, k := range uB {
		create = append(create, c05Op{kind: "C", sd: 1, a: k})
	}
	txs = append(txs, create)
	txs = append(txs, []c05Op{{kind: "AL", sd: 0, a: "a", keys: subset(90)}, {kind: "AL", sd: 0, a: "b", keys: subset(50)}})
	var rcs []c05Op
	for _, k := range subset(60) {
		rcs = append(rcs, c05Op{kind: "I", sd: 0, a: "a", keys: []string{k}})
	}
	txs = append(txs, rcs)
	txs = append(txs, []c05Op{{kind: "SL", sd: 0, a: "a", keys: subset(40)}, {kind: "SL", sd: 0, a: "c", keys: subset(70)}})
	var dels []c05Op
	for _, k := range subset(10) {
		dels = append(dels, c05Op{kind: "D", sd: 1, a: k})
	}
	txs = append(txs, dels)
	txs = append(txs, []c05Op{{kind: "RL", sd: 0, a: "b", keys: subset(30)}, {kind: "D", sd: 0, a: "a"}})
	txs = append(txs, []c05Op{{kind: "D", sd: 0, a: "c"}, {kind: "C", sd: 0, a: "a"}, {kind: "SL", sd: 1, a: uB[0], keys: []string{"a", "b", "a"}}})
	return uA, uB, txs
}

// all lists over alphabet of length <= maxLen, in length-lexicographic order
func c05AllLists(alphabet []string, maxLen int, f func([]string)) {
	var rec func(prefix []string, left int)
	rec = func(prefix []string, left int) {
		f(prefix)
		if left == 0 {
			return
		}
		for _, x := range alphabet {
			rec(append(append([]string{}, prefix...), x), left-1)
		}
	}
	rec(nil, maxLen)
}

func c05IdsText(xs []string) string {
	var b strings.Builder
	fmt.Fprintf(&b, "%d", len(xs))
	for _, x := range xs {
		b.WriteString(" " + c05Hx(x))
	}
	return b.String()
}

// bounded-exhaustive SetLinks: every current set over uB x every requested list (length <= maxLen)
// over alphabet (which may contain ids that do not exist)
func c05EmitSetLinks(emit func(string), uA, uB []string, sd int, a string, present []string, alphabet []string, maxLen int) int {
	n := 0
	for mask := 0; mask < 1<<len(present); mask++ {
		var cur []string
		for i, k := range present {
			if mask&(1<<i) != 0 {
				cur = append(cur, k)
			}
		}
		c05AllLists(alphabet, maxLen, func(req []string) {
			emit(fmt.Sprintf("S %s %s %s %s %s %s", c05UniText(uA, uB), c05Side(sd), c05Hx(a), c05IdsText(cur), c05IdsText(req), c05IdsText(present)))
			n++
		})
	}
	return n
}

func runC05(o *opts) error {
	dir := o.out
	if st, err := os.Stat("/dev/shm"); err == nil && st.IsDir() {
		if d, err := os.MkdirTemp("/dev/shm", "c05-"); err == nil {
			dir = d
			defer os.RemoveAll(d)
		}
	}
	dbPath := filepath.Join(dir, "c05.db")
	_ = os.Remove(dbPath)
	db, err := boltz.Open(dbPath, "root")
	if err != nil {
		return err
	}
	defer func() { _ = db.Close(); _ = os.Remove(dbPath) }()
	runner := &c05Runner{db: db}

	cases := newLineWriter(o.out, "cases.txt")
	impl := newLineWriter(o.out, "impl.txt")
	defer cases.close()
	defer impl.close()
	stats := map[string]int{}

	runLine := func(line string) {
		t := &c05Tokens{t: strings.Fields(line)}
		var obs string
		func() {
			defer func() {
				if r := recover(); r != nil {
					obs = "harness-panic:" + strings.ReplaceAll(fmt.Sprint(r), " ", "_")
				}
			}()
			switch t.next() {
			case "H", "Z": // Z: a history whose ids sit at the key size limits of the storage (c05_strategy.go)
				obs = runner.runHistory(t)
			case "S":
				obs = runner.runSetLinks(t)
			case "T":
				obs = runner.runHier(t, false)
			case "K":
				obs = runner.runHier(t, true)
			default:
				obs = "?"
			}
		}()
		cases.line("%s", line)
		impl.line("%s", obs)
	}

	if rp := o.get("replaycase", ""); rp != "" {
		data, err := os.ReadFile(rp)
		if err != nil {
			return err
		}
		for _, line := range strings.Split(string(data), "\n") {
			if strings.TrimSpace(line) != "" {
				runLine(strings.TrimSpace(line))
			}
		}
		return nil
	}

	r := newRng(o.seed)

	// 1. bounded-exhaustive SetLinks
	sets := 0
	{
		uA := []string{"a", "x"}
		uB := []string{"a", "aa", "ab", "b"}
		sets += c05EmitSetLinks(runLine, uA, uB, 0, "a", uB, uB, 4)
		// from the B side, smaller: 3 ids
		uA3 := []string{"0", "a\x00", "b"}
		uB3 := []string{"k", "m"}
		sets += c05EmitSetLinks(runLine, uA3, uB3, 1, "k", uA3, uA3, 4)
		// requested lists that name a missing entity ("ab" is never created)
		present := []string{"a", "aa", "b"}
		maxLen := 3
		if o.thorough() {
			maxLen = 4
		}
		sets += c05EmitSetLinks(runLine, uA, uB, 0, "a", present, uB, maxLen)
		if o.thorough() {
			uB5 := []string{"a", "a\x00", "aa", "ab", "b"}
			sets += c05EmitSetLinks(runLine, uA, uB5, 0, "x", uB5, uB5, 5)
		}
	}
	stats["setlinks_exhaustive"] = sets

	// 2. random histories, weighted toward collisions
	nh := 1500
	if o.thorough() {
		nh = 30000
	}
	if o.n > 0 {
		nh = o.n
	}
	g := &c05Gen{r: r, stats: stats}
	ops, txs := 0, 0
	for i := 0; i < nh; i++ {
		uA, uB, h := g.genHistory(40)
		for _, tx := range h {
			txs++
			ops += len(tx)
			for _, op := range tx {
				stats["op_"+op.kind]++
			}
		}
		runLine(c05HistoryText(uA, uB, h))
	}
	// 3. wide histories: link buckets that no longer fit a page (cursor over real pages while the other
	// side is written)
	nw := 4
	if o.thorough() {
		nw = 60
	}
	for i := 0; i < nw; i++ {
		uA, uB, h := g.genWideHistory()
		for _, tx := range h {
			txs++
			ops += len(tx)
		}
		runLine(c05HistoryText(uA, uB, h))
	}
	stats["wide_histories"] = nw
	// 4. histories over parent / child store hierarchies owning the collections (c05_hier.go)
	nt := 700
	if o.thorough() {
		nt = 12000
	}
	if o.n > 0 {
		nt = o.n
	}
	hg := &c05HGen{r: r, stats: stats}
	for i := 0; i < nt; i++ {
		line, h := hg.genCase(i)
		for _, tx := range h {
			txs++
			ops += len(tx)
		}
		runLine(line)
	}
	stats["hier_histories"] = nt
	// 5. the same with the kinds of collection each store registers varied (only ref-counted, only plain, both,
	// several of one kind, none - c05HKindTopos + random) and DeleteWhere next to DeleteById
	nk := 900
	if o.thorough() {
		nk = 12000
	}
	if o.n > 0 {
		nk = o.n
	}
	kg := &c05HGen{r: r, stats: stats, kinded: true}
	for i := 0; i < nk; i++ {
		line, h := kg.genCase(i)
		for _, tx := range h {
			txs++
			ops += len(tx)
		}
		for _, k := range kg.topo.kinds {
			stats["kind_pair_"+k]++
		}
		runLine(line)
	}
	stats["kind_histories"] = nk
	// 6. creates / updates whose entity strategy writes a link field with SetLinkedIds, through root and child
	// stores, also with targets that do not exist (c05_strategy.go); T and K topologies alternate
	ns := 700
	if o.thorough() {
		ns = 10000
	}
	if o.n > 0 {
		ns = o.n
	}
	for i := 0; i < ns; i++ {
		sg := &c05HGen{r: r, stats: stats, kinded: i%2 == 1, strat: true}
		line, h := sg.genCase(i / 2)
		for _, tx := range h {
			txs++
			ops += len(tx)
		}
		runLine(line)
	}
	stats["strategy_histories"] = ns
	// 7. ids at the key size limits of the storage on either side of a link, both kinds of collection
	stats["key_limit_histories"] = c05ZCases(o.thorough(), runLine)
	stats["histories"] = nh
	stats["transactions"] = txs
	stats["operations"] = ops
	if runner.sWorld != nil {
		runner.sWorld.drop()
	}
	writeJSON(o.out, "stats.json", stats)
	return nil
}
