package main

// C09 - integrity check: sound, complete, read-only in check mode, convergent in fix.
//
// A case = a schema wiring + a history (run through the shared store harness, every transaction
// through Db.Update) + a list of raw corruptions written below the API through *bbolt.Tx in a
// separate committed transaction.  Then, on every store of the schema in schema order:
//
//	CKR  store.CheckIntegrity(ctx, false, sink) inside a read-only transaction (db.View)
//	CKW  the same inside a write transaction
//	FIX  store.CheckIntegrity(ctx, true, sink) inside a write transaction
//	RCK  check-only again
//
// Observables per phase: status (ok / err / panic), the multiset of report KINDS with their fixed
// flags (messages are mapped to the enum of coq/theories/Store/Integrity.v and not compared), the
// canonical facts of the bolt file, and for the check-only phases whether a byte-exact dump of the
// whole file (every bucket, key and value, empty buckets included) stayed equal.

import (
	"context"
	"crypto/sha256"
	"fmt"
	"os"
	"io"
	"sort"
	"strings"

	"github.com/openziti/storage/boltz"
	"github.com/sirupsen/logrus"
	"go.etcd.io/bbolt"
)

func init() { commands["c09"] = runC09 }

// ---- corruptions ------------------------------------------------------------------------------

type corruption struct {
	Op    string // UD UP SDI SDK SAI SAK SJ ED EA FS FN  +  whole-bucket ops: EDB EEB SEK XDB XEB
	Class string // corruption class, for the statistics only
	Root  string
	Name  string // index symbol / set name / field name
	Id    string // entity id (ED EA FS FN)
	Val   string // index value / set member
	Tgt   string // id written into the index
	Child string // CFS CFN: the child store whose bucket (inside the entity bucket) holds the field
}

func (c corruption) text() string {
	switch c.Op {
	case "UD", "SDK", "SAK", "SJ", "SEK":
		return fmt.Sprintf("%s %s %s %s", c.Op, c.Root, c.Name, hxs(c.Val))
	case "UP", "SDI", "SAI":
		return fmt.Sprintf("%s %s %s %s %s", c.Op, c.Root, c.Name, hxs(c.Val), hxs(c.Tgt))
	case "ED", "EA", "FS":
		return fmt.Sprintf("%s %s %s %s %s", c.Op, c.Root, hxs(c.Id), c.Name, hxs(c.Val))
	case "FN", "EDB", "EEB":
		return fmt.Sprintf("%s %s %s %s", c.Op, c.Root, hxs(c.Id), c.Name)
	case "XDB", "XEB":
		return fmt.Sprintf("%s %s %s", c.Op, c.Root, c.Name)
	case "CFS":
		return fmt.Sprintf("%s %s %s %s %s %s", c.Op, c.Root, hxs(c.Id), c.Child, c.Name, hxs(c.Val))
	case "CFN":
		return fmt.Sprintf("%s %s %s %s %s", c.Op, c.Root, hxs(c.Id), c.Child, c.Name)
	}
	return "?"
}

func parseCorruptions(toks []string) ([]corruption, error) {
	pos := 0
	next := func() string {
		if pos >= len(toks) {
			return ""
		}
		t := toks[pos]
		pos++
		return t
	}
	var n int
	fmt.Sscanf(next(), "%d", &n)
	var out []corruption
	for ; n > 0; n-- {
		c := corruption{Op: next()}
		switch c.Op {
		case "UD", "SDK", "SAK", "SJ", "SEK":
			c.Root, c.Name, c.Val = next(), next(), string(unhx(next()))
		case "XDB", "XEB":
			c.Root, c.Name = next(), next()
		case "UP", "SDI", "SAI":
			c.Root, c.Name, c.Val, c.Tgt = next(), next(), string(unhx(next())), string(unhx(next()))
		case "ED", "EA", "FS":
			c.Root, c.Id, c.Name, c.Val = next(), string(unhx(next())), next(), string(unhx(next()))
		case "FN", "EDB", "EEB":
			c.Root, c.Id, c.Name = next(), string(unhx(next())), next()
		case "CFS":
			c.Root, c.Id, c.Child, c.Name, c.Val = next(), string(unhx(next())), next(), next(), string(unhx(next()))
		case "CFN":
			c.Root, c.Id, c.Child, c.Name = next(), string(unhx(next())), next(), next()
		default:
			return nil, fmt.Errorf("bad corruption %q", c.Op)
		}
		out = append(out, c)
	}
	return out, nil
}

func typedId(id string) []byte { return boltz.PrependFieldType(boltz.TypeString, []byte(id)) }

// applyCorruption writes below the API; semantics = Integrity.v [corrupt]
func applyCorruption(tx *bbolt.Tx, c corruption) error {
	top := tx.Bucket([]byte("stores"))
	if top == nil {
		return fmt.Errorf("no stores bucket")
	}
	idxBucket := func() (*bbolt.Bucket, error) {
		b, err := top.CreateBucketIfNotExists([]byte(boltz.IndexesBucket))
		if err != nil {
			return nil, err
		}
		if b, err = b.CreateBucketIfNotExists([]byte(c.Root)); err != nil {
			return nil, err
		}
		name := c.Name
		if sym, ok := lastKeyToSym[c.Root+"."+c.Name]; ok { // index paths use the symbol name
			name = sym
		}
		return b.CreateBucketIfNotExists([]byte(name))
	}
	entBucket := func() *bbolt.Bucket {
		b := top.Bucket([]byte(c.Root))
		if b == nil {
			return nil
		}
		return b.Bucket([]byte(c.Id))
	}
	switch c.Op {
	case "UD":
		b, err := idxBucket()
		if err != nil {
			return err
		}
		return b.Delete([]byte(c.Val))
	case "UP":
		b, err := idxBucket()
		if err != nil {
			return err
		}
		return b.Put([]byte(c.Val), []byte(c.Tgt))
	case "SJ":
		b, err := idxBucket()
		if err != nil {
			return err
		}
		return b.Put([]byte(c.Val), []byte{1})
	case "SDI":
		b, err := idxBucket()
		if err != nil {
			return err
		}
		if kb := b.Bucket([]byte(c.Val)); kb != nil {
			return kb.Delete(typedId(c.Tgt))
		}
		return nil
	case "SDK":
		b, err := idxBucket()
		if err != nil {
			return err
		}
		if b.Bucket([]byte(c.Val)) != nil {
			return b.DeleteBucket([]byte(c.Val))
		}
		return nil
	case "SAI":
		b, err := idxBucket()
		if err != nil {
			return err
		}
		kb, err := b.CreateBucketIfNotExists([]byte(c.Val))
		if err != nil {
			return err
		}
		return kb.Put(typedId(c.Tgt), nil)
	case "SAK":
		b, err := idxBucket()
		if err != nil {
			return err
		}
		_, err = b.CreateBucketIfNotExists([]byte(c.Val))
		return err
	case "ED":
		eb := entBucket()
		if eb == nil {
			return nil
		}
		if sb := eb.Bucket([]byte(c.Name)); sb != nil {
			return sb.Delete(typedId(c.Val))
		}
		return nil
	case "EA":
		eb := entBucket()
		if eb == nil {
			return nil
		}
		sb, err := eb.CreateBucketIfNotExists([]byte(c.Name))
		if err != nil {
			return err
		}
		return sb.Put(typedId(c.Val), nil)
	case "FS":
		eb := entBucket()
		if eb == nil {
			return nil
		}
		return eb.Put([]byte(c.Name), boltz.PrependFieldType(boltz.TypeString, []byte(c.Val)))
	case "FN":
		eb := entBucket()
		if eb == nil {
			return nil
		}
		return eb.Put([]byte(c.Name), []byte{byte(boltz.TypeNil)})
	case "CFS", "CFN": // a field a child store keeps in its own bucket inside the entity bucket
		eb := entBucket()
		if eb == nil {
			return nil
		}
		cb := eb.Bucket([]byte(c.Child))
		if cb == nil {
			return nil
		}
		if c.Op == "CFN" {
			return cb.Put([]byte(c.Name), []byte{byte(boltz.TypeNil)})
		}
		return cb.Put([]byte(c.Name), boltz.PrependFieldType(boltz.TypeString, []byte(c.Val)))
	// ---- whole-bucket corruptions: the bucket is ABSENT (..DB) or PRESENT BUT EMPTY (..EB / SEK); the model
	// state does not distinguish the two (Integrity.v XSetClear / XSClearKey / XSClearIdx / XUClearIdx)
	case "EDB": // the whole string-set bucket (back-references / links / set field) of an entity is gone
		eb := entBucket()
		if eb == nil {
			return nil
		}
		return c09DropBucket(eb, c.Name, false)
	case "EEB": // ... exists but holds nothing (created if it did not exist)
		eb := entBucket()
		if eb == nil {
			return nil
		}
		return c09DropBucket(eb, c.Name, true)
	case "SEK": // set index: an existing key bucket emptied, the bucket stays
		b, err := idxBucket()
		if err != nil {
			return err
		}
		if b.Bucket([]byte(c.Val)) != nil {
			return c09DropBucket(b, c.Val, true)
		}
		return nil
	case "XDB", "XEB": // the whole index bucket of a symbol (unique or set index) gone / emptied
		b, err := top.CreateBucketIfNotExists([]byte(boltz.IndexesBucket))
		if err != nil {
			return err
		}
		if b, err = b.CreateBucketIfNotExists([]byte(c.Root)); err != nil {
			return err
		}
		name := c.Name
		if sym, ok := lastKeyToSym[c.Root+"."+c.Name]; ok {
			name = sym
		}
		return c09DropBucket(b, name, c.Op == "XEB")
	}
	return fmt.Errorf("unknown corruption %q", c.Op)
}

// c09DropBucket removes the nested bucket [name] of [parent] with everything below it; with [recreate] an empty
// bucket of that name exists afterwards (also when there was none before)
func c09DropBucket(parent *bbolt.Bucket, name string, recreate bool) error {
	if parent.Bucket([]byte(name)) != nil {
		if err := parent.DeleteBucket([]byte(name)); err != nil {
			return err
		}
	} else if parent.Get([]byte(name)) != nil {
		return nil // a plain key of that name: not ours
	}
	if recreate {
		_, err := parent.CreateBucket([]byte(name))
		return err
	}
	return nil
}

// ---- candidates -------------------------------------------------------------------------------

type factView struct {
	ents   map[string][]string            // root -> ids
	fields map[string]string              // root/id/field -> value token
	sets   map[string][]string            // root/id/set -> members
	uidx   map[string][][2]string         // root/sym -> (value, id)
	sidx   map[string]map[string][]string // root/sym -> value -> ids
	child  map[string]bool                // root/id/childstore: the entity has data of that child store
}

func unhxs(s string) string { return string(unhx(s)) }

func viewFacts(facts []string) *factView {
	v := &factView{ents: map[string][]string{}, fields: map[string]string{}, sets: map[string][]string{},
		uidx: map[string][][2]string{}, sidx: map[string]map[string][]string{}, child: map[string]bool{}}
	for _, f := range facts {
		p := strings.Split(f, ":")
		switch p[0] {
		case "E":
			v.ents[p[1]] = append(v.ents[p[1]], unhxs(p[2]))
		case "F":
			v.fields[p[1]+"/"+unhxs(p[2])+"/"+p[3]] = p[4]
		case "C":
			v.child[p[1]+"/"+unhxs(p[2])+"/"+p[3]] = true
		case "CF": // a child store's own field: keyed root/id/<child>.<field>
			v.fields[p[1]+"/"+unhxs(p[2])+"/"+p[3]+"."+p[4]] = p[5]
		case "S":
			k := p[1] + "/" + unhxs(p[2]) + "/" + p[3]
			v.sets[k] = append(v.sets[k], unhxs(p[4]))
		case "U":
			k := p[1] + "/" + p[2]
			v.uidx[k] = append(v.uidx[k], [2]string{unhxs(p[3]), unhxs(p[4])})
		case "XK":
			k := p[1] + "/" + p[2]
			if v.sidx[k] == nil {
				v.sidx[k] = map[string][]string{}
			}
			if _, ok := v.sidx[k][unhxs(p[3])]; !ok {
				v.sidx[k][unhxs(p[3])] = nil
			}
		case "X":
			k := p[1] + "/" + p[2]
			if v.sidx[k] == nil {
				v.sidx[k] = map[string][]string{}
			}
			v.sidx[k][unhxs(p[3])] = append(v.sidx[k][unhxs(p[3])], unhxs(p[4]))
		}
	}
	return v
}

func (w *wiring) rootOf(store string) string {
	if p := w.store(store).Parent; p != "" {
		return p
	}
	return store
}

// ownField: the field is declared by the (child) store itself, i.e. lives in the child bucket
func (s *sStore) ownField(f string) bool {
	if s.Parent == "" {
		return false
	}
	for _, x := range s.Fields {
		if x.Name == f {
			return true
		}
	}
	return false
}

// members: the ids store s iterates (IterateValidIds): every entity of a root store, the entities with child data else
func (v *factView) members(w *wiring, s *sStore) []string {
	root := w.rootOf(s.Name)
	if s.Parent == "" {
		return v.ents[root]
	}
	var out []string
	for _, i := range v.ents[root] {
		if v.child[root+"/"+i+"/"+s.Name] {
			out = append(out, i)
		}
	}
	return out
}

// fieldOf: the value token of field f as store s evaluates it
func (v *factView) fieldOf(w *wiring, s *sStore, i, f string) string {
	root := w.rootOf(s.Name)
	if s.ownField(f) {
		return v.fields[root+"/"+i+"/"+s.Name+"."+f]
	}
	return v.fields[root+"/"+i+"/"+f]
}

// c09SetField / c09NilField: the raw write that overwrites field f of entity i as store s sees it
func c09SetField(w *wiring, s *sStore, class, i, f, val string) corruption {
	if s.ownField(f) {
		return corruption{Op: "CFS", Class: class, Root: w.rootOf(s.Name), Id: i, Child: s.Name, Name: f, Val: val}
	}
	return corruption{Op: "FS", Class: class, Root: w.rootOf(s.Name), Id: i, Name: f, Val: val}
}

func c09NilField(w *wiring, s *sStore, class, i, f string) corruption {
	if s.ownField(f) {
		return corruption{Op: "CFN", Class: class, Root: w.rootOf(s.Name), Id: i, Child: s.Name, Name: f}
	}
	return corruption{Op: "FN", Class: class, Root: w.rootOf(s.Name), Id: i, Name: f}
}

// candidates enumerates the corruptions of the supported classes that apply to the (consistent) state
func candidates(w *wiring, facts []string, r *rng, universe []string) []corruption {
	v := viewFacts(facts)
	var out []corruption
	add := func(c corruption) { out = append(out, c) }
	otherIds := func(root string, not ...string) []string { // ghost ids first, then living entities
		var res []string
		alive := map[string]bool{}
		for _, i := range v.ents[root] {
			alive[i] = true
		}
		skip := map[string]bool{}
		for _, n := range not {
			skip[n] = true
		}
		for _, i := range append(append([]string{}, universe...), "ghost") {
			if !alive[i] && !skip[i] {
				res = append(res, i)
			}
		}
		for _, i := range v.ents[root] {
			if !skip[i] {
				res = append(res, i)
			}
		}
		return res
	}
	pick := func(xs []string) (string, bool) {
		if len(xs) == 0 {
			return "", false
		}
		return xs[r.intn(len(xs))], true
	}
	ghost := func(root string) string {
		for _, i := range otherIds(root) {
			return i
		}
		return "ghost"
	}
	for _, s := range w.Stores {
		root := w.rootOf(s.Name)
		for _, c := range s.Cons {
			switch c.Kind {
			case "U":
				entries := v.uidx[root+"/"+c.Field]
				for _, e := range entries {
					add(corruption{Op: "UD", Class: "unique-missing", Root: root, Name: c.Field, Val: e[0]})
					if j, ok := pick(otherIds(root, e[1])); ok {
						add(corruption{Op: "UP", Class: "unique-wrong-target", Root: root, Name: c.Field, Val: e[0], Tgt: j})
					}
				}
				if j, ok := pick(otherIds(root)); ok {
					add(corruption{Op: "UP", Class: "unique-extra", Root: root, Name: c.Field, Val: "zzu" + fmt.Sprint(r.intn(3)), Tgt: j})
				}
				add(corruption{Op: "UP", Class: "unique-extra", Root: root, Name: c.Field, Val: "zzv", Tgt: ghost(root)})
				// the whole index bucket of the symbol: absent / present but empty
				add(corruption{Op: "XDB", Class: "unique-index-bucket-deleted", Root: root, Name: c.Field})
				add(corruption{Op: "XEB", Class: "unique-index-bucket-emptied", Root: root, Name: c.Field})
				// genuine conflicts: a duplicate value / a nil in the field (root fields only)
				if s.Parent == "" {
					ids := v.ents[root]
					if len(ids) >= 2 {
						i, j := ids[r.intn(len(ids))], ids[r.intn(len(ids))]
						if val := v.fields[root+"/"+j+"/"+c.Field]; i != j && strings.HasPrefix(val, "s") && val != "s-" {
							add(corruption{Op: "FS", Class: "unique-duplicate-value", Root: root, Id: i, Name: c.Field, Val: unhxs(val[1:])})
						}
					}
					if i, ok := pick(ids); ok {
						add(corruption{Op: "FN", Class: "nil-field", Root: root, Id: i, Name: c.Field})
					}
				} else if s.ownField(c.Field) {
					// the same two genuine conflicts on a field the child store keeps in its own bucket
					ids := v.members(w, s)
					if len(ids) >= 2 {
						i, j := ids[r.intn(len(ids))], ids[r.intn(len(ids))]
						if val := v.fieldOf(w, s, j, c.Field); i != j && strings.HasPrefix(val, "s") && val != "s-" {
							add(c09SetField(w, s, "unique-duplicate-value", i, c.Field, unhxs(val[1:])))
						}
					}
					if i, ok := pick(ids); ok {
						add(c09NilField(w, s, "nil-field", i, c.Field))
					}
				}
			case "SI":
				keys := v.sidx[root+"/"+c.Field]
				var ks []string
				for k := range keys {
					ks = append(ks, k)
				}
				sort.Strings(ks)
				for _, k := range ks {
					for _, i := range keys[k] {
						add(corruption{Op: "SDI", Class: "set-missing-entry", Root: root, Name: c.Field, Val: k, Tgt: i})
					}
					add(corruption{Op: "SDK", Class: "set-missing-key", Root: root, Name: c.Field, Val: k})
					if j, ok := pick(otherIds(root, keys[k]...)); ok {
						add(corruption{Op: "SAI", Class: "set-extra-entry", Root: root, Name: c.Field, Val: k, Tgt: j})
					}
				}
				if j, ok := pick(otherIds(root)); ok {
					add(corruption{Op: "SAI", Class: "set-extra-entry", Root: root, Name: c.Field, Val: "zzs", Tgt: j})
				}
				add(corruption{Op: "SAK", Class: "set-empty-key", Root: root, Name: c.Field, Val: "zzk" + fmt.Sprint(r.intn(2))})
				add(corruption{Op: "SJ", Class: "set-junk-key", Root: root, Name: c.Field, Val: "zzj"})
				// whole buckets: an existing key bucket emptied; the index bucket of the symbol absent / emptied;
				// the set-field bucket of an entity absent / emptied (every index entry of the entity is stale)
				if k, ok := pick(ks); ok {
					add(corruption{Op: "SEK", Class: "set-key-emptied", Root: root, Name: c.Field, Val: k})
				}
				add(corruption{Op: "XDB", Class: "set-index-bucket-deleted", Root: root, Name: c.Field})
				add(corruption{Op: "XEB", Class: "set-index-bucket-emptied", Root: root, Name: c.Field})
				if s.Parent == "" {
					var holders []string
					for _, i := range v.ents[root] {
						if len(v.sets[root+"/"+i+"/"+c.Field]) > 0 {
							holders = append(holders, i)
						}
					}
					if i, ok := pick(holders); ok {
						add(corruption{Op: "EDB", Class: "set-field-bucket-deleted", Root: root, Id: i, Name: c.Field})
						add(corruption{Op: "EEB", Class: "set-field-bucket-emptied", Root: root, Id: i, Name: c.Field})
					}
				}
			case "FI", "FC":
				troot := w.rootOf(c.Target)
				referrers := v.members(w, s)
				for _, i := range referrers {
					val := v.fieldOf(w, s, i, c.Field)
					if c.Kind == "FI" && strings.HasPrefix(val, "s") && val != "s-" {
						add(corruption{Op: "ED", Class: "fk-missing-backref", Root: troot, Id: unhxs(val[1:]), Name: c.Back, Val: i})
					}
				}
				if c.Kind == "FI" {
					for _, ti := range v.ents[troot] {
						if x, ok := pick(otherIds(root, v.sets[troot+"/"+ti+"/"+c.Back]...)); ok {
							add(corruption{Op: "EA", Class: "fk-extra-backref", Root: troot, Id: ti, Name: c.Back, Val: x})
						}
					}
				}
				// the fk field re-pointed below the API to ANOTHER EXISTING target: preferably one that never had a
				// referrer, whose back-reference bucket therefore does not exist (it is created lazily by the first
				// referrer): the old target keeps a wrong back-reference, the new one misses its only one
				for _, i := range referrers {
					val := v.fieldOf(w, s, i, c.Field)
					cur := ""
					if strings.HasPrefix(val, "s") && val != "s-" {
						cur = unhxs(val[1:])
					}
					var noRef, other []string
					for _, ti := range v.ents[troot] {
						if ti == cur {
							continue
						}
						if c.Kind == "FI" && len(v.sets[troot+"/"+ti+"/"+c.Back]) == 0 {
							noRef = append(noRef, ti)
						} else {
							other = append(other, ti)
						}
					}
					if t, ok := pick(noRef); ok {
						add(c09SetField(w, s, "fk-repoint-target-without-backrefs", i, c.Field, t))
					}
					if t, ok := pick(other); ok {
						add(c09SetField(w, s, "fk-repoint", i, c.Field, t))
					}
				}
				// the whole back-reference bucket of a target absent / emptied (every referrer misses its back-reference
				// and there is no bucket to look into); an empty bucket on a target without referrers (neutral)
				if c.Kind == "FI" {
					var lonely []string
					for _, ti := range v.ents[troot] {
						if len(v.sets[troot+"/"+ti+"/"+c.Back]) > 0 {
							add(corruption{Op: "EDB", Class: "fk-backref-bucket-deleted", Root: troot, Id: ti, Name: c.Back})
							add(corruption{Op: "EEB", Class: "fk-backref-bucket-emptied", Root: troot, Id: ti, Name: c.Back})
						} else {
							lonely = append(lonely, ti)
						}
					}
					if ti, ok := pick(lonely); ok {
						add(corruption{Op: "EEB", Class: "fk-backref-bucket-empty-created", Root: troot, Id: ti, Name: c.Back})
						add(corruption{Op: "EDB", Class: "fk-backref-bucket-empty-removed", Root: troot, Id: ti, Name: c.Back})
					}
				}
				if i, ok := pick(referrers); ok {
					add(c09SetField(w, s, "fk-dangling-ref", i, c.Field, ghost(troot)))
					add(c09NilField(w, s, "nil-field", i, c.Field))
				}
			}
		}
		for _, l := range s.Links {
			oroot := w.rootOf(l.Other)
			for _, i := range v.ents[root] {
				for _, x := range v.sets[root+"/"+i+"/"+l.Local] {
					add(corruption{Op: "ED", Class: "link-one-sided", Root: oroot, Id: x, Name: l.OtherField, Val: i})
				}
				// the whole link bucket on this side absent / emptied: every partner keeps a one-sided link
				if len(v.sets[root+"/"+i+"/"+l.Local]) > 0 {
					add(corruption{Op: "EDB", Class: "link-bucket-deleted", Root: root, Id: i, Name: l.Local})
					add(corruption{Op: "EEB", Class: "link-bucket-emptied", Root: root, Id: i, Name: l.Local})
				}
				var unlinked []string
				have := map[string]bool{}
				for _, x := range v.sets[root+"/"+i+"/"+l.Local] {
					have[x] = true
				}
				for _, x := range v.ents[oroot] {
					if !have[x] {
						unlinked = append(unlinked, x)
					}
				}
				if x, ok := pick(unlinked); ok {
					add(corruption{Op: "EA", Class: "link-one-sided", Root: root, Id: i, Name: l.Local, Val: x})
				}
				add(corruption{Op: "EA", Class: "link-dangling", Root: root, Id: i, Name: l.Local, Val: ghost(oroot)})
				if g := otherIds(oroot); len(g) > 1 && g[1] != ghost(oroot) {
					add(corruption{Op: "EA", Class: "link-dangling", Root: root, Id: i, Name: l.Local, Val: g[1]})
				}
			}
		}
	}
	// keys / ids in prefix relation with a legitimate neighbour (store_c09_w5.go)
	c09NearCandidates(w, v, r, add)
	return out
}

// ---- running the checker ------------------------------------------------------------------------

// reportKind maps an errorSink message to the report enum of Integrity.v (messages are not compared)
func reportKind(msg string) string {
	has := func(x string) bool { return strings.Contains(msg, x) }
	switch {
	case strings.HasPrefix(msg, "unique index"):
		switch {
		case has("which doesn't exist"):
			return "KUStale"
		case has("which should be"):
			return "KUWrong"
		case has("missing value"):
			return "KUMissing"
		case has("constraint violation"):
			return "KUConflict"
		}
	case strings.HasPrefix(msg, "for index on"):
		switch {
		case has("which doesn't exist"):
			return "KSMissingEntity"
		case has("which doesn't contain the value"):
			return "KSStale"
		case has("has no referenced values"):
			return "KSEmptyKey"
		case has("is not a bucket"):
			return "KSJunk"
		case has("but is not in the index"):
			return "KSMissing"
		}
	case strings.HasPrefix(msg, "for fk "):
		switch {
		case has("which doesn't exist"):
			return "KBDangling"
		case has("non-matching value"):
			return "KBWrong"
		}
	case has("non-nillable"):
		return "KNil"
	case has("has invalid value for"):
		return "KFkDangling"
	case has("but no back-reference exists"):
		return "KBMissing"
	case has("but reverse link is missing"):
		return "KLOneSided"
	case has("no inverse collection found"):
		return "KLNoInverse"
	case has("which doesn't exist"):
		return "KLDangling"
	}
	return "KOther"
}

// rawDump: byte-exact content of the file (every bucket incl. empty ones, every key and value)
func (h *harnessDb) rawDump() string {
	hsh := sha256.New()
	var walk func(b *bbolt.Bucket, depth int)
	walk = func(b *bbolt.Bucket, depth int) {
		_ = b.ForEach(func(k, v []byte) error {
			if sub := b.Bucket(k); sub != nil && v == nil {
				fmt.Fprintf(hsh, "%d B %x\n", depth, k)
				walk(sub, depth+1)
			} else {
				fmt.Fprintf(hsh, "%d K %x=%x\n", depth, k, v)
			}
			return nil
		})
	}
	view := h.db.View
	if h.factsTx != nil { // inside the (uncommitted) transaction of an in-transaction case
		view = func(f func(*bbolt.Tx) error) error { return f(h.factsTx) }
	}
	_ = view(func(tx *bbolt.Tx) error {
		return tx.ForEach(func(name []byte, b *bbolt.Bucket) error {
			fmt.Fprintf(hsh, "T %x\n", name)
			walk(b, 1)
			return nil
		})
	})
	return fmt.Sprintf("%x", hsh.Sum(nil))
}

// checkPhase runs CheckIntegrity of every store in schema order inside one transaction of its own
func (h *harnessDb) checkPhase(tag string, fix bool, readOnly bool) string {
	return h.checkPhaseIn(nil, tag, fix, readOnly)
}

// checkPhaseIn: with inCtx != nil the phase runs inside the caller's open write transaction (h.factsTx is set, so the
// facts and the byte-exact dump show what THAT transaction sees, committed or not)
func (h *harnessDb) checkPhaseIn(inCtx boltz.MutateContext, tag string, fix bool, readOnly bool) string {
	var reports []string
	status := "ok"
	sink := func(err error, fixed bool) {
		reports = append(reports, reportKind(err.Error())+":"+b01(fixed))
	}
	body := func(ctx boltz.MutateContext) (err error) {
		defer func() {
			if p := recover(); p != nil {
				status = "panic"
				err = nil
			}
		}()
		for _, def := range h.w.Stores {
			if e := h.stores[def.Name].CheckIntegrity(ctx, fix, sink); e != nil {
				status = "err"
				return nil // keep what was done so far, as a caller logging the error would
			}
		}
		return nil
	}
	before := ""
	if !fix {
		before = h.rawDump()
	}
	switch {
	case inCtx != nil:
		_ = body(inCtx)
	case readOnly:
		_ = h.db.View(func(tx *bbolt.Tx) error {
			return body(boltz.NewTxMutateContext(context.Background(), tx))
		})
	default:
		_ = h.db.Update(nil, body)
	}
	var sb strings.Builder
	sb.WriteString(tag + " " + status)
	if !fix {
		if h.rawDump() == before {
			sb.WriteString(" RAWSAME")
		} else {
			sb.WriteString(" RAWCHANGED")
		}
	}
	sort.Strings(reports)
	sb.WriteString(" R")
	for _, r := range reports {
		sb.WriteString(" " + r)
	}
	sb.WriteString(" ST")
	for _, f := range h.facts() {
		sb.WriteString(" " + f)
	}
	sb.WriteString(" | ")
	return sb.String()
}

// execTx runs one transaction of a history through Db.Update (as harnessDb.runTx, without observations)
func (h *harnessDb) execTx(t *hTx) error {
	h.mu.Lock()
	h.vetoes = map[string]bool{}
	for _, v := range t.Vetoes {
		h.vetoes[v.Store+"/"+v.Change+"/"+v.Id] = true
	}
	h.events = nil
	h.raised = 0
	h.mu.Unlock()
	ctx := boltz.NewMutateContext(context.Background())
	if t.Sys {
		ctx = ctx.GetSystemContext()
	}
	return h.db.Update(ctx, func(ctx boltz.MutateContext) error {
		if t.PreCommitErr {
			ctx.AddPreCommitAction(func(boltz.MutateContext) error { return fmt.Errorf("pre-commit action failed") })
		}
		for i := range t.Ops {
			if e := h.execOp(ctx, &t.Ops[i]); e != nil {
				return e
			}
		}
		return nil
	})
}

// c09Mode: how the steps of a case are grouped into transactions (token "MODE <name>" at the end of a case line; the
// model is a state machine and ignores it - the verdicts must not depend on the grouping):
//
//	""    every step in a transaction of its own (history, corruptions, CKR in db.View, CKW, FIX, RCK)
//	J     corruptions committed; CKR in db.View; then CKW, FIX and RCK inside ONE db.Update (fix, then verify, then commit)
//	CJ    corruptions, two check-only runs, FIX and RCK inside ONE db.Update (the checker inspects uncommitted raw writes)
//	LCJ   additionally the LAST transaction of the history is not committed on its own: its operations run first inside
//	      that same db.Update (populate / update through the API and check before commit).  If one of them fails the
//	      transaction is rolled back - as the model's run_tx says - and the rest runs as CJ on the state before it.
//
// In the joint modes a POST phase follows the commit: check-only in a fresh read-only transaction; it must see the facts
// the RCK phase saw inside the transaction and give the same verdict.
type c09Mode struct {
	name                   string
	live, corruptIn, joint bool
}

func c09ParseMode(name string) (c09Mode, error) {
	switch name {
	case "":
		return c09Mode{}, nil
	case "J":
		return c09Mode{name: name, joint: true}, nil
	case "CJ":
		return c09Mode{name: name, joint: true, corruptIn: true}, nil
	case "LCJ":
		return c09Mode{name: name, joint: true, corruptIn: true, live: true}, nil
	}
	return c09Mode{}, fmt.Errorf("bad mode %q", name)
}

func (h *harnessDb) c09ApplyCorruptions(tx *bbolt.Tx, cs []corruption) error {
	for _, x := range cs {
		if e := applyCorruption(tx, x); e != nil {
			return fmt.Errorf("corruption %s: %v", x.text(), e)
		}
	}
	// XDB removed the index bucket of a symbol altogether.  Index buckets are created by InitializeIndexes, which an
	// application runs on every start before it touches a store (setIndex.getIndexBucket: "bucket ... for index not
	// created"); the supported state is therefore "bucket deleted, process restarted": the start-up step runs again.
	for _, x := range cs {
		if x.Op == "XDB" {
			holder := &errHolder{}
			for _, def := range h.w.Stores {
				h.stores[def.Name].InitializeIndexes(tx, holder)
			}
			return holder.err
		}
	}
	return nil
}

func (h *harnessDb) c09Pre(flags string) string {
	var o strings.Builder
	o.WriteString("PRE ok" + flags + " R ST")
	for _, f := range h.facts() {
		o.WriteString(" " + f)
	}
	o.WriteString(" | ")
	return o.String()
}

// runC09Case executes history + corruptions + the four checker phases on a fresh database;
// the corruptions are chosen by [choose] from the facts of the consistent state the history leaves
func runC09Case(w *wiring, txs []hTx, choose func(facts []string) []corruption, dir string, mode c09Mode) (string, string, []corruption, error) {
	h, err := openHarnessDb(w, dir)
	if err != nil {
		return "", "", nil, err
	}
	defer h.close()
	var c, o strings.Builder
	c.WriteString(w.text())
	committed := txs
	var live *hTx
	if mode.live && len(txs) > 0 {
		live = &txs[len(txs)-1]
		committed = txs[:len(txs)-1]
		if live.PreCommitErr { // rolled back whatever it does: nothing of it is visible to the check
			live = nil
		}
	}
	for i := range txs {
		c.WriteString(" ")
		c.WriteString(w.txText(&txs[i]))
	}
	for i := range committed {
		_ = h.execTx(&committed[i])
	}
	var cs []corruption
	finishCase := func() {
		fmt.Fprintf(&c, " CORRUPT %d", len(cs))
		for _, x := range cs {
			c.WriteString(" " + x.text())
		}
		if mode.name != "" {
			c.WriteString(" MODE " + mode.name)
		}
	}
	if !mode.corruptIn {
		cs = choose(h.facts())
		err = h.db.Update(nil, func(ctx boltz.MutateContext) error {
			return h.c09ApplyCorruptions(ctx.Tx(), cs)
		})
		if err != nil {
			return "", "", nil, err
		}
		o.WriteString(h.c09Pre(""))
		o.WriteString(h.checkPhase("CKR", false, true))
		if !mode.joint {
			o.WriteString(h.checkPhase("CKW", false, false))
			o.WriteString(h.checkPhase("FIX", true, false))
			o.WriteString(h.checkPhase("RCK", false, false))
			finishCase()
			return c.String(), o.String(), cs, nil
		}
	}
	// the joint transaction
	attempt := func(withLive bool) (string, error, error) {
		var jo strings.Builder
		var liveErr error
		h.mu.Lock()
		h.vetoes = map[string]bool{}
		if withLive {
			for _, v := range live.Vetoes {
				h.vetoes[v.Store+"/"+v.Change+"/"+v.Id] = true
			}
		}
		h.events = nil
		h.raised = 0
		h.mu.Unlock()
		ctx := boltz.NewMutateContext(context.Background())
		if withLive && live.Sys {
			ctx = ctx.GetSystemContext()
		}
		txErr := h.db.Update(ctx, func(ctx boltz.MutateContext) error {
			h.factsTx = ctx.Tx()
			defer func() { h.factsTx = nil }()
			if withLive {
				for i := range live.Ops {
					if e := h.execOp(ctx, &live.Ops[i]); e != nil {
						liveErr = e
						return e
					}
				}
			}
			if mode.corruptIn {
				cs = choose(h.facts())
				if e := h.c09ApplyCorruptions(ctx.Tx(), cs); e != nil {
					return e
				}
				flags := ""
				if withLive {
					flags = " LIVE" // the operations of the history's last transaction ran inside this transaction
				} else if live != nil {
					flags = " LIVEROLLEDBACK"
				}
				jo.WriteString(h.c09Pre(flags))
				jo.WriteString(h.checkPhaseIn(ctx, "CKR", false, false))
			}
			jo.WriteString(h.checkPhaseIn(ctx, "CKW", false, false))
			jo.WriteString(h.checkPhaseIn(ctx, "FIX", true, false))
			jo.WriteString(h.checkPhaseIn(ctx, "RCK", false, false))
			return nil
		})
		return jo.String(), liveErr, txErr
	}
	seg, liveErr, txErr := attempt(live != nil)
	if liveErr != nil {
		seg, _, txErr = attempt(false) // the history's last transaction is rolled back; check the state before it
	}
	if txErr != nil {
		return "", "", nil, fmt.Errorf("joint transaction: %v", txErr)
	}
	o.WriteString(seg)
	o.WriteString(h.checkPhase("POST", false, true))
	finishCase()
	return c.String(), o.String(), cs, nil
}

// consistentFacts replays a history and returns the facts of the (uncorrupted) final state
func consistentFacts(w *wiring, txs []hTx, dir string) ([]string, error) {
	h, err := openHarnessDb(w, dir)
	if err != nil {
		return nil, err
	}
	defer h.close()
	for i := range txs {
		_ = h.execTx(&txs[i])
	}
	return h.facts(), nil
}

func c09Profile() *genProfile {
	p := profileFor("c09")
	p.name = "c09"
	p.maxTx, p.maxOps = 5, 3
	p.pFail, p.pPreCommit, p.pVeto = 3, 2, 3
	p.vals = []string{"v1", "v2", "v3", "", "v4", "v5", "v6", "v7"}
	return p
}

// storeOrder: fk targets before referrers, parents before children
func storeOrder(w *wiring) []*sStore {
	var order []*sStore
	done := map[string]bool{}
	for pass := 0; pass < len(w.Stores)+1; pass++ {
		for _, s := range w.Stores {
			if done[s.Name] {
				continue
			}
			ready := s.Parent == "" || done[s.Parent]
			for _, c := range s.Cons {
				if (c.Kind == "FI" || c.Kind == "FC") && c.Target != s.Name && w.rootOf(c.Target) != w.rootOf(s.Name) && !done[c.Target] {
					ready = false
				}
			}
			if ready || pass == len(w.Stores) {
				done[s.Name] = true
				order = append(order, s)
			}
		}
	}
	return order
}

// genPopulated: a history that leaves a well-populated consistent database: a seeding phase (one
// create per transaction, targets first), random churn through the shared generator (updates,
// deletes incl. cascades, re-creation, link ops, failing transactions), then some more creates and links
func (g *histGen) genPopulated() []hTx {
	g.alive = map[string]map[string]bool{}
	for _, s := range g.w.Stores {
		if s.Parent == "" {
			g.alive[s.Name] = map[string]bool{}
		}
	}
	var txs []hTx
	create := func(s *sStore) {
		root := g.w.rootOf(s.Name)
		op := hOp{Kind: "C", Store: s.Name, Id: g.pickId(), Sys: g.r.chance(10)}
		for try := 0; try < 6 && g.alive[root][op.Id]; try++ {
			op.Id = g.pickId()
		}
		g.fieldsValue(&op)
		g.alive[root][op.Id] = true
		txs = append(txs, hTx{Sys: true, Ops: []hOp{op}})
	}
	links := func() {
		for _, s := range g.w.Stores {
			for _, l := range s.Links {
				if g.r.chance(70) {
					op := hOp{Kind: "AL", Store: s.Name, Id: g.pickAlive(s.Name), LinkF: l.Local}
					for k := 1 + g.r.intn(3); k > 0; k-- {
						op.Targets = append(op.Targets, g.pickAlive(l.Other))
					}
					txs = append(txs, hTx{Sys: true, Ops: []hOp{op}})
				}
			}
		}
	}
	order := storeOrder(g.w)
	for round := 0; round < 2; round++ {
		for _, s := range order {
			for k := 1 + g.r.intn(3); k > 0; k-- {
				create(s)
			}
		}
	}
	links()
	for k := g.r.intn(g.p.maxTx + 1); k > 0; k-- {
		txs = append(txs, g.genTx())
	}
	for _, s := range order {
		if g.r.chance(50) {
			create(s)
		}
	}
	if g.r.chance(50) {
		links()
	}
	return txs
}

// subsets of size <= k of n indices, in a fixed order
func subsetsUpTo(n, k int) [][]int {
	var out [][]int
	var rec func(start int, cur []int)
	rec = func(start int, cur []int) {
		out = append(out, append([]int{}, cur...))
		if len(cur) == k {
			return
		}
		for i := start; i < n; i++ {
			rec(i+1, append(cur, i))
		}
	}
	rec(0, nil)
	return out
}

func runC09(o *opts) error {
	logrus.SetOutput(io.Discard) // BaseStore.CheckIntegrity logs every error it returns
	cases := newLineWriter(o.out, "cases.txt")
	impl := newLineWriter(o.out, "impl.txt")
	defer cases.close()
	defer impl.close()
	tmp := o.get("tmp", os.TempDir())
	stats := map[string]int{}
	emitMode := func(w *wiring, txs []hTx, choose func(facts []string) []corruption, mode c09Mode) error {
		c, obs, cs, err := runC09Case(w, txs, choose, tmp, mode)
		if err != nil {
			return err
		}
		if mode.name != "" {
			stats["mode_"+mode.name]++
			if mode.live && !strings.Contains(obs, "PRE ok LIVE R") {
				stats["mode_LCJ_live_rolled_back"]++
			}
		}
		cases.line("%s", c)
		impl.line("%s", obs)
		stats["cases"]++
		stats[fmt.Sprintf("corruptions_%d", len(cs))]++
		for _, x := range cs {
			stats["class_"+x.Class]++
		}
		stats["wiring_"+w.Name]++
		return nil
	}
	emit := func(w *wiring, txs []hTx, choose func(facts []string) []corruption) error {
		return emitMode(w, txs, choose, c09Mode{})
	}
	fixed := func(cs []corruption) func([]string) []corruption {
		return func([]string) []corruption { return cs }
	}
	// corpus / replay: case lines executed first
	if cp := o.get("corpus", ""); cp != "" {
		data, err := os.ReadFile(cp)
		if err != nil {
			return err
		}
		for _, line := range strings.Split(string(data), "\n") {
			line = strings.TrimSpace(line)
			if line == "" || strings.HasPrefix(line, "#") {
				continue
			}
			mode := c09Mode{}
			if k := strings.LastIndex(line, " MODE "); k >= 0 {
				var err error
				if mode, err = c09ParseMode(strings.TrimSpace(line[k+6:])); err != nil {
					return fmt.Errorf("corpus %s: %v", cp, err)
				}
				line = line[:k]
			}
			parts := strings.SplitN(line, " CORRUPT ", 2)
			w, txs, err := parseCase(parts[0])
			if err != nil {
				return fmt.Errorf("corpus %s: %v", cp, err)
			}
			var cs []corruption
			if len(parts) == 2 {
				if cs, err = parseCorruptions(strings.Fields(parts[1])); err != nil {
					return err
				}
			}
			if err := emitMode(w, txs, fixed(cs), mode); err != nil {
				return err
			}
			stats["corpus"]++
		}
	}
	prof := c09Profile()
	r := newRng(o.seed)
	nStates, pool, maxK := 0, 0, 4
	n := 600
	if o.thorough() {
		nStates, pool = 50, 8
		n = 1500
	}
	if o.n > 0 {
		n = o.n
		nStates = o.getInt("states", 0)
	}
	if o.get("only-corpus", "") != "" {
		n, nStates = 0, 0
	}
	// the universes of a history: the plain ones or the prefix chains (store_c09_w5.go)
	mkHistory := func(i int) (*wiring, []string, []hTx) {
		w := wiringByName(prof.wirings[i%len(prof.wirings)])
		w.derive()
		p, ids := c09Universe(r, prof, prof.ids)
		if p != prof {
			stats["chain_universe_histories"]++
		}
		g := &histGen{r: r, w: w, p: p, ids: ids}
		return w, ids, g.genPopulated()
	}
	// random (state, corruption subset) pairs
	randomChoice := func(w *wiring, ids []string, pZero int) func(facts []string) []corruption {
		return func(facts []string) []corruption {
			cands := candidates(w, facts, r, ids)
			stats["candidates_total"] += len(cands)
			k := 0
			switch x := r.intn(100); {
			case x < 8:
				k = 0
			case x < 40:
				k = 1
			case x < 65:
				k = 2
			case x < 85:
				k = 3
			case x < 95:
				k = 4
			default:
				k = 5 + r.intn(4)
			}
			if pZero > 0 && r.chance(pZero) {
				k = 0
			}
			// half of the draws uniform over the candidates (classes with many instances dominate), half uniform
			// over the CLASSES present first (whole-bucket classes have one or two instances per state)
			byClass := map[string][]corruption{}
			var classes []string
			for _, x := range cands {
				if _, ok := byClass[x.Class]; !ok {
					classes = append(classes, x.Class)
				}
				byClass[x.Class] = append(byClass[x.Class], x)
			}
			var cs []corruption
			for j := 0; j < k && len(cands) > 0; j++ {
				if r.chance(50) {
					l := byClass[classes[r.intn(len(classes))]]
					cs = append(cs, l[r.intn(len(l))])
				} else {
					cs = append(cs, cands[r.intn(len(cands))])
				}
			}
			return cs
		}
	}
	for i := 0; i < n; i++ {
		w, ids, txs := mkHistory(i)
		if err := emit(w, txs, randomChoice(w, ids, 0)); err != nil {
			return err
		}
		stats["random_cases"]++
	}
	// in-transaction cases and the child-store wirings (store_c09_w3.go)
	if o.get("only-corpus", "") == "" {
		if err := c09W3Streams(o, r, prof, tmp, stats, emitMode, randomChoice); err != nil {
			return err
		}
	}
	// bounded-exhaustive: all subsets of <= 4 corruptions out of a pool of candidates, per state
	for i := 0; i < nStates; i++ {
		w, ids, txs := mkHistory(i)
		facts, err := consistentFacts(w, txs, tmp)
		if err != nil {
			return err
		}
		cands := candidates(w, facts, r, ids)
		// a pool that covers as many different classes as possible
		var poolC []corruption
		seen := map[string]bool{}
		perm := make([]int, len(cands))
		for j := range perm {
			perm[j] = j
		}
		for j := len(perm) - 1; j > 0; j-- {
			k := r.intn(j + 1)
			perm[j], perm[k] = perm[k], perm[j]
		}
		for _, j := range perm {
			if len(poolC) < pool && !seen[cands[j].Class] {
				seen[cands[j].Class] = true
				poolC = append(poolC, cands[j])
			}
		}
		for _, j := range perm {
			if len(poolC) < pool && !containsCorruption(poolC, cands[j]) {
				poolC = append(poolC, cands[j])
			}
		}
		for _, sub := range subsetsUpTo(len(poolC), maxK) {
			var cs []corruption
			for _, j := range sub {
				cs = append(cs, poolC[j])
			}
			if err := emit(w, txs, fixed(cs)); err != nil {
				return err
			}
			stats["exhaustive_cases"]++
		}
		stats["exhaustive_states"]++
	}
	writeJSON(o.out, "stats.json", stats)
	fmt.Fprintf(os.Stderr, "c09: %d cases\n", stats["cases"])
	return nil
}

func containsCorruption(l []corruption, c corruption) bool {
	for _, x := range l {
		if x == c {
			return true
		}
	}
	return false
}
