package main

// Shared store harness (C03 C04 C06 C07 C08 C15 C16): schema-driven generic boltz stores,
// seeded history generator, executor and canonical fact projection of the bolt file.
// The same schema / history text is printed for the extracted Coq store machine
// (coq/extraction/store_driver.ml).

import (
	"context"
	"fmt"
	"os"
	"path/filepath"
	"sort"
	"strings"
	"sync"

	"github.com/openziti/storage/ast"
	"github.com/openziti/storage/boltz"
	"github.com/pkg/errors"
	"go.etcd.io/bbolt"
)

// ---- schema ------------------------------------------------------------------------------

type sField struct {
	Name string // storage key of the field = its name in the schema text, the model and the field checker
	Ptr  bool
	Sym  string // symbol name when it differs from the storage key (AddSymbolWithKey); "" = same
	Req  bool   // written with PersistContext.SetRequiredString (an empty value is a validation error); not part of the
	// schema text: histories name the required fields on the operations that are subject to them (op prefix G)
	// how the entity strategy persists the field (store_c04_api.go; not part of the schema text: the model works on
	// storage keys, the harness translates the checker of an update when it builds the real FieldChecker)
	Api    string // name under which the FieldChecker of an update knows the field ("" = the storage key): mapped with PersistContext.WithFieldOverrides
	Ask    bool   // with Api: the strategy asks ProceedWithSet(Api) itself and then writes the storage key unconditionally
	Always bool   // written whatever the checker says (the model counts it as selected by every checker)
	Via  string // how the strategy persists the field: "" TypedBucket-level setter (SetString / SetStringP), "req" PersistContext.SetRequiredString, "gas" PersistContext.GetAndSetString (same stored value; not part of the schema text)
	Typ  string // "" = string; i64 i32 bool f64 time (store_c03t.go): the field is persisted / read with the typed setters and the value strings of cases and facts are the bytes of its storage encoding (= the index key)
	Pfx  []string // path prefix (store_c06_pfx.go): the field lives in the nested bucket <entity bucket>/<Pfx...>/<Name>, its symbol is declared with that prefix; not part of the schema text (paths are not part of the model: facts() projects the field as an ordinary field fact)
}

func (f sField) symName() string {
	if f.Sym != "" {
		return f.Sym
	}
	return f.Name
}

type sCons struct {
	Kind   string // U SI FI FR FC CA SY
	Field  string
	Target string // target / referrer store
	Back   string
	Flag   bool   // nullable
	Casc   string // N | D
}

type sLink struct{ Local, Other, OtherField string }

type sStore struct {
	Name   string
	Parent string
	Ext    bool
	Fields []sField
	Sets   []string
	Cons   []sCons // derived from the wiring script, in registration order
	Links  []sLink
	SetsVia string   // "gas": the string lists are persisted with PersistContext.GetAndSetStringList instead of SetStringList
	LinkIds []string // local link fields the strategy persists with PersistContext.SetLinkedIds when the entity carries a value for them (gEnt.L)
}

type wiringDecl struct {
	Kind                      string // unique setidx fkindex fkindexcascade fkcons system link rclink
	// rclink (s9-c16): a REF-COUNTED link collection Store.Field <-> Target.Back (AddRefCountedLinkCollection on both sides).
	// Not part of the schema text and not modelled (Store/Model.v has no counted links): derive() ignores it, facts()
	// projects the linked ids (without their counts) as S:<root>:<id>:<field>:<member>; only projections that do not
	// compare string-set facts of undeclared sets with the model (C16) may use it
	Store, Field, Target, Back string
	Nullable                  bool
	Casc                      string
}

type wiring struct {
	Name   string
	Stores []*sStore
	Script []wiringDecl
	Depth  int // number of elements of the root stores' BasePath (0 = the default, 1): stores / lv2 / lv3 / lv4
	Slack  int // > 0: all root stores are given ONE shared BasePath slice that has this much spare capacity (a caller that built the path with append)
	sharedBase []string
}

var wiringBaseLevels = []string{"stores", "lv2", "lv3", "lv4"}

// basePath is the BasePath of the wiring's root stores (paths are not part of the model: an index or an entity
// lives at one place whatever the depth)
func (w *wiring) basePath() []string {
	d := w.Depth
	if d <= 0 {
		d = 1
	}
	if d > len(wiringBaseLevels) {
		d = len(wiringBaseLevels)
	}
	if w.Slack > 0 {
		if w.sharedBase == nil {
			w.sharedBase = make([]string, d, d+w.Slack)
			copy(w.sharedBase, wiringBaseLevels[:d])
		}
		return w.sharedBase
	}
	return append([]string{}, wiringBaseLevels[:d]...)
}

func (w *wiring) store(name string) *sStore {
	for _, s := range w.Stores {
		if s.Name == name {
			return s
		}
	}
	return nil
}

// derive mirrors the side effects of the boltz wiring API on the per-store constraint lists
func (w *wiring) derive() {
	for _, s := range w.Stores {
		s.Cons = nil
		s.Links = nil
	}
	for _, d := range w.Script {
		s := w.store(d.Store)
		switch d.Kind {
		case "unique":
			s.Cons = append(s.Cons, sCons{Kind: "U", Field: d.Field, Flag: d.Nullable})
		case "setidx":
			s.Cons = append(s.Cons, sCons{Kind: "SI", Field: d.Field})
		case "fkindex":
			s.Cons = append(s.Cons, sCons{Kind: "FI", Field: d.Field, Target: d.Target, Back: d.Back, Flag: d.Nullable})
			t := w.store(d.Target)
			t.Cons = append(t.Cons, sCons{Kind: "FR", Back: d.Back})
		case "fkindexcascade":
			s.Cons = append(s.Cons, sCons{Kind: "FI", Field: d.Field, Target: d.Target, Back: d.Back, Flag: false})
			t := w.store(d.Target)
			t.Cons = append(t.Cons, sCons{Kind: "CA", Target: d.Store, Field: d.Field, Casc: "D"})
		case "fkcons":
			s.Cons = append(s.Cons, sCons{Kind: "FC", Field: d.Field, Target: d.Target, Flag: d.Nullable})
			t := w.store(d.Target)
			t.Cons = append(t.Cons, sCons{Kind: "CA", Target: d.Store, Field: d.Field, Casc: d.Casc})
		case "system":
			s.Cons = append(s.Cons, sCons{Kind: "SY"})
		case "link":
			s.Links = append(s.Links, sLink{Local: d.Field, Other: d.Target, OtherField: d.Back})
			t := w.store(d.Target)
			t.Links = append(t.Links, sLink{Local: d.Back, Other: d.Store, OtherField: d.Field})
		}
	}
}

func b01(b bool) string {
	if b {
		return "1"
	}
	return "0"
}

// text prints the schema in the token format of the model driver
func (w *wiring) text() string {
	var sb strings.Builder
	fmt.Fprintf(&sb, "WIRING %s SCH %d", w.Name, len(w.Stores))
	for _, s := range w.Stores {
		parent := s.Parent
		if parent == "" {
			parent = "-"
		}
		fmt.Fprintf(&sb, " ST %s %s %s %d", s.Name, parent, b01(s.Ext), len(s.Fields))
		for _, f := range s.Fields {
			fmt.Fprintf(&sb, " %s %s", f.Name, b01(f.Ptr))
		}
		fmt.Fprintf(&sb, " %d", len(s.Sets))
		for _, f := range s.Sets {
			fmt.Fprintf(&sb, " %s", f)
		}
		fmt.Fprintf(&sb, " %d", len(s.Cons))
		for _, c := range s.Cons {
			switch c.Kind {
			case "U":
				fmt.Fprintf(&sb, " U %s %s", c.Field, b01(c.Flag))
			case "SI":
				fmt.Fprintf(&sb, " SI %s", c.Field)
			case "FI":
				fmt.Fprintf(&sb, " FI %s %s %s %s", c.Field, c.Target, c.Back, b01(c.Flag))
			case "FR":
				fmt.Fprintf(&sb, " FR %s", c.Back)
			case "FC":
				fmt.Fprintf(&sb, " FC %s %s %s", c.Field, c.Target, b01(c.Flag))
			case "CA":
				fmt.Fprintf(&sb, " CA %s %s %s", c.Target, c.Field, c.Casc)
			case "SY":
				sb.WriteString(" SY")
			}
		}
		fmt.Fprintf(&sb, " %d", len(s.Links))
		for _, l := range s.Links {
			fmt.Fprintf(&sb, " %s %s %s", l.Local, l.Other, l.OtherField)
		}
	}
	return sb.String()
}

// ---- generic entity ----------------------------------------------------------------------

type gEnt struct {
	boltz.BaseExtEntity
	etype string
	F     map[string]*string
	S     map[string][]string
	L     map[string][]string // linked ids per local link field (sStore.LinkIds); nil / missing key = the strategy leaves the links alone
}

func (e *gEnt) GetEntityType() string { return e.etype }

type gStrategy struct {
	def    *sStore
	root   string
	parent *gStore
}

func (st *gStrategy) NewEntity() *gEnt {
	return &gEnt{etype: st.root, F: map[string]*string{}, S: map[string][]string{}}
}

func (st *gStrategy) FillEntity(e *gEnt, bucket *boltz.TypedBucket) {
	if st.parent != nil {
		_, err := st.parent.LoadEntity(bucket.Tx(), e.Id, e)
		bucket.SetError(err)
	} else {
		e.LoadBaseValues(bucket)
		for _, s := range st.def.Sets {
			e.S[s] = bucket.GetStringList(s)
		}
	}
	for _, f := range st.def.Fields {
		if f.Typ != "" {
			e.F[f.Name] = c03tFieldGet(bucket, f)
			continue
		}
		if len(f.Pfx) > 0 {
			e.F[f.Name] = c06pfxFieldGet(bucket, f)
			continue
		}
		e.F[f.Name] = bucket.GetString(f.Name)
	}
}

func (st *gStrategy) PersistEntity(e *gEnt, ctx *boltz.PersistContext) {
	if st.parent != nil {
		st.parent.GetEntityStrategy().PersistEntity(e, ctx.GetParentContext())
	} else {
		e.SetBaseValues(ctx)
	}
	c04ApplyOverrides(st.def, ctx) // Api attributes; no-op for stores without them
	for _, f := range st.def.Fields {
		v := e.F[f.Name]
		if len(f.Pfx) > 0 {
			c06pfxFieldSet(ctx, f, v)
			continue
		}
		if f.Typ != "" {
			c03tFieldSet(ctx, f, v)
			continue
		}
		if f.Via != "" && !f.Ptr {
			// the PersistContext-level helpers (they store the same typed string value)
			sv := ""
			if v != nil {
				sv = *v
			}
			if f.Via == "req" {
				ctx.SetRequiredString(f.Name, sv)
			} else {
				ctx.GetAndSetString(f.Name, sv)
			}
			continue
		}
		if f.Req {
			if v == nil {
				ctx.SetRequiredString(f.Name, "")
			} else {
				ctx.SetRequiredString(f.Name, *v)
			}
		} else if f.Api != "" || f.Always {
			c04PersistAttr(ctx, f, v)
		} else if f.Ptr {
			ctx.SetStringP(f.Name, v)
		} else if v == nil {
			ctx.SetString(f.Name, "")
		} else {
			ctx.SetString(f.Name, *v)
		}
	}
	if st.parent == nil {
		for _, s := range st.def.Sets {
			if st.def.SetsVia == "gas" {
				ctx.GetAndSetStringList(s, e.S[s])
			} else {
				ctx.SetStringList(s, e.S[s])
			}
		}
	}
	for _, lf := range st.def.LinkIds {
		if ids, ok := e.L[lf]; ok {
			ctx.SetLinkedIds(lf, append([]string{}, ids...)) // SetLinks sorts its argument in place
		}
	}
	if gPersistWitness != nil {
		gPersistWitness(st.def, ctx)
	}
}

// gPersistWitness, when set, is called at the end of PersistEntity of every level (root store, child store) with the
// persist context that level wrote to (a property harness observes there whether the level latched an error)
var gPersistWitness func(def *sStore, ctx *boltz.PersistContext)

type gStore struct {
	*boltz.BaseStore[*gEnt]
	def     *sStore
	symbols map[string]boltz.EntitySymbol
	sets    map[string]boltz.EntitySetSymbol
	links   map[string]boltz.LinkCollection
	rc      map[string]boltz.RefCountedLinkCollection // rclink declarations (local field -> collection); nil when the wiring has none
	uidx    map[string]boltz.ReadIndex    // field key -> read side of the unique index declared on this store
	sidx    map[string]boltz.SetReadIndex // set field -> read side of the set index declared on this store
}

// ---- a database with stores wired from a schema ----------------------------------------------

type harnessDb struct {
	w      *wiring
	db     *boltz.DbImpl
	path   string
	stores map[string]*gStore

	mu      sync.Mutex
	symToKey map[string]string // symbol name -> storage key, for symbols declared with a different key
	vetoes  map[string]bool // "store/C|U|D/id"
	events  []string
	raised  int // vetoes actually raised by the harness constraint in the current transaction
	sharedCtx boltz.MutateContext // the context reused by every transaction that carries the pseudo veto "@ctx"
	opObs   string    // what the operation that has just been executed observed besides its error (AL1 / RL1 / LQ: the returned bools); runTx prints it as LB:<op index>:<obs>
	factsTx *bbolt.Tx // when set, facts() projects the content seen by THIS (possibly uncommitted) transaction (C09 in-transaction checks)
}

func changeLetter(t boltz.EntityEventType) string {
	switch {
	case t.IsCreate():
		return "C"
	case t.IsUpdate():
		return "U"
	default:
		return "D"
	}
}

type harnessConstraint struct {
	h     *harnessDb
	store string
}

func (c *harnessConstraint) ProcessPreCommit(state boltz.UntypedEntityChangeState) error {
	key := c.store + "/" + changeLetter(state.GetChangeType()) + "/" + state.GetEntityId()
	c.h.mu.Lock()
	v := c.h.vetoes[key]
	if v {
		c.h.raised++
	}
	c.h.mu.Unlock()
	if v {
		return errors.Errorf("vetoed by harness constraint: %s", key)
	}
	return nil
}

func (c *harnessConstraint) ProcessPostCommit(state boltz.UntypedEntityChangeState) {
	c.h.mu.Lock()
	c.h.events = append(c.h.events, fmt.Sprintf("EV:%s:%s:%s:%s", c.store, changeLetter(state.GetChangeType()), hxs(state.GetEntityId()), b01(state.IsParentEvent())))
	c.h.mu.Unlock()
}

func openHarnessDb(w *wiring, dir string) (*harnessDb, error) {
	w.derive()
	path := filepath.Join(dir, fmt.Sprintf("h-%d.db", os.Getpid()))
	if !harnessKeepFile { // store_c16w2.go: restart on the existing content
		_ = os.Remove(path)
	}
	db, err := boltz.Open(path, "root")
	if err != nil {
		return nil, err
	}
	h := &harnessDb{w: w, db: db, path: path, stores: map[string]*gStore{}, vetoes: map[string]bool{}, symToKey: map[string]string{}}
	lastKeyToSym = map[string]string{}

	// stores: roots first, then children
	for pass := 0; pass < 2; pass++ {
		for _, def := range w.Stores {
			if (pass == 0) != (def.Parent == "") {
				continue
			}
			def := def
			var parent *gStore
			root := def.Name
			if def.Parent != "" {
				parent = h.stores[def.Parent]
				root = def.Parent
			}
			sd := boltz.StoreDefinition[*gEnt]{
				EntityStrategy: &gStrategy{def: def, root: root, parent: parent},
				EntityNotFoundF: func(id string) error {
					return boltz.NewNotFoundError(root, "id", id)
				},
			}
			if parent == nil {
				sd.EntityType = def.Name
				sd.BasePath = w.basePath()
			} else {
				sd.Parent = parent
				sd.BasePath = []string{def.Name}
				sd.ParentMapper = func(e boltz.Entity) boltz.Entity { return e }
			}
			gs := &gStore{def: def, symbols: map[string]boltz.EntitySymbol{}, sets: map[string]boltz.EntitySetSymbol{}, links: map[string]boltz.LinkCollection{},
				uidx: map[string]boltz.ReadIndex{}, sidx: map[string]boltz.SetReadIndex{}}
			gs.BaseStore = boltz.NewBaseStore(sd)
			if def.Ext {
				gs.BaseStore.Extended()
			}
			gs.InitImpl(gs)
			h.stores[def.Name] = gs
			if parent != nil {
				child := gs
				parent.RegisterChildStoreStrategy(&boltz.ChildStoreUpdateHandler[*gEnt, *gEnt]{
					Store: child,
					Mapper: func(ctx boltz.MutateContext, e *gEnt) (*gEnt, bool) {
						if child.IsEntityPresent(ctx.Tx(), e.Id) {
							return e, true
						}
						return nil, false
					},
				})
			}
		}
	}
	// symbols (targets of fk symbols must exist, so stores were created first)
	fkTarget := map[string]string{} // store.field -> target store
	backrefs := map[string]string{} // store.setfield -> referrer store
	for _, d := range w.Script {
		switch d.Kind {
		case "fkindex", "fkindexcascade", "fkcons":
			fkTarget[d.Store+"."+d.Field] = d.Target
			if d.Back != "" {
				backrefs[d.Target+"."+d.Back] = d.Store
			}
		case "link", "rclink":
			backrefs[d.Store+"."+d.Field] = d.Target
			backrefs[d.Target+"."+d.Back] = d.Store
		}
	}
	for pass := 0; pass < 2; pass++ {
		for _, def := range w.Stores {
			if (pass == 0) != (def.Parent == "") {
				continue
			}
			gs := h.stores[def.Name]
			if def.Parent == "" {
				gs.AddExtEntitySymbols()
			} else {
				h.stores[def.Parent].GrantSymbols(gs)
			}
			for _, f := range def.Fields {
				if t, ok := fkTarget[def.Name+"."+f.Name]; ok {
					gs.symbols[f.Name] = gs.AddFkSymbolWithKey(f.symName(), f.Name, h.stores[t], f.Pfx...)
				} else {
					gs.symbols[f.Name] = gs.AddSymbolWithKey(f.symName(), c03tNodeType(f), f.Name, f.Pfx...)
				}
				if f.Sym != "" {
					h.symToKey[f.Sym] = f.Name
					rootName := def.Name
					if def.Parent != "" {
						rootName = def.Parent
					}
					lastKeyToSym[rootName+"."+f.Name] = f.Sym
				}
			}
			for _, s := range def.Sets {
				gs.sets[s] = gs.AddSetSymbol(s, ast.NodeTypeString)
			}
		}
	}
	for key, ref := range backrefs {
		parts := strings.SplitN(key, ".", 2)
		gs := h.stores[parts[0]]
		if _, ok := gs.sets[parts[1]]; !ok {
			gs.sets[parts[1]] = gs.AddFkSetSymbol(parts[1], h.stores[ref])
		}
	}
	// wiring script, in order
	for _, d := range w.Script {
		gs := h.stores[d.Store]
		switch d.Kind {
		case "unique":
			if d.Nullable {
				gs.uidx[d.Field] = gs.AddNullableUniqueIndex(gs.symbols[d.Field])
			} else {
				gs.uidx[d.Field] = gs.AddUniqueIndex(gs.symbols[d.Field])
			}
		case "setidx":
			sym := gs.sets[d.Field]
			if sym == nil && gs.def.Parent != "" {
				// a set index declared on a child store over a string list of its parent (the model keeps the string
				// lists of an entity at the root level; PersistEntity of the child writes them through the parent)
				sym = h.stores[gs.def.Parent].sets[d.Field]
			}
			gs.sidx[d.Field] = gs.AddSetIndex(sym)
		case "fkindex":
			if d.Nullable {
				gs.AddNullableFkIndex(gs.symbols[d.Field], h.stores[d.Target].sets[d.Back])
			} else {
				gs.AddFkIndex(gs.symbols[d.Field], h.stores[d.Target].sets[d.Back])
			}
		case "fkindexcascade":
			gs.AddFkIndexCascadeDelete(gs.symbols[d.Field], h.stores[d.Target].sets[d.Back])
		case "fkcons":
			casc := boltz.CascadeType(boltz.CascadeNone)
			if d.Casc == "D" {
				casc = boltz.CascadeDelete
			}
			gs.AddFkConstraint(gs.symbols[d.Field], d.Nullable, casc)
		case "system":
			gs.AddConstraint(boltz.NewSystemEntityEnforcementConstraint(gs))
		case "link":
			os := h.stores[d.Target]
			gs.links[d.Field] = gs.AddLinkCollection(gs.sets[d.Field], os.sets[d.Back])
			os.links[d.Back] = os.AddLinkCollection(os.sets[d.Back], gs.sets[d.Field])
		case "rclink":
			os := h.stores[d.Target]
			if gs.rc == nil {
				gs.rc = map[string]boltz.RefCountedLinkCollection{}
			}
			if os.rc == nil {
				os.rc = map[string]boltz.RefCountedLinkCollection{}
			}
			gs.rc[d.Field] = gs.AddRefCountedLinkCollection(gs.sets[d.Field], os.sets[d.Back])
			os.rc[d.Back] = os.AddRefCountedLinkCollection(os.sets[d.Back], gs.sets[d.Field])
		}
	}
	for _, def := range w.Stores {
		h.stores[def.Name].AddUntypedEntityConstraint(&harnessConstraint{h: h, store: def.Name})
	}
	err = db.Update(nil, func(ctx boltz.MutateContext) error {
		holder := &errHolder{}
		for _, def := range w.Stores {
			h.stores[def.Name].InitializeIndexes(ctx.Tx(), holder)
		}
		return holder.err
	})
	if err != nil {
		return nil, err
	}
	return h, nil
}

// lastKeyToSym maps "<root store>.<field key>" to the symbol name of the most recently opened harness
// database, for code that addresses index buckets below the API (index paths use the symbol name)
var lastKeyToSym = map[string]string{}

type errHolder struct{ err error }

func (h *errHolder) HasError() bool  { return h.err != nil }
func (h *errHolder) GetError() error { return h.err }
func (h *errHolder) SetError(err error) bool {
	if h.err == nil && err != nil {
		h.err = err
	}
	return h.err != nil
}

func (h *harnessDb) close() {
	_ = h.db.Close()
	_ = os.Remove(h.path)
}

// ---- histories -----------------------------------------------------------------------------

type hOp struct {
	Kind    string // C UP D AL RL FAIL ; AL1 RL1 LQ = the single-link API of a link collection (store_c06_links.go)
	Store   string
	Id      string
	Sys     bool
	F       map[string]*string // value per field (missing = nil pointer / empty)
	S       map[string][]string
	Checker []string // nil = all fields
	HasChk  bool
	LinkF   string
	Targets []string
	// DW (DeleteWhere): DwField == "" -> filter `true`, else `<symbol of DwField> = "<DwVal>"`
	DwField string
	DwVal   string
	// Guard: a create / update whose entity is subject to the rejections of PersistEntity (op prefix G, see design/C07.md):
	// required fields of the wiring, over-long string-list elements, BadTags = the entity carries a tag value the storage refuses
	Guard   bool
	BadTags bool
}

type hVeto struct{ Store, Change, Id string }

type hTx struct {
	Sys          bool
	PreCommitErr bool
	Vetoes       []hVeto
	Ops          []hOp
}

// allFields returns the declared fields of the store and, for a child store, of its parent
func (w *wiring) allFields(store string) ([]sField, []string) {
	s := w.store(store)
	var fields []sField
	var sets []string
	if s.Parent != "" {
		p := w.store(s.Parent)
		fields = append(fields, p.Fields...)
		sets = append(sets, p.Sets...)
	} else {
		sets = append(sets, s.Sets...)
	}
	if s.Parent != "" {
		fields = append(fields, s.Fields...)
	} else {
		fields = s.Fields
	}
	return fields, sets
}

func (w *wiring) opText(op *hOp) string {
	var sb strings.Builder
	fvsv := func() {
		fields, sets := w.allFields(op.Store)
		// for an update entered through a root store the entity may be routed to a child store:
		// give values for every field any store of the family declares
		s := w.store(op.Store)
		if s.Parent == "" {
			for _, c := range w.Stores {
				if c.Parent == s.Name {
					fields = append(fields, c.Fields...)
				}
			}
		}
		fmt.Fprintf(&sb, " %d", len(fields))
		for _, f := range fields {
			v := op.F[f.Name]
			if v == nil {
				fmt.Fprintf(&sb, " %s N", f.Name)
			} else {
				fmt.Fprintf(&sb, " %s %s", f.Name, hxs(*v))
			}
		}
		fmt.Fprintf(&sb, " %d", len(sets))
		for _, sn := range sets {
			l := op.S[sn]
			fmt.Fprintf(&sb, " %s %d", sn, len(l))
			for _, m := range l {
				fmt.Fprintf(&sb, " %s", hxs(m))
			}
		}
	}
	if op.Guard && (op.Kind == "C" || op.Kind == "UP") {
		req := w.requiredFields()
		fmt.Fprintf(&sb, "G %s %d", b01(op.BadTags), len(req))
		for _, r := range req {
			fmt.Fprintf(&sb, " %s %s", r[0], r[1])
		}
		sb.WriteString(" ")
	}
	switch op.Kind {
	case "DW":
		if op.DwField == "" {
			fmt.Fprintf(&sb, "DW %s T", op.Store)
		} else {
			fmt.Fprintf(&sb, "DW %s EQ %s %s", op.Store, op.DwField, hxs(op.DwVal))
		}
	case "C":
		fmt.Fprintf(&sb, "C %s %s %s", op.Store, hxs(op.Id), b01(op.Sys))
		fvsv()
	case "UP":
		fmt.Fprintf(&sb, "UP %s %s", op.Store, hxs(op.Id))
		fvsv()
		if !op.HasChk {
			sb.WriteString(" -")
		} else {
			chk := c04ModelChecker(w, op.Store, op.Checker) // + the fields written whatever the checker says
			fmt.Fprintf(&sb, " %d", len(chk))
			for _, f := range chk {
				fmt.Fprintf(&sb, " %s", f)
			}
		}
	case "D":
		fmt.Fprintf(&sb, "D %s %s", op.Store, hxs(op.Id))
	case "AL", "RL", "AL1", "RL1", "LQ":
		fmt.Fprintf(&sb, "%s %s %s %s %d", op.Kind, op.Store, hxs(op.Id), op.LinkF, len(op.Targets))
		for _, t := range op.Targets {
			fmt.Fprintf(&sb, " %s", hxs(t))
		}
	case "FAIL":
		sb.WriteString("FAIL")
	case "CT":
		// for the model this is a failing step of the body; the implementation must reject the tags
		fmt.Fprintf(&sb, "FAILT %s %s", op.Store, hxs(op.Id))
	}
	return sb.String()
}

// requiredFields lists (store, field) of every field of the wiring written with SetRequiredString
func (w *wiring) requiredFields() [][2]string {
	var out [][2]string
	for _, s := range w.Stores {
		for _, f := range s.Fields {
			if f.Req {
				out = append(out, [2]string{s.Name, f.Name})
			}
		}
	}
	return out
}

// dwFilter is the filter text of a DW operation (field symbol = "value", or true)
func (w *wiring) dwFilter(op *hOp) string {
	if op.DwField == "" {
		return "true"
	}
	sym := op.DwField
	s := w.store(op.Store)
	for _, d := range []*sStore{s, w.store(s.Parent)} {
		if d == nil {
			continue
		}
		for _, f := range d.Fields {
			if f.Name == op.DwField {
				sym = f.symName()
			}
		}
	}
	v := strings.ReplaceAll(op.DwVal, `\`, `\\`)
	v = strings.ReplaceAll(v, `"`, `\"`)
	return sym + ` = "` + v + `"`
}

func (w *wiring) txText(t *hTx) string {
	var sb strings.Builder
	fmt.Fprintf(&sb, "TX %s %s %d", b01(t.Sys), b01(t.PreCommitErr), len(t.Vetoes))
	for _, v := range t.Vetoes {
		fmt.Fprintf(&sb, " %s %s %s", v.Store, v.Change, hxs(v.Id))
	}
	fmt.Fprintf(&sb, " %d", len(t.Ops))
	for i := range t.Ops {
		sb.WriteString(" ")
		sb.WriteString(w.opText(&t.Ops[i]))
	}
	return sb.String()
}

func classify(err error) string {
	switch {
	case err == nil:
		return "ok"
	case boltz.IsUniqueIndexDuplicateError(err):
		return "dup"
	case boltz.IsErrNotFoundErr(err):
		return "notfound"
	case boltz.IsReferenceExistsError(err):
		return "refexists"
	default:
		return "err"
	}
}

func (h *harnessDb) entityFor(op *hOp) *gEnt {
	root := op.Store
	if p := h.w.store(op.Store).Parent; p != "" {
		root = p
	}
	e := &gEnt{etype: root, F: map[string]*string{}, S: map[string][]string{}}
	e.Id = op.Id
	e.IsSystem = op.Sys
	for k, v := range op.F {
		e.F[k] = v
	}
	for k, v := range op.S {
		e.S[k] = append([]string{}, v...)
	}
	if op.BadTags {
		e.Tags = map[string]interface{}{"nested": map[string]interface{}{"x": "y"}, "ok": "v"}
	}
	return e
}

func (h *harnessDb) execOp(ctx boltz.MutateContext, op *hOp) error {
	gs := h.stores[op.Store]
	switch op.Kind {
	case "C":
		return gs.Create(ctx, h.entityFor(op))
	case "UP":
		var chk boltz.FieldChecker
		if op.HasChk {
			m := boltz.MapFieldChecker{}
			for _, f := range c04ImplChecker(h.w, op.Store, op.Checker) { // storage keys -> the names the checker knows
				m[f] = struct{}{}
			}
			chk = m
		}
		return gs.Update(ctx, h.entityFor(op), chk)
	case "D":
		return gs.DeleteById(ctx, op.Id)
	case "DW":
		return gs.DeleteWhere(ctx, h.w.dwFilter(op))
	case "AL":
		return gs.links[op.LinkF].AddLinks(ctx.Tx(), op.Id, op.Targets...)
	case "RL":
		return gs.links[op.LinkF].RemoveLinks(ctx.Tx(), op.Id, op.Targets...)
	case "AL1", "RL1", "LQ":
		return c06ExecLinkOp(h, ctx, op) // one AddLink / RemoveLink call per target, membership probes (store_c06_links.go)
	case "FAIL":
		return errors.New("caller error")
	case "CT":
		// a value the storage layer rejects (nested map in tags) among nil-valued and ordinary tags
		e := h.entityFor(op)
		e.Tags = map[string]interface{}{"nested": map[string]interface{}{"x": "y"}, "ok": "v", "n": int64(3)}
		for i := 0; i < 12; i++ {
			e.Tags[fmt.Sprintf("nil%d", i)] = nil
		}
		return gs.Create(ctx, e)
	}
	return errors.New("unknown op")
}

// runTx executes one transaction through Db.Update and returns the observation segment
func (h *harnessDb) runTx(t *hTx) string {
	h.mu.Lock()
	h.vetoes = map[string]bool{}
	for _, v := range t.Vetoes {
		h.vetoes[v.Store+"/"+v.Change+"/"+v.Id] = true
	}
	h.events = nil
	h.raised = 0
	h.mu.Unlock()

	var results []string
	var opObs []string
	ctx := boltz.NewMutateContext(context.Background())
	// a pseudo veto with store "@ctx" makes the transaction run with the database-wide shared mutate context
	// instead of a fresh one (callers that keep one context and retry / continue with it): the contract is the
	// same, so the model ignores it
	for _, v := range t.Vetoes {
		if v.Store == "@ctx" {
			if h.sharedCtx == nil {
				h.sharedCtx = boltz.NewMutateContext(context.Background())
			}
			ctx = h.sharedCtx
		}
	}
	if t.Sys {
		ctx = ctx.GetSystemContext()
	}
	// a pseudo veto with store "@batch" selects Db.Batch instead of Db.Update (same contract; the
	// model ignores it because no store has that name)
	run := h.db.Update
	for _, v := range t.Vetoes {
		if v.Store == "@batch" {
			run = h.db.Batch
		}
	}
	if t.PreCommitErr {
		// registered on the context before it is handed to Update/Batch (bbolt's Batch re-runs a
		// failing function on its own: the action must still be there for the re-run)
		ctx.AddPreCommitAction(func(boltz.MutateContext) error { return errors.New("pre-commit action failed") })
	}
	err := run(ctx, func(ctx boltz.MutateContext) error {
		results = nil // bbolt's Batch re-runs a failing function on its own
		opObs = nil
		for i := range t.Ops {
			h.opObs = ""
			e := h.execOp(ctx, &t.Ops[i])
			if h.opObs != "" {
				opObs = append(opObs, fmt.Sprintf("LB:%d:%s", i, h.opObs))
			}
			results = append(results, classify(e))
			if e != nil {
				return e
			}
		}
		return nil
	})
	var sb strings.Builder
	sb.WriteString("TX R")
	for _, r := range results {
		sb.WriteString(" " + r)
	}
	if err == nil {
		sb.WriteString(" COMMIT")
	} else {
		sb.WriteString(" ROLLBACK")
	}
	h.mu.Lock()
	evs := append([]string{}, h.events...)
	if h.raised > 0 {
		sb.WriteString(" VETOED")
	}
	h.mu.Unlock()
	sort.Strings(evs)
	for _, e := range evs {
		sb.WriteString(" " + e)
	}
	for _, o := range opObs {
		sb.WriteString(" " + o)
	}
	sb.WriteString(h.reads())
	if storeExtraReads != nil {
		sb.WriteString(storeExtraReads(h))
	}
	sb.WriteString(" ST")
	for _, f := range h.facts() {
		sb.WriteString(" " + f)
	}
	sb.WriteString(" | ")
	return sb.String()
}

// storeExtraReads, when set by a sub-command, appends further read-API observations (space separated tokens that
// start neither with "EV:" nor with "VETOED") to every transaction's observation segment
var storeExtraReads func(h *harnessDb) string

func fieldValStr(v []byte) string {
	if len(v) == 0 {
		return "absent"
	}
	switch boltz.FieldType(v[0]) {
	case boltz.TypeNil:
		return "nil"
	case boltz.TypeString:
		return "s" + hx(v[1:])
	case boltz.TypeBool:
		if len(v) > 1 && v[1] != 0 {
			return "b1"
		}
		return "b0"
	default:
		return "raw" + hx(v)
	}
}

var ignoredFields = map[string]bool{boltz.FieldCreatedAt: true, boltz.FieldUpdatedAt: true, boltz.FieldTags: true}

// facts projects the raw bolt file to canonical facts (the same ones store_driver.ml prints)
func (h *harnessDb) facts() []string {
	var out []string
	childNames := map[string]bool{}
	for _, s := range h.w.Stores {
		if s.Parent != "" {
			childNames[s.Name] = true
		}
	}
	// string sets that live INSIDE a child-store bucket: the local set of a link collection declared on a child store and
	// the back-reference set of an fk index whose target is a child store.  The model keeps every string set of an entity
	// at the root level (e_s), so they are projected to the same S:<root>:<id>:<set>:<member> facts; any other bucket
	// inside a child-store bucket stays JUNK.
	childSets := map[string]map[string]bool{}
	addChildSet := func(store, set string) {
		if childNames[store] {
			if childSets[store] == nil {
				childSets[store] = map[string]bool{}
			}
			childSets[store][set] = true
		}
	}
	for _, d := range h.w.Script {
		switch d.Kind {
		case "link", "rclink":
			addChildSet(d.Store, d.Field)
			addChildSet(d.Target, d.Back)
		case "fkindex", "fkindexcascade":
			addChildSet(d.Target, d.Back)
		}
	}
	typed := c03tTypedKeys(h.w) // nil unless the wiring declares typed fields
	view := h.db.View
	if h.factsTx != nil {
		view = func(f func(*bbolt.Tx) error) error { return f(h.factsTx) }
	}
	_ = view(func(tx *bbolt.Tx) error {
		top := tx.Bucket([]byte("stores"))
		if top == nil {
			return nil
		}
		// deeper base paths: every intermediate level holds exactly the next level's bucket
		for _, lvl := range h.w.basePath()[1:] {
			cur := top
			_ = cur.ForEach(func(k, v []byte) error {
				if string(k) != lvl || v != nil {
					out = append(out, "JUNK:level:"+hx(k))
				}
				return nil
			})
			top = cur.Bucket([]byte(lvl))
			if top == nil {
				return nil
			}
		}
		_ = top.ForEach(func(k, v []byte) error {
			if v != nil {
				out = append(out, "JUNK:top:"+hx(k))
				return nil
			}
			name := string(k)
			b := top.Bucket(k)
			if name == boltz.IndexesBucket {
				_ = b.ForEach(func(tk, tv []byte) error { // entity type
					tb := b.Bucket(tk)
					if tb == nil {
						out = append(out, "JUNK:idx:"+hx(tk))
						return nil
					}
					_ = tb.ForEach(func(sk, sv []byte) error { // symbol
						sb := tb.Bucket(sk)
						if key, ok := h.symToKey[string(sk)]; ok { // index paths use the symbol name; facts use the storage key
							sk = []byte(key)
						}
						if sb == nil {
							out = append(out, "JUNK:idxsym:"+hx(sk))
							return nil
						}
						_ = sb.ForEach(func(vk, vv []byte) error {
							if vv != nil {
								out = append(out, fmt.Sprintf("U:%s:%s:%s:%s", tk, sk, hx(vk), hx(vv)))
								return nil
							}
							kb := sb.Bucket(vk)
							if kb == nil { // a key with a nil value that is not a bucket
								out = append(out, fmt.Sprintf("U:%s:%s:%s:%s", tk, sk, hx(vk), "-"))
								return nil
							}
							out = append(out, fmt.Sprintf("XK:%s:%s:%s", tk, sk, hx(vk)))
							_ = kb.ForEach(func(ik, iv []byte) error {
								if len(ik) > 0 && boltz.FieldType(ik[0]) == boltz.TypeString {
									out = append(out, fmt.Sprintf("X:%s:%s:%s:%s", tk, sk, hx(vk), hx(ik[1:])))
								} else {
									out = append(out, fmt.Sprintf("JUNK:X:%s:%s:%s:%s", tk, sk, hx(vk), hx(ik)))
								}
								return nil
							})
							return nil
						})
						return nil
					})
					return nil
				})
				return nil
			}
			// a root store: ids
			_ = b.ForEach(func(ik, iv []byte) error {
				eb := b.Bucket(ik)
				if eb == nil {
					out = append(out, fmt.Sprintf("JUNK:E:%s:%s", name, hx(ik)))
					return nil
				}
				ih := hx(ik)
				out = append(out, fmt.Sprintf("E:%s:%s", name, ih))
				_ = eb.ForEach(func(fk, fv []byte) error {
					fname := string(fk)
					if fv != nil {
						if !ignoredFields[fname] {
							out = append(out, fmt.Sprintf("F:%s:%s:%s:%s", name, ih, fname, c03tFieldValStr(typed, name+"."+fname, fv)))
						}
						return nil
					}
					sub := eb.Bucket(fk)
					if sub == nil {
						// a plain key written with a nil value earlier in THIS transaction (bbolt hands the stored nil back until
						// the commit, an empty non-nil slice afterwards): the same fact as after the commit
						if h.factsTx != nil && !ignoredFields[fname] {
							out = append(out, fmt.Sprintf("F:%s:%s:%s:%s", name, ih, fname, fieldValStr(fv)))
						}
						return nil
					}
					if ignoredFields[fname] {
						return nil
					}
					if c06pfxIsBucket(h.w, name, []string{fname}) { // a nested bucket that holds fields declared with a path prefix
						c06pfxFacts(h, &out, "F:"+name+":"+ih, name, []string{fname}, sub)
						return nil
					}
					if childNames[fname] {
						out = append(out, fmt.Sprintf("C:%s:%s:%s", name, ih, fname))
						_ = sub.ForEach(func(ck, cv []byte) error {
							if cs := sub.Bucket(ck); cs != nil && c06pfxIsBucket(h.w, fname, []string{string(ck)}) {
								c06pfxFacts(h, &out, "CF:"+name+":"+ih+":"+fname, fname, []string{string(ck)}, cs)
								return nil
							}
							if cv != nil || (h.factsTx != nil && sub.Bucket(ck) == nil) {
								out = append(out, fmt.Sprintf("CF:%s:%s:%s:%s:%s", name, ih, fname, ck, c03tFieldValStr(typed, fname+"."+string(ck), cv)))
							} else if cs := sub.Bucket(ck); cs != nil && childSets[fname][string(ck)] {
								_ = cs.ForEach(func(mk, mv []byte) error {
									if len(mk) > 0 && boltz.FieldType(mk[0]) == boltz.TypeString {
										out = append(out, fmt.Sprintf("S:%s:%s:%s:%s", name, ih, ck, hx(mk[1:])))
									} else {
										out = append(out, fmt.Sprintf("JUNK:S:%s:%s:%s.%s:%s", name, ih, fname, ck, hx(mk)))
									}
									return nil
								})
							} else {
								out = append(out, fmt.Sprintf("JUNK:CF:%s:%s:%s:%s", name, ih, fname, hx(ck)))
							}
							return nil
						})
						return nil
					}
					_ = sub.ForEach(func(mk, mv []byte) error {
						if len(mk) > 0 && boltz.FieldType(mk[0]) == boltz.TypeString {
							out = append(out, fmt.Sprintf("S:%s:%s:%s:%s", name, ih, fname, hx(mk[1:])))
						} else {
							out = append(out, fmt.Sprintf("JUNK:S:%s:%s:%s:%s", name, ih, fname, hx(mk)))
						}
						return nil
					})
					return nil
				})
				return nil
			})
			return nil
		})
		return nil
	})
	sort.Strings(out)
	// dedup
	var res []string
	for i, f := range out {
		if i == 0 || out[i-1] != f {
			res = append(res, f)
		}
	}
	return res
}

// reads observes every store through its own API: QueryIds("true"), IterateValidIds, FindById
func (h *harnessDb) reads() string {
	var sb strings.Builder
	_ = h.db.View(func(tx *bbolt.Tx) error {
		for _, def := range h.w.Stores {
			gs := h.stores[def.Name]
			ids, _, err := gs.QueryIds(tx, "true limit none")
			q := make([]string, 0, len(ids))
			for _, id := range ids {
				q = append(q, hxs(id))
			}
			if err != nil {
				q = []string{"ERR"}
			}
			fmt.Fprintf(&sb, " Q:%s:%s", def.Name, strings.Join(q, ","))
			var v []string
			for c := gs.IterateValidIds(tx, ast.BoolNodeTrue); c.IsValid(); c.Next() {
				v = append(v, hx(c.Current()))
			}
			fmt.Fprintf(&sb, " V:%s:%s", def.Name, strings.Join(v, ","))
			var l []string
			root := def.Name
			if def.Parent != "" {
				root = def.Parent
			}
			var all []string
			for c := h.stores[root].IterateIds(tx, ast.BoolNodeTrue); c.IsValid(); c.Next() {
				all = append(all, string(c.Current()))
			}
			for _, id := range all {
				if e, found, err := gs.FindById(tx, id); err == nil && found && e != nil {
					l = append(l, hxs(id))
				}
			}
			fmt.Fprintf(&sb, " L:%s:%s", def.Name, strings.Join(l, ","))
		}
		return nil
	})
	return sb.String()
}
