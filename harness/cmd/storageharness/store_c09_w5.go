package main

// C09 - fifth strengthening (design/C09.md, section 11): keys and ids in PREFIX RELATION.
//
// Every bucket the checker reads is a sorted byte-string map, and every "is it there / is it the same" question it asks
// (index key = value of the entity, id in the key bucket, id in the back-reference set, id in the link set, entity
// present, fk field = target) is an EQUALITY of byte strings.  Code that answers such a question by positioning a cursor
// (Seek) answers it correctly for all strings that are not in prefix relation with a stored neighbour, and wrongly for
// those that are: Seek(k) lands on k+suffix when k is absent, HasPrefix(found, k) then says "present".  The universes of
// the first generators ("v1".."v7", ids "a".."f", extra keys "zz..", ghost id "ghost") contain no two strings in prefix
// relation, so an extra / stale / missing / wrong-target entry never had such a neighbour.
//
// Added here:
//   - value and id universes with prefix chains (c09ChainVals, c09ChainIds, c09ChainWideIds), used by half of the
//     histories of every C09 stream; values that equal ids and ids that are prefixes of each other included;
//   - corruption candidates whose key or id is a proper prefix or an extension of a legitimate neighbour, for every index
//     kind (c09NearCandidates): unique index, set index (key and id), back-reference sets, fk fields, link sets; extra and
//     wrong-target entries with a near key / id, and missing entries whose extension neighbour stays in the bucket.
//
// The model (Store/Integrity.v) compares byte strings for equality and its theorems quantify over all states; nothing
// changes there.

import (
	"sort"
	"strings"
)

// sorted bytewise (c09Populated cuts the id range into blocks in key order)
var c09ChainIds = []string{"a", "a1", "a10", "b", "b1", "c"}
var c09ChainWideIds = []string{"a", "a1", "a10", "a2", "b", "b1", "c", "c0", "c00", "d"}

// three-level chain v < v1 < v10, two values that are ids of the chain universe (and prefixes of further ids), the empty
// string, v2 < v20
var c09ChainVals = []string{"v", "v1", "v10", "", "a", "a1", "v2", "v20"}

// c09Universe draws the universes of one history: the plain ones of the profile or the prefix chains
func c09Universe(r *rng, prof *genProfile, ids []string) (*genProfile, []string) {
	if !r.chance(50) {
		return prof, ids
	}
	p := *prof
	p.vals = c09ChainVals
	if len(ids) > len(c09ChainIds) {
		return &p, c09ChainWideIds
	}
	return &p, c09ChainIds
}

// c09Near: the byte strings next to s in prefix order: its non-empty proper prefixes (longest first), its two smallest
// kinds of extension (s+"0": an ordinary longer key; s+"\x00": the immediate successor of s in a bucket)
func c09Near(s string) []string {
	if s == "" {
		return nil
	}
	var out []string
	for k := len(s) - 1; k >= 1; k-- {
		out = append(out, s[:k])
	}
	return append(out, s+"0", s+"\x00")
}

// c09PickNear: one element of c09Near(s) that is acceptable, drawn at random
func c09PickNear(r *rng, s string, ok func(string) bool) (string, bool) {
	var l []string
	for _, n := range c09Near(s) {
		if ok(n) {
			l = append(l, n)
		}
	}
	if len(l) == 0 {
		return "", false
	}
	return l[r.intn(len(l))], true
}

// c09HasExtension: some other element of l has x as a proper prefix
func c09HasExtension(l []string, x string) bool {
	for _, y := range l {
		if y != x && strings.HasPrefix(y, x) {
			return true
		}
	}
	return false
}

func c09In(l []string, x string) bool {
	for _, y := range l {
		if y == x {
			return true
		}
	}
	return false
}

// c09NearCandidates: corruptions in which the key or id written / removed below the API is in prefix relation with a
// legitimate neighbour of the same bucket (or with an id of the store).  Same ops as candidates(); classes "*-near-key"
// / "*-near-id" (an entry is added or re-pointed) and "*-near-stays" (an entry is removed, an extension of it stays).
func c09NearCandidates(w *wiring, v *factView, r *rng, add func(corruption)) {
	alive := func(root, id string) bool { return c09In(v.ents[root], id) }
	for _, s := range w.Stores {
		root := w.rootOf(s.Name)
		for _, c := range s.Cons {
			switch c.Kind {
			case "U":
				entries := v.uidx[root+"/"+c.Field]
				have := map[string]bool{}
				var keys []string
				for _, e := range entries {
					have[e[0]] = true
					keys = append(keys, e[0])
				}
				for _, e := range entries {
					// extra entry K' -> E where E holds a value of which K' is a proper prefix / an extension
					if n, ok := c09PickNear(r, e[0], func(n string) bool { return !have[n] }); ok {
						add(corruption{Op: "UP", Class: "unique-extra-near-key", Root: root, Name: c.Field, Val: n, Tgt: e[1]})
					}
					// the entry of a value re-pointed to an id next to its holder (living or not)
					if n, ok := c09PickNear(r, e[1], func(n string) bool { return n != e[1] }); ok {
						add(corruption{Op: "UP", Class: "unique-wrong-target-near-id", Root: root, Name: c.Field, Val: e[0], Tgt: n})
					}
					if c09HasExtension(keys, e[0]) {
						add(corruption{Op: "UD", Class: "unique-missing-near-stays", Root: root, Name: c.Field, Val: e[0]})
					}
				}
			case "SI":
				keys := v.sidx[root+"/"+c.Field]
				var ks []string
				for k := range keys {
					ks = append(ks, k)
				}
				sort.Strings(ks)
				for _, k := range ks {
					for _, i := range keys[k] {
						holds := v.sets[root+"/"+i+"/"+c.Field]
						// stale entry K' -> E: E exists, does not hold K', holds a value in prefix relation with K'
						if n, ok := c09PickNear(r, k, func(n string) bool { return !c09In(holds, n) }); ok {
							add(corruption{Op: "SAI", Class: "set-extra-entry-near-key", Root: root, Name: c.Field, Val: n, Tgt: i})
						}
						// K -> E' next to the legitimate K -> E: E' does not exist, or exists and does not hold K
						if n, ok := c09PickNear(r, i, func(n string) bool { return !c09In(keys[k], n) }); ok {
							add(corruption{Op: "SAI", Class: "set-extra-entry-near-id", Root: root, Name: c.Field, Val: k, Tgt: n})
						}
						if c09HasExtension(keys[k], i) {
							add(corruption{Op: "SDI", Class: "set-missing-entry-near-stays", Root: root, Name: c.Field, Val: k, Tgt: i})
						}
					}
					if c09HasExtension(ks, k) {
						add(corruption{Op: "SDK", Class: "set-missing-key-near-stays", Root: root, Name: c.Field, Val: k})
					}
				}
			case "FI", "FC":
				troot := w.rootOf(c.Target)
				if c.Kind == "FI" {
					for _, ti := range v.ents[troot] {
						back := v.sets[troot+"/"+ti+"/"+c.Back]
						for _, x := range back {
							if n, ok := c09PickNear(r, x, func(n string) bool { return !c09In(back, n) }); ok {
								add(corruption{Op: "EA", Class: "fk-extra-backref-near-id", Root: troot, Id: ti, Name: c.Back, Val: n})
							}
							if c09HasExtension(back, x) {
								add(corruption{Op: "ED", Class: "fk-missing-backref-near-stays", Root: troot, Id: ti, Name: c.Back, Val: x})
							}
						}
					}
				}
				for _, i := range v.members(w, s) {
					val := v.fieldOf(w, s, i, c.Field)
					if !strings.HasPrefix(val, "s") || val == "s-" {
						continue
					}
					cur := unhxs(val[1:])
					// the fk field re-pointed to an id next to its target: another existing target (the old one keeps a
					// wrong back-reference whose key is in prefix relation with the set's owner), or nobody
					if n, ok := c09PickNear(r, cur, func(n string) bool { return alive(troot, n) }); ok {
						add(c09SetField(w, s, "fk-repoint-near-id", i, c.Field, n))
					}
					if n, ok := c09PickNear(r, cur, func(n string) bool { return !alive(troot, n) }); ok {
						add(c09SetField(w, s, "fk-dangling-ref-near-id", i, c.Field, n))
					}
				}
			}
		}
		for _, l := range s.Links {
			oroot := w.rootOf(l.Other)
			for _, i := range v.ents[root] {
				linked := v.sets[root+"/"+i+"/"+l.Local]
				for _, x := range linked {
					if n, ok := c09PickNear(r, x, func(n string) bool { return !c09In(linked, n) }); ok {
						class := "link-dangling-near-id"
						if alive(oroot, n) {
							class = "link-one-sided-near-id"
						}
						add(corruption{Op: "EA", Class: class, Root: root, Id: i, Name: l.Local, Val: n})
					}
					// the reverse entry x.<other> -> i removed while an extension of i stays in that set
					if c09HasExtension(v.sets[oroot+"/"+x+"/"+l.OtherField], i) {
						add(corruption{Op: "ED", Class: "link-one-sided-near-stays", Root: oroot, Id: x, Name: l.OtherField, Val: i})
					}
				}
			}
		}
	}
}
