package main

import (
	"fmt"
	"os"
	"path/filepath"
	"runtime"
	"strconv"
	"strings"
	"sync"
	"sync/atomic"
	"time"
	"unicode/utf8"

	"github.com/antlr4-go/antlr/v4"
	"github.com/openziti/storage/ast"
	"github.com/openziti/storage/zitiql"
)

// C10 - parsing and evaluation are total: no panics, invalid input is rejected (language / glue part).
//
// Case line:   Q <stream> <runes>            runes: the filter as code points, hex, '.'-separated ('-' = empty);
//
//	xHH = one raw byte that is not part of a well-formed UTF-8 sequence (the
//	Go string holds exactly that byte; the ANTLR input stream - []rune(string) -
//	and therefore the lexer and the lexer model see U+FFFD for it)
//
// Observation: Q <tokens> e<lexer errors> <verdicts> <pooled> <entries>
//
//	tokens    k:start:len,...  of the real lexer (zitiql.NewZitiQlLexer), positions in runes, '-' if none
//	verdicts  one per symbol-table typing of the identifier x (c10Typings; typing `store` of the bolt* streams: the
//	          bolt-backed stores of c10_store.go, where V carries @<api>@<dataset>), '/'-separated:
//	            E           ast.Parse returned an error
//	            P:<site>    ast.Parse panicked (first frame inside github.com/openziti/storage)
//	            ok          parsed and evaluated over every dataset without panic
//	            V:<site>    parsed; evaluation panicked
//	pooled    p1 if zitiql.Parse (pooled lexer/parser instances, after the history of this process) and a
//	          freshly constructed lexer+parser agree on "syntax errors reported or not", else p0
//	entries   accepted / rejected / panicked per public parsing entry point (c10_entry.go)
func init() { commands["c10"] = runC10 }

// ---- symbol tables -----------------------------------------------------------------------------

type c10Field struct {
	typ   ast.NodeType
	isSet bool
	elems []interface{} // set elements / single value in elems[0]; nil slice = null / empty set
	sub   *c10Symbols   // entity type of the set elements, for sub-queries
}

type c10Symbols struct {
	fields  map[string]*c10Field
	cursors map[string]*c10Cursor
}

type c10Cursor struct {
	elems []interface{}
	idx   int
}

func (c *c10Cursor) Next()         { c.idx++ }
func (c *c10Cursor) IsValid() bool { return c.idx < len(c.elems) }
func (c *c10Cursor) Current() []byte {
	if !c.IsValid() {
		return nil
	}
	return []byte(fmt.Sprint(c.elems[c.idx]))
}

func (s *c10Symbols) GetSymbolType(name string) (ast.NodeType, bool) {
	if f, ok := s.fields[name]; ok {
		return f.typ, true
	}
	return 0, false
}
func (s *c10Symbols) GetSetSymbolTypes(name string) ast.SymbolTypes {
	if f, ok := s.fields[name]; ok && f.sub != nil {
		return f.sub
	}
	return nil
}
func (s *c10Symbols) IsSet(name string) (bool, bool) {
	if f, ok := s.fields[name]; ok {
		return f.isSet, true
	}
	return false, false
}
func (s *c10Symbols) value(name string) interface{} {
	f, ok := s.fields[name]
	if !ok {
		return nil
	}
	if f.isSet {
		c, ok := s.cursors[name]
		if !ok || !c.IsValid() {
			return nil
		}
		return c.elems[c.idx]
	}
	if len(f.elems) == 0 {
		return nil
	}
	return f.elems[0]
}
func (s *c10Symbols) EvalBool(name string) *bool {
	if v, ok := s.value(name).(bool); ok {
		return &v
	}
	return nil
}
func (s *c10Symbols) EvalString(name string) *string {
	if v, ok := s.value(name).(string); ok {
		return &v
	}
	return nil
}
func (s *c10Symbols) EvalInt64(name string) *int64 {
	if v, ok := s.value(name).(int64); ok {
		return &v
	}
	return nil
}
func (s *c10Symbols) EvalFloat64(name string) *float64 {
	if v, ok := s.value(name).(float64); ok {
		return &v
	}
	return nil
}
func (s *c10Symbols) EvalDatetime(name string) *time.Time {
	if v, ok := s.value(name).(time.Time); ok {
		return &v
	}
	return nil
}
func (s *c10Symbols) IsNil(name string) bool { return s.value(name) == nil }
func (s *c10Symbols) OpenSetCursor(name string) ast.SetCursor {
	c := &c10Cursor{}
	if f, ok := s.fields[name]; ok && f.isSet {
		c.elems = f.elems
	}
	s.cursors[name] = c
	return c
}
func (s *c10Symbols) OpenSetCursorForQuery(name string, q ast.Query) ast.SetCursor {
	c := &c10Cursor{}
	if f, ok := s.fields[name]; ok && f.isSet && f.sub != nil {
		// the related entities: one per element; the element value is visible as field "id"/"v" of the sub-entity
		for _, e := range f.elems {
			sub := f.sub.withValues(map[string]interface{}{"v": e, "id": fmt.Sprint(e)})
			if q == nil || q.EvalBool(sub) {
				c.elems = append(c.elems, e)
			}
		}
	}
	s.cursors[name] = c
	return c
}

func (s *c10Symbols) withValues(vals map[string]interface{}) *c10Symbols {
	n := &c10Symbols{fields: map[string]*c10Field{}, cursors: map[string]*c10Cursor{}}
	for k, f := range s.fields {
		cp := *f
		if v, ok := vals[k]; ok && !f.isSet {
			cp.elems = []interface{}{v}
		}
		n.fields[k] = &cp
	}
	return n
}

var c10Time = time.Date(2032, 9, 3, 15, 36, 50, 0, time.UTC)

func c10Values(t ast.NodeType, n int) []interface{} {
	var out []interface{}
	for i := 0; i < n; i++ {
		switch t {
		case ast.NodeTypeString:
			out = append(out, []string{"s", "", "1", "hello"}[i%4])
		case ast.NodeTypeInt64:
			out = append(out, []int64{1, 0, -5, 1 << 62}[i%4])
		case ast.NodeTypeFloat64:
			out = append(out, []float64{1.5, 0, -2.25, 1e300}[i%4])
		case ast.NodeTypeBool:
			out = append(out, i%2 == 0)
		case ast.NodeTypeDatetime:
			out = append(out, c10Time.Add(time.Duration(i)*time.Hour))
		default: // any type: mix
			out = append(out, []interface{}{"s", int64(1), 1.5, true, c10Time}[i%5])
		}
	}
	return out
}

type c10Typing struct {
	name  string
	typ   ast.NodeType
	isSet bool
	known bool
	store bool // parse against the bolt-backed stores of c10_store.go and evaluate through the Store query API
}

// c10StoreTyping: the filter names the symbols of the bolt-backed stores itself (streams bolt*)
var c10StoreTyping = c10Typing{name: "store", store: true}

var c10Typings = []c10Typing{
	{"string", ast.NodeTypeString, false, true, false},
	{"int", ast.NodeTypeInt64, false, true, false},
	{"float", ast.NodeTypeFloat64, false, true, false},
	{"bool", ast.NodeTypeBool, false, true, false},
	{"datetime", ast.NodeTypeDatetime, false, true, false},
	{"any", ast.NodeTypeAnyType, false, true, false},
	{"set-string", ast.NodeTypeString, true, true, false},
	{"set-int", ast.NodeTypeInt64, true, true, false},
	{"set-datetime", ast.NodeTypeDatetime, true, true, false},
	{"unknown", 0, false, false, false},
}

// c10Table builds the symbol table: x typed as the typing says, plus fixed symbols of every type;
// filled = false: every scalar is null and every set empty
func c10Table(ty c10Typing, filled bool) *c10Symbols {
	sub := &c10Symbols{fields: map[string]*c10Field{
		"v":    {typ: ast.NodeTypeAnyType},
		"id":   {typ: ast.NodeTypeString},
		"name": {typ: ast.NodeTypeString},
		"a":    {typ: ast.NodeTypeBool},
		"x":    {typ: ast.NodeTypeInt64},
	}, cursors: map[string]*c10Cursor{}}
	s := &c10Symbols{fields: map[string]*c10Field{}, cursors: map[string]*c10Cursor{}}
	add := func(name string, t ast.NodeType, isSet bool, withSub bool) {
		f := &c10Field{typ: t, isSet: isSet}
		if filled {
			if isSet {
				f.elems = c10Values(t, 3)
			} else {
				f.elems = c10Values(t, 1)
			}
		}
		if withSub {
			f.sub = sub
		}
		s.fields[name] = f
	}
	add("s", ast.NodeTypeString, false, false)
	add("i", ast.NodeTypeInt64, false, false)
	add("f", ast.NodeTypeFloat64, false, false)
	add("b", ast.NodeTypeBool, false, false)
	add("a", ast.NodeTypeBool, false, false)
	add("c", ast.NodeTypeBool, false, false)
	add("d", ast.NodeTypeDatetime, false, false)
	add("y", ast.NodeTypeAnyType, false, false)
	add("name", ast.NodeTypeString, false, false)
	add("ss", ast.NodeTypeString, true, true)
	add("is", ast.NodeTypeInt64, true, true)
	add("tags.x-y", ast.NodeTypeString, false, false)
	if ty.known {
		add("x", ty.typ, ty.isSet, ty.isSet)
	}
	return s
}

// ---- running the real code ----------------------------------------------------------------------

func c10Site() string {
	pcs := make([]uintptr, 64)
	n := runtime.Callers(3, pcs)
	frames := runtime.CallersFrames(pcs[:n])
	for {
		fr, more := frames.Next()
		if strings.Contains(fr.Function, "github.com/openziti/storage/") {
			fn := fr.Function[strings.Index(fr.Function, "github.com/openziti/storage/")+len("github.com/openziti/storage/"):]
			return strings.NewReplacer(" ", "", "(", "", ")", "", "*", "").Replace(fn)
		}
		if !more {
			break
		}
	}
	return "runtime"
}

func c10Verdict(filter string, ty c10Typing) (verdict string) {
	if ty.store && ty.name == c10CursorTyping.name {
		return c10cVerdict(filter)
	}
	if ty.store {
		return c10sVerdict(filter)
	}
	var query ast.Query
	func() {
		defer func() {
			if r := recover(); r != nil {
				verdict = "P:" + c10Site()
			}
		}()
		q, err := ast.Parse(c10Table(ty, true), filter)
		if err != nil {
			verdict = "E"
			return
		}
		query = q
	}()
	if verdict != "" {
		return verdict
	}
	if query == nil {
		return "P:nil-query"
	}
	for _, filled := range []bool{true, false} {
		func() {
			defer func() {
				if r := recover(); r != nil {
					verdict = "V:" + c10Site()
				}
			}()
			data := c10Table(ty, filled)
			query.EvalBool(data)
			// paging / sort accessors of the parsed query must be usable as well
			_ = query.GetSkip()
			_ = query.GetLimit()
			_ = query.GetSortFields()
			_ = query.String()
		}()
		if verdict != "" {
			return verdict
		}
	}
	return "ok"
}

type c10NopListener struct{ zitiql.BaseZitiQlListener }

// c10LexerHeard: does zitiql.Parse report what the lexer could not tokenize (probed once on "x#")
var c10LexerHeard = sync.OnceValue(func() (heard bool) {
	defer func() {
		if r := recover(); r != nil {
			heard = true
		}
	}()
	return len(zitiql.Parse("x#", &c10NopListener{})) > 0
})

func c10Pooled(filter string) (res string) {
	defer func() {
		if r := recover(); r != nil {
			res = "pP:" + c10Site()
		}
	}()
	pooled := len(zitiql.Parse(filter, &c10NopListener{})) > 0
	lexer := zitiql.NewZitiQlLexer(antlr.NewInputStream(filter))
	lexer.RemoveErrorListeners()
	el := &silentListener{DefaultErrorListener: antlr.NewDefaultErrorListener()}
	if c10LexerHeard() {
		lexer.AddErrorListener(el)
	}
	p := zitiql.NewZitiQlParser(antlr.NewCommonTokenStream(lexer, 0))
	p.RemoveErrorListeners()
	p.AddErrorListener(el)
	p.Start_()
	if pooled == (el.errs > 0) {
		return "p1"
	}
	return "p0"
}

func c10Lex(text string) (string, int) {
	lexer := zitiql.NewZitiQlLexer(antlr.NewInputStream(text))
	lexer.RemoveErrorListeners()
	el := &silentListener{DefaultErrorListener: antlr.NewDefaultErrorListener()}
	lexer.AddErrorListener(el)
	var ks []string
	for _, t := range lexer.GetAllTokens() {
		ks = append(ks, fmt.Sprintf("%d:%d:%d", t.GetTokenType(), t.GetStart(), t.GetStop()-t.GetStart()+1))
	}
	if len(ks) == 0 {
		return "-", el.errs
	}
	return strings.Join(ks, ","), el.errs
}

// c10EncodeText: the case-line form of a Go string: code points in hex, a byte that is not part of a well-formed
// UTF-8 sequence as xHH (utf8.DecodeRuneInString consumes exactly one byte there, like []rune(string) does)
func c10EncodeText(text string) string {
	if len(text) == 0 {
		return "-"
	}
	var parts []string
	for i := 0; i < len(text); {
		r, size := utf8.DecodeRuneInString(text[i:])
		if r == utf8.RuneError && size == 1 {
			parts = append(parts, fmt.Sprintf("x%02x", text[i]))
		} else {
			parts = append(parts, strconv.FormatInt(int64(r), 16))
		}
		i += size
	}
	return strings.Join(parts, ".")
}

func c10DecodeText(s string) string {
	if s == "-" {
		return ""
	}
	var out []byte
	for _, p := range strings.Split(s, ".") {
		if strings.HasPrefix(p, "x") {
			v, _ := strconv.ParseUint(p[1:], 16, 8)
			out = append(out, byte(v))
			continue
		}
		v, _ := strconv.ParseInt(p, 16, 32)
		out = utf8.AppendRune(out, rune(v))
	}
	return string(out)
}

// ---- generators ---------------------------------------------------------------------------------

var c10Lhs = []string{"x", "anyOf(x)", "allOf(x)", "count(x)", "count(from x where a)", "y", "anyOf(ss)", "tags.x-y"}

var c10Rhs = map[string][]string{
	"in":        {`["a", "b"]`, `[1, 2]`, `[1.5, 2]`, `[datetime(2032-09-03T15:36:50Z)]`, `[ "a" ]`, `[-1]`},
	"between":   {`1 and 2`, `1.5 and 2.5`, `1 and 2.5`, `datetime(2030-01-01T00:00:00Z) and datetime(2033-01-01T00:00:00+01:00)`},
	"cmp":       {`"m"`, `1`, `1.5`, `datetime(2032-09-03T15:36:50Z)`, `-1e3`},
	"eq":        {`"s"`, `1`, `1.5`, `datetime(2032-09-03T15:36:50Z)`, `true`, `false`, `null`, `NULL`},
	"contains":  {`"s"`, `1`, `1.5`},
	"icontains": {`"S"`},
}

// c10MatrixSentences: every lhs form x every operator x every literal kind
func c10MatrixSentences() []string {
	var out []string
	for _, lhs := range c10Lhs {
		for _, op := range []string{"in", "not in", "IN"} {
			for _, r := range c10Rhs["in"] {
				out = append(out, lhs+" "+op+" "+r)
			}
		}
		for _, op := range []string{"between", "not between"} {
			for _, r := range c10Rhs["between"] {
				out = append(out, lhs+" "+op+" "+r)
			}
		}
		for _, op := range []string{"<", "<=", ">", ">="} {
			for _, r := range c10Rhs["cmp"] {
				out = append(out, lhs+" "+op+" "+r, lhs+op+r)
			}
		}
		for _, op := range []string{"=", "!="} {
			for _, r := range c10Rhs["eq"] {
				out = append(out, lhs+" "+op+" "+r)
			}
		}
		for _, op := range []string{"contains", "not contains"} {
			for _, r := range c10Rhs["contains"] {
				out = append(out, lhs+" "+op+" "+r)
			}
		}
		for _, op := range []string{"icontains", "not icontains", "not  iContains"} {
			for _, r := range c10Rhs["icontains"] {
				out = append(out, lhs+" "+op+" "+r)
			}
		}
	}
	return out
}

func c10Sentences() []string {
	out := c10MatrixSentences()
	// boolean forms and query clauses
	out = append(out,
		"x", "not x", "isEmpty(x)", "not isEmpty(x)", "isEmpty(from x where a)", "isEmpty(from x where v = 1)", "true", "FALSE", "x = true",
		"x and b", "x or not (b and x)", "(x)", "( x = 1 ) and ( i = 2 or s = \"q\" )",
		"count(from x where v > 0) > 1", "count(from x where name = \"s\" sort by name limit 1) = 1",
		"count(from ss where anyOf(x) = 1) = 0", "anyOf(from x where a) = 1",
		"x = 1 sort by x", "x = 1 sort by x desc, s asc", "sort by x", "sort by s, x DESC limit 2", "skip 2", "limit 3", "limit none", "skip 1 limit 2",
		"true skip 1.5", "true limit -1", "true limit 1e2", "true skip 99999999999999999999", "true skip -0", "true limit NONE", "true sort by nosuch",
		"x = 99999999999999999999", "x = -9223372036854775808", "x = 9223372036854775808", "x = 1e400", "x = 0.0000000000000000000000001",
		"x between 1 and 2 and b", "x between 1 and 2 or x between 3 and 4",
		"x in [1,2,3", "x in []", "x in [1, \"a\"]", "x in [\"a\", 1]", "x = ", "= 1", "x = = 1", "x == 1", "x <> 1", "x = 1 and", "and", "(", ")", "()", "x = (1)",
		"x = \"unterminated", "x = 'a'", "'x' = 1", "'tags.x-y' = \"v\"", "x.y = 1", "x. = 1", "x = 1 # comment", "x = 1;", "x = \"a\"#", "x = 1 -- c",
		"datetime(2032-09-03T15:36:50Z) = x", "x = datetime(2032-13-03T15:36:50Z)", "x = datetime( 2032-09-03t15:36:50z )", "x = datetime(2032-09-03T15:36:60.5+23:59)",
		"x = datetime(2032-09-03)", "x = 2032-09-03T15:36:50Z", "x > datetime(0000-01-01T00:00:00Z)", "x = datetime(99999999999-01-01T00:00:00Z)",
		"not in", "x not  in [1]", "x not\tin [1]", "x notin [1]", "x not in[1]", "x in[1]", "x contains\"s\"", "x contains \"s\"and b", "not contains", "x = nota",
		"allOf(x) = null", "count(x) = null", "isEmpty(x) = true", "anyOf(x)", "anyOf(x) and b", "count(x)", "count(x) > count(is)", "anyOf(anyOf(x)) = 1", "allOf(ss) = anyOf(ss)",
		"x = y", "x = s", "s = \"a\" and i = 1 and f = 1.5 and b = true and d = datetime(2032-09-03T15:36:50Z) and y = 1",
		"name = \"x\"", "name = \"x\"#", "name = \"x\" é", "naïve = 1", "x = \"é€\U0001F600\"", "x = \"a\\nb\\\\\"", "x = \"bad \\q escape\"", "x = \"tab\there\"", "x = \"nl\nhere\"",
	)
	return out
}

// c10ShortSentences: valid filters over the fixed symbols of c10Table (no x), one per construct of the grammar
var c10ShortSentences = []string{"a", "a = true", "i = 1", "a and b", "not a", "(a)", "i in [1, 2]", `s = "x"`, "isEmpty(ss)", "a sort by s desc", "a limit 1", "a skip 1 limit none",
	`anyOf(ss) = "s"`, "d = datetime(2032-09-03T15:36:50Z)", "count(from ss where a) > 1", "i between 1 and 2", `s contains "x" or f >= 1.5`}

// c10ForeignChars: punctuation, symbols, control and non-ASCII characters (whether one is foreign at a position is
// decided by the real lexer and by the lexer model, not here)
var c10ForeignChars = []rune("#$;\\^~%@`?|&*{}/+:'\x00\x7f§é€")

var c10TokenPool = []string{"x", "y", "s", "b", " ", " ", "=", "!=", "<", ">=", "1", "1.5", "-2", `"s"`, "null", "true", "and", "or", "not", "(", ")", "[", "]", ",",
	"in", "not in", "between", "not between", "contains", "icontains", "anyOf", "allOf", "count", "isEmpty", "from", "where", "sort", "by", "asc", "desc", "skip", "limit", "none",
	"datetime(2032-09-03T15:36:50Z)", "#", "'", "\"", "\\", "é", ".", "-", "e", "datetime("}

func c10Tokenize(s string) []string {
	lexer := zitiql.NewZitiQlLexer(antlr.NewInputStream(s))
	lexer.RemoveErrorListeners()
	var out []string
	for _, t := range lexer.GetAllTokens() {
		out = append(out, t.GetText())
	}
	return out
}

func c10Mutate(r *rng, toks []string) string {
	t := append([]string{}, toks...)
	n := 1 + r.intn(2)
	for i := 0; i < n && len(t) > 0; i++ {
		k := r.intn(len(t))
		switch r.intn(5) {
		case 0:
			t = append(t[:k], t[k+1:]...)
		case 1:
			t = append(t[:k+1], t[k:]...)
		case 2:
			if k+1 < len(t) {
				t[k], t[k+1] = t[k+1], t[k]
			}
		case 3:
			t[k] = r.pick(c10TokenPool)
		default:
			t = append(t[:k], append([]string{r.pick(c10TokenPool)}, t[k:]...)...)
		}
	}
	return strings.Join(t, "")
}

var c10LexChars = []rune(`"\'ntf()[],.-+:0123456789eEzZtTaAdnNoO iIxX_<>=!#;` + "\t\n\r\x00\x1fé€😀")

var c10LexFragments = []string{"datetime(", "2032-09-03", "T15:36:50", "Z", "+01:00", ".123", "not ", "not\t", "in", "contains", "icontains", "between", "and", "or", "true", "false", "null",
	"\"", "\\\"", "\\\\", "\\n", "\\q", "'", "a.b", "a.b-c", "a-b", "a_b", ".", "-", "1", "0", "01", "1.5", "1e5", "1e+", "1.", "-1", "--1", " ", "\t", "(", ")", "[", "]", ",", "<=", "!=", "=", "!", "#", "é", "x"}

func runC10(o *opts) error {
	cases := newLineWriter(o.out, "cases.txt")
	impl := newLineWriter(o.out, "impl.txt")
	defer cases.close()
	defer impl.close()
	defer c10sCleanup()
	r := newRng(o.seed)
	c10cDeep = o.thorough() || o.get("replaycase", "") != ""
	stats := map[string]int{}
	// the lexer's default ConsoleErrorListener (still attached in the shipped glue) writes to os.Stderr
	if devnull, err := os.OpenFile(os.DevNull, os.O_WRONLY, 0); err == nil {
		os.Stderr = devnull
	}

	type job struct {
		stream   string
		text     string
		typings  []c10Typing
		implLine string
	}
	var jobs []*job
	seen := map[string]bool{}
	// emitS takes the filter as the exact Go string (it may hold bytes that are not UTF-8)
	emitS := func(stream, text string, typings []c10Typing) {
		key := stream[:1] + text
		if seen[key] {
			return
		}
		seen[key] = true
		jobs = append(jobs, &job{stream: stream, text: text, typings: typings})
		stats["stream_"+stream]++
	}
	emit := func(stream string, runes []rune, typings []c10Typing) { emitS(stream, string(runes), typings) }
	boolOnly := []c10Typing{c10Typings[3]}
	flush := func() {
		workers := 4
		if v, err := strconv.Atoi(os.Getenv("VERIF_JOBS")); err == nil && v > 0 {
			workers = v
		}
		var wg sync.WaitGroup
		ch := make(chan *job, 256)
		// termination: a case that one worker has been busy with for longer than --stall seconds (60; a case takes
		// milliseconds) ends the run with status 7 and the case line in HANG.txt (library code that does not return
		// cannot be interrupted in-process)
		type running struct {
			j  *job
			t0 time.Time
		}
		current := make([]atomic.Pointer[running], workers)
		stall := time.Duration(o.getInt("stall", 60)) * time.Second
		monitorDone := make(chan struct{})
		defer close(monitorDone)
		go func() {
			for {
				select {
				case <-monitorDone:
					return
				case <-time.After(500 * time.Millisecond):
				}
				for w := range current {
					if r := current[w].Load(); r != nil && time.Since(r.t0) > stall {
						var names []string
						for _, ty := range r.j.typings {
							names = append(names, ty.name)
						}
						line := fmt.Sprintf("Q %s %s %s", r.j.stream, c10EncodeText(r.j.text), strings.Join(names, "/"))
						_ = os.WriteFile(filepath.Join(o.out, "HANG.txt"), []byte(line+"\n"), 0o644)
						fmt.Println("HANG", line)
						os.Exit(7)
					}
				}
			}
		}()
		for w := 0; w < workers; w++ {
			wg.Add(1)
			go func(w int) {
				defer wg.Done()
				for j := range ch {
					current[w].Store(&running{j: j, t0: time.Now()})
					toks, nerr := c10Lex(j.text)
					filter := j.text
					var vs []string
					for _, ty := range j.typings {
						vs = append(vs, c10Verdict(filter, ty))
					}
					j.implLine = fmt.Sprintf("Q %s e%d %s %s %s", toks, nerr, strings.Join(vs, "/"), c10Pooled(filter), c10eEntries(filter))
					current[w].Store(nil)
				}
			}(w)
		}
		for _, j := range jobs {
			ch <- j
		}
		close(ch)
		wg.Wait()
		if blanks := c10wRunes(); o.get("replaycase", "") == "" {
			// the population of blank-like characters (Go's unicode tables) against the table of Lang/ForeignBlank.v: every
			// one of them must be in the table (so that the theorems about the edges of a text cover it), and the sizes agree
			n := len(blanks)
			cases.line("W blank-like %s -", c10EncodeText(string(blanks)))
			impl.line("W t%d s%d e%d w%d n%d", n, n, n, n, n)
		}
		for _, j := range jobs {
			var names []string
			for _, ty := range j.typings {
				names = append(names, ty.name)
			}
			cases.line("Q %s %s %s", j.stream, c10EncodeText(j.text), strings.Join(names, "/"))
			impl.line("%s", j.implLine)
		}
	}

	if o.getInt("termcase", 0) > 0 {
		// termination: families of valid texts of growing size and their invalid twins, every call under a time bound (c10_term.go)
		return runC10Term(o)
	}
	if o.getInt("pagecase", 0) > 0 {
		// huge and allocatable paging values under an address-space limit (c10_page.go; a child process of the check)
		return runC10Page(o)
	}
	if n := o.getInt("scalecase", 0); n > 0 {
		// parse-time scaling: chains of alternating and/or connectives; one line per size, flushed at once
		// (run in a child process under a timeout by the check)
		for _, k := range []int{4, 6, 8, n} {
			q := "a" + strings.Repeat(" and a or a", k)
			t0 := time.Now()
			_, err := ast.Parse(c10Table(c10Typings[3], true), q)
			fmt.Printf("SCALE %d %d %.3f %v\n", 2*k, len(q), float64(time.Since(t0).Microseconds())/1000.0, err == nil)
			os.Stdout.Sync()
		}
		return nil
	}

	if rc := o.get("replaycase", ""); rc != "" {
		data, err := os.ReadFile(rc)
		if err != nil {
			return err
		}
		for _, line := range strings.Split(strings.TrimSpace(string(data)), "\n") {
			f := strings.Fields(line)
			if len(f) < 4 {
				continue
			}
			var tys []c10Typing
			for _, n := range strings.Split(f[3], "/") {
				for _, ty := range append([]c10Typing{c10StoreTyping, c10CursorTyping}, c10Typings...) {
					if ty.name == n {
						tys = append(tys, ty)
					}
				}
			}
			emitS(f[1], c10DecodeText(f[2]), tys)
		}
		flush()
		return nil
	}

	// corpus: minimal forms of what once failed
	for _, s := range []string{"x between 1 and 2", "x icontains \"a\"", "name = \"x\"#", "#", "x = 1 é"} {
		emitS("corpus", s, c10Typings)
	}

	// stream 1: grammar-derived sentences, every lhs form x operator x literal kind, under every typing of x
	sentences := c10Sentences()
	for _, s := range sentences {
		emitS("sent", s, c10Typings)
	}
	// the same inside not ( ) / combined / with query clauses, on a slice
	for i, s := range sentences {
		switch i % 6 {
		case 0:
			emitS("sent", "not ("+s+")", c10Typings)
		case 1:
			emitS("sent", s+" and b", c10Typings)
		case 2:
			emitS("sent", "b or "+s+" sort by s skip 1 limit 2", c10Typings)
		case 3:
			emitS("sent", "  "+strings.ToUpper(s)+"\t", c10Typings)
		}
	}

	// stream 1a (c10_lit.go): literals that are tokens of the grammar and have no value (numbers beyond float64 / int64,
	// dates that do not exist, second 60, over-long tokens) at every literal position of every literal-taking construct, and
	// the edge values that do convert; every third one also against the bolt-backed store (x renamed to number / datetime symbols)
	var litStore []string
	nlit := 0
	c10lFilters(o.thorough(), func(filter string) {
		emitS("lit", filter, c10Typings)
		if nlit%3 == 0 {
			if f, clean, found := c10sRename(filter, c10lStoreTargets[(nlit/3)%len(c10lStoreTargets)]); clean && found {
				litStore = append(litStore, f)
			}
		}
		nlit++
	})

	// stream 1b: short valid sentences with ONE foreign character inserted at every position, first character
	// first: where the lexer does not recognise the character, dropping it leaves a valid filter, so that only the
	// lexer's error report stands between the text and its silent acceptance (inside a string literal it is data)
	for _, ch := range append(append([]rune{}, c10ForeignChars...), c10wEveryPosition...) {
		for _, s := range c10ShortSentences {
			rs := []rune(s)
			for pos := 0; pos <= len(rs); pos++ {
				emit("ins", append(append(append([]rune{}, rs[:pos]...), ch), rs[pos:]...), []c10Typing{c10Typings[0], c10Typings[3]})
			}
		}
	}

	// stream 1c (c10_edge.go): every blank-like rune that is not grammar whitespace, bytes that are not UTF-8, NUL, BOM ...
	// as FIRST and LAST characters of every short sentence, bare and next to grammar whitespace, at token boundaries, in
	// place of a blank, and alone
	c10wCases(c10ShortSentences, func(stream, text string) { emitS(stream, text, []c10Typing{c10Typings[0], c10Typings[3]}) })

	// stream 2: token-level mutations
	nm := 8000
	if o.thorough() {
		nm = 60000
	}
	if o.n > 0 {
		nm = o.n
	}
	some := []c10Typing{c10Typings[0], c10Typings[1], c10Typings[4], c10Typings[6], c10Typings[3]}
	for i := 0; i < nm; i++ {
		s := sentences[r.intn(len(sentences))]
		toks := c10Tokenize(s)
		if len(toks) == 0 {
			continue
		}
		emitS("mut", c10Mutate(r, toks), some)
	}

	// stream 3: bounded-exhaustive token sequences
	skeleton := []string{"a", "and", "or", "not", "(", ")", " "}
	maxA, maxB := 5, 4
	if o.thorough() {
		maxA, maxB = 6, 5
	}
	var rec func(alpha []string, stream string, prefix string, depth, max int, tys []c10Typing)
	rec = func(alpha []string, stream string, prefix string, depth, max int, tys []c10Typing) {
		if depth > 0 {
			emitS(stream, prefix, tys)
		}
		if depth == max {
			return
		}
		for _, a := range alpha {
			rec(alpha, stream, prefix+a, depth+1, max, tys)
		}
	}
	rec(skeleton, "seqA", "", 0, maxA, boolOnly)
	ops := []string{"x", " ", "=", "1", `"s"`, "in", "[", "]", "null", "between", "and", "not"}
	rec(ops, "seqB", "", 0, maxB, []c10Typing{c10Typings[0], c10Typings[1], c10Typings[4]})

	// stream 4: random code points / lexer-relevant fragments (the malformed stream)
	nr := 12000
	if o.thorough() {
		nr = 80000
	}
	for i := 0; i < nr; i++ {
		var rs []rune
		l := 1 + r.intn(14)
		switch i % 3 {
		case 0:
			for j := 0; j < l; j++ {
				rs = append(rs, c10LexChars[r.intn(len(c10LexChars))])
			}
		case 1:
			for j := 0; j < l; j++ {
				rs = append(rs, []rune(r.pick(c10LexFragments))...)
			}
		default:
			// raw bytes: the Go string as it is (mostly not UTF-8); the runtime converts it with []rune(string)
			b := make([]byte, l)
			for j := range b {
				b[j] = byte(r.intn(256))
			}
			emitS("rand", string(b), []c10Typing{c10Typings[0], c10Typings[3]})
			continue
		}
		emit("rand", rs, []c10Typing{c10Typings[0], c10Typings[3]})
	}
	// store-backed streams (c10_store.go): the sentences with x renamed to every kind of symbol of real boltz stores,
	// evaluated through the Store query API over bolt files with filled / nil / empty / never written fields and buckets
	storeOnly := []c10Typing{c10StoreTyping}
	var boltFilters []string
	c10sFilters(sentences, func(stream, filter string) {
		emitS(stream, filter, storeOnly)
		boltFilters = append(boltFilters, filter)
	})
	for _, f := range litStore {
		emitS("boltlit", f, storeOnly)
	}
	// scopes of nested sub-queries over stores whose symbol names clash (c10_nest.go)
	nnest := 0
	c10nFilters(o.thorough(), func(stream, filter string) {
		emitS(stream, filter, storeOnly)
		if nnest++; o.thorough() && nnest%8 == 0 {
			boltFilters = append(boltFilters, filter) // token-level mutations of nested sub-queries: thorough tier
		}
	})
	nbm := 4000
	if o.thorough() {
		nbm = 40000
	}
	for i := 0; i < nbm && len(boltFilters) > 0; i++ {
		toks := c10Tokenize(boltFilters[r.intn(len(boltFilters))])
		if len(toks) == 0 {
			continue
		}
		emitS("boltmut", c10sMutate(r, toks), storeOnly)
	}
	// paging values of extreme magnitude through every scanner (c10_page.go)
	c10pFilters(o.thorough(), func(stream, filter string) {
		if stream == "qcurpage" {
			emitS(stream, filter, []c10Typing{c10CursorTyping})
		} else {
			emitS(stream, filter, storeOnly)
		}
	})
	// cursor-provider stream (c10_cursors.go): filters for every scanner x the whole provider matrix
	for _, f := range c10cFilters() {
		emitS("qcur", f, []c10Typing{c10CursorTyping})
	}
	flush()
	stats["cursor_providers"] = len(c10sEnv().roots[0].prov)
	stats["typings"] = len(c10Typings)
	writeJSON(o.out, "stats.json", stats)
	return nil
}
