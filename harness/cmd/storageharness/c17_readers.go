package main

import (
	"bufio"
	"bytes"
	"errors"
	"fmt"
	"io"
	"os"
	"path/filepath"
	"runtime/debug"
	"strconv"
	"strings"
	"sync/atomic"
	"time"

	"github.com/openziti/storage/boltz"
	"go.etcd.io/bbolt"
)

// C17 - readers feeding RestoreFromReader and restore listeners that use the database.
//
// Additional operations of a history (model: coq/theories/Db/RestoreX.v, Db/Reader.v):
//
//	restorer <k> <flavour> <len> <eofd> <failAt|-> <failWd> <rest> <npre> <pre>...
//	    RestoreFromReader(reader over the bytes of file k).  The reader behaves as the io.Reader
//	    contract allows: the first reads deliver <pre>... bytes (0 = a (0, nil) read), every later one
//	    <rest> bytes (0 = fill the buffer handed in); io.EOF arrives with the last bytes (eofd=1) or by
//	    a separate (0, EOF); after <failAt> bytes the reader fails with another error (with the last
//	    bytes before it when failWd=1).  flavour: r = Read only, w = also io.WriterTo, s = also
//	    io.Seeker, u = behind a bufio.Reader, f = an *os.File, b = a *bytes.Reader (f, b: plain script).
//	addlv | addls | addlt <mode> | addlw <key>
//	    restore listeners that use the database: a read transaction over the whole content,
//	    GetSnapshotId, GetTimelineId(mode, "LT"), an Update appending a byte to lsn/<key>.
//
// A restore that does not return, or listeners that do not finish, within the watchdog's time are
// reported as "restore hang" / "restore listeners-stuck"; the history is not continued (every
// later transaction would block, too).

type c17xScript struct {
	flav   string
	length int
	eofd   bool
	failAt int // -1: never
	failWd bool
	rest   int
	pre    []int
}

func (s c17xScript) failing() bool { return s.failAt >= 0 && s.failAt <= s.length }

func (s c17xScript) tok(k int) string {
	fa := "-"
	if s.failAt >= 0 {
		fa = strconv.Itoa(s.failAt)
	}
	parts := []string{"restorer", strconv.Itoa(k), s.flav, strconv.Itoa(s.length), strconv.Itoa(b2i(s.eofd)), fa,
		strconv.Itoa(b2i(s.failWd)), strconv.Itoa(s.rest), strconv.Itoa(len(s.pre))}
	for _, p := range s.pre {
		parts = append(parts, strconv.Itoa(p))
	}
	return strings.Join(parts, " ")
}

var errC17xReader = errors.New("c17: the reader failed")

// c17xReader: a reader over data that follows a script
type c17xReader struct {
	data  []byte
	pos   int
	sc    c17xScript
	pre   []int
	done  bool
	reads int
	hook  func(pos int) // c17_meta.go: told the position before every read and at the end of the data
}

func newC17xReader(data []byte, sc c17xScript) *c17xReader {
	return &c17xReader{data: data, sc: sc, pre: append([]int{}, sc.pre...)}
}

func (r *c17xReader) endErr() error {
	if r.sc.failing() {
		return errC17xReader
	}
	return io.EOF
}

func (r *c17xReader) Read(p []byte) (int, error) {
	if r.hook != nil {
		r.hook(r.pos)
	}
	n, err := r.read(p)
	if err != nil && r.hook != nil {
		r.hook(r.pos)
	}
	return n, err
}

func (r *c17xReader) read(p []byte) (int, error) {
	r.reads++
	if len(p) == 0 {
		return 0, nil
	}
	if r.done {
		return 0, r.endErr()
	}
	if len(r.pre) > 0 && r.pre[0] == 0 {
		r.pre = r.pre[1:]
		return 0, nil
	}
	want := len(p)
	if len(r.pre) > 0 {
		want = r.pre[0]
		r.pre = r.pre[1:]
	} else if r.sc.rest != 0 {
		want = r.sc.rest
	}
	limit := len(r.data)
	withd := r.sc.eofd
	if r.sc.failing() {
		limit = r.sc.failAt
		withd = r.sc.failWd
	}
	avail := limit - r.pos
	if avail <= 0 {
		r.done = true
		return 0, r.endErr()
	}
	k := want
	if len(p) < k {
		k = len(p)
	}
	if avail < k {
		k = avail
	}
	copy(p, r.data[r.pos:r.pos+k])
	r.pos += k
	if r.pos == limit && withd {
		r.done = true
		return k, r.endErr()
	}
	return k, nil
}

// flavour w: the reader also offers WriteTo (io.Copy prefers it); it writes what its own reads deliver
type c17xWriterTo struct{ *c17xReader }

func (r c17xWriterTo) WriteTo(w io.Writer) (int64, error) {
	size := 32 * 1024
	if r.sc.rest > 0 && r.sc.rest < size {
		size = r.sc.rest
	}
	buf := make([]byte, size)
	var total int64
	for {
		n, err := r.Read(buf)
		if n > 0 {
			m, werr := w.Write(buf[:n])
			total += int64(m)
			if werr != nil {
				return total, werr
			}
		}
		if err == io.EOF {
			return total, nil
		}
		if err != nil {
			return total, err
		}
	}
}

// flavour s: the reader also offers Seek
type c17xSeeker struct{ *c17xReader }

func (r c17xSeeker) Seek(offset int64, whence int) (int64, error) {
	var base int64
	switch whence {
	case io.SeekStart:
	case io.SeekCurrent:
		base = int64(r.pos)
	case io.SeekEnd:
		base = int64(len(r.data))
	default:
		return 0, errors.New("c17: bad whence")
	}
	n := base + offset
	if n < 0 {
		return 0, errors.New("c17: negative position")
	}
	if n > int64(len(r.data)) {
		n = int64(len(r.data))
	}
	r.pos = int(n)
	r.done = false
	return n, nil
}

// the reader as RestoreFromReader gets it; cleanup closes what was opened
func (h *c17Run) c17xPresent(data []byte, sc c17xScript) (io.Reader, func(), error) {
	return h.c17xPresentReader(newC17xReader(data, sc), sc)
}

func (h *c17Run) c17xPresentReader(rd *c17xReader, sc c17xScript) (io.Reader, func(), error) {
	data := rd.data
	switch sc.flav {
	case "r":
		return struct{ io.Reader }{rd}, func() {}, nil
	case "w":
		return c17xWriterTo{rd}, func() {}, nil
	case "s":
		return c17xSeeker{rd}, func() {}, nil
	case "u":
		return bufio.NewReaderSize(struct{ io.Reader }{rd}, 4096), func() {}, nil
	case "b":
		return bytes.NewReader(data), func() {}, nil
	case "f":
		// the snapshot as a file on the caller's disk: ONE file per snapshot, written once and handed in again by
		// every later restore of the same snapshot (a restore must leave the caller's file alone, and restoring
		// it a second time - after the database has been written to - must give the snapshot again)
		key := fmt.Sprintf("%d:%08x", len(data), c17xFnv(string(data)))
		if h.srcOf == nil {
			h.srcOf = map[string]string{}
		}
		p, ok := h.srcOf[key]
		if !ok {
			p = filepath.Join(h.dir, fmt.Sprintf("src%d", h.nsrc))
			h.nsrc++
			if err := os.WriteFile(p, data, 0o600); err != nil {
				return nil, nil, err
			}
			h.srcOf[key] = p
		} else {
			h.stats["op_restorer_f_same_file_again"]++
		}
		f, err := os.Open(p)
		if err != nil {
			return nil, nil, err
		}
		return f, func() { _ = f.Close() }, nil
	}
	return nil, nil, fmt.Errorf("c17: unknown reader flavour %q", sc.flav)
}

func c17xPlain(flav string, length int) c17xScript {
	return c17xScript{flav: flav, length: length, failAt: -1}
}

func c17xGenScript(r *rng, length int) c17xScript {
	flav := []string{"r", "r", "r", "r", "r", "r", "r", "r", "w", "w", "w", "s", "s", "u", "u", "f", "f", "b", "b", "b"}[r.intn(20)]
	if flav == "f" || flav == "b" {
		return c17xPlain(flav, length)
	}
	sc := c17xScript{flav: flav, length: length, failAt: -1, eofd: r.chance(50)}
	sizes := []int{0, 0, 0, 0, 333, 511, 512, 513, 1000, 4095, 4096, 4097, 8192, 12345, 32767, 32768, 32769, 65535, 65536, 65537,
		length - 1, length, length + 1, length / 2, length/2 + 1, length / 3}
	sc.rest = sizes[r.intn(len(sizes))]
	if r.chance(8) {
		sc.rest = []int{1, 1, 2, 3, 7, 63}[r.intn(6)] // many tiny reads: rare, they cost a write each
	}
	if sc.rest < 0 {
		sc.rest = 0
	}
	if r.chance(50) {
		psizes := []int{0, 0, 0, 1, 1, 2, 5, 100, 4096, 4097, 32768, 65536, length / 2, length - 1, length}
		for i, n := 0, 1+r.intn(6); i < n; i++ {
			p := psizes[r.intn(len(psizes))]
			if p < 0 {
				p = 0
			}
			sc.pre = append(sc.pre, p)
		}
	}
	if r.chance(15) {
		at := []int{0, 1, 2, 4095, 4096, 4097, length / 2, length - 1, length, length}[r.intn(10)]
		if at < 0 {
			at = 0
		}
		if at > length {
			at = length
		}
		sc.failAt = at
		sc.failWd = r.chance(50)
	}
	return sc
}

// ---- restore through a watchdog ----------------------------------------------------------------------

var c17HangWait = 15 * time.Second // generous: a slow disk (fsync under load) must not look like a hang; shortened after the first confirmed hang
var c17Hangs = 0

type c17xBody struct {
	kind string // c v s t w ; b blocks for good, d returns once listener number dep has returned (c17_view.go)
	mode string
	key  []byte
	dep  int
}

func c17xTouched(p [][]byte) bool {
	if len(p) == 0 {
		return false
	}
	if string(p[0]) == "lsn" {
		return true
	}
	if string(p[0]) != boltz.Metadata {
		return false
	}
	return len(p) == 1 || (len(p) == 2 && (string(p[1]) == boltz.TimelineId || string(p[1]) == boltz.ResetTimeline))
}

func c17xFnv(s string) uint32 {
	h := uint32(0x811c9dc5)
	for i := 0; i < len(s); i++ {
		h = (h ^ uint32(s[i])) * 0x01000193
	}
	return h
}

// what the idx-th listener does when a restore starts it
func (h *c17Run) c17xListener(idx int, b c17xBody) func() {
	return func() {
		debug.SetPanicOnFault(true)
		h.mu.Lock()
		g := h.lgen // the restore that started this listener (c17_view.go)
		h.mu.Unlock()
		g.start(idx)
		atomic.AddInt64(&h.fired, 1)
		obs := "c"
		defer func() {
			if recover() != nil {
				obs = b.kind + ":err"
			}
			h.mu.Lock()
			if idx < len(h.lobs) && h.lgen == g {
				h.lobs[idx] = obs
			}
			h.mu.Unlock()
			g.finish(idx)
			atomic.AddInt64(&h.ldone, 1)
		}()
		switch b.kind {
		case "b":
			// does not return (until the harness has made its observations and lets it go)
			<-g.release
			obs = "b:released"
		case "d":
			// depends on what listener number dep provides: returns once that one has returned
			select {
			case <-g.doneOf(b.dep):
				obs = "d"
			case <-g.release:
				obs = "d:released"
			}
		case "v":
			var seen []csEntry
			err := h.db.View(func(tx *bbolt.Tx) error {
				for _, e := range csWalk(tx) {
					if !c17xTouched(e.path) {
						seen = append(seen, e)
					}
				}
				return nil
			})
			if err != nil {
				obs = "v:err"
			} else {
				obs = fmt.Sprintf("v:%d:%08x", len(seen), c17xFnv(c17Dump(seen, h.ids)))
			}
		case "s":
			id, err := h.db.GetSnapshotId()
			switch {
			case err != nil:
				obs = "s:err"
			case id == nil:
				obs = "s:nil"
			default:
				name := *id
				if n, ok := h.ids[name]; ok {
					name = n
				}
				obs = "s:" + hxs(name)
			}
		case "t":
			m := map[string]boltz.TimelineMode{"d": boltz.TimelineModeDefault, "i": boltz.TimelineModeInitIfEmpty, "f": boltz.TimelineModeForceReset}[b.mode]
			id, err := h.db.GetTimelineId(m, func() (string, error) {
				atomic.AddInt64(&h.lcalls, 1)
				return "LT", nil
			})
			if err != nil {
				obs = "t:err"
			} else {
				obs = "t:" + hxs(id)
			}
		case "w":
			err := h.db.Update(nil, func(ctx boltz.MutateContext) error {
				bk, err := ctx.Tx().CreateBucketIfNotExists([]byte("lsn"))
				if err != nil {
					return err
				}
				return bk.Put(b.key, append(csClone(bk.Get(b.key)), 1))
			})
			obs = "w"
			if err != nil {
				obs = "w:err"
			}
		}
	}
}

func (h *c17Run) opAddDbListener(b c17xBody) {
	if h.dead {
		return
	}
	defer h.guard()
	idx := len(h.lbodies)
	h.lbodies = append(h.lbodies, b)
	h.db.AddRestoreListener(h.c17xListener(idx, b))
	h.listeners++
	switch b.kind {
	case "c":
		h.emit("addl", "addl")
	case "t":
		h.emit("addlt "+b.mode, "addl")
	case "w":
		h.emit("addlw "+hx(b.key), "addl")
	case "d":
		h.emit(fmt.Sprintf("addld %d", b.dep), "addl")
	default:
		h.emit("addl"+b.kind, "addl")
	}
	h.stats["op_addl_"+b.kind]++
}

func (h *c17Run) genDbListener(r *rng, pctPlain int) {
	if r.chance(pctPlain) {
		h.opAddDbListener(c17xBody{kind: "c"})
		return
	}
	switch r.intn(10) {
	case 0, 1, 2:
		h.opAddDbListener(c17xBody{kind: "v"})
	case 3, 4, 5:
		h.opAddDbListener(c17xBody{kind: "s"})
	case 6, 7:
		// one mode per history: the listeners' results do not depend on which of them runs first
		if h.tlMode == "" {
			h.tlMode = r.pick([]string{"d", "d", "i", "f"})
		}
		h.opAddDbListener(c17xBody{kind: "t", mode: h.tlMode})
	default:
		h.opAddDbListener(c17xBody{kind: "w", key: []byte(fmt.Sprintf("k%d", len(h.lbodies)))})
	}
}

// doRestore runs one restore under the watchdog and records what it and the listeners did
func (h *c17Run) doRestore(caseTok string, refusable bool, restore func()) {
	if h.dead {
		return
	}
	defer h.guard()
	// every registered listener has to be started; those that can return (c17_view.go) have to return
	wantAll := atomic.LoadInt64(&h.ldone) + int64(h.listeners)
	want := atomic.LoadInt64(&h.ldone) + int64(c17vReturning(h.lbodies))
	wantFired := atomic.LoadInt64(&h.fired) + int64(h.listeners)
	g := newC17vGen(h.listeners)
	h.mu.Lock()
	h.lobs = make([]string, h.listeners)
	h.lgen = g
	h.mu.Unlock()
	// listeners that wait are let go once the observations are made; the history goes on when all have left
	stragglers := false
	defer func() {
		g.letGo()
		if stragglers {
			h.dead = true
		}
		for end := time.Now().Add(2 * time.Second); want < wantAll && !h.dead && g.pending() > 0 && time.Now().Before(end); {
			time.Sleep(200 * time.Microsecond)
		}
	}()
	result := make(chan interface{}, 1)
	go func() {
		// a truncated or corrupt file that was renamed over the database makes bbolt fault in its memory map:
		// turn that into a panic of this goroutine instead of a crash of the harness
		debug.SetPanicOnFault(true)
		defer func() { result <- recover() }()
		restore()
	}()
	var panicked interface{}
	select {
	case panicked = <-result:
	case <-time.After(c17HangWait):
		h.dead = true
		// already a finding; do not wait seconds for each later one
		c17Hangs++
		if c17HangWait > 500*time.Millisecond {
			c17HangWait = 500 * time.Millisecond
		}
		if c17Hangs >= 4 && c17HangWait > 150*time.Millisecond {
			c17HangWait = 150 * time.Millisecond
		}
		h.emit(caseTok, "restore hang")
		h.stats["op_restore_hang"]++
		return
	}
	h.idfCalls += int(atomic.SwapInt64(&h.mcalls, 0)) // idF invocations of the calls the reader made (c17_meta.go)
	if panicked != nil {
		var perr error
		if e, ok := panicked.(error); ok {
			perr = e
		}
		if refusable && perr != nil && errors.Is(perr, errC17xReader) {
			h.emit(caseTok, fmt.Sprintf("restore refused fired=%d", atomic.LoadInt64(&h.fired))+h.c17mLogText())
			h.stats["op_restore_refused"]++
			return
		}
		// the restore failed half-way: the handle is closed or gone; nothing more can be learnt from this history
		h.emit(caseTok, "restore panic:"+hxs(fmt.Sprint(panicked)))
		h.dead = true
		return
	}
	// restore listeners run asynchronously: wait until all of them have finished, then a grace period for extras
	deadline := time.Now().Add(c17ListenerWait)
	for (atomic.LoadInt64(&h.ldone) < want || atomic.LoadInt64(&h.fired) < wantFired) && time.Now().Before(deadline) {
		time.Sleep(200 * time.Microsecond)
	}
	if atomic.LoadInt64(&h.ldone) < want || atomic.LoadInt64(&h.fired) < wantFired {
		c17ListenerWait = 50 * time.Millisecond // already a finding; do not wait seconds for each later restore
		if want < wantAll {
			// with listeners that wait for each other the stragglers would run into the later operations
			stragglers = true
		}
		if atomic.LoadInt64(&h.fired) >= wantFired {
			// all were started, some never came back from the database
			h.dead = true
			h.emit(caseTok, fmt.Sprintf("restore listeners-stuck fired=%d done=%d", atomic.LoadInt64(&h.fired), atomic.LoadInt64(&h.ldone)))
			return
		}
	}
	time.Sleep(2 * time.Millisecond)
	obs := fmt.Sprintf("restore fired=%d", atomic.LoadInt64(&h.fired))
	plain := true
	for _, b := range h.lbodies {
		if b.kind != "c" {
			plain = false
		}
	}
	if !plain {
		h.idfCalls += int(atomic.SwapInt64(&h.lcalls, 0))
		h.mu.Lock()
		ls := make([]string, len(h.lobs))
		for i, o := range h.lobs {
			if o == "" {
				o = "-"
				if g.started(i) && i < len(h.lbodies) {
					o = h.lbodies[i].kind + ":waiting" // started, has not returned
				}
			}
			ls[i] = o
		}
		h.mu.Unlock()
		obs += fmt.Sprintf(" calls=%d S[%s]", h.idfCalls, strings.Join(ls, ","))
	}
	h.emit(caseTok, obs+h.c17mLogText())
	h.stats["op_restore"]++
}

func (h *c17Run) opRestoreReader(k int, sc c17xScript) {
	if h.dead {
		return
	}
	if k < 0 || k >= len(h.files) {
		h.emit(sc.tok(k), "nofile")
		return
	}
	sc.length = len(h.files[k]) // a replayed (shrunk) history may produce a file of another size
	caseTok := sc.tok(k)
	rd, cleanup, err := h.c17xPresent(h.files[k], sc)
	if err != nil {
		h.emit(caseTok, "restore harness-error:"+hxs(err.Error()))
		return
	}
	h.doRestore(caseTok, sc.failing(), func() { h.db.RestoreFromReader(rd) })
	if !h.dead {
		cleanup()
	}
	h.stats["op_restorer_"+sc.flav]++
	if sc.failing() {
		h.stats["op_restorer_failing"]++
	}
	if sc.eofd {
		h.stats["op_restorer_eof_with_data"]++
	}
}

func (h *c17Run) genRestore(r *rng, k int) {
	if k < 0 { // the snapshot that should have produced the file failed
		k = 0
	}
	if k < len(h.files) && r.chance(55) {
		if r.chance(30) {
			h.genRestoreCb(r, k) // the reader asks the database for its metadata while it streams (c17_meta.go)
			return
		}
		h.opRestoreReader(k, c17xGenScript(r, len(h.files[k])))
		return
	}
	h.opRestore(k)
}

func c17xParseScript(t *c17Toks) (int, c17xScript) {
	k := t.int()
	sc := c17xScript{flav: t.next(), length: t.int(), failAt: -1}
	sc.eofd = t.int() == 1
	if fa := t.next(); fa != "-" {
		sc.failAt, _ = strconv.Atoi(fa)
	}
	sc.failWd = t.int() == 1
	sc.rest = t.int()
	for i, n := 0, t.int(); i < n; i++ {
		sc.pre = append(sc.pre, t.int())
	}
	return k, sc
}
