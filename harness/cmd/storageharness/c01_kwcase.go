package main

import (
	"hash/fnv"
	"strconv"
	"strings"
)

// C01 - the case spelling of keywords and word operators (s9-c01).
//
// The lexer of ZitiQL is case insensitive per LETTER (fragment N : [nN] ...): `Not in`, `nOT bEtWeEn`, `ANYOF(..)`,
// `Sort BY x dEsC`, `LIMIT None`, `TRUE`, `Null`, `datetime(2020-01-01t00:00:00z)` are the same tokens as their
// lower-case spellings, so the entities a filter selects must not depend on the spelling.  A style decides how the
// printers of c01_term.go / c01_strategy.go spell every keyword OCCURRENCE; the term - what the model reads - does not
// change, therefore the expected answer is the same by construction.  The literal `datetime(` is the one keyword the
// grammar spells in lower case only (its T and Z are free).
//
// Style names (the trailing token `kc:<style>` of a Q / T line; no token = the canonical spelling every line had before):
//
//	lo | up | ti      every keyword lower / UPPER / Title (first letter of the token)
//	b<hex>            letter j of every keyword token is upper iff bit (j mod 16) of the mask is set (`not in` is ONE
//	                  token of five letters, as for the lexer)
//	x<n>              per occurrence: lower / UPPER / Title / a random mask, and the blank inside `not <op>` a blank, a
//	                  tab or (where the grammar has WS+) several - chosen by a hash of (n, keyword, local signature of
//	                  the node: kind, operator, symbol), so that a sub-filter keeps its spelling when the shrinker of
//	                  checks/c01.py cuts it out of its context
type c01KwCaseStyle struct {
	name string
	kind byte // l u t b x
	mask uint64
	seed uint64
}

// the style in force while a text is printed (nil = canonical); set by runFilter / runStrategy / --render only
var c01KwCur *c01KwCaseStyle

func c01KwParseStyle(name string) *c01KwCaseStyle {
	switch {
	case name == "" || name == "-":
		return nil
	case name == "lo":
		return &c01KwCaseStyle{name: name, kind: 'l'}
	case name == "up":
		return &c01KwCaseStyle{name: name, kind: 'u'}
	case name == "ti":
		return &c01KwCaseStyle{name: name, kind: 't'}
	case name[0] == 'b':
		m, err := strconv.ParseUint(name[1:], 16, 64)
		if err != nil {
			panic("bad keyword-case style " + name)
		}
		return &c01KwCaseStyle{name: name, kind: 'b', mask: m}
	case name[0] == 'x':
		n, err := strconv.ParseUint(name[1:], 10, 64)
		if err != nil {
			panic("bad keyword-case style " + name)
		}
		return &c01KwCaseStyle{name: name, kind: 'x', seed: n}
	}
	panic("bad keyword-case style " + name)
}

func c01KwHash(parts ...string) uint64 {
	h := fnv.New64a()
	for _, p := range parts {
		h.Write([]byte(p))
		h.Write([]byte{0})
	}
	v := h.Sum64()
	v ^= v >> 29 // fnv's low bits of short inputs are weak
	v *= 0xbf58476d1ce4e5b9
	v ^= v >> 32
	return v
}

func c01KwIsLetter(c byte) bool { return (c >= 'a' && c <= 'z') || (c >= 'A' && c <= 'Z') }

func c01KwMask(word string, mask uint64) string {
	b := []byte(strings.ToLower(word))
	j := 0
	for i, c := range b {
		if !c01KwIsLetter(c) {
			continue
		}
		if mask>>(uint(j)%16)&1 == 1 {
			b[i] = c - 'a' + 'A'
		}
		j++
	}
	return string(b)
}

func c01KwTitle(word string) string {
	b := []byte(strings.ToLower(word))
	for i, c := range b {
		if c01KwIsLetter(c) {
			b[i] = c - 'a' + 'A'
			break
		}
	}
	return string(b)
}

// c01Kw: the spelling of one keyword occurrence (word = its canonical spelling, sig = local signature of the node)
func c01Kw(word, sig string) string {
	st := c01KwCur
	if st == nil {
		return word
	}
	switch st.kind {
	case 'l':
		return strings.ToLower(word)
	case 'u':
		return strings.ToUpper(word)
	case 't':
		return c01KwTitle(word)
	case 'b':
		return c01KwMask(word, st.mask)
	}
	h := c01KwHash(st.name, word, sig)
	var out string
	switch h % 4 {
	case 0:
		out = strings.ToLower(word)
	case 1:
		out = strings.ToUpper(word)
	case 2:
		out = c01KwTitle(word)
	default:
		out = c01KwMask(word, h>>8)
	}
	// the white space inside a negated word operator belongs to the token:  IN: (N O T WS)? I N  (exactly one),
	// BETWEEN / CONTAINS / ICONTAINS: (N O T WS+)? ...
	if i := strings.IndexByte(out, ' '); i >= 0 && strings.EqualFold(out[:i], "not") {
		seps := []string{" ", " ", "\t", "  ", " \t", "\n"}
		if strings.EqualFold(out[i+1:], "in") {
			seps = []string{" ", " ", "\t", "\n"}
		}
		out = out[:i] + seps[(h>>40)%uint64(len(seps))] + out[i+1:]
	}
	return out
}

// the local signature of a node: what stays when the shrinker replaces the nodes around it or below it
func (f *c01Filter) kwSig() string {
	s := f.k + "/" + f.op + "/" + f.name
	if f.lhs != nil {
		s += "/" + f.lhs.k + "/" + f.lhs.name
	}
	return s
}

// c01KwSortClause: the directions of a sort clause (`name DESC, id`) in the style in force; field names are
// identifiers and keep their spelling
func c01KwSortClause(clause string) string {
	if c01KwCur == nil || clause == "" {
		return clause
	}
	parts := strings.Split(clause, ",")
	for i, p := range parts {
		fl := strings.Fields(p)
		if len(fl) == 2 {
			fl[1] = c01Kw(strings.ToLower(fl[1]), "sort/"+fl[0])
		}
		parts[i] = strings.Join(fl, " ")
	}
	return strings.Join(parts, ", ")
}

// c01KwPick: the style of a generated line - canonical for about 70 %, otherwise a function of (salt, term): the share
// does not draw from the generators, so the sequences of datasets and filters are the ones they were before
func c01KwPick(salt int64, term string) *c01KwCaseStyle {
	h := c01KwHash("pick", strconv.FormatInt(salt, 10), term)
	if h%100 >= 30 {
		return nil
	}
	k := (h >> 8) % 100
	switch {
	case k < 12:
		return c01KwParseStyle("up")
	case k < 20:
		return c01KwParseStyle("lo")
	case k < 32:
		return c01KwParseStyle("ti")
	case k < 55:
		return c01KwParseStyle("b" + strconv.FormatUint((h>>20)&0xffff, 16))
	default:
		return c01KwParseStyle("x" + strconv.FormatUint((h>>20)%1000, 10))
	}
}

func c01KwToken(st *c01KwCaseStyle) string {
	if st == nil {
		return ""
	}
	return " kc:" + st.name
}

// the style token of a replayed line (last token `kc:<style>`), nil when there is none
func c01KwOfTokens(toks []string) *c01KwCaseStyle {
	if n := len(toks); n > 0 && strings.HasPrefix(toks[n-1], "kc:") {
		return c01KwParseStyle(toks[n-1][3:])
	}
	return nil
}

// runFilterStyled: one Q line whose text is printed in the given style
func (r *c01Runner) runFilterStyled(store int, f *c01Filter, st *c01KwCaseStyle) {
	r.kwForce, r.kwForced = st, true
	r.runFilter(store, f)
	r.kwForced = false
}

func (r *c01Runner) runStrategyStyled(store int, top *c01Filter, strat c01Strat, st *c01KwCaseStyle) {
	r.kwForce, r.kwForced = st, true
	r.runStrategy(store, top, strat)
	r.kwForced = false
}

func (r *c01Runner) kwStyleFor(term string) *c01KwCaseStyle {
	if r.kwForced {
		return r.kwForce
	}
	if r.kwOff {
		return nil
	}
	return c01KwPick(r.kwSalt, term)
}

// c01KwSweepStyles: every uniform style, every spelling of the first five letters of a keyword token (all 8 of
// `not`, `and`, all 32 of `not in`, `count`, `false`, ...), masks reaching the later letters, per-occurrence styles
func c01KwSweepStyles(thorough bool) []*c01KwCaseStyle {
	names := []string{"lo", "up", "ti"}
	for m := 1; m < 32; m++ {
		names = append(names, "b"+strconv.FormatInt(int64(m), 16))
	}
	for _, m := range []uint64{0x20, 0x40, 0x80, 0x100, 0x200, 0x400, 0x800, 0xfe0, 0xaaa, 0x555, 0xff8, 0x7, 0xfffe, 0x333, 0xccc, 0x924} {
		names = append(names, "b"+strconv.FormatUint(m, 16))
	}
	nx := 10
	if thorough {
		nx = 60
	}
	for i := 0; i < nx; i++ {
		names = append(names, "x"+strconv.Itoa(2000+i))
	}
	out := []*c01KwCaseStyle{}
	for _, n := range names {
		out = append(out, c01KwParseStyle(n))
	}
	return out
}

// c01SweepKwCase: bounded-exhaustive over (every keyword / word operator of the grammar in every position it can
// take) x (spellings), on the sweep dataset through the people store: each filter selects some and omits some
// entities, so a keyword read as another one (a negation lost, `and` for `or`, TRUE for false, a direction or a
// `none` not recognised) changes the answer
func c01SweepKwCase(r *c01Runner, thorough bool, dotted bool) int {
	if err := r.loadDataset(c01SweepDataset()); err != nil {
		panic(err)
	}
	sym := func(n string) *c01Lhs { return &c01Lhs{k: "sym", name: n} }
	str := func(s string) *c01Lit { return &c01Lit{k: 'S', s: s} }
	num := func(i int64) *c01Lit { return &c01Lit{k: 'I', i: i} }
	q := func(f *c01Filter) *c01Filter { return &c01Filter{k: "q", a: f} }
	one, two := int64(1), int64(2)
	none := int64(-1)
	d0, d1 := &c01Lit{k: 'D', sec: 0, ns: 0}, &c01Lit{k: 'D', sec: 1600000001, ns: 0, zone: 1}
	var filters []*c01Filter
	add := func(f *c01Filter) { filters = append(filters, f) }
	// the word operators, positive and negated, over a symbol and inside both set functions
	strLhs := []*c01Lhs{sym("name"), {k: "any", name: "strs"}, {k: "all", name: "strs"}}
	if dotted {
		strLhs = append(strLhs, sym("place.name"), &c01Lhs{k: "any", name: "places.name"})
	}
	for _, l := range strLhs {
		for _, neg := range []bool{false, true} {
			add(&c01Filter{k: "in", lhs: l, neg: neg, arrK: "AS", arr: []*c01Lit{str("ab"), str("5")}})
		}
		for _, op := range c01StrOps {
			add(&c01Filter{k: "bin", lhs: l, op: op, lit: str("A")})
		}
	}
	for _, l := range []*c01Lhs{sym("age"), {k: "any", name: "nums"}, {k: "all", name: "nums"}, {k: "cnt", name: "strs"}} {
		for _, neg := range []bool{false, true} {
			add(&c01Filter{k: "in", lhs: l, neg: neg, arrK: "AN", arr: []*c01Lit{num(5), num(2)}})
			add(&c01Filter{k: "btw", lhs: l, neg: neg, lo: num(1), hi: num(6)})
		}
	}
	for _, neg := range []bool{false, true} {
		add(&c01Filter{k: "btw", lhs: sym("born"), neg: neg, lo: d0, hi: d1})
		add(&c01Filter{k: "in", lhs: sym("born"), neg: neg, arrK: "AD", arr: []*c01Lit{{k: 'D', sec: 1600000000, ns: 0, zone: 2}, d0}})
	}
	add(&c01Filter{k: "bin", lhs: sym("born"), op: "gt", lit: d0})
	// constants, null tests, boolean symbols
	for _, b := range []bool{true, false} {
		add(&c01Filter{k: "bc", b: b})
		add(&c01Filter{k: "bin", lhs: sym("flag"), op: "eq", lit: &c01Lit{k: 'B', b: b}})
		add(&c01Filter{k: "bin", lhs: sym("flag"), op: "neq", lit: &c01Lit{k: 'B', b: b}})
	}
	add(&c01Filter{k: "bin", lhs: sym("name"), op: "eq", lit: &c01Lit{k: 'N'}})
	add(&c01Filter{k: "bin", lhs: sym("name"), op: "neq", lit: &c01Lit{k: 'N'}})
	// not / and / or
	nameAb := &c01Filter{k: "bin", lhs: sym("name"), op: "eq", lit: str("ab")}
	age5 := &c01Filter{k: "bin", lhs: sym("age"), op: "gte", lit: num(5)}
	add(&c01Filter{k: "not", a: nameAb})
	add(&c01Filter{k: "not", a: &c01Filter{k: "bs", name: "flag"}})
	add(&c01Filter{k: "and", a: age5, c: &c01Filter{k: "bs", name: "flag"}})
	add(&c01Filter{k: "or", a: nameAb, c: age5})
	add(&c01Filter{k: "or", a: &c01Filter{k: "and", a: age5, c: &c01Filter{k: "not", a: nameAb}}, c: &c01Filter{k: "bin", lhs: sym("name"), op: "eq", lit: &c01Lit{k: 'N'}}})
	add(&c01Filter{k: "and", a: &c01Filter{k: "btw", lhs: sym("age"), neg: true, lo: num(1), hi: num(6)}, c: &c01Filter{k: "not", a: &c01Filter{k: "in", lhs: sym("name"), neg: true, arrK: "AS", arr: []*c01Lit{str("5")}}}})
	// set functions and sub-queries
	add(&c01Filter{k: "empty", name: "strs"})
	add(&c01Filter{k: "not", a: &c01Filter{k: "empty", name: "places"}})
	add(&c01Filter{k: "bin", lhs: &c01Lhs{k: "cnt", name: "places"}, op: "gt", lit: num(1)})
	add(&c01Filter{k: "bin", lhs: &c01Lhs{k: "any", name: "strs"}, op: "eq", lit: str("ab")})
	add(&c01Filter{k: "bin", lhs: &c01Lhs{k: "all", name: "strs"}, op: "neq", lit: str("b")})
	add(&c01Filter{k: "bin", lhs: &c01Lhs{k: "cntq", name: "places", sub: q(&c01Filter{k: "bin", lhs: sym("name"), op: "neq", lit: &c01Lit{k: 'N'}})}, op: "gte", lit: num(1)})
	add(&c01Filter{k: "bin", lhs: &c01Lhs{k: "cntq", name: "friends", sub: &c01Filter{k: "q", a: &c01Filter{k: "bc", b: true}, skip: &one, limit: &none}}, op: "eq", lit: num(1)})
	add(&c01Filter{k: "bin", lhs: &c01Lhs{k: "cntq", name: "friends", sub: &c01Filter{k: "q", a: &c01Filter{k: "bc", b: true}, limit: &one}}, op: "eq", lit: num(1)})
	add(&c01Filter{k: "emptyq", name: "places", sub: q(&c01Filter{k: "bin", lhs: sym("name"), op: "ncontains", lit: str("a")})})
	add(&c01Filter{k: "emptyq", name: "friends", sub: &c01Filter{k: "q", a: &c01Filter{k: "bin", lhs: sym("name"), op: "neq", lit: &c01Lit{k: 'N'}}, skip: &one}})

	styles := c01KwSweepStyles(thorough)
	n := 0
	for _, f := range filters {
		for _, st := range styles {
			r.runFilterStyled(0, q(f), st)
			n++
		}
	}
	// the clauses: skip / limit / limit none on Q lines (id scan), sort by / asc / desc through the strategies
	pagings := [][2]*int64{{&one, nil}, {nil, &two}, {&one, &two}, {nil, &none}, {&two, &none}}
	for pi, pg := range pagings {
		for si, st := range styles {
			f := []*c01Filter{nameAb, {k: "bc", b: true}, {k: "bin", lhs: sym("name"), op: "neq", lit: &c01Lit{k: 'N'}}, {k: "bc", b: true, absent: true}}[(pi+si)%4]
			r.runFilterStyled(0, &c01Filter{k: "q", a: f, skip: pg[0], limit: pg[1]}, st)
			n++
		}
	}
	sorts := []string{"id desc", "id asc", "name desc", "name asc, id desc", "age desc, name", "born, flag desc, id asc"}
	for ci, sc := range sorts {
		for si, st := range styles {
			f := []*c01Filter{{k: "bc", b: true}, {k: "bin", lhs: sym("name"), op: "neq", lit: &c01Lit{k: 'N'}}, {k: "bc", b: true, absent: true},
				{k: "in", lhs: sym("name"), neg: true, arrK: "AS", arr: []*c01Lit{str("ab")}}}[(ci+si)%4]
			pg := pagings[(ci+si)%len(pagings)]
			top := &c01Filter{k: "q", a: f}
			if (ci+si)%3 != 0 {
				top.skip, top.limit = pg[0], pg[1]
			}
			r.runStrategyStyled(0, top, c01Strat{api: 'Q', sort: sc}, st)
			n++
		}
	}
	return n
}
