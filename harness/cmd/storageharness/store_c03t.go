package main

// C03: typed fields for the store-family harness entity, and wirings with unique indexes over them.
//
// A boltz unique index is keyed by the RAW value bytes symbol.Eval returns (the stored field value without its type
// byte): 8 little-endian bytes for an int64 / float64, 4 for an int32, one byte 00/01 for a bool, the 15 bytes of
// time.Time.MarshalBinary (UTC) for a datetime.  Only for a string field do these bytes coincide with the text of the
// value.  The harness entity used to have string fields only, so "index key = text of the value" was a constant of the
// harness.  sField.Typ (store.go) declares a field of another type:
//
//   - the entity still carries the value as *string, but the string holds the bytes of the STORAGE ENCODING of the value
//     (so a case line gives an int64 5 as 0500000000000000 and the store machine, whose field values are byte strings
//     and whose index key is fv_bytes = that byte string, needs no notion of a type);
//   - PersistEntity decodes it and writes it with the typed setter of the type (SetInt64, SetInt32, SetBool, SetTimeP,
//     TypedBucket.SetFloat64), FillEntity reads it back with the typed getter and re-encodes it;
//   - facts() prints a stored typed value as s<hex of the value bytes>, a stored nil as "nil" (the same tokens the
//     machine prints for FStr / FNil); a value whose stored type byte is not the declared one is printed raw<hex>, which
//     no machine fact matches;
//   - nil: a pointer field (Ptr) without a value is stored as nil (ProceedWithSet + SetNil: not indexed, refused by a
//     non-nullable index) exactly like a nil string pointer; a non-pointer typed field has no "empty" value - the
//     generators always give it one (a case that does not is a harness error and fails the operation visibly).

import (
	"encoding/binary"
	"math"
	"time"

	"github.com/openziti/storage/ast"
	"github.com/openziti/storage/boltz"
	"github.com/pkg/errors"
)

func init() {
	for _, d := range c03tWirings {
		d := d
		extraWirings[d.name] = func() *wiring { return c03tWiring(d.name) }
	}
}

// ---- encoding ------------------------------------------------------------------------------------------

func c03tNodeType(f sField) ast.NodeType {
	switch f.Typ {
	case "i64", "i32":
		return ast.NodeTypeInt64
	case "bool":
		return ast.NodeTypeBool
	case "f64":
		return ast.NodeTypeFloat64
	case "time":
		return ast.NodeTypeDatetime
	}
	return ast.NodeTypeString
}

func c03tFieldType(typ string) boltz.FieldType {
	switch typ {
	case "i64":
		return boltz.TypeInt64
	case "i32":
		return boltz.TypeInt32
	case "bool":
		return boltz.TypeBool
	case "f64":
		return boltz.TypeFloat64
	case "time":
		return boltz.TypeTime
	}
	return boltz.TypeString
}

func c03tEncI64(v int64) string {
	b := make([]byte, 8)
	binary.LittleEndian.PutUint64(b, uint64(v))
	return string(b)
}

func c03tEncI32(v int32) string {
	b := make([]byte, 4)
	binary.LittleEndian.PutUint32(b, uint32(v))
	return string(b)
}

func c03tEncF64Bits(bits uint64) string {
	b := make([]byte, 8)
	binary.LittleEndian.PutUint64(b, bits)
	return string(b)
}

func c03tEncBool(v bool) string {
	if v {
		return "\x01"
	}
	return "\x00"
}

func c03tEncTime(t time.Time) string {
	b, err := t.UTC().MarshalBinary()
	if err != nil {
		panic(err)
	}
	return string(b)
}

// c03tFieldSet persists a typed field from its storage-encoding string through the typed setter of its type
func c03tFieldSet(ctx *boltz.PersistContext, f sField, v *string) {
	if v == nil {
		if ctx.ProceedWithSet(f.Name) {
			if !f.Ptr {
				ctx.Bucket.SetError(errors.Errorf("harness: typed non-pointer field %s without a value", f.Name))
				return
			}
			ctx.Bucket.SetNil(f.Name)
		}
		return
	}
	b := []byte(*v)
	bad := func() {
		ctx.Bucket.SetError(errors.Errorf("harness: %x is not the encoding of a %s value (field %s)", b, f.Typ, f.Name))
	}
	switch f.Typ {
	case "i64":
		if len(b) != 8 {
			bad()
			return
		}
		ctx.SetInt64(f.Name, int64(binary.LittleEndian.Uint64(b)))
	case "i32":
		if len(b) != 4 {
			bad()
			return
		}
		ctx.SetInt32(f.Name, int32(binary.LittleEndian.Uint32(b)))
	case "bool":
		if len(b) != 1 || b[0] > 1 {
			bad()
			return
		}
		ctx.SetBool(f.Name, b[0] == 1)
	case "f64":
		if len(b) != 8 {
			bad()
			return
		}
		ctx.Bucket.SetFloat64(f.Name, math.Float64frombits(binary.LittleEndian.Uint64(b)), ctx.FieldChecker)
	case "time":
		var t time.Time
		if err := t.UnmarshalBinary(b); err != nil || c03tEncTime(t) != *v {
			bad()
			return
		}
		ctx.SetTimeP(f.Name, &t)
	default:
		bad()
	}
}

// c03tFieldGet reads a typed field with the typed getter of its type and re-encodes it
func c03tFieldGet(bucket *boltz.TypedBucket, f sField) *string {
	switch f.Typ {
	case "i64":
		if p := bucket.GetInt64(f.Name); p != nil {
			return sp(c03tEncI64(*p))
		}
	case "i32":
		if p := bucket.GetInt32(f.Name); p != nil {
			return sp(c03tEncI32(*p))
		}
	case "bool":
		if p := bucket.GetBool(f.Name); p != nil {
			return sp(c03tEncBool(*p))
		}
	case "f64":
		if p := bucket.GetFloat64(f.Name); p != nil {
			return sp(c03tEncF64Bits(math.Float64bits(*p)))
		}
	case "time":
		if p := bucket.GetTime(f.Name); p != nil {
			return sp(c03tEncTime(*p))
		}
	}
	return nil
}

// c03tTypedKeys: "<root store>.<field key>" / "<child store>.<field key>" -> declared type, nil when the wiring has no
// typed field (facts() of every other wiring is unchanged)
func c03tTypedKeys(w *wiring) map[string]string {
	var m map[string]string
	for _, s := range w.Stores {
		for _, f := range s.Fields {
			if f.Typ != "" {
				if m == nil {
					m = map[string]string{}
				}
				m[s.Name+"."+f.Name] = f.Typ
			}
		}
	}
	return m
}

// c03tFieldValStr is fieldValStr for a field the schema declares typed: s<hex of the value bytes> (what the store
// machine prints for the byte string it was given), nil, absent; raw<hex> when the stored type is not the declared one
func c03tFieldValStr(typed map[string]string, key string, v []byte) string {
	typ, ok := typed[key]
	if !ok {
		return fieldValStr(v)
	}
	if len(v) == 0 {
		return "absent"
	}
	switch boltz.FieldType(v[0]) {
	case boltz.TypeNil:
		return "nil"
	case c03tFieldType(typ):
		return "s" + hx(v[1:])
	}
	return "raw" + hx(v)
}

// ---- value universes: a handful of values per type, at the boundaries of the type -----------------------------------

var c03tUniverses = map[string][]string{
	// the last two of i64 / i32: a number and the number whose raw bytes are the decimal text of the first
	"i64": {c03tEncI64(0), c03tEncI64(1), c03tEncI64(-1), c03tEncI64(5), c03tEncI64(1 << 32),
		c03tEncI64(math.MaxInt64), c03tEncI64(math.MinInt64), c03tEncI64(50000000), c03tEncI64(0x3030303030303035)},
	"i32": {c03tEncI32(0), c03tEncI32(1), c03tEncI32(-1), c03tEncI32(65536),
		c03tEncI32(math.MaxInt32), c03tEncI32(math.MinInt32), c03tEncI32(1000), c03tEncI32(0x30303031)},
	"bool": {c03tEncBool(false), c03tEncBool(true)},
	"f64": {c03tEncF64Bits(math.Float64bits(0)), c03tEncF64Bits(1 << 63) /* -0 */, c03tEncF64Bits(math.Float64bits(1.5)),
		c03tEncF64Bits(math.Float64bits(-1.5)), c03tEncF64Bits(math.Float64bits(math.MaxFloat64)),
		c03tEncF64Bits(math.Float64bits(math.SmallestNonzeroFloat64)), c03tEncF64Bits(math.Float64bits(math.Inf(1))),
		c03tEncF64Bits(math.Float64bits(math.Inf(-1))), c03tEncF64Bits(0x7FF8000000000001) /* NaN */},
	"time": {c03tEncTime(time.Time{}), c03tEncTime(time.Unix(0, 0)), c03tEncTime(time.Unix(0, 1)),
		c03tEncTime(time.Date(2024, 2, 29, 12, 0, 0, 0, time.UTC)), c03tEncTime(time.Date(2024, 2, 29, 12, 0, 0, 1, time.UTC)),
		c03tEncTime(time.Date(1969, 12, 31, 23, 59, 59, 999999999, time.UTC)),
		c03tEncTime(time.Date(9999, 12, 31, 23, 59, 59, 999999999, time.UTC)),
		c03tEncTime(time.Date(20000, 1, 1, 0, 0, 0, 0, time.UTC))}, // no RFC 3339 text
}

// c03tGenFieldValue (hook of histGen.fieldsValue): a random value of the field's type, nil now and then for a pointer
func c03tGenFieldValue(g *histGen, op *hOp, f sField) {
	if f.Ptr && g.r.chance(25) {
		return
	}
	u := c03tUniverses[f.Typ]
	op.F[f.Name] = sp(u[g.r.intn(len(u))])
}

// c03tFieldOf finds the declaration of a field by "<store>.<field>"
func c03tFieldOf(w *wiring, store, field string) (sField, bool) {
	if s := w.store(store); s != nil {
		for _, f := range s.Fields {
			if f.Name == field {
				return f, true
			}
		}
	}
	return sField{}, false
}

// c03tNormOp makes an operation well-typed: every typed field of the store family the operation addresses carries a
// valid encoding of its type or, for a pointer field, nothing.  (The warm generator writes "" / no value into a unique
// field on purpose; for a typed field "no value" only exists for pointers.)
func c03tNormOp(w *wiring, op *hOp) {
	if op.F == nil || (op.Kind != "C" && op.Kind != "UP") {
		return
	}
	fields, _ := w.allFields(op.Store)
	if s := w.store(op.Store); s.Parent == "" {
		for _, c := range w.Stores {
			if c.Parent == s.Name {
				fields = append(fields, c.Fields...)
			}
		}
	}
	for _, f := range fields {
		if f.Typ == "" {
			continue
		}
		u := c03tUniverses[f.Typ]
		v := op.F[f.Name]
		ok := false
		if v != nil {
			for _, x := range u {
				ok = ok || x == *v
			}
		}
		if ok {
			continue
		}
		if f.Ptr {
			delete(op.F, f.Name)
		} else {
			op.F[f.Name] = sp(u[0])
		}
	}
}

// ---- wirings ---------------------------------------------------------------------------------------------------
//
//	led : acc   serial int64 (unique, not nullable) | slot *int32 (nullable unique, symbol name != key) |
//	            opened *time (nullable unique) | memo *string | set index topics
//	      sav   child store of acc: rate *float64 (nullable unique)
//	      flag  on bool (unique, not nullable: at most two entities) | why *string
//	sen : dev   stamp time, weight float64, port int32 (all unique, not nullable) | hub *string fk index -> hub.devs
//	      hub   code *int64 (nullable unique, symbol name != key) | live *bool (nullable unique) | title string (unique) |
//	            set index kinds
//	      devx  extended child store of dev: rank int64 (unique, not nullable)
//
// Examples/C03Wirings.v holds the two schemas as the store machine sees them (typ_led_schema, typ_sen_schema) and
// checks wf_unique_b / wf_cunique_b / wf_setidx_b for every index.

type c03tDecl struct {
	name  string
	shape string
	depth int
	slack int
}

var c03tWirings = []c03tDecl{
	{"c03typL1", "led", 1, 0},
	{"c03typS2", "sen", 2, 0},
	{"c03typL3s", "led", 3, 2},
	{"c03typS1", "sen", 1, 0},
}

func c03tWiring(name string) *wiring {
	for _, d := range c03tWirings {
		if d.name != name {
			continue
		}
		var w *wiring
		switch d.shape {
		case "led":
			w = &wiring{Stores: []*sStore{
				{Name: "acc", Fields: []sField{{Name: "serial", Typ: "i64"}, {Name: "slot", Ptr: true, Sym: "slotSym", Typ: "i32"},
					{Name: "opened", Ptr: true, Typ: "time"}, {Name: "memo", Ptr: true}}, Sets: []string{"topics"}},
				{Name: "sav", Parent: "acc", Fields: []sField{{Name: "rate", Ptr: true, Typ: "f64"}}},
				{Name: "flag", Fields: []sField{{Name: "on", Typ: "bool"}, {Name: "why", Ptr: true}}},
			}, Script: []wiringDecl{
				{Kind: "unique", Store: "acc", Field: "serial"},
				{Kind: "setidx", Store: "acc", Field: "topics"},
				{Kind: "unique", Store: "acc", Field: "slot", Nullable: true},
				{Kind: "unique", Store: "acc", Field: "opened", Nullable: true},
				{Kind: "unique", Store: "sav", Field: "rate", Nullable: true},
				{Kind: "unique", Store: "flag", Field: "on"},
			}}
		case "sen":
			w = &wiring{Stores: []*sStore{
				{Name: "dev", Fields: []sField{{Name: "stamp", Typ: "time"}, {Name: "weight", Typ: "f64"}, {Name: "port", Typ: "i32"},
					{Name: "hub", Ptr: true}}},
				{Name: "hub", Fields: []sField{{Name: "code", Ptr: true, Sym: "codeSym", Typ: "i64"}, {Name: "live", Ptr: true, Typ: "bool"},
					{Name: "title"}}, Sets: []string{"kinds"}},
				{Name: "devx", Parent: "dev", Ext: true, Fields: []sField{{Name: "rank", Typ: "i64"}}},
			}, Script: []wiringDecl{
				{Kind: "unique", Store: "dev", Field: "stamp"},
				{Kind: "unique", Store: "dev", Field: "weight"},
				{Kind: "fkindex", Store: "dev", Field: "hub", Target: "hub", Back: "devs", Nullable: true},
				{Kind: "unique", Store: "dev", Field: "port"},
				{Kind: "unique", Store: "hub", Field: "code", Nullable: true},
				{Kind: "setidx", Store: "hub", Field: "kinds"},
				{Kind: "unique", Store: "hub", Field: "live", Nullable: true},
				{Kind: "unique", Store: "hub", Field: "title"},
				{Kind: "unique", Store: "devx", Field: "rank"},
			}}
		default:
			return nil
		}
		w.Name, w.Depth, w.Slack = d.name, d.depth, d.slack
		return w
	}
	return nil
}

// ---- hand-written histories (corpus/store/c03.txt) -------------------------------------------------------------------
//
// "storageharness store_c03t_corpus" prints the case lines of the legal hand-over histories below: a typed unique value
// is changed by a field-restricted and by a full update, the given-up value is taken by another entity, the holder is
// deleted and the value taken again - through root and child stores, for every type, nullable and not.

func init() { commands["store_c03t_corpus"] = runC03tCorpus }

func runC03tCorpus(o *opts) error {
	i64, i32, f64 := c03tEncI64, c03tEncI32, func(v float64) string { return c03tEncF64Bits(math.Float64bits(v)) }
	tm := func(sec, nsec int64) string { return c03tEncTime(time.Unix(sec, nsec)) }
	F := func(kv ...string) map[string]*string {
		m := map[string]*string{}
		for k := 0; k+1 < len(kv); k += 2 {
			m[kv[k]] = sp(kv[k+1])
		}
		return m
	}
	one := func(op hOp) hTx {
		if op.S == nil {
			op.S = map[string][]string{}
		}
		if op.F == nil {
			op.F = map[string]*string{}
		}
		return hTx{Ops: []hOp{op}}
	}
	emit := func(w *wiring, txs []hTx) {
		var sb []byte
		sb = append(sb, w.text()...)
		for k := range txs {
			sb = append(sb, ' ')
			sb = append(sb, w.txText(&txs[k])...)
		}
		println(string(sb))
	}
	// one typed unique value per entity, everything else nil
	wl := wiringByName("c03typL1")
	wl.derive()
	emit(wl, []hTx{
		one(hOp{Kind: "C", Store: "acc", Id: "a", F: F("serial", i64(5))}),
		one(hOp{Kind: "UP", Store: "acc", Id: "a", F: F("serial", i64(1<<32)), HasChk: true, Checker: []string{"serial"}}),
		one(hOp{Kind: "C", Store: "acc", Id: "b", F: F("serial", i64(5))}),
		one(hOp{Kind: "D", Store: "acc", Id: "a"}),
		one(hOp{Kind: "UP", Store: "acc", Id: "b", F: F("serial", i64(1<<32))}),
		one(hOp{Kind: "C", Store: "acc", Id: "a", F: F("serial", i64(5), "opened", tm(0, 0))}),
		one(hOp{Kind: "UP", Store: "acc", Id: "a", F: F("serial", i64(5), "opened", tm(0, 1)), HasChk: true, Checker: []string{"opened"}}),
		one(hOp{Kind: "UP", Store: "acc", Id: "b", F: F("serial", i64(1<<32), "opened", tm(0, 0)), HasChk: true, Checker: []string{"opened"}}),
	})
	ws := wiringByName("c03typS1")
	ws.derive()
	emit(ws, []hTx{
		one(hOp{Kind: "C", Store: "hub", Id: "h", F: F("code", i64(5), "title", "t")}),
		one(hOp{Kind: "UP", Store: "hub", Id: "h", F: F("code", i64(0), "title", "t"), HasChk: true, Checker: []string{"code"}}),
		one(hOp{Kind: "C", Store: "hub", Id: "g", F: F("code", i64(5), "title", "u")}),
		one(hOp{Kind: "UP", Store: "hub", Id: "g", F: F("live", c03tEncBool(true), "title", "u"), HasChk: true, Checker: []string{"live"}}),
		one(hOp{Kind: "UP", Store: "hub", Id: "g", F: F("live", c03tEncBool(false), "title", "u"), HasChk: true, Checker: []string{"live"}}),
		one(hOp{Kind: "UP", Store: "hub", Id: "h", F: F("live", c03tEncBool(true), "title", "t"), HasChk: true, Checker: []string{"live"}}),
		one(hOp{Kind: "D", Store: "hub", Id: "g"}),
		one(hOp{Kind: "UP", Store: "hub", Id: "h", F: F("code", i64(5), "live", c03tEncBool(false), "title", "t")}),
	})
	for _, name := range []string{"c03typL1", "c03typL3s"} {
		w := wiringByName(name)
		w.derive()
		txs := []hTx{
			one(hOp{Kind: "C", Store: "acc", Id: "a", F: F("serial", i64(5), "slot", i32(1000), "opened", tm(0, 0)), S: map[string][]string{"topics": {"t1"}}}),
			one(hOp{Kind: "UP", Store: "acc", Id: "a", F: F("serial", i64(1<<32)), HasChk: true, Checker: []string{"serial"}}),
			one(hOp{Kind: "C", Store: "acc", Id: "b", F: F("serial", i64(5))}),
			one(hOp{Kind: "UP", Store: "acc", Id: "a", F: F("serial", i64(1<<32), "slot", i32(65536), "opened", tm(0, 1), "memo", "m"), S: map[string][]string{"topics": {"t1"}}}),
			one(hOp{Kind: "C", Store: "sav", Id: "c", F: F("serial", i64(0), "slot", i32(1000), "opened", tm(0, 0), "rate", f64(1.5))}),
			one(hOp{Kind: "UP", Store: "sav", Id: "c", F: F("serial", i64(0), "rate", c03tEncF64Bits(1<<63)), HasChk: true, Checker: []string{"rate"}}),
			one(hOp{Kind: "UP", Store: "acc", Id: "b", F: F("serial", i64(5), "rate", f64(1.5)), HasChk: true, Checker: []string{"rate"}}),
			one(hOp{Kind: "D", Store: "acc", Id: "a"}),
			one(hOp{Kind: "UP", Store: "acc", Id: "b", F: F("serial", i64(1<<32), "slot", i32(65536), "opened", tm(0, 1)), HasChk: true, Checker: []string{"serial", "slot", "opened"}}),
			one(hOp{Kind: "C", Store: "flag", Id: "f", F: F("on", c03tEncBool(false))}),
			one(hOp{Kind: "UP", Store: "flag", Id: "f", F: F("on", c03tEncBool(true)), HasChk: true, Checker: []string{"on"}}),
			one(hOp{Kind: "C", Store: "flag", Id: "g", F: F("on", c03tEncBool(false))}),
			one(hOp{Kind: "D", Store: "flag", Id: "f"}),
			one(hOp{Kind: "UP", Store: "flag", Id: "g", F: F("on", c03tEncBool(true), "why", "w")}),
		}
		emit(w, txs)
	}
	for _, name := range []string{"c03typS2", "c03typS1"} {
		w := wiringByName(name)
		w.derive()
		t1, t2, t3 := c03tEncTime(time.Date(2024, 2, 29, 12, 0, 0, 0, time.UTC)), c03tEncTime(time.Date(2024, 2, 29, 12, 0, 0, 1, time.UTC)), c03tEncTime(time.Date(20000, 1, 1, 0, 0, 0, 0, time.UTC))
		txs := []hTx{
			one(hOp{Kind: "C", Store: "hub", Id: "h", F: F("code", i64(5), "live", c03tEncBool(true), "title", "t"), S: map[string][]string{"kinds": {"k1"}}}),
			one(hOp{Kind: "C", Store: "devx", Id: "d", F: F("stamp", t1, "weight", f64(1.5), "port", i32(1000), "hub", "h", "rank", i64(1))}),
			one(hOp{Kind: "UP", Store: "devx", Id: "d", F: F("stamp", t1, "weight", f64(1.5), "port", i32(1000), "rank", i64(-1)), HasChk: true, Checker: []string{"rank"}}),
			one(hOp{Kind: "C", Store: "devx", Id: "e", F: F("stamp", t2, "weight", f64(-1.5), "port", i32(65536), "rank", i64(1))}),
			one(hOp{Kind: "UP", Store: "dev", Id: "d", F: F("stamp", t3, "weight", f64(0), "port", i32(1), "hub", "h", "rank", i64(math.MinInt64))}),
			one(hOp{Kind: "UP", Store: "dev", Id: "e", F: F("stamp", t1, "weight", f64(1.5), "port", i32(1000), "rank", i64(-1))}),
			one(hOp{Kind: "UP", Store: "hub", Id: "h", F: F("live", c03tEncBool(false), "title", "t"), HasChk: true, Checker: []string{"code", "live"}}),
			one(hOp{Kind: "C", Store: "hub", Id: "g", F: F("code", i64(5), "live", c03tEncBool(true), "title", "u")}),
			one(hOp{Kind: "D", Store: "dev", Id: "d"}),
			one(hOp{Kind: "C", Store: "dev", Id: "f", F: F("stamp", t3, "weight", f64(0), "port", i32(1), "rank", i64(0))}),
			one(hOp{Kind: "D", Store: "hub", Id: "g"}),
			one(hOp{Kind: "UP", Store: "hub", Id: "h", F: F("code", i64(5), "live", c03tEncBool(true), "title", "u")}),
		}
		emit(w, txs)
	}
	return nil
}
