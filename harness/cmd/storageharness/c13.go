package main

import (
	"bufio"
	"encoding/binary"
	"fmt"
	"io"
	"math"
	"os"
	"os/exec"
	"path/filepath"
	"sort"
	"strconv"
	"strings"
	"syscall"
	"time"
	_ "time/tzdata"

	"github.com/openziti/storage/boltz"
	"github.com/sirupsen/logrus"
	"go.etcd.io/bbolt"
)

// C13 - stored values and compound keys round-trip.  Case kinds (see coq/extraction/c13_driver.ml):
//   V <hex16>                 binary.PutUvarint
//   U <hex>                   binary.Uvarint
//   K <n> <hex>{n}            EncodeStringSlice, then DecodeStringSlice of the encoding
//   D <hex>                   DecodeStringSlice on arbitrary bytes
//   N <hex>                   DecodeNext on arbitrary bytes
//   T <hex>                   GetTypeAndValue + FieldTo* on arbitrary stored bytes
//   S <dump> <nphases> phase{n} R <n> <name>{n}
//                             an entity bucket starting as <dump>; each phase is one bbolt
//                             transaction of setter calls under a field checker; the bucket is
//                             dumped (raw bytes) in a later transaction after every phase and
//                             finally every name is read with every getter
//   X ...                     persists through PersistContext over a chain of stores (c13x.go)
// U/K/D/N run in a child process with an address-space limit: a decoder that trusts a hostile
// length must not take the harness down.
func init() { commands["c13"] = runC13 }

const c13UnixToInternal int64 = 62135596800

var c13Marker = boltz.ListSizeKeyName

// ---- token stream ------------------------------------------------------------------------

type c13Toks struct {
	t []string
	p int
	// mapping tables of the case by content: equal tables are ONE Go map object, in every context and
	// every phase of the case (stores keep theirs in package level variables)
	maps map[string]map[string]string
}

// sharedMap returns the case's map object holding the content of m
func (s *c13Toks) sharedMap(m map[string]string) map[string]string {
	keys := make([]string, 0, len(m))
	for k := range m {
		keys = append(keys, k)
	}
	sort.Strings(keys)
	var sb strings.Builder
	for _, k := range keys {
		sb.WriteString(strconv.Quote(k) + ">" + strconv.Quote(m[k]) + ";")
	}
	if s.maps == nil {
		s.maps = map[string]map[string]string{}
	}
	if have, ok := s.maps[sb.String()]; ok {
		return have
	}
	s.maps[sb.String()] = m
	return m
}

func (s *c13Toks) next() string {
	if s.p >= len(s.t) {
		panic("c13: case line ended early")
	}
	v := s.t[s.p]
	s.p++
	return v
}
func (s *c13Toks) peek() string { return s.t[s.p] }
func (s *c13Toks) int() int {
	v, err := strconv.Atoi(s.next())
	if err != nil {
		panic(err)
	}
	return v
}
func (s *c13Toks) i64() int64 {
	v, err := strconv.ParseInt(s.next(), 10, 64)
	if err != nil {
		panic(err)
	}
	return v
}
func (s *c13Toks) u64() uint64 {
	v, err := strconv.ParseUint(s.next(), 16, 64)
	if err != nil {
		panic(err)
	}
	return v
}
func (s *c13Toks) bytes() []byte { return unhx(s.next()) }

var c13NamedZones = []string{"America/New_York", "Asia/Kolkata", "Australia/Lord_Howe", "Pacific/Kiritimati", "Europe/London"}

func c13Zone(tok string) *time.Location {
	switch {
	case tok == "u":
		return time.UTC
	case tok == "l":
		return time.Local
	case strings.HasPrefix(tok, "z"):
		off, err := strconv.Atoi(tok[1:])
		if err != nil {
			panic(err)
		}
		return time.FixedZone("zone"+tok[1:], off)
	case strings.HasPrefix(tok, "n"):
		idx, _ := strconv.Atoi(tok[1:])
		loc, err := time.LoadLocation(c13NamedZones[idx%len(c13NamedZones)])
		if err != nil {
			return time.FixedZone("fallback", 3600*(idx+1))
		}
		return loc
	}
	panic("bad zone " + tok)
}

// the instant (seconds since year 1, nanoseconds) in the given zone
func (s *c13Toks) time() time.Time {
	abs := s.i64()
	nsec := s.i64()
	loc := c13Zone(s.next())
	return time.Unix(abs-c13UnixToInternal, nsec).In(loc)
}

func c13Unsupported(kind int) interface{} {
	switch kind % 6 {
	case 0:
		return []string{"a"}
	case 1:
		return uint32(7)
	case 2:
		return (*string)(nil)
	case 3:
		return map[string]string{"a": "b"}
	case 4:
		return struct{}{}
	}
	return int8(1)
}

func (s *c13Toks) value() interface{} {
	switch k := s.next(); k {
	case "n":
		return nil
	case "s":
		return string(s.bytes())
	case "i":
		return int32(s.i64())
	case "l":
		return s.i64()
	case "I":
		return int(s.i64())
	case "f":
		return math.Float64frombits(s.u64())
	case "g":
		return float32(math.Float64frombits(s.u64()))
	case "b":
		return s.next() == "1"
	case "t":
		return s.time()
	case "x":
		return c13Unsupported(s.int())
	case "M":
		return map[string]interface{}(nil)
	case "A":
		return []interface{}(nil)
	case "m":
		n := s.int()
		m := make(map[string]interface{}, n)
		for i := 0; i < n; i++ {
			key := string(s.bytes())
			m[key] = s.value()
		}
		return m
	case "a":
		n := s.int()
		l := make([]interface{}, 0, n)
		for i := 0; i < n; i++ {
			l = append(l, s.value())
		}
		return l
	default:
		panic("bad value token " + k)
	}
}

// ---- rendering -----------------------------------------------------------------------------

type c13Out struct{ b strings.Builder }

func (o *c13Out) tok(s string) { o.b.WriteByte(' '); o.b.WriteString(s) }

func c13AbsSec(t time.Time) int64 { return t.Unix() + c13UnixToInternal }

func (o *c13Out) value(v interface{}) {
	switch x := v.(type) {
	case nil:
		o.tok("n")
	case string:
		o.tok("s")
		o.tok(hxs(x))
	case int32:
		o.tok("i")
		o.tok(strconv.FormatInt(int64(x), 10))
	case int64:
		o.tok("l")
		o.tok(strconv.FormatInt(x, 10))
	case float64:
		o.tok("f")
		o.tok(fmt.Sprintf("%016x", math.Float64bits(x)))
	case bool:
		o.tok("b")
		o.tok(strconv.Itoa(b2i(x)))
	case time.Time:
		o.tok("t")
		o.tok(strconv.FormatInt(c13AbsSec(x), 10))
		o.tok(strconv.Itoa(x.Nanosecond()))
	case map[string]interface{}:
		keys := make([]string, 0, len(x))
		for k := range x {
			keys = append(keys, k)
		}
		sort.Strings(keys)
		o.tok("m")
		o.tok(strconv.Itoa(len(keys)))
		for _, k := range keys {
			o.tok(hxs(k))
			o.value(x[k])
		}
	case []interface{}:
		o.tok("a")
		o.tok(strconv.Itoa(len(x)))
		for _, e := range x {
			o.value(e)
		}
	default:
		o.tok(fmt.Sprintf("?%T", v))
	}
}

func (o *c13Out) dump(b *bbolt.Bucket) {
	type ent struct {
		k, v []byte
		sub  *bbolt.Bucket
	}
	var ents []ent
	c := b.Cursor()
	for k, v := c.First(); k != nil; k, v = c.Next() {
		e := ent{k: append([]byte{}, k...)}
		if v == nil {
			if sub := b.Bucket(k); sub != nil {
				e.sub = sub
			}
		}
		if e.sub == nil {
			e.v = append([]byte{}, v...)
		}
		ents = append(ents, e)
	}
	o.tok("D")
	o.tok(strconv.Itoa(len(ents)))
	for _, e := range ents {
		o.tok(hx(e.k))
		if e.sub != nil {
			o.dump(e.sub)
		} else {
			o.tok("L")
			o.tok(hx(e.v))
		}
	}
}

func c13StrTok(p *string) string {
	if p == nil {
		return "n"
	}
	return "s:" + hxs(*p)
}

func c13SlistTok(l []string) string {
	parts := []string{strconv.Itoa(len(l))}
	for _, s := range l {
		parts = append(parts, hxs(s))
	}
	return strings.Join(parts, ":")
}

// guarded runs f; a panic becomes ok=false
func guarded(f func()) (ok bool) {
	defer func() {
		if r := recover(); r != nil {
			ok = false
		}
	}()
	f()
	return true
}

// ---- pure cases ----------------------------------------------------------------------------

func c13Pure(kind string, s *c13Toks, o *c13Out) {
	switch kind {
	case "V":
		x := s.u64()
		buf := make([]byte, binary.MaxVarintLen64)
		n := binary.PutUvarint(buf, x)
		o.tok(hx(buf[:n]))
	case "U":
		x, n := binary.Uvarint(s.bytes())
		switch {
		case n > 0:
			o.tok("ok")
			o.tok(fmt.Sprintf("%016x", x))
			o.tok(strconv.Itoa(n))
		case n == 0:
			o.tok("short")
		default:
			o.tok("over")
			o.tok(strconv.Itoa(-n))
		}
	case "K":
		n := s.int()
		var l []string
		for i := 0; i < n; i++ {
			l = append(l, string(s.bytes()))
		}
		var enc []byte
		var err error
		if !guarded(func() { enc, err = boltz.EncodeStringSlice(l) }) {
			o.tok("panic")
			return
		}
		if err != nil {
			o.tok("err")
			return
		}
		o.tok("ok")
		o.tok(hx(enc))
		c13Decode(enc, o)
	case "D":
		c13Decode(s.bytes(), o)
	case "N":
		in := s.bytes()
		var next, rest []byte
		var err error
		if !guarded(func() { next, rest, err = boltz.DecodeNext(in) }) {
			o.tok("panic")
			return
		}
		if err != nil {
			o.tok("err")
			return
		}
		o.tok("ok")
		o.tok(hx(next))
		o.tok(hx(rest))
	}
}

func c13Decode(in []byte, o *c13Out) {
	var l []string
	var err error
	if !guarded(func() { l, err = boltz.DecodeStringSlice(in) }) {
		o.tok("panic")
		return
	}
	if err != nil {
		o.tok("err")
		return
	}
	o.tok("ok")
	o.tok(strconv.Itoa(len(l)))
	for _, x := range l {
		o.tok(hxs(x))
	}
}

func c13FieldTo(bytes []byte, o *c13Out) {
	ft, v := boltz.GetTypeAndValue(bytes)
	o.tok(strconv.Itoa(int(ft)))
	o.tok(hx(v))
	var sp *string
	if guarded(func() { sp = boltz.FieldToString(ft, v) }) {
		o.tok("str=" + c13StrTok(sp))
	} else {
		o.tok("str=p")
	}
	c13TypedToks(o, func() *bool { return boltz.FieldToBool(ft, v) }, func() *int32 { return boltz.FieldToInt32(ft, v) },
		func() *int64 { return boltz.FieldToInt64(ft, v) }, func() *float64 { return boltz.FieldToFloat64(ft, v) },
		func() *time.Time { return boltz.FieldToDatetime(ft, v, "f") })
}

func c13TypedToks(o *c13Out, fb func() *bool, f32 func() *int32, f64 func() *int64, ff func() *float64, ft func() *time.Time) {
	tok := "p"
	guarded(func() {
		if p := fb(); p == nil {
			tok = "n"
		} else {
			tok = strconv.Itoa(b2i(*p))
		}
	})
	o.tok("bool=" + tok)
	tok = "p"
	guarded(func() {
		if p := f32(); p == nil {
			tok = "n"
		} else {
			tok = strconv.FormatInt(int64(*p), 10)
		}
	})
	o.tok("i32=" + tok)
	tok = "p"
	guarded(func() {
		if p := f64(); p == nil {
			tok = "n"
		} else {
			tok = strconv.FormatInt(*p, 10)
		}
	})
	o.tok("i64=" + tok)
	tok = "p"
	guarded(func() {
		if p := ff(); p == nil {
			tok = "n"
		} else {
			tok = fmt.Sprintf("%016x", math.Float64bits(*p))
		}
	})
	o.tok("f64=" + tok)
	tok = "p"
	guarded(func() {
		if p := ft(); p == nil {
			tok = "n"
		} else {
			tok = strconv.FormatInt(c13AbsSec(*p), 10) + ":" + strconv.Itoa(p.Nanosecond())
		}
	})
	o.tok("time=" + tok)
}

// ---- scenarios over a real bbolt database -----------------------------------------------------

type c13Env struct {
	db *bbolt.DB
}

var c13Root = []byte("c13")

func (e *c13Env) open(dir string) error {
	path := filepath.Join(dir, "c13.db")
	_ = os.Remove(path)
	db, err := bbolt.Open(path, 0o600, &bbolt.Options{NoSync: true, NoFreelistSync: true, Timeout: 5 * time.Second})
	if err != nil {
		return err
	}
	e.db = db
	return nil
}

func (e *c13Env) close() {
	if e.db != nil {
		path := e.db.Path()
		_ = e.db.Close()
		_ = os.Remove(path)
	}
}

func c13WriteDump(s *c13Toks, b *bbolt.Bucket) error {
	if t := s.next(); t != "D" {
		panic("expected D, got " + t)
	}
	n := s.int()
	for i := 0; i < n; i++ {
		key := s.bytes()
		if s.peek() == "L" {
			s.next()
			val := s.bytes()
			if err := b.Put(key, val); err != nil {
				return err
			}
		} else {
			sub, err := b.CreateBucket(key)
			if err != nil {
				return err
			}
			if err := c13WriteDump(s, sub); err != nil {
				return err
			}
		}
	}
	return nil
}

type c13Checker struct {
	kind     string // "*", "c", "r" (a selection in a representation of c13r.go), "o"
	repr     string
	names    []string
	mappings map[string]string // nil for "on": a nil mappings map
	inner    *c13Checker
}

func (s *c13Toks) checker() *c13Checker {
	switch k := s.next(); k {
	case "*":
		return &c13Checker{kind: "*"}
	case "c":
		n := s.int()
		c := &c13Checker{kind: "c"}
		for i := 0; i < n; i++ {
			c.names = append(c.names, string(s.bytes()))
		}
		return c
	case "r":
		c := &c13Checker{kind: "r", repr: s.next()}
		n := s.int()
		for i := 0; i < n; i++ {
			c.names = append(c.names, string(s.bytes()))
		}
		return c
	case "o":
		n := s.int()
		c := &c13Checker{kind: "o", mappings: map[string]string{}}
		for i := 0; i < n; i++ {
			from := string(s.bytes())
			to := string(s.bytes())
			if _, dup := c.mappings[from]; !dup { // the model's association list: first binding wins
				c.mappings[from] = to
			}
		}
		c.mappings = s.sharedMap(c.mappings)
		c.inner = s.checker()
		return c
	case "on":
		return &c13Checker{kind: "o", inner: s.checker()}
	default:
		panic("bad checker token " + k)
	}
}

func (c *c13Checker) build() boltz.FieldChecker {
	switch c.kind {
	case "*":
		return nil
	case "c":
		m := boltz.MapFieldChecker{}
		for _, n := range c.names {
			m[n] = struct{}{}
		}
		return m
	case "r":
		return c13rBuild(c.repr, c.names)
	default:
		inner := c.inner.build()
		if inner == nil {
			return nil // PersistContext.WithFieldOverrides leaves a nil checker alone
		}
		return boltz.NewMappedFieldChecker(inner, c.mappings)
	}
}

// buildVia gives ctx the checker the way a store and its strategies do: the base checker put into
// the context, every wrapper by ctx.WithFieldOverrides (innermost first)
func (c *c13Checker) buildVia(ctx *boltz.PersistContext) {
	if c.kind == "o" {
		c.inner.buildVia(ctx)
		ctx.WithFieldOverrides(c.mappings)
		return
	}
	ctx.FieldChecker = c.build()
}

// runOps performs the setter calls of one phase on the entity bucket; returns the GetAndSet* outputs
func c13RunOps(s *c13Toks, nops int, api string, spec *c13Checker, tb *boltz.TypedBucket) []string {
	var chk boltz.FieldChecker
	ctx := &boltz.PersistContext{Id: "e", Bucket: tb}
	if api == "c" && spec.kind == "o" {
		spec.buildVia(ctx)
		chk = ctx.FieldChecker
	} else {
		chk = spec.build()
		ctx.FieldChecker = chk
	}
	useCtx := api == "c"
	var outs []string
	for i := 0; i < nops; i++ {
		c13RunOneOp(s, useCtx, ctx, tb, chk, &outs)
	}
	return outs
}

// c13RunOneOp parses one setter call and performs it: through ctx where PersistContext has the
// method (useCtx), else on the bucket with the given checker
func c13RunOneOp(s *c13Toks, useCtx bool, ctx *boltz.PersistContext, tb *boltz.TypedBucket, chk boltz.FieldChecker, outsp *[]string) {
	outs := *outsp
	defer func() { *outsp = outs }()
	{
		kind := s.next()
		name := string(s.bytes())
		switch kind {
		case "nil":
			tb.SetNil(name)
		case "str":
			v := string(s.bytes())
			if useCtx {
				ctx.SetString(name, v)
			} else {
				tb.SetString(name, v, chk)
			}
		case "strp":
			var p *string
			if s.next() == "s" {
				v := string(s.bytes())
				p = &v
			}
			if useCtx {
				ctx.SetStringP(name, p)
			} else {
				tb.SetStringP(name, p, chk)
			}
		case "bool":
			v := s.next() == "1"
			if useCtx {
				ctx.SetBool(name, v)
			} else {
				tb.SetBool(name, v, chk)
			}
		case "i32":
			v := int32(s.i64())
			if useCtx {
				ctx.SetInt32(name, v)
			} else {
				tb.SetInt32(name, v, chk)
			}
		case "i64":
			v := s.i64()
			if useCtx {
				ctx.SetInt64(name, v)
			} else {
				tb.SetInt64(name, v, chk)
			}
		case "f64":
			tb.SetFloat64(name, math.Float64frombits(s.u64()), chk)
		case "time":
			tb.SetTime(name, s.time(), chk)
		case "timep":
			var p *time.Time
			if s.next() == "t" {
				v := s.time()
				p = &v
			}
			if useCtx {
				ctx.SetTimeP(name, p)
			} else {
				tb.SetTimeP(name, p, chk)
			}
		case "gss":
			v := string(s.bytes())
			var old *string
			var changed bool
			if useCtx {
				old, changed = ctx.GetAndSetString(name, v)
			} else {
				old, changed = tb.GetAndSetString(name, v, chk)
			}
			outs = append(outs, "gss:"+c13StrTok(old)+":"+strconv.Itoa(b2i(changed)))
		case "req":
			ctx.SetRequiredString(name, string(s.bytes()))
		case "slist", "gsl":
			n := s.int()
			var l []string
			for j := 0; j < n; j++ {
				l = append(l, string(s.bytes()))
			}
			if kind == "slist" {
				if useCtx {
					ctx.SetStringList(name, l)
				} else {
					tb.SetStringList(name, l, chk)
				}
			} else {
				var old []string
				var changed bool
				if useCtx {
					old, changed = ctx.GetAndSetStringList(name, l)
				} else {
					old, changed = tb.GetAndSetStringList(name, l, chk)
				}
				outs = append(outs, "gsl:"+c13SlistTok(old)+":"+strconv.Itoa(b2i(changed)))
			}
		case "map":
			an := s.next() == "1"
			n := s.int()
			m := make(map[string]interface{}, n)
			for j := 0; j < n; j++ {
				key := string(s.bytes())
				m[key] = s.value()
			}
			if useCtx && an {
				ctx.SetMap(name, m)
			} else {
				tb.PutMap(name, m, chk, an)
			}
		case "list":
			n := s.int()
			l := make([]interface{}, 0, n)
			for j := 0; j < n; j++ {
				l = append(l, s.value())
			}
			tb.PutList(name, l, chk)
		default:
			panic("bad op " + kind)
		}
	}
}

var errC13Phase = fmt.Errorf("phase failed")

func (e *c13Env) dumpEntity(o *c13Out) error {
	return e.db.View(func(tx *bbolt.Tx) error {
		o.dump(tx.Bucket(c13Root).Bucket([]byte("e")))
		return nil
	})
}

func (e *c13Env) scenario(s *c13Toks, o *c13Out) (ferr error) {
	// initial state, written with plain bbolt calls
	err := e.db.Update(func(tx *bbolt.Tx) error {
		if tx.Bucket(c13Root) != nil {
			if err := tx.DeleteBucket(c13Root); err != nil {
				return err
			}
		}
		root, err := tx.CreateBucket(c13Root)
		if err != nil {
			return err
		}
		ent, err := root.CreateBucket([]byte("e"))
		if err != nil {
			return err
		}
		return c13WriteDump(s, ent)
	})
	if err != nil {
		return fmt.Errorf("initial bucket: %w", err)
	}
	o.tok("|")
	o.tok("I")
	if err := e.dumpEntity(o); err != nil {
		return err
	}
	nph := s.int()
	for ph := 0; ph < nph; ph++ {
		if t := s.next(); t != "P" {
			panic("expected P, got " + t)
		}
		api := s.next()
		spec := s.checker()
		nops := s.int()
		var outs []string
		panicked := false
		startPos := s.p
		err := e.db.Update(func(tx *bbolt.Tx) error {
			root := boltz.NewTypedBucket(nil, tx.Bucket(c13Root))
			tb := root.GetBucket("e")
			if !guarded(func() { outs = c13RunOps(s, nops, api, spec, tb) }) {
				panicked = true
				return errC13Phase
			}
			if tb.HasError() {
				return errC13Phase
			}
			return nil
		})
		if panicked {
			// the remaining tokens of the phase were not consumed: skip them by re-parsing without executing
			s.p = startPos
			c13SkipOps(s, nops)
		}
		o.tok("|")
		o.tok("P")
		switch {
		case panicked:
			o.tok("panic")
		case err != nil:
			o.tok("err")
		default:
			o.tok("ok")
			for _, x := range append(outs, c13ToSliceTok(spec)...) {
				o.tok(x)
			}
			if err := e.dumpEntity(o); err != nil {
				return err
			}
		}
	}
	if t := s.next(); t != "R" {
		panic("expected R, got " + t)
	}
	nn := s.int()
	var names []string
	for i := 0; i < nn; i++ {
		names = append(names, string(s.bytes()))
	}
	defer func() {
		if ferr == nil {
			var x *string
			if len(names) > 0 {
				x = &names[0]
			}
			ferr = c13EntitySections(o, e.db, func(tx *bbolt.Tx) *boltz.TypedBucket {
				return boltz.NewTypedBucket(nil, tx.Bucket(c13Root)).GetBucket("e")
			}, x)
		}
	}()
	return e.db.View(func(tx *bbolt.Tx) error {
		root := boltz.NewTypedBucket(nil, tx.Bucket(c13Root))
		tb := root.GetBucket("e")
		for _, name := range names {
			c13ReadField(o, []string{hxs(name)}, tb, name)
		}
		o.tok("|")
		o.tok("A")
		var all map[string]interface{}
		if guarded(func() { all = root.GetMap("e") }) {
			o.value(all)
		} else {
			o.tok("x")
		}
		return nil
	})
}

// c13ReadField calls every getter on one field of the bucket; label names the field in the output
func c13ReadField(o *c13Out, label []string, tb *boltz.TypedBucket, name string) {
	lab := func() {
		for _, l := range label {
			o.tok(l)
		}
	}
	o.tok("|")
	o.tok("F")
	lab()
	var sp *string
	if guarded(func() { sp = tb.GetString(name) }) {
		o.tok("str=" + c13StrTok(sp))
	} else {
		o.tok("str=p")
	}
	c13TypedToks(o, func() *bool { return tb.GetBool(name) }, func() *int32 { return tb.GetInt32(name) },
		func() *int64 { return tb.GetInt64(name) }, func() *float64 { return tb.GetFloat64(name) },
		func() *time.Time { return tb.GetTime(name) })
	var sl []string
	if guarded(func() { sl = tb.GetStringList(name) }) {
		o.tok("sl=" + c13SlistTok(sl))
	} else {
		o.tok("sl=p")
	}
	o.tok("|")
	o.tok("L")
	lab()
	var l []interface{}
	if guarded(func() { l = tb.GetList(name) }) {
		if l == nil {
			o.tok("n")
		} else {
			o.value(l)
		}
	} else {
		o.tok("p")
	}
	o.tok("|")
	o.tok("M")
	lab()
	var m map[string]interface{}
	if guarded(func() { m = tb.GetMap(name) }) {
		o.value(m)
	} else {
		o.tok("x")
	}
	// the getters with a default / an error for a null or absent field, on fresh wrappers of the
	// same bbolt bucket (the *OrError getters latch an error on the wrapper)
	o.tok("|")
	o.tok("G")
	lab()
	fresh := func() *boltz.TypedBucket { return boltz.NewTypedBucket(tb.GetParent(), tb.Bucket) }
	tok := "p"
	guarded(func() { tok = "s:" + hxs(fresh().GetStringWithDefault(name, c13DfltString)) })
	o.tok("swd=" + tok)
	tok, etok := "p", "p"
	guarded(func() {
		w := fresh()
		v := w.GetStringOrError(name)
		tok, etok = "s:"+hxs(v), strconv.Itoa(b2i(w.HasError()))
	})
	o.tok("soe=" + tok)
	o.tok("soee=" + etok)
	tok = "p"
	guarded(func() {
		tok = strconv.Itoa(b2i(fresh().GetBoolWithDefault(name, true))) + strconv.Itoa(b2i(fresh().GetBoolWithDefault(name, false)))
	})
	o.tok("bd=" + tok)
	tok = "p"
	guarded(func() { tok = strconv.FormatInt(int64(fresh().GetInt32WithDefault(name, -4242)), 10) })
	o.tok("i32d=" + tok)
	tok = "p"
	guarded(func() { tok = strconv.FormatInt(fresh().GetInt64WithDefault(name, 424242), 10) })
	o.tok("i64d=" + tok)
	tok, etok = "p", "p"
	guarded(func() {
		w := fresh()
		v := w.GetTimeOrError(name)
		tok, etok = strconv.FormatInt(c13AbsSec(v), 10)+":"+strconv.Itoa(v.Nanosecond()), strconv.Itoa(b2i(w.HasError()))
	})
	o.tok("toe=" + tok)
	o.tok("toee=" + etok)
	tok = "p"
	guarded(func() {
		v := fresh().GetTimeOrDefault(name, c13DfltTime)
		tok = strconv.FormatInt(c13AbsSec(v), 10) + ":" + strconv.Itoa(v.Nanosecond())
	})
	o.tok("tod=" + tok)
	tok = "p"
	guarded(func() { tok = strconv.Itoa(b2i(tb.IsStringListEmpty(name))) })
	o.tok("sle=" + tok)
	tok = "p"
	guarded(func() {
		if child := tb.GetBucket(name); child == nil {
			tok = "n"
		} else {
			tok = strconv.Itoa(b2i(child.GetParent() == tb))
		}
	})
	o.tok("par=" + tok)
}

const c13DfltString = "dflt"

var c13DfltTime = time.Unix(63000000000-c13UnixToInternal, 7).UTC()

var errC13Rollback = fmt.Errorf("rollback")

// c13EntitySections: ForEachTypedBucket on the entity bucket, then TypedBucket.Copy of it into a
// scratch bucket - whole, without the keys named xname at any depth, and the whole over the
// partial copy; the scratch transaction is rolled back
func c13EntitySections(o *c13Out, db *bbolt.DB, entity func(tx *bbolt.Tx) *boltz.TypedBucket, xname *string) error {
	err := db.Update(func(tx *bbolt.Tx) error {
		src := entity(tx)
		o.tok("|")
		o.tok("B")
		var kids []string
		ok := guarded(func() {
			_ = src.ForEachTypedBucket(func(key string, child *boltz.TypedBucket) error {
				n := 0
				c := child.Cursor()
				for k, _ := c.First(); k != nil; k, _ = c.Next() {
					n++
				}
				kids = append(kids, hxs(key)+":"+strconv.Itoa(n))
				return nil
			})
		})
		if !ok {
			o.tok("panic")
		} else {
			o.tok(strconv.Itoa(len(kids)))
			for _, k := range kids {
				o.tok(k)
			}
		}
		scratchNo := 0
		newDest := func() (*boltz.TypedBucket, error) {
			scratchNo++
			b, err := tx.CreateBucket([]byte("c13copy" + strconv.Itoa(scratchNo)))
			if err != nil {
				return nil, err
			}
			return boltz.NewTypedBucket(nil, b), nil
		}
		doCopy := func(dest *boltz.TypedBucket, filter func(path []string) bool, digest bool) bool {
			np, sd := 0, 0
			var err error
			ok := guarded(func() {
				err = dest.Copy(src, func(path []string) bool {
					np++
					sd += len(path)
					return filter(path)
				})
			})
			if digest {
				o.tok(strconv.Itoa(np))
				o.tok(strconv.Itoa(sd))
			}
			switch {
			case !ok:
				o.tok("panic")
			case err != nil:
				o.tok("err")
			default:
				o.tok("ok")
				o.dump(dest.Bucket)
				return true
			}
			return false
		}
		all := func([]string) bool { return true }
		full, err := newDest()
		if err != nil {
			return err
		}
		o.tok("|")
		o.tok("C")
		doCopy(full, all, true)
		if xname != nil {
			part, err := newDest()
			if err != nil {
				return err
			}
			o.tok("|")
			o.tok("E")
			o.tok(hxs(*xname))
			okPart := doCopy(part, func(path []string) bool { return path[len(path)-1] != *xname }, true)
			o.tok("|")
			o.tok("O")
			if okPart {
				doCopy(part, all, false)
			} else {
				o.tok("skip")
			}
		}
		return errC13Rollback
	})
	if err != nil && err != errC13Rollback {
		return err
	}
	return nil
}

// c13ToSliceTok: MapFieldChecker.ToSlice of a plain map checker, as a set
func c13ToSliceTok(spec *c13Checker) []string {
	if spec.kind != "c" && !(spec.kind == "r" && c13rIsMapFieldChecker(spec.repr)) {
		return nil
	}
	l := spec.build().(boltz.MapFieldChecker).ToSlice()
	sort.Strings(l)
	return []string{"ts:" + c13SlistTok(l)}
}

// c13SkipOps advances the token stream over nops ops without running them
func c13SkipOps(s *c13Toks, nops int) {
	for i := 0; i < nops; i++ {
		kind := s.next()
		s.next() // name
		switch kind {
		case "nil":
		case "str", "bool", "i32", "i64", "f64", "gss", "req":
			s.next()
		case "strp":
			if s.next() == "s" {
				s.next()
			}
		case "time":
			s.next()
			s.next()
			s.next()
		case "timep":
			if s.next() == "t" {
				s.next()
				s.next()
				s.next()
			}
		case "slist", "gsl":
			n := s.int()
			for j := 0; j < n; j++ {
				s.next()
			}
		case "map":
			s.next()
			n := s.int()
			for j := 0; j < n; j++ {
				s.next()
				c13SkipValue(s)
			}
		case "list":
			n := s.int()
			for j := 0; j < n; j++ {
				c13SkipValue(s)
			}
		}
	}
}

func c13SkipValue(s *c13Toks) {
	switch s.next() {
	case "n", "M", "A":
	case "s", "i", "l", "I", "f", "g", "b", "x":
		s.next()
	case "t":
		s.next()
		s.next()
		s.next()
	case "m":
		n := s.int()
		for j := 0; j < n; j++ {
			s.next()
			c13SkipValue(s)
		}
	case "a":
		n := s.int()
		for j := 0; j < n; j++ {
			c13SkipValue(s)
		}
	}
}

// ---- executing case lines ---------------------------------------------------------------------

func c13IsChildKind(kind string) bool { return kind == "U" || kind == "K" || kind == "D" || kind == "N" }

// exec runs one case line in this process
func (e *c13Env) exec(line string) string {
	s := &c13Toks{t: strings.Fields(line)}
	o := &c13Out{}
	kind := s.next()
	o.b.WriteString(kind)
	switch kind {
	case "V", "U", "K", "D", "N":
		c13Pure(kind, s, o)
	case "T":
		c13FieldTo(s.bytes(), o)
	case "S":
		if err := e.scenario(s, o); err != nil {
			o.tok("harness-error:" + strings.ReplaceAll(err.Error(), " ", "_"))
		}
	case "X":
		if err := e.c13xScenario(s, o); err != nil {
			o.tok("harness-error:" + strings.ReplaceAll(err.Error(), " ", "_"))
		}
	default:
		o.tok("?")
	}
	return o.b.String()
}

// childMain: --mode child --in <cases> --res <results>; one flushed result line per case
func c13ChildMain(o *opts) error {
	// address-space limit: a hostile length must fail the allocation, not the machine
	lim := uint64(o.getInt("aslimit_mb", 6144)) << 20
	_ = syscall.Setrlimit(syscall.RLIMIT_AS, &syscall.Rlimit{Cur: lim, Max: lim})
	in, err := os.Open(o.get("in", ""))
	if err != nil {
		return err
	}
	defer in.Close()
	res, err := os.OpenFile(o.get("res", ""), os.O_APPEND|os.O_CREATE|os.O_WRONLY, 0o644)
	if err != nil {
		return err
	}
	defer res.Close()
	env := &c13Env{}
	sc := bufio.NewScanner(in)
	sc.Buffer(make([]byte, 1<<20), 1<<28)
	skip := o.getInt("skip", 0)
	for i := 0; sc.Scan(); i++ {
		if i < skip {
			continue
		}
		if _, err := res.WriteString(env.exec(sc.Text()) + "\n"); err != nil {
			return err
		}
	}
	return sc.Err()
}

// runInChild executes the given case lines in child processes; a case that kills the child is
// reported as "<kind> fatal" and the child is restarted after it
func c13RunInChild(o *opts, lines []string) ([]string, error) {
	if len(lines) == 0 {
		return nil, nil
	}
	inPath := filepath.Join(o.out, "c13_child_in.txt")
	resPath := filepath.Join(o.out, "c13_child_res.txt")
	if err := os.WriteFile(inPath, []byte(strings.Join(lines, "\n")+"\n"), 0o644); err != nil {
		return nil, err
	}
	_ = os.Remove(resPath)
	self, err := os.Executable()
	if err != nil {
		return nil, err
	}
	done := 0
	for attempts := 0; done < len(lines) && attempts < 50; attempts++ {
		cmd := exec.Command(self, "c13", "--mode", "child", "--in", inPath, "--res", resPath, "--skip", strconv.Itoa(done))
		cmd.Stderr = nil
		if err := cmd.Start(); err != nil {
			return nil, err
		}
		waitCh := make(chan error, 1)
		go func() { waitCh <- cmd.Wait() }()
		var werr error
		select {
		case werr = <-waitCh:
		case <-time.After(300 * time.Second):
			_ = cmd.Process.Kill()
			werr = fmt.Errorf("timeout")
			<-waitCh
		}
		data, _ := os.ReadFile(resPath)
		got := strings.Count(string(data), "\n")
		if werr == nil && got >= len(lines) {
			done = got
			break
		}
		if got < len(lines) {
			// the case after the last finished one killed (or hung) the child
			f, err := os.OpenFile(resPath, os.O_APPEND|os.O_WRONLY|os.O_CREATE, 0o644)
			if err != nil {
				return nil, err
			}
			// drop a partial last line, if any
			if len(data) > 0 && data[len(data)-1] != '\n' {
				_ = f.Close()
				idx := strings.LastIndexByte(string(data), '\n')
				if err := os.WriteFile(resPath, data[:idx+1], 0o644); err != nil {
					return nil, err
				}
				f, _ = os.OpenFile(resPath, os.O_APPEND|os.O_WRONLY, 0o644)
			}
			kind := strings.Fields(lines[got])[0]
			_, _ = f.WriteString(kind + " fatal\n")
			_ = f.Close()
			got++
		}
		done = got
	}
	data, err := os.ReadFile(resPath)
	if err != nil {
		return nil, err
	}
	res := strings.Split(strings.TrimRight(string(data), "\n"), "\n")
	if len(res) != len(lines) {
		return nil, fmt.Errorf("child produced %d results for %d cases", len(res), len(lines))
	}
	_ = os.Remove(inPath)
	_ = os.Remove(resPath)
	return res, nil
}

func runC13(o *opts) error {
	logrus.SetOutput(io.Discard) // BytesToDatetime logs every undecodable time payload
	if o.get("mode", "") == "child" {
		return c13ChildMain(o)
	}
	// a runaway allocation (a reader trusting a stored length) must fail this process, not the machine
	lim := uint64(o.getInt("aslimit_mb", 24576)) << 20
	_ = syscall.Setrlimit(syscall.RLIMIT_AS, &syscall.Rlimit{Cur: lim, Max: lim})
	stats := map[string]int{}
	env := &c13Env{}
	if err := env.open(o.out); err != nil {
		return err
	}
	defer env.close()
	cases := newLineWriter(o.out, "cases.txt")
	impl := newLineWriter(o.out, "impl.txt")
	defer cases.close()
	defer impl.close()
	// pure decoder cases go to a child process (after everything else); the rest runs here, streamed
	var childLines []string
	sink := func(l string) {
		stats["kind_"+l[:1]]++
		if c13IsChildKind(l[:1]) {
			childLines = append(childLines, l)
			return
		}
		cases.line("%s", l)
		impl.line("%s", env.exec(l))
	}
	if rc := o.get("replaycase", ""); rc != "" {
		data, err := os.ReadFile(rc)
		if err != nil {
			return err
		}
		for _, l := range strings.Split(string(data), "\n") {
			if strings.TrimSpace(l) != "" {
				sink(strings.TrimSpace(l))
			}
		}
	} else {
		c13Generate(o, stats, sink)
	}
	childRes, err := c13RunInChild(o, childLines)
	if err != nil {
		return err
	}
	for k, l := range childLines {
		cases.line("%s", l)
		impl.line("%s", childRes[k])
	}
	writeJSON(o.out, "stats.json", stats)
	return nil
}
