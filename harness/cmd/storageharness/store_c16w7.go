package main

// C16 strengthening, seventh wave (seeded C16-w7-3):
//
// THE STORE THAT CARRIES THE SYSTEM-ENTITY CONSTRAINT ALSO OWNS LINK COLLECTIONS - plain AND REF-COUNTED ones.
// processDeleteConstraints runs the ProcessBeforeDelete hooks (where the constraint records its refusal in the error
// holder) and THEN cleanupLinks over store.links and store.refCountedLinks; that the refusal survives the link clean-up
// (every EntityDeleted of a collection is skipped once an error is recorded, and its nil result never replaces the
// recorded error) is up to cleanupLinks - per collection KIND.  Every wiring of the C16 stream so far had at most a plain
// link collection on the constrained store (idx, c16np); no store of the shared harness registered a ref-counted one
// (the C05 / C06 harnesses have their own stores for those).
//
// (a) wiringDecl kind "rclink" (store.go, additive): AddRefCountedLinkCollection on both sides.  Not part of the schema
//     text: Store/Model.v has no counted links, and the C16 projection (results, E facts, isSystem flags) does not need
//     them - a ref-counted collection can only influence that projection through the RESULT of a delete.  The linked ids
//     are visible as S:<root>:<id>:<field>:<member> facts (ignored by the comparison with the model).
// (b) wirings (this file; extraWirings, C16 stream only):
//       c16rr  root dev: plain link dev.sites + ref-counted dev.peers, registered BEFORE the constraint; plain child gw
//       c16rc  root emp carries the constraint, its PLAIN CHILD mgr owns the ref-counted collection mgr.teams (the child
//              store's processDeleteConstraints runs the parent's hooks first - chain - and then ITS OWN link clean-up)
//       c16rk  the constraint on the plain child gad ONLY (sibling child aux first), gad owns gad.zones (ref-counted) and
//              gad.mates (plain)
//       c16rx  the casc shape (cascades a <- b <- c, EXTENDED child bx): b carries the constraint and owns b.grps
//              (ref-counted, other side a.rcbs)
//     An EXTENDED child store that itself owns a (ref-counted) link collection is left out: on the unchanged tree it makes
//     DeleteById fail for every parent entity without extension data (design/C06.md "candidate defects"), which the store
//     machine does not model.
// (c) link COUNTS on the entities: pseudo veto "@rc C <one digit per operation>" (ignored by the shared parsers and by the
//     machine): after a SUCCESSFUL Create / Update the harness calls IncrementLinkCount <digit> times, through every
//     ref-counted collection side owned by a store of the operation's family that holds the entity, towards (up to three
//     of) the entities of the other store present at that moment.  The link API takes a bolt transaction, not a
//     MutateContext: it is set-up, not an operation the property talks about.  A transaction that carries @rc runs
//     through c16RunTx (like one that names its entry point).
//
// Oracle: unchanged - (i) C16:system-delete-in-ordinary-context / the durable-content rules as they stood.

import (
	"fmt"

	"github.com/openziti/storage/ast"
	"go.etcd.io/bbolt"
)

const c16w7RcStore = "@rc"

func init() {
	extraWirings["c16rr"] = wiringC16Rr
	extraWirings["c16rc"] = wiringC16Rc
	extraWirings["c16rk"] = wiringC16Rk
	extraWirings["c16rx"] = wiringC16Rx
	c16Wirings = append(c16Wirings, "c16rr", "c16rc", "c16rk", "c16rx")
}

// c16rr: the constrained ROOT store dev owns a plain and a ref-counted link collection (both registered before the
// constraint), a unique and a set index and a cascading fk index; plain child gw with a unique index of its own.
// wf: Examples/C16W7Wirings.v c16rr_wf
func wiringC16Rr() *wiring {
	return &wiring{Name: "c16rr", Stores: []*sStore{
		{Name: "own", Fields: []sField{{Name: "title"}}},
		{Name: "dev", Fields: []sField{{Name: "name"}, {Name: "owner"}}, Sets: []string{"roles"}},
		{Name: "gw", Parent: "dev", Fields: []sField{{Name: "port", Ptr: true}}},
	}, Script: []wiringDecl{
		{Kind: "unique", Store: "own", Field: "title"},
		{Kind: "link", Store: "dev", Field: "sites", Target: "own", Back: "staff"},
		{Kind: "rclink", Store: "dev", Field: "peers", Target: "own", Back: "rcdevs"},
		{Kind: "unique", Store: "dev", Field: "name"},
		{Kind: "system", Store: "dev"},
		{Kind: "setidx", Store: "dev", Field: "roles"},
		{Kind: "fkindexcascade", Store: "dev", Field: "owner", Target: "own", Back: "devs"},
		{Kind: "unique", Store: "gw", Field: "port", Nullable: true},
	}}
}

// c16rc: the root emp carries the constraint; its PLAIN child store mgr owns the ref-counted collection mgr.teams <->
// dept.rcmgrs (and a unique index).  wf: Examples/C16W7Wirings.v c16rc_wf
func wiringC16Rc() *wiring {
	return &wiring{Name: "c16rc", Stores: []*sStore{
		{Name: "dept", Fields: []sField{{Name: "title"}}},
		{Name: "emp", Fields: []sField{{Name: "name"}, {Name: "dept"}}},
		{Name: "mgr", Parent: "emp", Fields: []sField{{Name: "level", Ptr: true}}},
	}, Script: []wiringDecl{
		{Kind: "unique", Store: "dept", Field: "title"},
		{Kind: "unique", Store: "emp", Field: "name"},
		{Kind: "fkindex", Store: "emp", Field: "dept", Target: "dept", Back: "members"},
		{Kind: "system", Store: "emp"},
		{Kind: "unique", Store: "mgr", Field: "level", Nullable: true},
		{Kind: "rclink", Store: "mgr", Field: "teams", Target: "dept", Back: "rcmgrs"},
	}}
}

// c16rk: the constraint on the PLAIN child store gad only (sibling child aux registered first); gad owns a ref-counted
// (gad.zones <-> own.rcgads) and a plain (gad.mates <-> own.gads) link collection; cascade own -> dev.
// wf: Examples/C16W7Wirings.v c16rk_wf
func wiringC16Rk() *wiring {
	return &wiring{Name: "c16rk", Stores: []*sStore{
		{Name: "own", Fields: []sField{{Name: "title"}}},
		{Name: "dev", Fields: []sField{{Name: "name"}, {Name: "owner"}}},
		{Name: "aux", Parent: "dev", Fields: []sField{{Name: "note", Ptr: true}}},
		{Name: "gad", Parent: "dev", Fields: []sField{{Name: "serial", Ptr: true}}},
	}, Script: []wiringDecl{
		{Kind: "unique", Store: "own", Field: "title"},
		{Kind: "unique", Store: "dev", Field: "name"},
		{Kind: "fkindexcascade", Store: "dev", Field: "owner", Target: "own", Back: "devs"},
		{Kind: "unique", Store: "aux", Field: "note", Nullable: true},
		{Kind: "rclink", Store: "gad", Field: "zones", Target: "own", Back: "rcgads"},
		{Kind: "system", Store: "gad"},
		{Kind: "link", Store: "gad", Field: "mates", Target: "own", Back: "gads"},
		{Kind: "unique", Store: "gad", Field: "serial", Nullable: true},
	}}
}

// c16rx: the casc shape; b carries the constraint (after its cascading fk index) and owns the ref-counted collection
// b.grps <-> a.rcbs; EXTENDED child bx with a unique index.  wf: Examples/C16W7Wirings.v c16rx_wf
func wiringC16Rx() *wiring {
	return &wiring{Name: "c16rx", Stores: []*sStore{
		{Name: "a", Fields: []sField{{Name: "name"}}},
		{Name: "b", Fields: []sField{{Name: "name"}, {Name: "a"}}},
		{Name: "c", Fields: []sField{{Name: "b"}}},
		{Name: "bx", Parent: "b", Ext: true, Fields: []sField{{Name: "code", Ptr: true}}},
	}, Script: []wiringDecl{
		{Kind: "unique", Store: "a", Field: "name"},
		{Kind: "fkindexcascade", Store: "b", Field: "a", Target: "a", Back: "bs"},
		{Kind: "system", Store: "b"},
		{Kind: "rclink", Store: "b", Field: "grps", Target: "a", Back: "rcbs"},
		{Kind: "fkindexcascade", Store: "c", Field: "b", Target: "b", Back: "cs"},
		{Kind: "unique", Store: "bx", Field: "code", Nullable: true},
	}}
}

// ---- link counts ----------------------------------------------------------------------------------------------------

type c16w7Side struct{ Store, Field, Other string }

// c16w7Sides: both sides of every ref-counted collection of the wiring
func c16w7Sides(w *wiring) []c16w7Side {
	var out []c16w7Side
	for _, d := range w.Script {
		if d.Kind == "rclink" {
			out = append(out, c16w7Side{d.Store, d.Field, d.Target}, c16w7Side{d.Target, d.Back, d.Store})
		}
	}
	return out
}

func c16w7FamilyOwnsRc(w *wiring, store string) bool {
	def := w.store(store)
	if def == nil {
		return false
	}
	root := rootName(def)
	for _, s := range c16w7Sides(w) {
		if d := w.store(s.Store); d != nil && rootName(d) == root {
			return true
		}
	}
	return false
}

// c16w7CountOf: how often the link counts are incremented after operation i (0 = not at all)
func c16w7CountOf(t *hTx, i int) int {
	for _, v := range t.Vetoes {
		if v.Store == c16w7RcStore {
			if i < len(v.Id) && v.Id[i] >= '0' && v.Id[i] <= '9' {
				return int(v.Id[i] - '0')
			}
			return 0
		}
	}
	return 0
}

func c16w7Has(t *hTx) bool {
	for _, v := range t.Vetoes {
		if v.Store == c16w7RcStore {
			return true
		}
	}
	return false
}

// c16w7Seed: after a successful Create / Update of op.Id - n increments through every ref-counted collection side owned
// by a store of the family that holds the entity, towards (up to three of) the entities of the other store present now
func (h *harnessDb) c16w7Seed(tx *bbolt.Tx, op *hOp, n int) error {
	if n <= 0 || (op.Kind != "C" && op.Kind != "UP") {
		return nil
	}
	def := h.w.store(op.Store)
	if def == nil {
		return nil
	}
	root := rootName(def)
	for _, s := range c16w7Sides(h.w) {
		sd := h.w.store(s.Store)
		gs, os := h.stores[s.Store], h.stores[s.Other]
		if sd == nil || rootName(sd) != root || gs == nil || os == nil || gs.rc[s.Field] == nil {
			continue
		}
		if !gs.IsEntityPresent(tx, op.Id) {
			continue
		}
		od := h.w.store(s.Other)
		var targets []string
		for c := h.stores[rootName(od)].IterateIds(tx, ast.BoolNodeTrue); c.IsValid() && len(targets) < 3; c.Next() {
			if id := string(c.Current()); os.IsEntityPresent(tx, id) {
				targets = append(targets, id)
			}
		}
		for _, t := range targets {
			for k := 0; k < n; k++ {
				if _, err := gs.rc[s.Field].IncrementLinkCount(tx, []byte(op.Id), []byte(t)); err != nil {
					return fmt.Errorf("IncrementLinkCount %s.%s %s -> %s: %v", s.Store, s.Field, op.Id, t, err)
				}
			}
		}
	}
	return nil
}

// c16w7Shape (generator; draws nothing for wirings without a ref-counted collection): the creates / updates of a family
// that owns a ref-counted collection are followed by link-count increments
func (g *xGen) c16w7Shape(t *hTx, stats map[string]int) {
	if len(c16w7Sides(g.w)) == 0 || len(t.Ops) == 0 {
		return
	}
	if _, _, isRs := c16RestoreOf(t); isRs {
		return
	}
	if !g.r.chance(70) {
		return
	}
	digits := make([]byte, len(t.Ops))
	any := false
	for i := range t.Ops {
		digits[i] = '0'
		op := &t.Ops[i]
		if (op.Kind == "C" || op.Kind == "UP") && c16w7FamilyOwnsRc(g.w, op.Store) && g.r.chance(75) {
			digits[i] = '1'
			if g.r.chance(30) {
				digits[i] = '2'
			}
			any = true
		}
	}
	if !any {
		return
	}
	t.Vetoes = append(t.Vetoes, hVeto{Store: c16w7RcStore, Change: "C", Id: string(digits)})
	stats["w7_rc_count_tx"]++
}
