package main

import (
	"strconv"
	"strings"
	"sync"
	"time"

	"github.com/openziti/storage/ast"
	"github.com/openziti/storage/objectz"
	"github.com/openziti/storage/zitiql"
	"go.etcd.io/bbolt"
)

// C10, parsing entry points.  "Text that is not a sentence of the filter grammar is rejected" is a statement about
// the text: whether a filter is refused cannot depend on WHICH public entry point it was handed to.  Every case of
// every stream (sentences, token mutations, bounded-exhaustive sequences, random code points, the store streams) is
// therefore given to all of them, each under recover():
//
//	text level (no symbol table; a listener that builds nothing):
//	  0 zitiql.Parse(s, l)
//	  1 zitiql.ParseWithDebug(s, l, false)
//	  2 zitiql.ParseWithDebug(s, l, true)                 the diagnostic variant
//	  3 zitiql.Parse(s, l) again                          directly after the diagnostic run (same pooled instances)
//	  4 zitiql.Parse(s, ast.NewListener())                errors returned or the listener's own error latch
//	typed level (adds symbol / type errors, never removes a syntax error):
//	  5 ast.Parse(boltz store, s)
//	  6 boltz BaseStore.QueryIds(tx, s)                    the string variant of the store query API (parses, then scans)
//	  7 ast.Parse(objectz store, s)
//	  8 objectz ObjectStore.QueryEntities(s)
//
// Observation (6th field of the impl line):  n<letters>[;<index>:<site>...]   one letter per entry point, in the order
// above: A accepted (no error), R rejected, P panicked (site listed behind ';').
var c10eNames = []string{
	"zitiql.Parse",
	"zitiql.ParseWithDebug(debug=false)",
	"zitiql.ParseWithDebug(debug=true)",
	"zitiql.Parse directly after a ParseWithDebug(debug=true) run",
	"zitiql.Parse with the ast.NewListener() listener",
	"ast.Parse against the boltz store",
	"boltz BaseStore.QueryIds(tx, string)",
	"ast.Parse against the objectz store",
	"objectz ObjectStore.QueryEntities(string)",
}

type c10eObj struct {
	s    *string
	i    *int64
	f    *float64
	b    *bool
	d    *time.Time
	name *string
}

type c10eIter struct {
	rows []*c10eObj
	pos  int
}

func (it *c10eIter) IsValid() bool { return it.pos < len(it.rows) }
func (it *c10eIter) Next()         { it.pos++ }
func (it *c10eIter) Current() *c10eObj {
	if it.pos < len(it.rows) {
		return it.rows[it.pos]
	}
	return nil
}

// c10eObjects: an objectz store with the scalar symbols of the sentence matrix (x typed int64), a filled row, a row
// with other values and a row in which every field is nil
var c10eObjects = sync.OnceValue(func() *objectz.ObjectStore[*c10eObj] {
	s1, s2, i1, i2, f1, f2, bt, bf := "s", "hello", int64(1), int64(-5), 1.5, -2.25, true, false
	d1, d2 := c10Time, c10Time.Add(time.Hour)
	rows := []*c10eObj{
		{s: &s1, i: &i1, f: &f1, b: &bt, d: &d1, name: &s1},
		{s: &s2, i: &i2, f: &f2, b: &bf, d: &d2, name: &s2},
		{},
	}
	st := objectz.NewObjectStore[*c10eObj](func() objectz.ObjectIterator[*c10eObj] { return &c10eIter{rows: rows} })
	st.AddStringSymbol("id", func(o *c10eObj) *string { return o.name })
	st.AddStringSymbol("s", func(o *c10eObj) *string { return o.s })
	st.AddStringSymbol("name", func(o *c10eObj) *string { return o.name })
	st.AddInt64Symbol("i", func(o *c10eObj) *int64 { return o.i })
	st.AddInt64Symbol("x", func(o *c10eObj) *int64 { return o.i })
	st.AddFloat64Symbol("f", func(o *c10eObj) *float64 { return o.f })
	st.AddBoolSymbol("b", func(o *c10eObj) *bool { return o.b })
	st.AddBoolSymbol("a", func(o *c10eObj) *bool { return o.b })
	st.AddBoolSymbol("c", func(o *c10eObj) *bool { return o.b })
	st.AddDatetimeSymbol("d", func(o *c10eObj) *time.Time { return o.d })
	return st
})

// c10eCall hands the filter to entry point k: accepted or not, or the site of the panic
func c10eCall(k int, filter string) (accepted bool, site string) {
	defer func() {
		if r := recover(); r != nil {
			accepted, site = false, c10Site()
		}
	}()
	switch k {
	case 0, 3:
		return len(zitiql.Parse(filter, &c10NopListener{})) == 0, ""
	case 1:
		return len(zitiql.ParseWithDebug(filter, &c10NopListener{}, false)) == 0, ""
	case 2:
		return len(zitiql.ParseWithDebug(filter, &c10NopListener{}, true)) == 0, ""
	case 4:
		l := ast.NewListener()
		return len(zitiql.Parse(filter, l)) == 0 && !l.HasError(), ""
	case 5:
		_, err := ast.Parse(c10sEnv().roots[0].fam.main, filter)
		return err == nil, ""
	case 6:
		env := c10sEnv()
		_ = env.db.View(func(tx *bbolt.Tx) error {
			// recover inside the transaction function, so that the read transaction is always released
			defer func() {
				if r := recover(); r != nil {
					accepted, site = false, c10Site()
				}
			}()
			_, _, err := env.roots[0].fam.main.QueryIds(tx, filter)
			accepted = err == nil
			return nil
		})
		return accepted, site
	case 7:
		_, err := ast.Parse(c10eObjects(), filter)
		return err == nil, ""
	default:
		_, _, err := c10eObjects().QueryEntities(filter)
		return err == nil, ""
	}
}

// c10eEntries runs the filter through every parsing entry point
func c10eEntries(filter string) string {
	letters := make([]byte, len(c10eNames))
	var sites []string
	for k := range c10eNames {
		accepted, site := c10eCall(k, filter)
		switch {
		case site != "":
			letters[k] = 'P'
			sites = append(sites, strconv.Itoa(k)+":"+site)
		case accepted:
			letters[k] = 'A'
		default:
			letters[k] = 'R'
		}
	}
	out := "n" + string(letters)
	if len(sites) > 0 {
		out += ";" + strings.Join(sites, ";")
	}
	return out
}
