package main

// Store harness extension for C15 / C16 (sub-command "storex").
//
// Same case-line and observation format as the shared "store" sub-command (store.go / store_gen.go),
// plus per transaction the tokens
//
//	I:<store>:<ids>                 IterateIds("true")               (paged cursor path)
//	QS:<store>:<ids>                QueryIds("true sort by <first field of the root store>") (sorting scanner path; compared as a set)
//	LF:<store>:<id>:<field>:<val>   field values of the entity LoadById returns through <store>
//	                                (a child store sees the parent's fields; isSystem as b0/b1)
//
// and an ADAPTIVE history generator: the next transaction is generated after the previous one
// was executed, from what really exists in the database (ids, child data, system flags), so that
// most operations are valid, most transactions commit and populations are mixed.  What exists is
// used to bias choices only - never as an oracle.  The history stays replayable from the case line.
//
// Updates carry an IsSystem flag on the entity handed to Update (trying to flip the stored flag);
// it is not part of the case line (the model ignores it, as UpdateBaseValues does) and is derived
// deterministically from the position: (transaction index + operation index) even => true.

import (
	"fmt"
	"os"
	"strings"

	"github.com/openziti/storage/ast"
	"go.etcd.io/bbolt"
)

func init() { commands["storex"] = runStoreX }

// applyUpdateSysRule sets the IsSystem flag carried by update operations (see above)
func applyUpdateSysRule(txIndex int, t *hTx) {
	for k := range t.Ops {
		if t.Ops[k].Kind == "UP" {
			t.Ops[k].Sys = (txIndex+k)%2 == 0
		}
	}
}

// ---- extra observations ------------------------------------------------------------------------

func rootName(def *sStore) string {
	if def.Parent != "" {
		return def.Parent
	}
	return def.Name
}

func (h *harnessDb) readsX() string {
	var sb strings.Builder
	_ = h.db.View(func(tx *bbolt.Tx) error {
		for _, def := range h.w.Stores {
			gs := h.stores[def.Name]
			var it []string
			for c := gs.IterateIds(tx, ast.BoolNodeTrue); c.IsValid(); c.Next() {
				it = append(it, hx(c.Current()))
			}
			fmt.Fprintf(&sb, " I:%s:%s", def.Name, strings.Join(it, ","))
			// sorted by a field of the root store, so that the sorting scanner (not the id cursor) answers
			sortBy := "id"
			if rd := h.w.store(rootName(def)); rd != nil && len(rd.Fields) > 0 {
				sortBy = rd.Fields[0].symName()
			}
			ids, _, err := gs.QueryIds(tx, "true sort by "+sortBy+" limit none")
			q := make([]string, 0, len(ids))
			for _, id := range ids {
				q = append(q, hxs(id))
			}
			if err != nil {
				q = []string{"ERR"}
			}
			fmt.Fprintf(&sb, " QS:%s:%s", def.Name, strings.Join(q, ","))

			root := def.Name
			if def.Parent != "" {
				root = def.Parent
			}
			var all []string
			for c := h.stores[root].IterateIds(tx, ast.BoolNodeTrue); c.IsValid(); c.Next() {
				all = append(all, string(c.Current()))
			}
			fields, _ := h.w.allFields(def.Name)
			for _, id := range all {
				e, err := gs.LoadById(tx, id)
				if err != nil || e == nil {
					continue
				}
				for _, f := range fields {
					v := "nil"
					if p := e.F[f.Name]; p != nil {
						v = "s" + hxs(*p)
					}
					fmt.Fprintf(&sb, " LF:%s:%s:%s:%s", def.Name, hxs(id), f.Name, v)
				}
				fmt.Fprintf(&sb, " LF:%s:%s:isSystem:b%s", def.Name, hxs(id), b01(e.IsSystem))
			}
		}
		if c15PagedOn {
			h.c15PagedReads(tx, &sb) // QP tokens (c15_paging.go)
			h.c15CursorReads(tx, &sb) // QC tokens: QueryWithCursorC with every cursor provider (store_c15w7.go)
			if c15LookupsOn {
				h.c15LookupReads(tx, &sb) // LK / LKD / RE tokens: every lookup variant of the store API (store_c15w6.go)
			}
		}
		return nil
	})
	return sb.String()
}

// runTxX = runTx + the extra observation tokens, inserted before the ST marker
// runTxSafe: a panic of the library inside the transaction is reported as the result "panic" (bbolt and
// boltz release their locks and roll back in deferred calls), so that one failing input does not end the run
func (h *harnessDb) runTxSafe(t *hTx) (obs string) {
	defer func() {
		if r := recover(); r != nil {
			var sb strings.Builder
			sb.WriteString("TX R panic ROLLBACK")
			sb.WriteString(h.reads())
			sb.WriteString(" ST")
			for _, f := range h.facts() {
				sb.WriteString(" " + f)
			}
			sb.WriteString(" | ")
			obs = sb.String()
		}
	}()
	if modes, ok := c16ModesOf(t); ok {
		return h.c16RunTx(t, modes) // mixed transaction (store_c16s.go): per-operation context objects, swallowed refusals
	}
	return h.runTx(t)
}

func (h *harnessDb) runTxX(t *hTx) string {
	obs := h.runTxSafe(t)
	extra := h.readsX()
	k := strings.Index(obs, " ST")
	for k >= 0 {
		end := k + 3
		if end == len(obs) || obs[end] == ' ' {
			break
		}
		nk := strings.Index(obs[end:], " ST")
		if nk < 0 {
			k = -1
			break
		}
		k = end + nk
	}
	if k < 0 {
		return obs
	}
	return obs[:k] + extra + obs[k:]
}

// ---- what exists (to bias the generator) -----------------------------------------------------------

type xSnap struct {
	alive map[string]map[string]bool // root store -> ids
	sys   map[string]map[string]bool // root store -> ids whose stored isSystem flag is set
	child map[string]map[string]bool // child store -> ids with child data
	// string values held now (C15 DeleteWhere filters are built from values that exist): root store -> id -> field -> value,
	// child store -> id -> own field -> value
	fvals map[string]map[string]map[string]string
	cvals map[string]map[string]map[string]string
}

func (h *harnessDb) snapshot() *xSnap {
	s := &xSnap{alive: map[string]map[string]bool{}, sys: map[string]map[string]bool{}, child: map[string]map[string]bool{},
		fvals: map[string]map[string]map[string]string{}, cvals: map[string]map[string]map[string]string{}}
	put := func(m map[string]map[string]map[string]string, st, id, f, v string) {
		if m[st] == nil {
			m[st] = map[string]map[string]string{}
		}
		if m[st][id] == nil {
			m[st][id] = map[string]string{}
		}
		m[st][id][f] = v
	}
	for _, d := range h.w.Stores {
		if d.Parent == "" {
			s.alive[d.Name] = map[string]bool{}
			s.sys[d.Name] = map[string]bool{}
		} else {
			s.child[d.Name] = map[string]bool{}
		}
	}
	for _, f := range h.facts() {
		p := strings.Split(f, ":")
		switch p[0] {
		case "E":
			if m := s.alive[p[1]]; m != nil {
				m[string(unhx(p[2]))] = true
			}
		case "F":
			if len(p) == 5 && p[3] == "isSystem" && p[4] == "b1" {
				if m := s.sys[p[1]]; m != nil {
					m[string(unhx(p[2]))] = true
				}
			}
			if len(p) == 5 && strings.HasPrefix(p[4], "s") {
				put(s.fvals, p[1], string(unhx(p[2])), p[3], string(unhx(p[4][1:])))
			}
		case "CF":
			if len(p) == 6 && strings.HasPrefix(p[5], "s") {
				put(s.cvals, p[3], string(unhx(p[2])), p[4], string(unhx(p[5][1:])))
			}
		case "C":
			if m := s.child[p[3]]; m != nil {
				m[string(unhx(p[2]))] = true
			}
		}
	}
	return s
}

// ---- generator -------------------------------------------------------------------------------------

type xGen struct {
	r       *rng
	w       *wiring
	prof    string
	ids     []string
	fresh   int
	snap    *xSnap
	pSys    int
	weights map[string]int
	flipped map[string]bool // C16 restore steps: "<root>/<id>" that are system entities in the restored content but were ordinary before
}

func (g *xGen) rootOf(store string) string {
	if p := g.w.store(store).Parent; p != "" {
		return p
	}
	return store
}

func (g *xGen) sortedAlive(root string) []string {
	var xs []string
	for _, id := range g.ids {
		if g.snap.alive[root][id] {
			xs = append(xs, id)
		}
	}
	return xs
}

func (g *xGen) pickFrom(xs []string) string {
	if len(xs) == 0 {
		return g.ids[g.r.intn(len(g.ids))]
	}
	return xs[g.r.intn(len(xs))]
}

func (g *xGen) pickStore() *sStore {
	total := 0
	for _, s := range g.w.Stores {
		total += g.weights[s.Name]
	}
	k := g.r.intn(total)
	for _, s := range g.w.Stores {
		k -= g.weights[s.Name]
		if k < 0 {
			return s
		}
	}
	return g.w.Stores[0]
}

func (g *xGen) isUnique(store, field string) bool {
	for _, c := range g.w.store(store).Cons {
		if c.Kind == "U" && c.Field == field {
			return true
		}
	}
	return false
}

func (g *xGen) fkTarget(store, field string) string {
	for _, d := range g.w.Script {
		if d.Store == store && d.Field == field && (d.Kind == "fkindex" || d.Kind == "fkindexcascade" || d.Kind == "fkcons") {
			return d.Target
		}
	}
	return ""
}

var xSmallVals = []string{"v1", "v2", "v3", ""}

func (g *xGen) fieldsValueX(op *hOp) {
	op.F = map[string]*string{}
	op.S = map[string][]string{}
	s := g.w.store(op.Store)
	root := g.rootOf(op.Store)
	type owned struct {
		f     sField
		owner string
	}
	var fields []owned
	for _, f := range g.w.store(root).Fields {
		fields = append(fields, owned{f, root})
	}
	if s.Parent != "" {
		for _, f := range s.Fields {
			fields = append(fields, owned{f, s.Name})
		}
	} else {
		for _, c := range g.w.Stores {
			if c.Parent == s.Name {
				for _, f := range c.Fields {
					fields = append(fields, owned{f, c.Name})
				}
			}
		}
	}
	for _, of := range fields {
		f := of.f
		if f.Via == "req" {
			// a field the strategy persists with SetRequiredString: the generator always supplies a value (the refusal of
			// an empty required value is field validation, which the store machine does not model)
			switch {
			case g.fkTarget(of.owner, f.Name) != "":
				op.F[f.Name] = sp(g.pickFrom(g.sortedAlive(g.rootOf(g.fkTarget(of.owner, f.Name)))))
			case g.isUnique(of.owner, f.Name) && !g.r.chance(22):
				g.fresh++
				op.F[f.Name] = sp(fmt.Sprintf("u%d", g.fresh))
			default:
				op.F[f.Name] = sp(xSmallVals[g.r.intn(3)])
			}
			continue
		}
		if t := g.fkTarget(of.owner, f.Name); t != "" {
			troot := g.rootOf(t)
			switch {
			case f.Ptr && g.r.chance(30):
			case g.r.chance(3):
				op.F[f.Name] = sp("")
			case g.r.chance(4) && troot == root:
				op.F[f.Name] = sp(op.Id)
			case g.r.chance(8):
				op.F[f.Name] = sp(g.ids[g.r.intn(len(g.ids))])
			default:
				if al := g.sortedAlive(troot); len(al) > 0 || !f.Ptr {
					op.F[f.Name] = sp(g.pickFrom(al))
				}
			}
			continue
		}
		if g.isUnique(of.owner, f.Name) {
			switch {
			case f.Ptr && g.r.chance(20):
			case g.r.chance(22):
				op.F[f.Name] = sp(xSmallVals[g.r.intn(len(xSmallVals))])
			default:
				g.fresh++
				op.F[f.Name] = sp(fmt.Sprintf("u%d", g.fresh))
			}
			continue
		}
		if f.Ptr && g.r.chance(25) {
			continue
		}
		op.F[f.Name] = sp(xSmallVals[g.r.intn(len(xSmallVals))])
	}
	for _, sn := range g.w.store(root).Sets {
		n := g.r.intn(4)
		var l []string
		for i := 0; i < n; i++ {
			v := []string{"r", "v1", "v2", "v3"}[g.r.intn(4)]
			if g.r.chance(2) {
				v = ""
			}
			l = append(l, v)
		}
		op.S[sn] = l
	}
}

// missingTarget returns the store a create through st needs an entity of (non-nullable fk) while none exists
func (g *xGen) missingTarget(st *sStore) *sStore {
	check := func(owner *sStore) *sStore {
		for _, f := range owner.Fields {
			if t := g.fkTarget(owner.Name, f.Name); t != "" && !f.Ptr && len(g.sortedAlive(g.rootOf(t))) == 0 {
				return g.w.store(g.rootOf(t))
			}
		}
		return nil
	}
	if st.Parent != "" {
		if m := check(g.w.store(st.Parent)); m != nil {
			return m
		}
	}
	return check(st)
}

func (g *xGen) genOpX(txSys bool) hOp {
	st := g.pickStore()
	for try := 0; try < 3 && g.r.chance(92); try++ {
		m := g.missingTarget(st)
		if m == nil {
			break
		}
		st = m
	}
	root := g.rootOf(st.Name)
	alive := g.sortedAlive(root)
	var withChild []string
	if st.Parent != "" {
		for _, id := range alive {
			if g.snap.child[st.Name][id] {
				withChild = append(withChild, id)
			}
		}
	}
	target := func() string {
		switch {
		case g.r.chance(10):
			return g.ids[g.r.intn(len(g.ids))]
		case st.Parent != "" && len(withChild) > 0 && g.r.chance(70):
			return g.pickFrom(withChild)
		default:
			return g.pickFrom(alive)
		}
	}
	// C15: DeleteWhere through the parent, plain child and extended child stores (store_c15w3.go; draws nothing for C16)
	if g.prof == "c15" && len(alive) > 0 && g.r.chance(c15PDeleteWhere) {
		if op, ok := g.c15GenDW(st, alive); ok {
			return op
		}
	}
	// C15: link operations on the link collections the family's PARENT store declares, aimed at entities with child data
	// (store_c15w7.go; draws nothing for C16 and for wirings without such a collection)
	if g.prof == "c15" && c15LinkRoot(g.w) != nil && len(alive) > 0 && g.r.chance(c15PLink) {
		if op, ok := g.c15GenLink(); ok {
			return op
		}
	}
	k := g.r.intn(100)
	if st.Parent != "" && len(withChild) == 0 && k >= 36 && g.r.chance(70) {
		k = 0
	}
	createBelow := 36
	if len(alive) >= 4 {
		createBelow = 16
	}
	switch {
	case k < createBelow || (len(alive) == 0 && k < 95):
		op := hOp{Kind: "C", Store: st.Name, Id: g.ids[g.r.intn(len(g.ids))]}
		if g.r.chance(88) {
			for try := 0; try < 6 && g.snap.alive[root][op.Id]; try++ {
				op.Id = g.ids[g.r.intn(len(g.ids))]
			}
		}
		if g.r.chance(1) {
			op.Id = ""
		}
		if txSys {
			op.Sys = g.r.chance(g.pSys + 15)
		} else {
			op.Sys = g.r.chance(g.pSys / 2)
		}
		g.fieldsValueX(&op)
		g.snap.alive[root][op.Id] = true // tentative, replaced by the real state after the transaction
		if st.Parent != "" {
			g.snap.child[st.Name][op.Id] = true
		}
		return op
	case k < 66:
		op := hOp{Kind: "UP", Store: st.Name, Id: target()}
		g.fieldsValueX(&op)
		if g.r.chance(40) {
			op.HasChk = true
			fields, sets := g.w.allFields(st.Name)
			if st.Parent == "" {
				// a patch entered through the parent store may name fields of the child store that handles the entity
				for _, c := range g.w.Stores {
					if c.Parent == st.Name {
						fields = append(fields, c.Fields...)
					}
				}
			}
			for _, f := range fields {
				if g.r.chance(50) {
					op.Checker = append(op.Checker, f.Name)
				}
			}
			for _, sn := range sets {
				if g.r.chance(50) {
					op.Checker = append(op.Checker, sn)
				}
			}
		}
		return op
	case k < 90:
		op := hOp{Kind: "D", Store: st.Name, Id: target()}
		delete(g.snap.alive[root], op.Id)
		return op
	default:
		for _, s2 := range g.w.Stores {
			if len(s2.Links) > 0 && g.r.chance(60) {
				l := s2.Links[g.r.intn(len(s2.Links))]
				op := hOp{Kind: "AL", Store: s2.Name, Id: g.pickFrom(g.sortedAlive(g.rootOf(s2.Name))), LinkF: l.Local}
				if g.r.chance(30) {
					op.Kind = "RL"
				}
				n := 1 + g.r.intn(2)
				for i := 0; i < n; i++ {
					op.Targets = append(op.Targets, g.pickFrom(g.sortedAlive(g.rootOf(l.Other))))
				}
				return op
			}
		}
		op := hOp{Kind: "UP", Store: st.Name, Id: target()}
		g.fieldsValueX(&op)
		return op
	}
}

func (g *xGen) genTxX() hTx {
	t := hTx{Sys: g.r.chance(g.pSys), PreCommitErr: g.r.chance(2)}
	n := 1 + g.r.intn(3)
	for i := 0; i < n; i++ {
		t.Ops = append(t.Ops, g.genOpX(t.Sys))
	}
	if g.prof == "c15" {
		g.c15IsolateDW(&t) // mostly: a DeleteWhere is the whole body of its transaction (store_c15w3.go)
		g.c15GuardTx(&t)   // wirings whose strategies validate at persist time: guarded creates / updates (store_c15w9.go)
	}
	if g.r.chance(3) {
		pos := g.r.intn(len(t.Ops) + 1)
		ops := append([]hOp{}, t.Ops[:pos]...)
		ops = append(ops, hOp{Kind: "FAIL"})
		ops = append(ops, t.Ops[pos:]...)
		t.Ops = ops
	}
	if g.r.chance(3) {
		op := t.Ops[g.r.intn(len(t.Ops))]
		if op.Kind == "C" || op.Kind == "UP" || op.Kind == "D" {
			ch := map[string]string{"C": "C", "UP": "U", "D": "D"}[op.Kind]
			t.Vetoes = append(t.Vetoes, hVeto{Store: op.Store, Change: ch, Id: op.Id})
		}
	}
	return t
}

// seedTx creates the fk targets the family stores need (system context, valid values)
func (g *xGen) seedTx() hTx {
	t := hTx{Sys: true}
	support := map[string]bool{}
	for _, d := range g.w.Script {
		if (d.Kind == "fkindex" || d.Kind == "fkindexcascade" || d.Kind == "fkcons") && !d.Nullable && d.Target != d.Store {
			support[d.Target] = true
		}
	}
	for _, s := range g.w.Stores {
		if !support[s.Name] || s.Parent != "" {
			continue
		}
		// only stores that need no further targets themselves
		needs := false
		for _, f := range s.Fields {
			if g.fkTarget(s.Name, f.Name) != "" && !f.Ptr {
				needs = true
			}
		}
		if needs {
			continue
		}
		for k := 0; k < 2; k++ {
			op := hOp{Kind: "C", Store: s.Name, Id: g.ids[(k*3+g.r.intn(3))%len(g.ids)]}
			g.fieldsValueX(&op)
			for _, f := range s.Fields {
				if g.isUnique(s.Name, f.Name) {
					g.fresh++
					op.F[f.Name] = sp(fmt.Sprintf("u%d", g.fresh))
				}
			}
			for sn := range op.S {
				op.S[sn] = []string{"r"}
			}
			t.Ops = append(t.Ops, op)
		}
	}
	return t
}

// ---- sub-command -------------------------------------------------------------------------------------

func runHistoryX(w *wiring, txs []hTx, dir string) (string, string, error) {
	h, err := openHarnessDb(w, dir)
	if err != nil {
		return "", "", err
	}
	// restore steps (store_c16w2.go) may replace the harness database: the runner holds the current one
	rn, err := newC16Runner(h, dir, c16HasRestore(txs))
	if err != nil {
		h.close()
		return "", "", err
	}
	defer func() { rn.h.close() }()
	var c, o strings.Builder
	c.WriteString(w.text())
	for i := range txs {
		applyUpdateSysRule(i, &txs[i])
		c.WriteString(" ")
		c.WriteString(w.txText(&txs[i]))
		obs, err := rn.step(&txs[i])
		if err != nil {
			return "", "", err
		}
		o.WriteString(obs)
	}
	return c.String(), o.String(), nil
}

func runStoreX(o *opts) error {
	profile := o.get("profile", "c16")
	c15PagedOn = o.get("profile", "") != "c16" // the C16 check does not look at the paged reads
	cases := newLineWriter(o.out, "cases.txt")
	impl := newLineWriter(o.out, "impl.txt")
	defer cases.close()
	defer impl.close()
	tmp := o.get("tmp", os.TempDir())
	stats := map[string]int{}
	n := 300
	if o.thorough() {
		n = 5000
	}
	if o.n > 0 {
		n = o.n
	}
	if cp := o.get("corpus", ""); cp != "" {
		data, err := os.ReadFile(cp)
		if err != nil {
			return err
		}
		for _, line := range strings.Split(string(data), "\n") {
			line = strings.TrimSpace(line)
			if line == "" || strings.HasPrefix(line, "#") {
				continue
			}
			w, txs, err := parseCase(line)
			if err != nil {
				return fmt.Errorf("corpus %s: %v", cp, err)
			}
			c, obs, err := runHistoryX(w, txs, tmp)
			if err != nil {
				return err
			}
			cases.line("%s", c)
			impl.line("%s", obs)
			stats["corpus"]++
		}
	}
	if o.n == 0 && o.get("corpus", "") != "" && o.get("profile", "") == "" {
		writeJSON(o.out, "stats.json", stats)
		return nil
	}
	r := newRng(o.seed)
	wirings := []string{"idx", "casc"}
	if profile == "c15" {
		wirings = c15Wirings // + parents whose child store declares nothing but fields (store_c15w3.go)
	}
	if profile == "c16" {
		wirings = c16Wirings // + constraint on a child store only / on both levels (store_c16w2.go)
	}
	for i := 0; i < n; i++ {
		w := wiringByName(wirings[i%len(wirings)])
		w.derive()
		g := &xGen{r: r, w: w, prof: profile, ids: plainIds, pSys: 25, weights: map[string]int{}}
		if profile == "c16" {
			g.pSys = 45
		}
		// the stores the property talks about get most of the operations
		for _, s := range w.Stores {
			g.weights[s.Name] = 1
		}
		for _, s := range w.Stores {
			if s.Parent != "" {
				g.weights[s.Name] = 4
				g.weights[s.Parent] = 4
			}
			for _, c := range s.Cons {
				if c.Kind == "SY" && profile == "c16" {
					g.weights[s.Name] = 5
				}
			}
		}
		h, err := openHarnessDb(w, tmp)
		if err != nil {
			return err
		}
		var c, obs strings.Builder
		c.WriteString(w.text())
		ntx := 2 + r.intn(8)
		if o.thorough() && r.chance(10) {
			ntx += 10
		}
		var txs []hTx
		// C16: histories with restore steps (the content changes underneath the store objects)
		withRestore := profile == "c16" && r.chance(34)
		rn, err := newC16Runner(h, tmp, withRestore)
		if err != nil {
			return err
		}
		var sysAt []bool   // sysAt[k]: the content after k steps holds a system entity
		var snapAt []*xSnap // what existed after k steps
		afterRestore := false
		var script []hTx // C16: remaining steps of a scripted scenario (c16StaleScript)
		if withRestore && ntx < 5 {
			ntx = 5
		}
		for k := 0; k < ntx; k++ {
			h = rn.h
			g.snap = h.snapshot()
			anySys := false
			for _, m := range g.snap.sys {
				if len(m) > 0 {
					anySys = true
				}
			}
			sysAt = append(sysAt, anySys)
			snapAt = append(snapAt, g.snap)
			if profile == "c16" {
				stats["steps_total"]++
				if anySys {
					stats["steps_with_system_entities"]++
				}
				if len(g.c16ProtectedIn(g.snap, false)) > 0 {
					stats["steps_with_protected_entities"]++
				}
			}
			var t hTx
			if len(script) == 0 && withRestore && k >= 1 && k <= 8 && r.chance(16) {
				if script = g.c16StaleScript(k); len(script) > 0 {
					stats["restore_stale_id_scripts"]++
					if ntx < k+len(script) {
						ntx = k + len(script)
					}
				}
			}
			if len(script) > 0 {
				t, script = script[0], script[1:]
				if _, _, isRs := c16RestoreOf(&t); isRs {
					stats["restore_steps"]++
				}
			} else if withRestore && k >= 1 && r.chance(30) {
				// back to the content after j <= k steps, preferably one that holds system entities - and (half of the time)
				// one in which an id that is an ordinary entity NOW was a system entity (whatever the stores remember about
				// an id is stale then)
				j := r.intn(k + 1)
				var withProt []int
				for cand := 0; cand <= k; cand++ {
					if sysAt[cand] && len(g.c16ProtectedIn(snapAt[cand], false)) > 0 {
						withProt = append(withProt, cand)
					}
				}
				if len(withProt) > 0 && r.chance(85) {
					j = withProt[r.intn(len(withProt))]
				}
				g.flipped = nil
				if r.chance(50) {
					best := 0
					for cand := 0; cand <= k; cand++ {
						if fl := c16Flipped(snapAt[cand], g.snap); len(fl) > best || (len(fl) == best && best > 0 && r.chance(50)) {
							best, j, g.flipped = len(fl), cand, fl
						}
					}
				}
				mode := c16RestoreModes[r.intn(len(c16RestoreModes))]
				if r.chance(35) {
					mode = []byte{'n', 'e'}[r.intn(2)]
				}
				if len(g.flipped) > 0 && r.chance(60) {
					mode = []byte{'s', 'r', 'p'}[r.intn(3)] // same store objects: what they remember is now stale
				}
				t = c16RestoreTx(j, mode)
				stats["restore_steps"]++
				if len(g.flipped) > 0 {
					stats["restore_flips_ordinary_id_to_system"]++
				}
				stats["restore_mode_"+string(mode)]++
				afterRestore = true
				if k == ntx-1 && ntx < 12 {
					ntx++ // a restore is never the last step
				}
			} else if at, ok := g.c16AfterRestoreIf(afterRestore); ok {
				t = at
				afterRestore = false
				stats["restore_then_ordinary_tx_on_system_entity"]++
			} else if withRestore && k == 1 && r.chance(80) {
				t = g.c16SysSetupTx() // so that the contents a restore can bring back hold system entities
			} else if k == 0 && (withRestore || r.chance(85)) {
				t = g.seedTx()
				if len(t.Ops) == 0 {
					t = g.genTxX()
				}
			} else {
				t = g.genTxX()
				// C16: context objects reused inside one transaction, callers that ignore a refusal, migrated entities
				if profile == "c16" && r.chance(42) {
					if sc := g.c16Mix(&t); sc != "" {
						stats["mixed_tx"]++
						stats["mixed_"+sc]++
					}
				}
				if profile == "c16" {
					g.c16w5Shape(&t, stats) // entry points, DeleteWhere, aimed refusals (store_c16w5.go)
				}
			}
			if profile == "c16" {
				g.c16w7Shape(&t, stats) // link counts after creates / updates (store_c16w7.go; draws nothing unless the wiring has a ref-counted collection)
			}
			applyUpdateSysRule(k, &t)
			c.WriteString(" ")
			c.WriteString(w.txText(&t))
			o1, err := rn.step(&t)
			if err != nil {
				return err
			}
			obs.WriteString(o1)
			txs = append(txs, t)
		}
		rn.h.close()
		cases.line("%s", c.String())
		impl.line("%s", obs.String())
		ob := obs.String()
		stats["histories"]++
		stats["wiring_"+w.Name]++
		stats["tx"] += len(txs)
		for _, t := range txs {
			stats["ops"] += len(t.Ops)
			for _, op := range t.Ops {
				stats["op_"+op.Kind]++
				if op.Kind == "C" && op.Sys {
					stats["op_C_sysflag"]++
				}
				if w.store(op.Store) != nil && w.store(op.Store).Parent != "" {
					stats["op_through_child_"+op.Kind]++
				}
			}
			if t.Sys {
				stats["tx_sys"]++
			}
		}
		stats["obs_swallowed_refusals"] += strings.Count(ob, " NW:")
		stats["obs_commit"] += strings.Count(ob, " COMMIT")
		stats["obs_rollback"] += strings.Count(ob, " ROLLBACK")
	}
	writeJSON(o.out, "stats.json", stats)
	fmt.Fprintf(os.Stderr, "storex: %d histories\n", n)
	return nil
}
