package main

// C15 strengthening, sixth wave (seeded C15-w5-1, C15-w5-2):
//
// (a) FAMILIES WITH SEVERAL CHILD STORES UNDER ONE PARENT.  Every family of the C15 stream had exactly one child store,
//     so the loop of BaseStore.DeleteById over the registered child store strategies (and the one of Update) ran at
//     most once: "a delete through either store removes both parts" was never asked of a SECOND child store.  Wirings
//     (through extraWirings, C15 stream only; wf_child_b / wf_unique_b / wf_notrace_b by computation in
//     coq/theories/Examples/C15Family.v): an extended child store registered BEFORE a plain one that owns a unique index
//     and is the referrer of an fk index (C15mxp), the opposite order (C15mpx), two plain child stores (C15mpp, one of
//     them with a set index over a string list of the parent), three child stores plain / extended / plain (C15m3).
//     Every child store keeps state of its own OUTSIDE the entity bucket (index entries, back-reference sets).
//
// (b) EVERY LOOKUP VARIANT OF THE STORE API through the parent, plain child and extended child stores, after every
//     transaction, for every id of a fixed probe list (the id universe of the generator + whatever the root store holds):
//
//	LK:<store>:fb:<ids>   FindById reports found
//	LK:<store>:lb:<ids>   LoadById returns an entity (ERR@<id>: an error that is not a NotFoundError)
//	LK:<store>:le:<ids>   LoadEntity (the variant that fills an entity provided by the caller) reports found
//	LK:<store>:ep:<ids>   IsEntityPresent
//	LK:<store>:eb:<ids>   GetEntityBucket != nil
//	LK:<store>:vi:<ids>   IterateValidIds(true).Seek(id) stops ON the id
//	LKD:<store>:<id>:<what>   the entities FindById / LoadById / LoadEntity hand out for one id differ (never printed by
//	                          the model: the three read the same bucket)
//	RE:<store>:<id>:<set>:<l>:<c>:<r>   the GetEntityBucket-based string-list helpers for the string lists of the root
//	                          store: GetRelatedEntitiesIdList, GetRelatedEntitiesCursor, IsEntityRelated (asked for
//	                          every member either of the two returned, and for a value that is no member); printed
//	                          when one of them is not empty
//
//     Model: coq/theories/Store/Lookups.v (transcription of GetEntityBucket / getEntityBucketForLoad and of each variant),
//     printed by storex_driver.ml; theorem lookups_agree (Properties/C15.v).

import (
	"fmt"
	"sort"
	"strings"

	"github.com/openziti/storage/ast"
	"github.com/openziti/storage/boltz"
	"go.etcd.io/bbolt"
)

func init() {
	extraWirings["C15mxp"] = func() *wiring { return wiringC15Multi("C15mxp", []string{"px", "pc"}) }
	extraWirings["C15mpx"] = func() *wiring { return wiringC15Multi("C15mpx", []string{"pc", "px"}) }
	extraWirings["C15mpp"] = func() *wiring { return wiringC15Multi("C15mpp", []string{"pc", "pd"}) }
	extraWirings["C15m3"] = func() *wiring { return wiringC15Multi("C15m3", []string{"pd", "px", "pc"}) }
	c15Wirings = append(c15Wirings, "C15mxp", "C15mpx", "C15mpp", "C15m3")
}

// wiringC15Multi: root org (fk target) and the parent p (unique index, set index, non-null fk index to org) with the
// child stores named in kids, registered in that order:
//
//	px  EXTENDED, fields xcode / xnote, nullable unique index on xcode
//	pc  plain, fields ckey / csite / cnote, unique index on ckey, nullable fk index csite -> org (back-reference set pcs)
//	pd  plain, fields dkey / dnote, nullable unique index on dkey, set index over the parent's string list marks
//
// Field names are distinct across the family (a patch entered through the parent may name any of them).
func wiringC15Multi(name string, kids []string) *wiring {
	w := &wiring{Name: name, Stores: []*sStore{
		{Name: "org", Fields: []sField{{Name: "label"}}},
		{Name: "p", Fields: []sField{{Name: "name"}, {Name: "nick", Ptr: true}, {Name: "org"}}, Sets: []string{"roles", "marks"}},
	}, Script: []wiringDecl{
		{Kind: "unique", Store: "org", Field: "label"},
		{Kind: "unique", Store: "p", Field: "name"},
		{Kind: "setidx", Store: "p", Field: "roles"},
		{Kind: "fkindex", Store: "p", Field: "org", Target: "org", Back: "ps"},
	}}
	for _, k := range kids {
		switch k {
		case "px":
			w.Stores = append(w.Stores, &sStore{Name: "px", Parent: "p", Ext: true, Fields: []sField{{Name: "xcode", Ptr: true}, {Name: "xnote"}}})
			w.Script = append(w.Script, wiringDecl{Kind: "unique", Store: "px", Field: "xcode", Nullable: true})
		case "pc":
			w.Stores = append(w.Stores, &sStore{Name: "pc", Parent: "p", Fields: []sField{{Name: "ckey"}, {Name: "csite", Ptr: true}, {Name: "cnote", Ptr: true}}})
			w.Script = append(w.Script, wiringDecl{Kind: "unique", Store: "pc", Field: "ckey"},
				wiringDecl{Kind: "fkindex", Store: "pc", Field: "csite", Target: "org", Back: "pcs", Nullable: true})
		case "pd":
			w.Stores = append(w.Stores, &sStore{Name: "pd", Parent: "p", Fields: []sField{{Name: "dkey", Ptr: true}, {Name: "dnote"}}})
			w.Script = append(w.Script, wiringDecl{Kind: "unique", Store: "pd", Field: "dkey", Nullable: true},
				wiringDecl{Kind: "setidx", Store: "pd", Field: "marks"})
		}
	}
	return w
}

// c15LookupsOn: the lookup reads are part of the observation (off for the C16 stream, like the paged reads)
var c15LookupsOn = true

// c15ProbeIds: the id universe of the generator and every id the root store holds, each once, in byte order
func (h *harnessDb) c15ProbeIds(tx *bbolt.Tx, root string) []string {
	seen := map[string]bool{}
	var out []string
	for _, id := range plainIds {
		if !seen[id] {
			seen[id] = true
			out = append(out, id)
		}
	}
	for c := h.stores[root].IterateIds(tx, ast.BoolNodeTrue); c.IsValid(); c.Next() {
		if id := string(c.Current()); !seen[id] {
			seen[id] = true
			out = append(out, id)
		}
	}
	sort.Strings(out)
	return out
}

func c15EntDiff(a, b *gEnt) string {
	if a == nil || b == nil {
		if a != b {
			return "nil-entity"
		}
		return ""
	}
	if a.Id != b.Id {
		return "id"
	}
	if a.IsSystem != b.IsSystem {
		return "isSystem"
	}
	for _, m := range [][2]map[string]*string{{a.F, b.F}, {b.F, a.F}} {
		for f, v := range m[0] {
			w, ok := m[1][f]
			if !ok || (v == nil) != (w == nil) || (v != nil && *v != *w) {
				return "field-" + f
			}
		}
	}
	for _, m := range [][2]map[string][]string{{a.S, b.S}, {b.S, a.S}} {
		for f, v := range m[0] {
			if strings.Join(v, "\x00") != strings.Join(m[1][f], "\x00") {
				return "set-" + f
			}
		}
	}
	return ""
}

func c15HexList(xs []string) string {
	out := make([]string, 0, len(xs))
	for _, x := range xs {
		out = append(out, hxs(x))
	}
	sort.Strings(out)
	return strings.Join(out, ".")
}

// c15LookupReads appends the LK / LKD / RE tokens for every store of a family (a parent store with child stores, and
// its child stores)
func (h *harnessDb) c15LookupReads(tx *bbolt.Tx, sb *strings.Builder) {
	hasKids := map[string]bool{}
	for _, def := range h.w.Stores {
		if def.Parent != "" {
			hasKids[def.Parent] = true
		}
	}
	for _, def := range h.w.Stores {
		gs := h.stores[def.Name]
		root := rootName(def)
		if !hasKids[root] {
			continue
		}
		probes := h.c15ProbeIds(tx, root)
		got := map[string][]string{}
		add := func(tag, id string) { got[tag] = append(got[tag], hxs(id)) }
		for _, id := range probes {
			e1, found, err := gs.FindById(tx, id)
			if err != nil {
				add("fb", "ERR@"+id)
			} else if found {
				add("fb", id)
			}
			e2, err := gs.LoadById(tx, id)
			switch {
			case err == nil && e2 != nil:
				add("lb", id)
			case err != nil && !boltz.IsErrNotFoundErr(err):
				add("lb", "ERR@"+id)
			}
			e3 := gs.NewStoreEntity()
			ok3, err := gs.LoadEntity(tx, id, e3)
			if err != nil {
				add("le", "ERR@"+id)
			} else if ok3 {
				add("le", id)
			}
			if gs.IsEntityPresent(tx, id) {
				add("ep", id)
			}
			if gs.GetEntityBucket(tx, []byte(id)) != nil {
				add("eb", id)
			}
			vc := gs.IterateValidIds(tx, ast.BoolNodeTrue)
			vc.Seek([]byte(id))
			if vc.IsValid() && string(vc.Current()) == id {
				add("vi", id)
			}
			// the entities the loading variants hand out for one id are the same entity
			if found && e1 != nil && e2 != nil {
				if d := c15EntDiff(e1, e2); d != "" {
					fmt.Fprintf(sb, " LKD:%s:%s:FindById-LoadById-%s", def.Name, hxs(id), hxs(d))
				}
			}
			if found && e1 != nil && ok3 {
				if d := c15EntDiff(e1, e3); d != "" {
					fmt.Fprintf(sb, " LKD:%s:%s:FindById-LoadEntity-%s", def.Name, hxs(id), hxs(d))
				}
			}
			// string-list helpers on top of GetEntityBucket, for the string lists of the root store
			for _, sf := range h.w.store(root).Sets {
				l := gs.GetRelatedEntitiesIdList(tx, id, sf)
				var c []string
				for cur := gs.GetRelatedEntitiesCursor(tx, id, sf, true); cur.IsValid(); cur.Next() {
					c = append(c, string(cur.Current()))
				}
				asked := map[string]bool{"zz": true}
				for _, x := range l {
					asked[x] = true
				}
				for _, x := range c {
					asked[x] = true
				}
				var r []string
				for x := range asked {
					if gs.IsEntityRelated(tx, id, sf, x) {
						r = append(r, x)
					}
				}
				if len(l)+len(c)+len(r) > 0 {
					fmt.Fprintf(sb, " RE:%s:%s:%s:%s:%s:%s", def.Name, hxs(id), sf, c15HexList(l), c15HexList(c), c15HexList(r))
				}
			}
		}
		for _, tag := range []string{"fb", "lb", "le", "ep", "eb", "vi"} {
			fmt.Fprintf(sb, " LK:%s:%s:%s", def.Name, tag, strings.Join(got[tag], ","))
		}
	}
}
